(* conversions between decimal strings / OCaml ints and the extracted Coq numbers.
   Zarith's Z is used only for text <-> binary; all model arithmetic is the extracted code. *)
module M = Model

let rec pos_of_z (n : Z.t) : M.positive =
  if Z.equal n Z.one then M.XH
  else if Z.is_even n then M.XO (pos_of_z (Z.shift_right n 1))
  else M.XI (pos_of_z (Z.shift_right n 1))

let cz_of_z (n : Z.t) : M.z =
  match Z.sign n with
  | 0 -> M.Z0
  | 1 -> M.Zpos (pos_of_z n)
  | _ -> M.Zneg (pos_of_z (Z.neg n))

let rec z_of_pos (p : M.positive) : Z.t =
  match p with
  | M.XH -> Z.one
  | M.XO q -> Z.shift_left (z_of_pos q) 1
  | M.XI q -> Z.succ (Z.shift_left (z_of_pos q) 1)

let z_of_cz (n : M.z) : Z.t =
  match n with
  | M.Z0 -> Z.zero
  | M.Zpos p -> z_of_pos p
  | M.Zneg p -> Z.neg (z_of_pos p)

let cz s = cz_of_z (Z.of_string s)
let czi i = cz_of_z (Z.of_int i)
let sz n = Z.to_string (z_of_cz n)
let iz n = Z.to_int (z_of_cz n)

let rec nat_of_int i : M.nat = if i <= 0 then M.O else M.S (nat_of_int (i - 1))
let rec int_of_nat (n : M.nat) = match n with M.O -> 0 | M.S m -> 1 + int_of_nat m

let sbool b = if b then "1" else "0"
let slist f l = String.concat " " (List.map f l)

(* trace reading: a trace is a list of cases; each case has a name and lines of tokens *)
let read_cases (path : string) : (string * string list list) list =
  let ic = open_in path in
  let cases = ref [] and cur = ref None in
  let flush () =
    match !cur with
    | Some (n, ls) -> cases := (n, List.rev ls) :: !cases
    | None -> () in
  (try
     while true do
       let l = input_line ic in
       let toks = List.filter (fun s -> s <> "") (String.split_on_char ' ' l) in
       match toks with
       | [] -> ()
       | "case" :: n :: _ -> flush (); cur := Some (n, [])
       | _ -> (match !cur with
               | Some (n, ls) -> cur := Some (n, toks :: ls)
               | None -> cur := Some ("anon", [toks]))
     done
   with End_of_file -> ());
  flush (); close_in ic;
  let all = List.rev !cases in
  (* VERIF_SHARD=k/n : keep only cases whose index is k modulo n (parallel comparison) *)
  match Sys.getenv_opt "VERIF_SHARD" with
  | Some s -> (match String.split_on_char '/' s with
               | [k; n] -> let k = int_of_string k and n = int_of_string n in
                           List.filteri (fun i _ -> i mod n = k) all
               | _ -> all)
  | None -> all

let mismatches = ref 0
let records = ref 0
let report case_name lineno what model impl =
  incr mismatches;
  if !mismatches <= 50 then
    Printf.printf "MISMATCH case=%s line=%d %s model=[%s] impl=[%s]\n" case_name lineno what model impl
