(* C20 — interleaving semantics of the abstract language (definitions only).

   A goroutine is a continuation (a stack of pending statements and open exit scopes) plus its
   own lock set.  Goroutines do not share anything else in this abstraction, so a goroutine's
   steps are thread-local; WHEN a goroutine may take a step (blocking of Lock / RLock on a mutex
   held elsewhere, channel readiness, scheduling) is an arbitrary predicate [enabled] of the whole
   configuration: every statement proved about reachable configurations holds for every such
   predicate, in particular for the blocking behaviour of Go's mutexes with per-instance
   identities and writer preference. *)
From Coq Require Import List Arith Bool.
From Sctp Require Import LockLang.
Import ListNotations.

Inductive kitem := KStmt (s : stmt) | KBlk.
Definition cont := list kitem.

(* leave the n-th enclosing exit scope *)
Fixpoint pop_blocks (n : nat) (k : cont) : cont :=
  match k with
  | [] => []
  | KBlk :: k' => match n with O => k' | S n' => pop_blocks n' k' end
  | KStmt _ :: k' => pop_blocks n k'
  end.

Definition tstate := (cont * lockset)%type.

Section Sem.
  Variable p : lg_program.
  Variable v : nat -> bool.        (* valuation of the configuration flags *)

  Inductive tstep : tstate -> tstate -> Prop :=
  | ts_skip : forall k h, tstep (KStmt SSkip :: k, h) (k, h)
  | ts_atom : forall a k h, tstep (KStmt (SAtom a) :: k, h) (k, atom_apply a h)
  | ts_call : forall f k h, tstep (KStmt (SCall f) :: k, h) (KStmt (lg_body p f) :: k, h)
  | ts_seq : forall a b k h, tstep (KStmt (SSeq a b) :: k, h) (KStmt a :: KStmt b :: k, h)
  | ts_choice_l : forall a b k h, tstep (KStmt (SChoice a b) :: k, h) (KStmt a :: k, h)
  | ts_choice_r : forall a b k h, tstep (KStmt (SChoice a b) :: k, h) (KStmt b :: k, h)
  | ts_loop_exit : forall b k h, tstep (KStmt (SLoop b) :: k, h) (k, h)
  | ts_loop_enter : forall b k h, tstep (KStmt (SLoop b) :: k, h) (KStmt b :: KStmt (SLoop b) :: k, h)
  | ts_block : forall b k h, tstep (KStmt (SBlock b) :: k, h) (KStmt b :: KBlk :: k, h)
  | ts_blk_end : forall k h, tstep (KBlk :: k, h) (k, h)
  | ts_exit : forall n k h, tstep (KStmt (SExit n) :: k, h) (pop_blocks n k, h)
  | ts_flag : forall fl a b k h, tstep (KStmt (SIfFlag fl a b) :: k, h) (KStmt (if v fl then a else b) :: k, h).

  Inductive tsteps : tstate -> tstate -> Prop :=
  | tss_refl : forall t, tsteps t t
  | tss_step : forall t1 t2 t3, tsteps t1 t2 -> tstep t2 t3 -> tsteps t1 t3.

  (* a goroutine starts by calling a root with no lock held *)
  Definition tinit (r : nat) : tstate := ([KStmt (SCall r)], ls_empty (lg_p_nmutex p)).

  Definition config := list tstate.

  Fixpoint upd {A} (i : nat) (x : A) (l : list A) : list A :=
    match l, i with
    | [], _ => []
    | _ :: t, O => x :: t
    | y :: t, S i' => y :: upd i' x t
    end.

  Variable enabled : config -> nat -> Prop.

  Inductive gstep : config -> config -> Prop :=
  | gs_step : forall c i t t', nth_error c i = Some t -> enabled c i -> tstep t t' -> gstep c (upd i t' c).

  Inductive gsteps : config -> config -> Prop :=
  | gss_refl : forall c, gsteps c c
  | gss_step : forall c1 c2 c3, gsteps c1 c2 -> gstep c2 c3 -> gsteps c1 c3.

  (* any number of goroutines, each running some root *)
  Definition ginit (c : config) : Prop := Forall (fun t => exists r, In r (lg_p_roots p) /\ t = tinit r) c.

  Definition greachable (c : config) : Prop := exists c0, ginit c0 /\ gsteps c0 c.

  (* the next thing a goroutine will do *)
  Definition next_atom (t : tstate) : option atom :=
    match fst t with KStmt (SAtom a) :: _ => Some a | _ => None end.
End Sem.
