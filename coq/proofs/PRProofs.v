(* Partial reliability (C06, C07): lemmas about coq/model/PR.v. *)
From Coq Require Import ZArith Bool List Lia.
From Coq Require Import ZifyBool.
From Sctp Require Import Gen SnaProofs RPQ RQ RQProofs StreamW StreamWProofs PR.
Import ListNotations.
Open Scope Z_scope.
Ltac Zify.zify_post_hook ::= Z.div_mod_to_equations.

(* ================================================================ message table *)

Lemma pr_minfo_get_id m l x : pr_minfo_get m l = Some x -> pr_m_id x = m.
Proof.
  induction l as [|y r IH]; cbn [pr_minfo_get]; [discriminate|].
  destruct (pr_m_id y =? m) eqn:E; [intros H; inversion H; subst; lia|exact IH].
Qed.

Lemma pr_minfo_upd_get m f l k :
  (forall x, pr_m_id (f x) = pr_m_id x) ->
  pr_minfo_get k (pr_minfo_upd m f l) =
  if k =? m then option_map f (pr_minfo_get k l) else pr_minfo_get k l.
Proof.
  intros Hf. induction l as [|y r IH]; cbn [pr_minfo_upd pr_minfo_get].
  - destruct (k =? m); reflexivity.
  - destruct (pr_m_id y =? m) eqn:E.
    + cbn [pr_minfo_get]. rewrite Hf. destruct (pr_m_id y =? k) eqn:E2.
      * replace (k =? m) with true by lia. reflexivity.
      * destruct (k =? m) eqn:E3; [lia|reflexivity].
    + cbn [pr_minfo_get]. destruct (pr_m_id y =? k) eqn:E2.
      * replace (k =? m) with false by lia. reflexivity.
      * exact IH.
Qed.

Lemma pr_minfo_get_app k l x :
  pr_minfo_get k (l ++ [x]) =
  match pr_minfo_get k l with Some y => Some y | None => if pr_m_id x =? k then Some x else None end.
Proof.
  induction l as [|y r IH]; cbn [app pr_minfo_get]; [reflexivity|].
  destruct (pr_m_id y =? k); [reflexivity|exact IH].
Qed.

(* flags only ever go from false to true; entries are never removed; the dcep bit of an entry is fixed *)
Definition pr_msgs_le (m1 m2 : list pr_minfo) : Prop :=
  forall k x, pr_minfo_get k m1 = Some x ->
    exists y, pr_minfo_get k m2 = Some y /\
      (pr_m_aband x = true -> pr_m_aband y = true) /\
      (pr_m_allinfl x = true -> pr_m_allinfl y = true) /\
      pr_m_dcep y = pr_m_dcep x.

Lemma pr_msgs_le_refl m : pr_msgs_le m m.
Proof. intros k x H. exists x. auto. Qed.

Lemma pr_msgs_le_trans a b c : pr_msgs_le a b -> pr_msgs_le b c -> pr_msgs_le a c.
Proof.
  intros H1 H2 k x Hx. destruct (H1 k x Hx) as (y & Hy & A1 & A2 & A3).
  destruct (H2 k y Hy) as (z & Hz & B1 & B2 & B3). exists z. repeat split; auto. congruence.
Qed.

Lemma pr_set_aband_le m l : pr_msgs_le l (pr_set_aband m l).
Proof.
  intros k x Hx. unfold pr_set_aband. rewrite pr_minfo_upd_get by reflexivity.
  destruct (k =? m); rewrite Hx; cbn; eexists; split; try reflexivity; cbn; auto.
Qed.

Lemma pr_set_allinfl_le m l : pr_msgs_le l (pr_set_allinfl m l).
Proof.
  intros k x Hx. unfold pr_set_allinfl. rewrite pr_minfo_upd_get by reflexivity.
  destruct (k =? m); rewrite Hx; cbn; eexists; split; try reflexivity; cbn; auto.
Qed.

Lemma pr_app_le l x : pr_minfo_get (pr_m_id x) l = None -> pr_msgs_le l (l ++ [x]).
Proof.
  intros Hn k y Hy. rewrite pr_minfo_get_app, Hy. exists y. auto.
Qed.

Lemma pr_check_status_le s msgs c now : pr_msgs_le msgs (pr_check_status s msgs c now).
Proof.
  unfold pr_check_status.
  destruct (negb (pr_enabled s)); [apply pr_msgs_le_refl|].
  destruct (pr_dcep c); [apply pr_msgs_le_refl|].
  destruct (pr_pol_get (pr_sid c) (pr_pol s)) as [[rt rv]|]; [|apply pr_msgs_le_refl].
  destruct (rt =? c_ReliabilityTypeRexmit).
  - destruct (pr_nsent c >=? rv); [apply pr_set_aband_le|apply pr_msgs_le_refl].
  - destruct (rt =? c_ReliabilityTypeTimed); [|apply pr_msgs_le_refl].
    destruct (pr_elapsed_ms now (pr_first c) >=? rv); [apply pr_set_aband_le|apply pr_msgs_le_refl].
Qed.

Lemma pr_msgs_le_abandoned m1 m2 k : pr_msgs_le m1 m2 -> pr_msg_abandoned m1 k = true -> pr_msg_abandoned m2 k = true.
Proof.
  unfold pr_msg_abandoned. intros H. destruct (pr_minfo_get k m1) as [x|] eqn:E; [|discriminate].
  destruct (H k x E) as (y & Hy & A1 & A2 & _). rewrite Hy. intros Hx. apply andb_true_iff in Hx. destruct Hx.
  apply andb_true_iff. auto.
Qed.

Lemma pr_msgs_le_flag m1 m2 k : pr_msgs_le m1 m2 -> pr_msg_flag m1 k = true -> pr_msg_flag m2 k = true.
Proof.
  unfold pr_msg_flag. intros H. destruct (pr_minfo_get k m1) as [x|] eqn:E; [|discriminate].
  destruct (H k x E) as (y & Hy & A1 & _). rewrite Hy. auto.
Qed.

Lemma pr_msgs_le_allinfl m1 m2 k : pr_msgs_le m1 m2 -> pr_msg_allinfl m1 k = true -> pr_msg_allinfl m2 k = true.
Proof.
  unfold pr_msg_allinfl. intros H. destruct (pr_minfo_get k m1) as [x|] eqn:E; [|discriminate].
  destruct (H k x E) as (y & Hy & _ & A2 & _). rewrite Hy. auto.
Qed.

Lemma pr_abandoned_split msgs k : pr_msg_abandoned msgs k = pr_msg_flag msgs k && pr_msg_allinfl msgs k.
Proof. unfold pr_msg_abandoned, pr_msg_flag, pr_msg_allinfl. destruct (pr_minfo_get k msgs); reflexivity. Qed.

(* ================================================================ list access *)

Lemma pr_upd_nth_length l n x : length (pr_upd_nth l n x) = length l.
Proof. revert n; induction l as [|a r IH]; intros [|n]; cbn; auto. Qed.

Lemma pr_upd_nth_nth l n x m :
  nth_error (pr_upd_nth l n x) m =
  if Nat.eqb n m then (if Nat.ltb n (length l) then Some x else None) else nth_error l m.
Proof.
  revert n m; induction l as [|a r IH]; intros [|n] [|m]; cbn [pr_upd_nth nth_error length Nat.eqb]; try reflexivity.
  - destruct (Nat.eqb n m); reflexivity.
  - rewrite IH. destruct (Nat.eqb n m); [|reflexivity].
    change (Nat.ltb (S n) (S (length r))) with (Nat.ltb n (length r)). reflexivity.
Qed.

Lemma pr_get_inv l t c :
  pr_get l t = Some c ->
  exists c0 r, l = c0 :: r /\ wrap32 (t - pr_tsn c0) < Z.of_nat (length l) /\
               nth_error l (Z.to_nat (wrap32 (t - pr_tsn c0))) = Some c.
Proof.
  unfold pr_get. destruct l as [|c0 r]; [discriminate|].
  destruct (wrap32 (t - pr_tsn c0) >=? Z.of_nat (length (c0 :: r))) eqn:E; [discriminate|].
  intros H. exists c0, r. repeat split; [lia|exact H].
Qed.

Lemma pr_get_in l t c : pr_get l t = Some c -> In c l.
Proof. intros H. destruct (pr_get_inv _ _ _ H) as (c0 & r & _ & _ & Hn). eapply nth_error_In; eauto. Qed.

Lemma pr_put_length l t x : length (pr_put l t x) = length l.
Proof. unfold pr_put. destruct l; [reflexivity|apply pr_upd_nth_length]. Qed.

(* replacing the chunk found by get: position-wise description *)
Lemma pr_put_nth l t c x :
  pr_get l t = Some c ->
  exists n, nth_error l n = Some c /\ (n < length l)%nat /\
    forall m, nth_error (pr_put l t x) m = if Nat.eqb n m then Some x else nth_error l m.
Proof.
  intros H. destruct (pr_get_inv _ _ _ H) as (c0 & r & El & Hlt & Hn).
  exists (Z.to_nat (wrap32 (t - pr_tsn c0))). split; [exact Hn|]. split.
  - unfold wrap32 in *. lia.
  - intros m. subst l.
    change (pr_put (c0 :: r) t x) with (pr_upd_nth (c0 :: r) (Z.to_nat (wrap32 (t - pr_tsn c0))) x).
    rewrite pr_upd_nth_nth.
    destruct (Nat.eqb _ m); [|reflexivity].
    replace (Nat.ltb _ (length (c0 :: r))) with true; [reflexivity|].
    symmetry. apply Nat.ltb_lt. unfold wrap32 in *. lia.
Qed.

Lemma pr_put_Forall (P : pr_chunk -> Prop) l t c x :
  pr_get l t = Some c -> Forall P l -> P x -> Forall P (pr_put l t x).
Proof.
  intros Hg Hl Hx. destruct (pr_put_nth l t c x Hg) as (n & _ & _ & Hm).
  apply Forall_forall. intros y Hy. apply In_nth_error in Hy. destruct Hy as [m Hy].
  rewrite Hm in Hy. destruct (Nat.eqb n m).
  - inversion Hy; subst; exact Hx.
  - rewrite Forall_forall in Hl. apply Hl. eapply nth_error_In; eauto.
Qed.

(* ... and what an arbitrary element of the new list is *)
Lemma pr_put_In l t c x y : pr_get l t = Some c -> In y (pr_put l t x) -> y = x \/ In y l.
Proof.
  intros Hg Hy. destruct (pr_put_nth l t c x Hg) as (n & _ & _ & Hm).
  apply In_nth_error in Hy. destruct Hy as [m Hy]. rewrite Hm in Hy.
  destruct (Nat.eqb n m); [inversion Hy; auto|right; eapply nth_error_In; eauto].
Qed.

(* ================================================================ generic facts about the steps *)

Lemma pr_set_aband_flag m l : pr_minfo_get m l <> None -> pr_msg_flag (pr_set_aband m l) m = true.
Proof.
  intros H. unfold pr_msg_flag, pr_set_aband. rewrite pr_minfo_upd_get by reflexivity.
  replace (m =? m) with true by lia. destruct (pr_minfo_get m l); [reflexivity|congruence].
Qed.

Lemma pr_msgs_le_some m1 m2 k : pr_msgs_le m1 m2 -> pr_minfo_get k m1 <> None -> pr_minfo_get k m2 <> None.
Proof.
  intros H Hk. destruct (pr_minfo_get k m1) as [x|] eqn:E; [|congruence].
  destruct (H k x E) as (y & Hy & _). congruence.
Qed.

(* every in-flight chunk has its head in the message table *)
Definition pr_ent (s : pr_state) : Prop :=
  Forall (fun c => pr_minfo_get (pr_msg c) (pr_msgs s) <> None) (pr_infl s).

(* the suffix left by the pop loop *)
Lemma pr_pop_acked_suffix : forall fuel l idx newcum l1,
  pr_pop_acked fuel l idx newcum = Some l1 -> exists k, l1 = skipn k l.
Proof.
  induction fuel as [|f IH]; intros l idx newcum l1; cbn [pr_pop_acked]; [discriminate|].
  destruct (negb (sna32LTE idx newcum)).
  - intros H; inversion H; subst. exists 0%nat. reflexivity.
  - destruct l as [|c r]; [discriminate|].
    destruct (pr_tsn c =? idx); [|discriminate].
    intros H. destruct (IH _ _ _ _ H) as [k Hk]. exists (S k). exact Hk.
Qed.

Lemma Forall_skipn {A} (P : A -> Prop) k l : Forall P l -> Forall P (skipn k l).
Proof.
  revert l; induction k as [|k IH]; intros l H; [exact H|].
  destruct l as [|a r]; [constructor|]. inversion H; subst. cbn. apply IH; assumption.
Qed.

Definition pr_ackd (c : pr_chunk) : pr_chunk := pr_with c (pr_nsent c) true false (pr_first c).

Lemma pr_mark_one_Forall (P : pr_chunk -> Prop) l t l' :
  (forall c, P c -> P (pr_ackd c)) -> Forall P l -> pr_mark_one l t = Some l' -> Forall P l'.
Proof.
  intros Hack Hl. unfold pr_mark_one. destruct (pr_get l t) as [c|] eqn:Eg; [|discriminate].
  destruct (pr_acked c); intros H; inversion H; subst; [exact Hl|].
  eapply pr_put_Forall; eauto. apply Hack. rewrite Forall_forall in Hl. apply Hl. eapply pr_get_in; eauto.
Qed.

Lemma pr_mark_range_Forall (P : pr_chunk -> Prop) : forall n l cum i l',
  (forall c, P c -> P (pr_ackd c)) -> Forall P l -> pr_mark_range n l cum i = Some l' -> Forall P l'.
Proof.
  induction n as [|n IH]; intros l cum i l' Hack Hl; cbn [pr_mark_range].
  - intros H; inversion H; subst; exact Hl.
  - destruct (pr_mark_one l (wrap32 (cum + i))) as [l1|] eqn:E; [|discriminate].
    intros H. eapply IH; [exact Hack| |exact H]. eapply pr_mark_one_Forall; eauto.
Qed.

Lemma pr_mark_gaps_Forall (P : pr_chunk -> Prop) : forall gaps l cum l',
  (forall c, P c -> P (pr_ackd c)) -> Forall P l -> pr_mark_gaps gaps l cum = Some l' -> Forall P l'.
Proof.
  induction gaps as [|[gs ge] r IH]; intros l cum l' Hack Hl; cbn [pr_mark_gaps].
  - intros H; inversion H; subst; exact Hl.
  - destruct (pr_mark_range _ l cum gs) as [l1|] eqn:E; [|discriminate].
    intros H. eapply IH; [exact Hack| |exact H]. eapply pr_mark_range_Forall; eauto.
Qed.

(* pr_advance touches only adv and willfwd *)
Lemma pr_advance_fields s c1 :
  pr_infl (pr_advance s c1) = pr_infl s /\ pr_msgs (pr_advance s c1) = pr_msgs s /\ pr_pol (pr_advance s c1) = pr_pol s /\
  pr_cum (pr_advance s c1) = pr_cum s /\ pr_next (pr_advance s c1) = pr_next s /\
  pr_usefwd (pr_advance s c1) = pr_usefwd s /\ pr_useifwd (pr_advance s c1) = pr_useifwd s.
Proof. unfold pr_advance. destruct (negb (pr_enabled s)); cbn; repeat split; reflexivity. Qed.

(* the in-flight list and the message table after an accepted SACK *)
Lemma pr_sack_shape s cum gaps s' :
  pr_sack s cum gaps = Some s' ->
  pr_msgs s' = pr_msgs s /\ pr_pol s' = pr_pol s /\ pr_usefwd s' = pr_usefwd s /\ pr_useifwd s' = pr_useifwd s /\
  pr_next s' = pr_next s /\
  (pr_infl s' = pr_infl s \/
   exists k l2, pr_mark_gaps gaps (skipn k (pr_infl s)) cum = Some l2 /\ pr_infl s' = l2).
Proof.
  unfold pr_sack. destruct (sna32GT (pr_cum s) cum); [intros H; inversion H; subst; repeat split; auto|].
  destruct (negb (pr_sack_valid s cum gaps)); [intros H; inversion H; subst; repeat split; auto|].
  destruct (pr_pop_acked _ _ _ _) as [l1|] eqn:Ep; [|discriminate].
  destruct (pr_mark_gaps gaps l1 cum) as [l2|] eqn:Em; [|discriminate].
  intros H; inversion H; subst. clear H.
  destruct (pr_advance_fields (mkPrState l2 (pr_msgs s) (pr_pol s) (if sna32LT (pr_cum s) cum then cum else pr_cum s) (pr_adv s)
                                         (pr_next s) (pr_usefwd s) (pr_useifwd s) (pr_willfwd s)) true)
    as (A1 & A2 & A3 & A4 & A5 & A6 & A7).
  rewrite A1, A2, A3, A5, A6, A7. cbn. repeat split; auto.
  right. destruct (pr_pop_acked_suffix _ _ _ _ _ Ep) as [k Hk]. subst l1. eauto.
Qed.

Lemma pr_sack_Forall (P : pr_chunk -> Prop) s cum gaps s' :
  (forall c, P c -> P (pr_ackd c)) -> Forall P (pr_infl s) -> pr_sack s cum gaps = Some s' -> Forall P (pr_infl s').
Proof.
  intros Hack Hl H. destruct (pr_sack_shape _ _ _ _ H) as (_ & _ & _ & _ & _ & [E|(k & l2 & Em & E)]); rewrite E; [exact Hl|].
  eapply pr_mark_gaps_Forall; [exact Hack| |exact Em]. apply Forall_skipn. exact Hl.
Qed.

Lemma pr_gather_fields s :
  pr_infl (fst (pr_gather_fwd s)) = pr_infl s /\ pr_msgs (fst (pr_gather_fwd s)) = pr_msgs s /\
  pr_pol (fst (pr_gather_fwd s)) = pr_pol s /\ pr_cum (fst (pr_gather_fwd s)) = pr_cum s /\
  pr_adv (fst (pr_gather_fwd s)) = pr_adv s /\ pr_next (fst (pr_gather_fwd s)) = pr_next s /\
  pr_usefwd (fst (pr_gather_fwd s)) = pr_usefwd s /\ pr_useifwd (fst (pr_gather_fwd s)) = pr_useifwd s.
Proof.
  unfold pr_gather_fwd. destruct (pr_willfwd s); [|cbn; repeat split; reflexivity].
  destruct (sna32GT (pr_adv s) (pr_cum s)); [|cbn; repeat split; reflexivity].
  destruct (pr_useifwd s); [cbn; repeat split; reflexivity|].
  destruct (pr_usefwd s); cbn; repeat split; reflexivity.
Qed.

(* the send step, opened up *)
Lemma pr_send_shape s c now s' :
  pr_send s c now = Some s' ->
  exists m2, pr_msgs_le (pr_msgs s) m2 /\
    (exists x, pr_minfo_get (pr_msg c) m2 = Some x /\
               (pr_beg c = true -> pr_m_dcep x = pr_dcep c /\ pr_m_aband x = false /\ pr_minfo_get (pr_msg c) (pr_msgs s) = None) /\
               (pr_beg c = false -> exists x0, pr_minfo_get (pr_msg c) (pr_msgs s) = Some x0 /\ pr_m_dcep x = pr_m_dcep x0 /\
                                               pr_m_aband x = pr_m_aband x0)) /\
    (forall k, k <> pr_msg c -> pr_minfo_get k m2 = pr_minfo_get k (pr_msgs s)) /\
    pr_tsn c = pr_next s /\
    s' = mkPrState (pr_infl s ++ [pr_with c 1 false false now]) (pr_check_status s m2 (pr_with c 1 false false now) now)
                   (pr_pol s) (pr_cum s) (pr_adv s) (wrap32 (pr_next s + 1)) (pr_usefwd s) (pr_useifwd s) (pr_willfwd s).
Proof.
  unfold pr_send. destruct (negb (pr_tsn c =? pr_next s)) eqn:Et; [discriminate|].
  destruct (pr_minfo_get (pr_msg c) (pr_msgs s)) as [x0|] eqn:Ek.
  - destruct (pr_beg c) eqn:Eb; cbn [Bool.eqb]; [discriminate|].
    intros H; inversion H; subst; clear H.
    exists (if pr_end c then pr_set_allinfl (pr_msg c) (pr_msgs s) else pr_msgs s).
    split; [destruct (pr_end c); [apply pr_set_allinfl_le|apply pr_msgs_le_refl]|].
    split; [|split; [|split; [lia|reflexivity]]].
    + destruct (pr_end c).
      * unfold pr_set_allinfl. rewrite pr_minfo_upd_get by reflexivity. replace (pr_msg c =? pr_msg c) with true by lia.
        rewrite Ek. cbn. eexists; split; [reflexivity|]. split; [discriminate|]. intros _. exists x0. cbn. auto.
      * exists x0. split; [exact Ek|]. split; [discriminate|]. intros _. exists x0. auto.
    + intros k Hk. destruct (pr_end c); [|reflexivity].
      unfold pr_set_allinfl. rewrite pr_minfo_upd_get by reflexivity. replace (k =? pr_msg c) with false by lia. reflexivity.
  - destruct (pr_beg c) eqn:Eb; cbn [Bool.eqb]; [|discriminate].
    intros H; inversion H; subst; clear H.
    set (x := mkPrMinfo (pr_msg c) false false (pr_dcep c)).
    exists (if pr_end c then pr_set_allinfl (pr_msg c) (pr_msgs s ++ [x]) else pr_msgs s ++ [x]).
    assert (Hle : pr_msgs_le (pr_msgs s) (pr_msgs s ++ [x])) by (apply pr_app_le; exact Ek).
    assert (Hx : pr_minfo_get (pr_msg c) (pr_msgs s ++ [x]) = Some x).
    { rewrite pr_minfo_get_app, Ek. cbn. replace (pr_msg c =? pr_msg c) with true by lia. reflexivity. }
    split; [destruct (pr_end c); [eapply pr_msgs_le_trans; [exact Hle|apply pr_set_allinfl_le]|exact Hle]|].
    split; [|split; [|split; [lia|reflexivity]]].
    + destruct (pr_end c).
      * unfold pr_set_allinfl. rewrite pr_minfo_upd_get by reflexivity. replace (pr_msg c =? pr_msg c) with true by lia.
        rewrite Hx. cbn. eexists; split; [reflexivity|]. split; [intros _; cbn; auto|discriminate].
      * exists x. split; [exact Hx|]. split; [intros _; cbn; auto|discriminate].
    + intros k Hk.
      assert (Hk2 : pr_minfo_get k (pr_msgs s ++ [x]) = pr_minfo_get k (pr_msgs s)).
      { rewrite pr_minfo_get_app. destruct (pr_minfo_get k (pr_msgs s)); [reflexivity|]. cbn. replace (pr_msg c =? k) with false by lia. reflexivity. }
      destruct (pr_end c); [|exact Hk2].
      unfold pr_set_allinfl. rewrite pr_minfo_upd_get by reflexivity. replace (k =? pr_msg c) with false by lia. exact Hk2.
Qed.

Lemma pr_with_fields c n a r f :
  pr_tsn (pr_with c n a r f) = pr_tsn c /\ pr_sid (pr_with c n a r f) = pr_sid c /\ pr_ssn (pr_with c n a r f) = pr_ssn c /\
  pr_mid (pr_with c n a r f) = pr_mid c /\ pr_unord (pr_with c n a r f) = pr_unord c /\ pr_beg (pr_with c n a r f) = pr_beg c /\
  pr_end (pr_with c n a r f) = pr_end c /\ pr_msg (pr_with c n a r f) = pr_msg c /\ pr_dcep (pr_with c n a r f) = pr_dcep c.
Proof. cbn. repeat split; reflexivity. Qed.

(* entries exist for every chunk in flight, in every reachable state *)
Lemma pr_ent_mono l m1 m2 : pr_msgs_le m1 m2 ->
  Forall (fun c => pr_minfo_get (pr_msg c) m1 <> None) l -> Forall (fun c => pr_minfo_get (pr_msg c) m2 <> None) l.
Proof. intros Hle H. eapply Forall_impl; [|exact H]. intros c Hc. eapply pr_msgs_le_some; eauto. Qed.

Lemma pr_step_ent s e s' o : pr_ent s -> pr_step s e = Some (s', o) -> pr_ent s'.
Proof.
  unfold pr_ent. intros He. destruct e as [c now|t| |t now|t|t now|cum gaps| ]; cbn [pr_step].
  - destruct (pr_send s c now) as [s1|] eqn:E; [|discriminate]. intros H; inversion H; subst; clear H.
    destruct (pr_send_shape _ _ _ _ E) as (m2 & Hle & (x & Hx & _) & _ & _ & ->). cbn [pr_infl pr_msgs].
    assert (Hle2 := pr_check_status_le s m2 (pr_with c 1 false false now) now).
    apply Forall_app. split.
    + eapply pr_ent_mono; [exact (pr_msgs_le_trans _ _ _ Hle Hle2)|exact He].
    + constructor; [|constructor]. cbn [pr_msg pr_with]. eapply pr_msgs_le_some; [exact Hle2|]. congruence.
  - unfold pr_mark. destruct (pr_get (pr_infl s) t) as [c|] eqn:Eg; [|discriminate].
    destruct (pr_acked c || pr_abandoned s c); [discriminate|]. intros H; inversion H; subst; clear H. cbn [pr_set_core pr_infl pr_msgs].
    eapply pr_put_Forall; eauto. cbn. rewrite Forall_forall in He. apply He. eapply pr_get_in; eauto.
  - intros H; inversion H; subst; clear H. unfold pr_t3, pr_mark_all_rtx. cbn [pr_set_core pr_infl pr_msgs].
    destruct (pr_advance_fields s false) as (A1 & A2 & _). rewrite A1, A2.
    apply Forall_forall. intros y Hy. apply in_map_iff in Hy. destruct Hy as (c & <- & Hc).
    rewrite Forall_forall in He. specialize (He c Hc). destruct (pr_acked c || _); cbn; exact He.
  - unfold pr_retransmit. destruct (pr_get (pr_infl s) t) as [c|] eqn:Eg; [|discriminate].
    destruct (negb (pr_rtx c) || pr_abandoned s c); [discriminate|]. intros H; inversion H; subst; clear H. cbn [pr_set_core pr_infl pr_msgs].
    eapply pr_ent_mono; [apply pr_check_status_le|].
    eapply pr_put_Forall; eauto. cbn. rewrite Forall_forall in He. apply He. eapply pr_get_in; eauto.
  - unfold pr_unmark. destruct (pr_get (pr_infl s) t) as [c|] eqn:Eg; [|discriminate].
    destruct (pr_rtx c && pr_abandoned s c); [|discriminate]. intros H; inversion H; subst; clear H. cbn [pr_set_core pr_infl pr_msgs].
    eapply pr_put_Forall; eauto. cbn. rewrite Forall_forall in He. apply He. eapply pr_get_in; eauto.
  - unfold pr_fast_retransmit. destruct (pr_get (pr_infl s) t) as [c|] eqn:Eg; [|discriminate].
    destruct (pr_acked c || pr_abandoned s c || (pr_nsent c >? 1)); [discriminate|]. intros H; inversion H; subst; clear H.
    cbn [pr_set_core pr_infl pr_msgs].
    eapply pr_ent_mono; [apply pr_check_status_le|].
    eapply pr_put_Forall; eauto. cbn. rewrite Forall_forall in He. apply He. eapply pr_get_in; eauto.
  - destruct (pr_sack s cum gaps) as [s1|] eqn:E; [|discriminate]. intros H; inversion H; subst; clear H.
    destruct (pr_sack_shape _ _ _ _ E) as (Em & _). rewrite Em.
    eapply pr_sack_Forall; [|exact He|exact E]. intros c Hc. exact Hc.
  - intros H. injection H as H. assert (Es : s' = fst (pr_gather_fwd s)) by (rewrite H; reflexivity). subst s'.
    destruct (pr_gather_fields s) as (A1 & A2 & _). rewrite A1, A2. exact He.
Qed.

(* ================================================================ C06 (d): retransmission limit *)

(* stream [sid] uses the policy "at most N retransmissions" and partial reliability is negotiated *)
Definition pr_rexmit_stream (s : pr_state) (sid N : Z) : Prop :=
  pr_pol_get sid (pr_pol s) = Some (c_ReliabilityTypeRexmit, N) /\ pr_enabled s = true.

(* no message of the stream is only partly in flight *)
Definition pr_whole (s : pr_state) (sid : Z) : Prop :=
  forall c, In c (pr_infl s) -> pr_sid c = sid -> pr_msg_allinfl (pr_msgs s) (pr_msg c) = true.

(* the events of loss recovery that select chunks: marking (RACK, PTO, T3) and fast retransmission *)
Definition pr_ev_loss (e : pr_ev) : bool :=
  match e with PrMark _ | PrT3 | PrFrtx _ _ => true | _ => false end.

(* a run all of whose steps satisfy a side condition G (evaluated in the state before the step) *)
Fixpoint pr_run_ok (G : pr_state -> pr_ev -> Prop) (s : pr_state) (evs : list pr_ev) : Prop :=
  match evs with
  | [] => True
  | e :: r => G s e /\ match pr_step s e with Some (s', _) => pr_run_ok G s' r | None => True end
  end.

(* hypothesis of pr_nsent_bound / pr_lifetime (D21 is what happens without it): whenever loss recovery
   selects chunks, every message of the stream is entirely in flight *)
Definition pr_run_whole (sid : Z) : pr_state -> list pr_ev -> Prop :=
  pr_run_ok (fun s e => pr_ev_loss e = true -> pr_whole s sid).

Definition pr_nb_chunk (sid N : Z) (msgs : list pr_minfo) (c : pr_chunk) : Prop :=
  pr_sid c = sid -> pr_dcep c = false ->
  1 <= pr_nsent c /\
  (pr_msg_flag msgs (pr_msg c) = false -> pr_nsent c < N) /\
  pr_nsent c <= Z.max N 1 /\
  (pr_rtx c = true -> pr_msg_allinfl msgs (pr_msg c) = true).

Definition pr_nb_inv (sid N : Z) (s : pr_state) : Prop := Forall (pr_nb_chunk sid N (pr_msgs s)) (pr_infl s).

Lemma pr_nb_mono sid N m1 m2 c : pr_msgs_le m1 m2 -> pr_nb_chunk sid N m1 c -> pr_nb_chunk sid N m2 c.
Proof.
  intros Hle H Hs Hd. destruct (H Hs Hd) as (I1 & I2 & J & P). repeat split; auto.
  - intros Hf. apply I2. destruct (pr_msg_flag m1 (pr_msg c)) eqn:E; [|reflexivity].
    rewrite (pr_msgs_le_flag _ _ _ Hle E) in Hf. discriminate.
  - intros Hr. eapply pr_msgs_le_allinfl; eauto.
Qed.

Lemma pr_nb_mono_all sid N m1 m2 l : pr_msgs_le m1 m2 -> Forall (pr_nb_chunk sid N m1) l -> Forall (pr_nb_chunk sid N m2) l.
Proof. intros Hle H. eapply Forall_impl; [|exact H]. intros c. apply pr_nb_mono. exact Hle. Qed.

(* the status check for a chunk of the stream *)
Lemma pr_check_rexmit s sid N msgs c now :
  pr_rexmit_stream s sid N -> pr_sid c = sid -> pr_dcep c = false ->
  pr_check_status s msgs c now = if pr_nsent c >=? N then pr_set_aband (pr_msg c) msgs else msgs.
Proof.
  intros (Hp & He) Hs Hd. unfold pr_check_status. rewrite He, Hd, Hs, Hp. cbn [negb].
  replace (c_ReliabilityTypeRexmit =? c_ReliabilityTypeRexmit) with true by reflexivity. reflexivity.
Qed.

Lemma pr_nb_after_check s sid N msgs c now :
  pr_rexmit_stream s sid N -> pr_minfo_get (pr_msg c) msgs <> None ->
  1 <= pr_nsent c -> pr_nsent c <= Z.max N 1 ->
  (pr_rtx c = true -> pr_msg_allinfl msgs (pr_msg c) = true) ->
  pr_nb_chunk sid N (pr_check_status s msgs c now) c.
Proof.
  intros Hst Hent H1 HJ HP Hs Hd. rewrite (pr_check_rexmit s sid N msgs c now Hst Hs Hd).
  split; [exact H1|]. split; [|split; [exact HJ|]].
  - destruct (pr_nsent c >=? N) eqn:E; [|intros _; lia].
    rewrite pr_set_aband_flag by exact Hent. discriminate.
  - intros Hr. destruct (pr_nsent c >=? N); [|auto]. eapply pr_msgs_le_allinfl; [apply pr_set_aband_le|auto].
Qed.

Lemma pr_step_static s e s' o sid N : pr_rexmit_stream s sid N -> pr_step s e = Some (s', o) -> pr_rexmit_stream s' sid N.
Proof.
  unfold pr_rexmit_stream, pr_enabled. intros (Hp & He).
  assert (G : pr_pol s' = pr_pol s /\ pr_usefwd s' = pr_usefwd s /\ pr_useifwd s' = pr_useifwd s -> 
              pr_pol_get sid (pr_pol s') = Some (c_ReliabilityTypeRexmit, N) /\ pr_usefwd s' || pr_useifwd s' = true).
  { intros (-> & -> & ->). auto. }
  intros H. apply G. clear G. destruct e as [c now|t| |t now|t|t now|cum gaps| ]; cbn [pr_step] in H.
  - destruct (pr_send s c now) as [s1|] eqn:E; [|discriminate]. inversion H; subst.
    destruct (pr_send_shape _ _ _ _ E) as (m2 & _ & _ & _ & _ & ->). cbn. auto.
  - unfold pr_mark in H. destruct (pr_get (pr_infl s) t) as [c|]; [|discriminate].
    destruct (pr_acked c || pr_abandoned s c); [discriminate|]. inversion H; subst. cbn. auto.
  - inversion H; subst. unfold pr_t3, pr_mark_all_rtx. cbn [pr_set_core pr_pol pr_usefwd pr_useifwd].
    destruct (pr_advance_fields s false) as (_ & _ & A3 & _ & _ & A6 & A7). auto.
  - unfold pr_retransmit in H. destruct (pr_get (pr_infl s) t) as [c|]; [|discriminate].
    destruct (negb (pr_rtx c) || pr_abandoned s c); [discriminate|]. inversion H; subst. cbn. auto.
  - unfold pr_unmark in H. destruct (pr_get (pr_infl s) t) as [c|]; [|discriminate].
    destruct (pr_rtx c && pr_abandoned s c); [|discriminate]. inversion H; subst. cbn. auto.
  - unfold pr_fast_retransmit in H. destruct (pr_get (pr_infl s) t) as [c|]; [|discriminate].
    destruct (pr_acked c || pr_abandoned s c || (pr_nsent c >? 1)); [discriminate|]. inversion H; subst. cbn. auto.
  - destruct (pr_sack s cum gaps) as [s1|] eqn:E; [|discriminate]. inversion H; subst.
    destruct (pr_sack_shape _ _ _ _ E) as (_ & A & B & C & _). auto.
  - injection H as H. assert (Es : s' = fst (pr_gather_fwd s)) by (rewrite H; reflexivity). subst s'.
    destruct (pr_gather_fields s) as (_ & _ & A3 & _ & _ & _ & A7 & A8). auto.
Qed.

Lemma pr_step_nb s e s' o sid N :
  0 <= N < 4294967295 ->
  pr_rexmit_stream s sid N -> pr_ent s -> pr_nb_inv sid N s ->
  (pr_ev_loss e = true -> pr_whole s sid) ->
  pr_step s e = Some (s', o) -> pr_nb_inv sid N s'.
Proof.
  intros HN Hst Hent Hinv Hwh. unfold pr_nb_inv in *.
  assert (Hin : forall c, In c (pr_infl s) -> pr_nb_chunk sid N (pr_msgs s) c /\ pr_minfo_get (pr_msg c) (pr_msgs s) <> None).
  { intros c Hc. split; [rewrite Forall_forall in Hinv; auto|]. unfold pr_ent in Hent. rewrite Forall_forall in Hent. auto. }
  (* a chunk that may be (re)transmitted or selected: not abandoned while its message is entirely in flight -> flag unset *)
  assert (Hsel : forall c, In c (pr_infl s) -> pr_msg_allinfl (pr_msgs s) (pr_msg c) = true -> pr_abandoned s c = false ->
                           pr_sid c = sid -> pr_dcep c = false -> 1 <= pr_nsent c < N).
  { intros c Hc Hw Ha Hs Hd. destruct (Hin c Hc) as (Hnb & _). destruct (Hnb Hs Hd) as (I1 & I2 & _).
    unfold pr_abandoned in Ha. rewrite pr_abandoned_split, Hw, andb_true_r in Ha. split; [exact I1|exact (I2 Ha)]. }
  destruct e as [c now|t| |t now|t|t now|cum gaps| ]; cbn [pr_step pr_ev_loss] in *.
  - (* send *)
    destruct (pr_send s c now) as [s1|] eqn:E; [|discriminate]. intros H; inversion H; subst; clear H.
    destruct (pr_send_shape _ _ _ _ E) as (m2 & Hle & (x & Hx & _) & _ & _ & ->). cbn [pr_infl pr_msgs].
    set (c1 := pr_with c 1 false false now).
    apply Forall_app. split.
    + eapply pr_nb_mono_all; [|exact Hinv]. eapply pr_msgs_le_trans; [exact Hle|apply pr_check_status_le].
    + constructor; [|constructor]. apply pr_nb_after_check; auto; cbn; try lia; try congruence; try discriminate.
  - (* mark *)
    unfold pr_mark. destruct (pr_get (pr_infl s) t) as [c|] eqn:Eg; [|discriminate].
    destruct (pr_acked c || pr_abandoned s c) eqn:Ea; [discriminate|]. intros H; inversion H; subst; clear H.
    cbn [pr_set_core pr_infl pr_msgs]. apply orb_false_iff in Ea. destruct Ea as [Eack Eab].
    eapply pr_put_Forall; eauto. intros Hs Hd. cbn in Hs, Hd. cbn [pr_with pr_nsent pr_rtx pr_msg].
    assert (Hc := pr_get_in _ _ _ Eg). assert (Hw := Hwh eq_refl c Hc Hs).
    destruct (Hin c Hc) as (Hnb & _). destruct (Hnb Hs Hd) as (I1 & I2 & J & _). repeat split; auto.
  - (* T3 *)
    intros H; inversion H; subst; clear H. unfold pr_t3, pr_mark_all_rtx. cbn [pr_set_core pr_infl pr_msgs].
    destruct (pr_advance_fields s false) as (A1 & A2 & _). rewrite A1, A2.
    apply Forall_forall. intros y Hy. apply in_map_iff in Hy. destruct Hy as (c & <- & Hc).
    destruct (Hin c Hc) as (Hnb & _).
    replace (pr_abandoned (pr_advance s false) c) with (pr_abandoned s c) by (unfold pr_abandoned; rewrite A2; reflexivity).
    destruct (pr_acked c || pr_abandoned s c) eqn:Ea; [exact Hnb|].
    intros Hs Hd. cbn in Hs, Hd. cbn [pr_with pr_nsent pr_rtx pr_msg].
    assert (Hw := Hwh eq_refl c Hc Hs). destruct (Hnb Hs Hd) as (I1 & I2 & J & _). repeat split; auto.
  - (* retransmission of a marked chunk (not abandoned: fix 3b069d1) *)
    unfold pr_retransmit. destruct (pr_get (pr_infl s) t) as [c|] eqn:Eg; [|discriminate].
    destruct (pr_rtx c) eqn:Er; cbn [negb orb]; [|discriminate].
    destruct (pr_abandoned s c) eqn:Eab; [discriminate|]. intros H; inversion H; subst; clear H.
    cbn [pr_set_core pr_infl pr_msgs].
    set (c1 := pr_with c (wrap32 (pr_nsent c + 1)) (pr_acked c) false (pr_first c)).
    assert (Hc := pr_get_in _ _ _ Eg). destruct (Hin c Hc) as (Hnb & Hen).
    eapply pr_put_Forall; eauto.
    + eapply pr_nb_mono_all; [apply pr_check_status_le|exact Hinv].
    + intros Hs Hd. cbn in Hs, Hd. destruct (Hnb Hs Hd) as (_ & _ & _ & P).
      destruct (Hsel c Hc (P Er) Eab Hs Hd) as (I1 & I2).
      assert (Ew : wrap32 (pr_nsent c + 1) = pr_nsent c + 1) by (unfold wrap32; lia).
      refine (pr_nb_after_check s sid N (pr_msgs s) c1 now Hst _ _ _ _ Hs Hd);
        unfold c1; cbn [pr_with pr_nsent pr_rtx pr_msg]; rewrite ?Ew; auto; try lia; try discriminate.
  - (* the mark of an abandoned chunk is cleared *)
    unfold pr_unmark. destruct (pr_get (pr_infl s) t) as [c|] eqn:Eg; [|discriminate].
    destruct (pr_rtx c && pr_abandoned s c); [|discriminate]. intros H; inversion H; subst; clear H.
    cbn [pr_set_core pr_infl pr_msgs]. eapply pr_put_Forall; eauto.
    assert (Hc := pr_get_in _ _ _ Eg). destruct (Hin c Hc) as (Hnb & _).
    intros Hs Hd. cbn in Hs, Hd. destruct (Hnb Hs Hd) as (I1 & I2 & J & _). cbn [pr_with pr_nsent pr_rtx pr_msg].
    repeat split; auto; try discriminate.
  - (* fast retransmission *)
    unfold pr_fast_retransmit. destruct (pr_get (pr_infl s) t) as [c|] eqn:Eg; [|discriminate].
    destruct (pr_acked c || pr_abandoned s c || (pr_nsent c >? 1)) eqn:Ea; [discriminate|]. intros H; inversion H; subst; clear H.
    cbn [pr_set_core pr_infl pr_msgs]. apply orb_false_iff in Ea. destruct Ea as [Ea En]. apply orb_false_iff in Ea. destruct Ea as [Eack Eab].
    set (c1 := pr_with c (wrap32 (pr_nsent c + 1)) (pr_acked c) (pr_rtx c) (pr_first c)).
    assert (Hc := pr_get_in _ _ _ Eg). destruct (Hin c Hc) as (Hnb & Hen).
    eapply pr_put_Forall; eauto.
    + eapply pr_nb_mono_all; [apply pr_check_status_le|exact Hinv].
    + intros Hs Hd. cbn in Hs, Hd. assert (Hw := Hwh eq_refl c Hc Hs). destruct (Hsel c Hc Hw Eab Hs Hd) as (I1 & I2).
      assert (Ew : wrap32 (pr_nsent c + 1) = pr_nsent c + 1) by (unfold wrap32; lia).
      refine (pr_nb_after_check s sid N (pr_msgs s) c1 now Hst _ _ _ _ Hs Hd);
        unfold c1; cbn [pr_with pr_nsent pr_rtx pr_msg]; rewrite ?Ew; auto; try lia.
  - (* SACK *)
    destruct (pr_sack s cum gaps) as [s1|] eqn:E; [|discriminate]. intros H; inversion H; subst; clear H.
    destruct (pr_sack_shape _ _ _ _ E) as (Em & _). rewrite Em.
    eapply pr_sack_Forall; [|exact Hinv|exact E].
    intros c Hc Hs Hd. cbn in Hs, Hd. destruct (Hc Hs Hd) as (I1 & I2 & J & _). cbn [pr_ackd pr_with pr_nsent pr_rtx pr_msg].
    repeat split; auto; try discriminate.
  - intros H. injection H as H. assert (Es : s' = fst (pr_gather_fwd s)) by (rewrite H; reflexivity). subst s'.
    destruct (pr_gather_fields s) as (A1 & A2 & _). rewrite A1, A2. exact Hinv.
Qed.

Lemma pr_run_ok_inv (I : pr_state -> Prop) (G : pr_state -> pr_ev -> Prop) :
  (forall s e s' o, I s -> G s e -> pr_step s e = Some (s', o) -> I s') ->
  forall evs s s' o, I s -> pr_run_ok G s evs -> pr_run s evs = Some (s', o) -> I s'.
Proof.
  intros Hstep. induction evs as [|e r IH]; intros s s' o Hi Hok; cbn [pr_run].
  - intros H; inversion H; subst; exact Hi.
  - destruct Hok as [Hg Hr]. destruct (pr_step s e) as [[s1 o1]|] eqn:E; [|discriminate].
    destruct (pr_run s1 r) as [[s2 o2]|] eqn:E2; [|discriminate]. intros H; inversion H; subst.
    eapply IH; [eapply Hstep; eauto|exact Hr|exact E2].
Qed.

Lemma pr_run_ok_and G1 G2 : forall evs s, pr_run_ok G1 s evs -> pr_run_ok G2 s evs -> pr_run_ok (fun s e => G1 s e /\ G2 s e) s evs.
Proof.
  induction evs as [|e r IH]; intros s H1 H2; cbn [pr_run_ok] in *; [exact I|].
  destruct H1 as [A1 B1], H2 as [A2 B2]. split; [auto|]. destruct (pr_step s e) as [[s1 o1]|]; [auto|exact I].
Qed.

Lemma pr_run_ok_true : forall evs s, pr_run_ok (fun _ _ => True) s evs.
Proof. induction evs as [|e r IH]; intros s; cbn [pr_run_ok]; [exact I|]. split; [exact I|]. destruct (pr_step s e) as [[s1 o1]|]; auto. Qed.

Theorem pr_nsent_bound_thm : forall sid N evs s0 s outs,
  0 <= N < 4294967295 ->
  pr_rexmit_stream s0 sid N -> pr_ent s0 -> pr_nb_inv sid N s0 ->
  pr_run_whole sid s0 evs ->
  pr_run s0 evs = Some (s, outs) ->
  forall c, In c (pr_infl s) -> pr_sid c = sid -> pr_dcep c = false -> 1 <= pr_nsent c <= Z.max N 1.
Proof.
  intros sid N evs s0 s outs HN Hst He Hi Hw Hr.
  assert (G : pr_rexmit_stream s sid N /\ pr_ent s /\ pr_nb_inv sid N s).
  { eapply (pr_run_ok_inv (fun s => pr_rexmit_stream s sid N /\ pr_ent s /\ pr_nb_inv sid N s)
                          (fun s e => pr_ev_loss e = true -> pr_whole s sid)); [| |exact Hw|exact Hr]; [|auto].
    intros s1 e s2 o (A & B & C) Hg Hs. split; [eapply pr_step_static; eauto|]. split; [eapply pr_step_ent; eauto|].
    eapply pr_step_nb; eauto. }
  destruct G as (_ & _ & G). intros c Hc Hs Hd. unfold pr_nb_inv in G. rewrite Forall_forall in G.
  destruct (G c Hc Hs Hd) as (I1 & _ & J & _). split; assumption.
Qed.

(* ================================================================ C06 (f): DCEP messages are never abandoned *)

Definition pr_dcep_f1 (msgs : list pr_minfo) (c : pr_chunk) : Prop :=
  exists x, pr_minfo_get (pr_msg c) msgs = Some x /\ pr_m_dcep x = pr_dcep c.
Definition pr_dcep_f2 (msgs : list pr_minfo) : Prop :=
  forall k x, pr_minfo_get k msgs = Some x -> pr_m_dcep x = true -> pr_m_aband x = false.
Definition pr_dcep_tab (s : pr_state) : Prop :=
  Forall (pr_dcep_f1 (pr_msgs s)) (pr_infl s) /\ pr_dcep_f2 (pr_msgs s).

(* the fragments of one message carry one payload protocol identifier (Stream.packetize) *)
Definition pr_ev_dcep_ok (s : pr_state) (e : pr_ev) : Prop :=
  match e with
  | PrSend c _ => pr_beg c = false -> forall x, pr_minfo_get (pr_msg c) (pr_msgs s) = Some x -> pr_m_dcep x = pr_dcep c
  | _ => True
  end.

Lemma pr_dcep_f1_mono m1 m2 c : pr_msgs_le m1 m2 -> pr_dcep_f1 m1 c -> pr_dcep_f1 m2 c.
Proof. intros Hle (x & Hx & Hd). destruct (Hle _ _ Hx) as (y & Hy & _ & _ & Hyd). exists y. split; [exact Hy|congruence]. Qed.

Lemma pr_check_status_dcep s msgs c now : pr_dcep_f1 msgs c -> pr_dcep_f2 msgs -> pr_dcep_f2 (pr_check_status s msgs c now).
Proof.
  intros (x & Hx & Hd) H2. unfold pr_check_status.
  destruct (negb (pr_enabled s)); [exact H2|].
  destruct (pr_dcep c) eqn:Edc; [exact H2|].
  assert (G : pr_dcep_f2 (pr_set_aband (pr_msg c) msgs)).
  { intros k y. unfold pr_set_aband. rewrite pr_minfo_upd_get by reflexivity. destruct (k =? pr_msg c) eqn:Ek.
    - assert (k = pr_msg c) by lia. subst k. rewrite Hx. cbn. intros Hy; inversion Hy; subst; cbn. congruence.
    - apply H2. }
  destruct (pr_pol_get (pr_sid c) (pr_pol s)) as [[rt rv]|]; [|exact H2].
  destruct (rt =? c_ReliabilityTypeRexmit); [destruct (pr_nsent c >=? rv); auto|].
  destruct (rt =? c_ReliabilityTypeTimed); [|exact H2]. destruct (pr_elapsed_ms now (pr_first c) >=? rv); auto.
Qed.

Lemma pr_step_dcep s e s' o : pr_dcep_tab s -> pr_ev_dcep_ok s e -> pr_step s e = Some (s', o) -> pr_dcep_tab s'.
Proof.
  unfold pr_dcep_tab. intros (F1 & F2) Hok.
  assert (Hin : forall c, In c (pr_infl s) -> pr_dcep_f1 (pr_msgs s) c) by (rewrite Forall_forall in F1; exact F1).
  destruct e as [c now|t| |t now|t|t now|cum gaps| ]; cbn [pr_step pr_ev_dcep_ok] in *.
  - destruct (pr_send s c now) as [s1|] eqn:E; [|discriminate]. intros H; inversion H; subst; clear H.
    destruct (pr_send_shape _ _ _ _ E) as (m2 & Hle & (x & Hx & HB & HnB) & Hoth & _ & ->). cbn [pr_infl pr_msgs].
    set (c1 := pr_with c 1 false false now).
    assert (Hf1 : pr_dcep_f1 m2 c1).
    { exists x. split; [exact Hx|]. cbn. destruct (pr_beg c) eqn:Eb.
      - destruct (HB eq_refl) as (A & _); exact A.
      - destruct (HnB eq_refl) as (x0 & Hx0 & A & _). rewrite A. apply Hok; auto. }
    assert (Hf2 : pr_dcep_f2 m2).
    { intros k y Hy Hyd. destruct (Z.eq_dec k (pr_msg c)) as [->|Hne].
      - rewrite Hx in Hy. inversion Hy; subst y. destruct (pr_beg c) eqn:Eb.
        + destruct (HB eq_refl) as (_ & A & _); exact A.
        + destruct (HnB eq_refl) as (x0 & Hx0 & A & B). rewrite B. apply (F2 _ _ Hx0). congruence.
      - rewrite (Hoth k Hne) in Hy. eapply F2; eauto. }
    split; [|apply pr_check_status_dcep; assumption].
    apply Forall_app. split.
    + eapply Forall_impl; [|exact F1]. intros a. apply pr_dcep_f1_mono. eapply pr_msgs_le_trans; [exact Hle|apply pr_check_status_le].
    + constructor; [|constructor]. eapply pr_dcep_f1_mono; [apply pr_check_status_le|exact Hf1].
  - unfold pr_mark. destruct (pr_get (pr_infl s) t) as [c|] eqn:Eg; [|discriminate].
    destruct (pr_acked c || pr_abandoned s c); [discriminate|]. intros H; inversion H; subst; clear H. cbn [pr_set_core pr_infl pr_msgs].
    split; [|exact F2]. eapply pr_put_Forall; eauto. apply (Hin c). eapply pr_get_in; eauto.
  - intros H; inversion H; subst; clear H. unfold pr_t3, pr_mark_all_rtx. cbn [pr_set_core pr_infl pr_msgs].
    destruct (pr_advance_fields s false) as (A1 & A2 & _). rewrite A1, A2. split; [|exact F2].
    apply Forall_forall. intros y Hy. apply in_map_iff in Hy. destruct Hy as (c & <- & Hc).
    specialize (Hin c Hc). destruct (pr_acked c || _); exact Hin.
  - unfold pr_retransmit. destruct (pr_get (pr_infl s) t) as [c|] eqn:Eg; [|discriminate].
    destruct (negb (pr_rtx c) || pr_abandoned s c); [discriminate|]. intros H; inversion H; subst; clear H. cbn [pr_set_core pr_infl pr_msgs].
    assert (Hc := Hin c (pr_get_in _ _ _ Eg)). split.
    + eapply Forall_impl; [intros a; apply pr_dcep_f1_mono; apply pr_check_status_le|].
      eapply pr_put_Forall; eauto.
    + apply pr_check_status_dcep; auto.
  - unfold pr_unmark. destruct (pr_get (pr_infl s) t) as [c|] eqn:Eg; [|discriminate].
    destruct (pr_rtx c && pr_abandoned s c); [|discriminate]. intros H; inversion H; subst; clear H. cbn [pr_set_core pr_infl pr_msgs].
    split; [|exact F2]. eapply pr_put_Forall; eauto. apply (Hin c). eapply pr_get_in; eauto.
  - unfold pr_fast_retransmit. destruct (pr_get (pr_infl s) t) as [c|] eqn:Eg; [|discriminate].
    destruct (pr_acked c || pr_abandoned s c || (pr_nsent c >? 1)); [discriminate|]. intros H; inversion H; subst; clear H.
    cbn [pr_set_core pr_infl pr_msgs]. assert (Hc := Hin c (pr_get_in _ _ _ Eg)). split.
    + eapply Forall_impl; [intros a; apply pr_dcep_f1_mono; apply pr_check_status_le|].
      eapply pr_put_Forall; eauto.
    + apply pr_check_status_dcep; auto.
  - destruct (pr_sack s cum gaps) as [s1|] eqn:E; [|discriminate]. intros H; inversion H; subst; clear H.
    destruct (pr_sack_shape _ _ _ _ E) as (Em & _). rewrite Em. split; [|exact F2].
    eapply pr_sack_Forall; [|exact F1|exact E]. intros c Hc. exact Hc.
  - intros H. injection H as H. assert (Es : s' = fst (pr_gather_fwd s)) by (rewrite H; reflexivity). subst s'.
    destruct (pr_gather_fields s) as (A1 & A2 & _). rewrite A1, A2. auto.
Qed.

Theorem pr_dcep_never_abandoned_thm : forall evs s0 s outs,
  pr_dcep_tab s0 -> pr_run_ok pr_ev_dcep_ok s0 evs -> pr_run s0 evs = Some (s, outs) ->
  forall c, In c (pr_infl s) -> pr_dcep c = true ->
    pr_msg_flag (pr_msgs s) (pr_msg c) = false /\ pr_abandoned s c = false.
Proof.
  intros evs s0 s outs H0 Hok Hr.
  assert (G : pr_dcep_tab s) by (eapply (pr_run_ok_inv pr_dcep_tab pr_ev_dcep_ok); eauto; intros; eapply pr_step_dcep; eauto).
  destruct G as (F1 & F2). intros c Hc Hd. rewrite Forall_forall in F1. destruct (F1 c Hc) as (x & Hx & Hxd).
  assert (Ha : pr_m_aband x = false) by (eapply F2; eauto; congruence).
  unfold pr_abandoned, pr_msg_abandoned, pr_msg_flag. rewrite Hx, Ha. auto.
Qed.

Lemma pr_init_tab tsn pol uf ui : pr_dcep_tab (pr_init tsn pol uf ui) /\ pr_ent (pr_init tsn pol uf ui).
Proof. unfold pr_dcep_tab, pr_ent, pr_dcep_f2. cbn. repeat split; try constructor. intros k x H; discriminate. Qed.

(* DCEP is forced ordered by Stream.packetize (model StreamW.sw_packetize) *)
Lemma pr_sw_frags_mk : forall fuel maxp off remaining fsn mk cs (P : sw_chunk -> Prop),
  (forall o l f b e, P (mk o l f b e)) -> sw_frags fuel maxp off remaining fsn mk = Some cs -> Forall P cs.
Proof.
  induction fuel as [|f IH]; intros maxp off remaining fsn mk cs P Hmk; cbn [sw_frags].
  - destruct (remaining =? 0); [intros H; inversion H; constructor|discriminate].
  - destruct (remaining =? 0); [intros H; inversion H; constructor|].
    destruct (sw_frags f maxp _ _ _ mk) as [r|] eqn:E; [|discriminate].
    intros H; inversion H; subst. constructor; [apply Hmk|]. eapply IH; eauto.
Qed.

Theorem pr_dcep_forced_ordered_thm : forall st n il maxp st' chunks un,
  sw_packetize st n sw_ppi_dcep il maxp = Some (st', chunks, un) ->
  un = false /\ Forall (fun c => swc_unordered c = false /\ swc_ppi c = sw_ppi_dcep) chunks.
Proof.
  intros st n il maxp st' chunks un H. split.
  - destruct (sw_packetize_state _ _ _ _ _ _ _ _ H) as (-> & _). reflexivity.
  - unfold sw_packetize in H. destruct (sw_frags _ _ _ _ _ _) as [cs|] eqn:E; [|discriminate].
    inversion H; subst. eapply pr_sw_frags_mk; [|exact E]. intros. cbn. auto.
Qed.

(* ================================================================ C07 (a): the advanced peer ack point *)

(* chunk i of the list carries TSN b + i (mod 2^32) *)
Definition pr_tsns_from (l : list pr_chunk) (b : Z) : Prop :=
  forall i c, nth_error l i = Some c -> pr_tsn c = wrap32 (b + Z.of_nat i).

Lemma pr_get_idx l b j :
  pr_tsns_from l b -> Z.of_nat (length l) <= 4294967296 -> (j < length l)%nat ->
  pr_get l (wrap32 (b + Z.of_nat j)) = nth_error l j.
Proof.
  intros Ht Hlen Hj. unfold pr_get. destruct l as [|c0 r] eqn:El; [cbn in Hj; lia|]. rewrite <- El in *.
  assert (H0 : pr_tsn c0 = wrap32 (b + 0)) by (apply (Ht 0%nat); rewrite El; reflexivity).
  assert (Eo : wrap32 (wrap32 (b + Z.of_nat j) - pr_tsn c0) = Z.of_nat j) by (rewrite H0; unfold wrap32; lia).
  rewrite Eo. replace (Z.of_nat j >=? Z.of_nat (length l)) with false by lia. rewrite Nat2Z.id. reflexivity.
Qed.

Lemma pr_get_beyond l b j :
  pr_tsns_from l b -> Z.of_nat (length l) <= j < 4294967296 -> pr_get l (wrap32 (b + j)) = None.
Proof.
  intros Ht Hj. unfold pr_get. destruct l as [|c0 r] eqn:El; [reflexivity|]. rewrite <- El in *.
  assert (H0 : pr_tsn c0 = wrap32 (b + 0)) by (apply (Ht 0%nat); rewrite El; reflexivity).
  assert (Eo : wrap32 (wrap32 (b + j) - pr_tsn c0) = j) by (rewrite H0; unfold wrap32; lia).
  rewrite Eo. replace (j >=? Z.of_nat (length l)) with true by lia. reflexivity.
Qed.

(* any successful get is one of these *)
Lemma pr_get_pos l b t c :
  pr_tsns_from l b -> in32 t -> pr_get l t = Some c ->
  exists j, nth_error l j = Some c /\ (j < length l)%nat /\ t = wrap32 (b + Z.of_nat j).
Proof.
  intros Ht Hin Hg. destruct (pr_get_inv _ _ _ Hg) as (c0 & r & El & Hlt & Hn).
  exists (Z.to_nat (wrap32 (t - pr_tsn c0))). split; [exact Hn|].
  assert (H0 : pr_tsn c0 = wrap32 (b + 0)) by (apply (Ht 0%nat); rewrite El; reflexivity).
  split; [unfold wrap32 in *; lia|]. rewrite H0. unfold wrap32, in32 in *. rewrite Z2Nat.id by lia. lia.
Qed.

Definition pr_wf (s : pr_state) : Prop :=
  in32 (pr_cum s) /\ pr_tsns_from (pr_infl s) (pr_cum s + 1) /\
  pr_next s = wrap32 (pr_cum s + 1 + Z.of_nat (length (pr_infl s))).

Definition pr_small (s : pr_state) : Prop := Z.of_nat (length (pr_infl s)) + 1 < 2147483648.

(* the advanced point is d chunks past the cumulative point and those d chunks are abandoned *)
Definition pr_adv_ok (s : pr_state) : Prop :=
  exists d : nat, (d <= length (pr_infl s))%nat /\ pr_adv s = wrap32 (pr_cum s + Z.of_nat d) /\
    forall i c, (i < d)%nat -> nth_error (pr_infl s) i = Some c -> pr_abandoned s c = true.

(* C2 loop *)
Lemma pr_adv_loop_spec msgs l b : forall fuel (e : nat),
  pr_tsns_from l b -> Z.of_nat (length l) < 4294967296 -> (e <= length l)%nat -> (length l < fuel + e)%nat ->
  (forall i c, (i < e)%nat -> nth_error l i = Some c -> pr_msg_abandoned msgs (pr_msg c) = true) ->
  exists e' : nat, (e <= e')%nat /\ (e' <= length l)%nat /\
    pr_adv_loop fuel l msgs (wrap32 (b - 1 + Z.of_nat e)) = wrap32 (b - 1 + Z.of_nat e') /\
    (forall i c, (i < e')%nat -> nth_error l i = Some c -> pr_msg_abandoned msgs (pr_msg c) = true) /\
    (forall c, nth_error l e' = Some c -> pr_msg_abandoned msgs (pr_msg c) = false).
Proof.
  induction fuel as [|f IH]; intros e Ht Hlen He Hf Hab; [lia|].
  cbn [pr_adv_loop].
  assert (Ei : wrap32 (wrap32 (b - 1 + Z.of_nat e) + 1) = wrap32 (b + Z.of_nat e)) by (unfold wrap32; lia).
  rewrite Ei. destruct (Nat.eq_dec e (length l)) as [Ee|Ene].
  - rewrite (pr_get_beyond l b (Z.of_nat e) Ht) by lia. exists e. repeat split; auto.
    intros c Hc. assert (e < length l)%nat by (apply nth_error_Some; congruence). lia.
  - rewrite (pr_get_idx l b e Ht) by lia. destruct (nth_error l e) as [c|] eqn:En.
    2:{ apply nth_error_None in En. lia. }
    destruct (pr_msg_abandoned msgs (pr_msg c)) eqn:Ea.
    + destruct (IH (S e) Ht Hlen ltac:(lia) ltac:(lia)) as (e' & H1 & H2 & H3 & H4 & H5).
      { intros i c' Hi Hc'. destruct (Nat.eq_dec i e) as [->|]; [congruence|]. apply (Hab i); [lia|exact Hc']. }
      exists e'. repeat split; auto; try lia.
      rewrite <- H3. f_equal. unfold wrap32. lia.
    + exists e. repeat split; auto. intros c' Hc'. congruence.
Qed.

(* the fields no step ever changes *)
Definition pr_core_eq (a b : pr_chunk) : Prop :=
  pr_tsn a = pr_tsn b /\ pr_sid a = pr_sid b /\ pr_ssn a = pr_ssn b /\ pr_mid a = pr_mid b /\ pr_unord a = pr_unord b /\
  pr_beg a = pr_beg b /\ pr_end a = pr_end b /\ pr_msg a = pr_msg b /\ pr_dcep a = pr_dcep b.

Lemma pr_core_eq_refl a : pr_core_eq a a.
Proof. unfold pr_core_eq; repeat split; reflexivity. Qed.
Lemma pr_core_eq_trans a b c : pr_core_eq a b -> pr_core_eq b c -> pr_core_eq a c.
Proof. unfold pr_core_eq. intuition congruence. Qed.
Lemma pr_core_eq_with c n a r f : pr_core_eq c (pr_with c n a r f).
Proof. unfold pr_core_eq; cbn; repeat split; reflexivity. Qed.

Lemma Forall2_refl {A} (R : A -> A -> Prop) l : (forall a, R a a) -> Forall2 R l l.
Proof. intros H; induction l; constructor; auto. Qed.
Lemma Forall2_trans {A} (R : A -> A -> Prop) : (forall a b c, R a b -> R b c -> R a c) ->
  forall l1 l2 l3, Forall2 R l1 l2 -> Forall2 R l2 l3 -> Forall2 R l1 l3.
Proof.
  intros Ht l1 l2 l3 H12. revert l3. induction H12; intros l3 H23; inversion H23; subst; constructor; eauto.
Qed.
Lemma Forall2_nth {A} (R : A -> A -> Prop) l1 l2 : Forall2 R l1 l2 ->
  forall i b, nth_error l2 i = Some b -> exists a, nth_error l1 i = Some a /\ R a b.
Proof.
  induction 1; intros [|i] b' Hb; cbn in *; try discriminate.
  - inversion Hb; subst. eauto.
  - eauto.
Qed.
Lemma Forall2_nth_l {A} (R : A -> A -> Prop) l1 l2 : Forall2 R l1 l2 ->
  forall i a, nth_error l1 i = Some a -> exists b, nth_error l2 i = Some b /\ R a b.
Proof.
  induction 1; intros [|i] a' Ha; cbn in *; try discriminate.
  - inversion Ha; subst. eauto.
  - eauto.
Qed.
Lemma Forall2_skipn {A} (R : A -> A -> Prop) k : forall l1 l2, Forall2 R l1 l2 -> Forall2 R (skipn k l1) (skipn k l2).
Proof. induction k as [|k IH]; intros l1 l2 H; [exact H|]. inversion H; subst; cbn; [constructor|auto]. Qed.

Lemma Forall2_of_nth {A} (R : A -> A -> Prop) : forall l l',
  length l' = length l -> (forall i a b, nth_error l i = Some a -> nth_error l' i = Some b -> R a b) -> Forall2 R l l'.
Proof.
  induction l as [|a r IH]; intros [|b r'] Hlen H; cbn in Hlen; try discriminate; constructor.
  - apply (H 0%nat); reflexivity.
  - apply IH; [lia|]. intros i x y Hx Hy. apply (H (S i)); assumption.
Qed.

Lemma Forall2_len {A B} (R : A -> B -> Prop) l l' : Forall2 R l l' -> length l = length l'.
Proof. induction 1; cbn; congruence. Qed.

Definition pr_skel (l l' : list pr_chunk) : Prop := Forall2 pr_core_eq l l'.

Lemma pr_skel_length l l' : pr_skel l l' -> length l' = length l.
Proof. intros H. symmetry. eapply Forall2_len; eauto. Qed.

Lemma pr_skel_refl l : pr_skel l l.
Proof. apply Forall2_refl. apply pr_core_eq_refl. Qed.
Lemma pr_skel_trans l1 l2 l3 : pr_skel l1 l2 -> pr_skel l2 l3 -> pr_skel l1 l3.
Proof. apply Forall2_trans. apply pr_core_eq_trans. Qed.

Lemma pr_put_skel l t c x : pr_get l t = Some c -> pr_core_eq c x -> pr_skel l (pr_put l t x).
Proof.
  intros Hg Hx. destruct (pr_put_nth l t c x Hg) as (n & Hn & Hlt & Hm).
  apply Forall2_of_nth; [apply pr_put_length|].
  intros i a b Ha Hb. rewrite Hm in Hb. destruct (Nat.eqb n i) eqn:E.
  - apply Nat.eqb_eq in E. subst i. inversion Hb; subst. rewrite Hn in Ha. inversion Ha; subst. exact Hx.
  - rewrite Ha in Hb. inversion Hb; subst. apply pr_core_eq_refl.
Qed.

Lemma pr_mark_one_skel l t l' : pr_mark_one l t = Some l' -> pr_skel l l'.
Proof.
  unfold pr_mark_one. destruct (pr_get l t) as [c|] eqn:Eg; [|discriminate].
  destruct (pr_acked c); intros H; inversion H; subst; [apply pr_skel_refl|].
  eapply pr_put_skel; eauto. apply pr_core_eq_with.
Qed.

Lemma pr_mark_range_skel : forall n l cum i l', pr_mark_range n l cum i = Some l' -> pr_skel l l'.
Proof.
  induction n as [|n IH]; intros l cum i l'; cbn [pr_mark_range].
  - intros H; inversion H; subst. apply pr_skel_refl.
  - destruct (pr_mark_one l (wrap32 (cum + i))) as [l1|] eqn:E; [|discriminate].
    intros H. eapply pr_skel_trans; [eapply pr_mark_one_skel; eauto|eapply IH; eauto].
Qed.

Lemma pr_mark_gaps_skel : forall gaps l cum l', pr_mark_gaps gaps l cum = Some l' -> pr_skel l l'.
Proof.
  induction gaps as [|[gs ge] r IH]; intros l cum l'; cbn [pr_mark_gaps].
  - intros H; inversion H; subst. apply pr_skel_refl.
  - destruct (pr_mark_range _ l cum gs) as [l1|] eqn:E; [|discriminate].
    intros H. eapply pr_skel_trans; [eapply pr_mark_range_skel; eauto|eapply IH; eauto].
Qed.

Lemma pr_skel_tsns l l' b : pr_skel l l' -> pr_tsns_from l b -> pr_tsns_from l' b.
Proof.
  intros Hs Ht i c' Hc'. destruct (Forall2_nth _ _ _ Hs i c' Hc') as (c & Hc & He). destruct He as (E & _). rewrite <- E. eauto.
Qed.

Lemma pr_nth_skipn {A} : forall k (l : list A) i, nth_error (skipn k l) i = nth_error l (k + i).
Proof. induction k as [|k IH]; intros [|a r] i; cbn; auto. destruct i; reflexivity. Qed.

Lemma pr_tsns_skipn l b k : pr_tsns_from l b -> pr_tsns_from (skipn k l) (b + Z.of_nat k).
Proof.
  intros Ht i c Hc. rewrite pr_nth_skipn in Hc. rewrite (Ht _ _ Hc). f_equal. lia.
Qed.

(* pop loop of processSelectiveAck: removes exactly the chunks up to the new cumulative TSN *)
Lemma pr_pop_acked_spec l cum newcum : forall fuel (t : nat) l1,
  pr_tsns_from l (cum + 1) -> in32 cum -> in32 newcum -> Z.of_nat (length l) < 2147483648 ->
  sna32GT cum newcum = false ->
  let j := wrap32 (newcum - cum) in
  Z.of_nat t <= j -> (t <= length l)%nat ->
  pr_pop_acked fuel (skipn t l) (wrap32 (cum + 1 + Z.of_nat t)) newcum = Some l1 ->
  j <= Z.of_nat (length l) /\ l1 = skipn (Z.to_nat j) l /\ j < 2147483648.
Proof.
  intros fuel. induction fuel as [|f IH]; intros t l1 Ht Hc Hn Hlen Hgt j Htj Htl; cbn [pr_pop_acked]; [discriminate|].
  assert (Hj : 0 <= j < 2147483648).
  { rewrite <- not_true_iff_false in Hgt. rewrite sna32GT_spec in Hgt by assumption. unfold j, wrap32, in32 in *. lia. }
  destruct (Nat.le_gt_cases (length l) t) as [Hbig|Hsmall].
  - (* nothing left *)
    rewrite skipn_all2 by exact Hbig.
    destruct (sna32LTE (wrap32 (cum + 1 + Z.of_nat t)) newcum) eqn:El; cbn [negb]; [discriminate|].
    intros H; inversion H; subst.
    rewrite <- not_true_iff_false in El. rewrite sna32LTE_spec in El by (unfold wrap32, in32 in *; lia).
    assert (j = Z.of_nat t) by (unfold j, wrap32, in32 in *; lia).
    split; [lia|]. split; [|lia]. rewrite skipn_all2 by lia. reflexivity.
  - destruct (nth_error l t) as [c|] eqn:Ec; [|apply nth_error_None in Ec; lia].
    assert (Esk : skipn t l = c :: skipn (S t) l).
    { clear -Ec. revert l Ec. induction t as [|t IH]; intros [|a r] Ec; cbn in *; try discriminate; [inversion Ec; reflexivity|auto]. }
    rewrite Esk.
    destruct (sna32LTE (wrap32 (cum + 1 + Z.of_nat t)) newcum) eqn:El; cbn [negb].
    + rewrite (Ht _ _ Ec). replace (wrap32 (cum + 1 + Z.of_nat t) =? wrap32 (cum + 1 + Z.of_nat t)) with true by lia.
      rewrite sna32LTE_spec in El by (unfold wrap32, in32 in *; lia).
      assert (Hlt : Z.of_nat t < j) by (unfold j, wrap32, in32 in *; lia).
      replace (wrap32 (wrap32 (cum + 1 + Z.of_nat t) + 1)) with (wrap32 (cum + 1 + Z.of_nat (S t))) by (unfold wrap32; lia).
      intros Hp. apply (IH (S t) l1 Ht Hc Hn Hlen Hgt); [lia|lia|exact Hp].
    + intros H. assert (El1 : l1 = c :: skipn (S t) l) by congruence. clear H. rewrite El1, <- Esk.
      rewrite <- not_true_iff_false in El. rewrite sna32LTE_spec in El by (unfold wrap32, in32 in *; lia).
      assert (Ejt : j = Z.of_nat t) by (unfold j, wrap32, in32 in *; lia).
      split; [lia|]. split; [|lia]. f_equal. lia.
Qed.

Lemma pr_tsns_cong l b b' : pr_tsns_from l b -> wrap32 b' = wrap32 b -> pr_tsns_from l b'.
Proof. intros Ht Hb i c Hc. rewrite (Ht _ _ Hc). unfold wrap32 in *. lia. Qed.

(* C1 (optional) + C2: the result is again "d chunks past the cumulative point, all abandoned" *)
Lemma pr_advance_ok s c1 delta :
  pr_enabled s = true -> in32 (pr_cum s) -> pr_tsns_from (pr_infl s) (pr_cum s + 1) -> pr_small s ->
  -2147483648 < delta <= Z.of_nat (length (pr_infl s)) -> (c1 = false -> 0 <= delta) ->
  pr_adv s = wrap32 (pr_cum s + delta) ->
  (forall i c, Z.of_nat i < delta -> nth_error (pr_infl s) i = Some c -> pr_abandoned s c = true) ->
  pr_adv_ok (pr_advance s c1).
Proof.
  intros Hen Hc Ht Hsm Hd Hc1 Hadv Hab. unfold pr_small in Hsm.
  set (e0 := Z.to_nat (Z.max 0 delta)).
  assert (Ea1 : (if c1 && sna32LT (pr_adv s) (pr_cum s) then pr_cum s else pr_adv s) = wrap32 (pr_cum s + 1 - 1 + Z.of_nat e0)).
  { assert (Hin : in32 (pr_adv s)) by (rewrite Hadv; unfold in32, wrap32; lia).
    destruct (Z.ltb_spec delta 0) as [Hneg|Hpos].
    - assert (c1 = true) by (destruct c1; [reflexivity|specialize (Hc1 eq_refl); lia]). subst c1. cbn [andb].
      replace (sna32LT (pr_adv s) (pr_cum s)) with true.
      + unfold e0. unfold in32, wrap32 in *. lia.
      + symmetry. apply sna32LT_spec; auto. rewrite Hadv. unfold in32, wrap32 in *. lia.
    - replace (sna32LT (pr_adv s) (pr_cum s)) with false.
      + rewrite andb_false_r. rewrite Hadv. unfold e0, wrap32. f_equal. lia.
      + symmetry. apply not_true_iff_false. rewrite sna32LT_spec by auto. rewrite Hadv. unfold in32, wrap32 in *. lia. }
  destruct (pr_adv_loop_spec (pr_msgs s) (pr_infl s) (pr_cum s + 1) (S (length (pr_infl s))) e0 Ht ltac:(lia) ltac:(unfold e0; lia) ltac:(lia))
    as (e' & H1 & H2 & H3 & H4 & _).
  { intros i c Hi Hci. apply (Hab i c); [unfold e0 in Hi; lia|exact Hci]. }
  unfold pr_advance. rewrite Hen. cbn [negb]. rewrite Ea1, H3.
  exists e'. cbn [pr_infl pr_adv pr_cum]. split; [exact H2|]. split; [f_equal; lia|].
  intros i c Hi Hci. unfold pr_abandoned. cbn [pr_msgs]. eauto.
Qed.

Lemma pr_wf_skel s s' :
  pr_wf s -> pr_skel (pr_infl s) (pr_infl s') -> pr_cum s' = pr_cum s -> pr_next s' = pr_next s -> pr_wf s'.
Proof.
  intros (A & B & C) Hs Hc Hn. unfold pr_wf. rewrite Hc, Hn, (pr_skel_length _ _ Hs).
  split; [exact A|]. split; [eapply pr_skel_tsns; eauto|exact C].
Qed.

Lemma pr_adv_ok_skel s s' :
  pr_adv_ok s -> pr_skel (pr_infl s) (pr_infl s') -> pr_msgs_le (pr_msgs s) (pr_msgs s') ->
  pr_cum s' = pr_cum s -> pr_adv s' = pr_adv s -> pr_adv_ok s'.
Proof.
  intros (d & Hd & Ha & Hab) Hs Hle Hc Hadv. exists d. rewrite Hc, Hadv, (pr_skel_length _ _ Hs). repeat split; auto.
  intros i c' Hi Hc'. destruct (Forall2_nth _ _ _ Hs i c' Hc') as (c & Hcn & He).
  unfold pr_abandoned. destruct He as (_ & _ & _ & _ & _ & _ & _ & Em & _). rewrite <- Em.
  eapply pr_msgs_le_abandoned; [exact Hle|]. apply (Hab i c Hi Hcn).
Qed.

Definition pr_ev_range (e : pr_ev) : Prop := match e with PrSack cum _ => in32 cum | _ => True end.

Lemma pr_map_skel f l : (forall c, pr_core_eq c (f c)) -> pr_skel l (map f l).
Proof. intros H. induction l; cbn; constructor; auto. Qed.

Lemma pr_step_wf s e s' o :
  pr_enabled s = true -> pr_wf s -> pr_adv_ok s -> pr_small s -> pr_ev_range e ->
  pr_step s e = Some (s', o) -> pr_wf s' /\ pr_adv_ok s' /\ pr_enabled s' = true.
Proof.
  intros Hen Hwf Hadv Hsm Hrg. destruct e as [c now|t| |t now|t|t now|cum gaps| ]; cbn [pr_step pr_ev_range] in *.
  - (* send *)
    destruct (pr_send s c now) as [s1|] eqn:E; [|discriminate]. intros H; inversion H; subst; clear H.
    destruct (pr_send_shape _ _ _ _ E) as (m2 & Hle & _ & _ & Etsn & ->).
    destruct Hwf as (A & B & C). split; [|split; [|exact Hen]].
    + unfold pr_wf. cbn [pr_cum pr_infl pr_next]. rewrite app_length. cbn [length]. split; [exact A|]. split.
      * intros i x Hx. destruct (Nat.lt_ge_cases i (length (pr_infl s))) as [Hlt|Hge].
        -- rewrite nth_error_app1 in Hx by exact Hlt. eauto.
        -- rewrite nth_error_app2 in Hx by exact Hge. destruct (i - length (pr_infl s))%nat as [|k] eqn:Ek; cbn in Hx.
           ++ inversion Hx; subst x. cbn. rewrite Etsn, C. f_equal. lia.
           ++ destruct k; discriminate.
      * rewrite C. unfold wrap32. lia.
    + destruct Hadv as (d & Hd & Ha & Hab). exists d. cbn [pr_cum pr_infl pr_adv]. rewrite app_length. repeat split; auto; [lia|].
      intros i x Hi Hx. rewrite nth_error_app1 in Hx by lia. unfold pr_abandoned. cbn [pr_msgs].
      eapply pr_msgs_le_abandoned; [eapply pr_msgs_le_trans; [exact Hle|apply pr_check_status_le]|]. apply (Hab i x Hi Hx).
  - (* mark *)
    unfold pr_mark. destruct (pr_get (pr_infl s) t) as [c|] eqn:Eg; [|discriminate].
    destruct (pr_acked c || pr_abandoned s c); [discriminate|]. intros H; inversion H; subst; clear H.
    assert (Hs : pr_skel (pr_infl s) (pr_put (pr_infl s) t (pr_with c (pr_nsent c) (pr_acked c) true (pr_first c))))
      by (eapply pr_put_skel; eauto; apply pr_core_eq_with).
    split; [eapply pr_wf_skel; eauto|split; [eapply pr_adv_ok_skel; eauto; apply pr_msgs_le_refl|exact Hen]].
  - (* T3 *)
    intros H; inversion H; subst; clear H. unfold pr_t3.
    destruct (pr_advance_fields s false) as (A1 & A2 & A3 & A4 & A5 & A6 & A7).
    destruct Hwf as (W1 & W2 & W3). destruct Hadv as (d & Hd & Ha & Hab).
    assert (Hok : pr_adv_ok (pr_advance s false)).
    { apply (pr_advance_ok s false (Z.of_nat d)); auto; try lia. intros i c Hi Hc. apply (Hab i c); [lia|exact Hc]. }
    assert (Hwf1 : pr_wf (pr_advance s false)) by (unfold pr_wf; rewrite A1, A4, A5; auto).
    set (s1 := pr_advance s false) in *.
    assert (Hs : pr_skel (pr_infl s1) (pr_infl (pr_mark_all_rtx s1))).
    { unfold pr_mark_all_rtx. cbn [pr_set_core pr_infl]. apply pr_map_skel. intros c. destruct (pr_acked c || _); [apply pr_core_eq_refl|apply pr_core_eq_with]. }
    split; [eapply pr_wf_skel; eauto|split].
    + eapply pr_adv_ok_skel; eauto. apply pr_msgs_le_refl.
    + unfold pr_enabled, pr_mark_all_rtx. cbn [pr_set_core pr_usefwd pr_useifwd]. rewrite A6, A7. exact Hen.
  - (* retransmit *)
    unfold pr_retransmit. destruct (pr_get (pr_infl s) t) as [c|] eqn:Eg; [|discriminate].
    destruct (negb (pr_rtx c) || pr_abandoned s c); [discriminate|]. intros H; inversion H; subst; clear H.
    set (c1 := pr_with c (wrap32 (pr_nsent c + 1)) (pr_acked c) false (pr_first c)).
    assert (Hs : pr_skel (pr_infl s) (pr_put (pr_infl s) t c1)) by (eapply pr_put_skel; eauto; apply pr_core_eq_with).
    split; [eapply pr_wf_skel; eauto|split; [eapply pr_adv_ok_skel; eauto; apply pr_check_status_le|exact Hen]].
  - (* mark of an abandoned chunk cleared *)
    unfold pr_unmark. destruct (pr_get (pr_infl s) t) as [c|] eqn:Eg; [|discriminate].
    destruct (pr_rtx c && pr_abandoned s c); [|discriminate]. intros H; inversion H; subst; clear H.
    assert (Hs : pr_skel (pr_infl s) (pr_put (pr_infl s) t (pr_with c (pr_nsent c) (pr_acked c) false (pr_first c))))
      by (eapply pr_put_skel; eauto; apply pr_core_eq_with).
    split; [eapply pr_wf_skel; eauto|split; [eapply pr_adv_ok_skel; eauto; apply pr_msgs_le_refl|exact Hen]].
  - (* fast retransmit *)
    unfold pr_fast_retransmit. destruct (pr_get (pr_infl s) t) as [c|] eqn:Eg; [|discriminate].
    destruct (pr_acked c || pr_abandoned s c || (pr_nsent c >? 1)); [discriminate|]. intros H; inversion H; subst; clear H.
    set (c1 := pr_with c (wrap32 (pr_nsent c + 1)) (pr_acked c) (pr_rtx c) (pr_first c)).
    assert (Hs : pr_skel (pr_infl s) (pr_put (pr_infl s) t c1)) by (eapply pr_put_skel; eauto; apply pr_core_eq_with).
    split; [eapply pr_wf_skel; eauto|split; [eapply pr_adv_ok_skel; eauto; apply pr_check_status_le|exact Hen]].
  - (* SACK *)
    destruct (pr_sack s cum gaps) as [s1|] eqn:E; [|discriminate]. intros H; inversion H; subst; clear H.
    unfold pr_sack in E. destruct (sna32GT (pr_cum s) cum) eqn:Egt; [inversion E; subst; auto|].
    destruct (negb (pr_sack_valid s cum gaps)); [inversion E; subst; auto|].
    destruct (pr_pop_acked _ _ _ _) as [l1|] eqn:Ep; [|discriminate].
    destruct (pr_mark_gaps gaps l1 cum) as [l2|] eqn:Em; [|discriminate].
    inversion E; subst; clear E.
    destruct Hwf as (W1 & W2 & W3). destruct Hadv as (d & Hd & Ha & Hab). unfold pr_small in Hsm.
    set (j := wrap32 (cum - pr_cum s)).
    destruct (pr_pop_acked_spec (pr_infl s) (pr_cum s) cum (S (length (pr_infl s))) 0%nat l1 W2 W1 Hrg ltac:(lia) Egt ltac:(unfold wrap32; lia) ltac:(lia))
      as (Hjl & El1 & Hj).
    { replace (wrap32 (pr_cum s + 1 + Z.of_nat 0)) with (wrap32 (pr_cum s + 1)) by (f_equal; lia). exact Ep. }
    fold j in Hjl, El1, Hj. assert (Hj0 : 0 <= j) by (unfold j, wrap32; lia).
    set (k := Z.to_nat j) in *.
    set (cum' := if sna32LT (pr_cum s) cum then cum else pr_cum s).
    assert (Ecum : cum' = wrap32 (pr_cum s + j)).
    { unfold cum'. destruct (sna32LT (pr_cum s) cum) eqn:Elt.
      - unfold j, wrap32, in32 in *. lia.
      - rewrite <- not_true_iff_false in Elt. rewrite sna32LT_spec in Elt by auto. unfold j, wrap32, in32 in *. lia. }
    assert (Hsk := pr_mark_gaps_skel _ _ _ _ Em).
    assert (Hlen2 : length l2 = (length (pr_infl s) - k)%nat) by (rewrite (pr_skel_length _ _ Hsk), El1, skipn_length; reflexivity).
    set (s2 := mkPrState l2 (pr_msgs s) (pr_pol s) cum' (pr_adv s) (pr_next s) (pr_usefwd s) (pr_useifwd s) (pr_willfwd s)).
    assert (Ht2 : pr_tsns_from l2 (cum' + 1)).
    { eapply pr_skel_tsns; [exact Hsk|]. rewrite El1. eapply pr_tsns_cong; [apply (pr_tsns_skipn _ _ k W2)|].
      rewrite Ecum. unfold k, wrap32. rewrite Z2Nat.id by lia. lia. }
    assert (Hin2 : in32 cum') by (rewrite Ecum; unfold in32, wrap32; lia).
    destruct (pr_advance_fields s2 true) as (A1 & A2 & A3 & A4 & A5 & A6 & A7).
    split; [|split].
    + unfold pr_wf. rewrite A1, A4, A5. cbn [s2 pr_infl pr_cum pr_next]. split; [exact Hin2|]. split; [exact Ht2|].
      rewrite W3, Hlen2, Ecum. unfold k, wrap32. lia.
    + apply (pr_advance_ok s2 true (Z.of_nat d - j)); cbn [s2 pr_infl pr_cum pr_adv pr_msgs]; auto.
      * unfold pr_small. cbn [s2 pr_infl]. lia.
      * rewrite Hlen2. unfold k. lia.
      * discriminate.
      * rewrite Ha, Ecum. unfold wrap32. lia.
      * intros i c' Hi Hc'. destruct (Forall2_nth _ _ _ Hsk i c' Hc') as (c & Hcn & He).
        rewrite El1, pr_nth_skipn in Hcn. destruct He as (_ & _ & _ & _ & _ & _ & _ & Emsg & _).
        unfold pr_abandoned. cbn [s2 pr_msgs]. rewrite <- Emsg. apply (Hab (k + i)%nat c); [unfold k; lia|exact Hcn].
    + unfold pr_enabled. rewrite A6, A7. exact Hen.
  - intros H. injection H as H. assert (Es : s' = fst (pr_gather_fwd s)) by (rewrite H; reflexivity). subst s'.
    destruct (pr_gather_fields s) as (A1 & A2 & A3 & A4 & A5 & A6 & A7 & A8).
    split; [unfold pr_wf; rewrite A1, A4, A6; exact Hwf|]. split.
    + destruct Hadv as (d & Hd & Ha & Hab). exists d. rewrite A1, A4, A5. repeat split; auto.
      intros i c Hi Hc. unfold pr_abandoned. rewrite A2. apply (Hab i c Hi Hc).
    + unfold pr_enabled. rewrite A7, A8. exact Hen.
Qed.

Lemma pr_step_msgs_le s e s' o : pr_step s e = Some (s', o) -> pr_msgs_le (pr_msgs s) (pr_msgs s').
Proof.
  destruct e as [c now|t| |t now|t|t now|cum gaps| ]; cbn [pr_step].
  - destruct (pr_send s c now) as [s1|] eqn:E; [|discriminate]. intros H; inversion H; subst; clear H.
    destruct (pr_send_shape _ _ _ _ E) as (m2 & Hle & _ & _ & _ & ->). cbn [pr_msgs].
    eapply pr_msgs_le_trans; [exact Hle|apply pr_check_status_le].
  - unfold pr_mark. destruct (pr_get (pr_infl s) t) as [c|]; [|discriminate].
    destruct (pr_acked c || pr_abandoned s c); [discriminate|]. intros H; inversion H; subst. apply pr_msgs_le_refl.
  - intros H; inversion H; subst. unfold pr_t3, pr_mark_all_rtx. cbn [pr_set_core pr_msgs].
    destruct (pr_advance_fields s false) as (_ & A2 & _). rewrite A2. apply pr_msgs_le_refl.
  - unfold pr_retransmit. destruct (pr_get (pr_infl s) t) as [c|]; [|discriminate].
    destruct (negb (pr_rtx c) || pr_abandoned s c); [discriminate|]. intros H; inversion H; subst. apply pr_check_status_le.
  - unfold pr_unmark. destruct (pr_get (pr_infl s) t) as [c|]; [|discriminate].
    destruct (pr_rtx c && pr_abandoned s c); [|discriminate]. intros H; inversion H; subst. apply pr_msgs_le_refl.
  - unfold pr_fast_retransmit. destruct (pr_get (pr_infl s) t) as [c|]; [|discriminate].
    destruct (pr_acked c || pr_abandoned s c || (pr_nsent c >? 1)); [discriminate|]. intros H; inversion H; subst. apply pr_check_status_le.
  - destruct (pr_sack s cum gaps) as [s1|] eqn:E; [|discriminate]. intros H; inversion H; subst.
    destruct (pr_sack_shape _ _ _ _ E) as (Em & _). rewrite Em. apply pr_msgs_le_refl.
  - intros H. injection H as H. assert (Es : s' = fst (pr_gather_fwd s)) by (rewrite H; reflexivity). subst s'.
    destruct (pr_gather_fields s) as (_ & A2 & _). rewrite A2. apply pr_msgs_le_refl.
Qed.

(* abandonment is never reset, along any history *)
Theorem pr_abandoned_monotone_thm : forall evs s s' outs m,
  pr_run s evs = Some (s', outs) -> pr_msg_abandoned (pr_msgs s) m = true -> pr_msg_abandoned (pr_msgs s') m = true.
Proof.
  induction evs as [|e r IH]; intros s s' outs m; cbn [pr_run].
  - intros H; inversion H; subst; auto.
  - destruct (pr_step s e) as [[s1 o1]|] eqn:E; [|discriminate].
    destruct (pr_run s1 r) as [[s2 o2]|] eqn:E2; [|discriminate]. intros H Ha; inversion H; subst.
    eapply IH; [exact E2|]. eapply pr_msgs_le_abandoned; [eapply pr_step_msgs_le; eauto|exact Ha].
Qed.

(* side conditions of a step: SACK fields are uint32, fewer than 2^31 - 1 chunks in flight *)
Definition pr_ev_sane (s : pr_state) (e : pr_ev) : Prop := pr_ev_range e /\ pr_small s.

Definition pr_winv (s : pr_state) : Prop := pr_enabled s = true /\ pr_wf s /\ pr_adv_ok s.

Lemma pr_run_winv evs s0 s outs :
  pr_winv s0 -> pr_run_ok pr_ev_sane s0 evs -> pr_run s0 evs = Some (s, outs) -> pr_winv s.
Proof.
  intros H0 Hok Hr. eapply (pr_run_ok_inv pr_winv pr_ev_sane); eauto.
  intros s1 e s2 o (A & B & C) (G1 & G2) Hs. destruct (pr_step_wf _ _ _ _ A B C G2 G1 Hs) as (X & Y & Y2). split; [exact Y2|split; [exact X|exact Y]].
Qed.

Lemma pr_init_winv tsn pol uf ui : in32 tsn -> uf || ui = true -> pr_winv (pr_init tsn pol uf ui).
Proof.
  intros Ht Hen. unfold pr_winv, pr_init, pr_enabled, pr_wf, pr_adv_ok, pr_tsns_from.
  cbn [pr_infl pr_cum pr_adv pr_next pr_usefwd pr_useifwd pr_msgs length].
  split; [exact Hen|]. split.
  - split; [unfold in32, wrap32; lia|]. split; [intros [|i] c H; discriminate|]. unfold in32, wrap32 in *. lia.
  - exists 0%nat. split; [lia|]. split; [unfold wrap32; lia|]. intros i c Hi; lia.
Qed.

(* TSN form: every chunk whose TSN lies in (cum, adv] is abandoned *)
Lemma pr_winv_range s : pr_winv s -> pr_small s ->
  forall c, In c (pr_infl s) -> sna32LTE (pr_tsn c) (pr_adv s) = true -> pr_abandoned s c = true.
Proof.
  intros (_ & (W1 & W2 & W3) & (d & Hd & Ha & Hab)) Hsm c Hc Hle. unfold pr_small in Hsm.
  apply In_nth_error in Hc. destruct Hc as [i Hi].
  assert (Hil : (i < length (pr_infl s))%nat) by (apply nth_error_Some; congruence).
  apply (Hab i c); [|exact Hi].
  rewrite (W2 _ _ Hi), Ha in Hle. rewrite sna32LTE_spec in Hle by (unfold in32, wrap32; lia).
  unfold wrap32, in32 in *. lia.
Qed.

Theorem pr_adv_only_abandoned_thm : forall evs s0 s outs,
  pr_winv s0 -> pr_run_ok pr_ev_sane s0 evs -> pr_run s0 evs = Some (s, outs) -> pr_small s ->
  (forall c, In c (pr_infl s) -> sna32LTE (pr_tsn c) (pr_adv s) = true ->
     pr_msg_flag (pr_msgs s) (pr_msg c) = true /\ pr_msg_allinfl (pr_msgs s) (pr_msg c) = true) /\
  (forall c, In c (pr_infl s) -> sna32LT (pr_cum s) (pr_tsn c) = true) /\
  (exists d : nat, (d <= length (pr_infl s))%nat /\ pr_adv s = wrap32 (pr_cum s + Z.of_nat d)).
Proof.
  intros evs s0 s outs H0 Hok Hr Hsm. assert (W := pr_run_winv _ _ _ _ H0 Hok Hr). split; [|split].
  - intros c Hc Hle. assert (Ha := pr_winv_range s W Hsm c Hc Hle). unfold pr_abandoned in Ha.
    rewrite pr_abandoned_split in Ha. apply andb_true_iff in Ha. exact Ha.
  - destruct W as (_ & (W1 & W2 & W3) & _). intros c Hc. apply In_nth_error in Hc. destruct Hc as [i Hi].
    assert (Hil : (i < length (pr_infl s))%nat) by (apply nth_error_Some; congruence).
    rewrite (W2 _ _ Hi). apply sna32LT_spec; [exact W1|unfold in32, wrap32; lia|]. unfold pr_small, wrap32, in32 in *. lia.
  - destruct W as (_ & _ & (d & Hd & Ha & _)). eauto.
Qed.

(* ================================================================ C07 (b): what the FORWARD-TSN lists *)

Fixpoint pr_map_get (k : Z) (m : list (Z * Z)) : option Z :=
  match m with
  | [] => None
  | (k0, v0) :: r => if k =? k0 then Some v0 else pr_map_get k r
  end.

(* keys strictly increasing: the canonical form the comparator sorts the implementation's map into *)
Fixpoint pr_sorted (m : list (Z * Z)) : Prop :=
  match m with
  | [] => True
  | (k, _) :: r => (forall k' v', In (k', v') r -> k < k') /\ pr_sorted r
  end.

Lemma pr_map_get_none_lt k m : (forall k' v', In (k', v') m -> k < k') -> pr_map_get k m = None.
Proof.
  induction m as [|[k0 v0] r IH]; intros H; cbn [pr_map_get]; [reflexivity|].
  assert (k < k0) by (apply (H k0 v0); left; reflexivity).
  replace (k =? k0) with false by lia. apply IH. intros k' v' Hin. apply (H k' v'). right; exact Hin.
Qed.

Lemma pr_map_get_in m : pr_sorted m -> forall k v, In (k, v) m <-> pr_map_get k m = Some v.
Proof.
  induction m as [|[k0 v0] r IH]; intros Hs k v; cbn [pr_map_get In]; [split; [tauto|discriminate]|].
  destruct Hs as [Hlt Hs]. destruct (k =? k0) eqn:E.
  - assert (k = k0) by lia. subst k0. split.
    + intros [H|H]; [inversion H; reflexivity|]. specialize (Hlt _ _ H). lia.
    + intros H; inversion H; subst. left; reflexivity.
  - rewrite <- (IH Hs). split; [intros [H|H]; [inversion H; lia|exact H]|intros H; right; exact H].
Qed.

Lemma pr_map_upd_spec better k v : forall m, pr_sorted m ->
  pr_sorted (pr_map_upd better k v m) /\
  (forall k', pr_map_get k' (pr_map_upd better k v m) =
     if k' =? k then Some (match pr_map_get k m with None => v | Some v0 => if better v0 v then v else v0 end)
     else pr_map_get k' m) /\
  (forall k' v', In (k', v') (pr_map_upd better k v m) -> k' = k \/ exists v0, In (k', v0) m).
Proof.
  induction m as [|[k0 v0] r IH]; intros Hs; cbn [pr_map_upd pr_map_get].
  - split; [cbn; split; [intros ? ? []|exact I]|]. split.
    + intros k'. cbn [pr_map_get]. destruct (k' =? k); reflexivity.
    + intros k' v' [H|[]]. inversion H; auto.
  - destruct Hs as [Hlt Hs]. destruct (k =? k0) eqn:E; [|destruct (k <? k0) eqn:E2].
    + assert (k = k0) by lia. subst k0. split; [cbn [pr_sorted]; auto|]. split.
      * intros k'. cbn [pr_map_get]. destruct (k' =? k); reflexivity.
      * intros k' v' [H|H]; [inversion H; auto|right; exists v'; right; exact H].
    + split.
      * cbn [pr_sorted]. split; [|split; assumption].
        intros k' v' [H|H]; [inversion H; subst; lia|]. specialize (Hlt _ _ H). lia.
      * split.
        -- intros k'. cbn [pr_map_get]. destruct (k' =? k) eqn:E3; [|reflexivity].
           rewrite pr_map_get_none_lt; [reflexivity|]. intros k1 v1 Hin. specialize (Hlt _ _ Hin). lia.
        -- intros k' v' [H|[H|H]]; [inversion H; auto|inversion H; subst; right; exists v'; left; reflexivity|right; exists v'; right; exact H].
    + destruct (IH Hs) as (S1 & S2 & S3). split; [|split].
      * cbn [pr_sorted]. split; [|exact S1]. intros k' v' Hin. destruct (S3 _ _ Hin) as [->|(v1 & Hv1)]; [lia|eauto].
      * intros k'. cbn [pr_map_get]. destruct (k' =? k0) eqn:E3.
        -- replace (k' =? k) with false by lia. reflexivity.
        -- apply S2.
      * intros k' v' [H|H]; [inversion H; subst; right; exists v'; left; reflexivity|].
        destruct (S3 _ _ H) as [->|(v1 & Hv1)]; [auto|right; exists v1; right; exact Hv1].
Qed.

Definition pr_fold_map (sel : pr_chunk -> bool) (val : pr_chunk -> Z) (lt : Z -> Z -> bool) (l : list pr_chunk) (m0 : list (Z * Z)) :=
  fold_left (fun m c => if sel c then pr_map_upd lt (pr_sid c) (val c) m else m) l m0.

(* what the map holds after the chunks P have been processed; the maximality clause is guarded by the
   proposition H under which the comparison is an order (the span hypothesis) *)
Definition pr_fold_inv (H : Prop) (sel : pr_chunk -> bool) (val : pr_chunk -> Z) (rank : Z -> Z -> Z) (P : list pr_chunk) (M : list (Z * Z)) : Prop :=
  pr_sorted M /\
  (forall sid, pr_map_get sid M = None -> forall c, In c P -> sel c = true -> pr_sid c <> sid) /\
  (forall sid v, pr_map_get sid M = Some v ->
     exists c, In c P /\ sel c = true /\ pr_sid c = sid /\ val c = v /\
       (H -> forall c', In c' P -> sel c' = true -> pr_sid c' = sid -> rank sid (val c') <= rank sid v)).

Lemma pr_fold_map_spec (H : Prop) sel val lt rank L :
  (H -> forall c c', In c L -> In c' L -> sel c = true -> sel c' = true -> pr_sid c = pr_sid c' ->
     (lt (val c) (val c') = true <-> rank (pr_sid c) (val c) < rank (pr_sid c) (val c'))) ->
  forall rest P M, L = P ++ rest -> pr_fold_inv H sel val rank P M ->
    pr_fold_inv H sel val rank L (pr_fold_map sel val lt rest M).
Proof.
  intros Hlt. induction rest as [|c r IH]; intros P M EL Hinv; cbn [pr_fold_map fold_left].
  - rewrite app_nil_r in EL. subst. exact Hinv.
  - apply (IH (P ++ [c])); [rewrite <- app_assoc; exact EL|]. clear IH.
    destruct Hinv as (S & N & V). destruct (sel c) eqn:Esel.
    + destruct (pr_map_upd_spec lt (pr_sid c) (val c) M S) as (S1 & S2 & _). split; [exact S1|]. split.
      * intros sid Hn x Hx Hsx. rewrite S2 in Hn. destruct (sid =? pr_sid c) eqn:E; [discriminate|].
        apply in_app_or in Hx. destruct Hx as [Hx|[<-|[]]]; [eapply N; eauto|lia].
      * intros sid v Hv. rewrite S2 in Hv. destruct (sid =? pr_sid c) eqn:E.
        -- assert (sid = pr_sid c) by lia. subst sid. inversion Hv; subst v; clear Hv.
           assert (Hc : In c L) by (rewrite EL; apply in_or_app; right; left; reflexivity).
           destruct (pr_map_get (pr_sid c) M) as [v0|] eqn:Eg.
           ++ destruct (V _ _ Eg) as (c0 & Hc0 & Hs0 & Hsid0 & Hv0 & Hmax0).
              assert (Hc0L : In c0 L) by (rewrite EL; apply in_or_app; left; exact Hc0).
              destruct (lt v0 (val c)) eqn:El.
              ** exists c. split; [apply in_or_app; right; left; reflexivity|]. repeat split; auto.
                 intros HH c' Hc' Hs' Hsid'. apply in_app_or in Hc'. destruct Hc' as [Hc'|[<-|[]]]; [|lia].
                 assert (Hcmp := Hlt HH c0 c Hc0L Hc Hs0 Esel Hsid0). rewrite Hv0, Hsid0 in Hcmp.
                 specialize (Hmax0 HH c' Hc' Hs' Hsid'). assert (rank (pr_sid c) v0 < rank (pr_sid c) (val c)) by (apply Hcmp; exact El). lia.
              ** exists c0. split; [apply in_or_app; left; exact Hc0|]. repeat split; auto.
                 intros HH c' Hc' Hs' Hsid'. apply in_app_or in Hc'. destruct Hc' as [Hc'|[<-|[]]]; [auto|].
                 assert (Hcmp := Hlt HH c0 c Hc0L Hc Hs0 Esel Hsid0). rewrite Hv0, Hsid0 in Hcmp.
                 destruct (Z.lt_ge_cases (rank (pr_sid c) v0) (rank (pr_sid c) (val c))) as [Hl|Hg]; [|lia].
                 apply Hcmp in Hl. congruence.
           ++ exists c. split; [apply in_or_app; right; left; reflexivity|]. repeat split; auto.
              intros HH c' Hc' Hs' Hsid'. apply in_app_or in Hc'. destruct Hc' as [Hc'|[<-|[]]]; [|lia].
              exfalso. eapply N; eauto.
        -- destruct (V _ _ Hv) as (c0 & Hc0 & Hs0 & Hsid0 & Hv0 & Hmax0).
           exists c0. split; [apply in_or_app; left; exact Hc0|]. repeat split; auto.
           intros HH c' Hc' Hs' Hsid'. apply in_app_or in Hc'. destruct Hc' as [Hc'|[<-|[]]]; [auto|lia].
    + split; [exact S|]. split.
      * intros sid Hn x Hx Hsx. apply in_app_or in Hx. destruct Hx as [Hx|[<-|[]]]; [eapply N; eauto|congruence].
      * intros sid v Hv. destruct (V _ _ Hv) as (c0 & Hc0 & Hs0 & Hsid0 & Hv0 & Hmax0).
        exists c0. split; [apply in_or_app; left; exact Hc0|]. repeat split; auto.
        intros HH c' Hc' Hs' Hsid'. apply in_app_or in Hc'. destruct Hc' as [Hc'|[<-|[]]]; [auto|congruence].
Qed.

Lemma pr_fold_inv_nil H sel val rank : pr_fold_inv H sel val rank [] [].
Proof. split; [exact I|]. split; [intros ? ? ? []|intros ? ? E; discriminate]. Qed.

Lemma pr_in_firstn {A} : forall d (l : list A) c, In c (firstn d l) -> exists i, (i < d)%nat /\ nth_error l i = Some c.
Proof.
  induction d as [|d IH]; intros [|a r] c Hc; cbn in Hc; try contradiction.
  destruct Hc as [<-|Hc]; [exists 0%nat; split; [lia|reflexivity]|].
  destruct (IH r c Hc) as (i & Hi & Hn). exists (S i). split; [lia|exact Hn].
Qed.

(* the chunks visited by createForwardTSN / createIForwardTSN are exactly the first d chunks in flight *)
Lemma pr_range_spec l cum (d : nat) : forall fuel (i : nat),
  pr_tsns_from l (cum + 1) -> Z.of_nat (length l) + 1 < 2147483648 -> (d <= length l)%nat -> (i <= d)%nat -> (d - i < fuel)%nat ->
  pr_range fuel l (wrap32 (cum + Z.of_nat d)) (wrap32 (cum + 1 + Z.of_nat i)) = firstn (d - i) (skipn i l).
Proof.
  induction fuel as [|f IH]; intros i Ht Hlen Hd Hi Hf; [lia|]. cbn [pr_range].
  destruct (Nat.eq_dec i d) as [->|Hne].
  - replace (sna32LTE (wrap32 (cum + 1 + Z.of_nat d)) (wrap32 (cum + Z.of_nat d))) with false.
    + rewrite Nat.sub_diag. reflexivity.
    + symmetry. apply not_true_iff_false. rewrite sna32LTE_spec by (unfold in32, wrap32; lia). unfold wrap32. lia.
  - replace (sna32LTE (wrap32 (cum + 1 + Z.of_nat i)) (wrap32 (cum + Z.of_nat d))) with true.
    + rewrite (pr_get_idx l (cum + 1) i Ht) by lia.
      destruct (nth_error l i) as [c|] eqn:Ec; [|apply nth_error_None in Ec; lia].
      replace (wrap32 (wrap32 (cum + 1 + Z.of_nat i) + 1)) with (wrap32 (cum + 1 + Z.of_nat (S i))) by (unfold wrap32; lia).
      rewrite (IH (S i)) by (auto; lia).
      replace (d - i)%nat with (S (d - S i)) by lia.
      assert (Esk : skipn i l = c :: skipn (S i) l).
      { clear -Ec. revert l Ec. induction i as [|i IH]; intros [|a r] Ec; cbn in *; try discriminate; [inversion Ec; reflexivity|auto]. }
      rewrite Esk. reflexivity.
    + symmetry. rewrite sna32LTE_spec by (unfold in32, wrap32; lia). unfold wrap32. lia.
Qed.

Lemma pr_fwd_range_spec s (d : nat) :
  pr_wf s -> pr_small s -> (d <= length (pr_infl s))%nat -> pr_adv s = wrap32 (pr_cum s + Z.of_nat d) ->
  pr_fwd_range s = firstn d (pr_infl s).
Proof.
  intros (W1 & W2 & W3) Hsm Hd Ha. unfold pr_fwd_range. rewrite Ha.
  replace (wrap32 (pr_cum s + 1)) with (wrap32 (pr_cum s + 1 + Z.of_nat 0)) by (f_equal; lia).
  rewrite (pr_range_spec _ _ d _ 0%nat W2 Hsm Hd) by lia. rewrite Nat.sub_0_r. reflexivity.
Qed.

(* all SSNs (MIDs) of the selected chunks of one stream lie in a window of half the number space *)
Definition pr_span (modulus : Z) (sel : pr_chunk -> bool) (val : pr_chunk -> Z) (L : list pr_chunk) : Prop :=
  forall sid, exists base, forall c, In c L -> sel c = true -> pr_sid c = sid ->
    0 <= val c < modulus /\ (val c - base) mod modulus < modulus / 2.

Lemma pr_span_rank16 base a b : in16 a -> in16 b ->
  (a - base) mod 65536 < 32768 -> (b - base) mod 65536 < 32768 ->
  (sna16LT a b = true <-> (a - base) mod 65536 < (b - base) mod 65536).
Proof. intros. rewrite sna16LT_spec by assumption. unfold in16 in *. lia. Qed.

Lemma pr_span_rank32 base a b : in32 a -> in32 b ->
  (a - base) mod 4294967296 < 2147483648 -> (b - base) mod 4294967296 < 2147483648 ->
  (sna32LT a b = true <-> (a - base) mod 4294967296 < (b - base) mod 4294967296).
Proof. intros. rewrite sna32LT_spec by assumption. unfold in32 in *. lia. Qed.

Definition pr_ordered (c : pr_chunk) : bool := negb (pr_unord c).

(* structural part: one entry per stream that has a selected chunk, carrying the value of one of them; keys increasing *)
Lemma pr_fold_list_struct sel val lt L :
  let M := pr_fold_map sel val lt L [] in
  pr_sorted M /\
  (forall sid, (exists c, In c L /\ sel c = true /\ pr_sid c = sid) <-> (exists v, In (sid, v) M)) /\
  (forall sid v, In (sid, v) M -> exists c, In c L /\ sel c = true /\ pr_sid c = sid /\ val c = v).
Proof.
  intros M.
  assert (Inv : pr_fold_inv False sel val (fun _ _ => 0) L M).
  { apply (pr_fold_map_spec False sel val lt (fun _ _ => 0) L ltac:(intros []) L [] []); [reflexivity|apply pr_fold_inv_nil]. }
  destruct Inv as (S & N & V). split; [exact S|]. split.
  - intros sid. split.
    + intros (c & Hc & Hs & Hsid). destruct (pr_map_get sid M) as [v|] eqn:E.
      * exists v. apply pr_map_get_in; auto.
      * exfalso. eapply N; eauto.
    + intros (v & Hv). apply pr_map_get_in in Hv; auto. destruct (V _ _ Hv) as (c & Hc & Hs & Hsid & _). eauto.
  - intros sid v Hv. apply pr_map_get_in in Hv; auto. destruct (V _ _ Hv) as (c & Hc & Hs & Hsid & Hval & _). eauto.
Qed.

(* maximality, for any rank function under which the serial comparison is the order of the ranks *)
Lemma pr_fold_list_max sel val lt rank L :
  (forall c c', In c L -> In c' L -> sel c = true -> sel c' = true -> pr_sid c = pr_sid c' ->
     (lt (val c) (val c') = true <-> rank (pr_sid c) (val c) < rank (pr_sid c) (val c'))) ->
  let M := pr_fold_map sel val lt L [] in
  forall sid v, In (sid, v) M -> forall c, In c L -> sel c = true -> pr_sid c = sid -> rank sid (val c) <= rank sid v.
Proof.
  intros Hr M.
  assert (Inv : pr_fold_inv True sel val rank L M).
  { apply (pr_fold_map_spec True sel val lt rank L (fun _ => Hr) L [] []); [reflexivity|apply pr_fold_inv_nil]. }
  destruct Inv as (S & N & V). intros sid v Hv c Hc Hs Hsid. apply pr_map_get_in in Hv; auto.
  destruct (V _ _ Hv) as (c0 & _ & _ & _ & _ & Hmax). apply (Hmax I c Hc Hs Hsid).
Qed.

(* span hypotheses: the values of the selected chunks of each stream lie within half the number space *)
Definition pr_span16 (sel : pr_chunk -> bool) (val : pr_chunk -> Z) (L : list pr_chunk) : Prop :=
  exists base : Z -> Z, forall c, In c L -> sel c = true -> in16 (val c) /\ (val c - base (pr_sid c)) mod 65536 < 32768.
Definition pr_span32 (sel : pr_chunk -> bool) (val : pr_chunk -> Z) (L : list pr_chunk) : Prop :=
  exists base : Z -> Z, forall c, In c L -> sel c = true -> in32 (val c) /\ (val c - base (pr_sid c)) mod 4294967296 < 2147483648.

Lemma pr_fold_list_max16 sel val L : pr_span16 sel val L ->
  let M := pr_fold_map sel val sna16LT L [] in
  forall sid v, In (sid, v) M -> forall c, In c L -> sel c = true -> pr_sid c = sid -> sna16LTE (val c) v = true.
Proof.
  intros (base & Hb) M sid v Hv c Hc Hs Hsid.
  destruct (pr_fold_list_struct sel val sna16LT L) as (_ & _ & Hwit). fold M in Hwit.
  destruct (Hwit _ _ Hv) as (c0 & Hc0 & Hs0 & Hsid0 & Hv0).
  assert (Hr : forall a b, In a L -> In b L -> sel a = true -> sel b = true -> pr_sid a = pr_sid b ->
     (sna16LT (val a) (val b) = true <-> (val a - base (pr_sid a)) mod 65536 < (val b - base (pr_sid a)) mod 65536)).
  { intros a b Ha Hb' Hsa Hsb Hab. destruct (Hb a Ha Hsa) as (Ia & Wa). destruct (Hb b Hb' Hsb) as (Ib & Wb). rewrite <- Hab in Wb.
    rewrite sna16LT_spec by assumption. unfold in16 in *. lia. }
  assert (Hle := pr_fold_list_max sel val sna16LT (fun sid x => (x - base sid) mod 65536) L Hr sid v Hv c Hc Hs Hsid).
  cbv beta in Hle.
  destruct (Hb c Hc Hs) as (I1 & W1). destruct (Hb c0 Hc0 Hs0) as (I0 & W0). rewrite Hsid in W1. rewrite Hsid0, Hv0 in W0. rewrite Hv0 in I0.
  apply sna16LTE_spec; auto. unfold in16 in *. lia.
Qed.

Lemma pr_fold_list_max32 sel val L : pr_span32 sel val L ->
  let M := pr_fold_map sel val sna32LT L [] in
  forall sid v, In (sid, v) M -> forall c, In c L -> sel c = true -> pr_sid c = sid -> sna32LTE (val c) v = true.
Proof.
  intros (base & Hb) M sid v Hv c Hc Hs Hsid.
  destruct (pr_fold_list_struct sel val sna32LT L) as (_ & _ & Hwit). fold M in Hwit.
  destruct (Hwit _ _ Hv) as (c0 & Hc0 & Hs0 & Hsid0 & Hv0).
  assert (Hr : forall a b, In a L -> In b L -> sel a = true -> sel b = true -> pr_sid a = pr_sid b ->
     (sna32LT (val a) (val b) = true <-> (val a - base (pr_sid a)) mod 4294967296 < (val b - base (pr_sid a)) mod 4294967296)).
  { intros a b Ha Hb' Hsa Hsb Hab. destruct (Hb a Ha Hsa) as (Ia & Wa). destruct (Hb b Hb' Hsb) as (Ib & Wb). rewrite <- Hab in Wb.
    rewrite sna32LT_spec by assumption. unfold in32 in *. lia. }
  assert (Hle := pr_fold_list_max sel val sna32LT (fun sid x => (x - base sid) mod 4294967296) L Hr sid v Hv c Hc Hs Hsid).
  cbv beta in Hle.
  destruct (Hb c Hc Hs) as (I1 & W1). destruct (Hb c0 Hc0 Hs0) as (I0 & W0). rewrite Hsid in W1. rewrite Hsid0, Hv0 in W0. rewrite Hv0 in I0.
  apply sna32LTE_spec; auto. unfold in32 in *. lia.
Qed.

Lemma pr_mk_fwd_fold s : snd (pr_mk_fwd s) = pr_fold_map pr_ordered pr_ssn sna16LT (pr_fwd_range s) [].
Proof.
  unfold pr_mk_fwd, pr_fold_map. cbn [snd]. generalize (@nil (Z * Z)). induction (pr_fwd_range s) as [|c r IH]; intros m; [reflexivity|].
  cbn [fold_left]. rewrite IH. unfold pr_ordered. destruct (pr_unord c); reflexivity.
Qed.

(* the two maps of createIForwardTSN *)
Definition pr_ifwd_omap (s : pr_state) : list (Z * Z) := pr_fold_map pr_ordered pr_mid sna32LT (pr_fwd_range s) [].
Definition pr_ifwd_umap (s : pr_state) : list (Z * Z) := pr_fold_map pr_unord pr_mid sna32LT (pr_fwd_range s) [].

Lemma pr_mk_ifwd_fold s :
  snd (pr_mk_ifwd s) = map (fun kv => (fst kv, false, snd kv)) (pr_ifwd_omap s) ++ map (fun kv => (fst kv, true, snd kv)) (pr_ifwd_umap s).
Proof.
  unfold pr_mk_ifwd, pr_ifwd_omap, pr_ifwd_umap, pr_fold_map. cbn [snd]. f_equal; f_equal.
  generalize (@nil (Z * Z)). induction (pr_fwd_range s) as [|c r IH]; intros m; [reflexivity|].
  cbn [fold_left]. rewrite IH. unfold pr_ordered. destruct (pr_unord c); reflexivity.
Qed.

Lemma pr_winv_prefix s : pr_winv s -> pr_small s ->
  exists d : nat, (d <= length (pr_infl s))%nat /\ pr_adv s = wrap32 (pr_cum s + Z.of_nat d) /\
    pr_fwd_range s = firstn d (pr_infl s) /\
    (forall c, In c (firstn d (pr_infl s)) -> pr_abandoned s c = true) /\
    (forall i c, (i < d)%nat -> nth_error (pr_infl s) i = Some c -> pr_abandoned s c = true).
Proof.
  intros (Hen & Hwf & (d & Hd & Ha & Hab)) Hsm. exists d. split; [exact Hd|]. split; [exact Ha|].
  split; [apply pr_fwd_range_spec; auto|]. split; [|exact Hab].
  intros c Hc. destruct (pr_in_firstn _ _ _ Hc) as (i & Hi & Hn). eauto.
Qed.

(* createForwardTSN: per stream the serial maximum of the SSNs of the abandoned ORDERED chunks in (cum, adv],
   nothing for unordered chunks, one entry per stream (keys increasing = the order the comparator sorts into) *)
Theorem pr_fwd_lists_max_ordered_ssn_thm : forall s,
  pr_winv s -> pr_small s ->
  exists d : nat, (d <= length (pr_infl s))%nat /\ pr_adv s = wrap32 (pr_cum s + Z.of_nat d) /\
  let L := firstn d (pr_infl s) in
  let M := snd (pr_mk_fwd s) in
  fst (pr_mk_fwd s) = pr_adv s /\
  pr_sorted M /\
  (forall c, In c L -> pr_abandoned s c = true) /\
  (forall sid, (exists c, In c L /\ pr_unord c = false /\ pr_sid c = sid) <-> (exists v, In (sid, v) M)) /\
  (forall sid v, In (sid, v) M -> exists c, In c L /\ pr_unord c = false /\ pr_sid c = sid /\ pr_ssn c = v) /\
  (pr_span16 pr_ordered pr_ssn L ->
     forall sid v, In (sid, v) M -> forall c, In c L -> pr_unord c = false -> pr_sid c = sid -> sna16LTE (pr_ssn c) v = true).
Proof.
  intros s W Hsm. destruct (pr_winv_prefix s W Hsm) as (d & Hd & Ha & ER & Hab & _). exists d. split; [exact Hd|]. split; [exact Ha|].
  intros L M. assert (EM : M = pr_fold_map pr_ordered pr_ssn sna16LT L []) by (unfold M; rewrite pr_mk_fwd_fold, ER; reflexivity).
  assert (Hsel : forall c, pr_ordered c = true <-> pr_unord c = false) by (intros c; unfold pr_ordered; destruct (pr_unord c); cbn; split; congruence).
  destruct (pr_fold_list_struct pr_ordered pr_ssn sna16LT L) as (S1 & S2 & S3). rewrite <- EM in S1, S2, S3.
  split; [reflexivity|]. split; [exact S1|]. split; [exact Hab|]. split; [|split].
  - intros sid. rewrite <- S2. split; intros (c & A & B & C); exists c; repeat split; auto; apply Hsel; auto.
  - intros sid v Hv. destruct (S3 _ _ Hv) as (c & A & B & C & D). exists c. repeat split; auto. apply Hsel; auto.
  - intros Hspan sid v Hv c Hc Ho Hsid. rewrite EM in Hv.
    apply (pr_fold_list_max16 pr_ordered pr_ssn L Hspan sid v Hv c Hc); auto. apply Hsel; auto.
Qed.

(* createIForwardTSN: likewise per (stream, U flag) with message identifiers *)
Theorem pr_ifwd_lists_max_mid_thm : forall s,
  pr_winv s -> pr_small s ->
  exists d : nat, (d <= length (pr_infl s))%nat /\ pr_adv s = wrap32 (pr_cum s + Z.of_nat d) /\
  let L := firstn d (pr_infl s) in
  fst (pr_mk_ifwd s) = pr_adv s /\
  pr_sorted (pr_ifwd_omap s) /\ pr_sorted (pr_ifwd_umap s) /\
  (forall sid u v, In (sid, u, v) (snd (pr_mk_ifwd s)) <-> In (sid, v) (if u then pr_ifwd_umap s else pr_ifwd_omap s)) /\
  (forall c, In c L -> pr_abandoned s c = true) /\
  (forall u sid, (exists c, In c L /\ pr_unord c = u /\ pr_sid c = sid) <-> (exists v, In (sid, u, v) (snd (pr_mk_ifwd s)))) /\
  (forall sid u v, In (sid, u, v) (snd (pr_mk_ifwd s)) -> exists c, In c L /\ pr_unord c = u /\ pr_sid c = sid /\ pr_mid c = v) /\
  (forall u, pr_span32 (fun c => Bool.eqb (pr_unord c) u) pr_mid L ->
     forall sid v, In (sid, u, v) (snd (pr_mk_ifwd s)) -> forall c, In c L -> pr_unord c = u -> pr_sid c = sid -> sna32LTE (pr_mid c) v = true).
Proof.
  intros s W Hsm. destruct (pr_winv_prefix s W Hsm) as (d & Hd & Ha & ER & Hab & _). exists d. split; [exact Hd|]. split; [exact Ha|].
  intros L.
  assert (EO : pr_ifwd_omap s = pr_fold_map pr_ordered pr_mid sna32LT L []) by (unfold pr_ifwd_omap; rewrite ER; reflexivity).
  assert (EU : pr_ifwd_umap s = pr_fold_map pr_unord pr_mid sna32LT L []) by (unfold pr_ifwd_umap; rewrite ER; reflexivity).
  destruct (pr_fold_list_struct pr_ordered pr_mid sna32LT L) as (O1 & O2 & O3). rewrite <- EO in O1, O2, O3.
  destruct (pr_fold_list_struct pr_unord pr_mid sna32LT L) as (U1 & U2 & U3). rewrite <- EU in U1, U2, U3.
  assert (Hmem : forall sid u v, In (sid, u, v) (snd (pr_mk_ifwd s)) <-> In (sid, v) (if u then pr_ifwd_umap s else pr_ifwd_omap s)).
  { intros sid u v. rewrite pr_mk_ifwd_fold, in_app_iff, !in_map_iff. split.
    - intros [((k, x) & E & Hin)|((k, x) & E & Hin)]; cbn in E; inversion E; subst; exact Hin.
    - intros Hin. destruct u; [right|left]; exists (sid, v); split; auto. }
  assert (Hsel : forall c, pr_ordered c = true <-> pr_unord c = false) by (intros c; unfold pr_ordered; destruct (pr_unord c); cbn; split; congruence).
  split; [reflexivity|]. split; [exact O1|]. split; [exact U1|]. split; [exact Hmem|]. split; [exact Hab|]. split; [|split].
  - intros u sid. split.
    + intros (c & A & B & C). destruct u.
      * destruct (proj1 (U2 sid)) as (v & Hv); [exists c; auto|]. exists v. apply Hmem. exact Hv.
      * destruct (proj1 (O2 sid)) as (v & Hv); [exists c; repeat split; auto; apply Hsel; auto|]. exists v. apply Hmem. exact Hv.
    + intros (v & Hv). apply Hmem in Hv. destruct u.
      * destruct (proj2 (U2 sid)) as (c & A & B & C); [eauto|]. eauto.
      * destruct (proj2 (O2 sid)) as (c & A & B & C); [eauto|]. exists c. repeat split; auto. apply Hsel; auto.
  - intros sid u v Hv. apply Hmem in Hv. destruct u.
    + destruct (U3 _ _ Hv) as (c & A & B & C & D). eauto 6.
    + destruct (O3 _ _ Hv) as (c & A & B & C & D). exists c. repeat split; auto. apply Hsel; auto.
  - intros u Hspan sid v Hv c Hc Hu Hsid. apply Hmem in Hv. destruct u.
    + rewrite EU in Hv. refine (pr_fold_list_max32 pr_unord pr_mid L _ sid v Hv c Hc Hu Hsid).
      destruct Hspan as (base & Hb). exists base. intros x Hx Hsx. apply Hb; [exact Hx|]. rewrite Hsx. reflexivity.
    + rewrite EO in Hv. refine (pr_fold_list_max32 pr_ordered pr_mid L _ sid v Hv c Hc (proj2 (Hsel c) Hu) Hsid).
      destruct Hspan as (base & Hb). exists base. intros x Hx Hsx. apply Hb; [exact Hx|]. apply Hsel in Hsx. rewrite Hsx. reflexivity.
Qed.

(* ================================================================ C07 (c): nothing that was not abandoned is skipped *)

(* the well-formed universe: within one stream the selected (ordered / unordered) messages leave in SSN (MID) order,
   hence with increasing TSNs (who establishes it: Stream.packetize assigns consecutive numbers per message,
   C17.c17_fifo_message_mode / c17_fifo_per_stream keep the per-class / per-stream order on the way to TSN assignment),
   and all numbers of a stream that are in flight together lie in one half of the number space *)
Definition pr_mono16 (sel : pr_chunk -> bool) (val : pr_chunk -> Z) (s : pr_state) : Prop :=
  forall i j ci cj, (i < j)%nat -> nth_error (pr_infl s) i = Some ci -> nth_error (pr_infl s) j = Some cj ->
    sel ci = true -> sel cj = true -> pr_sid ci = pr_sid cj ->
    in16 (val ci) /\ in16 (val cj) /\ (val cj - val ci) mod 65536 < 32768 /\
    ((val cj - val ci) mod 65536 = 0 -> pr_msg ci = pr_msg cj).
Definition pr_mono32 (sel : pr_chunk -> bool) (val : pr_chunk -> Z) (s : pr_state) : Prop :=
  forall i j ci cj, (i < j)%nat -> nth_error (pr_infl s) i = Some ci -> nth_error (pr_infl s) j = Some cj ->
    sel ci = true -> sel cj = true -> pr_sid ci = pr_sid cj ->
    in32 (val ci) /\ in32 (val cj) /\ (val cj - val ci) mod 4294967296 < 2147483648 /\
    ((val cj - val ci) mod 4294967296 = 0 -> pr_msg ci = pr_msg cj).

Lemma pr_abandoned_same_msg s a b : pr_msg a = pr_msg b -> pr_abandoned s a = pr_abandoned s b.
Proof. unfold pr_abandoned. intros ->. reflexivity. Qed.

(* core: if some chunk of the first d (abandoned) chunks carries value v, every in-flight chunk of the same
   stream and class whose value is serially <= v is abandoned *)
Lemma pr_no_collateral_core16 s sel val (d : nat) cstar v :
  (forall i c, (i < d)%nat -> nth_error (pr_infl s) i = Some c -> pr_abandoned s c = true) ->
  pr_mono16 sel val s -> In cstar (firstn d (pr_infl s)) -> sel cstar = true -> val cstar = v ->
  forall c, In c (pr_infl s) -> sel c = true -> pr_sid c = pr_sid cstar -> in16 (val c) ->
    sna16LTE (val c) v = true -> pr_abandoned s c = true.
Proof.
  intros Hab Hm Hcs Hss Hv c Hc Hs Hsid Hin Hle.
  destruct (pr_in_firstn _ _ _ Hcs) as (is_ & His & Hns). apply In_nth_error in Hc. destruct Hc as [i Hi].
  destruct (Nat.lt_ge_cases i d) as [Hlt|Hge]; [eauto|].
  destruct (Hm is_ i cstar c ltac:(lia) Hns Hi Hss Hs (eq_sym Hsid)) as (I1 & I2 & Hd & Heq).
  rewrite sna16LTE_spec in Hle by (subst v; assumption). subst v.
  assert (E0 : (val c - val cstar) mod 65536 = 0) by (unfold in16 in *; lia).
  rewrite <- (pr_abandoned_same_msg s cstar c (Heq E0)). eauto.
Qed.

Lemma pr_no_collateral_core32 s sel val (d : nat) cstar v :
  (forall i c, (i < d)%nat -> nth_error (pr_infl s) i = Some c -> pr_abandoned s c = true) ->
  pr_mono32 sel val s -> In cstar (firstn d (pr_infl s)) -> sel cstar = true -> val cstar = v ->
  forall c, In c (pr_infl s) -> sel c = true -> pr_sid c = pr_sid cstar -> in32 (val c) ->
    sna32LTE (val c) v = true -> pr_abandoned s c = true.
Proof.
  intros Hab Hm Hcs Hss Hv c Hc Hs Hsid Hin Hle.
  destruct (pr_in_firstn _ _ _ Hcs) as (is_ & His & Hns). apply In_nth_error in Hc. destruct Hc as [i Hi].
  destruct (Nat.lt_ge_cases i d) as [Hlt|Hge]; [eauto|].
  destruct (Hm is_ i cstar c ltac:(lia) Hns Hi Hss Hs (eq_sym Hsid)) as (I1 & I2 & Hd & Heq).
  rewrite sna32LTE_spec in Hle by (subst v; assumption). subst v.
  assert (E0 : (val c - val cstar) mod 4294967296 = 0) by (unfold in32 in *; lia).
  rewrite <- (pr_abandoned_same_msg s cstar c (Heq E0)). eauto.
Qed.

(* DATA: an entry (sid, v) of the FORWARD-TSN can only hit abandoned ordered messages *)
Theorem pr_no_collateral_ordered_thm : forall s sid v,
  pr_winv s -> pr_small s -> pr_mono16 pr_ordered pr_ssn s -> In (sid, v) (snd (pr_mk_fwd s)) ->
  forall c, In c (pr_infl s) -> pr_unord c = false -> pr_sid c = sid -> in16 (pr_ssn c) ->
    sna16LTE (pr_ssn c) v = true -> pr_abandoned s c = true.
Proof.
  intros s sid v W Hsm Hm Hv c Hc Hu Hsid Hin Hle.
  destruct (pr_winv_prefix s W Hsm) as (d & Hd & Ha & ER & _ & Hab).
  destruct (pr_fwd_lists_max_ordered_ssn_thm s W Hsm) as (d' & Hd' & Ha' & _ & _ & _ & _ & Hwit & _).
  assert (d' = d).
  { destruct W as (_ & (W1 & _) & _). unfold pr_small in Hsm. rewrite Ha in Ha'. unfold wrap32, in32 in *. lia. }
  subst d'. destruct (Hwit _ _ Hv) as (cs & Hcs & Hus & Hsids & Hvs).
  apply (pr_no_collateral_core16 s pr_ordered pr_ssn d cs v); auto; unfold pr_ordered; try rewrite Hus; try rewrite Hu; auto. congruence.
Qed.

(* I-DATA: the same per (stream, U flag) with message identifiers *)
Theorem pr_no_collateral_mid_thm : forall s sid u v,
  pr_winv s -> pr_small s -> pr_mono32 (fun c => Bool.eqb (pr_unord c) u) pr_mid s -> In (sid, u, v) (snd (pr_mk_ifwd s)) ->
  forall c, In c (pr_infl s) -> pr_unord c = u -> pr_sid c = sid -> in32 (pr_mid c) ->
    sna32LTE (pr_mid c) v = true -> pr_abandoned s c = true.
Proof.
  intros s sid u v W Hsm Hm Hv c Hc Hu Hsid Hin Hle.
  destruct (pr_winv_prefix s W Hsm) as (d & Hd & Ha & ER & _ & Hab).
  destruct (pr_ifwd_lists_max_mid_thm s W Hsm) as (d' & Hd' & Ha' & _ & _ & _ & _ & _ & _ & Hwit & _).
  assert (d' = d).
  { destruct W as (_ & (W1 & _) & _). unfold pr_small in Hsm. rewrite Ha in Ha'. unfold wrap32, in32 in *. lia. }
  subst d'. destruct (Hwit _ _ _ Hv) as (cs & Hcs & Hus & Hsids & Hvs).
  apply (pr_no_collateral_core32 s (fun c => Bool.eqb (pr_unord c) u) pr_mid d cs v); auto; cbv beta;
    try rewrite Hus; try rewrite Hu; try apply eqb_reflx; auto. congruence.
Qed.

(* the message that straddles the cumulative point (earlier fragments already acknowledged) is abandoned
   whenever a FORWARD-TSN is due; every in-flight TSN <= the new cumulative TSN is abandoned *)
Theorem pr_no_collateral_tsn_thm : forall s,
  pr_winv s -> pr_small s ->
  (forall c, In c (pr_infl s) -> sna32LTE (pr_tsn c) (pr_adv s) = true -> pr_abandoned s c = true) /\
  (sna32GT (pr_adv s) (pr_cum s) = true -> forall c, nth_error (pr_infl s) 0 = Some c -> pr_abandoned s c = true).
Proof.
  intros s W Hsm. split; [apply pr_winv_range; auto|].
  destruct W as (_ & (W1 & _) & (d & Hd & Ha & Hab)). intros Hgt c Hc. apply (Hab 0%nat c); [|exact Hc].
  destruct d; [|lia]. rewrite Ha in Hgt. replace (wrap32 (pr_cum s + Z.of_nat 0)) with (pr_cum s) in Hgt by (unfold wrap32, in32 in *; lia).
  rewrite sna32GT_spec in Hgt by assumption. lia.
Qed.

(* receiver side, ordered DATA: with rqs_forward_ordered (only incomplete sets <= v are removed), the purge
   removes only sets of abandoned messages.  Link hypothesis: an incomplete set at the receiver still has a
   fragment in flight at the sender (the receiver holds every TSN up to the sender's cumulative point). *)
Theorem pr_purge_only_abandoned_ordered_thm : forall s q sid v,
  pr_winv s -> pr_small s -> pr_mono16 pr_ordered pr_ssn s -> In (sid, v) (snd (pr_mk_fwd s)) ->
  (forall S, In S (rq_ordered q) -> rqs_complete (rqs_chunks S) = false ->
     exists c, In c (pr_infl s) /\ pr_unord c = false /\ pr_sid c = sid /\ pr_ssn c = rqs_key S /\ in16 (pr_ssn c)) ->
  let q' := rq_fwd_ordered q v in
  (forall S, In S (rq_ordered q) -> ~ In S (rq_ordered q') ->
     exists c, In c (pr_infl s) /\ pr_sid c = sid /\ pr_ssn c = rqs_key S /\ pr_abandoned s c = true) /\
  (forall S, In S (rq_ordered q) -> (rqs_complete (rqs_chunks S) = true \/ sna16LTE (rqs_key S) v = false) -> In S (rq_ordered q')) /\
  rq_nextSSN q' = (if sna16LTE (rq_nextSSN q) v then wrap16 (v + 1) else rq_nextSSN q) /\
  rq_unordered q' = rq_unordered q /\ rq_uchunks q' = rq_uchunks q.
Proof.
  intros s q sid v W Hsm Hm Hv Hlink q'.
  destruct (rq_fwd_ordered_spec q v) as (_ & Hrem & Hkeep & Hn & Hu & Huc & _). fold q' in Hrem, Hkeep, Hn, Hu, Huc.
  split; [|repeat split; auto].
  intros S HS HnS. destruct (Hrem S HS HnS) as (Hle & Hinc).
  destruct (Hlink S HS Hinc) as (c & Hc & Hu' & Hsid & Hssn & Hin).
  exists c. repeat split; auto.
  apply (pr_no_collateral_ordered_thm s sid v W Hsm Hm Hv c Hc Hu' Hsid Hin). rewrite Hssn. exact Hle.
Qed.

(* receiver side, ordered / unordered I-DATA *)
Theorem pr_purge_only_abandoned_ordered_mid_thm : forall s q sid v,
  pr_winv s -> pr_small s -> pr_mono32 (fun c => Bool.eqb (pr_unord c) false) pr_mid s -> In (sid, false, v) (snd (pr_mk_ifwd s)) ->
  (forall S, In S (rq_orderedMID q) -> rqm_complete (rqs_chunks S) = false ->
     exists c, In c (pr_infl s) /\ pr_unord c = false /\ pr_sid c = sid /\ pr_mid c = rqs_key S /\ in32 (pr_mid c)) ->
  let q' := rq_fwd_ordered_mid q v in
  (forall S, In S (rq_orderedMID q) -> ~ In S (rq_orderedMID q') ->
     exists c, In c (pr_infl s) /\ pr_sid c = sid /\ pr_mid c = rqs_key S /\ pr_abandoned s c = true) /\
  (forall S, In S (rq_orderedMID q) -> (rqm_complete (rqs_chunks S) = true \/ sna32LTE (rqs_key S) v = false) -> In S (rq_orderedMID q')) /\
  rq_nextMID q' = (if sna32LTE (rq_nextMID q) v then wrap32 (v + 1) else rq_nextMID q).
Proof.
  intros s q sid v W Hsm Hm Hv Hlink q'.
  destruct (rq_fwd_ordered_mid_spec q v) as (_ & Hrem & Hkeep & Hn & _). fold q' in Hrem, Hkeep, Hn.
  split; [|split; auto].
  intros S HS HnS. destruct (Hrem S HS HnS) as (Hle & Hinc).
  destruct (Hlink S HS Hinc) as (c & Hc & Hu' & Hsid & Hmid & Hin).
  exists c. repeat split; auto.
  apply (pr_no_collateral_mid_thm s sid false v W Hsm Hm Hv c Hc Hu' Hsid Hin). rewrite Hmid. exact Hle.
Qed.

Theorem pr_purge_only_abandoned_unordered_mid_thm : forall s q sid v,
  pr_winv s -> pr_small s -> pr_mono32 (fun c => Bool.eqb (pr_unord c) true) pr_mid s -> In (sid, true, v) (snd (pr_mk_ifwd s)) ->
  (forall S, In S (rq_umidmap q) ->
     exists c, In c (pr_infl s) /\ pr_unord c = true /\ pr_sid c = sid /\ pr_mid c = rqs_key S /\ in32 (pr_mid c)) ->
  let q' := rq_fwd_unordered_mid q v in
  (forall S, In S (rq_umidmap q) -> ~ In S (rq_umidmap q') ->
     exists c, In c (pr_infl s) /\ pr_sid c = sid /\ pr_mid c = rqs_key S /\ pr_abandoned s c = true) /\
  rq_unorderedMID q' = rq_unorderedMID q /\ rq_orderedMID q' = rq_orderedMID q /\ rq_nextMID q' = rq_nextMID q.
Proof.
  intros s q sid v W Hsm Hm Hv Hlink q'.
  destruct (rq_fwd_unordered_mid_spec q v) as (_ & Hrem & _ & _ & _ & Ho & Hu & _ & Hn & _). fold q' in Hrem, Ho, Hu, Hn.
  split; [|repeat split; auto].
  intros S HS HnS. assert (Hle := Hrem S HS HnS).
  destruct (Hlink S HS) as (c & Hc & Hu' & Hsid & Hmid & Hin).
  exists c. repeat split; auto.
  apply (pr_no_collateral_mid_thm s sid true v W Hsm Hm Hv c Hc Hu' Hsid Hin). rewrite Hmid. exact Hle.
Qed.

(* receiver side, unordered DATA: the purge removes only fragments with TSN <= the new cumulative TSN
   (rqs_forward_unordered); such a fragment is a copy of a chunk still in flight (then that chunk is abandoned)
   or belongs to the message straddling the sender's cumulative point (then that message is abandoned).
   [rel x c]: the held fragment x belongs to the message of the in-flight chunk c (link hypothesis). *)
Theorem pr_purge_only_abandoned_unordered_thm : forall s q (rel : rqchunk -> pr_chunk -> Prop),
  pr_winv s -> pr_small s -> sna32GT (pr_adv s) (pr_cum s) = true ->
  (forall x, In x (rq_uchunks q) -> sna32GT (rqc_tsn x) (pr_adv s) = false ->
     (exists c, In c (pr_infl s) /\ pr_tsn c = rqc_tsn x /\ rel x c) \/
     (exists c0, nth_error (pr_infl s) 0 = Some c0 /\ rel x c0)) ->
  let q' := rq_fwd_unordered q (pr_adv s) in
  rq_uchunks q = rq_fwdu_removed q (pr_adv s) ++ rq_uchunks q' /\
  (forall x, In x (rq_fwdu_removed q (pr_adv s)) -> exists c, In c (pr_infl s) /\ rel x c /\ pr_abandoned s c = true) /\
  rq_ordered q' = rq_ordered q /\ rq_unordered q' = rq_unordered q /\ rq_nextSSN q' = rq_nextSSN q.
Proof.
  intros s q rel W Hsm Hgt Hlink q'.
  destruct (rq_fwd_unordered_spec q (pr_adv s)) as (Hsplit & Hall & _ & Ho & Hu & _ & _ & _ & Hn & _). fold q' in Hsplit, Ho, Hu, Hn.
  destruct (pr_no_collateral_tsn_thm s W Hsm) as (Htsn & Hstr).
  split; [exact Hsplit|]. split; [|repeat split; auto].
  intros x Hx. rewrite Forall_forall in Hall. assert (Hxg := Hall x Hx).
  assert (Hxin : In x (rq_uchunks q)) by (rewrite Hsplit; apply in_or_app; left; exact Hx).
  destruct (Hlink x Hxin Hxg) as [(c & Hc & Ht & Hr)|(c0 & Hc0 & Hr)].
  - exists c. repeat split; auto. apply Htsn; auto.
    destruct W as (_ & (W1 & W2 & _) & (d & Hd & Ha & _)).
    assert (in32 (pr_tsn c)). { apply In_nth_error in Hc. destruct Hc as [i Hi]. rewrite (W2 _ _ Hi). unfold in32, wrap32. lia. }
    assert (in32 (pr_adv s)) by (rewrite Ha; unfold in32, wrap32; lia).
    rewrite Ht. rewrite <- Ht in Hxg.
    rewrite <- not_true_iff_false in Hxg. rewrite sna32GT_spec in Hxg by assumption.
    rewrite Ht in *. apply sna32LTE_spec; auto. unfold in32 in *. lia.
  - exists c0. split; [eapply nth_error_In; eauto|]. split; [exact Hr|]. apply Hstr; auto.
Qed.

(* ================================================================ C06 (e): lifetime limit *)

Definition pr_timed_stream (s : pr_state) (sid L : Z) : Prop :=
  pr_pol_get sid (pr_pol s) = Some (c_ReliabilityTypeTimed, L) /\ pr_enabled s = true.

(* position in the in-flight list that payloadQueue.get resolves a TSN to *)
Definition pr_pos_of (l : list pr_chunk) (t : Z) : option nat :=
  match l with
  | [] => None
  | c0 :: _ => let off := wrap32 (t - pr_tsn c0) in if off >=? Z.of_nat (length l) then None else Some (Z.to_nat off)
  end.

Lemma pr_get_pos_of l t : pr_get l t = match pr_pos_of l t with Some p => nth_error l p | None => None end.
Proof. unfold pr_get, pr_pos_of. destruct l as [|c0 r]; [reflexivity|]. destruct (_ >=? _); reflexivity. Qed.

Lemma pr_put_pos l t x p : pr_pos_of l t = Some p ->
  (p < length l)%nat /\ forall m, nth_error (pr_put l t x) m = if Nat.eqb p m then Some x else nth_error l m.
Proof.
  unfold pr_pos_of, pr_put. destruct l as [|c0 r]; [discriminate|].
  destruct (wrap32 (t - pr_tsn c0) >=? Z.of_nat (length (c0 :: r))) eqn:E; [discriminate|]. intros H; inversion H; subst p; clear H.
  assert (Hlt : (Z.to_nat (wrap32 (t - pr_tsn c0)) < length (c0 :: r))%nat) by (unfold wrap32 in *; lia).
  split; [exact Hlt|]. intros m. rewrite pr_upd_nth_nth. destruct (Nat.eqb _ m); [|reflexivity].
  apply Nat.ltb_lt in Hlt. rewrite Hlt. reflexivity.
Qed.

(* generic pointwise relation through the gap-ack marking *)
Lemma pr_mark_gaps_rel (R : pr_chunk -> pr_chunk -> Prop) :
  (forall a, R a a) -> (forall a b c, R a b -> R b c -> R a c) -> (forall c, R c (pr_ackd c)) ->
  forall gaps l cum l', pr_mark_gaps gaps l cum = Some l' -> Forall2 R l l'.
Proof.
  intros Hrefl Htrans Hack.
  assert (One : forall l t l', pr_mark_one l t = Some l' -> Forall2 R l l').
  { intros l t l'. unfold pr_mark_one. destruct (pr_get l t) as [c|] eqn:Eg; [|discriminate].
    destruct (pr_acked c); intros H; inversion H; subst; [apply Forall2_refl; exact Hrefl|].
    destruct (pr_put_nth l t c (pr_with c (pr_nsent c) true false (pr_first c)) Eg) as (n & Hn & Hlt & Hm).
    apply Forall2_of_nth; [apply pr_put_length|]. intros i a b Ha Hb. rewrite Hm in Hb. destruct (Nat.eqb n i) eqn:E.
    - apply Nat.eqb_eq in E. subst i. inversion Hb; subst. rewrite Hn in Ha. inversion Ha; subst. apply Hack.
    - rewrite Ha in Hb. inversion Hb; subst. apply Hrefl. }
  assert (Rng : forall n l cum i l', pr_mark_range n l cum i = Some l' -> Forall2 R l l').
  { induction n as [|n IH]; intros l cum i l'; cbn [pr_mark_range]; [intros H; inversion H; subst; apply Forall2_refl; exact Hrefl|].
    destruct (pr_mark_one l (wrap32 (cum + i))) as [l1|] eqn:E; [|discriminate].
    intros H. eapply Forall2_trans; [exact Htrans|eapply One; eauto|eapply IH; eauto]. }
  induction gaps as [|[gs ge] r IH]; intros l cum l'; cbn [pr_mark_gaps]; [intros H; inversion H; subst; apply Forall2_refl; exact Hrefl|].
  destruct (pr_mark_range _ l cum gs) as [l1|] eqn:E; [|discriminate].
  intros H. eapply Forall2_trans; [exact Htrans|eapply Rng; eauto|eapply IH; eauto].
Qed.

(* what a SACK does to the list: drop k chunks from the front, then ack-mark some of the rest *)
Definition pr_ack_rel (a b : pr_chunk) : Prop :=
  pr_core_eq a b /\ pr_nsent b = pr_nsent a /\ pr_first b = pr_first a /\ (pr_rtx b = true -> pr_rtx a = true).

Lemma pr_sack_list s cum gaps s' : pr_sack s cum gaps = Some s' ->
  exists k, (k <= length (pr_infl s))%nat /\ Forall2 pr_ack_rel (skipn k (pr_infl s)) (pr_infl s').
Proof.
  assert (Hrefl : forall a, pr_ack_rel a a) by (intros a; split; [apply pr_core_eq_refl|auto]).
  intros H. destruct (pr_sack_shape _ _ _ _ H) as (_ & _ & _ & _ & _ & [E|(k & l2 & Em & E)]).
  - exists 0%nat. split; [lia|]. rewrite E. apply Forall2_refl. exact Hrefl.
  - exists (Nat.min k (length (pr_infl s))). split; [lia|]. rewrite E.
    replace (skipn (Nat.min k (length (pr_infl s))) (pr_infl s)) with (skipn k (pr_infl s)).
    + eapply pr_mark_gaps_rel; [exact Hrefl| |intros c; split; [apply pr_core_eq_with|cbn; repeat split; auto; discriminate]|exact Em].
      intros a b c (A1 & A2 & A3 & A4) (B1 & B2 & B3 & B4). split; [eapply pr_core_eq_trans; eauto|].
      repeat split; try congruence. auto.
    + destruct (Nat.le_gt_cases k (length (pr_infl s))) as [Hle|Hgt].
      * rewrite Nat.min_l by exact Hle. reflexivity.
      * rewrite Nat.min_r by lia. rewrite skipn_all. apply skipn_all2. lia.
Qed.

Lemma pr_step_fixed s e s' o : pr_step s e = Some (s', o) ->
  pr_pol s' = pr_pol s /\ pr_usefwd s' = pr_usefwd s /\ pr_useifwd s' = pr_useifwd s.
Proof.
  intros H. destruct e as [c now|t| |t now|t|t now|cum gaps| ]; cbn [pr_step] in H.
  - destruct (pr_send s c now) as [s1|] eqn:E; [|discriminate]. inversion H; subst.
    destruct (pr_send_shape _ _ _ _ E) as (m2 & _ & _ & _ & _ & ->). cbn. auto.
  - unfold pr_mark in H. destruct (pr_get (pr_infl s) t) as [c|]; [|discriminate].
    destruct (pr_acked c || pr_abandoned s c); [discriminate|]. inversion H; subst. cbn. auto.
  - inversion H; subst. unfold pr_t3, pr_mark_all_rtx. cbn [pr_set_core pr_pol pr_usefwd pr_useifwd].
    destruct (pr_advance_fields s false) as (_ & _ & A3 & _ & _ & A6 & A7). auto.
  - unfold pr_retransmit in H. destruct (pr_get (pr_infl s) t) as [c|]; [|discriminate].
    destruct (negb (pr_rtx c) || pr_abandoned s c); [discriminate|]. inversion H; subst. cbn. auto.
  - unfold pr_unmark in H. destruct (pr_get (pr_infl s) t) as [c|]; [|discriminate].
    destruct (pr_rtx c && pr_abandoned s c); [|discriminate]. inversion H; subst. cbn. auto.
  - unfold pr_fast_retransmit in H. destruct (pr_get (pr_infl s) t) as [c|]; [|discriminate].
    destruct (pr_acked c || pr_abandoned s c || (pr_nsent c >? 1)); [discriminate|]. inversion H; subst. cbn. auto.
  - destruct (pr_sack s cum gaps) as [s1|] eqn:E; [|discriminate]. inversion H; subst.
    destruct (pr_sack_shape _ _ _ _ E) as (_ & A & B & C & _). auto.
  - injection H as H. assert (Es : s' = fst (pr_gather_fwd s)) by (rewrite H; reflexivity). subst s'.
    destruct (pr_gather_fields s) as (_ & _ & A3 & _ & _ & _ & A7 & A8). auto.
Qed.

Lemma pr_check_timed s sid L msgs c now :
  pr_timed_stream s sid L -> pr_sid c = sid -> pr_dcep c = false ->
  pr_check_status s msgs c now = if pr_elapsed_ms now (pr_first c) >=? L then pr_set_aband (pr_msg c) msgs else msgs.
Proof.
  intros (Hp & He) Hs Hd. unfold pr_check_status. rewrite He, Hd, Hs, Hp. cbn [negb].
  replace (c_ReliabilityTypeTimed =? c_ReliabilityTypeRexmit) with false by reflexivity.
  replace (c_ReliabilityTypeTimed =? c_ReliabilityTypeTimed) with true by reflexivity. reflexivity.
Qed.

(* following one chunk through a history: its position in the in-flight list *)
Definition pr_track (p : nat) (s s' : pr_state) (e : pr_ev) : option nat :=
  match e with
  | PrSack _ _ =>
      let k := (length (pr_infl s) - length (pr_infl s'))%nat in
      if Nat.ltb p k then None else Some (p - k)%nat
  | _ => Some p
  end.

(* the event is a (re)transmission of the chunk at position p at a time when its lifetime L has expired *)
Definition pr_is_late (L : Z) (s : pr_state) (p : nat) (e : pr_ev) : bool :=
  match e with
  | PrRtx t now | PrFrtx t now =>
      match pr_pos_of (pr_infl s) t, nth_error (pr_infl s) p with
      | Some p', Some c => Nat.eqb p' p && (pr_elapsed_ms now (pr_first c) >=? L)
      | _, _ => false
      end
  | _ => false
  end.

Fixpoint pr_count_late (L : Z) (p : nat) (s : pr_state) (evs : list pr_ev) : nat :=
  match evs with
  | [] => 0
  | e :: r =>
      match pr_step s e with
      | Some (s', _) =>
          (if pr_is_late L s p e then 1 else 0) +
          match pr_track p s s' e with Some p' => pr_count_late L p' s' r | None => 0 end
      | None => 0        (* a step the code cannot perform transmits nothing *)
      end
  end%nat.

(* side condition of the lifetime theorem: loss recovery selects chunks only while the messages of the stream are
   entirely in flight (D21 is what happens otherwise) *)
Definition pr_lt_side (sid : Z) (s : pr_state) (e : pr_ev) : Prop := pr_ev_loss e = true -> pr_whole s sid.

(* K = number of late transmissions of the followed chunk so far *)
Definition pr_lt_inv (sid : Z) (s : pr_state) (p K : nat) : Prop :=
  exists c, nth_error (pr_infl s) p = Some c /\ pr_sid c = sid /\ pr_dcep c = false /\
    (pr_msg_flag (pr_msgs s) (pr_msg c) = false -> K = 0%nat) /\ (K <= 1)%nat /\
    (pr_rtx c = true -> pr_msg_allinfl (pr_msgs s) (pr_msg c) = true).

Lemma pr_lt_step sid L s e s' o p K :
  pr_timed_stream s sid L -> pr_ent s -> pr_lt_inv sid s p K -> pr_lt_side sid s e ->
  pr_step s e = Some (s', o) ->
  match pr_track p s s' e with
  | Some p' => pr_lt_inv sid s' p' (K + (if pr_is_late L s p e then 1 else 0))
  | None => True
  end.
Proof.
  intros Hst Hent (c & Hc & Hsid & Hdc & Hflag & Hbud & HP) Hwh. unfold pr_lt_side in Hwh.
  assert (Hcin : In c (pr_infl s)) by (eapply nth_error_In; eauto).
  assert (Hen : pr_minfo_get (pr_msg c) (pr_msgs s) <> None) by (unfold pr_ent in Hent; rewrite Forall_forall in Hent; auto).
  (* a step that leaves the chunk at position p as it is (or only clears its mark) and only raises flags *)
  assert (Same : forall s1 c1, nth_error (pr_infl s1) p = Some c1 -> pr_msgs_le (pr_msgs s) (pr_msgs s1) ->
                   pr_sid c1 = pr_sid c -> pr_dcep c1 = pr_dcep c -> pr_msg c1 = pr_msg c -> (pr_rtx c1 = true -> pr_rtx c = true) ->
                   pr_lt_inv sid s1 p (K + 0)).
  { intros s1 c1 Hn Hle E1 E2 E3 E4. exists c1. rewrite E1, E2, E3. repeat split; auto.
    - intros Hf. rewrite Nat.add_0_r. apply Hflag. destruct (pr_msg_flag (pr_msgs s) (pr_msg c)) eqn:E; [|reflexivity].
      rewrite (pr_msgs_le_flag _ _ _ Hle E) in Hf. discriminate.
    - lia.
    - intros Hr. eapply pr_msgs_le_allinfl; [exact Hle|]. auto. }
  (* whoever may transmit or select the chunk finds the flag unset, hence nothing was counted yet *)
  assert (Hsel : pr_msg_allinfl (pr_msgs s) (pr_msg c) = true -> pr_abandoned s c = false -> K = 0%nat).
  { intros Hw Ha. apply Hflag. unfold pr_abandoned in Ha. rewrite pr_abandoned_split, Hw, andb_true_r in Ha. exact Ha. }
  destruct e as [c' now|t| |t now|t|t now|cum gaps| ]; cbn [pr_step pr_track pr_is_late pr_ev_loss] in *.
  - (* send *)
    destruct (pr_send s c' now) as [s1|] eqn:E; [|discriminate]. intros H; injection H as <- <-.
    destruct (pr_send_shape _ _ _ _ E) as (m2 & Hle & _ & _ & _ & ->). apply (Same _ c); auto.
    + cbn [pr_infl]. rewrite nth_error_app1; [exact Hc|]. apply nth_error_Some. congruence.
    + cbn [pr_msgs]. eapply pr_msgs_le_trans; [exact Hle|apply pr_check_status_le].
  - (* mark *)
    unfold pr_mark. rewrite pr_get_pos_of. destruct (pr_pos_of (pr_infl s) t) as [q|] eqn:Ep; [|discriminate].
    destruct (nth_error (pr_infl s) q) as [cq|] eqn:Eq; [|discriminate].
    destruct (pr_acked cq || pr_abandoned s cq) eqn:Ea; [discriminate|]. intros H; injection H as <- <-.
    destruct (pr_put_pos _ _ (pr_with cq (pr_nsent cq) (pr_acked cq) true (pr_first cq)) _ Ep) as (_ & Hm).
    destruct (Nat.eqb q p) eqn:Eqp.
    + apply Nat.eqb_eq in Eqp. subst q. rewrite Hc in Eq. injection Eq as <-.
      eexists. cbn [pr_set_core pr_infl pr_msgs]. rewrite Hm, Nat.eqb_refl. split; [reflexivity|]. cbn [pr_with pr_sid pr_dcep pr_msg pr_rtx].
      split; [exact Hsid|]. split; [exact Hdc|]. split; [intros Hf; rewrite Nat.add_0_r; auto|]. split; [lia|].
      intros _. apply (Hwh eq_refl c Hcin Hsid).
    + apply (Same _ c); auto; [|apply pr_msgs_le_refl]. cbn [pr_set_core pr_infl]. rewrite Hm, Eqp. exact Hc.
  - (* T3 *)
    intros H; injection H as <- <-. unfold pr_t3, pr_mark_all_rtx.
    destruct (pr_advance_fields s false) as (A1 & A2 & _).
    replace (pr_abandoned (pr_advance s false)) with (pr_abandoned s) by (unfold pr_abandoned; rewrite A2; reflexivity).
    destruct (pr_acked c || pr_abandoned s c) eqn:Ea.
    + apply (Same _ c); auto; [|cbn [pr_set_core pr_msgs]; rewrite A2; apply pr_msgs_le_refl].
      cbn [pr_set_core pr_infl]. rewrite A1, nth_error_map, Hc. cbn. rewrite Ea. reflexivity.
    + eexists. cbn [pr_set_core pr_infl pr_msgs]. rewrite A1, A2, nth_error_map, Hc. cbn [option_map]. rewrite Ea.
      split; [reflexivity|]. cbn [pr_with pr_sid pr_dcep pr_msg pr_rtx].
      split; [exact Hsid|]. split; [exact Hdc|]. split; [intros Hf; rewrite Nat.add_0_r; auto|]. split; [lia|].
      intros _. apply (Hwh eq_refl c Hcin Hsid).
  - (* retransmission of a marked chunk: it is not abandoned (fix 3b069d1) *)
    unfold pr_retransmit. rewrite pr_get_pos_of. destruct (pr_pos_of (pr_infl s) t) as [q|] eqn:Ep; [|discriminate].
    destruct (nth_error (pr_infl s) q) as [cq|] eqn:Eq; [|discriminate].
    destruct (pr_rtx cq) eqn:Er; cbn [negb orb]; [|discriminate].
    destruct (pr_abandoned s cq) eqn:Eab; [discriminate|]. intros H; injection H as <- <-.
    set (c1 := pr_with cq (wrap32 (pr_nsent cq + 1)) (pr_acked cq) false (pr_first cq)).
    destruct (pr_put_pos _ _ c1 _ Ep) as (_ & Hm). rewrite Hc.
    destruct (Nat.eqb q p) eqn:Eqp.
    + apply Nat.eqb_eq in Eqp. subst q. rewrite Hc in Eq. injection Eq as <-. cbn [andb].
      assert (K = 0%nat) by (apply Hsel; auto). subst K.
      exists c1. cbn [pr_set_core pr_infl pr_msgs]. rewrite Hm, Nat.eqb_refl. split; [reflexivity|].
      split; [exact Hsid|]. split; [exact Hdc|].
      rewrite (pr_check_timed s sid L (pr_msgs s) c1 now Hst Hsid Hdc). cbn [c1 pr_with pr_first pr_msg pr_rtx].
      destruct (pr_elapsed_ms now (pr_first c) >=? L) eqn:El.
      * split; [rewrite pr_set_aband_flag by exact Hen; discriminate|]. split; [lia|discriminate].
      * split; [intros _; reflexivity|]. split; [lia|discriminate].
    + cbn [andb]. apply (Same _ c); auto; [cbn [pr_set_core pr_infl]; rewrite Hm, Eqp; exact Hc|cbn [pr_set_core pr_msgs]; apply pr_check_status_le].
  - (* the mark of an abandoned chunk is cleared *)
    unfold pr_unmark. rewrite pr_get_pos_of. destruct (pr_pos_of (pr_infl s) t) as [q|] eqn:Ep; [|discriminate].
    destruct (nth_error (pr_infl s) q) as [cq|] eqn:Eq; [|discriminate].
    destruct (pr_rtx cq && pr_abandoned s cq); [|discriminate]. intros H; injection H as <- <-.
    destruct (pr_put_pos _ _ (pr_with cq (pr_nsent cq) (pr_acked cq) false (pr_first cq)) _ Ep) as (_ & Hm).
    destruct (Nat.eqb q p) eqn:Eqp.
    + apply Nat.eqb_eq in Eqp. subst q. rewrite Hc in Eq. injection Eq as <-.
      apply (Same _ (pr_with c (pr_nsent c) (pr_acked c) false (pr_first c))); auto; try apply pr_msgs_le_refl.
      * cbn [pr_set_core pr_infl]. rewrite Hm, Nat.eqb_refl. reflexivity.
      * cbn. discriminate.
    + apply (Same _ c); auto; [|apply pr_msgs_le_refl]. cbn [pr_set_core pr_infl]. rewrite Hm, Eqp. exact Hc.
  - (* fast retransmission *)
    unfold pr_fast_retransmit. rewrite pr_get_pos_of. destruct (pr_pos_of (pr_infl s) t) as [q|] eqn:Ep; [|discriminate].
    destruct (nth_error (pr_infl s) q) as [cq|] eqn:Eq; [|discriminate].
    destruct (pr_acked cq || pr_abandoned s cq || (pr_nsent cq >? 1)) eqn:Ea; [discriminate|]. intros H; injection H as <- <-.
    set (c1 := pr_with cq (wrap32 (pr_nsent cq + 1)) (pr_acked cq) (pr_rtx cq) (pr_first cq)).
    destruct (pr_put_pos _ _ c1 _ Ep) as (_ & Hm). rewrite Hc.
    destruct (Nat.eqb q p) eqn:Eqp.
    + apply Nat.eqb_eq in Eqp. subst q. rewrite Hc in Eq. injection Eq as <-. cbn [andb].
      apply orb_false_iff in Ea. destruct Ea as [Ea _]. apply orb_false_iff in Ea. destruct Ea as [_ Eab].
      assert (Hw := Hwh eq_refl c Hcin Hsid).
      assert (K = 0%nat) by (apply Hsel; auto). subst K.
      exists c1. cbn [pr_set_core pr_infl pr_msgs]. rewrite Hm, Nat.eqb_refl. split; [reflexivity|].
      split; [exact Hsid|]. split; [exact Hdc|].
      rewrite (pr_check_timed s sid L (pr_msgs s) c1 now Hst Hsid Hdc). cbn [c1 pr_with pr_first pr_msg pr_rtx].
      assert (Hall : forall m', pr_msgs_le (pr_msgs s) m' -> pr_rtx c = true -> pr_msg_allinfl m' (pr_msg c) = true)
        by (intros m' Hle _; eapply pr_msgs_le_allinfl; eauto).
      destruct (pr_elapsed_ms now (pr_first c) >=? L) eqn:El.
      * split; [rewrite pr_set_aband_flag by exact Hen; discriminate|]. split; [lia|]. apply Hall. apply pr_set_aband_le.
      * split; [intros _; reflexivity|]. split; [lia|]. apply Hall. apply pr_msgs_le_refl.
    + cbn [andb]. apply (Same _ c); auto; [cbn [pr_set_core pr_infl]; rewrite Hm, Eqp; exact Hc|cbn [pr_set_core pr_msgs]; apply pr_check_status_le].
  - (* SACK *)
    destruct (pr_sack s cum gaps) as [s1|] eqn:E; [|discriminate]. intros H; injection H as -> <-.
    destruct (pr_sack_list _ _ _ _ E) as (k & Hk & Hrel). destruct (pr_sack_shape _ _ _ _ E) as (Em & _).
    assert (Hlen : length (pr_infl s') = (length (pr_infl s) - k)%nat).
    { rewrite <- (Forall2_len _ _ _ Hrel), skipn_length. reflexivity. }
    rewrite Hlen. replace (length (pr_infl s) - (length (pr_infl s) - k))%nat with k by lia.
    destruct (Nat.ltb p k) eqn:Epk; [exact I|]. apply Nat.ltb_ge in Epk.
    assert (Hn : nth_error (skipn k (pr_infl s)) (p - k) = Some c) by (rewrite pr_nth_skipn; replace (k + (p - k))%nat with p by lia; exact Hc).
    destruct (Forall2_nth_l _ _ _ Hrel _ _ Hn) as (b & Hb & (Hcore & Hns & Hfi & Hrt)).
    destruct Hcore as (_ & Es & _ & _ & _ & _ & _ & Emsg & Edc).
    exists b. split; [exact Hb|]. rewrite <- Es, <- Edc, <- Emsg, Em. repeat split; auto.
    + intros Hf. rewrite Nat.add_0_r. auto.
    + lia.
  - intros H. injection H as H. assert (Es : s' = fst (pr_gather_fwd s)) by (rewrite H; reflexivity). subst s'.
    destruct (pr_gather_fields s) as (A1 & A2 & _). apply (Same _ c); auto; [rewrite A1; exact Hc|rewrite A2; apply pr_msgs_le_refl].
Qed.

Lemma pr_step_timed s e s' o sid L : pr_timed_stream s sid L -> pr_step s e = Some (s', o) -> pr_timed_stream s' sid L.
Proof.
  unfold pr_timed_stream, pr_enabled. intros (Hp & He) H. destruct (pr_step_fixed _ _ _ _ H) as (-> & -> & ->). auto.
Qed.

Theorem pr_lifetime_gen : forall sid L evs s0 p0 K0,
  pr_timed_stream s0 sid L -> pr_ent s0 -> pr_lt_inv sid s0 p0 K0 ->
  pr_run_ok (pr_lt_side sid) s0 evs ->
  (K0 + pr_count_late L p0 s0 evs <= 1)%nat.
Proof.
  intros sid L evs. induction evs as [|e r IH]; intros s0 p0 K0 Hst Hent Hinv Hok; cbn [pr_count_late].
  - destruct Hinv as (c & _ & _ & _ & _ & Hb & _). lia.
  - destruct Hok as [Hside Hr]. destruct (pr_step s0 e) as [[s1 o1]|] eqn:E.
    + assert (Hstep := pr_lt_step sid L s0 e s1 o1 p0 K0 Hst Hent Hinv Hside E).
      destruct (pr_track p0 s0 s1 e) as [p1|] eqn:Et.
      * assert (G := IH s1 p1 (K0 + (if pr_is_late L s0 p0 e then 1 else 0))%nat
                       (pr_step_timed _ _ _ _ _ _ Hst E) (pr_step_ent _ _ _ _ Hent E) Hstep Hr). lia.
      * destruct e; cbn [pr_track] in Et; try discriminate.
        cbn [pr_is_late]. destruct Hinv as (c & _ & _ & _ & _ & Hb & _). lia.
    + destruct Hinv as (c & _ & _ & _ & _ & Hb & _). lia.
Qed.

(* for any chunk in flight on a stream with lifetime L (not DCEP) whose retransmit mark, if set, was set while its
   message was entirely in flight: along every history in which loss recovery selects chunks only while the messages
   of the stream are entirely in flight, at most ONE transmission of the chunk happens at a time >= firstSent + L
   (the one at which the status check abandons the message) *)
Theorem pr_lifetime_thm : forall sid L evs s0 p0 c,
  pr_timed_stream s0 sid L -> pr_ent s0 ->
  nth_error (pr_infl s0) p0 = Some c -> pr_sid c = sid -> pr_dcep c = false ->
  (pr_rtx c = true -> pr_msg_allinfl (pr_msgs s0) (pr_msg c) = true) ->
  pr_run_ok (pr_lt_side sid) s0 evs ->
  (pr_count_late L p0 s0 evs <= 1)%nat.
Proof.
  intros sid L evs s0 p0 c Hst Hent Hc Hsid Hdc HP Hok.
  apply (pr_lifetime_gen sid L evs s0 p0 0%nat Hst Hent); [|exact Hok].
  exists c. repeat split; auto.
Qed.

(* one step: a (re)transmission at an age >= L abandons the message (flag on the head fragment) *)
Theorem pr_late_tx_abandons_thm : forall s sid L t now c s',
  pr_timed_stream s sid L -> pr_ent s -> pr_get (pr_infl s) t = Some c -> pr_sid c = sid -> pr_dcep c = false ->
  pr_elapsed_ms now (pr_first c) >= L ->
  (pr_retransmit s t now = Some s' \/ pr_fast_retransmit s t now = Some s') ->
  pr_msg_flag (pr_msgs s') (pr_msg c) = true.
Proof.
  intros s sid L t now c s' Hst Hent Hg Hsid Hdc Hel H.
  assert (Hen : pr_minfo_get (pr_msg c) (pr_msgs s) <> None).
  { unfold pr_ent in Hent. rewrite Forall_forall in Hent. apply Hent. eapply pr_get_in; eauto. }
  destruct H as [H|H].
  - unfold pr_retransmit in H. rewrite Hg in H. destruct (negb (pr_rtx c) || pr_abandoned s c); [discriminate|]. inversion H; subst; clear H.
    cbn [pr_set_core pr_msgs]. rewrite (pr_check_timed s (pr_sid c) L) by auto. cbn [pr_with pr_first pr_msg].
    replace (pr_elapsed_ms now (pr_first c) >=? L) with true by lia. apply pr_set_aband_flag. exact Hen.
  - unfold pr_fast_retransmit in H. rewrite Hg in H. destruct (pr_acked c || pr_abandoned s c || (pr_nsent c >? 1)); [discriminate|].
    inversion H; subst; clear H.
    cbn [pr_set_core pr_msgs]. rewrite (pr_check_timed s (pr_sid c) L) by auto. cbn [pr_with pr_first pr_msg].
    replace (pr_elapsed_ms now (pr_first c) >=? L) with true by lia. apply pr_set_aband_flag. exact Hen.
Qed.

(* ================================================================ decidable forms of the side conditions (for the Examples) *)

Definition pr_wholeb (s : pr_state) (sid : Z) : bool :=
  forallb (fun c => negb (pr_sid c =? sid) || pr_msg_allinfl (pr_msgs s) (pr_msg c)) (pr_infl s).

Lemma pr_wholeb_sound s sid : pr_wholeb s sid = true -> pr_whole s sid.
Proof.
  unfold pr_wholeb, pr_whole. rewrite forallb_forall. intros H c Hc Hs. specialize (H c Hc).
  apply orb_true_iff in H. destruct H as [H|H]; [|exact H]. apply negb_true_iff in H. lia.
Qed.

Fixpoint pr_run_okb (G : pr_state -> pr_ev -> bool) (s : pr_state) (evs : list pr_ev) : bool :=
  match evs with
  | [] => true
  | e :: r => G s e && match pr_step s e with Some (s', _) => pr_run_okb G s' r | None => true end
  end.

Lemma pr_run_okb_sound (G : pr_state -> pr_ev -> Prop) (Gb : pr_state -> pr_ev -> bool) :
  (forall s e, Gb s e = true -> G s e) -> forall evs s, pr_run_okb Gb s evs = true -> pr_run_ok G s evs.
Proof.
  intros Hs. induction evs as [|e r IH]; intros s H; cbn [pr_run_okb pr_run_ok] in *; [exact I|].
  apply andb_true_iff in H. destruct H as [H1 H2]. split; [apply Hs; exact H1|].
  destruct (pr_step s e) as [[s1 o1]|]; [apply IH; exact H2|exact I].
Qed.

Definition pr_whole_sideb (sid : Z) (s : pr_state) (e : pr_ev) : bool := negb (pr_ev_loss e) || pr_wholeb s sid.

Lemma pr_run_wholeb_sound sid evs s : pr_run_okb (pr_whole_sideb sid) s evs = true -> pr_run_whole sid s evs.
Proof.
  apply pr_run_okb_sound. intros s0 e H Hl. unfold pr_whole_sideb in H. rewrite Hl in H. cbn in H. apply pr_wholeb_sound. exact H.
Qed.

Lemma pr_lt_sideb_sound sid evs s : pr_run_okb (pr_whole_sideb sid) s evs = true -> pr_run_ok (pr_lt_side sid) s evs.
Proof. apply pr_run_wholeb_sound. Qed.

Definition pr_ev_saneb (s : pr_state) (e : pr_ev) : bool :=
  match e with PrSack cum _ => (0 <=? cum) && (cum <? 4294967296) | _ => true end &&
  (Z.of_nat (length (pr_infl s)) + 1 <? 2147483648).

Lemma pr_ev_saneb_sound evs s : pr_run_okb pr_ev_saneb s evs = true -> pr_run_ok pr_ev_sane s evs.
Proof.
  apply pr_run_okb_sound. intros s0 e H. unfold pr_ev_saneb in H. apply andb_true_iff in H. destruct H as [H1 H2].
  split; [|unfold pr_small; lia]. destruct e; cbn; auto. unfold in32. lia.
Qed.

(* ================================================================ receiver side: creation of a skipped stream, cursor *)

Lemma pr_streams_ins_get sid q : forall l k, pr_streams_get sid l = None ->
  pr_streams_get k (pr_streams_ins sid q l) = if k =? sid then Some q else pr_streams_get k l.
Proof.
  induction l as [|[k0 q0] r IH]; intros k Hn; cbn [pr_streams_ins pr_streams_get] in *.
  - rewrite Z.eqb_sym. destruct (k =? sid); reflexivity.
  - destruct (k0 =? sid) eqn:E0; [discriminate|].
    destruct (sid <? k0) eqn:E; cbn [pr_streams_get].
    + rewrite (Z.eqb_sym sid k). destruct (k =? sid) eqn:E2; [reflexivity|reflexivity].
    + rewrite (IH k Hn). destruct (k0 =? k) eqn:E3; [|reflexivity].
      replace (k =? sid) with false by lia. reflexivity.
Qed.

(* fix 5722c17: an entry for a stream that does not exist yet creates it with the skip applied *)
Theorem pr_skip_creates_stream_thm : forall maxent sid f l accq,
  pr_streams_get sid l = None -> accq < c_acceptChSize ->
  let st := pr_skip_stream maxent sid f (l, accq) in
  pr_streams_get sid (fst st) = Some (f (rq_new sid maxent)) /\ snd st = accq + 1 /\
  (forall k, k <> sid -> pr_streams_get k (fst st) = pr_streams_get k l).
Proof.
  intros maxent sid f l accq Hn Hroom. unfold pr_skip_stream. rewrite Hn. replace (accq <? c_acceptChSize) with true by lia.
  cbn [fst snd]. split; [|split; [reflexivity|]].
  - rewrite pr_streams_ins_get by exact Hn. replace (sid =? sid) with true by lia. reflexivity.
  - intros k Hk. rewrite pr_streams_ins_get by exact Hn. replace (k =? sid) with false by lia. reflexivity.
Qed.

(* the cursor moves past the skipped messages and the next live message is readable as soon as it is complete *)
Theorem pr_cursor_advances_thm : forall q v S rest,
  let q' := rq_fwd_ordered q v in
  (sna16LTE (rq_nextSSN q) v = true -> rq_nextSSN q' = wrap16 (v + 1)) /\
  (rq_inter q = false -> rq_ordered q' = S :: rest -> rqs_complete (rqs_chunks S) = true ->
   sna16LTE (rqs_key S) (rq_nextSSN q') = true -> rq_is_readable q' = true).
Proof.
  intros q v S rest q'. destruct (rq_fwd_ordered_spec q v) as (_ & _ & _ & Hn & _ & _ & _ & _ & _ & _ & Hi). fold q' in Hn, Hi.
  split.
  - intros H. rewrite Hn, H. reflexivity.
  - intros Hint Ho Hc Hk. unfold rq_is_readable. rewrite Hi, Hint, Ho, Hc, Hk. destruct (rq_unordered q'); reflexivity.
Qed.

Theorem pr_cursor_advances_mid_thm : forall q v S rest,
  let q' := rq_fwd_ordered_mid q v in
  (sna32LTE (rq_nextMID q) v = true -> rq_nextMID q' = wrap32 (v + 1)) /\
  (rq_inter q = true -> rq_orderedMID q' = S :: rest -> rqm_complete (rqs_chunks S) = true ->
   sna32LTE (rqs_key S) (rq_nextMID q') = true -> rq_is_readable q' = true).
Proof.
  intros q v S rest q'. destruct (rq_fwd_ordered_mid_spec q v) as (_ & _ & _ & Hn & _ & _ & _ & _ & _ & _ & Hi). fold q' in Hn, Hi.
  split.
  - intros H. rewrite Hn, H. reflexivity.
  - intros Hint Ho Hc Hk. unfold rq_is_readable. rewrite Hi, Hint, Ho, Hc, Hk. destruct (rq_unorderedMID q'); reflexivity.
Qed.

(* abandoned chunks are never selected by loss recovery *)
Theorem pr_abandoned_not_marked_thm : forall s t c,
  pr_get (pr_infl s) t = Some c -> pr_abandoned s c = true ->
  pr_mark s t = None /\ (forall now, pr_fast_retransmit s t now = None) /\ (forall now, pr_retransmit s t now = None) /\
  (forall c', In c' (pr_infl (pr_mark_all_rtx s)) -> pr_msg c' = pr_msg c -> pr_rtx c' = true ->
     exists c0, In c0 (pr_infl s) /\ pr_rtx c0 = true /\ pr_msg c0 = pr_msg c).
Proof.
  intros s t c Hg Ha. split; [unfold pr_mark; rewrite Hg, Ha, orb_true_r; reflexivity|]. split; [|split].
  - intros now. unfold pr_fast_retransmit. rewrite Hg, Ha, orb_true_r. reflexivity.
  - intros now. unfold pr_retransmit. rewrite Hg, Ha, orb_true_r. reflexivity.
  - intros c' Hc' Hm Hr. unfold pr_mark_all_rtx in Hc'. cbn [pr_set_core pr_infl] in Hc'. apply in_map_iff in Hc'.
    destruct Hc' as (c0 & <- & Hc0). destruct (pr_acked c0 || pr_abandoned s c0) eqn:E.
    + exists c0. auto.
    + cbn in Hm. apply orb_false_iff in E. destruct E as [_ E]. unfold pr_abandoned in *. rewrite Hm in E. congruence.
Qed.
