(* Teardown (C09): handshake families in which the T1 timer may exhaust its retransmissions.
   After fix aeda016 (the connect call closes the association when the handshake result is an error) the
   run "T1 gives up, the handshake completes late, the transport fails" terminates: the families with a
   Close() or a transport read failure pass every check.  What is left in the faithful model is a narrow
   race: the failure callback of T1 has fired and waits for a.lock while the read loop completes the
   handshake; its completeHandshake(err) then finds nobody and blocks under a.lock (witness runs below). *)
From Coq Require Import Bool List PArith NArith.
From Sctp Require Import Gen Teardown TeardownProofs.
Import ListNotations.

(* the safety clauses other than "a stuck state is finished" hold in every T1 family *)
Definition td_chk_state_t1 (s : td_state) : bool :=
  td_chk_wac s && td_chk_chan s && td_chk_abort s && td_chk_close2 s && td_chk_shut s.

Lemma td_families_t1_safe : forallb (fun c => td_check_family_safe c td_chk_state_t1) td_families_t1 = true.
Proof. vm_cast_no_check (eq_refl true). Qed.

(* with a Close() call or a failing conn.Read as the injection everything holds (a read error makes the read
   loop close closeWriteLoopCh before it needs the lock, which releases a blocked completeHandshake) *)
Definition td_families_t1_ok : list td_cfg :=
  [mkTdCfg TdPhHs TdInjClose TdMixNone true false; mkTdCfg TdPhHs TdInjRfail TdMixNone true false].

Lemma td_families_t1_ok_chk : forallb td_check_family td_families_t1_ok = true.
Proof. vm_cast_no_check (eq_refl true). Qed.

Definition td_sizes_t1 : list N := Eval vm_compute in map td_family_size td_families_t1.

(* The former witness (before aeda016): T1 fires, takes the lock, the connect call receives the error; a late
   COOKIE-ACK; the transport fails.  Now the connect call closes the association, the run goes on to a
   finished state. *)
Definition td_cfg_t1_rfail := mkTdCfg TdPhHs TdInjRfail TdMixNone true false.

(* Residual witness (Abort): the T1 failure callback has fired (1); the handshake-completing packet is handled
   (2) and the connect call returns the association (3); the callback gets a.lock and blocks in
   completeHandshake(err): nobody receives, no channel is closed (4); Abort() is called and blocks on a.lock
   for ever (5). *)
Definition td_cfg_t1_abort := mkTdCfg TdPhHs TdInjAbort TdMixNone true false.
Definition td_witness_t1_abort : list nat := [7; 2; 1; 4; 0].

Definition td_tfpc_is_blocked (x : td_tfpc) := match x with TdTfBlocked => true | _ => false end.
Definition td_cwpc_is_ok (x : td_cwpc) := match x with TdCwOk => true | _ => false end.
Definition td_abpc_is_flag (x : td_abpc) := match x with TdAbFlag => true | _ => false end.
Definition td_ast_is_est (x : td_ast) := match x with TdStEst => true | _ => false end.

Definition td_witness_t1_abort_chk : bool :=
  match td_follow td_cfg_t1_abort (td_init td_cfg_t1_abort) td_witness_t1_abort with
  | Some s => td_cwpc_is_ok (td_cw s) && td_tfpc_is_blocked (td_tf s) && td_lk s && td_abpc_is_flag (td_ab s) &&
              td_ast_is_est (td_st s) && td_final td_cfg_t1_abort s && negb (td_done s)
  | None => false
  end.

Lemma td_witness_t1_abort_chk_ok : td_witness_t1_abort_chk = true.
Proof. vm_cast_no_check (eq_refl true). Qed.

Lemma td_witness_t1_abort_ok :
  exists s, td_follow td_cfg_t1_abort (td_init td_cfg_t1_abort) td_witness_t1_abort = Some s /\
            td_cw s = TdCwOk /\ td_tf s = TdTfBlocked /\ td_lk s = true /\ td_ab s = TdAbFlag /\ td_st s = TdStEst /\
            td_final td_cfg_t1_abort s = true /\ td_done s = false.
Proof.
  pose proof td_witness_t1_abort_chk_ok as H. unfold td_witness_t1_abort_chk in H.
  destruct (td_follow td_cfg_t1_abort (td_init td_cfg_t1_abort) td_witness_t1_abort) as [s|]; [|discriminate H].
  repeat (apply andb_true_iff in H; destruct H as [H ?]).
  exists s. split; [reflexivity|].
  split; [destruct (td_cw s); try discriminate; reflexivity|].
  split; [destruct (td_tf s); try discriminate; reflexivity|].
  split; [assumption|].
  split; [destruct (td_ab s); try discriminate; reflexivity|].
  split; [destruct (td_st s); try discriminate; reflexivity|].
  split; [assumption|]. apply negb_true_iff. assumption.
Qed.

Lemma td_witness_t1_abort_actors :
  td_path_actors td_cfg_t1_abort (td_init td_cfg_t1_abort) td_witness_t1_abort
    = [TdAT1Fail; TdAEnv; TdARead; TdAT1Fail; TdAEnv].
Proof. vm_cast_no_check (eq_refl [TdAT1Fail; TdAEnv; TdARead; TdAT1Fail; TdAEnv]). Qed.

(* Residual witness (conn.Write fails): the same blocked callback; the write loop never gets a.lock, the
   failure is never noticed. *)
Definition td_cfg_t1_wfail := mkTdCfg TdPhHs TdInjWfail TdMixNone true false.
Definition td_witness_t1_wfail : list nat := [7; 2; 1; 4; 0].

Definition td_witness_t1_wfail_chk : bool :=
  match td_follow td_cfg_t1_wfail (td_init td_cfg_t1_wfail) td_witness_t1_wfail with
  | Some s => td_cwpc_is_ok (td_cw s) && td_tfpc_is_blocked (td_tf s) && td_lk s && td_wfail s && td_injd s &&
              td_final td_cfg_t1_wfail s && negb (td_done s)
  | None => false
  end.

Lemma td_witness_t1_wfail_chk_ok : td_witness_t1_wfail_chk = true.
Proof. vm_cast_no_check (eq_refl true). Qed.

Lemma td_witness_t1_wfail_ok :
  exists s, td_follow td_cfg_t1_wfail (td_init td_cfg_t1_wfail) td_witness_t1_wfail = Some s /\
            td_cw s = TdCwOk /\ td_tf s = TdTfBlocked /\ td_lk s = true /\ td_wfail s = true /\ td_injd s = true /\
            td_final td_cfg_t1_wfail s = true /\ td_done s = false.
Proof.
  pose proof td_witness_t1_wfail_chk_ok as H. unfold td_witness_t1_wfail_chk in H.
  destruct (td_follow td_cfg_t1_wfail (td_init td_cfg_t1_wfail) td_witness_t1_wfail) as [s|]; [|discriminate H].
  repeat (apply andb_true_iff in H; destruct H as [H ?]).
  exists s. split; [reflexivity|].
  split; [destruct (td_cw s); try discriminate; reflexivity|].
  split; [destruct (td_tf s); try discriminate; reflexivity|].
  repeat split; try assumption. apply negb_true_iff. assumption.
Qed.
