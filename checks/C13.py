"""C13 — checksum rules (CRC32c verification, zero-checksum acceptance and emission, direction of the negotiation)."""
import os
import re
import vlib

PROP = "C13"
PROPS_FILE = "props/C13.v"
COQ_FILES = ["gen/Gen.v", "model/Crc.v", "proofs/CrcProofs.v", "props/C13.v"]
TRUSTED_BASE = [
    "Coq 8.16.1 kernel; vm_compute only in Examples; no native_compute; no axioms (Print Assumptions: closed)",
    "translator constants from /repo on this run: packetHeaderSize, chunkHeaderSize, ctInit, ctCookieEcho, "
    "dtlsErrorDetectionMethod",
    "hand-written model coq/model/Crc.v of packet.go (generatePacketChecksum, head of unmarshal, tail of marshal) and "
    "association.go (chunkMandatoryChecksum, marshalPacket, unmarshalPacket, handleInbound drop branch, "
    "setSendZeroChecksum / handleInit / handleInitAck parameter loops, recvZeroChecksum := Config.EnableZeroChecksum)",
    "hash/crc32 (Castagnoli) is the reference the bitwise CRC model is compared against (lengths 0..8192)",
    "extraction (ExtrOcamlBasic only) + /verif/ocaml/cmp_crc.ml; Go harness zz_verif_crc_test.go (overlay, go1.26.8 synctest)",
    "from the chunk codec only: a marshalled packet starts (byte 12) with the type code of its first chunk and is "
    ">= 16 bytes when it has a chunk (crc_types_consistent, checked on every packet of the emission differential)",
]
ASSUMPTIONS = [
    "DTLS delivers packets intact or not at all; the corruption theorems say what CRC32c detects when it is checked",
    "bursts / windows are measured in the register's bit order (byte 0 bit 0 first); corruptions straddling the boundary "
    "of the checksum field, and multi-bit patterns wider than 32 bits, are covered by the differential only",
    "'discarded without any effect' is proved structurally on the model of handleInbound and observed on real "
    "associations (state snapshot unchanged); bytesReceived counts raw reads and does change",
]


def _classify(line):
    m = re.search(r"key=([A-Za-z0-9_-]+)", line)
    return "crc-" + (m.group(1) if m else "other")


def correspondence(ctx):
    corpus = os.path.join(vlib.VERIF, "corpus/crc.pkts")
    vlib.differential(ctx, "crc-differential", "TestVerifCrc", "crc",
                      {"VERIF_N": ctx.scale(600, 2500), "VERIF_CORPUS": corpus})
    vlib.monitor(ctx, "crc-rules", "TestVerifCrcRules", {"VERIF_N": ctx.scale(20000, 500000), "VERIF_SWEEP": ctx.scale(60, 3000), "VERIF_PAIRS": ctx.scale(4, 60)},
                 fail_prefixes=("CRCFAIL",), classify=_classify, summary_prefix="CRCRULES")
    vlib.monitor(ctx, "crc-wire", "TestVerifCrcWire", {"VERIF_N": ctx.scale(200, 4000)},
                 fail_prefixes=("CRCFAIL",), classify=_classify, summary_prefix="CRCWIRE")
    vlib.monitor(ctx, "crc-negotiation", "TestVerifCrcNeg", {"VERIF_N": ctx.scale(2000, 50000)},
                 fail_prefixes=("CRCFAIL",), classify=_classify, summary_prefix="CRCNEG")


def search(ctx):
    vlib.monitor(ctx, "crc-rules-wide", "TestVerifCrcRules", {"VERIF_N": 100000, "VERIF_SEED": ctx.seed + 13},
                 fail_prefixes=("CRCFAIL",), classify=_classify, summary_prefix="CRCRULES")
    vlib.monitor(ctx, "crc-wire-wide", "TestVerifCrcWire", {"VERIF_N": 400, "VERIF_SEED": ctx.seed + 13},
                 fail_prefixes=("CRCFAIL",), classify=_classify, summary_prefix="CRCWIRE")
    vlib.monitor(ctx, "crc-negotiation-wide", "TestVerifCrcNeg", {"VERIF_N": 5000, "VERIF_SEED": ctx.seed + 13},
                 fail_prefixes=("CRCFAIL",), classify=_classify, summary_prefix="CRCNEG")


LEVEL_TEXT = ("Coq theorems for all byte strings of all lengths and all option values: exact characterisation of the receive "
              "decision (CRC32c correct, or zero with the local option and not INIT/COOKIE-ECHO first); emission rule (zero only "
              "with send_zero and no INIT/COOKIE-ECHO chunk anywhere, else the correct CRC32c); send_zero is a function of the "
              "peer's parameters only and recv_zero of the local option only, for all histories of received parameter lists; "
              "interoperability for all four option combinations; CRC32c linearity over GF(2) and detection of every burst of "
              "<= 32 bits (so every single-bit and every <= 4-consecutive-byte corruption) outside the checksum field and of every "
              "corruption of the field alone, for all packet lengths. Model tied to the code by a differential against "
              "hash/crc32, unmarshalPacket, marshalPacket, setSendZeroChecksum/handleInit/handleInitAck, and by monitors on "
              "real association pairs (every wire packet, four option combinations, injected corrupt packets).")
LEVEL_NOTE = ("Trusted: Coq kernel, hand-written model Crc.v, extraction, harness, hash/crc32 as CRC reference. Not proved: "
              "detection of corruptions straddling the checksum-field boundary or wider than 32 bits (inherent to CRC32c "
              "placement; differential only); the handshake system around the negotiation (C04) is represented by the two "
              "parameter-processing steps. Observations (not violations within the quantifier of C13): sendZeroChecksum is not "
              "reset by a later INIT without the parameter; in the out-of-band (SNAP) path recvZeroChecksum follows "
              "Config.EnableZeroChecksum, not the local token.")
TECHNIQUE = "Coq proof (bit-level CRC algebra + case analysis of the gate) + differential and wire-monitor correspondence"
