(* Stream.onBufferReleased (stream.go): the per-stream buffered amount and the low-threshold callback decision.
   Model only; proofs are in proofs/BufLowProofs.v. *)
From Coq Require Import ZArith Bool List.
Import ListNotations.
Open Scope Z_scope.

(* one call onBufferReleased(n) on a stream whose bufferedAmount is v (uint64, < 2^64), threshold low,
   callback registered or not; result: the new amount and whether the callback is invoked *)
Definition bl_released (v low n : Z) (hascb : bool) : Z * bool :=
  if n <=? 0 then (v, false)
  else
    let v' := if v <? n then 0 else v - n in
    (v', hascb && (low <? v) && (v' <=? low)).

(* history of one stream: accepted writes grow the amount, releases shrink it (threshold and callback fixed) *)
Inductive bl_ev := BlWrite (n : Z) | BlRel (n : Z).

Definition bl_step (low : Z) (v : Z) (e : bl_ev) : Z * bool :=
  match e with
  | BlWrite n => (v + n, false)
  | BlRel n => bl_released v low n true
  end.

(* the amounts after every event and the firing flags, one per event *)
Fixpoint bl_run (low v : Z) (evs : list bl_ev) : Z * list bool :=
  match evs with
  | [] => (v, [])
  | e :: r =>
    let (v1, f) := bl_step low v e in
    let (vn, fs) := bl_run low v1 r in (vn, f :: fs)
  end.
