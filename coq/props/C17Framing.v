(* C17, negotiation and wrong-kind clauses: "Both endpoints use interleaved (I-DATA / I-FORWARD-TSN) framing
   exactly when both enabled it and plain framing otherwise; a chunk of the wrong kind is answered with a
   protocol-violation ABORT."  These are statements about the handshake abstraction (coq/model/Handshake.v,
   owner C04) and the inbound dispatch model (coq/model/Inbound.v, owner C03); they are restated here so that
   the C17 check depends on them and re-checks them, and the C17 check runs the correspondence of both models
   (handshake step records incl. a foreign peer listing every subset of the extensions; dispatch matrix).
   Only statements closed by [exact] + Print Assumptions. *)
From Coq Require Import ZArith Bool List.
From Sctp Require Import Gen Handshake HandshakeProofs HandshakeReach Inbound InboundProofs.
Import ListNotations.

(* for every start order (client/server, server/client, both clients, out-of-band tokens), every combination of
   the two sides' options and every finite schedule of deliveries (any packet ever emitted, any number of times,
   in any order) and T1 expiries: a side that is established uses interleaved framing iff BOTH sides enabled it *)
Theorem c17_interleaving_iff_both_enabled : forall ra rb ila zca ilb zcb s,
  In (ra, rb) hs_role_pairs -> hs_reach_from (hs_init_sys ra rb ila zca ilb zcb) s ->
  (hs_st (hs_a s) = HsEstablished -> hs_uil (hs_a s) = ila && ilb) /\
  (hs_st (hs_b s) = HsEstablished -> hs_uil (hs_b s) = ila && ilb).
Proof. exact hs_agree_interleaving. Qed.
Print Assumptions c17_interleaving_iff_both_enabled.

(* ... and the FORWARD-TSN variant follows the framing: I-FORWARD-TSN iff interleaving, FORWARD-TSN iff not *)
Theorem c17_forward_variant_follows_framing : forall s x,
  hs_reachable s -> hs_st (hs_side s x) = HsEstablished ->
  hs_uifwd (hs_side s x) = hs_uil (hs_side s x) /\ hs_ufwd (hs_side s x) = negb (hs_uil (hs_side s x)).
Proof. exact hs_fwd_variant_matches. Qed.
Print Assumptions c17_forward_variant_follows_framing.

(* whatever a (foreign) peer lists as supported: updateInterleavingState never enables the plain FORWARD-TSN
   together with interleaved framing, nor I-FORWARD-TSN without it, and interleaving is on iff local and peer *)
Theorem c17_update_interleaving_state_consistent : forall e,
  let e' := hs_update_il e in
  hs_uil e' = hs_lil e && hs_pil e /\
  (hs_ufwd e' = true -> hs_uil e' = false) /\ (hs_uifwd e' = true -> hs_uil e' = true).
Proof. exact hs_update_il_consistent. Qed.
Print Assumptions c17_update_interleaving_state_consistent.

(* a chunk of the wrong kind is answered with a protocol-violation ABORT *)
Theorem c17_wrong_kind_data_aborts : forall c,
  ib_complete_pending c = false -> isDataReceiveState (ib_state c) = true ->
  (ib_use_il c = true -> ib_dispatch c IbData = IbAbort) /\
  (ib_use_il c = false -> ib_dispatch c IbIData = IbAbort) /\
  (ib_use_il c = false -> ib_dispatch c IbData = IbProcess) /\
  (ib_use_il c = true -> ib_dispatch c IbIData = IbProcess).
Proof. exact ib_wrong_kind_data_aborts. Qed.
Print Assumptions c17_wrong_kind_data_aborts.

Theorem c17_wrong_kind_forward_tsn_aborts : forall c,
  (ib_use_il c = true -> ib_dispatch c IbFwd = IbAbort) /\
  (ib_use_ifwd c = false -> ib_dispatch c IbIFwd = IbAbort).
Proof. exact ib_wrong_kind_fwd_aborts. Qed.
Print Assumptions c17_wrong_kind_forward_tsn_aborts.
