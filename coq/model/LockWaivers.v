(* C20 — the waivers of the lock discipline: operations that must run with no lock held (user code,
   calls on the user's net.Conn, blocking channel operations, sync.Cond.Wait) but are reached with the
   named mutex held on the current code.  Hand-written; every entry is explained in notes/C20.md.
   Kept apart from coq/props/C20.v so that checks/C20.py can evaluate the checker's report against
   these lists even when the theorem c20_discipline_ok no longer holds. *)
From Coq Require Import List.
From Sctp Require Import LockLang LockCheck LockGraph.
Import ListNotations.

(* Operations that must run with no lock held (user code, calls on the user's net.Conn, blocking
   channel operations, sync.Cond.Wait) but are reached with the named mutex held.
   (kind, object, mutex held).

   c20_justified: read, judged harmless, reasons in notes/C20.md section "Waivers". *)
Definition c20_justified : list waiver := [
  (* sync.Once.Do holds the Once while the once-function closes the conn: what Once is for *)
  (KExt, ex_net_Conn_Close, mu_Association_netConnCloseOnce);
  (* close() from handleShutdownComplete / handleAbort, i.e. from the read loop inside handleChunk:
     the conn's Close is called with the association lock held; it does not call back into sctp *)
  (KExt, ex_net_Conn_Close, mu_Association_lock);
  (* completeHandshake under the association lock: the receiver (Client / Server) is already selecting;
     bounded by closeWriteLoopCh / readLoopCloseCh; the association is not yet visible to API callers *)
  (KSelSend, ch_Association_handshakeCompletedCh, mu_Association_lock);
  (KSelRecv, ch_Association_closeWriteLoopCh, mu_Association_lock);
  (KSelRecv, ch_Association_readLoopCloseCh, mu_Association_lock);
  (* BlockWrite mode: Stream.writeLock serialises the writers of one stream for the whole blocking write *)
  (KSelRecv, ch_Association_writeNotify, mu_Stream_writeLock);
  (KSelRecv, ch_ext_context_Context_Done, mu_Stream_writeLock)
].

(* c20_findings: violations of the property on the current code (key calluser-under-lock:scheduler):
   a user-supplied InterleavingStreamScheduler (WithInterleavingStreamSchedulerFactory) is created and
   called with Association.lock held (and Stream.writeLock in BlockWrite mode). *)
Definition c20_findings : list waiver := [
  (KUser, cb_pendingQueue_newStreamScheduler, mu_Association_lock);
  (KUser, cb_iface_InterleavingStreamScheduler_Reset, mu_Association_lock);
  (KUser, cb_iface_InterleavingStreamScheduler_Push, mu_Association_lock);
  (KUser, cb_iface_InterleavingStreamScheduler_Push, mu_Stream_writeLock);
  (KUser, cb_iface_InterleavingStreamScheduler_Peek, mu_Association_lock);
  (KUser, cb_iface_InterleavingStreamScheduler_Pop, mu_Association_lock)
].

Definition c20_waivers : list waiver := c20_justified ++ c20_findings.


(* Fields read without their guard, read and judged harmless (notes/C20.md section 2):
   useInterleaving / maxPayloadSize: written only by updateInterleavingState during the handshake, read by
     Stream.WriteSCTP / packetize after the association has been handed out (ordered by handshakeCompletedCh);
   netConnCloseErr: read after Once.Do returned (ordered by the Once);
   payloadQueue.nBytes: read by the constructor's trace line on an object that is not shared yet. *)
Definition c20_unguarded_reads : list nat := [
  fd_Association_useInterleaving; fd_Association_maxPayloadSize; fd_Association_netConnCloseErr; fd_payloadQueue_nBytes
].
