(* Invariants and specifications of the ring deque / in-flight queue model (coq/model/IFQ.v). *)
From Coq Require Import ZArith Bool List Lia.
From Coq Require Import ZifyBool.
From Sctp Require Import Gen IFQ.
Import ListNotations.
Open Scope Z_scope.
Ltac Zify.zify_post_hook ::= Z.div_mod_to_equations.

(* ------------------------------------------------------------------------------------------ *)
(* list facts (nat indices)                                                                    *)
(* ------------------------------------------------------------------------------------------ *)
Section ListFacts.
Context {A : Type}.
Implicit Types (l : list A) (x d : A).

Lemma rg_upd_length l n x : length (rg_upd_nat l n x) = length l.
Proof. revert n. induction l as [|a l IH]; intros [|n]; cbn; auto. Qed.

Lemma rg_upd_nth_same l n x d : (n < length l)%nat -> nth n (rg_upd_nat l n x) d = x.
Proof.
  revert n. induction l as [|a l IH]; intros [|n] H; cbn in *; try lia; auto.
  apply IH. lia.
Qed.

Lemma rg_upd_nth_other l n i x d : i <> n -> nth i (rg_upd_nat l n x) d = nth i l d.
Proof.
  revert n i. induction l as [|a l IH]; intros [|n] [|i] H; cbn; auto; try congruence.
Qed.

Lemma rg_upd_self l n d : rg_upd_nat l n (nth n l d) = l.
Proof. revert n. induction l as [|a l IH]; intros [|n]; cbn; auto. f_equal. apply IH. Qed.

Lemma rg_nth_firstn l n i d : (i < n)%nat -> nth i (firstn n l) d = nth i l d.
Proof.
  revert n i. induction l as [|a l IH]; intros [|n] [|i] H; cbn; auto; try lia.
  apply IH. lia.
Qed.

Lemma rg_nth_skipn l k i d : nth i (skipn k l) d = nth (k + i) l d.
Proof.
  revert k. induction l as [|a l IH]; intros [|k]; cbn; auto.
  destruct i; auto.
Qed.

Lemma rg_skipn_repeat x n m : skipn n (repeat x m) = repeat x (m - n).
Proof.
  revert m. induction n as [|n IH]; intros [|m]; cbn; auto.
Qed.

Lemma rg_firstn_app_exact l l' n : n = length l -> firstn n (l ++ l') = l.
Proof.
  intros ->. rewrite firstn_app, Nat.sub_diag, firstn_all. cbn. apply app_nil_r.
Qed.

Lemma rg_skipn_app_exact l l' n : n = length l -> skipn n (l ++ l') = l'.
Proof.
  intros ->. rewrite skipn_app, Nat.sub_diag, skipn_all. reflexivity.
Qed.

Lemma rg_nth_error_some l i d : (i < length l)%nat -> nth_error l i = Some (nth i l d).
Proof. intros H. apply nth_error_nth'. exact H. Qed.

End ListFacts.

(* ------------------------------------------------------------------------------------------ *)
(* ring invariants                                                                             *)
(* ------------------------------------------------------------------------------------------ *)

(* rg_wf: what holds in EVERY reachable ring state, even after PopFront on an empty ring *)
Definition rg_wf {A} (r : rg A) : Prop :=
  c_minCap <= rg_cap r /\
  0 <= rg_head r < rg_cap r /\
  rg_tail r = (rg_head r + rg_count r) mod rg_cap r /\
  rg_count r <= rg_cap r.

(* rg_ok: rg_wf and a non-negative element count (what holds when PopFront is only called on a
   non-empty ring, as payloadQueue.pop guarantees) *)
Definition rg_ok {A} (r : rg A) : Prop := rg_wf r /\ 0 <= rg_count r.

Lemma rg_minCap_pos : 0 < c_minCap.
Proof. reflexivity. Qed.

Lemma rg_mod_nonneg a b : 0 <= a -> 0 < b -> rg_mod a b = a mod b.
Proof. intros. unfold rg_mod. apply Z.rem_mod_nonneg; lia. Qed.

(* the modulus is a variable (the capacity): lia cannot use the division equations, so reductions
   of [mod] go through these two lemmas *)
Lemma rg_mod_case a b : 0 < b -> 0 <= a < 2 * b ->
  a mod b = if a <? b then a else a - b.
Proof.
  intros Hb Ha. destruct (a <? b) eqn:E.
  - apply Z.mod_small. lia.
  - symmetry. apply Z.mod_unique with (q := 1); lia.
Qed.

Lemma rg_mod_range a b : 0 < b -> 0 <= a mod b < b.
Proof. intros. apply Z.mod_pos_bound. assumption. Qed.

Lemma rg_wf_tail_range {A} (r : rg A) : rg_wf r -> 0 <= rg_tail r < rg_cap r.
Proof. pose proof rg_minCap_pos. unfold rg_wf. intros (H1 & H2 & H3 & H4). rewrite H3. apply rg_mod_range. lia. Qed.

(* ---------- rg_to_list, pointwise ---------- *)

Lemma rg_to_list_length {A} (r : rg A) : rg_wf r ->
  length (rg_to_list r) = Z.to_nat (rg_count r).
Proof.
  intros (H1 & H2 & H3 & H4). unfold rg_to_list, rg_cap in *.
  rewrite firstn_length, app_length, skipn_length, firstn_length. lia.
Qed.

Lemma rg_to_list_nth {A} (r : rg A) d i : rg_wf r -> 0 <= i < rg_count r ->
  nth (Z.to_nat i) (rg_to_list r) d = nth (Z.to_nat ((rg_head r + i) mod rg_cap r)) (rg_buf r) d.
Proof.
  intros (H1 & H2 & H3 & H4) Hi. pose proof rg_minCap_pos as Hm.
  rewrite (rg_mod_case (rg_head r + i)) by lia.
  unfold rg_to_list, rg_cap in *.
  rewrite rg_nth_firstn by lia.
  destruct (rg_head r + i <? Z.of_nat (length (rg_buf r))) eqn:E.
  - rewrite app_nth1 by (rewrite skipn_length; lia).
    rewrite rg_nth_skipn. f_equal. lia.
  - rewrite app_nth2 by (rewrite skipn_length; lia).
    rewrite skipn_length, rg_nth_firstn by lia. f_equal. lia.
Qed.

Lemma rg_to_list_ext {A} (r : rg A) (L : list A) d : rg_wf r ->
  length L = Z.to_nat (rg_count r) ->
  (forall i, 0 <= i < rg_count r ->
     nth (Z.to_nat i) L d = nth (Z.to_nat ((rg_head r + i) mod rg_cap r)) (rg_buf r) d) ->
  rg_to_list r = L.
Proof.
  intros Hwf HL Hn. apply nth_ext with (d := d) (d' := d).
  - rewrite rg_to_list_length by assumption. lia.
  - intros n Hlt. rewrite rg_to_list_length in Hlt by assumption.
    specialize (Hn (Z.of_nat n) ltac:(lia)). rewrite Nat2Z.id in Hn. rewrite Hn.
    rewrite <- (rg_to_list_nth r d (Z.of_nat n)) by (auto; lia). rewrite Nat2Z.id. reflexivity.
Qed.

(* ---------- reads and writes ---------- *)

Lemma rg_wr_length {A} (l : list A) i x : length (rg_wr l i x) = length l.
Proof. unfold rg_wr. destruct (i <? 0); auto using rg_upd_length. Qed.

Lemma rg_wr_nth_same {A} (l : list A) i x d : 0 <= i < Z.of_nat (length l) ->
  nth (Z.to_nat i) (rg_wr l i x) d = x.
Proof.
  intros H. unfold rg_wr. destruct (i <? 0) eqn:E; [lia|]. apply rg_upd_nth_same. lia.
Qed.

Lemma rg_wr_nth_other {A} (l : list A) i j x d : 0 <= i -> 0 <= j -> i <> j ->
  nth (Z.to_nat j) (rg_wr l i x) d = nth (Z.to_nat j) l d.
Proof.
  intros Hi Hj Hne. unfold rg_wr. destruct (i <? 0) eqn:E; [lia|]. apply rg_upd_nth_other. lia.
Qed.

(* ---------- newQueue ---------- *)

Lemma rg_cap_loop_spec fuel : forall qc capacity, 0 < qc -> capacity <= qc * 2 ^ Z.of_nat fuel ->
  let k := rg_cap_loop fuel qc capacity in
  qc <= k /\ capacity <= k /\ (capacity <= qc -> k = qc) /\ (qc < capacity -> k < 2 * capacity).
Proof.
  induction fuel as [|f IH]; intros qc capacity Hq Hc.
  - cbn in *. lia.
  - cbn [rg_cap_loop]. destruct (qc <? capacity) eqn:E.
    + rewrite Z.shiftl_mul_pow2 by lia. change (2 ^ 1) with 2.
      rewrite Nat2Z.inj_succ, Z.pow_succ_r in Hc by lia.
      specialize (IH (qc * 2) capacity ltac:(lia) ltac:(nia)). cbv zeta in IH. lia.
    + cbv zeta. lia.
Qed.

Lemma rg_new_ok {A} (z : A) capacity : capacity <= 2 ^ 62 ->
  rg_ok (rg_new z capacity) /\ rg_to_list (rg_new z capacity) = [] /\
  rg_count (rg_new z capacity) = 0 /\
  capacity <= rg_cap (rg_new z capacity) /\
  (capacity <= c_minCap -> rg_cap (rg_new z capacity) = c_minCap) /\
  (c_minCap < capacity -> rg_cap (rg_new z capacity) < 2 * capacity).
Proof.
  intros Hc. pose proof rg_minCap_pos as Hm.
  pose proof (rg_cap_loop_spec 64 c_minCap capacity Hm) as S.
  assert (Hle : capacity <= c_minCap * 2 ^ Z.of_nat 64).
  { change (c_minCap * 2 ^ Z.of_nat 64) with 295147905179352825856. change (2 ^ 62) with 4611686018427387904 in Hc. lia. }
  specialize (S Hle). cbv zeta in S.
  assert (Hcap : rg_cap (rg_new z capacity) = rg_cap_loop 64 c_minCap capacity).
  { unfold rg_cap, rg_new. cbn [rg_buf]. rewrite repeat_length. lia. }
  rewrite Hcap. unfold rg_ok, rg_wf. rewrite Hcap.
  unfold rg_new at 1 2 3 4 5 6 7. cbn [rg_head rg_tail rg_count].
  repeat split; try lia.
Qed.

(* ---------- growIfFull ---------- *)

Lemma rg_grow_spec {A} (z : A) (r : rg A) : rg_wf r ->
  let r' := rg_grow_if_full z r in
  rg_wf r' /\ rg_count r' = rg_count r /\ rg_count r' < rg_cap r' /\
  rg_to_list r' = rg_to_list r /\
  rg_cap r' = (if rg_count r <? rg_cap r then rg_cap r else 2 * rg_cap r).
Proof.
  intros Hwf. pose proof rg_minCap_pos as Hm. pose proof Hwf as (H1 & H2 & H3 & H4).
  cbv zeta. unfold rg_grow_if_full.
  destruct (rg_count r <? rg_cap r) eqn:E.
  - repeat split; try apply Hwf; lia.
  - (* full: count = cap, hence tail = head *)
    assert (Hc : rg_count r = rg_cap r) by lia.
    assert (Ht : rg_tail r = rg_head r).
    { rewrite H3, rg_mod_case by lia. destruct (rg_head r + rg_count r <? rg_cap r) eqn:E2; lia. }
    destruct (rg_head r <? rg_tail r) eqn:E3; [lia|].
    destruct r as [buf head tail count]. unfold rg_cap in *. cbn [rg_buf rg_head rg_tail rg_count] in *.
    clear H3 E3. subst tail count.
    unfold rg_copy, rg_slice. cbv beta iota zeta. cbn [fst].
    set (c := length buf) in *. set (h := Z.to_nat head).
    rewrite Z.shiftl_mul_pow2 by lia. change (2 ^ 1) with 2.
    replace (Z.to_nat (Z.of_nat c * 2)) with (2 * c)%nat by lia.
    replace (Z.to_nat (Z.of_nat c - head)) with (c - h)%nat by lia.
    replace (Z.to_nat (head - 0)) with h by lia.
    change (Z.to_nat 0) with O. rewrite skipn_O.
    assert (Hs : firstn (c - h) (skipn h buf) = skipn h buf).
    { apply firstn_all2. rewrite skipn_length. lia. }
    rewrite Hs. rewrite repeat_length, skipn_length. fold c.
    replace (Nat.min (2 * c) (c - h)) with (c - h)%nat by lia.
    rewrite Hs, rg_skipn_repeat.
    rewrite (rg_firstn_app_exact (skipn h buf)) by (rewrite skipn_length; lia).
    rewrite (rg_skipn_app_exact (skipn h buf)) by (rewrite skipn_length; lia).
    rewrite repeat_length, firstn_length. fold c.
    replace (Nat.min (2 * c - (c - h)) (Nat.min h c)) with h by lia.
    rewrite firstn_firstn, Nat.min_id, rg_skipn_repeat.
    replace (2 * c - (c - h) - h)%nat with c by lia.
    assert (HL : length (skipn h buf ++ firstn h buf) = c).
    { rewrite app_length, skipn_length, firstn_length. lia. }
    assert (HL2 : length (skipn h buf ++ firstn h buf ++ repeat z c) = (2 * c)%nat).
    { rewrite app_assoc, app_length, HL, repeat_length. lia. }
    rewrite HL2. unfold rg_wf, rg_cap. cbn [rg_buf rg_head rg_tail rg_count]. rewrite HL2.
    repeat split; try lia.
    + rewrite Z.mod_small; lia.
    + unfold rg_to_list. cbn [rg_buf rg_head rg_tail rg_count].
      change (Z.to_nat 0) with O. rewrite Nat2Z.id, skipn_O, firstn_O, app_nil_r. fold h.
      rewrite app_assoc, (rg_firstn_app_exact (skipn h buf ++ firstn h buf)) by (symmetry; exact HL).
      symmetry. apply firstn_all2. lia.
Qed.

(* the branch [if q.tail > q.head] of growIfFull is never taken when the ring is full: dead code *)
Lemma rg_grow_first_branch_dead {A} (r : rg A) : rg_wf r -> rg_count r <? rg_cap r = false ->
  rg_head r <? rg_tail r = false.
Proof.
  intros (H1 & H2 & H3 & H4) E. pose proof rg_minCap_pos as Hm.
  rewrite H3, rg_mod_case by lia. destruct (rg_head r + rg_count r <? rg_cap r) eqn:E2; lia.
Qed.

(* ---------- PushBack ---------- *)

Lemma rg_push_back_wf {A} (z : A) (r : rg A) x : rg_wf r -> rg_wf (rg_push_back z r x).
Proof.
  intros Hwf. pose proof rg_minCap_pos as Hm.
  destruct (rg_grow_spec z r Hwf) as (Hwf1 & Hc1 & Hlt1 & _ & _).
  unfold rg_push_back. set (r1 := rg_grow_if_full z r) in *.
  pose proof (rg_wf_tail_range r1 Hwf1) as Ht.
  destruct Hwf1 as (H1 & H2 & H3 & H4).
  unfold rg_wf, rg_cap in *. cbn [rg_buf rg_head rg_tail rg_count]. rewrite rg_wr_length.
  repeat split; try lia.
  rewrite rg_mod_nonneg by lia. rewrite H3, Z.add_mod_idemp_l by lia. f_equal. lia.
Qed.

Lemma rg_push_back_cap {A} (z : A) (r : rg A) x : rg_wf r ->
  rg_cap (rg_push_back z r x) = (if rg_count r <? rg_cap r then rg_cap r else 2 * rg_cap r) /\
  rg_count (rg_push_back z r x) = rg_count r + 1.
Proof.
  intros Hwf. destruct (rg_grow_spec z r Hwf) as (_ & Hc1 & _ & _ & Hcap).
  unfold rg_push_back, rg_cap in *. cbn [rg_buf rg_count]. rewrite rg_wr_length. lia.
Qed.

Lemma rg_push_back_spec {A} (z : A) (r : rg A) x : rg_ok r ->
  rg_ok (rg_push_back z r x) /\ rg_to_list (rg_push_back z r x) = rg_to_list r ++ [x].
Proof.
  intros (Hwf & Hnn). pose proof rg_minCap_pos as Hm.
  pose proof (rg_push_back_wf z r x Hwf) as Hwf'.
  destruct (rg_push_back_cap z r x Hwf) as (_ & Hcnt).
  split; [split; [assumption | lia]|].
  destruct (rg_grow_spec z r Hwf) as (Hwf1 & Hc1 & Hlt1 & HL1 & _).
  rewrite <- HL1.
  apply rg_to_list_ext with (d := z); [assumption | |].
  - rewrite app_length, rg_to_list_length by assumption. cbn [length]. lia.
  - intros i Hi. rewrite Hcnt in Hi.
    unfold rg_push_back in *. set (r1 := rg_grow_if_full z r) in *.
    pose proof (rg_wf_tail_range r1 Hwf1) as Ht.
    pose proof Hwf1 as (H1 & H2 & H3 & H4).
    unfold rg_cap in *. cbn [rg_buf rg_head rg_tail rg_count] in *. rewrite rg_wr_length.
    assert (Hidx : 0 <= (rg_head r1 + i) mod Z.of_nat (length (rg_buf r1)) < Z.of_nat (length (rg_buf r1)))
      by (apply rg_mod_range; lia).
    destruct (Z.eq_dec i (rg_count r1)) as [->|Hne].
    + rewrite <- H3. rewrite rg_wr_nth_same by lia.
      rewrite app_nth2; rewrite rg_to_list_length by assumption; [|lia].
      replace (Z.to_nat (rg_count r1) - Z.to_nat (rg_count r1))%nat with O by lia. reflexivity.
    + rewrite rg_wr_nth_other; try lia.
      * rewrite app_nth1 by (rewrite rg_to_list_length by assumption; lia).
        apply rg_to_list_nth; [assumption | lia].
      * (* the slot written is not one of the live slots *)
        rewrite H3. rewrite !rg_mod_case by lia.
        destruct (rg_head r1 + rg_count r1 <? _), (rg_head r1 + i <? _); lia.
Qed.

(* ---------- PopFront ---------- *)

Lemma rg_pop_front_wf {A} (z : A) (r : rg A) : rg_wf r -> rg_wf (snd (rg_pop_front z r)).
Proof.
  intros (H1 & H2 & H3 & H4). pose proof rg_minCap_pos as Hm.
  unfold rg_pop_front, rg_wf, rg_cap in *. cbn [snd rg_buf rg_head rg_tail rg_count]. rewrite rg_wr_length.
  rewrite rg_mod_nonneg by lia.
  repeat split; try lia; try (apply rg_mod_range; lia).
  rewrite Z.add_mod_idemp_l by lia. rewrite H3. f_equal. lia.
Qed.

Lemma rg_pop_front_spec {A} (z : A) (r : rg A) : rg_ok r -> 0 < rg_count r ->
  fst (rg_pop_front z r) = hd z (rg_to_list r) /\
  rg_to_list (snd (rg_pop_front z r)) = tl (rg_to_list r) /\
  rg_ok (snd (rg_pop_front z r)) /\
  rg_count (snd (rg_pop_front z r)) = rg_count r - 1 /\
  rg_cap (snd (rg_pop_front z r)) = rg_cap r.
Proof.
  intros (Hwf & Hnn) Hpos. pose proof rg_minCap_pos as Hm.
  pose proof (rg_pop_front_wf z r Hwf) as Hwf'.
  pose proof Hwf as (H1 & H2 & H3 & H4).
  assert (Hhd : forall l : list A, hd z l = nth 0 l z) by (intros [|? ?]; reflexivity).
  split; [|split; [|split; [|split]]].
  - rewrite Hhd. change O with (Z.to_nat 0). rewrite rg_to_list_nth by (auto; lia).
    rewrite Z.add_0_r, Z.mod_small by lia. reflexivity.
  - apply rg_to_list_ext with (d := z); [assumption | |].
    + unfold rg_pop_front. cbn [snd rg_count].
      pose proof (rg_to_list_length r Hwf). destruct (rg_to_list r); cbn [tl length] in *; lia.
    + intros i Hi. unfold rg_pop_front in *. unfold rg_cap in *.
      cbn [snd rg_buf rg_head rg_tail rg_count] in *. rewrite rg_wr_length.
      rewrite rg_mod_nonneg by lia.
      assert (Hnth : forall (l : list A) n, nth n (tl l) z = nth (S n) l z).
      { intros [|? ?] [|?]; reflexivity. }
      rewrite Hnth. replace (S (Z.to_nat i)) with (Z.to_nat (i + 1)) by lia.
      rewrite rg_to_list_nth by (auto; lia).
      rewrite Z.add_mod_idemp_l by lia. replace (rg_head r + 1 + i) with (rg_head r + (i + 1)) by lia.
      assert (Hidx : 0 <= (rg_head r + (i + 1)) mod Z.of_nat (length (rg_buf r)) < Z.of_nat (length (rg_buf r)))
        by (apply rg_mod_range; lia).
      unfold rg_cap. symmetry. apply rg_wr_nth_other; try lia.
      rewrite rg_mod_case by lia. destruct (rg_head r + (i + 1) <? _); lia.
  - split; [assumption|]. unfold rg_pop_front. cbn [snd rg_count]. lia.
  - reflexivity.
  - unfold rg_pop_front, rg_cap. cbn [snd rg_buf]. rewrite rg_wr_length. reflexivity.
Qed.

(* what PopFront really does on an empty ring: no guard, the count becomes -1, the invariant
   rg_ok is lost (rg_wf is not: no later operation can index out of range) *)
Lemma rg_pop_front_empty {A} (z : A) (r : rg A) : rg_ok r -> rg_count r = 0 ->
  let r' := snd (rg_pop_front z r) in
  rg_len r' = -1 /\ ~ rg_ok r' /\ rg_wf r' /\ rg_to_list r' = [] /\
  rg_head r' = (rg_head r + 1) mod rg_cap r.
Proof.
  intros (Hwf & Hnn) H0. pose proof rg_minCap_pos as Hm. pose proof Hwf as (H1 & H2 & H3 & H4). cbv zeta.
  pose proof (rg_pop_front_wf z r Hwf) as Hwf'.
  split; [|split; [|split; [|split]]].
  - unfold rg_len, rg_pop_front. cbn [snd rg_count]. lia.
  - intros (_ & Hc). unfold rg_pop_front in Hc. cbn [snd rg_count] in Hc. lia.
  - assumption.
  - unfold rg_to_list, rg_pop_front. cbn [snd rg_count]. rewrite H0. reflexivity.
  - unfold rg_pop_front. cbn [snd rg_head]. apply rg_mod_nonneg; lia.
Qed.

(* ---------- Front / Back / At / Len ---------- *)

Lemma rg_front_spec {A} (z : A) (r : rg A) : rg_ok r -> 0 < rg_count r ->
  rg_front z r = hd z (rg_to_list r).
Proof.
  intros Hok Hpos. destruct (rg_pop_front_spec z r Hok Hpos) as (H & _). exact H.
Qed.

Lemma rg_last_nth {A} (l : list A) d : last l d = nth (length l - 1) l d.
Proof.
  induction l as [|a [|b l] IH]; try reflexivity.
  change (last (a :: b :: l) d) with (last (b :: l) d). rewrite IH. cbn [length].
  replace (S (S (length l)) - 1)%nat with (S (S (length l) - 1)) by lia. reflexivity.
Qed.

Lemma rg_back_spec {A} (z : A) (r : rg A) : rg_ok r -> 0 < rg_count r ->
  rg_back z r = last (rg_to_list r) z.
Proof.
  intros (Hwf & Hnn) Hpos. pose proof rg_minCap_pos as Hm. pose proof Hwf as (H1 & H2 & H3 & H4).
  pose proof (rg_wf_tail_range r Hwf) as Ht.
  rewrite rg_last_nth, rg_to_list_length by assumption.
  replace (Z.to_nat (rg_count r) - 1)%nat with (Z.to_nat (rg_count r - 1)) by lia.
  rewrite rg_to_list_nth by (auto; lia).
  unfold rg_back, rg_rd. rewrite rg_mod_nonneg by lia. f_equal. f_equal.
  rewrite H3. rewrite <- Z.add_sub_swap, <- Z.add_sub_assoc.
  rewrite Z.add_mod_idemp_l by lia.
  rewrite <- (Z_mod_plus_full (rg_head r + (rg_count r - 1)) 1 (rg_cap r)). f_equal. lia.
Qed.

Lemma rg_at_spec {A} (r : rg A) d i : rg_ok r -> 0 <= i < rg_count r ->
  rg_at r i = Some (nth (Z.to_nat i) (rg_to_list r) d).
Proof.
  intros (Hwf & Hnn) Hi. pose proof rg_minCap_pos as Hm. pose proof Hwf as (H1 & H2 & H3 & H4).
  rewrite rg_to_list_nth by assumption.
  unfold rg_at, rg_rd_chk. rewrite rg_mod_nonneg by lia.
  pose proof (rg_mod_range (rg_head r + i) (rg_cap r) ltac:(lia)) as Hr.
  destruct (_ <? 0) eqn:E; [lia|]. apply rg_nth_error_some. unfold rg_cap in *. lia.
Qed.

(* At(i) with i >= 0 never indexes out of range, in any reachable state (count is not consulted) *)
Lemma rg_at_in_range {A} (r : rg A) i : rg_wf r -> 0 <= i -> rg_at r i <> None.
Proof.
  intros (H1 & H2 & H3 & H4) Hi. pose proof rg_minCap_pos as Hm.
  unfold rg_at, rg_rd_chk. rewrite rg_mod_nonneg by lia.
  pose proof (rg_mod_range (rg_head r + i) (rg_cap r) ltac:(lia)) as Hr.
  destruct (_ <? 0) eqn:E; [lia|]. apply nth_error_Some. unfold rg_cap in *. lia.
Qed.

Lemma rg_len_spec {A} (r : rg A) : rg_ok r -> rg_len r = Z.of_nat (length (rg_to_list r)).
Proof. intros (Hwf & Hnn). rewrite rg_to_list_length by assumption. unfold rg_len. lia. Qed.

(* ---------- write through a stored pointer ---------- *)

Lemma rg_set_at_spec {A} (r : rg A) i x : rg_ok r -> 0 <= i < rg_count r ->
  rg_ok (rg_set_at r i x) /\
  rg_to_list (rg_set_at r i x) = rg_upd_nat (rg_to_list r) (Z.to_nat i) x /\
  rg_count (rg_set_at r i x) = rg_count r /\ rg_cap (rg_set_at r i x) = rg_cap r.
Proof.
  intros (Hwf & Hnn) Hi. pose proof rg_minCap_pos as Hm. pose proof Hwf as (H1 & H2 & H3 & H4).
  assert (Hcap : rg_cap (rg_set_at r i x) = rg_cap r).
  { unfold rg_set_at, rg_cap. cbn [rg_buf]. apply f_equal, rg_wr_length. }
  assert (Hwf' : rg_wf (rg_set_at r i x)).
  { unfold rg_wf. rewrite Hcap. unfold rg_set_at. cbn [rg_head rg_tail rg_count]. auto. }
  split; [split; [assumption | exact Hnn]|]. split; [|split; [reflexivity | assumption]].
  apply rg_to_list_ext with (d := x); [assumption | |].
  - rewrite rg_upd_length. change (rg_count (rg_set_at r i x)) with (rg_count r). apply rg_to_list_length. assumption.
  - intros j Hj. rewrite Hcap. unfold rg_set_at in *. cbn [rg_buf rg_head rg_tail rg_count] in *.
    rewrite rg_mod_nonneg by lia.
    pose proof (rg_mod_range (rg_head r + i) (rg_cap r) ltac:(lia)) as Hri.
    pose proof (rg_mod_range (rg_head r + j) (rg_cap r) ltac:(lia)) as Hrj.
    destruct (Z.eq_dec j i) as [->|Hne].
    + rewrite rg_upd_nth_same by (rewrite rg_to_list_length by assumption; lia).
      rewrite rg_wr_nth_same; [reflexivity | unfold rg_cap in *; lia].
    + rewrite rg_upd_nth_other by lia. rewrite rg_to_list_nth by assumption.
      symmetry. apply rg_wr_nth_other; try lia.
      rewrite !rg_mod_case by lia. destruct (rg_head r + i <? _), (rg_head r + j <? _); lia.
Qed.

(* ---------- all ring histories ---------- *)

Lemma rg_run_wf {A} (z : A) ops : forall r, rg_wf r -> rg_wf (rg_run z r ops).
Proof.
  induction ops as [|o ops IH]; intros r Hwf; [exact Hwf|].
  change (rg_run z r (o :: ops)) with (rg_run z (rg_step z r o) ops). apply IH.
  destruct o; cbn [rg_step]; auto using rg_push_back_wf, rg_pop_front_wf.
Qed.

(* no sequence of PushBack / PopFront (guarded or not) leaves the index range of the buffer *)
Lemma rg_wf_always {A} (z : A) capacity ops : capacity <= 2 ^ 62 ->
  rg_wf (rg_run z (rg_new z capacity) ops).
Proof. intros H. apply rg_run_wf. apply (rg_new_ok z capacity H). Qed.

(* list-level meaning of the operations, and the guard "PopFront only on a non-empty ring" *)
Definition rg_spec_step {A} (l : list A) (o : rg_op A) : list A :=
  match o with rg_op_push x => l ++ [x] | rg_op_pop => tl l end.

Fixpoint rg_guarded {A} (l : list A) (ops : list (rg_op A)) : Prop :=
  match ops with
  | [] => True
  | o :: ops' => (match o with rg_op_pop => l <> [] | rg_op_push _ => True end) /\
                 rg_guarded (rg_spec_step l o) ops'
  end.

Lemma rg_run_refines {A} (z : A) ops : forall r, rg_ok r -> rg_guarded (rg_to_list r) ops ->
  rg_ok (rg_run z r ops) /\ rg_to_list (rg_run z r ops) = fold_left rg_spec_step ops (rg_to_list r).
Proof.
  induction ops as [|o ops IH]; intros r Hok Hg; [split; [exact Hok | reflexivity]|].
  change (rg_run z r (o :: ops)) with (rg_run z (rg_step z r o) ops).
  cbn [fold_left]. destruct Hg as (Hg1 & Hg2). destruct o as [x|]; cbn [rg_step rg_spec_step] in *.
  - destruct (rg_push_back_spec z r x Hok) as (Hok' & HL). rewrite <- HL in *. apply IH; assumption.
  - assert (Hpos : 0 < rg_count r).
    { destruct Hok as (Hwf & Hnn). pose proof (rg_to_list_length r Hwf) as HLen.
      destruct (rg_to_list r); [congruence | cbn [length] in HLen; lia]. }
    destruct (rg_pop_front_spec z r Hok Hpos) as (_ & HL & Hok' & _). rewrite <- HL in *. apply IH; assumption.
Qed.

(* ------------------------------------------------------------------------------------------ *)
(* in-flight queue                                                                             *)
(* ------------------------------------------------------------------------------------------ *)

Definition ifq_list (q : ifq) : list ichunk := rg_to_list (ifq_chunks q).

(* x is a uint32 value *)
Definition ifq_u32 (x : Z) : Prop := wrap32 x = x.

Fixpoint ifq_sum (l : list ichunk) : Z :=
  match l with [] => 0 | c :: t => ic_len c + ifq_sum t end.

(* bytes of the chunks not yet acknowledged *)
Fixpoint ifq_sum_unacked (l : list ichunk) : Z :=
  match l with [] => 0 | c :: t => if ic_acked c then ifq_sum_unacked t else ic_len c + ifq_sum_unacked t end.

(* TSNs are consecutive modulo 2^32, starting from the front chunk's *)
Definition ifq_consec (l : list ichunk) : Prop :=
  forall i, (i < length l)%nat ->
    ic_tsn (nth i l ic_zero) = wrap32 (ic_tsn (nth 0 l ic_zero) + Z.of_nat i).

Definition ifq_chunk_ok (c : ichunk) : Prop := 0 <= ic_len c /\ (ic_acked c = true -> ic_len c = 0).

Definition ifq_list_ok (l : list ichunk) : Prop :=
  ifq_consec l /\ ifq_u32 (Z.of_nat (length l)) /\ (forall c, In c l -> ifq_chunk_ok c).

Definition ifq_ok (q : ifq) : Prop :=
  rg_ok (ifq_chunks q) /\ ifq_list_ok (ifq_list q) /\ ifq_nbytes q = ifq_sum (ifq_list q).

(* ---------- list facts ---------- *)

Lemma ifq_sum_app l x : ifq_sum (l ++ [x]) = ifq_sum l + ic_len x.
Proof. induction l as [|a l IH]; cbn [app ifq_sum] in *; lia. Qed.

Lemma ifq_sum_upd l : forall n x, (n < length l)%nat ->
  ifq_sum (rg_upd_nat l n x) = ifq_sum l - ic_len (nth n l ic_zero) + ic_len x.
Proof.
  induction l as [|a l IH]; intros [|n] x H; cbn [length] in H; try lia.
  - cbn. lia.
  - cbn [rg_upd_nat nth ifq_sum]. rewrite IH by lia. lia.
Qed.

Lemma ifq_sum_nonneg l : (forall c, In c l -> ifq_chunk_ok c) -> 0 <= ifq_sum l.
Proof.
  induction l as [|a l IH]; intros H; cbn [ifq_sum]; [lia|].
  pose proof (H a (or_introl eq_refl)) as (Ha & _).
  specialize (IH (fun c Hc => H c (or_intror Hc))). lia.
Qed.

Lemma ifq_sum_unacked_eq l : (forall c, In c l -> ifq_chunk_ok c) -> ifq_sum_unacked l = ifq_sum l.
Proof.
  induction l as [|a l IH]; intros H; [reflexivity|].
  cbn [ifq_sum ifq_sum_unacked].
  pose proof (H a (or_introl eq_refl)) as (Ha & Hb).
  specialize (IH (fun c Hc => H c (or_intror Hc))). rewrite IH.
  destruct (ic_acked a); [rewrite Hb by reflexivity|]; lia.
Qed.

Lemma rg_upd_In {A} (l : list A) : forall n x c, In c (rg_upd_nat l n x) -> c = x \/ In c l.
Proof.
  induction l as [|a l IH]; intros [|n] x c H; cbn in *; try tauto.
  - destruct H; auto.
  - destruct H as [H|H]; auto. destruct (IH _ _ _ H); auto.
Qed.

Lemma rg_upd_idem {A} (l : list A) : forall n x, rg_upd_nat (rg_upd_nat l n x) n x = rg_upd_nat l n x.
Proof. induction l as [|a l IH]; intros [|n] x; cbn; auto. f_equal. apply IH. Qed.

Lemma rg_upd_nth {A} (l : list A) n i x d : (n < length l)%nat ->
  nth i (rg_upd_nat l n x) d = if Nat.eqb i n then x else nth i l d.
Proof.
  intros H. destruct (Nat.eqb i n) eqn:E.
  - apply Nat.eqb_eq in E. subst i. apply rg_upd_nth_same. exact H.
  - apply Nat.eqb_neq in E. apply rg_upd_nth_other. exact E.
Qed.

Lemma ifq_u32_range x : ifq_u32 x <-> 0 <= x < 4294967296.
Proof. unfold ifq_u32, wrap32. lia. Qed.

Lemma ifq_consec_front_u32 l : ifq_consec l -> l <> [] -> ifq_u32 (ic_tsn (nth 0 l ic_zero)).
Proof.
  intros H Hne. specialize (H O). destruct l; [congruence|]. cbn [length] in H.
  specialize (H ltac:(lia)). unfold ifq_u32. rewrite Z.add_0_r in H. symmetry. exact H.
Qed.

(* ---------- newPayloadQueue ---------- *)

Lemma ifq_new_ok : ifq_ok ifq_new /\ ifq_list ifq_new = [] /\ ifq_nbytes ifq_new = 0 /\
  rg_cap (ifq_chunks ifq_new) = 128.
Proof.
  assert (H : 128 <= 2 ^ 62) by (change (2 ^ 62) with 4611686018427387904; lia).
  destruct (rg_new_ok ic_zero 128 H) as (Hok & HL & _).
  unfold ifq_ok, ifq_list, ifq_new. cbn [ifq_chunks ifq_nbytes]. rewrite HL.
  split; [|split; [reflexivity|split; [reflexivity|vm_compute; reflexivity]]].
  split; [assumption|]. split; [|reflexivity]. split; [|split].
  - intros i Hi. cbn in Hi. lia.
  - reflexivity.
  - intros c0 [].
Qed.

(* ---------- pushNoCheck ---------- *)

(* what the association guarantees when it moves a chunk from the pending queue:
   the next TSN (any TSN when the queue is empty), a payload not yet acknowledged *)
Definition ifq_push_pre (q : ifq) (c : ichunk) : Prop :=
  ifq_u32 (ic_tsn c) /\ ifq_chunk_ok c /\
  ifq_u32 (Z.of_nat (length (ifq_list q)) + 1) /\
  (ifq_list q <> [] -> ic_tsn c = wrap32 (ic_tsn (last (ifq_list q) ic_zero) + 1)).

Lemma ifq_push_spec q c : rg_ok (ifq_chunks q) ->
  rg_ok (ifq_chunks (ifq_push_no_check q c)) /\
  ifq_list (ifq_push_no_check q c) = ifq_list q ++ [c] /\
  ifq_nbytes (ifq_push_no_check q c) = ifq_nbytes q + ic_len c.
Proof.
  intros Hok. destruct (rg_push_back_spec ic_zero (ifq_chunks q) c Hok) as (Hok' & HL).
  unfold ifq_list, ifq_push_no_check. cbn [ifq_chunks ifq_nbytes]. auto.
Qed.

Lemma ifq_push_ok q c : ifq_ok q -> ifq_push_pre q c -> ifq_ok (ifq_push_no_check q c).
Proof.
  intros (Hok & (Hcon & Hlen & Hch) & Hsum) (Ht & Hc & Hlen' & Hnext).
  destruct (ifq_push_spec q c Hok) as (Hok' & HL & Hnb).
  unfold ifq_ok. rewrite HL, Hnb, ifq_sum_app, Hsum. split; [assumption|]. split; [|reflexivity].
  set (l := ifq_list q) in *. split; [|split].
  - intros i Hi. rewrite app_length in Hi. cbn [length] in Hi.
    destruct (l) as [|c0 l0] eqn:El.
    + cbn [app length] in *. assert (i = O) by lia. subst i. cbn [nth].
      unfold ifq_u32 in Ht. rewrite Z.add_0_r. symmetry. exact Ht.
    + rewrite <- El in *. assert (Hne : l <> []) by (rewrite El; discriminate).
      assert (H0 : nth 0 (l ++ [c]) ic_zero = nth 0 l ic_zero).
      { apply app_nth1. rewrite El. cbn [length]. lia. }
      rewrite H0.
      destruct (Nat.eq_dec i (length l)) as [->|Hne2].
      * rewrite app_nth2, Nat.sub_diag by lia. cbn [nth].
        rewrite (Hnext Hne), rg_last_nth.
        rewrite (Hcon (length l - 1)%nat) by (rewrite El; cbn [length]; lia).
        assert (0 < length l)%nat by (rewrite El; cbn [length]; lia).
        unfold wrap32. rewrite Z.add_mod_idemp_l by lia. f_equal. lia.
      * rewrite app_nth1 by lia. apply Hcon. lia.
  - rewrite app_length. cbn [length]. replace (Z.of_nat (length l + 1)) with (Z.of_nat (length l) + 1) by lia.
    exact Hlen'.
  - intros x Hx. apply in_app_or in Hx. destruct Hx as [Hx|[<-|[]]]; auto.
Qed.

(* ---------- get ---------- *)

(* get in terms of the abstract list; needs only the ring invariant (TSNs arbitrary) *)
Lemma ifq_get_list q t : rg_ok (ifq_chunks q) ->
  ifq_get q t =
  match ifq_list q with
  | [] => None
  | c0 :: _ =>
      let off := wrap32 (t - ic_tsn c0) in
      if off <? Z.of_nat (length (ifq_list q)) then Some (nth (Z.to_nat off) (ifq_list q) ic_zero) else None
  end.
Proof.
  intros Hok. pose proof Hok as (Hwf & Hnn).
  pose proof (rg_to_list_length (ifq_chunks q) Hwf) as HLen.
  unfold ifq_get, ifq_offset, ifq_list in *. unfold rg_len.
  destruct (rg_to_list (ifq_chunks q)) as [|c0 l0] eqn:El.
  - cbn [length] in HLen. replace (rg_count (ifq_chunks q)) with 0 by lia. reflexivity.
  - cbn [length] in HLen. destruct (rg_count (ifq_chunks q) =? 0) eqn:E0; [lia|].
    rewrite rg_front_spec by (auto; lia). rewrite El. cbn [hd]. cbv zeta.
    set (off := wrap32 (t - ic_tsn c0)).
    assert (Hoff : 0 <= off) by (unfold off, wrap32; lia).
    replace (Z.of_nat (length (c0 :: l0))) with (rg_count (ifq_chunks q)) by (cbn [length]; lia).
    destruct (rg_count (ifq_chunks q) <=? off) eqn:E1.
    + destruct (off <? rg_count (ifq_chunks q)) eqn:E2; [lia | reflexivity].
    + destruct (off <? rg_count (ifq_chunks q)) eqn:E2; [|lia].
      rewrite (rg_at_spec _ ic_zero) by (auto; lia). rewrite El. reflexivity.
Qed.

(* None never hides a panic: it is produced by the two guards only *)
Lemma ifq_get_none_iff q t : rg_wf (ifq_chunks q) ->
  (ifq_get q t = None <->
   rg_len (ifq_chunks q) = 0 \/ rg_len (ifq_chunks q) <= ifq_offset q t).
Proof.
  intros Hwf. unfold ifq_get.
  destruct (rg_len (ifq_chunks q) =? 0) eqn:E0; [split; [left; lia | reflexivity]|].
  destruct (rg_len (ifq_chunks q) <=? ifq_offset q t) eqn:E1; [split; [right; lia | reflexivity]|].
  split; [|lia]. intros H. exfalso. revert H. apply rg_at_in_range; [assumption|].
  unfold ifq_offset, wrap32. lia.
Qed.

Lemma ifq_get_spec q t c : ifq_ok q -> ifq_u32 t ->
  (ifq_get q t = Some c <-> In c (ifq_list q) /\ ic_tsn c = t).
Proof.
  intros (Hok & (Hcon & Hlen & Hch) & Hsum) Ht. rewrite ifq_get_list by assumption.
  set (l := ifq_list q) in *. apply ifq_u32_range in Ht. apply ifq_u32_range in Hlen.
  destruct l as [|c0 l0] eqn:El; [split; [discriminate | intros ([] & _)]|].
  rewrite <- El in *. assert (Hne : l <> []) by (rewrite El; discriminate).
  pose proof (ifq_consec_front_u32 l Hcon Hne) as H0. apply ifq_u32_range in H0.
  rewrite El in H0 at 1. cbn [nth] in H0. cbv zeta.
  set (off := wrap32 (t - ic_tsn c0)).
  assert (Hoff : 0 <= off < 4294967296) by (unfold off, wrap32; lia).
  split.
  - destruct (off <? Z.of_nat (length l)) eqn:E; [|discriminate]. intros H. injection H as <-.
    split; [apply nth_In; lia|].
    rewrite Hcon by lia. rewrite El at 1. cbn [nth]. rewrite Z2Nat.id by lia.
    unfold off, wrap32. lia.
  - intros (Hin & Htsn). destruct (In_nth l c ic_zero Hin) as (i & Hi & Hnth).
    assert (Hoffi : off = Z.of_nat i).
    { unfold off. rewrite <- Htsn, <- Hnth, Hcon by assumption. rewrite El at 1. cbn [nth].
      unfold wrap32. lia. }
    rewrite Hoffi. destruct (Z.of_nat i <? Z.of_nat (length l)) eqn:E; [|lia].
    rewrite Nat2Z.id, Hnth. reflexivity.
Qed.

(* a TSN identifies at most one queued chunk *)
Lemma ifq_tsn_unique q c c' : ifq_ok q ->
  In c (ifq_list q) -> In c' (ifq_list q) -> ic_tsn c = ic_tsn c' -> c = c'.
Proof.
  intros Hok Hin Hin' Heq.
  assert (Hu : ifq_u32 (ic_tsn c)).
  { destruct Hok as (_ & (Hcon & _ & _) & _). destruct (In_nth _ c ic_zero Hin) as (i & Hi & Hnth).
    rewrite <- Hnth, Hcon by assumption. unfold ifq_u32, wrap32. lia. }
  pose proof (proj2 (ifq_get_spec q (ic_tsn c) c Hok Hu) (conj Hin eq_refl)) as H1.
  pose proof (proj2 (ifq_get_spec q (ic_tsn c) c' Hok Hu) (conj Hin' (eq_sym Heq))) as H2.
  congruence.
Qed.

Lemma ifq_get_none_spec q t : ifq_ok q -> ifq_u32 t ->
  (ifq_get q t = None <-> forall c, In c (ifq_list q) -> ic_tsn c <> t).
Proof.
  intros Hok Ht. split.
  - intros Hn c Hin Heq. pose proof (proj2 (ifq_get_spec q t c Hok Ht) (conj Hin Heq)). congruence.
  - intros H. destruct (ifq_get q t) as [c|] eqn:E; [|reflexivity].
    apply (ifq_get_spec q t c Hok Ht) in E. destruct E as (Hin & Heq). destruct (H c Hin Heq).
Qed.

(* ---------- markAsAcked ---------- *)

Lemma rg_hd_nth {A} (l : list A) d : hd d l = nth 0 l d.
Proof. destruct l; reflexivity. Qed.

Lemma ifq_get_some_idx q t c : rg_ok (ifq_chunks q) -> ifq_get q t = Some c ->
  0 <= ifq_offset q t < rg_count (ifq_chunks q) /\
  c = nth (Z.to_nat (ifq_offset q t)) (ifq_list q) ic_zero.
Proof.
  intros Hok H. unfold ifq_get, rg_len in H.
  destruct (rg_count (ifq_chunks q) =? 0) eqn:E0; [discriminate|].
  destruct (rg_count (ifq_chunks q) <=? ifq_offset q t) eqn:E1; [discriminate|].
  assert (Hoff : 0 <= ifq_offset q t) by (unfold ifq_offset, wrap32; lia).
  rewrite (rg_at_spec _ ic_zero) in H by (auto; lia). injection H as <-. split; [lia | reflexivity].
Qed.

Lemma ifq_mark_unfold q t c : ifq_get q t = Some c ->
  ifq_mark_as_acked q t =
  (ifq_mk (rg_set_at (ifq_chunks q) (ifq_offset q t) (ic_set_acked c)) (ifq_nbytes q - ic_len c), ic_len c).
Proof. intros H. unfold ifq_mark_as_acked. rewrite H. reflexivity. Qed.

(* list-level effect; needs only the ring invariant *)
Lemma ifq_mark_as_acked_list q t : rg_ok (ifq_chunks q) ->
  match ifq_get q t with
  | None => ifq_mark_as_acked q t = (q, 0)
  | Some c =>
      let q' := fst (ifq_mark_as_acked q t) in
      let i := Z.to_nat (ifq_offset q t) in
      snd (ifq_mark_as_acked q t) = ic_len c /\
      rg_ok (ifq_chunks q') /\
      ifq_nbytes q' = ifq_nbytes q - ic_len c /\
      (i < length (ifq_list q))%nat /\ nth i (ifq_list q) ic_zero = c /\
      ifq_list q' = rg_upd_nat (ifq_list q) i (ic_set_acked c)
  end.
Proof.
  intros Hok. destruct (ifq_get q t) as [c|] eqn:E.
  - rewrite (ifq_mark_unfold q t c E). cbn [fst snd ifq_chunks ifq_nbytes]. cbv zeta.
    destruct (ifq_get_some_idx q t c Hok E) as (Hoff & Hc).
    destruct (rg_set_at_spec (ifq_chunks q) (ifq_offset q t) (ic_set_acked c) Hok Hoff) as (Hok' & HL & _).
    pose proof (rg_to_list_length (ifq_chunks q) (proj1 Hok)) as HLen.
    unfold ifq_list in *. cbn [ifq_chunks].
    split; [reflexivity|]. split; [exact Hok'|]. split; [reflexivity|]. split; [lia|]. split; [symmetry; exact Hc | exact HL].
  - unfold ifq_mark_as_acked. rewrite E. reflexivity.
Qed.

Lemma ifq_upd_tsn l i x j : (i < length l)%nat -> ic_tsn x = ic_tsn (nth i l ic_zero) ->
  ic_tsn (nth j (rg_upd_nat l i x) ic_zero) = ic_tsn (nth j l ic_zero).
Proof.
  intros Hi Hx. rewrite rg_upd_nth by assumption. destruct (Nat.eqb j i) eqn:E; [|reflexivity].
  apply Nat.eqb_eq in E. subst j. exact Hx.
Qed.

(* replacing a chunk by one with the same TSN, a valid length and a total that is adjusted
   accordingly keeps the list invariant *)
Lemma ifq_list_ok_upd l i x : ifq_list_ok l -> (i < length l)%nat ->
  ic_tsn x = ic_tsn (nth i l ic_zero) -> ifq_chunk_ok x -> ifq_list_ok (rg_upd_nat l i x).
Proof.
  intros (Hcon & Hlen & Hch) Hi Hx Hxok. split; [|split].
  - intros j Hj. rewrite rg_upd_length in Hj. rewrite !ifq_upd_tsn by assumption. apply Hcon. exact Hj.
  - rewrite rg_upd_length. exact Hlen.
  - intros c Hc. destruct (rg_upd_In _ _ _ _ Hc) as [->|Hin]; auto.
Qed.

Lemma ic_set_acked_ok c : ifq_chunk_ok (ic_set_acked c) /\ ic_tsn (ic_set_acked c) = ic_tsn c /\
  ic_len (ic_set_acked c) = 0 /\ ic_set_acked (ic_set_acked c) = ic_set_acked c.
Proof. unfold ifq_chunk_ok, ic_set_acked. cbn. repeat split; auto; lia. Qed.

Lemma ifq_mark_as_acked_ok q t : ifq_ok q -> ifq_ok (fst (ifq_mark_as_acked q t)).
Proof.
  intros (Hok & HLok & Hsum). pose proof (ifq_mark_as_acked_list q t Hok) as H.
  destruct (ifq_get q t) as [c|] eqn:E.
  - cbv zeta in H. destruct H as (_ & Hok' & Hnb & Hi & Hnth & HL).
    destruct (ic_set_acked_ok c) as (Hcok & Htsn & Hl0 & _).
    unfold ifq_ok. rewrite HL, Hnb. split; [assumption|]. split.
    + apply ifq_list_ok_upd; auto. rewrite Hnth. exact Htsn.
    + rewrite ifq_sum_upd by assumption. rewrite Hnth, Hl0, Hsum. lia.
  - rewrite H. cbn [fst]. exact (conj Hok (conj HLok Hsum)).
Qed.

(* the chunk with TSN t is queued: its (remaining) length is returned and released, the chunk is
   now acked with retransmit = false and an empty payload, nothing else changes *)
Lemma ifq_mark_as_acked_present q c : ifq_ok q -> In c (ifq_list q) ->
  let r := ifq_mark_as_acked q (ic_tsn c) in
  snd r = ic_len c /\
  ifq_nbytes (fst r) = ifq_nbytes q - snd r /\
  ifq_ok (fst r) /\
  exists i, (i < length (ifq_list q))%nat /\ nth i (ifq_list q) ic_zero = c /\
            ifq_list (fst r) = rg_upd_nat (ifq_list q) i (ic_set_acked c).
Proof.
  intros Hok Hin. cbv zeta.
  assert (Hu : ifq_u32 (ic_tsn c)).
  { destruct Hok as (_ & (Hcon & _ & _) & _). destruct (In_nth _ c ic_zero Hin) as (i & Hi & Hnth).
    rewrite <- Hnth, Hcon by assumption. unfold ifq_u32, wrap32. lia. }
  pose proof (proj2 (ifq_get_spec q (ic_tsn c) c Hok Hu) (conj Hin eq_refl)) as Hget.
  pose proof (ifq_mark_as_acked_ok q (ic_tsn c) Hok) as Hok'.
  pose proof (ifq_mark_as_acked_list q (ic_tsn c) (proj1 Hok)) as H. rewrite Hget in H. cbv zeta in H.
  destruct H as (Hs & _ & Hnb & Hi & Hnth & HL).
  rewrite Hs. split; [reflexivity|]. split; [exact Hnb|]. split; [exact Hok'|].
  exists (Z.to_nat (ifq_offset q (ic_tsn c))). auto.
Qed.

(* no chunk with TSN t: returns 0, state unchanged *)
Lemma ifq_mark_as_acked_absent q t : ifq_ok q -> ifq_u32 t ->
  (forall c, In c (ifq_list q) -> ic_tsn c <> t) -> ifq_mark_as_acked q t = (q, 0).
Proof.
  intros Hok Ht H. apply (ifq_get_none_spec q t Hok Ht) in H.
  unfold ifq_mark_as_acked. rewrite H. reflexivity.
Qed.

Lemma rg_set_at_idem {A} (r : rg A) i x : rg_set_at (rg_set_at r i x) i x = rg_set_at r i x.
Proof.
  unfold rg_set_at, rg_cap. cbn [rg_buf rg_head rg_tail rg_count]. rewrite rg_wr_length. f_equal.
  unfold rg_wr. destruct (_ <? 0); [reflexivity | apply rg_upd_idem].
Qed.

(* acknowledging the same TSN again returns 0 and changes nothing at all: released exactly once *)
Lemma ifq_mark_as_acked_twice q t : ifq_ok q -> ifq_u32 t ->
  ifq_mark_as_acked (fst (ifq_mark_as_acked q t)) t = (fst (ifq_mark_as_acked q t), 0).
Proof.
  intros Hok Ht. pose proof (ifq_mark_as_acked_ok q t Hok) as Hok'.
  pose proof (ifq_mark_as_acked_list q t (proj1 Hok)) as H.
  destruct (ifq_get q t) as [c|] eqn:E.
  - cbv zeta in H. destruct H as (_ & Hrok' & _ & Hi & Hnth & HL).
    destruct (ic_set_acked_ok c) as (_ & Htsn & Hl0 & Hidem).
    destruct (proj1 (ifq_get_spec q t c Hok Ht) E) as (Hin & Hct).
    destruct (ifq_get_some_idx q t c (proj1 Hok) E) as (Hoff & _).
    set (x := ic_set_acked c) in *. set (q' := fst (ifq_mark_as_acked q t)) in *.
    assert (Hget' : ifq_get q' t = Some x).
    { apply (ifq_get_spec q' t x Hok' Ht). split; [|congruence].
      rewrite HL. rewrite <- (rg_upd_nth_same (ifq_list q) _ x ic_zero Hi) at 1.
      apply nth_In. rewrite rg_upd_length. exact Hi. }
    assert (Hoff' : ifq_offset q' t = ifq_offset q t).
    { destruct (ifq_get_some_idx q' t x (proj1 Hok') Hget') as (Hoffq' & _).
      unfold ifq_offset. rewrite !rg_front_spec by (auto; try apply Hok; lia).
      fold (ifq_list q') (ifq_list q). rewrite !rg_hd_nth, HL, ifq_upd_tsn; auto.
      rewrite Hnth. exact Htsn. }
    rewrite (ifq_mark_unfold q' t x Hget'), Hoff', Hidem, Hl0.
    unfold q'. rewrite (ifq_mark_unfold q t c E). cbn [fst ifq_chunks ifq_nbytes].
    fold x. rewrite rg_set_at_idem, Z.sub_0_r. reflexivity.
  - rewrite H. cbn [fst]. exact H.
Qed.

(* ---------- pop ---------- *)

Lemma ifq_list_ok_tl c l : ifq_list_ok (c :: l) -> ifq_list_ok l.
Proof.
  intros (Hcon & Hlen & Hch). apply ifq_u32_range in Hlen. cbn [length] in Hlen. split; [|split].
  - intros i Hi.
    pose proof (Hcon (S i) ltac:(cbn [length]; lia)) as Hi1.
    pose proof (Hcon 1%nat ltac:(cbn [length]; lia)) as H1.
    cbn [nth] in Hi1, H1. rewrite Hi1. destruct l as [|c1 l1]; [cbn [length] in Hi; lia|].
    cbn [nth] in H1 |- *. rewrite H1. unfold wrap32. rewrite Z.add_mod_idemp_l by lia. f_equal. lia.
  - apply ifq_u32_range. lia.
  - intros x Hx. apply Hch. right. exact Hx.
Qed.

(* pop removes exactly the front chunk when the TSN matches and is the identity otherwise *)
Lemma ifq_pop_spec q t : ifq_ok q ->
  match ifq_list q with
  | [] => ifq_pop q t = (q, None)
  | c :: l' =>
      if t =? ic_tsn c then
        snd (ifq_pop q t) = Some c /\
        ifq_list (fst (ifq_pop q t)) = l' /\
        ifq_nbytes (fst (ifq_pop q t)) = ifq_nbytes q - ic_len c /\
        ifq_ok (fst (ifq_pop q t))
      else ifq_pop q t = (q, None)
  end.
Proof.
  intros (Hok & HLok & Hsum). pose proof Hok as (Hwf & Hnn).
  pose proof (rg_to_list_length (ifq_chunks q) Hwf) as HLen.
  unfold ifq_list in *. unfold ifq_pop, rg_len.
  destruct (rg_to_list (ifq_chunks q)) as [|c l'] eqn:El; cbn [length] in HLen.
  - destruct (0 <? rg_count (ifq_chunks q)) eqn:E; [lia | reflexivity].
  - assert (Hpos : 0 < rg_count (ifq_chunks q)) by lia.
    destruct (0 <? rg_count (ifq_chunks q)) eqn:E; [|lia]. cbn [andb].
    rewrite rg_front_spec by assumption. rewrite El. cbn [hd].
    destruct (t =? ic_tsn c) eqn:Et; [|reflexivity].
    destruct (rg_pop_front_spec ic_zero (ifq_chunks q) Hok Hpos) as (Hfst & Hsnd & Hok' & _).
    destruct (rg_pop_front ic_zero (ifq_chunks q)) as [c' r'] eqn:Ep. cbn [fst snd] in *.
    rewrite El in Hfst, Hsnd. cbn [hd tl] in Hfst, Hsnd. subst c'.
    cbn [ifq_chunks ifq_nbytes]. split; [reflexivity|]. split; [exact Hsnd|]. split; [reflexivity|].
    unfold ifq_ok, ifq_list. cbn [ifq_chunks ifq_nbytes]. rewrite Hsnd.
    split; [exact Hok'|]. split; [exact (ifq_list_ok_tl c l' HLok)|].
    rewrite Hsum. cbn [ifq_sum]. lia.
Qed.

Lemma ifq_pop_ok q t : ifq_ok q -> ifq_ok (fst (ifq_pop q t)).
Proof.
  intros Hok. pose proof (ifq_pop_spec q t Hok) as H.
  destruct (ifq_list q) as [|c l']; [rewrite H; exact Hok|].
  destruct (t =? ic_tsn c); [apply H | rewrite H; exact Hok].
Qed.

(* ---------- markAllToRetrasmit ---------- *)

Definition ifq_rtx_f (c : ichunk) : ichunk :=
  if ic_acked c || ic_aband c then c else ic_set_rtx c.

Lemma ifq_mark_loop_spec n : forall i r, rg_ok r -> 0 <= i -> i + Z.of_nat n = rg_count r ->
  let r' := ifq_mark_loop n i r in
  rg_ok r' /\ length (rg_to_list r') = length (rg_to_list r) /\
  forall j, nth j (rg_to_list r') ic_zero =
            if (Z.to_nat i <=? j)%nat && (j <? length (rg_to_list r))%nat
            then ifq_rtx_f (nth j (rg_to_list r) ic_zero) else nth j (rg_to_list r) ic_zero.
Proof.
  induction n as [|n IH]; intros i r Hok Hi Hn; cbv zeta.
  - cbn [ifq_mark_loop]. split; [assumption|]. split; [reflexivity|]. intros j.
    pose proof (rg_to_list_length r (proj1 Hok)) as HLen.
    destruct (_ <=? _)%nat eqn:E1, (_ <? _)%nat eqn:E2; cbn [andb]; try reflexivity. lia.
  - cbn [ifq_mark_loop].
    pose proof (rg_to_list_length r (proj1 Hok)) as HLen.
    rewrite (rg_at_spec r ic_zero i) by (auto; lia).
    set (c := nth (Z.to_nat i) (rg_to_list r) ic_zero).
    set (r1 := if ic_acked c || ic_aband c then r else rg_set_at r i (ic_set_rtx c)).
    assert (H1 : rg_ok r1 /\ rg_count r1 = rg_count r /\
                 rg_to_list r1 = rg_upd_nat (rg_to_list r) (Z.to_nat i) (ifq_rtx_f c)).
    { unfold r1, ifq_rtx_f. destruct (ic_acked c || ic_aband c).
      - split; [assumption|]. split; [reflexivity|]. unfold c. symmetry. apply rg_upd_self.
      - destruct (rg_set_at_spec r i (ic_set_rtx c) Hok ltac:(lia)) as (Ha & Hb & Hc & _). auto. }
    destruct H1 as (Hok1 & Hcnt1 & HL1).
    specialize (IH (i + 1) r1 Hok1 ltac:(lia) ltac:(lia)). cbv zeta in IH.
    destruct IH as (Hok' & HLen' & Hnth'). split; [assumption|].
    rewrite HL1, rg_upd_length in HLen'. split; [assumption|].
    intros j. rewrite Hnth', HL1, rg_upd_length. rewrite rg_upd_nth by lia. fold c.
    destruct (Nat.eqb j (Z.to_nat i)) eqn:Ej.
    + apply Nat.eqb_eq in Ej. subst j.
      destruct (_ <=? _)%nat eqn:E1; [lia|].
      destruct (Z.to_nat i <=? Z.to_nat i)%nat eqn:E3; [|lia].
      destruct (_ <? _)%nat eqn:E2; [|lia]. cbn [andb]. reflexivity.
    + apply Nat.eqb_neq in Ej.
      destruct (Z.to_nat (i + 1) <=? j)%nat eqn:E1, (Z.to_nat i <=? j)%nat eqn:E3,
               (j <? length (rg_to_list r))%nat eqn:E2; cbn [andb]; try reflexivity; lia.
Qed.

(* markAllToRetrasmit = map over the queue: retransmit := true on every chunk that is neither
   acked nor abandoned; nothing else changes *)
Lemma ifq_mark_all_spec q : rg_ok (ifq_chunks q) ->
  rg_ok (ifq_chunks (ifq_mark_all_to_retransmit q)) /\
  ifq_list (ifq_mark_all_to_retransmit q) = map ifq_rtx_f (ifq_list q) /\
  ifq_nbytes (ifq_mark_all_to_retransmit q) = ifq_nbytes q.
Proof.
  intros Hok. pose proof Hok as (Hwf & Hnn).
  pose proof (ifq_mark_loop_spec (Z.to_nat (rg_len (ifq_chunks q))) 0 (ifq_chunks q) Hok ltac:(lia)
                ltac:(unfold rg_len; lia)) as H. cbv zeta in H. destruct H as (Hok' & HLen & Hnth).
  unfold ifq_mark_all_to_retransmit, ifq_list. cbn [ifq_chunks ifq_nbytes].
  split; [assumption|]. split; [|reflexivity].
  apply nth_ext with (d := ic_zero) (d' := ifq_rtx_f ic_zero).
  - rewrite map_length. exact HLen.
  - intros j Hj. rewrite HLen in Hj. rewrite Hnth, map_nth.
    destruct (_ <=? _)%nat eqn:E1; [|cbn in E1; lia].
    destruct (_ <? _)%nat eqn:E2; [|lia]. reflexivity.
Qed.

Lemma ifq_rtx_f_same c : ic_tsn (ifq_rtx_f c) = ic_tsn c /\ ic_len (ifq_rtx_f c) = ic_len c /\
  ic_acked (ifq_rtx_f c) = ic_acked c /\ ic_aband (ifq_rtx_f c) = ic_aband c /\ ic_id (ifq_rtx_f c) = ic_id c.
Proof. unfold ifq_rtx_f, ic_set_rtx. destruct (_ || _); cbn; auto. Qed.

Lemma ifq_mark_all_ok q : ifq_ok q -> ifq_ok (ifq_mark_all_to_retransmit q).
Proof.
  intros (Hok & (Hcon & Hlen & Hch) & Hsum).
  destruct (ifq_mark_all_spec q Hok) as (Hok' & HL & Hnb).
  unfold ifq_ok. rewrite HL, Hnb. split; [assumption|].
  assert (Hnth : forall j, (j < length (ifq_list q))%nat ->
            nth j (map ifq_rtx_f (ifq_list q)) ic_zero = ifq_rtx_f (nth j (ifq_list q) ic_zero)).
  { intros j Hj. rewrite (nth_indep _ ic_zero (ifq_rtx_f ic_zero)) by (rewrite map_length; exact Hj).
    apply map_nth. }
  split; [split; [|split]|].
  - intros i Hi. rewrite map_length in Hi. rewrite !Hnth by lia.
    rewrite !(proj1 (ifq_rtx_f_same _)). apply Hcon. exact Hi.
  - rewrite map_length. exact Hlen.
  - intros c Hc. apply in_map_iff in Hc. destruct Hc as (c0 & <- & Hin).
    destruct (ifq_rtx_f_same c0) as (_ & Hl & Ha & _). unfold ifq_chunk_ok. rewrite Hl, Ha. apply Hch. exact Hin.
  - rewrite Hsum. clear. induction (ifq_list q) as [|a l IH]; [reflexivity|].
    cbn [map ifq_sum]. rewrite <- IH. rewrite (proj1 (proj2 (ifq_rtx_f_same a))). reflexivity.
Qed.

(* ---------- all histories ---------- *)

Definition ifq_op_pre (q : ifq) (o : ifq_op) : Prop :=
  match o with ifq_op_push c => ifq_push_pre q c | _ => True end.

Fixpoint ifq_run_pre (q : ifq) (ops : list ifq_op) : Prop :=
  match ops with
  | [] => True
  | o :: ops' => ifq_op_pre q o /\ ifq_run_pre (ifq_step q o) ops'
  end.

Lemma ifq_step_ok q o : ifq_ok q -> ifq_op_pre q o -> ifq_ok (ifq_step q o).
Proof.
  intros Hok Hpre. destruct o; cbn [ifq_step ifq_op_pre] in *;
    auto using ifq_push_ok, ifq_pop_ok, ifq_mark_as_acked_ok, ifq_mark_all_ok.
Qed.

Lemma ifq_run_ok_from ops : forall q, ifq_ok q -> ifq_run_pre q ops -> ifq_ok (ifq_run q ops).
Proof.
  induction ops as [|o ops IH]; intros q Hok Hpre; [exact Hok|].
  change (ifq_run q (o :: ops)) with (ifq_run (ifq_step q o) ops).
  destruct Hpre as (H1 & H2). apply IH; [apply ifq_step_ok|]; assumption.
Qed.

Lemma ifq_ok_nbytes q : ifq_ok q ->
  0 <= ifq_get_num_bytes q /\
  ifq_get_num_bytes q = ifq_sum_unacked (ifq_list q) /\
  ifq_size q = Z.of_nat (length (ifq_list q)).
Proof.
  intros (Hok & (Hcon & Hlen & Hch) & Hsum). unfold ifq_get_num_bytes, ifq_size.
  rewrite Hsum, ifq_sum_unacked_eq by assumption.
  split; [apply ifq_sum_nonneg; assumption|]. split; [reflexivity|].
  apply rg_len_spec. assumption.
Qed.

(* every history of the in-flight queue that pushes consecutive TSNs keeps the invariant; the
   byte counter is the sum of the payload lengths of the un-acked chunks and never negative *)
Lemma ifq_history ops : ifq_run_pre ifq_new ops ->
  let q := ifq_run ifq_new ops in
  ifq_ok q /\ 0 <= ifq_get_num_bytes q /\ ifq_get_num_bytes q = ifq_sum_unacked (ifq_list q) /\
  ifq_size q = Z.of_nat (length (ifq_list q)).
Proof.
  intros Hpre. cbv zeta.
  pose proof (ifq_run_ok_from ops ifq_new (proj1 ifq_new_ok) Hpre) as Hok.
  split; [assumption | apply ifq_ok_nbytes; assumption].
Qed.

(* ------------------------------------------------------------------------------------------ *)
(* what the faithful model refutes                                                             *)
(* ------------------------------------------------------------------------------------------ *)

Ltac ifq_closed := vm_compute; repeat split; intros; try reflexivity; try discriminate; auto.

(* payload_queue.go says "get returns reference to chunkPayloadData with the given TSN value", but
   get never compares the TSN of the chunk it finds.  After pushNoCheck of TSN 10 and TSN 20
   (pushNoCheck checks nothing): get(11) returns the chunk with TSN 20, get(20) finds nothing
   although that chunk is queued, and markAsAcked(11) releases the bytes of the chunk with TSN 20.
   Unreachable from the association, which only pushes consecutive TSNs (ifq_get_spec). *)
Lemma ifq_get_checks_tsn_refuted :
  exists c1 c2 t,
    let q := ifq_push_no_check (ifq_push_no_check ifq_new c1) c2 in
    rg_ok (ifq_chunks q) /\ ifq_list q = [c1; c2] /\ t <> ic_tsn c2 /\
    ifq_get q t = Some c2 /\
    ifq_get q (ic_tsn c2) = None /\
    ifq_mark_as_acked q t = (fst (ifq_mark_as_acked q t), ic_len c2) /\
    ifq_nbytes (fst (ifq_mark_as_acked q t)) = ifq_nbytes q - ic_len c2 /\ 0 < ic_len c2.
Proof.
  exists (ic_mk 1 10 100 false false false), (ic_mk 2 20 7 false false false), 11. ifq_closed.
Qed.

(* PopFront has no emptiness guard: popping the fresh ring gives Len() = -1; a following PushBack
   brings Len() back to 0 and the pushed element is not in the queue. *)
Lemma rg_pop_front_guard_refuted :
  exists r : rg Z,
    rg_ok r /\ rg_len r = 0 /\
    fst (rg_pop_front 0 r) = 0 /\
    rg_len (snd (rg_pop_front 0 r)) = -1 /\
    rg_head (snd (rg_pop_front 0 r)) = 1 /\
    let r2 := rg_push_back 0 (snd (rg_pop_front 0 r)) 7 in
    rg_len r2 = 0 /\ rg_to_list r2 = [] /\ rg_front 0 r2 = 0 /\ nth 0 (rg_buf r2) 0 = 7.
Proof. exists (rg_new 0 0). ifq_closed. Qed.
