"""Helpers shared by the properties that use the association simulator (go/inpkg/zz_verif_sim*_test.go)."""
import os
import re
import vlib


def classify(prop):
    def f(line):
        m = re.search(r"\(([a-z0-9-]+)\)", line)
        return "sim-%s-%s" % (prop, m.group(1)) if m else "sim-%s" % prop
    return f


def sim_monitor(ctx, name, test, env, summary_prefix, timeout=3000):
    """Run a simulator test and collect the SIMFAIL lines of this property as concrete failing inputs."""
    return vlib.monitor(ctx, name, test, env, fail_prefixes=("SIMFAIL prop=%s " % ctx.prop,),
                        classify=classify(ctx.prop), summary_prefix=summary_prefix, timeout=timeout)


def transfer(ctx, quick=60, thorough=2500, events=250):
    return sim_monitor(ctx, "sim-transfer", "TestVerifSimTransfer",
                       {"VERIF_N": ctx.scale(quick, thorough), "VERIF_EVENTS": events}, "SIMTRANSFER")


def wire_sack_monitor(ctx):
    """P_C05 on the wire history of simulated runs (SIMFAIL prop=C05 lines of the transfer scenarios)."""
    return transfer(ctx)


def hs_step_run(ctx, name, test, env, summary_prefix, timeout=3000):
    """A handshake-simulator run: step-commuting trace replayed on the extracted handshake model, plus the
    SIMFAIL lines of ctx.prop as concrete failing inputs (same shape as C04's own runner)."""
    trace = os.path.join(ctx.tmp, name + ".trace")
    e = dict(env)
    e.update(VERIF_OUT=trace, VERIF_SEED=ctx.seed)
    r = vlib.run_harness(test, e, timeout=timeout)
    fails = [l for l in r["out"].splitlines() if l.startswith("SIMFAIL prop=%s " % ctx.prop)]
    summ = [l for l in r["out"].splitlines() if l.startswith(summary_prefix)]
    cls = classify(ctx.prop)
    for l in fails:
        ctx.concrete.append(dict(property=ctx.prop, what=l[:600], key=cls(l), monitor=name, test=test, env=e))
    ctx.corr.append(dict(name=name + "-monitor", ok=not fails and r["rc"] == 0, records=0, failures=len(fails),
                         summary=summ[-1][:900] if summ else "", wall_s=round(r["wall"], 2)))
    if r["rc"] != 0 and not fails:
        ctx.broken.append(("correspondence", name, "harness run failed (rc=%s): %s" % (r["rc"], r["out"][-1500:])))
        return
    if not os.path.exists(trace):
        ctx.broken.append(("correspondence", name, "no trace written"))
        return
    c = vlib.run_cmp("hs", trace, timeout=timeout)
    ok = c["rc"] == 0 and not c["mismatches"] and c["summary"].get("records", 0) > 0
    ctx.corr.append(dict(name=name, ok=ok, records=c["summary"].get("records", 0), cases=c["summary"].get("cases", 0),
                         mismatches=len(c["mismatches"]), wall_s=round(c["wall"], 2), env=e))
    if not ok:
        ctx.broken.append(("correspondence", name, "\n".join(c["mismatches"][:5]) or c["raw"][:1500]))
