(* Write-side API contract of stream.go (model coq/model/StreamW.v). *)
From Coq Require Import ZArith Bool List Lia.
From Coq Require Import ZifyBool.
From Sctp Require Import Gen SnaProofs StreamW.
Import ListNotations.
Open Scope Z_scope.
Ltac Zify.zify_post_hook ::= Z.div_mod_to_equations.

Definition sw_wf (st : sw_stream) : Prop :=
  in16 (sw_ssn st) /\ in32 (sw_omid st) /\ in32 (sw_umid st).

(* rejected / failed calls are identities on the stream state and enqueue nothing *)
Lemma sw_too_large_identity st n ppi il maxp maxmsg ok :
  n > maxmsg -> sw_write st n ppi il maxp maxmsg ok = Some (st, SwTooLarge, []).
Proof. intros H. unfold sw_write. replace (n >? maxmsg) with true by lia. reflexivity. Qed.

Lemma sw_closed_identity st n ppi il maxp maxmsg ok :
  n <= maxmsg -> sw_state st <> sw_open -> sw_write st n ppi il maxp maxmsg ok = Some (st, SwClosed, []).
Proof.
  intros H Hs. unfold sw_write. replace (n >? maxmsg) with false by lia.
  replace (sw_state st =? sw_open) with false by lia. reflexivity.
Qed.

Lemma sw_empty_identity st ppi il maxp maxmsg ok :
  0 <= maxmsg -> sw_state st = sw_open -> sw_write st 0 ppi il maxp maxmsg ok = Some (st, SwOk 0, []).
Proof.
  intros H Hs. unfold sw_write. replace (0 >? maxmsg) with false by lia.
  rewrite Hs. reflexivity.
Qed.

(* the fragmentation loop never changes the stream record: packetize's effect on the counters is
   independent of the fragments *)
Lemma sw_packetize_state st n ppi il maxp st' chunks un :
  sw_packetize st n ppi il maxp = Some (st', chunks, un) ->
  un = (negb (ppi =? sw_ppi_dcep) && sw_unordered st)%bool /\
  sw_buffered st' = sw_buffered st + n /\ sw_state st' = sw_state st /\ sw_unordered st' = sw_unordered st /\
  (if il then
     (if un then sw_umid st' = wrap32 (sw_umid st + 1) /\ sw_omid st' = sw_omid st
      else sw_omid st' = wrap32 (sw_omid st + 1) /\ sw_umid st' = sw_umid st) /\ sw_ssn st' = sw_ssn st
   else sw_omid st' = sw_omid st /\ sw_umid st' = sw_umid st /\
        sw_ssn st' = (if un then sw_ssn st else wrap16 (sw_ssn st + 1))).
Proof.
  unfold sw_packetize. destruct (sw_frags _ _ _ _ _ _) as [cs|]; [|discriminate].
  intros H. inversion H; subst. clear H.
  destruct il; destruct (negb (ppi =? sw_ppi_dcep) && sw_unordered st)%bool; cbn; repeat split; reflexivity.
Qed.

(* a write whose hand-over to the association fails is rolled back exactly *)
Lemma sw_senderr_identity st n ppi il maxp maxmsg st' r cs :
  sw_wf st -> sw_write st n ppi il maxp maxmsg false = Some (st', r, cs) ->
  st' = st /\ cs = [] /\ r <> SwOk n \/ (n = 0 /\ st' = st /\ cs = []).
Proof.
  intros (W1 & W2 & W3). unfold sw_write.
  destruct (n >? maxmsg); [intros H; inversion H; subst; left; repeat split; discriminate|].
  destruct (negb (sw_state st =? sw_open)); [intros H; inversion H; subst; left; repeat split; discriminate|].
  destruct (n =? 0) eqn:E0; [intros H; inversion H; subst; right; repeat split; lia|].
  destruct (sw_packetize st n ppi il maxp) as [[[st1 chunks] un]|] eqn:Ep; [|discriminate].
  apply sw_packetize_state in Ep. destruct Ep as (Eu & Eb & Es & Eun & Ec).
  intros H. inversion H; subst st' r cs. clear H. left. split; [|split; [reflexivity|discriminate]].
  destruct st as [ssn omid umid unord buf state]; destruct st1 as [ssn1 omid1 umid1 unord1 buf1 state1]; cbn in *.
  unfold in16, in32, wrap16, wrap32 in *.
  destruct il.
  - destruct un; destruct Ec as [[E1 E2] E3]; subst; f_equal; lia.
  - destruct Ec as (E1 & E2 & E3). destruct un; subst; cbn; f_equal; lia.
Qed.

(* ---------- fragmentation ---------- *)

Definition sw_sum (cs : list sw_chunk) : Z := fold_right (fun c a => swc_len c + a) 0 cs.

Lemma sw_frags_spec : forall fuel maxp off remaining fsn mk cs,
  0 < maxp < 4294967296 -> 0 <= remaining -> 0 <= off -> off + remaining < 4294967296 -> 0 <= fsn ->
  fsn + remaining < 4294967296 ->
  sw_frags fuel maxp off remaining fsn mk = Some cs ->
  (* lengths, offsets and fragment numbers are what the constructor received, in order *)
  exists lens,
    cs = (fix build (l : list Z) (o f : Z) : list sw_chunk :=
            match l with
            | [] => []
            | x :: r => mk o x f (o =? 0) (match r with [] => true | _ => false end) :: build r (o + x) (f + 1)
            end) lens off fsn /\
    Forall (fun x => 0 < x <= maxp) lens /\ fold_right Z.add 0 lens = remaining.
Proof.
  induction fuel as [|f IH]; intros maxp off remaining fsn mk cs Hm Hr Ho Hb Hf Hfb H; cbn [sw_frags] in H.
  - destruct (remaining =? 0) eqn:E; [|discriminate]. inversion H; subst. exists []. repeat split; [constructor|cbn; lia].
  - destruct (remaining =? 0) eqn:E.
    + inversion H; subst. exists []. repeat split; [constructor|cbn; lia].
    + set (fr := min32 maxp remaining) in *.
      assert (Hfr : 0 < fr <= maxp /\ fr <= remaining) by (unfold fr, min32; destruct (maxp <? remaining) eqn:E2; lia).
      assert (E1 : wrap32 (off + fr) = off + fr) by (unfold wrap32; lia).
      assert (E2 : wrap32 (remaining - fr) = remaining - fr) by (unfold wrap32; lia).
      assert (E3 : wrap32 (fsn + 1) = fsn + 1) by (unfold wrap32; lia).
      rewrite E1, E2, E3 in H.
      destruct (sw_frags f maxp (off + fr) (remaining - fr) (fsn + 1) mk) as [r|] eqn:Er; [|discriminate].
      inversion H; subst cs. clear H.
      destruct (IH maxp (off + fr) (remaining - fr) (fsn + 1) mk r Hm ltac:(lia) ltac:(lia) ltac:(lia) ltac:(lia) ltac:(lia) Er)
        as (lens & Ec & Fl & Sl).
      exists (fr :: lens). split; [|split].
      * cbn. f_equal; [|assumption]. f_equal.
        destruct lens as [|x xs]; [cbn in Sl; destruct (remaining - fr =? 0) eqn:Ez; lia|].
        inversion Fl; subst. cbn in Sl.
        assert (0 <= fold_right Z.add 0 xs).
        { clear - H2. induction H2; cbn; lia. }
        destruct (remaining - fr =? 0) eqn:Ez; lia.
      * constructor; [lia|assumption].
      * cbn. lia.
Qed.

(* ---------- blocking-write gate ---------- *)
Definition sw_gate_inv (g : sw_gate) : Prop :=
  0 <= swg_user_chunks g /\ (swg_established g = true -> swg_write_pending g = false -> swg_user_chunks g = 0).

Lemma sw_gate_inv_step g e : sw_gate_inv g ->
  match e with GWrite k => 1 <= k | GGather j => 0 <= j | GUnblock => True end ->
  sw_gate_inv (fst (sw_gate_step g e)).
Proof.
  intros [Hn Hi] He. destruct e as [k|j|]; unfold sw_gate_step, sw_gate_inv.
  - destruct (swg_established g) eqn:Ee; cbn [negb fst]; [|split; [assumption|rewrite Ee; discriminate]].
    destruct (swg_write_pending g) eqn:Ew; cbn [fst]; [split; [assumption|rewrite Ew; discriminate]|].
    cbn. split; [lia|discriminate].
  - cbn [fst swg_user_chunks swg_established swg_write_pending]. split; [lia|]. intros Hes.
    destruct ((0 <? Z.min j (swg_user_chunks g)) && (swg_user_chunks g - Z.min j (swg_user_chunks g) =? 0))%bool eqn:E.
    + intros _. lia.
    + intros Hw. specialize (Hi Hes Hw). lia.
  - cbn. split; [assumption|discriminate].
Qed.

Lemma sw_gate_inv_run : forall evs g, sw_gate_inv g ->
  Forall (fun e => match e with GWrite k => 1 <= k | GGather j => 0 <= j | GUnblock => True end) evs ->
  sw_gate_inv (fold_left (fun g e => fst (sw_gate_step g e)) evs g).
Proof.
  induction evs as [|e r IH]; intros g Hg Hf; cbn [fold_left]; [assumption|].
  inversion Hf; subst. apply IH; [apply sw_gate_inv_step; assumption|assumption].
Qed.

(* a blocking write is admitted only when every chunk of the earlier writes has left the pending queue *)
Lemma sw_gate_admit_means_drained evs g k :
  sw_gate_inv g ->
  Forall (fun e => match e with GWrite k => 1 <= k | GGather j => 0 <= j | GUnblock => True end) evs ->
  let g' := fold_left (fun g e => fst (sw_gate_step g e)) evs g in
  snd (sw_gate_step g' (GWrite k)) = GAdmitted -> swg_user_chunks g' = 0.
Proof.
  intros Hg Hf g' Ha. pose proof (sw_gate_inv_run evs g Hg Hf) as [Hn Hi]. fold g' in Hn, Hi.
  unfold sw_gate_step in Ha. destruct (swg_established g') eqn:Ee; cbn in Ha; [|discriminate].
  destruct (swg_write_pending g') eqn:Ew; [discriminate|]. apply Hi; reflexivity.
Qed.

Lemma sw_gate_rejects_when_not_established g k :
  swg_established g = false -> sw_gate_step g (GWrite k) = (g, GRejected).
Proof. intros H. unfold sw_gate_step. rewrite H. reflexivity. Qed.

(* ---------- read loop: a readable message is returned before any read error ---------- *)
Lemma sw_read_message_before_error n err : sw_read_once (Some (Some n)) err = RMsg n.
Proof. reflexivity. Qed.
Lemma sw_read_error_only_when_nothing_readable q err : sw_read_once q err = RErr -> q = None /\ err = true.
Proof. destruct q as [[n|]|]; cbn; try discriminate. destruct err; [auto|discriminate]. Qed.

(* the stream's buffered amount after any WriteSCTP call: it grows by exactly the number of bytes the call
   reports as written, i.e. by the message length for an accepted write and by nothing for a write that is
   rejected (too large, stream closing) or whose hand-over to the association fails *)
Lemma sw_write_buffered st n ppi il maxp maxmsg ok st' r cs :
  sw_wf st -> sw_write st n ppi il maxp maxmsg ok = Some (st', r, cs) ->
  sw_buffered st' = sw_buffered st + (match r with SwOk k => k | _ => 0 end) /\
  (ok = true -> n <= maxmsg -> sw_state st = sw_open -> r = SwOk n).
Proof.
  intros W H. destruct ok.
  - unfold sw_write in H.
    destruct (n >? maxmsg) eqn:E1; [inversion H; subst; split; [lia|intros; lia]|].
    destruct (negb (sw_state st =? sw_open)) eqn:E2; [inversion H; subst; split; [lia|intros _ _ Ho; rewrite Ho in E2; discriminate]|].
    destruct (n =? 0) eqn:E0; [inversion H; subst; split; [lia|intros; f_equal; lia]|].
    destruct (sw_packetize st n ppi il maxp) as [[[st1 chunks] un]|] eqn:Ep; [|discriminate].
    apply sw_packetize_state in Ep. destruct Ep as (_ & Eb & _).
    inversion H; subst. split; [assumption|reflexivity].
  - split; [|discriminate].
    pose proof H as H0. apply sw_senderr_identity in H; [|assumption].
    unfold sw_write in H0.
    destruct (n >? maxmsg); [inversion H0; subst; lia|].
    destruct (negb (sw_state st =? sw_open)); [inversion H0; subst; lia|].
    destruct (n =? 0) eqn:E0; [inversion H0; subst; lia|].
    destruct (sw_packetize st n ppi il maxp) as [[[st1 chunks] un]|]; [|discriminate].
    destruct H as [(E & _ & _)|(E & _)]; [|lia].
    rewrite E. inversion H0. lia.
Qed.
