(* replay of receivePayloadQueue traces on the extracted model *)
module M = Model
open Zio

let dump_model (q : M.rpq) : string =
  let nw = iz q.M.nwords in
  (* pack the set positions into 64-bit words (harness glue, done with Zarith) *)
  let tbl = Hashtbl.create 16 in
  List.iter (fun p -> let p = iz p in
    let i = p / 64 and b = p mod 64 in
    let cur = try Hashtbl.find tbl i with Not_found -> Z.zero in
    Hashtbl.replace tbl i (Z.logor cur (Z.shift_left Z.one b))) q.M.bits;
  let words = List.sort compare (Hashtbl.fold (fun i v acc -> (i, Z.to_string v) :: acc) tbl []) in
  Printf.sprintf "%s %s %s %s %d %d%s %d%s" (sz q.M.cum) (sz q.M.tail) (sz q.M.size) (sz q.M.max_off) nw
    (List.length words)
    (String.concat "" (List.map (fun (i, v) -> Printf.sprintf " %d %s" i v) words))
    (List.length q.M.dups)
    (String.concat "" (List.map (fun d -> " " ^ sz d) q.M.dups))

let run path =
  let cases = read_cases path in
  let ncase = ref 0 in
  List.iter (fun (name, lines) ->
    incr ncase;
    let q = ref (M.rpq_new (czi 64)) in
    let stop = ref false in
    List.iteri (fun i toks ->
      if not !stop then begin
        incr records;
        let bad what m im = report name (i+1) what m im; stop := true in
        match toks with
        | "load" :: c :: tl :: sz :: mo :: nw :: _ :: words ->
            (* state taken from a live association: positions of the set bits of the dumped words *)
            let rec pos l acc = match l with
              | i :: v :: r ->
                  let v = Z.of_string v and i = int_of_string i in
                  let acc = ref acc in
                  for b = 0 to 63 do if Z.testbit v b then acc := czi (i * 64 + b) :: !acc done;
                  pos r !acc
              | _ -> acc in
            q := { M.cum = cz c; M.tail = cz tl; M.size = cz sz; M.bits = pos words []; M.dups = []; M.max_off = cz mo; M.nwords = cz nw }
        | ["sackcum"; c] -> if sz (!q).M.cum <> c then bad "SACK cumulative TSN" (sz (!q).M.cum) c
        | ["new"; m] -> q := M.rpq_new (cz m)
        | ["init"; c] -> q := M.rpq_init !q (cz c)
        | ["push"; t; r] ->
            let (q', b) = M.push !q (cz t) in q := q';
            if sbool b <> r then bad ("push " ^ t) (sbool b) r
        | ["pop"; f; r] ->
            let (q', b) = M.pop !q (f <> "0") in q := q';
            if sbool b <> r then bad ("pop " ^ f) (sbool b) r
        | ["adv"; c] -> q := M.advance !q (cz c)
        | "dups" :: _ :: rest ->
            let (q', d) = M.pop_duplicates !q in q := q';
            let m = slist sz d and im = String.concat " " rest in
            if m <> im then bad "dups" m im
        | "gaps" :: _ :: rest ->
            let im = String.concat " " rest in
            let g = M.gap_blocks !q in
            let m = slist (fun (s, e) -> sz s ^ " " ^ sz e) g in
            if m <> im then bad "gaps(bit-level spec)" m im;
            (match M.gap_blocks_w !q with
             | None -> bad "gaps(word scan)" "OutOfFuel" im
             | Some gw ->
                let mw = slist (fun (s, e) -> sz s ^ " " ^ sz e) gw in
                if mw <> im then bad "gaps(word scan)" mw im)
        | ["has"; t; r] ->
            let b = M.has_chunk !q (cz t) in
            if sbool b <> r then bad ("has " ^ t) (sbool b) r
        | ["can"; t; r] ->
            let b = M.can_push !q (cz t) in
            if sbool b <> r then bad ("can " ^ t) (sbool b) r
        | ["last"; ok; t] ->
            (match M.last_tsn_received !q with
             | None -> if ok <> "0" then bad "last" "none" (ok ^ " " ^ t)
             | Some x -> if ok <> "1" || sz x <> t then bad "last" ("1 " ^ sz x) (ok ^ " " ^ t))
        | "dump" :: rest ->
            let im = String.concat " " rest in
            let m = dump_model !q in
            if m <> im then bad "state" m im
        | _ -> bad "unparsed line" "" (String.concat " " toks)
      end) lines) cases;
  Printf.printf "SUMMARY component=rpq cases=%d records=%d mismatches=%d\n" !ncase !records !mismatches
