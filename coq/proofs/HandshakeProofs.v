(* Proofs about the handshake abstraction (model/Handshake.v), part 1: everything that needs no computed set.
   - decidable equalities are correct;
   - Section Coll: for ANY collapse c of the retry counters, every endpoint step except a T1 expiry respects
     "equal up to the collapse" (compositional: one small lemma per field update / building block / handler),
     and so do start/delivery-only runs of the two-endpoint system;
   - with c = hs_cn (n < maxr |-> 0): the simulation lemma hs_sim_step (a T1 expiry is matched by the abstract
     expiry or by the jump) and THE GENERIC CLOSURE LEMMA hs_closure_sound, proved once by induction on runs;
   - options/roles are never written; stale handshake packets in ESTABLISHED; the T1 bound. *)
From Coq Require Import ZArith Bool List Arith PeanoNat Lia FMapPositive.
From Sctp Require Import Gen Handshake.
Import ListNotations.
Local Open Scope nat_scope.

(* ------------------------------------------------------------------ decidable equalities are correct *)

Lemma hs_state_eqb_eq a b : hs_state_eqb a b = true -> a = b.
Proof. destruct a, b; simpl; congruence. Qed.
Lemma hs_role_eqb_eq a b : hs_role_eqb a b = true -> a = b.
Proof. destruct a, b; simpl; congruence. Qed.
Lemma hs_res_eqb_eq a b : hs_res_eqb a b = true -> a = b.
Proof. destruct a, b; simpl; congruence. Qed.
Lemma hs_zca_eqb_eq a b : hs_zca_eqb a b = true -> a = b.
Proof. destruct a, b; simpl; congruence. Qed.

Lemma hs_pkt_eqb_eq p q : hs_pkt_eqb p q = true -> p = q.
Proof.
  destruct p, q; simpl; try congruence; rewrite ?andb_true_iff; intros H;
    repeat match goal with H : _ /\ _ |- _ => destruct H end;
    repeat match goal with
           | H : Bool.eqb _ _ = true |- _ => apply eqb_prop in H
           | H : hs_zca_eqb _ _ = true |- _ => apply hs_zca_eqb_eq in H
           end; subst; reflexivity.
Qed.

Lemma hs_ep_eqb_eq e f : hs_ep_eqb e f = true -> e = f.
Proof.
  destruct e, f; unfold hs_ep_eqb; cbn. intros H.
  repeat (apply andb_prop in H; let H' := fresh "H" in destruct H as [H H']).
  repeat match goal with
         | H : Bool.eqb _ _ = true |- _ => apply eqb_prop in H
         | H : Nat.eqb _ _ = true |- _ => apply Nat.eqb_eq in H
         | H : hs_state_eqb _ _ = true |- _ => apply hs_state_eqb_eq in H
         | H : hs_role_eqb _ _ = true |- _ => apply hs_role_eqb_eq in H
         | H : hs_res_eqb _ _ = true |- _ => apply hs_res_eqb_eq in H
         end.
  subst. reflexivity.
Qed.

Lemma hs_net_eqb_eq l : forall m, hs_net_eqb l m = true -> l = m.
Proof.
  induction l as [|x l IH]; intros [|y m]; simpl; try congruence.
  rewrite !andb_true_iff. intros [[H1 H2] H3].
  apply eqb_prop in H1. apply hs_pkt_eqb_eq in H2. apply IH in H3.
  destruct x, y; simpl in *; subst; reflexivity.
Qed.

Lemma hs_sys_eqb_eq s t : hs_sys_eqb s t = true -> s = t.
Proof.
  destruct s, t; unfold hs_sys_eqb; cbn. rewrite !andb_true_iff. intros [[H1 H2] H3].
  apply hs_ep_eqb_eq in H1. apply hs_ep_eqb_eq in H2. apply hs_net_eqb_eq in H3. subst; reflexivity.
Qed.

Lemma hs_in_states m s : hs_in m s = true -> In s (hs_states m).
Proof.
  unfold hs_in, hs_states. destruct (PositiveMap.find (hs_code s) m) as [t|] eqn:F; [|discriminate].
  intros E. apply hs_sys_eqb_eq in E. subst t.
  apply PositiveMap.elements_correct in F.
  change s with (snd (hs_code s, s)). apply in_map. exact F.
Qed.

(* ------------------------------------------------------------------ equality up to a collapse of the counters *)

Lemma hs_maxr_val : hs_maxr = Z.to_nat c_maxInitRetrans.
Proof. reflexivity. Qed.

Lemma hs_maxr_pos : 0 < hs_maxr.
Proof. vm_compute. lia. Qed.

Lemma hs_maxr_nz : Nat.eqb hs_maxr 0 = false.
Proof. apply Nat.eqb_neq. pose proof hs_maxr_pos. lia. Qed.

Definition hs_coll (c : nat -> nat) (e : hs_ep) : hs_ep :=
  hs_with_t1c (hs_with_t1i e (hs_t1i e) (if hs_t1i e then c (hs_ni e) else 0))
              (hs_t1c e) (if hs_t1c e then c (hs_nc e) else 0).

Definition hs_collS (c : nat -> nat) (s : hs_sys) : hs_sys :=
  mkHsSys (hs_coll c (hs_a s)) (hs_coll c (hs_b s)) (hs_net s).

Lemma hs_norm_ep_coll e : hs_norm_ep e = hs_coll hs_cn e.
Proof. reflexivity. Qed.
Lemma hs_norm_collS s : hs_norm s = hs_collS hs_cn s.
Proof. reflexivity. Qed.

Definition hs_out_eq (R : hs_ep -> hs_ep -> Prop) (o o' : hs_out) : Prop :=
  R (fst (fst o)) (fst (fst o')) /\ snd (fst o) = snd (fst o') /\ snd o = snd o'.

Section Coll.
Variable cf : nat -> nat.

(* two endpoints are equivalent when they differ at most in the retry counters, and those agree up to the
   collapse where the timer runs *)
Definition hs_eqn (e e' : hs_ep) : Prop := hs_coll cf e = hs_coll cf e'.

Lemma hs_eqn_proj e e' : hs_eqn e e' ->
  hs_started e' = hs_started e /\ hs_role_of e' = hs_role_of e /\ hs_lil e' = hs_lil e /\ hs_rzc e' = hs_rzc e /\
  hs_st e' = hs_st e /\ hs_pil e' = hs_pil e /\ hs_pfwd e' = hs_pfwd e /\ hs_pifwd e' = hs_pifwd e /\
  hs_szc e' = hs_szc e /\ hs_uil e' = hs_uil e /\ hs_ufwd e' = hs_ufwd e /\ hs_uifwd e' = hs_uifwd e /\
  hs_cookie e' = hs_cookie e /\ hs_sinit e' = hs_sinit e /\ hs_secho e' = hs_secho e /\
  hs_t1i e' = hs_t1i e /\ hs_t1c e' = hs_t1c e /\ hs_res_of e' = hs_res_of e /\ hs_frozen e' = hs_frozen e.
Proof.
  destruct e, e'; unfold hs_eqn, hs_coll, hs_with_t1i, hs_with_t1c; cbn. intros H; injection H; intros; subst.
  repeat split; reflexivity.
Qed.

Ltac hs_proj H :=
  let P := fresh "P" in
  pose proof (hs_eqn_proj _ _ H) as P;
  destruct P as (?P & ?P & ?P & ?P & ?P & ?P & ?P & ?P & ?P & ?P & ?P & ?P & ?P & ?P & ?P & ?P & ?P & ?P & ?P).

Ltac hs_setter_tac :=
  let H := fresh "H" in
  intros e e' H; destruct e, e';
  unfold hs_eqn, hs_coll, hs_with_started, hs_with_st, hs_with_caps, hs_with_use, hs_with_cookie, hs_with_sinit,
    hs_with_secho, hs_with_res, hs_with_frozen, hs_with_t1i, hs_with_t1c in *;
  cbn in *; injection H; intros; subst; try reflexivity; try congruence.
Lemma hs_r_started b : forall e e', hs_eqn e e' -> hs_eqn (hs_with_started e b) (hs_with_started e' b).
Proof. hs_setter_tac. Qed.
Lemma hs_r_st v : forall e e', hs_eqn e e' -> hs_eqn (hs_with_st e v) (hs_with_st e' v).
Proof. hs_setter_tac. Qed.
Lemma hs_r_caps a b c d : forall e e', hs_eqn e e' -> hs_eqn (hs_with_caps e a b c d) (hs_with_caps e' a b c d).
Proof. hs_setter_tac. Qed.
Lemma hs_r_use a b c : forall e e', hs_eqn e e' -> hs_eqn (hs_with_use e a b c) (hs_with_use e' a b c).
Proof. hs_setter_tac. Qed.
Lemma hs_r_cookie b : forall e e', hs_eqn e e' -> hs_eqn (hs_with_cookie e b) (hs_with_cookie e' b).
Proof. hs_setter_tac. Qed.
Lemma hs_r_sinit b : forall e e', hs_eqn e e' -> hs_eqn (hs_with_sinit e b) (hs_with_sinit e' b).
Proof. hs_setter_tac. Qed.
Lemma hs_r_secho b : forall e e', hs_eqn e e' -> hs_eqn (hs_with_secho e b) (hs_with_secho e' b).
Proof. hs_setter_tac. Qed.
Lemma hs_r_res r : forall e e', hs_eqn e e' -> hs_eqn (hs_with_res e r) (hs_with_res e' r).
Proof. hs_setter_tac. Qed.
Lemma hs_r_frozen b : forall e e', hs_eqn e e' -> hs_eqn (hs_with_frozen e b) (hs_with_frozen e' b).
Proof. hs_setter_tac. Qed.
Lemma hs_r_t1i_start : forall e e', hs_eqn e e' -> hs_eqn (hs_with_t1i e true 0) (hs_with_t1i e' true 0).
Proof. hs_setter_tac. Qed.
Lemma hs_r_t1c_start : forall e e', hs_eqn e e' -> hs_eqn (hs_with_t1c e true 0) (hs_with_t1c e' true 0).
Proof. hs_setter_tac. Qed.
Lemma hs_r_t1i_stop a b : forall e e', hs_eqn e e' -> hs_eqn (hs_with_t1i e false a) (hs_with_t1i e' false b).
Proof. hs_setter_tac. Qed.
Lemma hs_r_t1c_stop a b : forall e e', hs_eqn e e' -> hs_eqn (hs_with_t1c e false a) (hs_with_t1c e' false b).
Proof. hs_setter_tac. Qed.

Lemma hs_r_update_il e e' : hs_eqn e e' -> hs_eqn (hs_update_il e) (hs_update_il e').
Proof.
  intros H. hs_proj H. unfold hs_update_il. rewrite P1, P4, P5, P6.
  destruct (hs_lil e && hs_pil e); apply hs_r_use; exact H.
Qed.

Lemma hs_r_start_t1i e e' : hs_eqn e e' -> hs_eqn (hs_start_t1i e) (hs_start_t1i e').
Proof.
  intros H. hs_proj H. unfold hs_start_t1i. rewrite P14. destruct (hs_t1i e); [exact H | apply hs_r_t1i_start; exact H].
Qed.
Lemma hs_r_start_t1c e e' : hs_eqn e e' -> hs_eqn (hs_start_t1c e) (hs_start_t1c e').
Proof.
  intros H. hs_proj H. unfold hs_start_t1c. rewrite P15. destruct (hs_t1c e); [exact H | apply hs_r_t1c_start; exact H].
Qed.
Lemma hs_r_stop_t1i e e' : hs_eqn e e' -> hs_eqn (hs_stop_t1i e) (hs_stop_t1i e').
Proof. intros H. apply hs_r_t1i_stop; exact H. Qed.
Lemma hs_r_stop_t1c e e' : hs_eqn e e' -> hs_eqn (hs_stop_t1c e) (hs_stop_t1c e').
Proof. intros H. apply hs_r_t1c_stop; exact H. Qed.

Lemma hs_r_complete r e e' : hs_eqn e e' ->
  hs_eqn (fst (hs_complete e r)) (fst (hs_complete e' r)) /\ snd (hs_complete e r) = snd (hs_complete e' r).
Proof.
  intros H. hs_proj H. unfold hs_complete. rewrite P16.
  destruct (hs_res_of e); cbn [fst snd]; split; try reflexivity; first [apply hs_r_res | apply hs_r_frozen]; exact H.
Qed.

Lemma hs_r_establish e e' : hs_eqn e e' ->
  hs_eqn (fst (hs_establish e)) (fst (hs_establish e')) /\ snd (hs_establish e) = snd (hs_establish e').
Proof.
  intros H. unfold hs_establish. apply hs_r_complete. apply hs_r_st. apply hs_r_update_il. exact H.
Qed.

Definition hs_out_eqn (o o' : hs_out) : Prop := hs_out_eq hs_eqn o o'.

Lemma hs_out_eqn_same e e' l r : hs_eqn e e' -> hs_out_eqn (e, l, r) (e', l, r).
Proof. intros H; repeat split; exact H. Qed.

Lemma hs_r_handle_init f i g z e e' : hs_eqn e e' -> hs_out_eqn (hs_handle_init e f i g z) (hs_handle_init e' f i g z).
Proof.
  intros H. hs_proj H. unfold hs_handle_init, hs_my_init_ack. rewrite P1, P2, P3, P7.
  destruct (hs_st e); apply hs_out_eqn_same; try exact H;
    apply hs_r_cookie, hs_r_update_il, hs_r_caps; exact H.
Qed.

Lemma hs_r_handle_init_ack f i g z c e e' :
  hs_eqn e e' -> hs_out_eqn (hs_handle_init_ack e f i g z c) (hs_handle_init_ack e' f i g z c).
Proof.
  intros H. hs_proj H. unfold hs_handle_init_ack. rewrite P3, P7.
  destruct (hs_st e); try (apply hs_out_eqn_same; exact H).
  destruct c; apply hs_out_eqn_same.
  - apply hs_r_st, hs_r_start_t1c, hs_r_secho, hs_r_update_il, hs_r_caps, hs_r_sinit, hs_r_stop_t1i; exact H.
  - apply hs_r_update_il, hs_r_caps, hs_r_sinit, hs_r_stop_t1i; exact H.
Qed.

Lemma hs_r_handle_cookie_echo m e e' :
  hs_eqn e e' -> hs_out_eqn (hs_handle_cookie_echo e m) (hs_handle_cookie_echo e' m).
Proof.
  intros H. hs_proj H. unfold hs_handle_cookie_echo. rewrite P3, P11.
  destruct (hs_cookie e); cbn [negb]; [|apply hs_out_eqn_same; exact H].
  assert (E : hs_eqn (hs_with_secho (hs_stop_t1c (hs_with_sinit (hs_stop_t1i e) false)) false)
                     (hs_with_secho (hs_stop_t1c (hs_with_sinit (hs_stop_t1i e') false)) false))
    by (apply hs_r_secho, hs_r_stop_t1c, hs_r_sinit, hs_r_stop_t1i; exact H).
  apply hs_r_establish in E. destruct E as [E1 E2].
  destruct (hs_st e), m; try (apply hs_out_eqn_same; exact H);
    destruct (hs_establish (hs_with_secho (hs_stop_t1c (hs_with_sinit (hs_stop_t1i e) false)) false)) as [x ok];
    destruct (hs_establish (hs_with_secho (hs_stop_t1c (hs_with_sinit (hs_stop_t1i e') false)) false)) as [x' ok'];
    cbn [fst snd] in *; subst ok'; apply hs_out_eqn_same; exact E1.
Qed.

Lemma hs_r_handle_cookie_ack e e' : hs_eqn e e' -> hs_out_eqn (hs_handle_cookie_ack e) (hs_handle_cookie_ack e').
Proof.
  intros H. hs_proj H. unfold hs_handle_cookie_ack. rewrite P3.
  destruct (hs_st e); apply hs_out_eqn_same; try exact H.
  apply hs_r_establish, hs_r_secho, hs_r_stop_t1c; exact H.
Qed.

Lemma hs_r_start e e' : hs_eqn e e' -> hs_out_eqn (hs_start e) (hs_start e').
Proof.
  intros H. hs_proj H. unfold hs_start, hs_my_init. rewrite P0, P1, P2.
  destruct (hs_role_of e); apply hs_out_eqn_same.
  - apply hs_r_start_t1i, hs_r_st, hs_r_sinit, hs_r_started; exact H.
  - apply hs_r_started; exact H.
  - apply hs_r_started; exact H.
Qed.

Lemma hs_r_start_snap tok e e' : hs_eqn e e' -> hs_out_eqn (hs_start_snap e tok) (hs_start_snap e' tok).
Proof.
  intros H. hs_proj H. unfold hs_start_snap. rewrite P7.
  destruct tok; apply hs_out_eqn_same; try exact H.
  apply hs_r_res, hs_r_st, hs_r_update_il, hs_r_caps, hs_r_started; exact H.
Qed.

(* every event except a timer expiry respects the equivalence *)
Lemma hs_r_step_nontimer ev e e' :
  hs_is_timer ev = false -> hs_eqn e e' -> hs_out_eqn (hs_ep_step e ev) (hs_ep_step e' ev).
Proof.
  intros Ht H. hs_proj H. unfold hs_ep_step. rewrite P17, P.
  destruct (hs_frozen e); [apply hs_out_eqn_same; exact H|].
  destruct ev as [|tok|p| |]; try discriminate Ht.
  - destruct (hs_started e); [apply hs_out_eqn_same; exact H | apply hs_r_start; exact H].
  - destruct (hs_started e); [apply hs_out_eqn_same; exact H | apply hs_r_start_snap; exact H].
  - destruct (hs_started e); [|apply hs_out_eqn_same; exact H].
    destruct p; cbn [hs_deliver].
    + apply hs_r_handle_init; exact H.
    + apply hs_r_handle_init_ack; exact H.
    + apply hs_r_handle_cookie_echo; exact H.
    + apply hs_r_handle_cookie_ack; exact H.
Qed.


Lemma hs_r_t1i_any run a b : cf a = cf b ->
  forall e e', hs_eqn e e' -> hs_eqn (hs_with_t1i e run a) (hs_with_t1i e' run b).
Proof. intros Hc. hs_setter_tac. destruct run; congruence. Qed.
Lemma hs_r_t1c_any run a b : cf a = cf b ->
  forall e e', hs_eqn e e' -> hs_eqn (hs_with_t1c e run a) (hs_with_t1c e' run b).
Proof. intros Hc. hs_setter_tac. destruct run; congruence. Qed.

(* a T1 expiry when both endpoints take the retransmission branch and the new counters collapse alike *)
Lemma hs_r_t1i_retrans e e' : hs_eqn e e' ->
  (hs_t1i e = true -> S (hs_ni e) <= hs_maxr /\ S (hs_ni e') <= hs_maxr /\ cf (S (hs_ni e)) = cf (S (hs_ni e'))) ->
  hs_out_eqn (hs_ep_step e HsT1Init) (hs_ep_step e' HsT1Init).
Proof.
  intros H Hl. hs_proj H. unfold hs_ep_step. rewrite P17.
  destruct (hs_frozen e); [apply hs_out_eqn_same; exact H|].
  unfold hs_t1_init_expire, hs_my_init. rewrite P14, P12, P1, P2.
  destruct (hs_t1i e); cbn [negb]; [|apply hs_out_eqn_same; exact H].
  destruct (Hl eq_refl) as (L1 & L2 & L3).
  rewrite hs_maxr_nz; cbn [orb].
  destruct (Nat.leb_spec (S (hs_ni e)) hs_maxr); [|lia].
  destruct (Nat.leb_spec (S (hs_ni e')) hs_maxr); [|lia].
  apply hs_out_eqn_same. apply hs_r_t1i_any; assumption.
Qed.

Lemma hs_r_t1c_retrans e e' : hs_eqn e e' ->
  (hs_t1c e = true -> S (hs_nc e) <= hs_maxr /\ S (hs_nc e') <= hs_maxr /\ cf (S (hs_nc e)) = cf (S (hs_nc e'))) ->
  hs_out_eqn (hs_ep_step e HsT1Cookie) (hs_ep_step e' HsT1Cookie).
Proof.
  intros H Hl. hs_proj H. unfold hs_ep_step. rewrite P17.
  destruct (hs_frozen e); [apply hs_out_eqn_same; exact H|].
  unfold hs_t1_cookie_expire. rewrite P15, P13.
  destruct (hs_t1c e); cbn [negb]; [|apply hs_out_eqn_same; exact H].
  destruct (Hl eq_refl) as (L1 & L2 & L3).
  rewrite hs_maxr_nz; cbn [orb].
  destruct (Nat.leb_spec (S (hs_nc e)) hs_maxr); [|lia].
  destruct (Nat.leb_spec (S (hs_nc e')) hs_maxr); [|lia].
  apply hs_out_eqn_same. apply hs_r_t1c_any; assumption.
Qed.

(* enabled events do not depend on the counters *)
Lemma hs_ep_events_eqn x e e' p p' net :
  hs_eqn e e' -> hs_eqn p p' -> hs_ep_events x e' p' net = hs_ep_events x e p net.
Proof.
  intros H H'. unfold hs_ep_events, hs_my_init.
  destruct (hs_eqn_proj _ _ H') as (_ & _ & Q1 & Q2 & _).
  hs_proj H. rewrite P17, P, P0, P14, P15, Q1, Q2. reflexivity.
Qed.

(* ---- the two-endpoint system *)
Definition hs_eqnS (s a : hs_sys) : Prop := hs_collS cf s = hs_collS cf a.

Lemma hs_eqnS_parts s a : hs_eqnS s a <-> hs_eqn (hs_a s) (hs_a a) /\ hs_eqn (hs_b s) (hs_b a) /\ hs_net s = hs_net a.
Proof.
  unfold hs_eqnS, hs_collS, hs_eqn. split.
  - intros H. split; [exact (f_equal hs_a H) | split; [exact (f_equal hs_b H) | exact (f_equal hs_net H)]].
  - intros (A & B & N). rewrite A, B, N. reflexivity.
Qed.

Lemma hs_events_eqnS s a : hs_eqnS s a -> hs_events a = hs_events s.
Proof.
  intros H. apply hs_eqnS_parts in H. destruct H as (A & B & N). unfold hs_events. rewrite <- N.
  rewrite (hs_ep_events_eqn false _ _ _ _ _ A B), (hs_ep_events_eqn true _ _ _ _ _ B A). reflexivity.
Qed.

Lemma hs_apply_a s ev :
  hs_apply s (false, ev) =
  mkHsSys (fst (fst (hs_ep_step (hs_a s) ev))) (hs_b s) (hs_emit false (snd (fst (hs_ep_step (hs_a s) ev))) (hs_net s)).
Proof. unfold hs_apply, hs_side. destruct (hs_ep_step (hs_a s) ev) as [[e o] r]. reflexivity. Qed.

Lemma hs_apply_b s ev :
  hs_apply s (true, ev) =
  mkHsSys (hs_a s) (fst (fst (hs_ep_step (hs_b s) ev))) (hs_emit true (snd (fst (hs_ep_step (hs_b s) ev))) (hs_net s)).
Proof. unfold hs_apply, hs_side. destruct (hs_ep_step (hs_b s) ev) as [[e o] r]. reflexivity. Qed.

(* one endpoint step with equivalent results gives equivalent systems *)
Lemma hs_apply_eqnS s a x ev :
  hs_eqnS s a -> hs_out_eqn (hs_ep_step (hs_side s x) ev) (hs_ep_step (hs_side a x) ev) ->
  hs_eqnS (hs_apply s (x, ev)) (hs_apply a (x, ev)).
Proof.
  intros H O. apply hs_eqnS_parts in H. destruct H as (A & B & N). destruct O as (O1 & O2 & _).
  apply hs_eqnS_parts. destruct x; cbn [hs_side] in *.
  - rewrite !hs_apply_b. cbn [hs_a hs_b hs_net]. rewrite O2, N. repeat split; assumption.
  - rewrite !hs_apply_a. cbn [hs_a hs_b hs_net]. rewrite O2, N. repeat split; assumption.
Qed.

Lemma hs_side_eqn s a x : hs_eqnS s a -> hs_eqn (hs_side s x) (hs_side a x).
Proof. intros H. apply hs_eqnS_parts in H. destruct H as (A & B & _). destruct x; assumption. Qed.

Lemma hs_apply_eqnS_nontimer s a sev :
  hs_is_timer (snd sev) = false -> hs_eqnS s a -> hs_eqnS (hs_apply s sev) (hs_apply a sev).
Proof.
  destruct sev as [x ev]; cbn [snd]; intros Ht H. apply hs_apply_eqnS; [exact H|].
  apply hs_r_step_nontimer; [exact Ht | apply hs_side_eqn; exact H].
Qed.

(* a delivery/start-only schedule that runs from a state runs from every equivalent state, to an equivalent state *)
Lemma hs_run_transfer evs : hs_no_timer_evs evs = true ->
  forall s a a', hs_eqnS s a -> hs_run a evs = Some a' ->
  exists s', hs_run s evs = Some s' /\ hs_eqnS s' a'.
Proof.
  induction evs as [|sev r IH]; intros Hn s a a' E Hr.
  - cbn in Hr. inversion Hr; subst. exists s. split; [reflexivity | exact E].
  - cbn [hs_no_timer_evs forallb] in Hn. apply andb_prop in Hn. destruct Hn as [Ht Hn].
    apply negb_true_iff in Ht. cbn [hs_run] in *.
    rewrite <- (hs_events_eqnS s a E).
    destruct (existsb (hs_sev_eqb sev) (hs_events a)); [|discriminate].
    apply (IH Hn (hs_apply s sev) (hs_apply a sev) a'); [|exact Hr].
    apply hs_apply_eqnS_nontimer; assumption.
Qed.

(* predicates that do not look at the counters *)
Lemma hs_goal_eqnS s a : hs_eqnS s a -> hs_goal s = hs_goal a.
Proof.
  intros H. apply hs_eqnS_parts in H. destruct H as (A & B & _).
  apply hs_eqn_proj in A. apply hs_eqn_proj in B.
  destruct A as (_ & _ & _ & _ & A1 & _ & _ & _ & _ & _ & _ & _ & _ & _ & _ & _ & _ & A2 & _).
  destruct B as (_ & _ & _ & _ & B1 & _ & _ & _ & _ & _ & _ & _ & _ & _ & _ & _ & _ & B2 & _).
  unfold hs_goal, hs_is_est. rewrite A1, A2, B1, B2. reflexivity.
Qed.

End Coll.

(* ------------------------------------------------------------------ the collapse used for the closure: hs_cn *)

Ltac hs_proj H :=
  let P := fresh "P" in
  pose proof (hs_eqn_proj _ _ _ H) as P;
  destruct P as (?P & ?P & ?P & ?P & ?P & ?P & ?P & ?P & ?P & ?P & ?P & ?P & ?P & ?P & ?P & ?P & ?P & ?P & ?P).

Lemma hs_cn_idem n : hs_cn (hs_cn n) = hs_cn n.
Proof.
  unfold hs_cn. destruct (Nat.ltb n hs_maxr) eqn:E; [|rewrite E; reflexivity].
  destruct (Nat.ltb 0 hs_maxr); reflexivity.
Qed.

Lemma hs_cn_0 : hs_cn 0 = 0.
Proof. unfold hs_cn. destruct (Nat.ltb 0 hs_maxr); reflexivity. Qed.

Lemma hs_cn_lt n : n < hs_maxr -> hs_cn n = 0.
Proof. intros. unfold hs_cn. destruct (Nat.ltb_spec n hs_maxr); [reflexivity|lia]. Qed.
Lemma hs_cn_ge n : hs_maxr <= n -> hs_cn n = n.
Proof. intros. unfold hs_cn. destruct (Nat.ltb_spec n hs_maxr); [lia|reflexivity]. Qed.

Lemma hs_norm_ep_idem e : hs_norm_ep (hs_norm_ep e) = hs_norm_ep e.
Proof.
  destruct e as [? ? ? ? ? ? ? ? ? ? ? ? ? ? ? t1i ni t1c nc ? ?]; unfold hs_norm_ep, hs_with_t1i, hs_with_t1c; cbn.
  destruct t1i, t1c; rewrite ?hs_cn_idem; reflexivity.
Qed.

Lemma hs_norm_idem s : hs_norm (hs_norm s) = hs_norm s.
Proof. unfold hs_norm; cbn. rewrite !hs_norm_ep_idem. reflexivity. Qed.

Lemma hs_eqn_norm e : hs_eqn hs_cn e (hs_norm_ep e).
Proof. unfold hs_eqn. rewrite <- !hs_norm_ep_coll, hs_norm_ep_idem. reflexivity. Qed.

Lemma hs_eqnS_norm s : hs_eqnS hs_cn s (hs_norm s).
Proof. unfold hs_eqnS. rewrite <- !hs_norm_collS, hs_norm_idem. reflexivity. Qed.

Lemma hs_norm_step_nontimer e ev :
  hs_is_timer ev = false ->
  hs_norm_ep (fst (fst (hs_ep_step e ev))) = hs_norm_ep (fst (fst (hs_ep_step (hs_norm_ep e) ev))) /\
  snd (fst (hs_ep_step e ev)) = snd (fst (hs_ep_step (hs_norm_ep e) ev)).
Proof.
  intros Ht. destruct (hs_r_step_nontimer hs_cn ev e (hs_norm_ep e) Ht (hs_eqn_norm e)) as (A & B & _).
  split; assumption.
Qed.

Lemma hs_with_t1i_twice e a b c d : hs_with_t1i (hs_with_t1i e a b) c d = hs_with_t1i e c d.
Proof. destruct e; reflexivity. Qed.
Lemma hs_with_t1c_twice e a b c d : hs_with_t1c (hs_with_t1c e a b) c d = hs_with_t1c e c d.
Proof. destruct e; reflexivity. Qed.
Lemma hs_t1i_with_t1i e a b : hs_t1i (hs_with_t1i e a b) = a.
Proof. destruct e; reflexivity. Qed.
Lemma hs_t1c_with_t1c e a b : hs_t1c (hs_with_t1c e a b) = a.
Proof. destruct e; reflexivity. Qed.
Lemma hs_ni_norm e : hs_ni (hs_norm_ep e) = if hs_t1i e then hs_cn (hs_ni e) else 0.
Proof. destruct e; reflexivity. Qed.
Lemma hs_nc_norm e : hs_nc (hs_norm_ep e) = if hs_t1c e then hs_cn (hs_nc e) else 0.
Proof. destruct e; reflexivity. Qed.


Lemma hs_norm_step_t1i e :
  let r := hs_ep_step e HsT1Init in
  let r' := hs_ep_step (hs_norm_ep e) HsT1Init in
  snd (fst r) = snd (fst r') /\
  (hs_norm_ep (fst (fst r)) = hs_norm_ep (fst (fst r')) \/
   (hs_frozen e = false /\ hs_t1i e = true /\ Nat.ltb (hs_ni (hs_norm_ep e)) hs_maxr = true /\
    hs_norm_ep (fst (fst r)) = hs_norm_ep (hs_with_t1i (fst (fst r')) (hs_t1i (fst (fst r'))) hs_maxr))).
Proof.
  pose proof hs_maxr_pos as Hp. pose proof (hs_eqn_norm e) as H.
  pose proof (hs_ni_norm e) as Hn. set (e' := hs_norm_ep e) in *. hs_proj H.
  cbv zeta. unfold hs_ep_step. rewrite P17.
  destruct (hs_frozen e) eqn:Hf; [split; [reflexivity | left; exact H]|].
  unfold hs_t1_init_expire, hs_my_init. rewrite P14, P12, P1, P2, Hn.
  destruct (hs_t1i e) eqn:Ht; cbn [negb]; [|split; [reflexivity | left; exact H]].
  rewrite hs_maxr_nz; cbn [orb].
  destruct (Nat.lt_ge_cases (hs_ni e) hs_maxr) as [Hlt|Hge].
  - rewrite (hs_cn_lt _ Hlt).
    destruct (Nat.leb_spec (S (hs_ni e)) hs_maxr) as [_|?]; [|lia].
    destruct (Nat.leb_spec 1 hs_maxr) as [_|?]; [|lia].
    cbn [fst snd]. split; [reflexivity|].
    destruct (Nat.eq_dec (S (hs_ni e)) hs_maxr) as [Eq|Ne].
    + right. split; [reflexivity|]. split; [reflexivity|]. split.
      * destruct (Nat.ltb_spec 0 hs_maxr); [reflexivity|lia].
      * rewrite hs_with_t1i_twice, hs_t1i_with_t1i. apply (hs_r_t1i_any hs_cn); [rewrite Eq; reflexivity | exact H].
    + left. apply (hs_r_t1i_any hs_cn); [|exact H]. rewrite !hs_cn_lt by lia. reflexivity.
  - rewrite (hs_cn_ge _ Hge).
    destruct (Nat.leb (S (hs_ni e)) hs_maxr); cbn [fst snd].
    + split; [reflexivity|left]. apply (hs_r_t1i_any hs_cn); [reflexivity | exact H].
    + split; [reflexivity|left]. apply hs_r_complete. apply (hs_r_t1i_any hs_cn); [reflexivity | exact H].
Qed.

Lemma hs_norm_step_t1c e :
  let r := hs_ep_step e HsT1Cookie in
  let r' := hs_ep_step (hs_norm_ep e) HsT1Cookie in
  snd (fst r) = snd (fst r') /\
  (hs_norm_ep (fst (fst r)) = hs_norm_ep (fst (fst r')) \/
   (hs_frozen e = false /\ hs_t1c e = true /\ Nat.ltb (hs_nc (hs_norm_ep e)) hs_maxr = true /\
    hs_norm_ep (fst (fst r)) = hs_norm_ep (hs_with_t1c (fst (fst r')) (hs_t1c (fst (fst r'))) hs_maxr))).
Proof.
  pose proof hs_maxr_pos as Hp. pose proof (hs_eqn_norm e) as H.
  pose proof (hs_nc_norm e) as Hn. set (e' := hs_norm_ep e) in *. hs_proj H.
  cbv zeta. unfold hs_ep_step. rewrite P17.
  destruct (hs_frozen e) eqn:Hf; [split; [reflexivity | left; exact H]|].
  unfold hs_t1_cookie_expire. rewrite P15, P13, Hn.
  destruct (hs_t1c e) eqn:Ht; cbn [negb]; [|split; [reflexivity | left; exact H]].
  rewrite hs_maxr_nz; cbn [orb].
  destruct (Nat.lt_ge_cases (hs_nc e) hs_maxr) as [Hlt|Hge].
  - rewrite (hs_cn_lt _ Hlt).
    destruct (Nat.leb_spec (S (hs_nc e)) hs_maxr) as [_|?]; [|lia].
    destruct (Nat.leb_spec 1 hs_maxr) as [_|?]; [|lia].
    cbn [fst snd]. split; [reflexivity|].
    destruct (Nat.eq_dec (S (hs_nc e)) hs_maxr) as [Eq|Ne].
    + right. split; [reflexivity|]. split; [reflexivity|]. split.
      * destruct (Nat.ltb_spec 0 hs_maxr); [reflexivity|lia].
      * rewrite hs_with_t1c_twice, hs_t1c_with_t1c. apply (hs_r_t1c_any hs_cn); [rewrite Eq; reflexivity | exact H].
    + left. apply (hs_r_t1c_any hs_cn); [|exact H]. rewrite !hs_cn_lt by lia. reflexivity.
  - rewrite (hs_cn_ge _ Hge).
    destruct (Nat.leb (S (hs_nc e)) hs_maxr); cbn [fst snd].
    + split; [reflexivity|left]. apply (hs_r_t1c_any hs_cn); [reflexivity | exact H].
    + split; [reflexivity|left]. apply hs_r_complete. apply (hs_r_t1c_any hs_cn); [reflexivity | exact H].
Qed.

(* ------------------------------------------------------------------ the two-endpoint system *)

(* states the exact system (exact retry counters) reaches by any finite sequence of enabled events *)
Inductive hs_reachable : hs_sys -> Prop :=
| hs_reach_init s : In s hs_inits -> hs_reachable s
| hs_reach_step s sev : hs_reachable s -> In sev (hs_events s) -> hs_reachable (hs_apply s sev).

Lemma hs_norm_a s : hs_a (hs_norm s) = hs_norm_ep (hs_a s). Proof. reflexivity. Qed.
Lemma hs_norm_b s : hs_b (hs_norm s) = hs_norm_ep (hs_b s). Proof. reflexivity. Qed.
Lemma hs_norm_net s : hs_net (hs_norm s) = hs_net s. Proof. reflexivity. Qed.
Lemma hs_norm_mk a b n : hs_norm (mkHsSys a b n) = mkHsSys (hs_norm_ep a) (hs_norm_ep b) n. Proof. reflexivity. Qed.

Lemma hs_events_norm s : hs_events (hs_norm s) = hs_events s.
Proof.
  unfold hs_events. rewrite hs_norm_a, hs_norm_b, hs_norm_net.
  rewrite (hs_ep_events_eqn hs_cn false (hs_a s) _ (hs_b s) _ _ (hs_eqn_norm _) (hs_eqn_norm _)).
  rewrite (hs_ep_events_eqn hs_cn true (hs_b s) _ (hs_a s) _ _ (hs_eqn_norm _) (hs_eqn_norm _)).
  reflexivity.
Qed.

Lemma hs_apply_norm_nontimer s sev :
  hs_is_timer (snd sev) = false -> hs_norm (hs_apply s sev) = hs_norm (hs_apply (hs_norm s) sev).
Proof.
  destruct sev as [x ev]; cbn [snd]; intros Ht.
  destruct x.
  - rewrite !hs_apply_b, !hs_norm_mk, hs_norm_a, hs_norm_b, hs_norm_net, hs_norm_ep_idem.
    destruct (hs_norm_step_nontimer (hs_b s) ev Ht) as [E1 E2]. rewrite E1, E2. reflexivity.
  - rewrite !hs_apply_a, !hs_norm_mk, hs_norm_a, hs_norm_b, hs_norm_net, hs_norm_ep_idem.
    destruct (hs_norm_step_nontimer (hs_a s) ev Ht) as [E1 E2]. rewrite E1, E2. reflexivity.
Qed.

Lemma hs_jump_i_in e :
  hs_frozen e = false -> hs_t1i e = true -> Nat.ltb (hs_ni e) hs_maxr = true ->
  In (hs_with_t1i (fst (fst (hs_ep_step e HsT1Init))) (hs_t1i (fst (fst (hs_ep_step e HsT1Init)))) hs_maxr,
      snd (fst (hs_ep_step e HsT1Init))) (hs_jump_ep e).
Proof.
  intros Hf Ht Hn. unfold hs_jump_ep, hs_ep_step. rewrite Hf, Ht, Hn. cbn [negb andb].
  destruct (hs_t1_init_expire e) as [[e1 o] r]. apply in_or_app. left. left. reflexivity.
Qed.

Lemma hs_jump_c_in e :
  hs_frozen e = false -> hs_t1c e = true -> Nat.ltb (hs_nc e) hs_maxr = true ->
  In (hs_with_t1c (fst (fst (hs_ep_step e HsT1Cookie))) (hs_t1c (fst (fst (hs_ep_step e HsT1Cookie)))) hs_maxr,
      snd (fst (hs_ep_step e HsT1Cookie))) (hs_jump_ep e).
Proof.
  intros Hf Ht Hn. unfold hs_jump_ep, hs_ep_step. rewrite Hf, Ht, Hn. cbn [negb andb].
  destruct (hs_t1_cookie_expire e) as [[e1 o] r]. apply in_or_app. right. left. reflexivity.
Qed.

Lemma hs_frozen_norm e : hs_frozen (hs_norm_ep e) = hs_frozen e. Proof. destruct e; reflexivity. Qed.
Lemma hs_t1i_norm e : hs_t1i (hs_norm_ep e) = hs_t1i e. Proof. destruct e; reflexivity. Qed.
Lemma hs_t1c_norm e : hs_t1c (hs_norm_ep e) = hs_t1c e. Proof. destruct e; reflexivity. Qed.

(* the simulation: every step of the exact system is matched by an abstract successor of the collapsed state *)
Lemma hs_sim_step s sev :
  In sev (hs_events s) -> In (hs_norm (hs_apply s sev)) (hs_asuccs (hs_norm s)).
Proof.
  intros Hin. unfold hs_asuccs.
  assert (Hsame : hs_norm (hs_apply s sev) = hs_norm (hs_apply (hs_norm s) sev) ->
                  In (hs_norm (hs_apply s sev)) (map hs_norm (hs_succs (hs_norm s) ++ hs_jumps (hs_norm s)))).
  { intros E. rewrite E. apply in_map. apply in_or_app. left. unfold hs_succs. apply in_map.
    rewrite hs_events_norm. exact Hin. }
  destruct (hs_is_timer (snd sev)) eqn:Ht; [|apply Hsame, hs_apply_norm_nontimer; exact Ht].
  destruct sev as [x ev]. destruct ev; try discriminate Ht; clear Ht.
  - (* T1-init *)
    destruct x.
    + destruct (hs_norm_step_t1i (hs_b s)) as [Eo [E|(Hf & Hr & Hn & E)]].
      * apply Hsame. rewrite !hs_apply_b, !hs_norm_mk, hs_norm_a, hs_norm_b, hs_norm_net, hs_norm_ep_idem, E, Eo. reflexivity.
      * apply in_map_iff.
        exists (mkHsSys (hs_a (hs_norm s))
                  (hs_with_t1i (fst (fst (hs_ep_step (hs_norm_ep (hs_b s)) HsT1Init)))
                               (hs_t1i (fst (fst (hs_ep_step (hs_norm_ep (hs_b s)) HsT1Init)))) hs_maxr)
                  (hs_emit true (snd (fst (hs_ep_step (hs_norm_ep (hs_b s)) HsT1Init))) (hs_net (hs_norm s)))).
        split.
        -- rewrite hs_apply_b, !hs_norm_mk, hs_norm_a, hs_norm_net, hs_norm_ep_idem, E, Eo. reflexivity.
        -- apply in_or_app. right. unfold hs_jumps. apply in_or_app. right.
           rewrite hs_norm_b.
           apply (in_map (fun eo => mkHsSys (hs_a (hs_norm s)) (fst eo) (hs_emit true (snd eo) (hs_net (hs_norm s))))
                         _ _ (hs_jump_i_in (hs_norm_ep (hs_b s))
                                (eq_trans (hs_frozen_norm _) Hf) (eq_trans (hs_t1i_norm _) Hr) Hn)).
    + destruct (hs_norm_step_t1i (hs_a s)) as [Eo [E|(Hf & Hr & Hn & E)]].
      * apply Hsame. rewrite !hs_apply_a, !hs_norm_mk, hs_norm_a, hs_norm_b, hs_norm_net, hs_norm_ep_idem, E, Eo. reflexivity.
      * apply in_map_iff.
        exists (mkHsSys (hs_with_t1i (fst (fst (hs_ep_step (hs_norm_ep (hs_a s)) HsT1Init)))
                               (hs_t1i (fst (fst (hs_ep_step (hs_norm_ep (hs_a s)) HsT1Init)))) hs_maxr)
                  (hs_b (hs_norm s))
                  (hs_emit false (snd (fst (hs_ep_step (hs_norm_ep (hs_a s)) HsT1Init))) (hs_net (hs_norm s)))).
        split.
        -- rewrite hs_apply_a, !hs_norm_mk, hs_norm_b, hs_norm_net, hs_norm_ep_idem, E, Eo. reflexivity.
        -- apply in_or_app. right. unfold hs_jumps. apply in_or_app. left.
           rewrite hs_norm_a.
           apply (in_map (fun eo => mkHsSys (fst eo) (hs_b (hs_norm s)) (hs_emit false (snd eo) (hs_net (hs_norm s))))
                         _ _ (hs_jump_i_in (hs_norm_ep (hs_a s))
                                (eq_trans (hs_frozen_norm _) Hf) (eq_trans (hs_t1i_norm _) Hr) Hn)).
  - (* T1-cookie *)
    destruct x.
    + destruct (hs_norm_step_t1c (hs_b s)) as [Eo [E|(Hf & Hr & Hn & E)]].
      * apply Hsame. rewrite !hs_apply_b, !hs_norm_mk, hs_norm_a, hs_norm_b, hs_norm_net, hs_norm_ep_idem, E, Eo. reflexivity.
      * apply in_map_iff.
        exists (mkHsSys (hs_a (hs_norm s))
                  (hs_with_t1c (fst (fst (hs_ep_step (hs_norm_ep (hs_b s)) HsT1Cookie)))
                               (hs_t1c (fst (fst (hs_ep_step (hs_norm_ep (hs_b s)) HsT1Cookie)))) hs_maxr)
                  (hs_emit true (snd (fst (hs_ep_step (hs_norm_ep (hs_b s)) HsT1Cookie))) (hs_net (hs_norm s)))).
        split.
        -- rewrite hs_apply_b, !hs_norm_mk, hs_norm_a, hs_norm_net, hs_norm_ep_idem, E, Eo. reflexivity.
        -- apply in_or_app. right. unfold hs_jumps. apply in_or_app. right.
           rewrite hs_norm_b.
           apply (in_map (fun eo => mkHsSys (hs_a (hs_norm s)) (fst eo) (hs_emit true (snd eo) (hs_net (hs_norm s))))
                         _ _ (hs_jump_c_in (hs_norm_ep (hs_b s))
                                (eq_trans (hs_frozen_norm _) Hf) (eq_trans (hs_t1c_norm _) Hr) Hn)).
    + destruct (hs_norm_step_t1c (hs_a s)) as [Eo [E|(Hf & Hr & Hn & E)]].
      * apply Hsame. rewrite !hs_apply_a, !hs_norm_mk, hs_norm_a, hs_norm_b, hs_norm_net, hs_norm_ep_idem, E, Eo. reflexivity.
      * apply in_map_iff.
        exists (mkHsSys (hs_with_t1c (fst (fst (hs_ep_step (hs_norm_ep (hs_a s)) HsT1Cookie)))
                               (hs_t1c (fst (fst (hs_ep_step (hs_norm_ep (hs_a s)) HsT1Cookie)))) hs_maxr)
                  (hs_b (hs_norm s))
                  (hs_emit false (snd (fst (hs_ep_step (hs_norm_ep (hs_a s)) HsT1Cookie))) (hs_net (hs_norm s)))).
        split.
        -- rewrite hs_apply_a, !hs_norm_mk, hs_norm_b, hs_norm_net, hs_norm_ep_idem, E, Eo. reflexivity.
        -- apply in_or_app. right. unfold hs_jumps. apply in_or_app. left.
           rewrite hs_norm_a.
           apply (in_map (fun eo => mkHsSys (fst eo) (hs_b (hs_norm s)) (hs_emit false (snd eo) (hs_net (hs_norm s))))
                         _ _ (hs_jump_c_in (hs_norm_ep (hs_a s))
                                (eq_trans (hs_frozen_norm _) Hf) (eq_trans (hs_t1c_norm _) Hr) Hn)).
Qed.

(* THE GENERIC CLOSURE LEMMA (proved once, by induction on runs): a set that contains the collapsed initial
   states and is closed under the abstract successor relation contains the collapsed image of every state
   reachable by any finite sequence of steps of the exact system. *)
Theorem hs_closure_sound (m : hs_set) :
  hs_closed_check m = true ->
  forallb (hs_in m) (map hs_norm hs_inits) = true ->
  forall s, hs_reachable s -> hs_in m (hs_norm s) = true.
Proof.
  intros Hc Hi s R. induction R as [s Hin | s sev R IH Hev].
  - rewrite forallb_forall in Hi. apply Hi. apply in_map. exact Hin.
  - apply hs_in_states in IH.
    unfold hs_closed_check in Hc. rewrite forallb_forall in Hc. specialize (Hc _ IH).
    rewrite forallb_forall in Hc. apply Hc. apply hs_sim_step. exact Hev.
Qed.

(* ------------------------------------------------------------------ options and roles never change *)

Definition hs_opts_ep (e : hs_ep) : hs_role * bool * bool := (hs_role_of e, hs_lil e, hs_rzc e).

Lemma hs_k_started e b : hs_opts_ep (hs_with_started e b) = hs_opts_ep e. Proof. destruct e; reflexivity. Qed.
Lemma hs_k_st e b : hs_opts_ep (hs_with_st e b) = hs_opts_ep e. Proof. destruct e; reflexivity. Qed.
Lemma hs_k_caps e a b c d : hs_opts_ep (hs_with_caps e a b c d) = hs_opts_ep e. Proof. destruct e; reflexivity. Qed.
Lemma hs_k_use e a b c : hs_opts_ep (hs_with_use e a b c) = hs_opts_ep e. Proof. destruct e; reflexivity. Qed.
Lemma hs_k_cookie e b : hs_opts_ep (hs_with_cookie e b) = hs_opts_ep e. Proof. destruct e; reflexivity. Qed.
Lemma hs_k_sinit e b : hs_opts_ep (hs_with_sinit e b) = hs_opts_ep e. Proof. destruct e; reflexivity. Qed.
Lemma hs_k_secho e b : hs_opts_ep (hs_with_secho e b) = hs_opts_ep e. Proof. destruct e; reflexivity. Qed.
Lemma hs_k_t1i e a b : hs_opts_ep (hs_with_t1i e a b) = hs_opts_ep e. Proof. destruct e; reflexivity. Qed.
Lemma hs_k_t1c e a b : hs_opts_ep (hs_with_t1c e a b) = hs_opts_ep e. Proof. destruct e; reflexivity. Qed.
Lemma hs_k_res e b : hs_opts_ep (hs_with_res e b) = hs_opts_ep e. Proof. destruct e; reflexivity. Qed.
Lemma hs_k_frozen e b : hs_opts_ep (hs_with_frozen e b) = hs_opts_ep e. Proof. destruct e; reflexivity. Qed.
Lemma hs_k_update_il e : hs_opts_ep (hs_update_il e) = hs_opts_ep e.
Proof. unfold hs_update_il. destruct (hs_lil e && hs_pil e); apply hs_k_use. Qed.
Lemma hs_k_start_t1i e : hs_opts_ep (hs_start_t1i e) = hs_opts_ep e.
Proof. unfold hs_start_t1i. destruct (hs_t1i e); [reflexivity | apply hs_k_t1i]. Qed.
Lemma hs_k_start_t1c e : hs_opts_ep (hs_start_t1c e) = hs_opts_ep e.
Proof. unfold hs_start_t1c. destruct (hs_t1c e); [reflexivity | apply hs_k_t1c]. Qed.
Lemma hs_k_complete e r : hs_opts_ep (fst (hs_complete e r)) = hs_opts_ep e.
Proof. unfold hs_complete. destruct (hs_res_of e); cbn [fst]; first [apply hs_k_res | apply hs_k_frozen]. Qed.

Ltac hs_k :=
  repeat first [rewrite hs_k_complete | rewrite hs_k_started | rewrite hs_k_st | rewrite hs_k_caps | rewrite hs_k_use
               | rewrite hs_k_cookie | rewrite hs_k_sinit | rewrite hs_k_secho | rewrite hs_k_t1i | rewrite hs_k_t1c
               | rewrite hs_k_res | rewrite hs_k_frozen | rewrite hs_k_update_il | rewrite hs_k_start_t1i
               | rewrite hs_k_start_t1c]; try reflexivity.

Lemma hs_step_opts e ev : hs_opts_ep (fst (fst (hs_ep_step e ev))) = hs_opts_ep e.
Proof.
  unfold hs_ep_step. destruct (hs_frozen e); [reflexivity|].
  destruct ev as [|tok|p| |].
  - destruct (hs_started e); [reflexivity|]. unfold hs_start. destruct (hs_role_of e) eqn:Er; cbn [fst]; hs_k.
  - destruct (hs_started e); [reflexivity|]. unfold hs_start_snap. destruct tok; cbn [fst]; hs_k.
  - destruct (hs_started e); [|reflexivity]. destruct p; cbn [hs_deliver].
    + unfold hs_handle_init. destruct (hs_st e); cbn [fst]; hs_k.
    + unfold hs_handle_init_ack, hs_stop_t1i. destruct (hs_st e); cbn [fst]; try reflexivity. destruct ck; cbn [fst]; hs_k.
    + unfold hs_handle_cookie_echo, hs_establish, hs_stop_t1i, hs_stop_t1c.
      destruct (hs_cookie e); cbn [negb fst]; [|reflexivity].
      destruct (hs_st e), mine; cbn [fst]; try reflexivity;
        match goal with |- context [hs_complete ?x ?r] =>
          pose proof (hs_k_complete x r) as K; destruct (hs_complete x r) as [y ok]; cbn [fst] in *; rewrite K end; hs_k.
    + unfold hs_handle_cookie_ack, hs_establish, hs_stop_t1c. destruct (hs_st e); cbn [fst]; hs_k.
  - unfold hs_t1_init_expire. destruct (hs_t1i e); cbn [negb fst]; [|reflexivity].
    destruct (Nat.eqb hs_maxr 0 || Nat.leb (S (hs_ni e)) hs_maxr); cbn [fst]; hs_k.
  - unfold hs_t1_cookie_expire. destruct (hs_t1c e); cbn [negb fst]; [|reflexivity].
    destruct (Nat.eqb hs_maxr 0 || Nat.leb (S (hs_nc e)) hs_maxr); cbn [fst]; hs_k.
Qed.

Definition hs_opts (s : hs_sys) := (hs_opts_ep (hs_a s), hs_opts_ep (hs_b s)).

Lemma hs_apply_opts s sev : hs_opts (hs_apply s sev) = hs_opts s.
Proof.
  destruct sev as [[|] ev]; [rewrite hs_apply_b | rewrite hs_apply_a]; unfold hs_opts; cbn [hs_a hs_b];
    rewrite hs_step_opts; reflexivity.
Qed.

(* runs from one given initial state *)
Inductive hs_reach_from (s0 : hs_sys) : hs_sys -> Prop :=
| hs_rf_refl : hs_reach_from s0 s0
| hs_rf_step s sev : hs_reach_from s0 s -> In sev (hs_events s) -> hs_reach_from s0 (hs_apply s sev).

Lemma hs_reach_from_reachable s0 s : In s0 hs_inits -> hs_reach_from s0 s -> hs_reachable s.
Proof. intros Hi R. induction R; [apply hs_reach_init; exact Hi | eapply hs_reach_step; eassumption]. Qed.

Lemma hs_reach_from_opts s0 s : hs_reach_from s0 s -> hs_opts s = hs_opts s0.
Proof. intros R. induction R; [reflexivity | rewrite hs_apply_opts; exact IHR]. Qed.

Lemma hs_existsb_in x l : existsb (fun y => hs_sys_eqb y x) l = true -> In x l.
Proof.
  intros H. apply existsb_exists in H. destruct H as [y [Hy E]]. apply hs_sys_eqb_eq in E. subst. exact Hy.
Qed.

Lemma hs_init_in ra rb ila zca ilb zcb :
  In (ra, rb) hs_role_pairs -> In (hs_init_sys ra rb ila zca ilb zcb) hs_inits.
Proof.
  intros Hr. unfold hs_role_pairs in Hr. cbn [In] in Hr.
  destruct Hr as [E|[E|[E|[E|[]]]]]; inversion E; subst; destruct ila, zca, ilb, zcb;
    apply hs_existsb_in; vm_compute; reflexivity.
Qed.


(* ------------------------------------------------------------------ stale packets, universally *)

(* (d) stale handshake packets at an established endpoint: universal in the endpoint state and in the
   packet contents (no reachability hypothesis) *)
Theorem hs_stale_noop e :
  hs_st e = HsEstablished -> hs_started e = true -> hs_frozen e = false ->
  (forall f i g z, hs_ep_step e (HsDeliver (HsInit f i g z)) = (e, [], HsEInitState)) /\
  (forall f i g z c, hs_ep_step e (HsDeliver (HsInitAck f i g z c)) = (e, [], HsENone)) /\
  hs_ep_step e (HsDeliver HsCookieAck) = (e, [], HsENone) /\
  (hs_cookie e = true -> hs_ep_step e (HsDeliver (HsCookieEcho true)) = (e, [HsCookieAck], HsENone)) /\
  hs_ep_step e (HsDeliver (HsCookieEcho false)) = (e, [], HsENone) /\
  (hs_cookie e = false -> forall m, hs_ep_step e (HsDeliver (HsCookieEcho m)) = (e, [], HsENone)).
Proof.
  intros Es St Fr. unfold hs_ep_step. rewrite Fr, St. cbn [hs_deliver].
  unfold hs_handle_init, hs_handle_init_ack, hs_handle_cookie_ack, hs_handle_cookie_echo. rewrite Es.
  repeat split; try reflexivity.
  - intros C. rewrite C. reflexivity.
  - destruct (hs_cookie e); reflexivity.
  - intros C m. rewrite C. reflexivity.
Qed.

(* ------------------------------------------------------------------ (f) the T1 bound *)

Fixpoint hs_t1i_iter (k : nat) (e : hs_ep) : hs_ep :=
  match k with O => e | S k' => fst (fst (hs_ep_step (hs_t1i_iter k' e) HsT1Init)) end.
Fixpoint hs_t1c_iter (k : nat) (e : hs_ep) : hs_ep :=
  match k with O => e | S k' => fst (fst (hs_ep_step (hs_t1c_iter k' e) HsT1Cookie)) end.

Lemma hs_t1i_iter_run e k :
  hs_frozen e = false -> hs_t1i e = true -> hs_ni e = 0 -> k <= hs_maxr ->
  hs_t1i_iter k e = hs_with_t1i e true k.
Proof.
  intros Fr Ht Hn. induction k as [|k IH]; intros Hk.
  - cbn. destruct e; cbn in *; subst; reflexivity.
  - cbn [hs_t1i_iter]. rewrite IH by lia. unfold hs_ep_step, hs_t1_init_expire.
    replace (hs_frozen (hs_with_t1i e true k)) with (hs_frozen e) by (destruct e; reflexivity).
    rewrite Fr, hs_t1i_with_t1i. cbn [negb].
    replace (hs_ni (hs_with_t1i e true k)) with k by (destruct e; reflexivity).
    rewrite hs_maxr_nz. cbn [orb]. destruct (Nat.leb_spec (S k) hs_maxr); [|lia].
    cbn [fst]. apply hs_with_t1i_twice.
Qed.

Lemma hs_t1c_iter_run e k :
  hs_frozen e = false -> hs_t1c e = true -> hs_nc e = 0 -> k <= hs_maxr ->
  hs_t1c_iter k e = hs_with_t1c e true k.
Proof.
  intros Fr Ht Hn. induction k as [|k IH]; intros Hk.
  - cbn. destruct e; cbn in *; subst; reflexivity.
  - cbn [hs_t1c_iter]. rewrite IH by lia. unfold hs_ep_step, hs_t1_cookie_expire.
    replace (hs_frozen (hs_with_t1c e true k)) with (hs_frozen e) by (destruct e; reflexivity).
    rewrite Fr, hs_t1c_with_t1c. cbn [negb].
    replace (hs_nc (hs_with_t1c e true k)) with k by (destruct e; reflexivity).
    rewrite hs_maxr_nz. cbn [orb]. destruct (Nat.leb_spec (S k) hs_maxr); [|lia].
    cbn [fst]. apply hs_with_t1c_twice.
Qed.

(* T1-init started (counter 0), nothing else happening at this endpoint: the first maxInitRetrans expiries
   each retransmit the stored INIT and report nothing; expiry number maxInitRetrans+1 stops the timer and
   hands ErrHandshakeInitAck to the connect call.  hs_maxr is the generated constant. *)
Theorem hs_t1_init_bounded e :
  hs_frozen e = false -> hs_t1i e = true -> hs_ni e = 0 -> hs_res_of e = HsResNone ->
  (forall k, k < hs_maxr ->
     hs_ep_step (hs_t1i_iter k e) HsT1Init =
       (hs_with_t1i e true (S k), if hs_sinit e then [hs_my_init e] else [], HsENone)) /\
  (forall k, k <= hs_maxr -> hs_res_of (hs_t1i_iter k e) = HsResNone /\ hs_t1i (hs_t1i_iter k e) = true) /\
  hs_res_of (hs_t1i_iter (S hs_maxr) e) = HsResErrInit /\
  hs_t1i (hs_t1i_iter (S hs_maxr) e) = false /\
  hs_maxr = Z.to_nat c_maxInitRetrans.
Proof.
  intros Fr Ht Hn Rs. repeat split.
  - intros k Hk. rewrite hs_t1i_iter_run by (try assumption; lia).
    unfold hs_ep_step, hs_t1_init_expire, hs_my_init.
    replace (hs_frozen (hs_with_t1i e true k)) with (hs_frozen e) by (destruct e; reflexivity).
    rewrite Fr, hs_t1i_with_t1i. cbn [negb].
    replace (hs_ni (hs_with_t1i e true k)) with k by (destruct e; reflexivity).
    rewrite hs_maxr_nz. cbn [orb]. destruct (Nat.leb_spec (S k) hs_maxr); [|lia].
    rewrite hs_with_t1i_twice. destruct e; reflexivity.
  - rewrite hs_t1i_iter_run by assumption. destruct e; cbn in *; assumption.
  - rewrite hs_t1i_iter_run by assumption. apply hs_t1i_with_t1i.
  - cbn [hs_t1i_iter]. rewrite hs_t1i_iter_run by (try assumption; lia).
    unfold hs_ep_step, hs_t1_init_expire.
    replace (hs_frozen (hs_with_t1i e true hs_maxr)) with (hs_frozen e) by (destruct e; reflexivity).
    rewrite Fr, hs_t1i_with_t1i. cbn [negb].
    replace (hs_ni (hs_with_t1i e true hs_maxr)) with hs_maxr by (destruct e; reflexivity).
    rewrite hs_maxr_nz. cbn [orb]. destruct (Nat.leb_spec (S hs_maxr) hs_maxr); [lia|].
    unfold hs_complete. rewrite hs_with_t1i_twice.
    replace (hs_res_of (hs_with_t1i e false (S hs_maxr))) with (hs_res_of e) by (destruct e; reflexivity).
    rewrite Rs. destruct e; reflexivity.
  - cbn [hs_t1i_iter]. rewrite hs_t1i_iter_run by (try assumption; lia).
    unfold hs_ep_step, hs_t1_init_expire.
    replace (hs_frozen (hs_with_t1i e true hs_maxr)) with (hs_frozen e) by (destruct e; reflexivity).
    rewrite Fr, hs_t1i_with_t1i. cbn [negb].
    replace (hs_ni (hs_with_t1i e true hs_maxr)) with hs_maxr by (destruct e; reflexivity).
    rewrite hs_maxr_nz. cbn [orb]. destruct (Nat.leb_spec (S hs_maxr) hs_maxr); [lia|].
    unfold hs_complete. rewrite hs_with_t1i_twice.
    replace (hs_res_of (hs_with_t1i e false (S hs_maxr))) with (hs_res_of e) by (destruct e; reflexivity).
    rewrite Rs. destruct e; reflexivity.
Qed.

Theorem hs_t1_cookie_bounded e :
  hs_frozen e = false -> hs_t1c e = true -> hs_nc e = 0 -> hs_res_of e = HsResNone ->
  (forall k, k < hs_maxr ->
     hs_ep_step (hs_t1c_iter k e) HsT1Cookie =
       (hs_with_t1c e true (S k), if hs_secho e then [HsCookieEcho true] else [], HsENone)) /\
  (forall k, k <= hs_maxr -> hs_res_of (hs_t1c_iter k e) = HsResNone /\ hs_t1c (hs_t1c_iter k e) = true) /\
  hs_res_of (hs_t1c_iter (S hs_maxr) e) = HsResErrCookie /\
  hs_t1c (hs_t1c_iter (S hs_maxr) e) = false.
Proof.
  intros Fr Ht Hn Rs. repeat split.
  - intros k Hk. rewrite hs_t1c_iter_run by (try assumption; lia).
    unfold hs_ep_step, hs_t1_cookie_expire.
    replace (hs_frozen (hs_with_t1c e true k)) with (hs_frozen e) by (destruct e; reflexivity).
    rewrite Fr, hs_t1c_with_t1c. cbn [negb].
    replace (hs_nc (hs_with_t1c e true k)) with k by (destruct e; reflexivity).
    rewrite hs_maxr_nz. cbn [orb]. destruct (Nat.leb_spec (S k) hs_maxr); [|lia].
    rewrite hs_with_t1c_twice. destruct e; reflexivity.
  - rewrite hs_t1c_iter_run by assumption. destruct e; cbn in *; assumption.
  - rewrite hs_t1c_iter_run by assumption. apply hs_t1c_with_t1c.
  - cbn [hs_t1c_iter]. rewrite hs_t1c_iter_run by (try assumption; lia).
    unfold hs_ep_step, hs_t1_cookie_expire.
    replace (hs_frozen (hs_with_t1c e true hs_maxr)) with (hs_frozen e) by (destruct e; reflexivity).
    rewrite Fr, hs_t1c_with_t1c. cbn [negb].
    replace (hs_nc (hs_with_t1c e true hs_maxr)) with hs_maxr by (destruct e; reflexivity).
    rewrite hs_maxr_nz. cbn [orb]. destruct (Nat.leb_spec (S hs_maxr) hs_maxr); [lia|].
    unfold hs_complete. rewrite hs_with_t1c_twice.
    replace (hs_res_of (hs_with_t1c e false (S hs_maxr))) with (hs_res_of e) by (destruct e; reflexivity).
    rewrite Rs. destruct e; reflexivity.
  - cbn [hs_t1c_iter]. rewrite hs_t1c_iter_run by (try assumption; lia).
    unfold hs_ep_step, hs_t1_cookie_expire.
    replace (hs_frozen (hs_with_t1c e true hs_maxr)) with (hs_frozen e) by (destruct e; reflexivity).
    rewrite Fr, hs_t1c_with_t1c. cbn [negb].
    replace (hs_nc (hs_with_t1c e true hs_maxr)) with hs_maxr by (destruct e; reflexivity).
    rewrite hs_maxr_nz. cbn [orb]. destruct (Nat.leb_spec (S hs_maxr) hs_maxr); [lia|].
    unfold hs_complete. rewrite hs_with_t1c_twice.
    replace (hs_res_of (hs_with_t1c e false (S hs_maxr))) with (hs_res_of e) by (destruct e; reflexivity).
    rewrite Rs. destruct e; reflexivity.
Qed.

(* time of the failure, in whole milliseconds: sum over n = 0..maxInitRetrans of min(rto * 2^n, rtoMax) *)
Local Open Scope Z_scope.

Lemma hs_next_timeout_le rto n rtoMax : hs_next_timeout_ms rto n rtoMax <= rtoMax.
Proof. unfold hs_next_timeout_ms. destruct (Nat.ltb n 31); lia. Qed.

Lemma hs_next_timeout_nonneg rto n rtoMax : 0 <= rto -> 0 <= rtoMax -> 0 <= hs_next_timeout_ms rto n rtoMax.
Proof.
  intros. unfold hs_next_timeout_ms. destruct (Nat.ltb n 31); [|lia].
  apply Z.min_glb; [|lia]. apply Z.mul_nonneg_nonneg; [lia|]. apply Z.pow_nonneg. lia.
Qed.

Lemma hs_t1_expiry_time_le rto rtoMax k : hs_t1_expiry_time rto rtoMax k <= Z.of_nat k * rtoMax.
Proof.
  induction k as [|k IH]; [cbn; lia|].
  cbn [hs_t1_expiry_time]. pose proof (hs_next_timeout_le rto k rtoMax). lia.
Qed.

Lemma hs_t1_expiry_time_mono rto rtoMax k : 0 <= rto -> 0 <= rtoMax ->
  hs_t1_expiry_time rto rtoMax k <= hs_t1_expiry_time rto rtoMax (S k).
Proof. intros. cbn [hs_t1_expiry_time]. pose proof (hs_next_timeout_nonneg rto k rtoMax). lia. Qed.

(* the connect call has its error after at most (maxInitRetrans+1) * rtoMax; with the defaults
   (RTO.Initial = 1 s, RTO.Max = 60 s) after exactly 243 s *)
Theorem hs_t1_fail_time_bound rto rtoMax :
  hs_t1_fail_time rto rtoMax <= (c_maxInitRetrans + 1) * rtoMax.
Proof.
  unfold hs_t1_fail_time. pose proof (hs_t1_expiry_time_le rto rtoMax (S hs_maxr)) as H.
  replace (Z.of_nat (S hs_maxr)) with (c_maxInitRetrans + 1) in H by (vm_compute; reflexivity). exact H.
Qed.

Theorem hs_t1_fail_time_default :
  hs_t1_fail_time 1000 60000 = 243000 /\
  map (hs_t1_expiry_time 1000 60000) [1; 2; 3; 4; 5; 6; 7; 8; 9]%nat =
    [1000; 3000; 7000; 15000; 31000; 63000; 123000; 183000; 243000].
Proof. vm_compute. split; reflexivity. Qed.

(* updateInterleavingState, for arbitrary peer capabilities (also those a foreign implementation may announce) *)
Lemma hs_update_il_consistent : forall e,
  let e' := hs_update_il e in
  hs_uil e' = hs_lil e && hs_pil e /\
  (hs_ufwd e' = true -> hs_uil e' = false) /\ (hs_uifwd e' = true -> hs_uil e' = true).
Proof.
  intros e. unfold hs_update_il. destruct (hs_lil e && hs_pil e) eqn:E; destruct e; cbn in *; rewrite ?E;
    repeat split; try reflexivity; try discriminate; auto.
Qed.
