package sctp

// C20 "the delivery guarantees keep holding" for concurrent writers in blocking-write mode: several
// goroutines write on the SAME ordered stream while another goroutine keeps moving the stream's write
// deadline, so that blocked writes fail at random and roll their sequence number back while other
// writers are queued behind them; the reader is slow so that writes do block.  Afterwards the deadline
// is cleared, everything drains, and every write that returned nil must have been delivered exactly
// once, in each writer's order.  A sequence number lost or used twice by a racing roll-back leaves the
// receiver waiting for ever: reported as C20ORDER.

import (
	"context"
	"encoding/binary"
	"errors"
	"fmt"
	"math/rand"
	"os"
	"sync"
	"sync/atomic"
	"testing"
	"time"
)

func c20BlockingStormOnce(seed int64, st *c20Stats) {
	rng := rand.New(rand.NewSource(seed))
	il := rng.Intn(2) == 0
	a, b, err := c20Pair(true, 0, WithEnableInterleaving(il))
	if err != nil {
		fmt.Printf("C20STUCK seed=%d phase=handshake err=%v\n", seed, err)
		atomic.AddInt64(&st.stuck, 1)
		return
	}
	defer func() { _ = a.Close(); _ = b.Close() }()
	s, err := a.OpenStream(3, PayloadTypeWebRTCBinary)
	if err != nil {
		fmt.Printf("C20STUCK seed=%d phase=open err=%v\n", seed, err)
		atomic.AddInt64(&st.stuck, 1)
		return
	}
	nWriters := int(verifEnvInt("VERIF_WRITERS", 4))
	okCount := make([]uint32, nWriters) // writes that returned nil, per writer
	var stopSetter atomic.Bool
	var wg sync.WaitGroup
	stop := make(chan struct{})
	// deadline mover
	wg.Add(1)
	go func() {
		defer wg.Done()
		r := rand.New(rand.NewSource(seed + 1))
		for !stopSetter.Load() {
			if verifEnvInt("VERIF_NODEADLINE", 0) == 1 {
				time.Sleep(time.Millisecond)
				continue
			}
			_ = s.SetWriteDeadline(time.Now().Add(time.Duration(r.Intn(1500)) * time.Microsecond))
			time.Sleep(time.Duration(100+r.Intn(900)) * time.Microsecond)
			atomic.AddInt64(&st.apiCalls, 1)
		}
		_ = s.SetWriteDeadline(time.Time{})
	}()
	for w := 0; w < nWriters; w++ {
		w := w
		wg.Add(1)
		go func() {
			defer wg.Done()
			defer c20Guard(st, "blocking-writer")
			r := rand.New(rand.NewSource(seed*10 + int64(w)))
			for {
				select {
				case <-stop:
					return
				default:
				}
				n := 8 + r.Intn(2500)
				_, err := s.WriteSCTP(c20Msg(3, uint16(w), okCount[w], n), PayloadTypeWebRTCBinary)
				if err == nil {
					okCount[w]++
					atomic.AddInt64(&st.writes, 1)
				} else {
					atomic.AddInt64(&st.writeErrs, 1)
					if !errors.Is(err, os.ErrDeadlineExceeded) && !errors.Is(err, context.DeadlineExceeded) {
						return
					}
				}
			}
		}()
	}
	// slow reader on b
	got := make(chan [2]uint32, 1<<16)
	rs, err := b.AcceptStream()
	if err != nil {
		fmt.Printf("C20STUCK seed=%d phase=accept err=%v\n", seed, err)
		atomic.AddInt64(&st.stuck, 1)
		close(stop)
		stopSetter.Store(true)
		return
	}
	readerDone := make(chan struct{})
	go func() {
		defer close(readerDone)
		buf := make([]byte, 70000)
		r := rand.New(rand.NewSource(seed + 2))
		for {
			n, _, err := rs.ReadSCTP(buf)
			if err != nil {
				return
			}
			atomic.AddInt64(&st.reads, 1)
			if n >= 8 {
				got <- [2]uint32{uint32(binary.BigEndian.Uint16(buf[2:])), binary.BigEndian.Uint32(buf[4:])}
			}
			if r.Intn(3) == 0 {
				time.Sleep(time.Duration(r.Intn(400)) * time.Microsecond)
			}
		}
	}()
	time.Sleep(time.Duration(60+rng.Intn(60)) * time.Millisecond)
	close(stop)
	stopSetter.Store(true)
	if !c20WaitTimeout(&wg, 60*time.Second) {
		fmt.Printf("C20STUCK seed=%d phase=blocking-writers-do-not-return\n", seed)
		atomic.AddInt64(&st.stuck, 1)
		return
	}
	// drain: every accepted write must arrive
	want := uint32(0)
	for w := 0; w < nWriters; w++ {
		want += okCount[w]
	}
	next := make([]uint32, nWriters)
	recvd := uint32(0)
	deadline := time.After(45 * time.Second)
	bad := false
	for recvd < want && !bad {
		select {
		case g := <-got:
			w, seq := g[0], g[1]
			if int(w) >= nWriters || seq != next[w] {
				atomic.AddInt64(&st.order, 1)
				fmt.Printf("C20ORDER seed=%d blocking-write storm (il=%v): writer=%d got_seq=%d want_seq=%d\n", seed, il, w, seq, next[w])
				bad = true
			} else {
				next[w]++
				recvd++
			}
		case <-deadline:
			atomic.AddInt64(&st.order, 1)
			a.lock.RLock()
			diagA := fmt.Sprintf("sender: state=%s pending=%d inflight=%d writePending=%v cwnd=%d rwnd=%d ssn=%d omid=%d", getAssociationStateString(a.getState()),
				a.pendingQueue.size(), a.inflightQueue.size(), a.writePending, a.CWND(), a.RWND(), s.sequenceNumber, s.nextOrderedMID)
			a.lock.RUnlock()
			rs.lock.RLock()
			rq := rs.reassemblyQueue
			diagB := fmt.Sprintf("receiver: nextSSN=%d nextMID=%d ordered_sets=%d orderedMID_sets=%d readable=%v bytes=%d", rq.nextSSN, rq.nextMID, len(rq.ordered), len(rq.orderedMID), rq.isReadable(), rq.getNumBytes())
			if len(rq.ordered) > 0 {
				diagB += fmt.Sprintf(" head(ssn=%d complete=%v)", rq.ordered[0].ssn, rq.ordered[0].isComplete())
			}
			if len(rq.orderedMID) > 0 {
				diagB += fmt.Sprintf(" headMID(mid=%d nchunks=%d)", rq.orderedMID[0].mid, len(rq.orderedMID[0].chunks))
			}
			rs.lock.RUnlock()
			fmt.Printf("C20ORDER seed=%d blocking-write storm (il=%v): %d writes returned nil but only %d messages were delivered within 45 s after the storm (per writer accepted=%v delivered=%v, sender buffered=%d) %s; %s\n",
				seed, il, want, recvd, okCount, next, a.BufferedAmount(), diagA, diagB)
			bad = true
		}
	}
}

func TestVerifC20BlockingStorm(t *testing.T) {
	seed := verifEnvInt("VERIF_SEED", 1)
	n := verifEnvInt("VERIF_N", 6)
	st := &c20Stats{}
	t0 := time.Now()
	for i := int64(0); i < n; i++ {
		c20BlockingStormOnce(seed*104729+i, st)
	}
	fmt.Printf("C20STORM iterations=%d writes=%d write_errs=%d reads=%d read_timeouts=%d callbacks=%d api_calls=%d order_violations=%d stuck=%d panics=%d wall_ms=%d\n",
		n, st.writes, st.writeErrs, st.reads, st.readTimeouts, st.callbacks, st.apiCalls, st.order, st.stuck, st.panics, time.Since(t0).Milliseconds())
}
