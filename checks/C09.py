"""C09 — teardown (partial): Close / Abort / transport failure at any moment terminates the association cleanly."""
import os
import vlib, simcommon

PROP = "C09"
PROPS_FILE = "props/C09.v"
COQ_FILES = ["gen/Gen.v", "model/Teardown.v", "proofs/TeardownProofs.v", "proofs/TeardownHsProofs.v",
             "proofs/TeardownEstProofs.v", "proofs/TeardownSdProofs.v", "proofs/TeardownClose2Proofs.v",
             "proofs/TeardownT1Proofs.v", "proofs/TeardownDlProofs.v", "proofs/TeardownMainProofs.v", "props/C09.v"]
TRUSTED_BASE = [
    "Coq 8.16.1 kernel incl. its bytecode VM: the reachable sets of the finite model are computed and their closure / "
    "per-state / rank certificates are checked by vm_compute inside proofs (vm_cast_no_check, re-checked by the kernel at Qed); "
    "no native_compute; stdlib FSetPositive / FMapPositive as set and map",
    "hand-written model coq/model/Teardown.v of association.go (readLoop and its deferred exit path, writeLoop, gatherOutbound "
    "abstracted to the kind of batch it returns, timerLoop, Close/close/closeNetConn, Abort, completeHandshake, handleAbort, "
    "handleShutdownComplete, Client/Server wait, Shutdown wait, AcceptStream, sendPayloadData's blocking wait, "
    "unblockPendingWrites, unregisterStream), stream.go (ReadSCTP's wait loop), rtx_timer.go / ack_timer.go (close is final)",
    "modelled, not verified (this is why the property is partial): goroutine scheduling (the theorems are about every "
    "interleaving and about reachability of termination, not about a scheduler's fairness), channel / sync.Once / sync.Mutex / "
    "sync.Cond semantics, the time runtime (the 200 ms waits of Abort are steps that are always enabled), net.Conn "
    "(Close unblocks Read; Read fails for ever once a past read deadline is set; Write returns, it does not block)",
    "extraction (ExtrOcamlBasic) + ocaml/cmp_teardown.ml; simulator go/inpkg/zz_verif_sim_test.go and crash-point harness "
    "go/inpkg/zz_verif_simteardown_test.go (overlay, testing/synctest of go1.26.8, goroutine dumps via runtime.Stack)",
]
ASSUMPTIONS = [
    "families: phase (handshake | established | shutdown) x one injection (Close, Abort, conn.Read fails, conn.Write fails, "
    "inbound ABORT) happening at most once at any point x one blocked caller kind (connect wait always during the handshake); "
    "a further Close() racing with everything in td_families_close2; an armed read deadline with nobody reading in td_families_deadline; callers do not interact with each other except through "
    "the association (one caller kind per family keeps the sets small: 3 300 .. 40 000 states)",
    "T1 exhaustion during the handshake is covered (td_families_t1 is part of td_all_families); the faithful model refuted "
    "termination there twice, both refutations were reproduced on the implementation and repaired in /repo (D27 aeda016, "
    "D31 c7c80cb); 'close() of a timer is final' is an assumption of the model, tied to the code by TestVerifSimTeardownTimerFinal",
]
LEVEL_TEXT = ("Coq theorems over every interleaving of the goroutine / caller automata of a finite model of one association: "
              "no reachable state without an enabled step is unfinished (all goroutines ended, all blocked callers returned, "
              "timers closed), a finished state is reachable from every reachable state (rank certificate), at most one "
              "conn.Write is attempted after the conn was closed by this side and it fails, a Close() after a returned Close() "
              "is a no-op step by step, the error readers get carries the cause of the handled ABORT, no channel is closed "
              "twice. Reachable sets computed by a worklist and certified by the closure lemma proved once by induction on "
              "runs. The model is tied to the code by crash-point enumeration on two real associations in a synctest bubble: "
              "every caller's outcome at every crash point must be an outcome of that caller in a final state of the model "
              "family; the monitors look for blocked callers, live goroutines, open timers, writes after close, leaks.")
LEVEL_NOTE = ("Partial by design: scheduler fairness, channel/Cond/Mutex semantics, timers and net.Conn are modelled. Trusted: "
              "Coq kernel + VM, hand model Teardown.v, extraction, simulator. The two former refutations (T1 exhaustion: late "
              "handshake completion, failure callback racing with the completion) were observed on the implementation, repaired "
              "there, and are positive theorems now; their scenarios stay as regressions.")
TECHNIQUE = "Coq proof (finite-state closure + rank certificates by vm_compute) + crash-point enumeration on simulated associations"

_classify = simcommon.classify(PROP)


def _crashpoints(ctx, name, env, timeout=2400):
    """One harness run gives both the trace for the comparator and the monitor lines."""
    trace = os.path.join(ctx.tmp, name + ".trace")
    e = dict(VERIF_SEED=ctx.seed)
    e.update(env)
    e["VERIF_OUT"] = trace
    r = vlib.run_harness("TestVerifSimTeardown", e, timeout=timeout)
    out = r["out"]
    fails = [l for l in out.splitlines() if l.startswith("SIMFAIL prop=%s " % PROP)]
    summ = [l for l in out.splitlines() if l.startswith("SIMTEARDOWN")]
    crashed = r["rc"] != 0 and ("panic:" in out or "fatal error:" in out)
    if crashed:
        cur = ""
        try:
            cur = open(trace + ".cur").read().strip()
        except OSError:
            pass
        first = [l for l in out.splitlines() if l.startswith(("panic:", "fatal error:"))][:1]
        fails.append("SIMFAIL prop=%s the implementation crashed: %s (panic) | crashpoint=%s" % (PROP, first[0] if first else "?", cur))
    elif r["rc"] != 0 and not fails:
        ctx.broken.append(("correspondence", name, "harness run failed (rc=%s): %s" % (r["rc"], out[-1500:])))
    renv = {k: v for k, v in e.items() if k != "VERIF_OUT"}   # (the trace path is a temp name: keep replay files stable)
    for l in fails:
        ctx.concrete.append(dict(property=PROP, what=l[:700], key=_classify(l), monitor=name, test="TestVerifSimTeardown", env=renv))
    ctx.corr.append(dict(name=name + "-monitors", ok=not fails and r["rc"] == 0, records=0, failures=len(fails),
                         summary=summ[-1][:3000] if summ else "", wall_s=round(r["wall"], 2)))
    if not os.path.exists(trace) or crashed:
        if not crashed:
            ctx.corr.append(dict(name=name, ok=False, records=0, detail="no trace"))
        return
    c = vlib.run_cmp("teardown", trace, timeout=timeout)
    ok = c["rc"] == 0 and not c["mismatches"] and c["summary"].get("records", 0) > 0
    ctx.corr.append(dict(name=name, ok=ok, records=c["summary"].get("records", 0), cases=c["summary"].get("cases", 0),
                         mismatches=len(c["mismatches"]), dist=c["summary"].get("dist", ""), wall_s=round(c["wall"], 2), env=e))
    if not ok:
        ctx.broken.append(("correspondence", name, "\n".join(c["mismatches"][:5]) or c["raw"][-1500:]))
    try:
        with open(trace) as f:
            head = [next(f).strip() for _ in range(30)]
        ctx.samples.append({"trace": name, "first_lines": head[:14]})
    except (StopIteration, OSError):
        pass


def correspondence(ctx):
    # quick: every second (crash point, injection, side) combination, the T1 scenario always; thorough: all of them, three
    # times (the non-quiescent injection races with the write loop)
    _crashpoints(ctx, "teardown-crashpoints",
                 {"VERIF_TD_STRIDE": ctx.scale(2, 1), "VERIF_TD_REPEAT": ctx.scale(1, 3)})
    simcommon.sim_monitor(ctx, "read-deadline-goroutine", "TestVerifSimTeardownDeadline", {}, "SIMTDDEADLINE")
    # the terminal read error (and the abort cause) survives a read deadline that expires after the stream ended
    simcommon.sim_monitor(ctx, "read-error-after-deadline", "TestVerifSimTeardownDeadlineErr", {}, "SIMTDDEADLINEERR")
    # close() of rtxTimer / ackTimer is final (an assumption of the model and of closeAllTimers): all call
    # sequences over start/stop/close up to length 5
    simcommon.sim_monitor(ctx, "closed-timers-stay-closed", "TestVerifSimTeardownTimerFinal", {}, "SIMTDTIMER")
    # regression for D31 (T1 failure callback racing with the completion of the handshake, fixed by c7c80cb): the
    # Go scheduler decides the order, so this is a search with a budget; it stops at the first observed failure
    simcommon.sim_monitor(ctx, "t1-callback-race", "TestVerifSimTeardownT1Race", {"VERIF_N": ctx.scale(12000, 60000)}, "SIMTDRACE")


def search(ctx):
    simcommon.sim_monitor(ctx, "t1-callback-race-wide", "TestVerifSimTeardownT1Race", {"VERIF_N": 100000}, "SIMTDRACE")
    _crashpoints(ctx, "teardown-crashpoints-all", {"VERIF_TD_STRIDE": 1, "VERIF_TD_REPEAT": 4, "VERIF_SEED": ctx.seed + 17})
