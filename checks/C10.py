"""C10 — the sender honours congestion window, peer receive window and MTU."""
import vlib, simcommon

PROP = "C10"
PROPS_FILE = "props/C10.v"
COQ_FILES = ["gen/Gen.v", "proofs/SnaProofs.v", "model/Sender.v", "proofs/SenderProofs.v", "proofs/SenderGrowth.v", "props/C10.v"]
TRUSTED_BASE = [
    "Coq 8.16.1 kernel; vm_compute only in Examples / witnesses; no native_compute",
    "hand-written model coq/model/Sender.v of association.go (handleSack, processSelectiveAck, onCumulativeTSNAckPointAdvanced, "
    "processFastRetransmission, admission test of popPendingDataChunksToSend, T3 branch of onRetransmissionTimeout); "
    "translator for maxPayloadSizeForMTU / serial arithmetic",
    "extraction (ExtrOcamlBasic) + ocaml/cmp_sender.ml; simulator harness go/inpkg/zz_verif_sim*_test.go (overlay, synctest, go1.26.8)",
    "modelled, not verified: RTT/RTO, RACK/PTO marking, TLR burst gate (can only stop a gather early), timers, goroutine scheduling",
]
ASSUMPTIONS = [
    "theorem hypotheses: fewer than 4 GiB of user data outstanding (uint32 conversions in the code), cwnd < 2^31 for the floor lemma",
    "'cut on every loss signal' is proved as the RFC formulas (T3: cwnd=max(MTU,MinCwnd); fast recovery: cwnd=max(cwnd/2,4*MTU)); "
    "entering fast recovery with cwnd < 4*MTU raises cwnd to 4*MTU as RFC 4960 7.2.3 prescribes",
]
LEVEL_TEXT = ("Coq theorems over all histories of SACKs with arbitrary contents, T3 expiries, writes and gathers: every first "
              "transmission is within cwnd and within the last advertised a_rwnd or is the lone probe; cwnd floor through every "
              "SACK/T3 and the growth law of a SACK (no growth without an advancing ack point and waiting data; at most cwnd in slow "
              "start, at most max(MTU, cwndCAStep) in congestion avoidance); fragment and packet size bounds from the generated maxPayloadSizeForMTU. The model is tied to the code by "
              "step-commuting records from simulated associations: every field of the projection (cwnd, rwnd, ssthresh, "
              "partial_bytes_acked, fast-recovery flags, miss indicators, per-chunk state, byte counters) is compared after every "
              "SACK / write / T3 event, and every chunk the implementation moves must be admitted by the model.")
LEVEL_NOTE = ("Trusted: Coq kernel, hand model Sender.v, extraction, simulator. The wire monitor (outstanding bytes vs cwnd at "
              "emission and vs the a_rwnd of the last delivered SACK; packet size vs MTU) searches for concrete failing histories.")
TECHNIQUE = "Coq proof (invariant over histories) + step-commuting correspondence on simulated associations"


def correspondence(ctx):
    vlib.differential(ctx, "sender-step-commuting", "TestVerifSimSender", "sender",
                      {"VERIF_N": ctx.scale(40, 1500), "VERIF_EVENTS": 250}, timeout=3000)
    simcommon.transfer(ctx)
    simcommon.sim_monitor(ctx, "probe-window-scenario", "TestVerifScenProbeWindow", {}, "SCENPROBE")


def search(ctx):
    simcommon.sim_monitor(ctx, "sim-transfer-wide", "TestVerifSimTransfer",
                          {"VERIF_N": 600, "VERIF_EVENTS": 300, "VERIF_SEED": ctx.seed + 17}, "SIMTRANSFER")
