"""C05 — selective acknowledgements tell the truth about what was received."""
import os
import vlib, simcommon

PROP = "C05"
PROPS_FILE = "props/C05.v"
COQ_FILES = ["gen/Gen.v", "proofs/SnaProofs.v", "model/RPQ.v", "proofs/RPQProofs.v", "proofs/RPQWordProofs.v", "props/C05.v"]
TRUSTED_BASE = [
    "Coq 8.16.1 kernel; vm_compute only in Examples/refutation witnesses; no native_compute",
    "translator (serial arithmetic, getMaxTSNOffset) + hand-written model coq/model/RPQ.v of receive_payload_queue.go",
    "extraction (ExtrOcamlBasic only) + /verif/ocaml/cmp_rpq.ml; Go harness zz_verif_rpq_test.go (overlay)",
    "modelled, not verified: the []uint64 bitmap is a set of bit positions; the word-by-word gap scan of getGapAckBlocks "
    "is transcribed as gap_blocks_w (TSN arithmetic, uint16 truncations, per-word first-(non)zero-bit search) and proved "
    "equal to the bit-level specification gap_blocks for every reachable state of every configurable window "
    "(c05_word_scan_is_spec); both are also compared with the implementation",
]
ASSUMPTIONS = [
    "association level: every SACK emitted in simulated runs is re-derived (cumulative TSN, gap blocks) by the model from the emitter's "
    "receive-queue state, and the wire monitor checks it against the TSNs actually delivered to that endpoint",
]


def correspondence(ctx):
    corpus = os.path.join(vlib.VERIF, "corpus/rpq.ops")
    vlib.differential(ctx, "rpq-differential", "TestVerifRPQ", "rpq",
                      {"VERIF_N": ctx.scale(250, 6000), "VERIF_OPS": ctx.scale(120, 200), "VERIF_CORPUS": corpus})
    vlib.differential(ctx, "sacks-on-the-simulated-wire", "TestVerifSimSack", "rpq",
                      {"VERIF_N": ctx.scale(40, 1200), "VERIF_EVENTS": 250}, timeout=3000)
    vlib.monitor(ctx, "rpq-offset-sweep", "TestVerifRPQShift",
                 {"VERIF_N": ctx.scale(60, 600), "VERIF_BASES": ctx.scale(12, 64)},
                 fail_prefixes=("SHIFTDIFF",),
                 classify=lambda l: "rpq-ring-alias-wrap" if "words_divides_2p26=0" in l else "rpq-shift-other",
                 summary_prefix="RPQSHIFT")
    simcommon.wire_sack_monitor(ctx)
    vlib.monitor(ctx, "rpq-sack-truth", "TestVerifRPQTruth", {"VERIF_N": ctx.scale(300, 6000)},
                 fail_prefixes=("SACKLIE",), classify=lambda l: "sack-lie", summary_prefix="RPQTRUTH")


def search(ctx):
    vlib.monitor(ctx, "rpq-sack-truth-wide", "TestVerifRPQTruth", {"VERIF_N": 5000, "VERIF_SEED": ctx.seed + 11},
                 fail_prefixes=("SACKLIE",), classify=lambda l: "sack-lie", summary_prefix="RPQTRUTH")

LEVEL_TEXT = ("Coq theorems over all histories (arrivals in any order with duplicates, pops, forward-TSNs), all initial TSNs "
              "(unbounded ghost index, wrap included) and all window sizes: gap blocks sound and complete, cumulative point "
              "justified and monotone, acceptance rule, ring-index injectivity for the word count chosen by the code. "
              "Model tied to receive_payload_queue.go by an operation-sequence differential (state dump after every op) "
              "and a ghost-receiver monitor on the implementation.")
LEVEL_NOTE = ("Trusted: Coq kernel, hand-written model RPQ.v (bitmap as set of positions; gap scan at bit level, the word-level "
              "transcription gap_blocks_w is compared too), extraction, harness. Hypothesis of the theorems: sequence numbers "
              "of arrivals stay within 2^31 of the cumulative point (bounded packet lifetime).")
TECHNIQUE = "Coq proof (invariant + refinement to ghost history) + differential correspondence"
