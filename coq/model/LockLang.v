(* C20 — the abstract language emitted by /verif/go/locktranslator (coq/gen/LockGraph.v) and the
   per-goroutine lock state.  Definitions only.

   A goroutine's view of the mutex classes is a [lockset]: for every class, whether this goroutine
   holds it for writing (Lock), for reading (RLock) or not at all.  Mutex classes are
   (struct type, field) pairs: all instances of a class are identified (see notes/C20.md). *)
From Coq Require Import List Arith Bool.
Import ListNotations.

Inductive akind :=
| KUser      (* call of user-supplied code: callback field, function value, user-implementable interface *)
| KExt       (* call on the user-supplied net.Conn *)
| KSend | KRecv            (* blocking channel send / receive outside select *)
| KTrySend | KTryRecv      (* case of a select that has a default: never blocks *)
| KSelSend | KSelRecv      (* case of a select without default: the select blocks until one case is ready *)
| KClose
| KWait                    (* sync.Cond.Wait, between the release and the re-acquisition of its mutex *)
| KSignal                  (* Signal / Broadcast *)
| KWrite | KRead | KAtomic (* access to a field of a tracked struct type *)
| KGo.                     (* go statement; the object is the spawned function *)

Inductive atom :=
| ALock (m : nat) | AUnlock (m : nat) | ARLock (m : nat) | ARUnlock (m : nat)
| AAct (k : akind) (o : nat).

(* [SBlock b] opens an exit scope, [SExit n] leaves the n-th enclosing scope (0 = innermost) and
   continues after it: return, break and continue are all expressed this way (deferred calls are
   inlined by the translator in front of every return).  [SLoop b]: b zero or more times.
   [SChoice]: if / switch / select with the conditions dropped.  [SIfFlag]: condition on an
   immutable configuration flag. *)
Inductive stmt :=
| SSkip
| SAtom (a : atom)
| SCall (f : nat)
| SSeq (a b : stmt)
| SChoice (a b : stmt)
| SLoop (b : stmt)
| SBlock (b : stmt)
| SExit (n : nat)
| SIfFlag (fl : nat) (a b : stmt).

Record lg_program := {
  lg_p_funs : list stmt;     (* function id = position *)
  lg_p_roots : list nat;     (* entered with no lock held *)
  lg_p_nmutex : nat;
  lg_p_nflags : nat
}.

Definition lk (m : nat) := SAtom (ALock m).
Definition ul (m : nat) := SAtom (AUnlock m).
Definition rlk (m : nat) := SAtom (ARLock m).
Definition rul (m : nat) := SAtom (ARUnlock m).
Definition act (k : akind) (o : nat) := SAtom (AAct k o).

Declare Scope lg_scope.
Notation "a ;; b" := (SSeq a b) (at level 61, right associativity) : lg_scope.
Notation "a [+] b" := (SChoice a b) (at level 62, right associativity) : lg_scope.

Definition lg_body (p : lg_program) (f : nat) : stmt := nth f (lg_p_funs p) SSkip.

(* ---------------------------------------------------------------- lock sets *)

Inductive mode := MFree | MRead | MWrite.

Definition lockset := list mode.

Definition mode_eqb (a b : mode) : bool :=
  match a, b with MFree, MFree | MRead, MRead | MWrite, MWrite => true | _, _ => false end.

Definition is_free (x : mode) : bool := match x with MFree => true | _ => false end.
Definition is_read (x : mode) : bool := match x with MRead => true | _ => false end.
Definition is_write (x : mode) : bool := match x with MWrite => true | _ => false end.

Definition ls_get (m : nat) (h : lockset) : mode := nth m h MFree.

Fixpoint ls_set (m : nat) (v : mode) (h : lockset) : lockset :=
  match m, h with
  | O, [] => [v]
  | O, _ :: t => v :: t
  | S m', [] => MFree :: ls_set m' v []
  | S m', x :: t => x :: ls_set m' v t
  end.

Definition ls_empty (n : nat) : lockset := repeat MFree n.

Definition ls_is_empty (h : lockset) : bool := forallb is_free h.

Fixpoint ls_eqb (a b : lockset) : bool :=
  match a, b with
  | [], [] => true
  | x :: a', y :: b' => mode_eqb x y && ls_eqb a' b'
  | _, _ => false
  end.

(* what an atom requires of, and does to, the lock set of the goroutine executing it.
   Acquiring a class already held in any mode is refused: sync.Mutex and sync.RWMutex are not
   re-entrant, and RLock while holding the read lock deadlocks as soon as a writer is waiting. *)
Definition atom_ok (a : atom) (h : lockset) : bool :=
  match a with
  | ALock m | ARLock m => is_free (ls_get m h)
  | AUnlock m => is_write (ls_get m h)
  | ARUnlock m => is_read (ls_get m h)
  | AAct _ _ => true
  end.

Definition atom_apply (a : atom) (h : lockset) : lockset :=
  match a with
  | ALock m => ls_set m MWrite h
  | ARLock m => ls_set m MRead h
  | AUnlock m | ARUnlock m => ls_set m MFree h
  | AAct _ _ => h
  end.
