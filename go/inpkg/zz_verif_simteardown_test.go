// Verification harness (overlay; not part of pion/sctp): crash-point enumeration for property C09
// (teardown).  For every base scenario and every harness event index k of it, the scenario is re-run
// up to event k in a fresh synctest bubble; then one of Close / Abort / transport read failure /
// transport write failure is injected on one side while callers are blocked in every API call
// (connect wait, ReadSCTP, blocking WriteSCTP, AcceptStream, Shutdown), each in its own goroutine.
// Checked on the implementation: every caller returns within a bound of virtual time, the injected
// call returns, the association's goroutines are gone and its timers closed, nothing is written to
// the conn after the association closed it, further Close calls return, an ABORT closes the peer
// with an error that carries the reason; a bubble that still has blocked goroutines at its end is
// reported as a leak.  The callers' outcomes are written to a trace that ocaml/cmp_teardown.ml
// compares with the final states of the Coq model (coq/model/Teardown.v).
package sctp

import (
	"bufio"
	"context"
	"errors"
	"fmt"
	"io"
	"os"
	"runtime"
	"sort"
	"strings"
	"sync"
	"testing"
	"testing/synctest"
	"time"
)

// ---------------------------------------------------------------- blocked callers

type tdCall struct {
	kind    string // connect | reader | writer | acceptor | shutdown
	side    int
	done    chan struct{}
	out     string // outcome class (see tdClassify*)
	detail  string // error text
	pre     bool   // had already returned before the injection (not a blocked caller)
	callNo  int    // writer: number of WriteSCTP calls started
	atInj   int    // writer: callNo when the injection happened
	preDone bool
}

func (c *tdCall) finished() bool {
	select {
	case <-c.done:
		return true
	default:
		return false
	}
}

type tdCtx struct {
	s       *sim
	started bool  // the scenario started the blocked callers itself
	recPre  bool  // record also the callers that returned before the injection (scenario t1-exhausted)
	downAt  []int // sides that must be down before the injection (the handshake failed: the connect call closed them)
	calls   []*tdCall
	writers [2]*tdCall
	dl      [2]*Stream // a stream with an armed read deadline and nobody reading
	shut    *tdCall
	reason  string
	cause   int
}

func tdReadOutcome(n int, err error) (string, string) {
	switch {
	case err == nil:
		return "data", fmt.Sprintf("n=%d", n)
	case errors.Is(err, ErrChunk):
		txt := err.Error()
		switch {
		case strings.Contains(txt, "td-cause-0"):
			return "abort0", txt
		case strings.Contains(txt, "td-cause-1"):
			return "abort1", txt
		}
		return "abortx", txt
	case errors.Is(err, io.EOF):
		return "readerr", "EOF"
	default:
		return "readerr", err.Error()
	}
}

func (x *tdCtx) start(kind string, side int, f func(c *tdCall)) *tdCall {
	c := &tdCall{kind: kind, side: side, done: make(chan struct{})}
	x.calls = append(x.calls, c)
	go func() {
		defer close(c.done)
		f(c)
	}()
	return c
}

// startWriter: blocking-write mode; writes until one call fails (the call that is pending when the
// association goes down returns the error, or returns nil and the next one fails).
func (x *tdCtx) startWriter(side int, sid uint16, size, max int) {
	st := x.s.openStream(side, sid)
	if st == nil {
		return
	}
	x.writers[side] = x.start("writer", side, func(c *tdCall) {
		buf := make([]byte, size)
		for i := 0; i < max; i++ {
			c.callNo++
			_, err := st.WriteSCTP(buf, PayloadTypeWebRTCBinary)
			if err != nil {
				c.out, c.detail = "err", err.Error()
				return
			}
		}
		c.out = "exhausted"
	})
}

// startBlockedCallers starts reader / acceptor (and the connect wait is the sim's own) on `side`.
func (x *tdCtx) startBlockedCallers(side int) {
	s := x.s
	a := s.assoc[side]
	if st, err := a.OpenStream(7, PayloadTypeWebRTCBinary); err == nil && st != nil {
		x.start("reader", side, func(c *tdCall) {
			buf := make([]byte, 4096)
			n, _, err := st.ReadSCTP(buf)
			c.out, c.detail = tdReadOutcome(n, err)
		})
	}
	// a read deadline far in the future on a stream nobody reads: Stream.SetReadDeadline starts a goroutine
	// that must end with the association
	if st, err := a.OpenStream(8, PayloadTypeWebRTCBinary); err == nil && st != nil {
		_ = st.SetReadDeadline(time.Now().Add(time.Hour))
		x.dl[side] = st
	}
	x.start("acceptor", side, func(c *tdCall) {
		st, err := a.AcceptStream()
		switch {
		case err == nil && st != nil:
			c.out = "stream"
		case errors.Is(err, io.EOF):
			c.out = "eof"
		default:
			c.out, c.detail = "other", fmt.Sprint(err)
		}
	})
}

func (x *tdCtx) startShutdown(side int) {
	a := x.s.assoc[side]
	x.shut = x.start("shutdown", side, func(c *tdCall) {
		err := a.Shutdown(context.Background())
		switch {
		case err == nil:
			c.out = "nil"
		case errors.Is(err, ErrShutdownNonEstablished):
			c.out, c.detail = "notest", err.Error()
		case errors.Is(err, ErrShutdownIncomplete):
			c.out, c.detail = "err", err.Error() // torn down before the shutdown sequence completed
		default:
			c.out, c.detail = "other", err.Error()
		}
	})
}

// ---------------------------------------------------------------- scenarios

type tdScenario struct {
	name       string
	opts       simOpts
	handshake  bool // the scenario itself is the handshake (no establish first)
	simOpen    bool // both sides are clients (simultaneous open)
	run        func(x *tdCtx, ev func() bool)
	blockWrite bool
	sides      []int  // sides on which the injection is tried (default both)
	failKey    string // one stable key for every failure of this scenario (one root cause)
	minK       int    // first crash point (default 0)
}

func tdOpts(bw bool) simOpts {
	return simOpts{seed: 1, interleaveA: -1, interleaveB: -1, setTSN: true, tsnA: 1000, tsnB: 5000, blockWrite: bw}
}

// tdPump delivers parked packets oldest first, one harness event each, reading on both sides after
// each delivery; when the network is empty it advances by `step` (one event) up to `idle` times.
func tdPump(x *tdCtx, ev func() bool, maxEvents int, step time.Duration, idle int, read bool) bool {
	s := x.s
	for n := 0; n < maxEvents; n++ {
		if len(s.flight[0]) == 0 && len(s.flight[1]) == 0 {
			if idle == 0 {
				return true
			}
			idle--
			if !ev() {
				return false
			}
			s.advance(step)
			continue
		}
		if !ev() {
			return false
		}
		from := 0
		if len(s.flight[0]) == 0 || (len(s.flight[1]) > 0 && s.flight[1][0].id < s.flight[0][0].id) {
			from = 1
		}
		s.deliver(from, 0, false)
		if read {
			s.readAll()
		}
	}
	return true
}

func tdScenarios() []tdScenario {
	return []tdScenario{
		{name: "handshake", opts: tdOpts(false), handshake: true, run: func(x *tdCtx, ev func() bool) {
			tdPump(x, ev, 20, 0, 0, false)
		}},
		{name: "handshake-simopen", opts: tdOpts(false), handshake: true, simOpen: true, run: func(x *tdCtx, ev func() bool) {
			tdPump(x, ev, 20, 0, 0, false)
		}},
		{name: "handshake-lossy", opts: tdOpts(false), handshake: true, run: func(x *tdCtx, ev func() bool) {
			s := x.s
			if !ev() {
				return
			}
			s.drop(0, 0) // the INIT
			if !ev() {
				return
			}
			s.advance(1100 * time.Millisecond) // T1-init retransmits
			tdPump(x, ev, 20, 0, 0, false)
		}},
		{name: "idle", opts: tdOpts(false), run: func(x *tdCtx, ev func() bool) {
			for i := 0; i < 2; i++ {
				if !ev() {
					return
				}
				x.s.advance(150 * time.Millisecond)
			}
		}},
		{name: "transfer", opts: tdOpts(false), run: func(x *tdCtx, ev func() bool) {
			s := x.s
			s.openStream(0, 1)
			s.openStream(1, 1)
			for i := 0; i < 3; i++ {
				if !ev() {
					return
				}
				_ = s.write(0, 1, 2500+300*i, PayloadTypeWebRTCBinary)
				if !ev() {
					return
				}
				_ = s.write(1, 1, 900+100*i, PayloadTypeWebRTCBinary)
			}
			tdPump(x, ev, 60, 100*time.Millisecond, 3, true)
		}},
		{name: "transfer-bw", opts: tdOpts(true), blockWrite: true, run: func(x *tdCtx, ev func() bool) {
			s := x.s
			s.openStream(0, 1)
			s.openStream(1, 1)
			x.startWriter(0, 1, 1000, 40)
			x.startWriter(1, 1, 1000, 40)
			s.settle()
			tdPump(x, ev, 40, 100*time.Millisecond, 2, true)
		}},
		{name: "reset", opts: tdOpts(false), run: func(x *tdCtx, ev func() bool) {
			s := x.s
			st0 := s.openStream(0, 1)
			s.openStream(1, 1)
			_ = s.write(0, 1, 700, PayloadTypeWebRTCBinary)
			_ = s.write(1, 1, 300, PayloadTypeWebRTCBinary)
			tdPump(x, func() bool { return true }, 30, 100*time.Millisecond, 3, true)
			if !ev() {
				return
			}
			_ = s.write(0, 1, 400, PayloadTypeWebRTCBinary)
			if !ev() {
				return
			}
			_ = st0.Close() // outgoing stream reset request
			s.settle()
			tdPump(x, ev, 30, 100*time.Millisecond, 3, true)
		}},
		// outgoing stream reset while the last message of the stream is lost: the peer answers "in progress";
		// T3 retransmits the message, the re-configuration timer retransmits the request, then "performed"
		{name: "reset-inprogress", opts: tdOpts(false), run: func(x *tdCtx, ev func() bool) {
			s := x.s
			st0 := s.openStream(0, 1)
			s.openStream(1, 1)
			_ = s.write(0, 1, 700, PayloadTypeWebRTCBinary)
			_ = s.write(1, 1, 300, PayloadTypeWebRTCBinary)
			tdPump(x, func() bool { return true }, 30, 100*time.Millisecond, 3, true)
			if !ev() {
				return
			}
			_ = s.write(0, 1, 400, PayloadTypeWebRTCBinary)
			for len(s.flight[0]) > 0 {
				s.drop(0, 0) // the message is lost
			}
			if !ev() {
				return
			}
			_ = st0.Close()
			s.settle()
			tdPump(x, ev, 40, 400*time.Millisecond, 8, true)
		}},
		{name: "shutdown", opts: tdOpts(false), run: func(x *tdCtx, ev func() bool) {
			s := x.s
			s.openStream(0, 1)
			s.openStream(1, 1)
			_ = s.write(0, 1, 1500, PayloadTypeWebRTCBinary)
			_ = s.write(1, 1, 600, PayloadTypeWebRTCBinary)
			if !ev() {
				return
			}
			x.startShutdown(0)
			s.settle()
			tdPump(x, ev, 30, 100*time.Millisecond, 2, true)
		}},
		// D27 (fixed by aeda016): every INIT is lost until T1-init gives up and the connect call gets the
		// handshake error; it now closes the association, so the callers blocked on it return and a late
		// INIT-ACK / COOKIE-ACK finds nobody.  (Before the fix the handshake completed late and
		// completeHandshake blocked for ever under a.lock: the model's former refutation witness.)
		{name: "t1-exhausted", opts: tdOpts(false), handshake: true, sides: []int{0}, minK: 1, failKey: "t1-late-handshake-stuck", run: func(x *tdCtx, ev func() bool) {
			s := x.s
			x.startBlockedCallers(0)
			x.startBlockedCallers(1)
			x.started, x.recPre = true, true
			s.settle()
			for i := 0; i < 600 && !s.hsFinished(0); i++ {
				for len(s.flight[0]) > 1 {
					s.drop(0, 0)
				}
				s.advance(time.Second)
			}
			for len(s.flight[0]) > 1 {
				s.drop(0, 0)
			}
			if !s.hsFinished(0) || s.hsErr[0] == nil || len(s.flight[0]) != 1 {
				s.fail("C09", fmt.Sprintf("(t1-scenario-broken) T1-init did not give up: finished=%v err=%v", s.hsFinished(0), s.hsErr[0]))
				return
			}
			x.downAt = []int{0}
			if !ev() {
				return
			}
			tdPump(x, func() bool { return true }, 10, 0, 0, false) // the late INIT: INIT-ACK goes to a closed conn
		}},
	}
}

// ---------------------------------------------------------------- white-box probes

// tdGoroutines counts the goroutines of association a (by receiver pointer in the stack dump).
func tdGoroutines(a *Association) (map[string]int, string) {
	buf := make([]byte, 1<<20)
	n := runtime.Stack(buf, true)
	dump := string(buf[:n])
	ptr := fmt.Sprintf("%p", a)
	res := map[string]int{}
	var detail []string
	for _, g := range strings.Split(dump, "\n\n") {
		for _, fn := range []string{"readLoop", "writeLoop", "timerLoop"} {
			key := "sctp.(*Association)." + fn + "(" + ptr
			if strings.Contains(g, key) {
				res[fn]++
				// the blocking frame: first line after the header that names a pion function
				for _, l := range strings.Split(g, "\n") {
					if strings.Contains(l, "pion/sctp.") && !strings.Contains(l, "zz_verif") {
						l = strings.TrimSpace(l)
						if i := strings.LastIndex(l, "("); i > 0 {
							l = l[:i]
						}
						detail = append(detail, fn+"@"+strings.TrimPrefix(l, "github.com/pion/sctp."))
						break
					}
				}
			}
		}
	}
	return res, strings.Join(detail, ",")
}

func tdTimersClosed(a *Association) bool {
	ok := true
	for _, t := range []*rtxTimer{a.t1Init, a.t1Cookie, a.t2Shutdown, a.t3RTX, a.tReconfig} {
		t.mutex.Lock()
		if t.state != rtxTimerClosed {
			ok = false
		}
		t.mutex.Unlock()
	}
	a.ackTimer.mutex.Lock()
	if a.ackTimer.state != ackTimerClosed {
		ok = false
	}
	a.ackTimer.mutex.Unlock()
	return ok
}

// tdTimerCensus names every rtx timer / the ack timer of a that is not in its final state: closed (a later
// start() is refused) with no expiry outstanding.
func tdTimerCensus(a *Association) string {
	var bad []string
	names := []string{"t1Init", "t1Cookie", "t2Shutdown", "t3RTX", "tReconfig"}
	for i, t := range []*rtxTimer{a.t1Init, a.t1Cookie, a.t2Shutdown, a.t3RTX, a.tReconfig} {
		t.mutex.Lock()
		if t.state != rtxTimerClosed || t.pending != 0 {
			bad = append(bad, fmt.Sprintf("%s(state=%d,pending=%d,nRtos=%d)", names[i], t.state, t.pending, t.nRtos))
		}
		t.mutex.Unlock()
	}
	a.ackTimer.mutex.Lock()
	if a.ackTimer.state != ackTimerClosed || a.ackTimer.pending != 0 {
		bad = append(bad, fmt.Sprintf("ackTimer(state=%d,pending=%d)", a.ackTimer.state, a.ackTimer.pending))
	}
	a.ackTimer.mutex.Unlock()
	a.timerMu.Lock()
	if !a.rackDeadline.IsZero() || !a.ptoDeadline.IsZero() {
		// (harmless once timerLoop is gone, which the goroutine check establishes; reported for completeness)
		_ = 0
	}
	a.timerMu.Unlock()
	return strings.Join(bad, ",")
}

// tdPoke makes the write loop write one packet (a stray COOKIE-ACK, ignored by an established peer).
func tdPoke(a *Association) {
	a.lock.Lock()
	a.controlQueue.push(&packet{verificationTag: a.peerVerificationTag, sourcePort: a.sourcePort,
		destinationPort: a.destinationPort, chunks: []chunk{&chunkCookieAck{}}})
	a.awakeWriteLoop()
	a.lock.Unlock()
}

func tdChanClosed(ch chan struct{}) bool {
	select {
	case <-ch:
		return true
	default:
		return false
	}
}

func tdPhase(s *sim, side int, handshakeScenario bool) string {
	if !s.hsFinished(side) {
		return "hs"
	}
	switch s.assoc[side].getState() {
	case established:
		return "est"
	case cookieWait, cookieEchoed:
		return "hs"
	default:
		return "sd"
	}
}

// ---------------------------------------------------------------- one crash point

type tdResult struct {
	mu      sync.Mutex // the guard reads fails/lines of a run that hangs
	label   string
	lines   []string // trace lines for the comparator
	fails   []string
	events  int // events of the base scenario that were executed
	stopped bool
	hung    bool
	late    string // closelate: the packet handled after a.close()
	elapsed time.Duration
	wac     int
}

const tdBound = 2 * time.Second

// waitAll advances virtual time in small steps until every call in `cs` has returned or the bound is hit.
func tdWaitAll(cs []*tdCall, extra func() bool) time.Duration {
	start := time.Now()
	for {
		synctest.Wait()
		all := extra == nil || extra()
		for _, c := range cs {
			if !c.finished() {
				all = false
			}
		}
		if all || time.Since(start) >= tdBound {
			return time.Since(start)
		}
		time.Sleep(50 * time.Millisecond)
	}
}

func tdCurrentFile() string { return os.Getenv("VERIF_OUT") + ".cur" }

// runCrashPoint runs scenario sc up to event k (k < 0: all events), then injects inj on side.
func tdRunCrashPoint(t *testing.T, sc tdScenario, k int, inj string, side int, res *tdResult) {
	res.label = fmt.Sprintf("%s/k=%d/%s/side=%d", sc.name, k, inj, side)
	if p := os.Getenv("VERIF_OUT"); p != "" {
		_ = os.WriteFile(tdCurrentFile(), []byte(res.label+"\n"), 0o644)
	}
	defer func() {
		if r := recover(); r != nil {
			msg := fmt.Sprint(r)
			if strings.Contains(msg, "deadlock") {
				res.mu.Lock()
				res.fails = append(res.fails, fmt.Sprintf("SIMFAIL prop=C09 goroutines of the bubble are still blocked after teardown (leak): %s | crashpoint=%s", msg, res.label))
				res.mu.Unlock()
				return
			}
			panic(r)
		}
	}()
	synctest.Test(t, func(t *testing.T) {
		s := newSim(t, sc.opts, res.label)
		x := &tdCtx{s: s, cause: (k + side) & 1}
		x.reason = fmt.Sprintf("td-cause-%d", x.cause)
		fail := func(key, what string) {
			if sc.failKey != "" {
				what, key = what+" ["+key+"]", sc.failKey
			}
			res.mu.Lock()
			res.fails = append(res.fails, fmt.Sprintf("SIMFAIL prop=C09 %s (%s) | crashpoint=%s t=%v", what, key, res.label, s.now()))
			res.mu.Unlock()
		}
		if sc.handshake {
			s.startHandshake(sc.simOpen)
			s.settle()
		} else if !s.establish() {
			fail("handshake-failed", fmt.Sprintf("fault-free handshake did not complete: %v %v", s.hsErr[0], s.hsErr[1]))
			s.closeBoth()
			return
		}
		n := 0
		ev := func() bool {
			if k >= 0 && n >= k {
				res.stopped = true
				return false
			}
			n++
			return true
		}
		sc.run(x, ev)
		res.events = n
		if k >= 0 && !res.stopped && n < k {
			// the scenario is shorter than k: nothing to do
			s.closeBoth()
			tdWaitAll(x.calls, nil)
			return
		}
		if inj == "" {
			s.closeBoth()
			tdWaitAll(x.calls, nil)
			return
		}
		// blocked callers on both sides
		if !x.started {
			for sd := 0; sd < 2; sd++ {
				x.startBlockedCallers(sd)
			}
		}
		s.settle()
		phase := [2]string{tdPhase(s, 0, sc.handshake), tdPhase(s, 1, sc.handshake)}
		var connect [2]*tdCall
		for sd := 0; sd < 2; sd++ {
			sd := sd
			if !s.hsFinished(sd) || x.recPre {
				connect[sd] = &tdCall{kind: "connect", side: sd, done: s.hsDone[sd]}
				x.calls = append(x.calls, connect[sd])
			}
		}
		for _, c := range x.calls {
			if c.finished() && !x.recPre {
				c.pre = true
			}
			c.atInj = c.callNo
		}
		a := s.assoc[side]
		peer := 1 - side
		// ---- a failed handshake must have taken the association down already
		for _, sd := range x.downAt {
			b := s.assoc[sd]
			if gs, where := tdGoroutines(b); len(gs) > 0 || !tdTimersClosed(b) || !tdChanClosed(b.readLoopCloseCh) || !tdChanClosed(b.closeWriteLoopCh) {
				res.mu.Lock()
				res.fails = append(res.fails, fmt.Sprintf("SIMFAIL prop=C09 the association is still running after the connect call returned the handshake error %v: goroutines=%s (%s) | crashpoint=%s", s.hsErr[sd], where, sc.failKey, res.label))
				res.mu.Unlock()
			}
		}
		// ---- the injection
		var injDone chan struct{}
		switch inj {
		case "close":
			injDone = make(chan struct{})
			go func() { defer close(injDone); _ = a.Close() }()
		case "abort":
			injDone = make(chan struct{})
			go func() { defer close(injDone); a.Abort(x.reason) }()
		case "rfail":
			_ = s.conn[side].Close() // the transport dies under the association: Read returns an error
		case "rdl":
			_ = s.conn[side].SetReadDeadline(time.Now().Add(-time.Second)) // Read fails, Write still works
		case "wfail":
			s.conn[side].mu.Lock()
			s.conn[side].failWrite = true
			s.conn[side].mu.Unlock()
			go tdPoke(a)
		case "closelate":
			// Close() while a packet from the peer has already been read from the conn but not handled yet:
			// the harness holds a.lock (as any concurrent API call may), the read loop reads the oldest parked
			// packet and waits for the lock, Close() runs a.close() to its end (conn, timers, closeWriteLoopCh),
			// then the lock is released and the packet is handled on the closed association.
			injDone = make(chan struct{})
			a.lock.Lock()
			if len(s.flight[peer]) > 0 && !tdChanClosed(s.conn[side].closed) {
				p := s.flight[peer][0]
				s.flight[peer] = s.flight[peer][1:]
				s.logEvent("late packet from=%d id=%d %s", peer, p.id, pktSummary(p))
				s.onDeliver(p, side)
				s.conn[side].in <- p.raw
				for i := 0; i < 2000000 && len(s.conn[side].in) > 0; i++ {
					runtime.Gosched()
				}
				res.late = pktSummary(p)
			}
			go func() { defer close(injDone); _ = a.Close() }()
			for i := 0; i < 2000000 && !tdChanClosed(a.closeWriteLoopCh); i++ {
				runtime.Gosched()
			}
			a.lock.Unlock()
		case "closebusy":
			// Close while the write loop has something to send (not a quiescent point)
			injDone = make(chan struct{})
			go tdPoke(a)
			go func() { defer close(injDone); _ = a.Close() }()
		}
		mine := func(sd int) []*tdCall {
			var l []*tdCall
			for _, c := range x.calls {
				if c.side == sd && !c.pre {
					l = append(l, c)
				}
			}
			return l
		}
		res.elapsed = tdWaitAll(mine(side), func() bool { return injDone == nil || tdChanClosed(injDone) })
		if injDone != nil && !tdChanClosed(injDone) {
			fail(inj+"-never-returns", fmt.Sprintf("%s() did not return within %v", inj, tdBound))
		}
		s.settle() // packets written during the teardown (the ABORT) are on the wire list now
		modelInj := map[string]string{"close": "close", "closebusy": "close", "closelate": "close", "abort": "abort", "rfail": "rfail", "rdl": "rfail", "wfail": "wfail"}[inj]
		record := func(sd int, role, minj string, cause int) {
			for _, c := range x.calls {
				if c.side != sd || c.pre {
					continue
				}
				out := c.out
				if c.kind == "connect" {
					switch {
					case !c.finished():
					case s.hsErr[sd] == nil:
						out = "ok"
					case errors.Is(s.hsErr[sd], ErrAssociationClosedBeforeConn):
						out = "closed"
					default:
						out, c.detail = "hserr", s.hsErr[sd].Error()
					}
				}
				if c.kind == "writer" && c.finished() && c.callNo > c.atInj {
					out = "nil" // the pending call returned nil, a later one failed
				}
				if !c.finished() {
					out = "blocked"
					fail("caller-blocked-"+c.kind, fmt.Sprintf("%s on side %d (%s side, phase %s) did not return within %v after %s", c.kind, sd, role, phase[sd], tdBound, minj))
				}
				res.mu.Lock()
				sdc := -1
				if c.kind == "shutdown" {
					b := s.assoc[sd]
					b.lock.RLock()
					sdc = b2i(b.shutdownCompleted)
					b.lock.RUnlock()
				}
				res.lines = append(res.lines, fmt.Sprintf("out %s %s %s %s %s %d %d", role, phase[sd], minj, c.kind, out, cause, sdc))
				res.mu.Unlock()
			}
			if st := x.dl[sd]; st != nil {
				st.lock.RLock()
				alive := st.readTimeoutCancel != nil
				st.lock.RUnlock()
				out := "ended"
				if alive {
					out = "alive"
					fail("read-deadline-goroutine-outlives-close", fmt.Sprintf("the goroutine of a read deadline armed on side %d (%s side, phase %s) is still waiting after %s", sd, role, phase[sd], minj))
				}
				if phase[sd] == "est" { // (the model has this goroutine in the established families)
					res.mu.Lock()
					res.lines = append(res.lines, fmt.Sprintf("out %s %s %s deadline %s %d -1", role, phase[sd], minj, out, cause))
					res.mu.Unlock()
				}
			}
		}
		record(side, "inj", modelInj, -1)
		// ---- the association's own goroutines, timers, channels
		checkDown := func(sd int, why string) {
			b := s.assoc[sd]
			gs, where := tdGoroutines(b)
			if len(gs) > 0 {
				keys := make([]string, 0, len(gs))
				for k := range gs {
					keys = append(keys, k)
				}
				sort.Strings(keys)
				fail("goroutine-alive-"+strings.Join(keys, "+"), fmt.Sprintf("goroutines still running on side %d after %s: %s", sd, why, where))
			}
			if !tdTimersClosed(b) {
				fail("timer-not-closed", fmt.Sprintf("a retransmission/ack timer is not closed on side %d after %s", sd, why))
			}
			if !tdChanClosed(b.readLoopCloseCh) || !tdChanClosed(b.closeWriteLoopCh) {
				fail("loop-channels-open", fmt.Sprintf("readLoopCloseCh/closeWriteLoopCh not closed on side %d after %s", sd, why))
			}
			if st := b.getState(); st != closed {
				fail("state-not-closed", fmt.Sprintf("state %s on side %d after %s", getAssociationStateString(st), sd, why))
			}
		}
		checkDown(side, inj)
		// ---- nothing is written after the association closed its conn
		s.conn[side].mu.Lock()
		res.wac = s.conn[side].nWritesAfterClose
		s.conn[side].mu.Unlock()
		if inj != "rfail" && res.wac > 1 {
			fail("write-after-close", fmt.Sprintf("%d writes attempted on the conn after Close on side %d", res.wac, side))
		}
		nEmitted := len(s.wire)
		// ---- the peer
		peerInj := "close"
		peerCause := -1
		if inj == "abort" {
			// deliver the ABORT (if one was written) to the peer
			delivered := false
			for i := 0; i < len(s.flight[side]); i++ {
				p := s.flight[side][i]
				if p.pkt == nil {
					continue
				}
				for _, c := range p.pkt.chunks {
					if _, ok := c.(*chunkAbort); ok && !delivered {
						s.deliver(side, i, false)
						delivered = true
					}
				}
				if delivered {
					break
				}
			}
			if !delivered {
				if !tdChanClosed(s.conn[side].closed) || phase[side] != "sd" {
					fail("abort-not-sent", fmt.Sprintf("Abort on side %d wrote no ABORT packet (phase %s)", side, phase[side]))
				}
			}
			tdWaitAll(nil, nil)
			if delivered && tdChanClosed(s.assoc[peer].closeWriteLoopCh) {
				peerInj, peerCause = "peerabort", x.cause
			} else if delivered && phase[0] != "hs" && phase[1] != "hs" {
				// (during the handshake the verification tag of the ABORT cannot match yet: it is dropped)
				fail("abort-ignored", fmt.Sprintf("the ABORT delivered to side %d (phase %s) did not close it", peer, phase[peer]))
			}
		}
		if peerInj == "close" {
			d := make(chan struct{})
			go func() { defer close(d); _ = s.assoc[peer].Close() }()
			tdWaitAll(mine(peer), func() bool { return tdChanClosed(d) })
			if !tdChanClosed(d) {
				fail("close-never-returns", fmt.Sprintf("Close() of the peer side %d did not return", peer))
			}
		} else {
			tdWaitAll(mine(peer), nil)
		}
		record(peer, "peer", peerInj, peerCause)
		if peerInj == "peerabort" {
			for _, c := range x.calls {
				if c.side == peer && c.kind == "reader" && !c.pre && c.finished() && c.out != fmt.Sprintf("abort%d", x.cause) && c.out != "data" {
					fail("abort-cause-lost", fmt.Sprintf("reader on side %d got %q (%s) after an ABORT with reason %q", peer, c.out, c.detail, x.reason))
				}
			}
			// the peer's conn is closed by handleAbort; a Close by the user must still work
			d := make(chan struct{})
			go func() { defer close(d); _ = s.assoc[peer].Close() }()
			synctest.Wait()
			if !tdChanClosed(d) {
				fail("close-after-abort-blocks", "Close after an inbound ABORT did not return")
			}
		}
		checkDown(peer, peerInj)
		s.conn[peer].mu.Lock()
		pw := s.conn[peer].nWritesAfterClose
		s.conn[peer].mu.Unlock()
		if pw > 1 {
			fail("write-after-close", fmt.Sprintf("%d writes attempted on the conn after Close on side %d", pw, peer))
		}
		if pw > res.wac {
			res.wac = pw
		}
		// ---- no goroutine started by Stream.SetReadDeadline is left once both associations are down
		if n := tdCountStack("(*Stream).SetReadDeadline.func1"); n > 0 {
			fail("read-deadline-goroutine-outlives-close", fmt.Sprintf("%d read-deadline goroutines are alive after both associations went down", n))
		}
		// ---- timer census: late packets (to closed conns), 300 virtual seconds; every timer of both associations
		// must be closed with no expiry outstanding, and no timer callback may have touched them
		for dir := 0; dir < 2; dir++ {
			for len(s.flight[dir]) > 0 {
				s.deliver(dir, 0, false)
			}
		}
		time.Sleep(300 * time.Second) // (also lets the time.After timers of Abort expire: only real leaks remain)
		synctest.Wait()
		for sd := 0; sd < 2; sd++ {
			b := s.assoc[sd]
			if bad := tdTimerCensus(b); bad != "" {
				fail("timer-alive-after-teardown", fmt.Sprintf("300 s after the teardown timers of side %d are not closed: %s", sd, bad))
			}
			b.lock.RLock()
			touched := b.willRetransmitReconfig
			b.lock.RUnlock()
			if touched {
				fail("timer-alive-after-teardown", fmt.Sprintf("the re-configuration timer fired on the closed association of side %d", sd))
			}
		}
		// ---- repeated Close
		for i := 2; i <= 3; i++ {
			d := make(chan struct{})
			go func() { defer close(d); _ = a.Close() }()
			synctest.Wait()
			if !tdChanClosed(d) {
				fail("repeated-close-blocks", fmt.Sprintf("Close call number %d did not return", i))
			}
		}
		// Abort after everything is down must return as well (bounded by its two 200 ms waits)
		if inj == "close" && k%2 == 0 {
			d := make(chan struct{})
			go func() { defer close(d); a.Abort("late") }()
			time.Sleep(500 * time.Millisecond)
			synctest.Wait()
			if !tdChanClosed(d) {
				fail("abort-after-close-blocks", "Abort after Close did not return within 500ms")
			}
		}
		s.settle()
		for _, p := range s.wire[nEmitted:] {
			if p.from == side {
				fail("packet-after-close", fmt.Sprintf("packet emitted by side %d after it was closed: %s", side, pktSummary(p)))
			}
		}
		res.mu.Lock()
		for _, f := range s.fails {
			if strings.Contains(f, "prop=C09") {
				res.fails = append(res.fails, f)
			}
		}
		res.mu.Unlock()
	})
}

// tdRealCap: real-time cap of one crash-point run.  A goroutine blocked on a sync.Mutex is not durably
// blocked for synctest, so a lock that is never released stalls the bubble in real time; the guard
// reports that as a hang, names the goroutines waiting for a mutex, and abandons the bubble.
const tdRealCap = 4 * time.Second

func tdMutexWaiters() string {
	buf := make([]byte, 4<<20)
	n := runtime.Stack(buf, true)
	var out []string
	for _, g := range strings.Split(string(buf[:n]), "\n\n") {
		hdr := strings.SplitN(g, "\n", 2)[0]
		if !strings.Contains(hdr, "Mutex.Lock") && !strings.Contains(hdr, "RWMutex") {
			continue
		}
		for _, l := range strings.Split(g, "\n") {
			if strings.Contains(l, "pion/sctp.") && !strings.Contains(l, "zz_verif") && !strings.HasPrefix(l, "created by") {
				l = strings.TrimSpace(l)
				if i := strings.LastIndex(l, "("); i > 0 {
					l = l[:i]
				}
				out = append(out, strings.TrimPrefix(l, "github.com/pion/sctp."))
				break
			}
		}
	}
	sort.Strings(out)
	return strings.Join(out, ",")
}

func tdHolders() string {
	buf := make([]byte, 4<<20)
	n := runtime.Stack(buf, true)
	var out []string
	for _, g := range strings.Split(string(buf[:n]), "\n\n") {
		if strings.Contains(g, "sctp.(*Association).completeHandshake") {
			out = append(out, "completeHandshake(blocked under a.lock)")
		}
	}
	return strings.Join(out, ",")
}

func tdRunGuarded(t *testing.T, sc tdScenario, k int, inj string, side int) *tdResult {
	res := &tdResult{}
	done := make(chan struct{})
	go func() {
		defer close(done)
		tdRunCrashPoint(t, sc, k, inj, side, res)
	}()
	select {
	case <-done:
	case <-time.After(tdRealCap):
		res.mu.Lock()
		res.hung = true
		key := "hang-on-association-lock"
		if sc.failKey != "" {
			key = sc.failKey
		}
		res.fails = append(res.fails, fmt.Sprintf("SIMFAIL prop=C09 the run stalls: goroutines wait for a mutex that is never released: waiting=[%s] holder=[%s] (%s) | crashpoint=%s",
			tdMutexWaiters(), tdHolders(), key, res.label))
		res.mu.Unlock()
	}
	return res
}

// ---------------------------------------------------------------- the enumeration

func tdInjections() []string {
	return []string{"close", "closebusy", "closelate", "abort", "rfail", "rdl", "wfail"}
}

func TestVerifSimTeardown(t *testing.T) {
	stride := int(verifEnvInt("VERIF_TD_STRIDE", 1))
	seed := int(verifEnvInt("VERIF_SEED", 1))
	only := os.Getenv("VERIF_TD_ONLY")
	var w *bufio.Writer
	if os.Getenv("VERIF_OUT") != "" {
		var done func()
		w, done = verifOut(t, "")
		defer done()
	}
	type cnt struct{ points, runs, fails int }
	perScen := map[string]*cnt{}
	perInj := map[string]int{}
	callers := map[string]int{}
	outcomes := map[string]int{}
	totalFails, caseNo, wacMax, wacRuns, hangs := 0, 0, 0, 0, 0
	var maxElapsed time.Duration
	idx := 0
	repeat := int(verifEnvInt("VERIF_TD_REPEAT", 1))
	for rep := 0; rep < repeat; rep++ {
		for _, sc := range tdScenarios() {
			if only != "" && !strings.HasPrefix(sc.name, only) {
				continue
			}
			// dry run: number of events of the base scenario
			dry := tdRunGuarded(t, sc, -1, "", 0)
			c := perScen[sc.name]
			if c == nil {
				c = &cnt{}
				perScen[sc.name] = c
			}
			sides := sc.sides
			if sides == nil {
				sides = []int{0, 1}
			}
			for k := sc.minK; k <= dry.events; k++ {
				c.points++
				for _, inj := range tdInjections() {
					for _, side := range sides {
						idx++
						always := sc.failKey != "" || (inj == "closelate" && strings.HasPrefix(sc.name, "reset"))
						if stride > 1 && (idx+seed+rep)%stride != 0 && !always {
							continue
						}
						r := tdRunGuarded(t, sc, k, inj, side)
						c.runs++
						perInj[inj]++
						if r.elapsed > maxElapsed {
							maxElapsed = r.elapsed
						}
						if r.wac > 0 {
							wacRuns++
							if r.wac > wacMax {
								wacMax = r.wac
							}
						}
						r.mu.Lock()
						if r.hung {
							hangs++
						}
						for _, f := range r.fails {
							fmt.Println(f)
							c.fails++
							totalFails++
						}
						if w != nil {
							caseNo++
							fmt.Fprintf(w, "case %d\ncp %s %d %s %d\n", caseNo, sc.name, k, inj, side)
							for _, l := range r.lines {
								fmt.Fprintln(w, l)
							}
						}
						for _, l := range r.lines {
							f := strings.Fields(l)
							callers[f[4]]++
							outcomes[f[4]+"="+f[5]]++
						}
						r.mu.Unlock()
					}
				}
			}
		}
	}
	var sb strings.Builder
	names := make([]string, 0, len(perScen))
	for n := range perScen {
		names = append(names, n)
	}
	sort.Strings(names)
	points, runs := 0, 0
	for _, n := range names {
		c := perScen[n]
		fmt.Fprintf(&sb, " %s=%d/%d", n, c.points, c.runs)
		points += c.points
		runs += c.runs
	}
	var ob strings.Builder
	keys := make([]string, 0, len(outcomes))
	for k := range outcomes {
		keys = append(keys, k)
	}
	sort.Strings(keys)
	for _, k := range keys {
		fmt.Fprintf(&ob, " %s:%d", k, outcomes[k])
	}
	fmt.Printf("SIMTEARDOWN scenarios=%d crashpoints=%d runs=%d close=%d abort=%d rfail=%d rdl=%d wfail=%d max_return_ms=%d runs_with_write_after_close=%d max_writes_after_close=%d hangs=%d fails=%d points/runs:%s outcomes:%s\n",
		len(perScen), points, runs, perInj["close"]+perInj["closebusy"]+perInj["closelate"], perInj["abort"], perInj["rfail"], perInj["rdl"], perInj["wfail"],
		maxElapsed.Milliseconds(), wacRuns, wacMax, hangs, totalFails, sb.String(), ob.String())
	if p := os.Getenv("VERIF_OUT"); p != "" {
		_ = os.Remove(tdCurrentFile())
	}
}

// ---------------------------------------------------------------- stream read-deadline goroutine

func tdCountStack(substr string) int {
	buf := make([]byte, 4<<20)
	n := runtime.Stack(buf, true)
	c := 0
	for _, g := range strings.Split(string(buf[:n]), "\n\n") {
		if strings.Contains(g, substr) {
			c++
		}
	}
	return c
}

// TestVerifSimTeardownDeadline: Stream.SetReadDeadline starts a goroutine per armed deadline.  Once the
// teardown of the association has settled it must be gone, (a) when a reader was blocked (the reader cancels
// it on return), (b) when nobody reads again (unregisterStream cancels it: D28, fixed by 2bd54a4).
// The inbound stream reset is not a teardown of the association (the stream ends with io.EOF through
// onInboundStreamReset, not through unregisterStream): what happens to the goroutine there is reported as a
// SIMNOTE line, not as a failure of C09.
func TestVerifSimTeardownDeadline(t *testing.T) {
	fails, cases, notes := 0, 0, 0
	for _, withReader := range []bool{true, false} {
		for _, inj := range []string{"close", "abort", "rfail", "wfail", "peerabort", "peer-reset"} {
			cases++
			label := fmt.Sprintf("deadline/reader=%v/%s", withReader, inj)
			var lines []string
			func() {
				defer func() {
					if r := recover(); r != nil {
						lines = append(lines, fmt.Sprintf("SIMFAIL prop=C09 bubble ends with blocked goroutines: %v (read-deadline-goroutine-outlives-close) | crashpoint=%s", r, label))
					}
				}()
				synctest.Test(t, func(t *testing.T) {
					s := newSim(t, tdOpts(false), label)
					if !s.establish() {
						return
					}
					a := s.assoc[0]
					st := s.openStream(0, 7)
					pst := s.openStream(1, 7)
					_ = s.write(1, 7, 50, PayloadTypeWebRTCBinary) // the stream exists on both sides
					s.runFaultFree(time.Second, 100*time.Millisecond, func() bool { return len(s.recvd[0][7]) == 1 })
					_ = st.SetReadDeadline(time.Now().Add(time.Hour))
					rd := make(chan error, 1)
					if withReader {
						go func() { _, _, err := st.ReadSCTP(make([]byte, 100)); rd <- err }()
					}
					synctest.Wait()
					before := tdCountStack("(*Stream).SetReadDeadline.func1")
					switch inj {
					case "close":
						_ = a.Close()
					case "abort":
						a.Abort("x")
					case "rfail":
						_ = s.conn[0].Close()
					case "wfail":
						s.conn[0].mu.Lock()
						s.conn[0].failWrite = true
						s.conn[0].mu.Unlock()
						tdPoke(a)
					case "peerabort":
						d := make(chan struct{})
						go func() { defer close(d); s.assoc[1].Abort("x") }()
						synctest.Wait()
						s.settle()
						for len(s.flight[1]) > 0 {
							s.deliver(1, 0, false)
						}
						<-d
					case "peer-reset":
						_ = pst.Close()
						s.settle()
						s.runFaultFree(2*time.Second, 100*time.Millisecond, func() bool { return false })
					}
					time.Sleep(time.Second)
					synctest.Wait()
					if inj == "peer-reset" {
						st.lock.RLock()
						re := st.readErr
						st.lock.RUnlock()
						if n := tdCountStack("(*Stream).SetReadDeadline.func1"); n > 0 {
							notes++
							fmt.Printf("SIMNOTE prop=C09 after an inbound stream reset (readErr=%v, reader blocked=%v) the read-deadline goroutine of the stream is still waiting (%d alive): onInboundStreamReset does not cancel it | crashpoint=%s\n", re, withReader, n, label)
						}
						_, _, _ = st.ReadSCTP(make([]byte, 100))
						_ = st.SetReadDeadline(time.Time{})
						s.closeBoth()
						time.Sleep(time.Second)
						synctest.Wait()
						return
					}
					if withReader {
						select {
						case <-rd:
						default:
							lines = append(lines, fmt.Sprintf("SIMFAIL prop=C09 reader with a deadline did not return (caller-blocked-reader) | crashpoint=%s", label))
						}
					}
					after := tdCountStack("(*Stream).SetReadDeadline.func1")
					if after > 0 {
						lines = append(lines, fmt.Sprintf("SIMFAIL prop=C09 the goroutine started by Stream.SetReadDeadline is still running 1s after the association went down (before=%d after=%d; it ends when the deadline expires or at the next ReadSCTP) (read-deadline-goroutine-outlives-close) | crashpoint=%s", before, after, label))
					}
					// cure: a read returns the error and cancels the deadline goroutine
					_, _, _ = st.ReadSCTP(make([]byte, 100))
					s.closeBoth()
					time.Sleep(time.Second)
					synctest.Wait()
					if n := tdCountStack("(*Stream).SetReadDeadline.func1"); n > 0 {
						lines = append(lines, fmt.Sprintf("SIMFAIL prop=C09 deadline goroutine survives a failed ReadSCTP (read-deadline-goroutine-leak) | crashpoint=%s", label))
					}
				})
			}()
			for _, l := range lines {
				fmt.Println(l)
				fails++
			}
		}
	}
	fmt.Printf("SIMTDDEADLINE cases=%d fails=%d stream_reset_notes=%d\n", cases, fails, notes)
}

// ---------------------------------------------------------------- T1 failure callback racing with the handshake completion

// tdRaceAttempt: the client's COOKIE-ECHO is answered, but the COOKIE-ACK is delivered exactly at the virtual
// instant of T1-cookie's final expiry (t0 + 1+2+4+8+16+32+60+60+60 s).  Both become runnable together; which
// one gets a.lock first is decided by the Go scheduler.  The model's residual witness
// (coq/proofs/TeardownT1Proofs.v, td_witness_t1_abort) is the order: rtxTimer.timeout decides "failure",
// the read loop takes a.lock and completes the handshake, the callback then blocks in completeHandshake(err)
// under a.lock for ever.
func tdRaceAttempt(t *testing.T, early bool, spin int) string {
	done := make(chan string, 1)
	go func() {
		defer func() {
			if r := recover(); r != nil {
				done <- "panic:" + fmt.Sprint(r)
			}
		}()
		out := "?"
		synctest.Test(t, func(t *testing.T) {
			s := newSim(t, tdOpts(false), "t1-callback-race")
			s.startHandshake(false)
			s.settle()
			s.deliver(0, 0, false) // INIT
			s.deliver(1, 0, false) // INIT-ACK: the client sends COOKIE-ECHO and starts T1-cookie
			t0 := time.Now()
			a := s.assoc[0]
			if len(s.flight[0]) != 1 {
				out = "broken: no COOKIE-ECHO"
				s.closeBoth()
				return
			}
			s.deliver(0, 0, false) // COOKIE-ECHO: the server is established, its COOKIE-ACK is parked
			if len(s.flight[1]) != 1 {
				out = "broken: no COOKIE-ACK"
				s.closeBoth()
				return
			}
			ack := s.flight[1][0].raw
			expiry := t0.Add(243 * time.Second)
			deliverAtExpiry := func() {
				time.AfterFunc(time.Until(expiry), func() {
					for i := 0; i < spin; i++ {
						runtime.Gosched()
					}
					s.conn[0].in <- ack
				})
			}
			if early {
				deliverAtExpiry()
			}
			for time.Until(expiry) > time.Second { // the retransmitted COOKIE-ECHOs are lost
				time.Sleep(time.Second)
				synctest.Wait()
				s.mu.Lock()
				s.fresh = nil
				s.mu.Unlock()
			}
			if !early {
				deliverAtExpiry()
			}
			time.Sleep(time.Second) // both timers fire
			synctest.Wait()
			buf := make([]byte, 1<<20)
			dump := string(buf[:runtime.Stack(buf, true)])
			stuck := false
			for _, g := range strings.Split(dump, "\n\n") {
				if strings.Contains(g, "onRetransmissionFailure") && strings.Contains(g, "completeHandshake") && strings.Contains(g, fmt.Sprintf("%p", a)) {
					stuck = true
				}
			}
			switch {
			case stuck:
				locked := !a.lock.TryLock()
				if !locked {
					a.lock.Unlock()
				}
				out = fmt.Sprintf("STUCK connect=%v state=%s lockHeld=%v", s.hsErr[0], getAssociationStateString(a.getState()), locked)
			case s.hsErr[0] == nil:
				out = "readloop-first"
			default:
				out = "callback-first"
			}
			s.closeBoth() // Close() releases a blocked completeHandshake
		})
		done <- out
	}()
	select {
	case r := <-done:
		return r
	case <-time.After(2 * time.Second):
		return "HANG waiting=[" + tdMutexWaiters() + "] holder=[" + tdHolders() + "]"
	}
}

func TestVerifSimTeardownT1Race(t *testing.T) {
	n := int(verifEnvInt("VERIF_N", 12000))
	counts := map[string]int{}
	printed, tried := 0, 0
	for i := 0; i < n && printed == 0; i++ { // one observed failure decides
		tried++
		r := tdRaceAttempt(t, i%2 == 0, (i/2)%8)
		key := strings.SplitN(r, " ", 2)[0]
		counts[key]++
		if key == "STUCK" || key == "HANG" {
			printed++
			fmt.Printf("SIMFAIL prop=C09 the handshake completed (connect returned the association) while the failure callback of T1-cookie was waiting for a.lock; the callback now blocks for ever in completeHandshake(err) holding a.lock: every call that needs the lock (Abort, OpenStream, WriteSCTP, the write loop) hangs until Close: %s (t1-callback-race-stuck) | crashpoint=handshake/COOKIE-ACK delivered at the instant of T1-cookie's final expiry (t0+243s)\n", r)
		}
	}
	fmt.Printf("SIMTDRACE budget=%d attempts=%d stuck=%d hangs=%d callback_first=%d readloop_first=%d other=%d\n", n, tried,
		counts["STUCK"], counts["HANG"], counts["callback-first"], counts["readloop-first"],
		tried-counts["STUCK"]-counts["HANG"]-counts["callback-first"]-counts["readloop-first"])
}

// ---------------------------------------------------------------- closed timers stay closed (component check)

type tdNopObserver struct{ fired int }

func (o *tdNopObserver) onRetransmissionTimeout(int, uint) { o.fired++ }
func (o *tdNopObserver) onRetransmissionFailure(int)       { o.fired++ }
func (o *tdNopObserver) onAckTimeout()                     { o.fired++ }

// TestVerifSimTeardownTimerFinal: the model (and closeAllTimers) rely on close() being final for rtxTimer and
// ackTimer: after close() no sequence of stop() / start() calls may arm the timer again, and no callback fires.
func TestVerifSimTeardownTimerFinal(t *testing.T) {
	fails, cases := 0, 0
	// every sequence over {start, stop, close} of length <= 5 that contains a close: after the first close the
	// timer must refuse start(), report not running, and never call back
	ops := []string{"start", "stop", "close"}
	var seqs [][]string
	var gen func(prefix []string)
	gen = func(prefix []string) {
		if len(prefix) > 0 {
			seqs = append(seqs, append([]string(nil), prefix...))
		}
		if len(prefix) == 5 {
			return
		}
		for _, o := range ops {
			gen(append(prefix, o))
		}
	}
	gen(nil)
	for _, kind := range []string{"rtx", "ack"} {
		for _, seq := range seqs {
			hasClose := false
			for _, o := range seq {
				if o == "close" {
					hasClose = true
				}
			}
			if !hasClose {
				continue
			}
			cases++
			var line string
			synctest.Test(t, func(t *testing.T) {
				obs := &tdNopObserver{}
				var rt *rtxTimer
				var at *ackTimer
				if kind == "rtx" {
					rt = newRTXTimer(timerReconfig, obs, noMaxRetrans, 0)
				} else {
					at = newAckTimer(obs)
				}
				closedSeen := false
				firedAtClose := 0
				for i, o := range seq {
					var started, running bool
					switch {
					case kind == "rtx" && o == "start":
						started = rt.start(10)
					case kind == "rtx" && o == "stop":
						rt.stop()
					case kind == "rtx" && o == "close":
						rt.close()
					case kind == "ack" && o == "start":
						started = at.start()
					case kind == "ack" && o == "stop":
						at.stop()
					case kind == "ack" && o == "close":
						at.close()
					}
					if o == "close" && !closedSeen {
						closedSeen = true
						time.Sleep(time.Second) // an expiry that was already under way may still run; it must not call back
						synctest.Wait()
						firedAtClose = obs.fired
					}
					if kind == "rtx" {
						running = rt.isRunning()
					} else {
						running = at.isRunning()
					}
					if closedSeen && (started || running) && line == "" {
						line = fmt.Sprintf("SIMFAIL prop=C09 a closed %s timer was armed again: after %v the call %s (number %d) returned started=%v, isRunning=%v (closed-timer-restartable) | crashpoint=timer/%s/%s",
							kind, seq[:i], o, i+1, started, running, kind, strings.Join(seq, "-"))
					}
				}
				time.Sleep(5 * time.Second)
				synctest.Wait()
				if closedSeen && obs.fired != firedAtClose && line == "" {
					line = fmt.Sprintf("SIMFAIL prop=C09 a closed %s timer called back %d times (closed-timer-restartable) | crashpoint=timer/%s/%s",
						kind, obs.fired-firedAtClose, kind, strings.Join(seq, "-"))
				}
				if rt != nil {
					rt.close()
				}
				if at != nil {
					at.close()
				}
			})
			if line != "" {
				if fails < 5 {
					fmt.Println(line)
				}
				fails++
			}
		}
	}
	fmt.Printf("SIMTDTIMER sequences=%d fails=%d\n", cases, fails)
}

// ---------------------------------------------------------------- the terminal read error survives a read deadline

// TestVerifSimTeardownDeadlineErr: a read deadline is armed while no ReadSCTP is in progress; the stream ends
// (association closed / aborted / transport failure / ABORT from the peer with a cause / inbound stream reset);
// the deadline expires afterwards; the application clears the deadline and reads again.  The read must return
// at once with the terminal error (the one a read before the expiry returns), never the deadline error, never
// block; after a peer ABORT the error carries the cause.
func TestVerifSimTeardownDeadlineErr(t *testing.T) {
	fails, cases := 0, 0
	for _, kind := range []string{"close", "abort", "rfail", "rdl", "wfail", "peerabort", "peerclose-reset"} {
		for _, rearm := range []string{"clear", "rearm", "none"} {
			cases++
			label := fmt.Sprintf("deadline-err/%s/%s", kind, rearm)
			var lines []string
			add := func(key, what string) {
				lines = append(lines, fmt.Sprintf("SIMFAIL prop=C09 %s (%s) | crashpoint=%s", what, key, label))
			}
			func() {
				defer func() {
					if r := recover(); r != nil {
						add("read-blocks-after-deadline", fmt.Sprintf("bubble ends with blocked goroutines: %v", r))
					}
				}()
				synctest.Test(t, func(t *testing.T) {
					s := newSim(t, tdOpts(false), label)
					if !s.establish() {
						add("handshake-failed", "fault-free handshake did not complete")
						return
					}
					a, b := s.assoc[0], s.assoc[1]
					st := s.openStream(0, 1)
					pst := s.openStream(1, 1)
					_ = s.write(1, 1, 100, PayloadTypeWebRTCBinary) // the stream exists on both sides
					s.runFaultFree(time.Second, 100*time.Millisecond, func() bool { return len(s.recvd[0][1]) == 1 })
					_ = st.SetReadDeadline(time.Now().Add(5 * time.Second)) // armed, nobody is reading
					synctest.Wait()
					reason := "td-cause-1"
					switch kind {
					case "close":
						_ = a.Close()
					case "abort":
						a.Abort("local")
					case "rfail":
						_ = s.conn[0].Close()
					case "rdl":
						_ = s.conn[0].SetReadDeadline(time.Now().Add(-time.Second))
					case "wfail":
						s.conn[0].mu.Lock()
						s.conn[0].failWrite = true
						s.conn[0].mu.Unlock()
						tdPoke(a)
					case "peerabort":
						d := make(chan struct{})
						go func() { defer close(d); b.Abort(reason) }()
						synctest.Wait()
						s.settle()
						for len(s.flight[1]) > 0 {
							s.deliver(1, 0, false)
						}
						<-d
					case "peerclose-reset":
						_ = pst.Close() // the peer resets its outgoing stream 1: our reads end with io.EOF
						s.settle()
						s.runFaultFree(2*time.Second, 100*time.Millisecond, func() bool { return false })
					}
					synctest.Wait()
					// what a read returns now is the terminal error (read it white-box: a real read would cancel the deadline)
					st.lock.RLock()
					terminal := st.readErr
					st.lock.RUnlock()
					if terminal == nil {
						add("scenario-broken", "the stream has no terminal error after "+kind)
						s.closeBoth()
						return
					}
					time.Sleep(10 * time.Second) // the armed deadline expires on the dead stream
					synctest.Wait()
					switch rearm {
					case "clear":
						_ = st.SetReadDeadline(time.Time{})
					case "rearm":
						_ = st.SetReadDeadline(time.Now().Add(time.Hour))
					}
					type rres struct {
						n   int
						err error
					}
					ch := make(chan rres, 1)
					go func() {
						n, _, err := st.ReadSCTP(make([]byte, 256))
						ch <- rres{n, err}
					}()
					synctest.Wait()
					select {
					case r := <-ch:
						switch {
						case r.err == nil:
							add("read-error-lost-after-deadline", fmt.Sprintf("read returned %d bytes, nil on a dead stream", r.n))
						case errors.Is(r.err, ErrReadDeadlineExceeded) || errors.Is(r.err, os.ErrDeadlineExceeded):
							add("read-error-lost-after-deadline", fmt.Sprintf("the terminal error %q was replaced by the deadline error %q", terminal, r.err))
						case r.err.Error() != terminal.Error():
							add("read-error-lost-after-deadline", fmt.Sprintf("read returned %q, the terminal error was %q", r.err, terminal))
						case kind == "peerabort" && !strings.Contains(r.err.Error(), reason):
							add("abort-cause-lost", fmt.Sprintf("read after a peer ABORT returned %q without the cause %q", r.err, reason))
						case kind == "peerclose-reset" && !errors.Is(r.err, io.EOF):
							add("read-error-lost-after-deadline", fmt.Sprintf("read after an inbound stream reset returned %q, not io.EOF", r.err))
						}
					default:
						add("read-blocks-after-deadline", fmt.Sprintf("ReadSCTP blocks on a dead stream (terminal error was %q) after the read deadline expired and was %s", terminal, rearm))
						// release the reader so that the bubble can end
						_ = st.SetReadDeadline(time.Now().Add(-time.Second))
						time.Sleep(time.Second)
						synctest.Wait()
					}
					_ = st.SetReadDeadline(time.Time{})
					s.closeBoth()
					time.Sleep(time.Second)
					synctest.Wait()
				})
			}()
			for _, l := range lines {
				fmt.Println(l)
				fails++
			}
		}
	}
	fmt.Printf("SIMTDDEADLINEERR cases=%d fails=%d\n", cases, fails)
}
