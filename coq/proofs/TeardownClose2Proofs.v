(* Teardown (C09): families with a further Close() call racing with everything. *)
From Coq Require Import Bool List PArith NArith.
From Sctp Require Import Gen Teardown TeardownProofs.
Import ListNotations.

Lemma td_families_ok_close2 : forallb td_check_family td_families_close2 = true.
Proof. vm_cast_no_check (eq_refl true). Qed.

Definition td_sizes_close2 : list N :=
  Eval vm_compute in map td_family_size td_families_close2.

