(* Dispatch guards of the data-path chunk handlers of association.go (handleData, handleForwardTSN,
   handleIForwardTSN, handleSack): what an inbound chunk of each kind triggers, as a function of the
   association state and the negotiated framing.  No proofs in this file.  Prefix ib_. *)
From Coq Require Import ZArith Bool List.
From Sctp Require Import Gen.
Import ListNotations.
Open Scope Z_scope.

Inductive ib_kind := IbData | IbIData | IbFwd | IbIFwd | IbSack.

Inductive ib_action :=
| IbIgnore            (* dropped without any effect *)
| IbAbort             (* protocol-violation ABORT is queued *)
| IbErrorReply        (* an ERROR chunk (unrecognized chunk type) is queued *)
| IbProcess.          (* handed to the normal processing of that chunk kind *)

Record ib_ctx := mkIb {
  ib_state : Z;
  ib_complete_pending : bool;   (* shutdownCompletePending *)
  ib_use_il : bool;             (* useInterleaving *)
  ib_use_fwd : bool;            (* useForwardTSN *)
  ib_use_ifwd : bool            (* useIForwardTSN *)
}.

Definition ib_dispatch (c : ib_ctx) (k : ib_kind) : ib_action :=
  match k with
  | IbData | IbIData =>
      if negb (negb (ib_complete_pending c) && isDataReceiveState (ib_state c)) then IbIgnore
      else
        let is_idata := match k with IbIData => true | _ => false end in
        if negb (Bool.eqb is_idata (ib_use_il c)) then IbAbort else IbProcess
  | IbFwd =>
      if ib_use_il c then IbAbort
      else if negb (ib_use_fwd c) then IbErrorReply
      else IbProcess
  | IbIFwd =>
      if negb (ib_use_ifwd c) then IbAbort else IbProcess
  | IbSack =>
      if (ib_state c =? c_established) || (ib_state c =? c_shutdownPending) || (ib_state c =? c_shutdownReceived)
      then IbProcess else IbIgnore
  end.

(* what updateInterleavingState derives from the negotiated capabilities *)
Definition ib_negotiate (local_il peer_il peer_fwd peer_ifwd : bool) : bool * bool * bool :=
  let use_il := local_il && peer_il in
  if use_il then (use_il, false, peer_ifwd && local_il) else (use_il, peer_fwd, false).
