// Verification harness: step-commuting records for the partial-reliability model (coq/model/PR.v).
//
// Sender records.  For every harness event (packet delivery, clock advance, write) and every side whose
// PR projection is touched, the record holds the projection before the event (in-flight chunk table with
// nSent / acked / retransmit / firstSent, message flags _abandoned/_allInflight keyed by head fragment,
// per-stream reliability policy, cumulativeTSNAckPoint, advancedPeerTSNAckPoint, myNextTSN, the
// forward-TSN switches), the exact list of primitive steps the association performed during the event,
// the FORWARD-TSN / I-FORWARD-TSN chunks it put on the wire (new cumulative TSN + stream list sorted), and
// the projection afterwards.  The primitive steps are taken from the association's own trace log calls
// (the harness installs a recording logging.LeveledLogger on the association object; logging is an
// interface of the code under test, nothing in /repo is touched): "sending", "retransmitting",
// "fast-retransmit", "RACK: mark lost", "RACK timer: mark lost", "PTO fired", "T3-rtx timed out",
// "SACK: cumTSN".  /verif/ocaml/cmp_pr.ml replays each record independently on the extracted model.
//
// Receiver records.  For every delivery of a FORWARD-TSN / I-FORWARD-TSN: receive bitmap and every
// stream's reassembly queue (dump helpers of zz_verif_rpq_test.go / zz_verif_rq_test.go) before and after.
package sctp

import (
	"bufio"
	"fmt"
	"sort"
	"strings"
	"sync"
	"testing"
	"time"

	"github.com/pion/logging"
)

// ---------------------------------------------------------------- recording logger

const (
	proKSend = iota + 1
	proKRtx
	proKFrtx
	proKMark
	proKT3
	proKSack
)

type proLogRec struct {
	kind int
	tsn  uint32
	at   time.Duration
}

type proLogger struct {
	mu    sync.Mutex
	recs  []proLogRec
	start time.Time
}

var proFormats = map[string]int{
	"[%s] sending ppi=%d tsn=%d ssn=%d sent=%d len=%d (%v,%v)":       proKSend,
	"[%s] retransmitting tsn=%d ssn=%d sent=%d":                      proKRtx,
	"[%s] fast-retransmit: tsn=%d sent=%d htna=%d":                   proKFrtx,
	"[%s] RACK: mark lost tsn=%d (sent=%v, delivered=%v, reoWnd=%v)": proKMark,
	"[%s] RACK timer: mark lost tsn=%d":                              proKMark,
	"[%s] PTO fired: probe tsn=%d":                                   proKMark,
	"[%s] T3-rtx timed out: nRtos=%d cwnd=%d ssthresh=%d":            proKT3,
	"[%s] SACK: cumTSN=%d a_rwnd=%d":                                 proKSack,
}

// position of the TSN among the arguments, per kind
var proTSNArg = map[int]int{proKSend: 2, proKRtx: 1, proKFrtx: 1, proKMark: 1, proKSack: 1}

func (l *proLogger) rec(format string, args []any) {
	k, ok := proFormats[format]
	if !ok {
		return
	}
	r := proLogRec{kind: k, at: time.Since(l.start)}
	if i, ok := proTSNArg[k]; ok && i < len(args) {
		if v, ok := args[i].(uint32); ok {
			r.tsn = v
		}
	}
	l.mu.Lock()
	l.recs = append(l.recs, r)
	l.mu.Unlock()
}

func (l *proLogger) Trace(string)              {}
func (l *proLogger) Tracef(f string, a ...any) { l.rec(f, a) }
func (l *proLogger) Debug(string)              {}
func (l *proLogger) Debugf(f string, a ...any) { l.rec(f, a) }
func (l *proLogger) Info(string)               {}
func (l *proLogger) Infof(string, ...any)      {}
func (l *proLogger) Warn(string)               {}
func (l *proLogger) Warnf(string, ...any)      {}
func (l *proLogger) Error(string)              {}
func (l *proLogger) Errorf(string, ...any)     {}

var _ logging.LeveledLogger = (*proLogger)(nil)

// ---------------------------------------------------------------- shared counters of one test run

type proCounters struct {
	mu                                          sync.Mutex
	w                                           *bufio.Writer
	nSnd, nRcv, skipped, quiet                  int
	evSend, evRtx, evFrtx, evMark, evT3, evSack int
	fwdOut, ifwdOut, rcvFwd, rcvIFwd, multiT3   int
	rcvSlim                                     int
	withAband, polRexmit, polTimed, polReliable int
	skipWhy                                     map[string]int
}

// ---------------------------------------------------------------- snapshots (the abstraction function)

type proSnap struct {
	ok    bool
	state uint32
	flags string
	pol   string
	msgs  string
	infl  string
	byTSN map[uint32]*chunkPayloadData
	first map[uint32]time.Duration
	nWire int
	nLog  int
	aband bool
}

type proRecorder struct {
	ct     *proCounters
	log    [2]*proLogger
	ids    [2]map[*chunkPayloadData]int64
	nextID [2]int64
	pre    [2]proSnap
	// receiver records
	rcvPre  string
	rcvWire int
}

func proHead(c *chunkPayloadData) *chunkPayloadData {
	if c.head != nil {
		return c.head
	}
	return c
}

func (r *proRecorder) id(side int, c *chunkPayloadData) int64 {
	h := proHead(c)
	if v, ok := r.ids[side][h]; ok {
		return v
	}
	r.nextID[side]++
	r.ids[side][h] = r.nextID[side]
	return r.nextID[side]
}

func (r *proRecorder) chunkTokens(side int, sb *strings.Builder, s *sim, c *chunkPayloadData) {
	fmt.Fprintf(sb, " %d %d %d %d %d %d %d %d %d %d %d %d %d", c.tsn, c.streamIdentifier, c.streamSequenceNumber,
		c.messageIdentifier, b2i(c.unordered), b2i(c.beginningFragment), b2i(c.endingFragment), r.id(side, c),
		b2i(c.payloadType == PayloadTypeWebRTCDCEP), c.nSent, b2i(c.acked), b2i(c.retransmit), int64(c.firstSent.Sub(s.start)))
}

func (r *proRecorder) snapshot(s *sim, side int) proSnap {
	a := s.assoc[side]
	snap := proSnap{byTSN: map[uint32]*chunkPayloadData{}, first: map[uint32]time.Duration{}}
	if a == nil {
		return snap
	}
	a.lock.RLock()
	defer a.lock.RUnlock()
	snap.ok = true
	snap.state = a.getState()
	snap.flags = fmt.Sprintf("%d %d %d %d %d %d", b2i(a.useForwardTSN), b2i(a.useIForwardTSN), b2i(a.willSendForwardTSN),
		a.cumulativeTSNAckPoint, a.advancedPeerTSNAckPoint, a.myNextTSN)
	// policy table
	ids := make([]int, 0, len(a.streams))
	for id := range a.streams {
		ids = append(ids, int(id))
	}
	sort.Ints(ids)
	var sb strings.Builder
	fmt.Fprintf(&sb, "%d", len(ids))
	for _, id := range ids {
		st := a.streams[uint16(id)]
		st.lock.RLock()
		fmt.Fprintf(&sb, " %d %d %d", id, st.reliabilityType, st.reliabilityValue)
		st.lock.RUnlock()
	}
	snap.pol = sb.String()
	// in-flight chunks, message heads
	var heads []*chunkPayloadData
	seen := map[*chunkPayloadData]bool{}
	addHead := func(h *chunkPayloadData) {
		if !seen[h] {
			seen[h] = true
			heads = append(heads, h)
		}
	}
	sb.Reset()
	n := a.inflightQueue.chunks.Len()
	fmt.Fprintf(&sb, "%d", n)
	for i := 0; i < n; i++ {
		c := a.inflightQueue.chunks.At(i)
		r.chunkTokens(side, &sb, s, c)
		snap.byTSN[c.tsn] = c
		addHead(proHead(c))
		if c.abandoned() {
			snap.aband = true
		}
	}
	snap.infl = sb.String()
	// heads of partially sent messages whose remaining fragments still wait in the pending queue
	var pend []*chunkPayloadData
	simPendingChunks(a.pendingQueue, &pend)
	for _, c := range pend {
		if h := proHead(c); h != c && h.nSent > 0 {
			addHead(h)
		}
	}
	type mrow struct {
		id         int64
		ab, al, dc int
	}
	rows := make([]mrow, 0, len(heads))
	for _, h := range heads {
		rows = append(rows, mrow{r.id(side, h), b2i(h._abandoned), b2i(h._allInflight), b2i(h.payloadType == PayloadTypeWebRTCDCEP)})
	}
	sort.Slice(rows, func(i, j int) bool { return rows[i].id < rows[j].id })
	sb.Reset()
	fmt.Fprintf(&sb, "%d", len(rows))
	for _, m := range rows {
		fmt.Fprintf(&sb, " %d %d %d %d", m.id, m.ab, m.al, m.dc)
	}
	snap.msgs = sb.String()
	return snap
}

func proDataPathOnly(p *packet) bool {
	for _, c := range p.chunks {
		switch c.(type) {
		case *chunkPayloadData, *chunkSelectiveAck, *chunkForwardTSN, *chunkIForwardTSN, *chunkHeartbeat, *chunkHeartbeatAck:
		default:
			return false
		}
	}
	return true
}

func proFwdOf(p *simPkt) (chunk, bool) {
	if p == nil || p.pkt == nil {
		return nil, false
	}
	for _, c := range p.pkt.chunks {
		switch c.(type) {
		case *chunkForwardTSN, *chunkIForwardTSN:
			return c, true
		}
	}
	return nil, false
}

func proFwdTokens(c chunk) string {
	var sb strings.Builder
	switch v := c.(type) {
	case *chunkForwardTSN:
		st := append([]chunkForwardTSNStream{}, v.streams...)
		sort.Slice(st, func(i, j int) bool { return st[i].identifier < st[j].identifier })
		fmt.Fprintf(&sb, "fwd %d %d", v.newCumulativeTSN, len(st))
		for _, e := range st {
			fmt.Fprintf(&sb, " %d %d", e.identifier, e.sequence)
		}
	case *chunkIForwardTSN:
		st := append([]chunkIForwardTSNStream{}, v.streams...)
		sort.Slice(st, func(i, j int) bool {
			if st[i].unordered != st[j].unordered {
				return !st[i].unordered
			}
			return st[i].identifier < st[j].identifier
		})
		fmt.Fprintf(&sb, "ifwd %d %d", v.newCumulativeTSN, len(st))
		for _, e := range st {
			fmt.Fprintf(&sb, " %d %d %d", e.identifier, b2i(e.unordered), e.messageIdentifier)
		}
	}
	return sb.String()
}

// proFwdWireTokens: the chunk as it is on the wire (entry order kept: the receiver applies them in order)
func proFwdWireTokens(c chunk) string {
	var sb strings.Builder
	switch v := c.(type) {
	case *chunkForwardTSN:
		fmt.Fprintf(&sb, "fwd %d %d", v.newCumulativeTSN, len(v.streams))
		for _, e := range v.streams {
			fmt.Fprintf(&sb, " %d %d", e.identifier, e.sequence)
		}
	case *chunkIForwardTSN:
		fmt.Fprintf(&sb, "ifwd %d %d", v.newCumulativeTSN, len(v.streams))
		for _, e := range v.streams {
			fmt.Fprintf(&sb, " %d %d %d", e.identifier, b2i(e.unordered), e.messageIdentifier)
		}
	}
	return sb.String()
}

// rcvDump: receive bitmap + per-stream reassembly queues of one side
func proRcvDump(a *Association) (string, int) {
	a.lock.RLock()
	defer a.lock.RUnlock()
	var sb strings.Builder
	fmt.Fprintf(&sb, "rflags %d %d %d %d %d %d\n", b2i(a.useInterleaving), b2i(a.useForwardTSN), b2i(a.useIForwardTSN), len(a.reconfigRequests),
		a.maxReassemblyQueueEntries, len(a.acceptCh))
	bw := bufio.NewWriter(&sb)
	fmt.Fprintf(bw, "pq ")
	rpqDump(bw, a.payloadQueue)
	bw.Flush()
	ids := make([]int, 0, len(a.streams))
	for id := range a.streams {
		ids = append(ids, int(id))
	}
	sort.Ints(ids)
	fmt.Fprintf(&sb, "streams %d\n", len(ids))
	for _, id := range ids {
		st := a.streams[uint16(id)]
		st.lock.RLock()
		fmt.Fprintf(&sb, "st %d %d %s\n", id, st.reassemblyQueue.maxEntries, rqDumpString(st.reassemblyQueue))
		st.lock.RUnlock()
	}
	return sb.String(), len(ids)
}

// proSlim keeps the flag and bitmap lines of a receiver dump.
func proSlim(d string) string {
	var sb strings.Builder
	for _, l := range strings.Split(d, "\n") {
		if strings.HasPrefix(l, "rflags ") || strings.HasPrefix(l, "pq ") {
			sb.WriteString(l + "\n")
		}
	}
	sb.WriteString("streams 0\n")
	return sb.String()
}

func (r *proRecorder) install(s *sim) {
	for side := 0; side < 2; side++ {
		a := s.assoc[side]
		if a == nil || r.log[side] != nil {
			continue
		}
		l := &proLogger{start: s.start}
		a.lock.Lock()
		a.log = l
		a.lock.Unlock()
		r.log[side] = l
		r.ids[side] = map[*chunkPayloadData]int64{}
	}
}

func (r *proRecorder) before(s *sim, ev *simEvent) {
	r.install(s)
	for side := 0; side < 2; side++ {
		if r.log[side] == nil {
			continue
		}
		snap := r.snapshot(s, side)
		snap.nWire = len(s.wire)
		r.log[side].mu.Lock()
		snap.nLog = len(r.log[side].recs)
		r.log[side].mu.Unlock()
		r.pre[side] = snap
	}
	r.rcvPre = ""
	if ev.kind == "deliver" {
		if _, ok := proFwdOf(ev.pkt); ok && s.assoc[ev.side] != nil {
			r.rcvPre, _ = proRcvDump(s.assoc[ev.side])
			r.rcvWire = len(s.wire)
		}
	}
}

func proGoElapsed(d time.Duration) int64 { return int64(d.Seconds() * 1000) }

func (r *proRecorder) after(s *sim, ev *simEvent) {
	ct := r.ct
	for side := 0; side < 2; side++ {
		if r.log[side] == nil || !r.pre[side].ok {
			continue
		}
		pre := r.pre[side]
		post := r.snapshot(s, side)
		r.log[side].mu.Lock()
		recs := append([]proLogRec{}, r.log[side].recs[pre.nLog:]...)
		r.log[side].mu.Unlock()
		unchanged := pre.flags == post.flags && pre.msgs == post.msgs && pre.infl == post.infl
		if len(recs) == 0 && unchanged {
			ct.mu.Lock()
			ct.quiet++
			ct.mu.Unlock()
			continue
		}
		skip := pre.state != established || post.state != established
		why := "state"
		var sack *chunkSelectiveAck
		if ev.kind == "deliver" && ev.side == side {
			if ev.pkt.pkt == nil || !proDataPathOnly(ev.pkt.pkt) {
				if !skip {
					why = "other-chunk-types"
				}
				skip = true
			} else {
				for _, c := range ev.pkt.pkt.chunks {
					if v, ok := c.(*chunkSelectiveAck); ok {
						sack = v
					}
				}
			}
		}
		var evs []string
		counts := map[int]int{}
		rank := func(k int) int {
			switch k {
			case proKRtx:
				return 1
			case proKSend:
				return 2
			case proKFrtx:
				return 3
			}
			return 0
		}
		maxRank := -1
		for _, lr := range recs {
			rk := rank(lr.kind)
			if maxRank > 0 && rk < maxRank {
				evs = append(evs, "e gather") // the previous gather is over
				maxRank = -1
			}
			if rk > maxRank {
				maxRank = rk
			}
			counts[lr.kind]++
			now := int64(lr.at)
			switch lr.kind {
			case proKSend:
				c := post.byTSN[lr.tsn]
				if c == nil {
					if !skip {
						why = "sent-chunk-gone"
					}
					skip = true
					continue
				}
				evs = append(evs, fmt.Sprintf("e send %d %d %d %d %d %d %d %d %d %d %d", c.tsn, c.streamIdentifier, c.streamSequenceNumber,
					c.messageIdentifier, b2i(c.unordered), b2i(c.beginningFragment), b2i(c.endingFragment), r.id(side, c),
					b2i(c.payloadType == PayloadTypeWebRTCDCEP), now, proGoElapsed(0)))
			case proKRtx, proKFrtx:
				name := "rtx"
				if lr.kind == proKFrtx {
					name = "frtx"
				}
				c := pre.byTSN[lr.tsn]
				if c == nil {
					c = post.byTSN[lr.tsn]
				}
				el := int64(-1)
				if c != nil {
					el = proGoElapsed(lr.at - c.firstSent.Sub(s.start))
				}
				evs = append(evs, fmt.Sprintf("e %s %d %d %d", name, lr.tsn, now, el))
			case proKMark:
				evs = append(evs, fmt.Sprintf("e mark %d", lr.tsn))
			case proKT3:
				evs = append(evs, "e t3")
			case proKSack:
				if sack == nil || sack.cumulativeTSNAck != lr.tsn {
					if !skip {
						why = "sack-not-identified"
					}
					skip = true
					continue
				}
				var sb strings.Builder
				fmt.Fprintf(&sb, "e sack %d %d", sack.cumulativeTSNAck, len(sack.gapAckBlocks))
				for _, g := range sack.gapAckBlocks {
					fmt.Fprintf(&sb, " %d %d", g.start, g.end)
				}
				evs = append(evs, sb.String())
			}
		}
		evs = append(evs, "e gather")
		// FORWARD-TSN chunks this side put on the wire during the event
		var outs []string
		for _, p := range s.wire[pre.nWire:] {
			if p.from != side {
				continue
			}
			if c, ok := proFwdOf(p); ok {
				outs = append(outs, "o "+proFwdTokens(c))
			}
		}
		ct.mu.Lock()
		if skip {
			ct.skipped++
			ct.skipWhy[why]++
			ct.mu.Unlock()
			continue
		}
		ct.nSnd++
		ct.evSend += counts[proKSend]
		ct.evRtx += counts[proKRtx]
		ct.evFrtx += counts[proKFrtx]
		ct.evMark += counts[proKMark]
		ct.evT3 += counts[proKT3]
		ct.evSack += counts[proKSack]
		if counts[proKT3] > 1 {
			ct.multiT3++
		}
		for _, o := range outs {
			if strings.HasPrefix(o, "o fwd") {
				ct.fwdOut++
			} else {
				ct.ifwdOut++
			}
		}
		if pre.aband || post.aband {
			ct.withAband++
		}
		fmt.Fprintf(ct.w, "case s%d\nkind snd %s side=%d scenario=%s seed=%d t=%v\npre.flags %s\npre.pol %s\npre.msgs %s\npre.infl %s\n",
			ct.nSnd, ev.kind, side, strings.ReplaceAll(s.label, " ", "_"), s.opts.seed, s.now(), pre.flags, pre.pol, pre.msgs, pre.infl)
		for _, e := range evs {
			fmt.Fprintln(ct.w, e)
		}
		for _, o := range outs {
			fmt.Fprintln(ct.w, o)
		}
		fmt.Fprintf(ct.w, "post.flags %s\npost.msgs %s\npost.infl %s\n", post.flags, post.msgs, post.infl)
		ct.mu.Unlock()
	}
	// receiver record
	if r.rcvPre != "" {
		a := s.assoc[ev.side]
		c, _ := proFwdOf(ev.pkt)
		post, _ := proRcvDump(a)
		sacked := 0
		for _, p := range s.wire[r.rcvWire:] {
			if p.from == ev.side && p.pkt != nil {
				for _, x := range p.pkt.chunks {
					if _, ok := x.(*chunkSelectiveAck); ok {
						sacked = 1
					}
				}
			}
		}
		only := len(ev.pkt.pkt.chunks) == 1
		ct.mu.Lock()
		if !only || a.getState() != established {
			ct.skipped++
			ct.skipWhy["rcv"]++
		} else {
			ct.nRcv++
			pre := r.rcvPre
			if post == pre {
				// nothing changed (stale FORWARD-TSN, the common case): the model has to say so from the receive
				// bitmap alone; the reassembly queues are left out of the record
				pre = proSlim(pre)
				post = pre
				ct.rcvSlim++
			}
			if _, ok := c.(*chunkForwardTSN); ok {
				ct.rcvFwd++
			} else {
				ct.rcvIFwd++
			}
			fmt.Fprintf(ct.w, "case r%d\nkind rcv side=%d scenario=%s seed=%d t=%v\nBEGINPRE\n%sENDPRE\nev %s\nsacked %d\nBEGINPOST\n%sENDPOST\n",
				ct.nRcv, ev.side, strings.ReplaceAll(s.label, " ", "_"), s.opts.seed, s.now(), pre, proFwdWireTokens(c), sacked, post)
		}
		ct.mu.Unlock()
		r.rcvPre = ""
	}
}

func proSummary(ct *proCounters, scenarios, monitorFails int) {
	fmt.Printf("SIMPROBS scenarios=%d sender_records=%d receiver_records=%d skipped=%d quiet_events=%d ev_send=%d ev_rtx=%d ev_fast_rtx=%d ev_mark=%d ev_t3=%d ev_sack=%d "+
		"fwd_emitted=%d ifwd_emitted=%d fwd_delivered=%d ifwd_delivered=%d receiver_unchanged=%d records_with_abandoned_chunks=%d records_with_several_t3=%d monitor_fails=%d\n",
		scenarios, ct.nSnd, ct.nRcv, ct.skipped, ct.quiet, ct.evSend, ct.evRtx, ct.evFrtx, ct.evMark, ct.evT3, ct.evSack,
		ct.fwdOut, ct.ifwdOut, ct.rcvFwd, ct.rcvIFwd, ct.rcvSlim, ct.withAband, ct.multiT3, monitorFails)
	fmt.Printf("SIMPROBS-SKIPS %v\n", ct.skipWhy)
}

// TestVerifSimPRObs runs the partial-reliability scenario generator and the targeted PR scenarios with the
// recorder attached and writes the step-commuting records.
func TestVerifSimPRObs(t *testing.T) {
	seed := verifEnvInt("VERIF_SEED", 1)
	n := int(verifEnvInt("VERIF_N", 40))
	nEvents := int(verifEnvInt("VERIF_EVENTS", 250))
	w, done := verifOut(t, "/tmp/verif_pr.trace")
	defer done()
	ct := &proCounters{w: w, skipWhy: map[string]int{}}
	simObserverFactory = func() []simObserver { return []simObserver{&proRecorder{ct: ct}} }
	defer func() { simObserverFactory = nil }()
	st := &prStats{}
	fails := 0
	if only := verifEnvInt("VERIF_ONLY", 0); only != 0 {
		fails += len(runPRScenario(t, only, nEvents, st))
		proSummary(ct, 1, fails)
		return
	}
	for i := 0; i < n; i++ {
		fails += len(runPRScenario(t, seed*7000003+int64(i), nEvents, st))
		st.scenarios++
	}
	nScen := st.scenarios
	if verifEnvInt("VERIF_PR_TARGETED", 1) != 0 {
		k, f := proRunTargeted(t, seed)
		nScen += k
		fails += f
	}
	proSummary(ct, nScen, fails)
}
