let () =
  let fin () = exit (if !Zio.mismatches > 0 then 1 else 0) in
  match Array.to_list Sys.argv with
  | [_; "rpq"; path] -> Cmp_rpq.run path; fin ()
  | [_; "sna"; path] -> Cmp_sna.run path; fin ()
  | _ -> prerr_endline "usage: cmp <component> <trace>"; exit 2
