// Verification harness helpers shared by the zz_verif_* files (overlay; not part of pion/sctp).
package sctp

import (
	"bufio"
	"os"
	"strconv"
	"testing"
)

func verifEnvInt(name string, def int64) int64 {
	if v := os.Getenv(name); v != "" {
		if n, err := strconv.ParseInt(v, 10, 64); err == nil {
			return n
		}
	}
	return def
}

func verifOut(t *testing.T, def string) (*bufio.Writer, func()) {
	t.Helper()
	path := os.Getenv("VERIF_OUT")
	if path == "" {
		path = def
	}
	f, err := os.Create(path)
	if err != nil {
		t.Fatal(err)
	}
	w := bufio.NewWriterSize(f, 1<<20)
	return w, func() { w.Flush(); f.Close() }
}

func b2i(b bool) int {
	if b {
		return 1
	}
	return 0
}
