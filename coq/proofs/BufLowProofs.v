(* The low-threshold callback fires for each downward crossing (C15), for all histories of writes and releases. *)
From Coq Require Import ZArith Bool List Lia.
From Coq Require Import ZifyBool.
From Sctp Require Import BufLow.
Import ListNotations.
Open Scope Z_scope.

(* one release: exact value, no underflow, fires exactly on a downward crossing *)
Lemma bl_released_spec v low n hascb : 0 <= v ->
  let (v', f) := bl_released v low n hascb in
  0 <= v' <= v /\ (0 < n -> v' = Z.max 0 (v - n)) /\ (n <= 0 -> v' = v) /\
  (f = true <-> hascb = true /\ low < v /\ v' <= low).
Proof.
  intros Hv. unfold bl_released. destruct (n <=? 0) eqn:En.
  - repeat split; try lia; try discriminate; intros (_ & A & B); lia.
  - destruct (v <? n) eqn:Ev; (split; [lia|]); (split; [intros; lia|]); (split; [intros; lia|]);
      destruct hascb; cbn [andb]; split; try (intros [? ?]; discriminate); try discriminate; intros; lia.
Qed.

(* a history that starts above the threshold and ends at or below it contains a firing *)
Lemma bl_crossing_fires : forall evs low v vn fs,
  bl_run low v evs = (vn, fs) -> (forall n, In (BlWrite n) evs -> 0 <= n) ->
  low < v -> vn <= low -> existsb (fun b => b) fs = true.
Proof.
  induction evs as [|e r IH]; intros low v vn fs H Hw Hv Hn; cbn [bl_run] in H.
  - inversion H; subst. lia.
  - destruct (bl_step low v e) as [v1 f] eqn:Es. destruct (bl_run low v1 r) as [vn' fs'] eqn:Er.
    inversion H; subst vn' fs. clear H. cbn [existsb].
    destruct (Z.leb_spec v1 low) as [Hle|Hgt].
    + (* this very event crossed *)
      destruct e as [n|n]; cbn [bl_step] in Es.
      * inversion Es; subst. assert (0 <= n) by (apply Hw; left; reflexivity). lia.
      * unfold bl_released in Es. destruct (n <=? 0) eqn:En; [inversion Es; subst; lia|].
        inversion Es; subst. cbn [andb].
        assert (X : (low <? v) = true) by lia. rewrite X. cbn [andb].
        assert (Y : ((if v <? n then 0 else v - n) <=? low) = true) by lia. rewrite Y. reflexivity.
    + apply orb_true_iff. right. apply (IH low v1 vn fs' Er); [intros n Hin; apply Hw; right; assumption|lia|assumption].
Qed.

(* ... and it fires at most once per crossing: without an intervening rise above the threshold nothing fires *)
Lemma bl_no_fire_below : forall evs low v vn fs,
  bl_run low v evs = (vn, fs) -> (forall e, In e evs -> exists n, e = BlRel n) ->
  0 <= v <= low -> forallb negb fs = true /\ 0 <= vn <= low.
Proof.
  induction evs as [|e r IH]; intros low v vn fs H Hr Hv; cbn [bl_run] in H.
  - inversion H; subst. split; [reflexivity|assumption].
  - destruct (bl_step low v e) as [v1 f] eqn:Es. destruct (bl_run low v1 r) as [vn' fs'] eqn:Er.
    inversion H; subst vn' fs. clear H.
    destruct (Hr e (or_introl eq_refl)) as [n ->]. cbn [bl_step] in Es.
    pose proof (bl_released_spec v low n true (proj1 Hv)) as S. rewrite Es in S. destruct S as (S1 & _ & _ & S4).
    assert (f = false) by (destruct f; [destruct (proj1 S4 eq_refl) as (_ & A & _); lia|reflexivity]). subst f.
    destruct (IH low v1 vn fs' Er) as [A B]; [intros e He; apply Hr; right; assumption|lia|].
    cbn [forallb negb andb]. split; assumption.
Qed.

(* a firing means this event took the amount from above the threshold to at or below it *)
Lemma bl_fire_is_crossing low v e v1 : 0 <= v -> bl_step low v e = (v1, true) ->
  exists n, e = BlRel n /\ 0 < n /\ low < v /\ v1 <= low /\ v1 = Z.max 0 (v - n).
Proof.
  intros Hv H. destruct e as [n|n]; cbn [bl_step] in H; [inversion H|].
  pose proof (bl_released_spec v low n true Hv) as S. rewrite H in S. destruct S as (S1 & S2 & S3 & S4).
  destruct (proj1 S4 eq_refl) as (_ & A & B). exists n.
  assert (0 < n) by (destruct (Z.ltb_spec 0 n); [assumption|specialize (S3 ltac:(lia)); lia]).
  repeat split; try assumption. apply S2. assumption.
Qed.
