// Verification harness: targeted partial-reliability scenarios for C06 / C07 (run with the monitors, and
// with the step-commuting recorder of zz_verif_simprobs_test.go attached by TestVerifSimPRObs).
package sctp

import (
	"fmt"
	"testing"
	"time"
)

// proDropData drops every parked packet from `from` that carries a DATA / I-DATA chunk.
func proDropData(s *sim, from int) int {
	n := 0
	for i := 0; i < len(s.flight[from]); {
		p := s.flight[from][i]
		has := false
		if p.pkt != nil {
			for _, c := range p.pkt.chunks {
				if _, ok := c.(*chunkPayloadData); ok {
					has = true
				}
			}
		}
		if has {
			s.drop(from, i)
			n++
		} else {
			i++
		}
	}
	return n
}

// proDropFwd drops every parked packet from `from` that carries a FORWARD-TSN / I-FORWARD-TSN.
func proDropFwd(s *sim, from int) int {
	n := 0
	for i := 0; i < len(s.flight[from]); {
		if _, ok := proFwdOf(s.flight[from][i]); ok {
			s.drop(from, i)
			n++
		} else {
			i++
		}
	}
	return n
}

func proHas(s *sim, side int, sid uint16, idx int) bool {
	for _, m := range s.recvd[side][sid] {
		if m.idx == idx {
			return true
		}
	}
	return false
}

func proIdle(s *sim, side int) func() bool {
	return func() bool {
		return s.assoc[side].BufferedAmount() == 0 && len(s.flight[0]) == 0 && len(s.flight[1]) == 0
	}
}

func proHeldBytes(a *Association) int {
	a.lock.RLock()
	defer a.lock.RUnlock()
	n := 0
	for _, st := range a.streams {
		n += st.getNumBytesInReassemblyQueue()
	}
	return n
}

// proExpect: after the network healed, exactly the messages in `want` (indices into the written history of
// stream sid on side 0) were delivered on side 1; ordered ones in writing order.
func proExpect(s *sim, sid uint16, want []int, key string) {
	s.runFaultFree(40*time.Second, 50*time.Millisecond, func() bool {
		for _, i := range want {
			if !proHas(s, 1, sid, i) {
				return false
			}
		}
		return proIdle(s, 0)()
	})
	s.runFaultFree(2*time.Second, 50*time.Millisecond, func() bool { return false })
	s.readAll()
	for _, i := range want {
		if !proHas(s, 1, sid, i) {
			m := s.sent[0][sid][i]
			s.fail("C07", fmt.Sprintf("a message that was not abandoned is never delivered (%s): sid=%d msg#%d ppi=%d unordered=%v; delivered %d of %d written",
				key, sid, i, m.ppi, m.unordered, len(s.recvd[1][sid]), len(s.sent[0][sid])))
			return
		}
	}
	last := -1
	for _, m := range s.recvd[1][sid] {
		if !m.unordered {
			if m.idx < last {
				s.fail("C06", fmt.Sprintf("ordered messages delivered out of writing order (ordered-subsequence): sid=%d msg#%d after msg#%d", sid, m.idx, last))
			}
			last = m.idx
		}
	}
	if a := s.assoc[0]; a.BufferedAmount() != 0 {
		s.fail("C07", fmt.Sprintf("sender still has %d buffered bytes after the network healed (abandoned-message-blocks-traffic): inflight=%d pending=%d",
			a.BufferedAmount(), a.inflightQueue.size(), a.pendingQueue.size()))
	}
	s.checkBuffered(0)
	s.checkBuffered(1)
	prCheckDrained(s)
	if n := proHeldBytes(s.assoc[1]); n != 0 {
		s.fail("C07", fmt.Sprintf("receiver still holds %d bytes of fragments after everything deliverable was read (skipped-fragments-not-purged)", n))
	}
}

type proScen struct {
	name string
	fn   func(s *sim, il int)
	opts func(o *simOpts)
}

// proCheckLifetime: wire view - at most one transmission of a chunk happens at or after firstTransmission + L (C06).
func proCheckLifetime(s *sim, side int, sid uint16, lifetime time.Duration, key string) {
	per := map[uint32][]time.Duration{}
	for _, p := range s.wire {
		if p.from != side || p.pkt == nil {
			continue
		}
		for _, c := range p.pkt.chunks {
			if d, ok := c.(*chunkPayloadData); ok && d.streamIdentifier == sid {
				per[d.tsn] = append(per[d.tsn], p.at)
			}
		}
	}
	for tsn, ts := range per {
		late := 0
		for _, x := range ts[1:] {
			if x-ts[0] >= lifetime {
				late++
			}
		}
		if late > 1 {
			s.fail("C06", fmt.Sprintf("%d transmissions after the lifetime of %v expired (%s): side=%d tsn=%d sid=%d times=%v", late, lifetime, key, side, tsn, sid, ts))
		}
	}
}

func proScenarios() []proScen {
	const sid = 5
	abandonNow := func(s *sim) {
		// lose every transmission parked so far, then let T3 expire and the FORWARD-TSN through
		proDropData(s, 0)
		s.runFaultFree(6*time.Second, 50*time.Millisecond, proIdle(s, 0))
	}
	return []proScen{
		{"abandoned-first-message-of-stream", func(s *sim, il int) {
			// D9: the receiver has never seen the stream when the FORWARD-TSN arrives
			st := s.openStream(0, sid)
			st.SetReliabilityParams(false, ReliabilityTypeRexmit, 0)
			_ = s.write(0, sid, 30, PayloadTypeWebRTCBinary)
			abandonNow(s)
			_ = s.write(0, sid, 40, PayloadTypeWebRTCBinary)
			_ = s.write(0, sid, 50, PayloadTypeWebRTCBinary)
			proExpect(s, sid, []int{1, 2}, "forward-tsn-for-unknown-stream-lost")
		}, nil},
		{"abandoned-first-message-unordered", func(s *sim, il int) {
			st := s.openStream(0, sid)
			st.SetReliabilityParams(true, ReliabilityTypeRexmit, 0)
			_ = s.write(0, sid, 30, PayloadTypeWebRTCBinary)
			abandonNow(s)
			_ = s.write(0, sid, 40, PayloadTypeWebRTCBinary)
			_ = s.write(0, sid, 20, PayloadTypeWebRTCDCEP)
			proExpect(s, sid, []int{1, 2}, "forward-tsn-for-unknown-stream-lost")
		}, nil},
		{"abandoned-message-partially-received", func(s *sim, il int) {
			st := s.openStream(0, sid)
			st.SetReliabilityParams(false, ReliabilityTypeRexmit, 0)
			mp := int(s.assoc[0].maxPayloadSize)
			_ = s.write(0, sid, 10, PayloadTypeWebRTCBinary)
			s.runFaultFree(3*time.Second, 50*time.Millisecond, proIdle(s, 0))
			_ = s.write(0, sid, 2*mp+100, PayloadTypeWebRTCBinary) // three fragments
			// only the middle fragment gets through
			kept := false
			for i := 0; i < len(s.flight[0]); {
				p := s.flight[0][i]
				mid := false
				if p.pkt != nil {
					for _, c := range p.pkt.chunks {
						if d, ok := c.(*chunkPayloadData); ok && !d.beginningFragment && !d.endingFragment {
							mid = true
						}
					}
				}
				if mid && !kept {
					kept = true
					s.deliver(0, i, false)
				} else {
					s.drop(0, i)
				}
			}
			s.runFaultFree(6*time.Second, 50*time.Millisecond, proIdle(s, 0))
			_ = s.write(0, sid, 40, PayloadTypeWebRTCBinary)
			proExpect(s, sid, []int{0, 2}, "later-message-lost-after-partial-abandon")
		}, nil},
		{"abandoned-unordered-partially-received", func(s *sim, il int) {
			st := s.openStream(0, sid)
			st.SetReliabilityParams(true, ReliabilityTypeRexmit, 0)
			mp := int(s.assoc[0].maxPayloadSize)
			_ = s.write(0, sid, 10, PayloadTypeWebRTCBinary)
			s.runFaultFree(3*time.Second, 50*time.Millisecond, proIdle(s, 0))
			_ = s.write(0, sid, 2*mp+100, PayloadTypeWebRTCBinary)
			first := true
			for len(s.flight[0]) > 0 {
				if first {
					s.deliver(0, 0, false) // the B fragment arrives
					first = false
				} else {
					s.drop(0, 0)
				}
			}
			s.runFaultFree(6*time.Second, 50*time.Millisecond, proIdle(s, 0))
			_ = s.write(0, sid, 40, PayloadTypeWebRTCBinary)
			proExpect(s, sid, []int{0, 2}, "later-message-lost-after-partial-abandon")
		}, nil},
		{"forward-tsn-lost-then-retransmitted", func(s *sim, il int) {
			st := s.openStream(0, sid)
			st.SetReliabilityParams(false, ReliabilityTypeRexmit, 0)
			_ = s.write(0, sid, 10, PayloadTypeWebRTCBinary)
			s.runFaultFree(3*time.Second, 50*time.Millisecond, proIdle(s, 0))
			_ = s.write(0, sid, 30, PayloadTypeWebRTCBinary)
			proDropData(s, 0)
			// the first two FORWARD-TSNs are lost
			lost := 0
			deadline := s.now() + 20*time.Second
			for lost < 2 && s.now() < deadline {
				s.advance(100 * time.Millisecond)
				lost += proDropFwd(s, 0)
				for len(s.flight[1]) > 0 {
					s.deliver(1, 0, false)
				}
			}
			if lost < 2 {
				s.fail("C07", fmt.Sprintf("FORWARD-TSN is not sent again after it was lost (forward-tsn-not-retransmitted): seen %d", lost))
			}
			_ = s.write(0, sid, 40, PayloadTypeWebRTCBinary)
			// a duplicate of the FORWARD-TSN that finally gets through
			s.runFaultFree(20*time.Second, 50*time.Millisecond, func() bool { return proHas(s, 1, sid, 2) })
			proExpect(s, sid, []int{0, 2}, "later-message-lost-after-forward-tsn-loss")
		}, nil},
		{"forward-tsn-duplicated", func(s *sim, il int) {
			st := s.openStream(0, sid)
			st.SetReliabilityParams(false, ReliabilityTypeRexmit, 0)
			_ = s.write(0, sid, 10, PayloadTypeWebRTCBinary)
			s.runFaultFree(3*time.Second, 50*time.Millisecond, proIdle(s, 0))
			_ = s.write(0, sid, 30, PayloadTypeWebRTCBinary)
			proDropData(s, 0)
			var dup *simPkt
			deadline := s.now() + 10*time.Second
			for dup == nil && s.now() < deadline {
				s.advance(100 * time.Millisecond)
				for i, p := range s.flight[0] {
					if _, ok := proFwdOf(p); ok {
						dup = p
						s.deliver(0, i, true) // deliver and keep a copy parked
						break
					}
				}
			}
			_ = s.write(0, sid, 40, PayloadTypeWebRTCBinary)
			_ = s.write(0, sid, 41, PayloadTypeWebRTCBinary)
			// the new messages arrive first, then the stale copy of the FORWARD-TSN
			for i := 0; i < len(s.flight[0]); {
				if _, ok := proFwdOf(s.flight[0][i]); ok {
					i++
				} else {
					s.deliver(0, i, false)
				}
			}
			for len(s.flight[0]) > 0 {
				s.deliver(0, 0, false)
			}
			proExpect(s, sid, []int{0, 2, 3}, "later-message-lost-after-duplicate-forward-tsn")
		}, nil},
		{"runs-of-abandoned-messages", func(s *sim, il int) {
			st := s.openStream(0, sid)
			st.SetReliabilityParams(false, ReliabilityTypeRexmit, 0)
			st2 := s.openStream(0, sid+1) // a reliable ordered stream next to it
			st2.SetReliabilityParams(false, ReliabilityTypeReliable, 0)
			mp := int(s.assoc[0].maxPayloadSize)
			var want []int
			idx := 0
			wr := func(n int, lose bool) {
				_ = s.write(0, sid, n, PayloadTypeWebRTCBinary)
				if lose {
					proDropData(s, 0)
				} else {
					want = append(want, idx)
					s.runFaultFree(3*time.Second, 50*time.Millisecond, proIdle(s, 0))
				}
				idx++
			}
			wr(20, false)
			for k := 0; k < 4; k++ {
				wr(30+k, true)
			}
			_ = s.write(0, sid+1, 300, PayloadTypeWebRTCString)
			s.runFaultFree(6*time.Second, 50*time.Millisecond, proIdle(s, 0))
			wr(mp+7, false)
			wr(21, false)
			wr(mp-1, true)
			wr(2, true)
			wr(1, true)
			s.runFaultFree(6*time.Second, 50*time.Millisecond, proIdle(s, 0))
			_ = s.write(0, sid+1, 301, PayloadTypeWebRTCString)
			wr(22, false)
			proExpect(s, sid, want, "later-message-lost-after-abandoned-run")
			if len(s.recvd[1][sid+1]) != 2 {
				s.fail("C07", fmt.Sprintf("a reliable message on another stream was never delivered (reliable-message-lost): delivered %d of 2", len(s.recvd[1][sid+1])))
			}
		}, nil},
		{"ordered-unordered-dcep-on-one-stream", func(s *sim, il int) {
			st := s.openStream(0, sid)
			var want []int
			idx := 0
			wr := func(n int, ppi PayloadProtocolIdentifier, lose bool) {
				_ = s.write(0, sid, n, ppi)
				if lose {
					proDropData(s, 0)
					s.runFaultFree(6*time.Second, 50*time.Millisecond, proIdle(s, 0))
				} else {
					want = append(want, idx)
					s.runFaultFree(3*time.Second, 50*time.Millisecond, proIdle(s, 0))
				}
				idx++
			}
			st.SetReliabilityParams(true, ReliabilityTypeRexmit, 0) // unordered, no retransmission
			wr(20, PayloadTypeWebRTCDCEP, false)                    // ordered + reliable whatever the stream says
			wr(30, PayloadTypeWebRTCBinary, true)                   // unordered, abandoned
			wr(21, PayloadTypeWebRTCDCEP, false)
			wr(31, PayloadTypeWebRTCBinary, false)
			st.SetReliabilityParams(false, ReliabilityTypeRexmit, 0) // now ordered, no retransmission
			wr(32, PayloadTypeWebRTCBinary, true)                    // ordered, abandoned
			wr(33, PayloadTypeWebRTCBinary, false)
			st.SetReliabilityParams(true, ReliabilityTypeRexmit, 0)
			wr(34, PayloadTypeWebRTCBinary, true) // unordered, abandoned, next to a skipped ordered one
			wr(22, PayloadTypeWebRTCDCEP, false)
			st.SetReliabilityParams(false, ReliabilityTypeRexmit, 0)
			wr(35, PayloadTypeWebRTCBinary, false)
			proExpect(s, sid, want, "live-message-lost-on-mixed-stream")
		}, nil},
		{"lifetime-equals-first-rto", func(s *sim, il int) {
			// the first T3 expiry comes exactly one lifetime after the first transmission: that retransmission is the
			// one that abandons the message (elapsed >= lifetime), no further one follows
			st := s.openStream(0, sid)
			st.SetReliabilityParams(false, ReliabilityTypeReliable, 0)
			_ = s.write(0, sid, 10, PayloadTypeWebRTCBinary)
			s.runFaultFree(3*time.Second, 50*time.Millisecond, proIdle(s, 0))
			st.SetReliabilityParams(false, ReliabilityTypeTimed, 1000)
			_ = s.write(0, sid, 30, PayloadTypeWebRTCBinary)
			proDropData(s, 0)
			deadline := s.now() + 9*time.Second
			for s.now() < deadline && s.assoc[0].BufferedAmount() != 0 {
				s.advance(50 * time.Millisecond)
				proDropData(s, 0)
				for len(s.flight[1]) > 0 {
					s.deliver(1, 0, false)
				}
				for len(s.flight[0]) > 0 {
					s.deliver(0, 0, false)
				}
			}
			proCheckLifetime(s, 0, sid, 1000*time.Millisecond, "lifetime-not-enforced")
			_ = s.write(0, sid, 40, PayloadTypeWebRTCBinary)
			proExpect(s, sid, []int{0, 2}, "later-message-lost-after-lifetime-expiry")
		}, nil},
		{"marked-chunk-fast-retransmitted-then-retransmitted", func(s *sim, il int) {
			// D30: a chunk marked by T3 is held back by a tiny peer window (the FORWARD-TSN for the chunk in front of it is
			// lost), three SACKs with gap blocks fast-retransmit it (the lifetime check abandons its message), and its
			// retransmit flag, which the fast path leaves set, makes the next gather retransmit the abandoned chunk again
			a := s.assoc[0]
			st := s.openStream(0, sid)
			st.SetReliabilityParams(true, ReliabilityTypeReliable, 0)
			for k := 0; k < 3; k++ {
				_ = s.write(0, sid, 1000, PayloadTypeWebRTCBinary)
			}
			s.runFaultFreeNoRead(2*time.Second, 50*time.Millisecond) // side 1 does not read: a_rwnd = 1000
			st.SetReliabilityParams(true, ReliabilityTypeTimed, 300)
			for k := 0; k < 6; k++ {
				_ = s.write(0, sid, 150, PayloadTypeWebRTCBinary) // 900 bytes in flight: rwnd = 100 < one chunk
			}
			var held []*simPkt
			for n := 0; len(s.flight[0]) > 0; n++ {
				if n < 2 {
					s.drop(0, 0) // the first two chunks are lost
				} else {
					held = append(held, s.flight[0][0]) // the other four are delayed
					s.flight[0] = s.flight[0][1:]
				}
			}
			t0 := s.now()
			for s.now() < t0+1500*time.Millisecond && a.stats.getNumT3Timeouts() == 0 {
				s.advance(50 * time.Millisecond)
				proDropData(s, 0)
				proDropFwd(s, 0)
			}
			a.lock.RLock()
			first := a.cumulativeTSNAckPoint + 1
			a.lock.RUnlock()
			var firstFwd *simPkt
			for _, p := range held {
				s.flight[0] = append(s.flight[0], p)
				s.deliver(0, len(s.flight[0])-1, false)
				for len(s.flight[1]) > 0 {
					s.deliver(1, 0, false)
				}
				proDropData(s, 0)
				for i := 0; i < len(s.flight[0]); {
					p := s.flight[0][i]
					keep := false
					if c, ok := proFwdOf(p); ok && firstFwd == nil {
						switch v := c.(type) {
						case *chunkForwardTSN:
							keep = v.newCumulativeTSN == first
						case *chunkIForwardTSN:
							keep = v.newCumulativeTSN == first
						}
					}
					if keep {
						firstFwd = p // delayed, not lost
						s.flight[0] = append(s.flight[0][:i:i], s.flight[0][i+1:]...)
					} else {
						i++
					}
				}
				proDropFwd(s, 0)
			}
			if firstFwd != nil {
				s.flight[0] = append(s.flight[0], firstFwd)
				s.deliver(0, len(s.flight[0])-1, false)
				for len(s.flight[1]) > 0 {
					s.deliver(1, 0, false)
				}
			}
			s.runFaultFree(5*time.Second, 50*time.Millisecond, proIdle(s, 0))
			proCheckLifetime(s, 0, sid, 300*time.Millisecond, "lifetime-exceeded-abandoned-chunk-retransmitted")
		}, func(o *simOpts) { o.recvBuf = 4000; o.ackMode = ackModeNoDelay }},
		{"forward-tsn-names-more-new-streams-than-the-accept-queue-holds", func(s *sim, il int) {
			// twenty streams whose first message is abandoned, skipped by ONE FORWARD-TSN: the receiver creates them as
			// long as its accept queue (16) has room; the entries beyond that are dropped like a DATA chunk would be
			// (recorded for the step-commuting check; no delivery expectation on the refused streams)
			for i := 0; i < 20; i++ {
				st := s.openStream(0, uint16(10+i))
				st.SetReliabilityParams(false, ReliabilityTypeRexmit, 0)
				_ = s.write(0, uint16(10+i), 20, PayloadTypeWebRTCBinary)
			}
			proDropData(s, 0)
			// deliver without reading on side 1 (reading would drain the accept queue between the entries of later chunks)
			s.runFaultFreeNoRead(6*time.Second, 50*time.Millisecond)
			s.assoc[1].lock.RLock()
			n := len(s.assoc[1].streams)
			created := -1 // which entries are served first depends on Go's map iteration order in createForwardTSN
			for i := 0; i < 20 && created < 0; i++ {
				if _, ok := s.assoc[1].streams[uint16(10+i)]; ok {
					created = 10 + i
				}
			}
			s.assoc[1].lock.RUnlock()
			if n > 16 {
				s.fail("C07", fmt.Sprintf("%d streams created by FORWARD-TSN entries although the accept queue holds 16 (accept-queue-overrun)", n))
			}
			s.readAll()
			// a stream that was created delivers its next message
			if created >= 0 {
				_ = s.write(0, uint16(created), 30, PayloadTypeWebRTCBinary)
				proExpect(s, uint16(created), []int{1}, "forward-tsn-for-unknown-stream-lost")
			}
		}, nil},
		{"dcep-survives-loss-on-unreliable-stream", func(s *sim, il int) {
			st := s.openStream(0, sid)
			st.SetReliabilityParams(true, ReliabilityTypeRexmit, 0)
			_ = s.write(0, sid, 25, PayloadTypeWebRTCDCEP)
			proDropData(s, 0) // the first transmission of the DCEP message is lost: it must be retransmitted
			_ = s.write(0, sid, 26, PayloadTypeWebRTCBinary)
			proExpect(s, sid, []int{0, 1}, "dcep-message-lost")
		}, nil},
	}
}

// proRunTargeted runs every targeted scenario in DATA and I-DATA mode; returns (#scenarios, #monitor failures).
func proRunTargeted(t *testing.T, seed int64) (int, int) {
	n, fails := 0, 0
	for _, sc := range proScenarios() {
		for _, il := range []int{0, 1} {
			for _, tsn := range []uint32{1000, 4294967293} {
				o := simOpts{seed: seed, interleaveA: il, interleaveB: il, setTSN: true, tsnA: tsn, tsnB: 2000}
				sc := sc
				if sc.opts != nil {
					sc.opts(&o)
				}
				f := simScenario(t, fmt.Sprintf("pr-targeted/%s/il=%d/tsn=%d", sc.name, il, tsn), o, func(s *sim) { sc.fn(s, il) })
				fails += len(f)
				n++
			}
		}
	}
	return n, fails
}

// TestVerifScenPR: the targeted scenarios with the monitors only.
func TestVerifScenPR(t *testing.T) {
	seed := verifEnvInt("VERIF_SEED", 1)
	n, fails := proRunTargeted(t, seed)
	fmt.Printf("SCENPR scenarios=%d fails=%d\n", n, fails)
}
