// Verification harness: every SACK emitted on the simulated wire is written together with the emitter's
// receive-queue state; /verif/ocaml/cmp_rpq.ml re-derives cumulative TSN and gap blocks from that state with
// the model (coq/model/RPQ.v) — the association-level tie of C05.
package sctp

import (
	"bufio"
	"fmt"
	"sync"
	"testing"
)

type sackRecorder struct {
	mu   *sync.Mutex
	w    *bufio.Writer
	n    *int
	seen map[int]bool
}

func (r *sackRecorder) before(s *sim, ev *simEvent) {}

// after every harness event: look at packets emitted since the last look (they are in s.wire)
func (r *sackRecorder) after(s *sim, ev *simEvent) {
	for _, p := range s.wire {
		if r.seen[p.id] || p.pkt == nil {
			continue
		}
		r.seen[p.id] = true
		for _, c := range p.pkt.chunks {
			v, ok := c.(*chunkSelectiveAck)
			if !ok {
				continue
			}
			a := s.assoc[p.from]
			if a == nil {
				continue
			}
			// Only the LAST SACK emitted by this side during the event reflects the settled queue state.
			last := true
			for _, q := range s.wire {
				if q.id > p.id && q.from == p.from && q.pkt != nil {
					for _, c2 := range q.pkt.chunks {
						if _, ok := c2.(*chunkSelectiveAck); ok {
							last = false
						}
					}
				}
			}
			if !last {
				continue
			}
			a.lock.RLock()
			q := a.payloadQueue
			r.mu.Lock()
			*r.n++
			fmt.Fprintf(r.w, "case k%d\n", *r.n)
			fmt.Fprintf(r.w, "load %d %d %d %d %d", q.cumulativeTSN, q.tailTSN, q.chunkSize, q.maxTSNOffset, len(q.tsnBitmask))
			cnt := 0
			for _, wd := range q.tsnBitmask {
				if wd != 0 {
					cnt++
				}
			}
			fmt.Fprintf(r.w, " %d", cnt)
			for i, wd := range q.tsnBitmask {
				if wd != 0 {
					fmt.Fprintf(r.w, " %d %d", i, wd)
				}
			}
			fmt.Fprintln(r.w)
			fmt.Fprintf(r.w, "sackcum %d\n", v.cumulativeTSNAck)
			fmt.Fprintf(r.w, "gaps %d", len(v.gapAckBlocks))
			for _, g := range v.gapAckBlocks {
				fmt.Fprintf(r.w, " %d %d", g.start, g.end)
			}
			fmt.Fprintln(r.w)
			r.mu.Unlock()
			a.lock.RUnlock()
		}
	}
}

func TestVerifSimSack(t *testing.T) {
	seed := verifEnvInt("VERIF_SEED", 1)
	n := int(verifEnvInt("VERIF_N", 40))
	nEvents := int(verifEnvInt("VERIF_EVENTS", 250))
	w, done := verifOut(t, "/tmp/verif_simsack.trace")
	defer done()
	var mu sync.Mutex
	cnt := 0
	simObserverFactory = func() []simObserver {
		return []simObserver{&sackRecorder{mu: &mu, w: w, n: &cnt, seen: map[int]bool{}}}
	}
	defer func() { simObserverFactory = nil }()
	st := &xferStats{faults: map[string]int{}}
	for i := 0; i < n; i++ {
		fails := runTransferScenario(t, seed*1000003+int64(i), nEvents, st)
		st.scenarios++
		st.fails += len(fails)
	}
	fmt.Printf("SIMSACK scenarios=%d sack_records=%d monitor_fails=%d\n", st.scenarios, cnt, st.fails)
}
