(* C12 — wire codec fidelity, and the decoder half of C03 (no byte string makes the decoder panic).
   Model: coq/model/Codec.v (packet.go, chunkheader.go, chunk_*.go, param*.go, error_cause*.go;
   CRC32c is an oracle input [ck_ok], see C13).  Lemmas: coq/proofs/CodecProofs.v.
   Only statements closed by [exact] + Print Assumptions here, examples, and refutation witnesses
   (by computation) where the faithful model violates the full statement. *)
From Coq Require Import ZArith Bool List Lia.
From Sctp Require Import Gen Codec CodecProofs.
Import ListNotations.
Open Scope Z_scope.

(* ------------------------------------------------------------------ C03, decoder half *)

(* packet.unmarshal never panics and all its loops terminate, for every byte string, every value of
   the doChecksum argument and whatever the checksum comparison yields. *)
Theorem c12_dec_total : forall doChecksum ck_ok raw,
  cd_bytes raw = true ->
  cd_dec_packet doChecksum ck_ok raw <> CPanic /\ cd_dec_packet doChecksum ck_ok raw <> CFuel.
Proof. exact dec_total. Qed.
Print Assumptions c12_dec_total.

(* chunkHeartbeatAck.unmarshal (not reachable from packet.unmarshal) is total as well *)
Theorem c12_dec_heartbeat_ack_total : forall raw,
  cd_dec_heartbeat_ack raw <> CPanic /\ cd_dec_heartbeat_ack raw <> CFuel.
Proof. exact dec_heartbeat_ack_total. Qed.
Print Assumptions c12_dec_heartbeat_ack_total.

(* ------------------------------------------------------------------ C12 (ii): round trip *)

(* Every bundle (any number of chunks, any order, any position) of all seventeen chunk kinds — DATA,
   I-DATA, SACK, INIT, INIT-ACK, HEARTBEAT, HEARTBEAT-ACK, ABORT, ERROR, SHUTDOWN, SHUTDOWN-ACK,
   SHUTDOWN-COMPLETE, COOKIE-ECHO, COOKIE-ACK, RECONFIG, FORWARD-TSN, I-FORWARD-TSN — with
   arbitrary field values in their ranges, arbitrary variable-length parts and arbitrary lists of
   the eleven parameter kinds and five cause kinds (cd_wf_packet) is encoded, and decodes to exactly
   the chunks and field values it was built from, up to cd_canon_packet:
     I-DATA: SSN := MID mod 2^16, PPI only on the first fragment, FSN only on the others;
     DATA: no MID / FSN;  INIT / INIT-ACK: the list of unrecognised parameters is empty;
     I-FORWARD-TSN: one entry per (stream, unordered), first position, largest MID (serial order);
     HEARTBEAT with its Heartbeat Info: header = (HEARTBEAT, flags 0, value = the marshalled info),
     whatever the header fields of the struct were (chunkHeartbeat.Marshal overwrites them).
   Remaining restrictions inside cd_wf_chunk, all forced by the code: INIT flags = 0 (the decoder
   rejects others); HEARTBEAT / HEARTBEAT-ACK carry exactly one Heartbeat Info (marshal fails
   otherwise) or HEARTBEAT is the empty one; an error cause's code is the one buildErrorCause
   dispatches on; value lengths below 2^16-4.
   [ck] are the four checksum bytes written by marshal, [true] = the checksum comparison succeeds. *)
Theorem c12_dec_enc_packet : forall p ck doChecksum bs,
  cd_wf_packet p = true -> length ck = 4%nat -> cd_enc_packet ck p = COk bs ->
  cd_dec_packet doChecksum true bs = COk (cd_canon_packet p).
Proof. exact dec_enc_packet. Qed.
Print Assumptions c12_dec_enc_packet.

Theorem c12_enc_total_on_wf : forall p ck,
  cd_wf_packet p = true -> length ck = 4%nat -> exists bs, cd_enc_packet ck p = COk bs.
Proof. exact enc_packet_wf_ok. Qed.
Print Assumptions c12_enc_total_on_wf.

(* re-encoding what was decoded gives the same bytes again *)
Theorem c12_reenc_stable : forall p ck doChecksum bs,
  cd_wf_packet p = true -> length ck = 4%nat -> cd_enc_packet ck p = COk bs ->
  exists q, cd_dec_packet doChecksum true bs = COk q /\ cd_enc_packet ck q = COk bs.
Proof. exact reenc_stable_wf. Qed.
Print Assumptions c12_reenc_stable.

(* the same for any accepted byte string whose decoded value passes the boolean check cd_wf_packet
   (evaluated by the comparator on every packet the implementation accepts) *)
Theorem c12_reenc_stable_decoded : forall b doChecksum ck_ok p ck b' doChecksum',
  cd_dec_packet doChecksum ck_ok b = COk p -> cd_wf_packet p = true -> length ck = 4%nat ->
  cd_enc_packet ck p = COk b' ->
  exists q, cd_dec_packet doChecksum' true b' = COk q /\ cd_enc_packet ck q = COk b'.
Proof. exact reenc_stable_decoded. Qed.
Print Assumptions c12_reenc_stable_decoded.

(* ------------------------------------------------------------------ C12 (iii): what is emitted is well formed
   (these hold for every chunk kind, no well-formedness hypothesis) *)

(* the packet length is a multiple of 4: every chunk, the last one included, is padded *)
Theorem c12_enc_aligned : forall ck p bs,
  length ck = 4%nat -> cd_enc_packet ck p = COk bs -> cd_len bs mod 4 = 0.
Proof. exact enc_packet_aligned. Qed.
Print Assumptions c12_enc_aligned.

(* every chunk is header ++ value and its length field is header + value (as uint16) *)
Theorem c12_enc_length_field : forall c bs, cd_enc_chunk c = COk bs ->
  4 <= cd_len bs /\ cd_rd16 bs 2 = COk (wrap16 (cd_len bs)).
Proof. exact enc_chunk_length_field. Qed.
Print Assumptions c12_enc_length_field.

(* ------------------------------------------------------------------ C12 (iv): chunk locality *)

(* [own] = exactly one chunk (header + value, as its own length field says).  For every chunk type
   and every byte string [rest], what follows the chunk in the packet never changes the decoded
   value; it can only turn acceptance into an error through the padding rule of
   chunkHeader.unmarshal (fewer than four trailing bytes must be zero). *)
Theorem c12_chunk_local : forall own rest h,
  cd_dec_hdr own = COk h -> cd_len own = 4 + cd_len (h_raw h) ->
  if (cd_len rest <? 4) && negb (cd_all_zero rest)
  then exists e, cd_dec_chunk (own ++ rest) = CErr e
  else cd_dec_chunk (own ++ rest) = cd_dec_chunk own.
Proof. exact chunk_local_gen. Qed.
Print Assumptions c12_chunk_local.

Theorem c12_chunk_local_accept : forall own rest h c vl,
  cd_dec_hdr own = COk h -> cd_len own = 4 + cd_len (h_raw h) ->
  cd_dec_chunk (own ++ rest) = COk (c, vl) -> cd_dec_chunk own = COk (c, vl).
Proof. exact chunk_local_accept. Qed.
Print Assumptions c12_chunk_local_accept.

(* ------------------------------------------------------------------ examples: hypotheses are satisfiable *)

Definition c12_ex_packet : cd_packet :=
  mkPacket 5000 5001 4294967295
    [CkSack 0 4294967290 1048576 [(2, 3); (5, 65535)] [7; 4294967295];
     CkData false true true false true 4294967295 65535 65534 0 0 51 [1; 2; 3; 4; 5];
     CkData true false false true false 0 1 0 4294967295 7 99 [];
     CkForwardTSN 0 17 [(1, 2); (65535, 0)];
     CkIForwardTSN 0 18 [(1, true, 5); (2, false, 4294967295); (1, true, 9); (1, false, 3); (2, false, 1)];
     CkCookieEcho 0 [1; 2; 3];
     CkInit true 0 4294967295 1500 65535 1 0
       [PmStateCookie [9; 8; 7]; PmFwdTsnSupp; PmReqHmac [1; 3]; PmSupportedExt [192; 130; 64]] [(5, [1])];
     CkReconfig 0 (PmOutReset 1 2 3 [0; 65535; 7]) (Some (PmReconfigResp 4294967295 1));
     CkHeartbeat 0 0 [] [PmHeartbeatInfo [170; 187]];
     CkAbort [EcUserAbort [120]; EcProtocolViolation 13 [1; 2]; EcOther 3 [0; 0; 0; 1]; EcUnrecognizedChunk [];
              EcInvalidMandatory 7 [5]];
     CkHeartbeatAck 0 [PmHeartbeatInfo [1; 2; 3]];
     CkError [EcUnrecognizedChunk []];
     CkInit false 0 1 1500 1 1 1 [PmSupportedExt [192]; PmFwdTsnSupp] [];
     CkShutdown 0 42; CkShutdownAck 0 []; CkCookieAck 0 []; CkShutdownComplete 1 []].

Example c12_example_bundle :
  cd_wf_packet c12_ex_packet = true /\
  (exists bs, cd_enc_packet [0; 0; 0; 0] c12_ex_packet = COk bs /\ cd_len bs = 348 /\
              cd_dec_packet false false bs = COk (cd_canon_packet c12_ex_packet)) /\
  cd_canon_packet c12_ex_packet <> c12_ex_packet.
Proof.
  split; [reflexivity|]. split.
  - eexists. split; [vm_compute; reflexivity|]. split; [vm_compute; reflexivity|vm_compute; reflexivity].
  - vm_compute. intros H. discriminate H.
Qed.

(* a chunk followed by non-zero garbage shorter than a header is rejected, not reinterpreted *)
Example c12_example_local :
  cd_dec_chunk [11; 0; 0; 4] = COk (CkCookieAck 0 [], 0) /\
  cd_dec_chunk ([11; 0; 0; 4] ++ [0; 0]) = COk (CkCookieAck 0 [], 0) /\
  cd_dec_chunk ([11; 0; 0; 4] ++ [0; 9]) = CErr e_ChunkHeaderPaddingNonZero /\
  cd_dec_chunk ([11; 0; 0; 4] ++ [3; 0; 0; 16; 9; 9]) = COk (CkCookieAck 0 [], 0).
Proof. vm_compute. repeat split. Qed.

(* the bound on the value length in cd_wf_chunk is needed: chunkHeader.marshal casts the length to
   uint16, so a DATA chunk with 65524 bytes of user data is emitted with length field 4 *)
Example c12_length_field_needs_bound :
  exists c bs, cd_enc_chunk c = COk bs /\ cd_len bs = 65540 /\ cd_rd16 bs 2 = COk 4.
Proof.
  exists (CkData false false true true false 1 0 0 0 0 0 (cd_zeros 65524)). eexists. split; [reflexivity|].
  split.
  - rewrite len_enc_hdr, !len_app, !len_e32, !len_e16, len_zeros by lia. reflexivity.
  - rewrite rd16_enc_hdr, len_enc_hdr, !len_app, !len_e32, !len_e16, len_zeros by lia. reflexivity.
Qed.

(* ------------------------------------------------------------------ former refutations, now regression examples
   The full statement was refuted on the code before the fixes ff34a9b (D4), c4c4893 (D3),
   46c3107 (D2), eefb4f1 (D8); the same witnesses now behave as the property demands.  They are
   replayed on the implementation by TestVerifCodecProps (cdWitnesses) under the monitor keys
   codec-heartbeat-marshal-drops-info, codec-heartbeat-ack-not-decodable,
   codec-init-trailing-empty-param-dropped, codec-abort-error-causes-read-past-chunk. *)

Definition c12_zero4 : list Z := [0; 0; 0; 0].

(* D2, fixed: the HEARTBEAT built by Association.sendActiveHeartbeatLocked carries its Heartbeat
   Info on the wire and decodes to it *)
Example c12_heartbeat_roundtrip :
  exists bs q,
    cd_enc_packet c12_zero4 (mkPacket 5000 5000 1 [CkHeartbeat c_ctHeartbeat 0 [] [PmHeartbeatInfo [1; 2; 3; 4; 5; 6; 7; 8]]])
      = COk bs /\
    bs = [19; 136; 19; 136; 0; 0; 0; 1; 0; 0; 0; 0; 4; 0; 0; 16; 0; 1; 0; 12; 1; 2; 3; 4; 5; 6; 7; 8] /\
    cd_dec_packet false false bs = COk q /\
    pk_chunks q = [CkHeartbeat c_ctHeartbeat 0 [0; 1; 0; 12; 1; 2; 3; 4; 5; 6; 7; 8] [PmHeartbeatInfo [1; 2; 3; 4; 5; 6; 7; 8]]].
Proof.
  do 2 eexists. split; [vm_compute; reflexivity|]. split; [reflexivity|].
  split; [vm_compute; reflexivity|vm_compute; reflexivity].
Qed.

(* D3, fixed: the HEARTBEAT-ACK built by Association.handleHeartbeat is decoded by packet.unmarshal *)
Example c12_heartbeat_ack_roundtrip :
  exists bs,
    cd_enc_packet c12_zero4 (mkPacket 5000 5000 1 [CkHeartbeatAck 0 [PmHeartbeatInfo [1; 2; 3; 4]]]) = COk bs /\
    cd_dec_packet false false bs = COk (mkPacket 5000 5000 1 [CkHeartbeatAck 0 [PmHeartbeatInfo [1; 2; 3; 4]]]).
Proof. eexists. split; [vm_compute; reflexivity|vm_compute; reflexivity]. Qed.

(* D8, fixed: a trailing parameter with an empty value is read *)
Example c12_init_trailing_empty_param :
  exists bs,
    cd_enc_packet c12_zero4 (mkPacket 5000 5000 1 [CkInit false 0 1 1500 1 1 1 [PmSupportedExt [192]; PmFwdTsnSupp] []]) = COk bs /\
    cd_dec_packet false true bs = COk (mkPacket 5000 5000 1 [CkInit false 0 1 1500 1 1 1 [PmSupportedExt [192]; PmFwdTsnSupp] []]).
Proof. eexists. split; [vm_compute; reflexivity|vm_compute; reflexivity]. Qed.

(* D4, fixed: ERROR / ABORT read their causes in their own value; what follows is not touched *)
Example c12_chunk_local_for_error_and_abort :
  cd_dec_chunk [9; 0; 0; 4] = COk (CkError [], 0) /\
  cd_dec_chunk ([9; 0; 0; 4] ++ [11; 0; 0; 4]) = COk (CkError [], 0) /\
  cd_dec_chunk [6; 0; 0; 4] = COk (CkAbort [], 0) /\
  cd_dec_chunk ([6; 0; 0; 4] ++ [11; 0; 0; 4]) = COk (CkAbort [], 0).
Proof. vm_compute. repeat split. Qed.

Example c12_error_and_abort_bundles :
  (exists bs, cd_enc_packet c12_zero4 (mkPacket 5000 5000 1 [CkError []; CkCookieAck 0 []]) = COk bs /\
              cd_dec_packet false false bs = COk (mkPacket 5000 5000 1 [CkError []; CkCookieAck 0 []])) /\
  (exists bs, cd_enc_packet c12_zero4 (mkPacket 5000 5000 1 [CkAbort [EcUserAbort [120]]; CkCookieAck 0 []]) = COk bs /\
              cd_dec_packet false false bs = COk (mkPacket 5000 5000 1 [CkAbort [EcUserAbort [120]]; CkCookieAck 0 []])).
Proof.
  split.
  - eexists. split; [vm_compute; reflexivity|vm_compute; reflexivity].
  - eexists. split; [vm_compute; reflexivity|vm_compute; reflexivity].
Qed.

(* the byte string whose decode / re-encode grew by one cause per round is now a fixed point *)
Example c12_reenc_stable_on_former_witness :
  let b := [19; 136; 19; 136; 0; 0; 0; 1; 0; 0; 0; 0] ++ [6; 0; 0; 4] ++ [11; 0; 0; 4] in
  exists p, cd_dec_packet false false b = COk p /\ cd_enc_packet c12_zero4 p = COk b.
Proof. eexists. split; [vm_compute; reflexivity|vm_compute; reflexivity]. Qed.

(* ------------------------------------------------------------------ still refuted on the current code *)

(* Reachable since c4c4893: chunkHeartbeatAck.unmarshal accepts a HEARTBEAT-ACK without Heartbeat
   Info (value length 0), chunkHeartbeatAck.marshal refuses to build one (ErrHeartbeatAckParams):
   an accepted packet whose decoded value cannot be encoded again, so "decode then re-encode is
   stable" fails for it.  Monitor key codec-heartbeat-ack-empty-accepted-not-encodable. *)
Example c12_reenc_empty_heartbeat_ack_refuted :
  exists b p,
    b = [19; 136; 19; 136; 0; 0; 0; 1; 0; 0; 0; 0; 5; 0; 0; 4] /\
    cd_dec_packet false false b = COk p /\ pk_chunks p = [CkHeartbeatAck 0 []] /\
    cd_enc_packet c12_zero4 p = CErr e_HeartbeatAckParams.
Proof.
  do 2 eexists. split; [reflexivity|]. split; [vm_compute; reflexivity|].
  split; [vm_compute; reflexivity|vm_compute; reflexivity].
Qed.
