(* replay of composed-receiver traces (go/inpkg/zz_verif_e2e_test.go, zz_verif_simrecv_test.go) on the
   extracted model E2E.v: every "arr" / "rd" line is one step of e2e_recv_data / e2e_read, every "state"
   line is compared with the model state. *)
module M = Model
open Zio

let chunk_tokens (c : M.rqchunk) : string =
  Printf.sprintf " %s %s %s %s %s %s %s %s %s %s %d%s" (sz c.M.rqc_tsn) (sz c.M.rqc_si) (sz c.M.rqc_ssn)
    (sz c.M.rqc_mid) (sz c.M.rqc_fsn) (sz c.M.rqc_ppi) (sbool c.M.rqc_unord) (sbool c.M.rqc_beg)
    (sbool c.M.rqc_end) (sbool c.M.rqc_idata) (List.length c.M.rqc_data)
    (String.concat "" (List.map (fun b -> " " ^ sz b) c.M.rqc_data))

let set_tokens (s : M.rqset) : string =
  Printf.sprintf " %s %s %d%s" (sz s.M.rqs_key) (sz s.M.rqs_ppi) (List.length s.M.rqs_chunks)
    (String.concat "" (List.map chunk_tokens s.M.rqs_chunks))

let sets tag (l : M.rqset list) : string =
  Printf.sprintf " %s %d%s" tag (List.length l) (String.concat "" (List.map set_tokens l))

let by_key (l : M.rqset list) : M.rqset list =
  List.stable_sort (fun a b -> Z.compare (z_of_cz a.M.rqs_key) (z_of_cz b.M.rqs_key)) l

let dump_rq (q : M.rq) : string =
  let umap = by_key q.M.rq_umidmap in
  let omap = by_key q.M.rq_orderedMID in
  Printf.sprintf "dump %s %s %s %s%s%s C %d%s%s%s MAP %d%s OMAP %d%s"
    (sz q.M.rq_nextSSN) (sz q.M.rq_nextMID) (sbool q.M.rq_inter) (sz q.M.rq_nbytes)
    (sets "O" q.M.rq_ordered) (sets "U" q.M.rq_unordered)
    (List.length q.M.rq_uchunks) (String.concat "" (List.map chunk_tokens q.M.rq_uchunks))
    (sets "OM" q.M.rq_orderedMID) (sets "UM" q.M.rq_unorderedMID)
    (List.length umap) (String.concat "" (List.map (fun s -> " " ^ sz s.M.rqs_key ^ set_tokens s) umap))
    (List.length omap) (String.concat "" (List.map (fun s -> " " ^ sz s.M.rqs_key ^ " 1") omap))

let dump_pq (q : M.rpq) : string =
  let nw = iz q.M.nwords in
  let tbl = Hashtbl.create 16 in
  List.iter (fun p -> let p = iz p in
    let i = p / 64 and b = p mod 64 in
    let cur = try Hashtbl.find tbl i with Not_found -> Z.zero in
    Hashtbl.replace tbl i (Z.logor cur (Z.shift_left Z.one b))) q.M.bits;
  let words = List.sort compare (Hashtbl.fold (fun i v acc -> (i, Z.to_string v) :: acc) tbl []) in
  Printf.sprintf "%s %s %s %s %d %d%s %d%s" (sz q.M.cum) (sz q.M.tail) (sz q.M.size) (sz q.M.max_off) nw
    (List.length words)
    (String.concat "" (List.map (fun (i, v) -> Printf.sprintf " %d %s" i v) words))
    (List.length q.M.dups)
    (String.concat "" (List.map (fun d -> " " ^ sz d) q.M.dups))

let with_data (q : M.rq) = Z.gt (z_of_cz q.M.rq_nbytes) Z.zero

let dump_state (st : M.e2e_rcv) : string =
  let det = List.filter with_data st.M.e2e_detached in
  Printf.sprintf "state %s S %d%s D %d%s A %s W %s" (dump_pq st.M.e2e_pq) (List.length st.M.e2e_streams)
    (String.concat "" (List.map (fun (sid, q) -> " sid " ^ sz sid ^ " " ^ dump_rq q) st.M.e2e_streams))
    (List.length det)
    (String.concat "" (List.map (fun q -> " dsid " ^ sz q.M.rq_si ^ " " ^ dump_rq q) det))
    (sbool st.M.e2e_abort) (sz (M.e2e_a_rwnd st))

let rec take n l = if n <= 0 then ([], l) else match l with [] -> ([], []) | x :: t -> let (a, b) = take (n - 1) t in (x :: a, b)

let parse_chunk (toks : string list) : M.rqchunk * string list =
  match toks with
  | tsn :: si :: ssn :: mid :: fsn :: ppi :: u :: b :: e :: i :: len :: rest ->
      let (d, rest') = take (int_of_string len) rest in
      ({ M.rqc_tsn = cz tsn; rqc_si = cz si; rqc_ssn = cz ssn; rqc_mid = cz mid; rqc_fsn = cz fsn;
         rqc_ppi = cz ppi; rqc_unord = (u = "1"); rqc_beg = (b = "1"); rqc_end = (e = "1");
         rqc_idata = (i = "1"); rqc_data = List.map cz d }, rest')
  | _ -> failwith "chunk"


(* ---- loading a dumped state into the model (step-commuting records from the simulator) ---- *)
let int_tok = function x :: r -> (int_of_string x, r) | [] -> failwith "tok"
let str_tok = function x :: r -> (x, r) | [] -> failwith "tok"
let expect t = function x :: r when x = t -> r | _ -> failwith ("expected " ^ t)

let rec parse_n n f toks = if n <= 0 then ([], toks) else
  let (x, r) = f toks in let (xs, r') = parse_n (n - 1) f r in (x :: xs, r')

let parse_set toks =
  let (key, r) = str_tok toks in let (ppi, r) = str_tok r in let (n, r) = int_tok r in
  let (cs, r) = parse_n n parse_chunk r in
  ({ M.rqs_key = cz key; rqs_ppi = cz ppi; rqs_chunks = cs }, r)

let parse_sets tag toks =
  let r = expect tag toks in let (n, r) = int_tok r in parse_n n parse_set r

let parse_rq sid maxent toks : M.rq * string list =
  let r = expect "dump" toks in
  let (nssn, r) = str_tok r in let (nmid, r) = str_tok r in let (inter, r) = str_tok r in let (nb, r) = str_tok r in
  let (o, r) = parse_sets "O" r in let (u, r) = parse_sets "U" r in
  let r = expect "C" r in let (nc, r) = int_tok r in let (uc, r) = parse_n nc parse_chunk r in
  let (om, r) = parse_sets "OM" r in let (um, r) = parse_sets "UM" r in
  let r = expect "MAP" r in let (nm, r) = int_tok r in
  let (mp, r) = parse_n nm (fun t -> let (_, t) = str_tok t in parse_set t) r in
  let r = expect "OMAP" r in let (no, r) = int_tok r in
  let (_, r) = parse_n no (fun t -> let (_, t) = str_tok t in let (_, t) = str_tok t in ((), t)) r in
  ({ M.rq_si = cz sid; rq_nextSSN = cz nssn; rq_nextMID = cz nmid; rq_ordered = o; rq_unordered = u; rq_uchunks = uc;
     rq_orderedMID = om; rq_unorderedMID = um; rq_umidmap = mp; rq_inter = (inter = "1"); rq_nbytes = cz nb;
     rq_max = cz maxent }, r)

let parse_state buf maxent il toks : M.e2e_rcv =
  let r = expect "state" toks in
  let (cum, r) = str_tok r in let (tail, r) = str_tok r in let (size, r) = str_tok r in let (mo, r) = str_tok r in
  let (nw, r) = str_tok r in let (nnz, r) = int_tok r in
  let (words, r) = parse_n nnz (fun t -> let (i, t) = int_tok t in let (v, t) = str_tok t in ((i, Z.of_string v), t)) r in
  let bits = List.concat (List.map (fun (i, v) ->
    List.filter_map (fun b -> if Z.testbit v b then Some (czi (i * 64 + b)) else None) (List.init 64 (fun b -> b))) words) in
  let (nd, r) = int_tok r in let (dups, r) = parse_n nd str_tok r in
  let r = expect "S" r in let (ns, r) = int_tok r in
  let (streams, r) = parse_n ns (fun t -> let t = expect "sid" t in let (sid, t) = str_tok t in
                                          let (q, t) = parse_rq sid maxent t in ((cz sid, q), t)) r in
  let r = expect "D" r in let (nd2, r) = int_tok r in
  let (detached, r) = parse_n nd2 (fun t -> let t = expect "dsid" t in let (sid, t) = str_tok t in parse_rq sid maxent t) r in
  let r = expect "A" r in let (ab, _) = str_tok r in
  { M.e2e_pq = { M.cum = cz cum; tail = cz tail; size = cz size; bits = bits; dups = List.map cz dups;
                 max_off = cz mo; nwords = cz nw };
    e2e_streams = streams; e2e_buf = cz buf; e2e_maxent = cz maxent; e2e_il = il; e2e_abort = (ab = "1");
    e2e_detached = detached }

(* the bitmap is compared as words, so the order of the loaded bit positions is irrelevant *)

let run path =
  let cases = read_cases path in
  let ncase = ref 0 in
  let n_arr = ref 0 and n_rd = ref 0 and n_state = ref 0 in
  let o_wrong = ref 0 and o_nostream = ref 0 and o_stored = ref 0 and o_err = ref 0 and o_full = ref 0 and o_na = ref 0 in
  let rd_ok = ref 0 and n_load = ref 0 and n_reset = ref 0 and n_rdd = ref 0 in
  List.iter (fun (name, lines) ->
    incr ncase;
    let st = ref (M.e2e_new (czi 1) (czi 1024) (czi 0) false) in
    let stop = ref false in
    let sim_mode = ref false in
    List.iteri (fun i toks ->
      if not !stop then begin
        incr records;
        let bad what m im = report name (i+1) what m im; stop := true in
        match toks with
        | ["new"; tsn; buf; mx; il] -> st := M.e2e_new (cz tsn) (cz buf) (cz mx) (il = "1")
        | "load" :: buf :: mx :: il :: rest ->
            incr n_load; sim_mode := true;
            (try st := parse_state buf mx (il = "1") rest
             with Failure m -> bad ("unparsed load: " ^ m) "" "")
        | "arr" :: rest ->
            incr n_arr;
            (try
              let (c, tail) = parse_chunk rest in
              let ok = (match tail with [a] -> a = "1" | _ -> true) in
              let (st', out) = M.e2e_recv_data !st c ok in
              st := st';
              (match out with
               | M.EoWrongKind -> incr o_wrong | M.EoNoStream -> incr o_nostream
               | M.EoStored (M.RqOk _) -> incr o_stored | M.EoStored _ -> incr o_err
               | M.EoFullDropped -> incr o_full | M.EoNotAcceptable -> incr o_na)
            with Failure _ -> bad "unparsed arr" "" (String.concat " " toks))
        | "rd" :: sid :: buflen :: n :: ppi :: code :: _k :: bytes ->
            incr n_rd;
            let (st', r) = M.e2e_read !st (cz sid) (cz buflen) in
            st := st';
            let im = String.concat " " (n :: ppi :: code :: bytes) in
            let m = match r with
              | M.RdOk (mn, mppi, del) ->
                  incr rd_ok;
                  let data = List.concat (List.map (fun c -> c.M.rqc_data) del) in
                  String.concat " " (sz mn :: sz mppi :: "0" :: List.map sz data)
              | M.RdShort mn -> String.concat " " [sz mn; "0"; "2"]
              | M.RdTryAgain -> "0 0 1" in
            if m <> im then bad ("rd " ^ sid ^ " " ^ buflen) m im
        | ["reset"; sid] -> incr n_reset; st := M.e2e_reset !st (cz sid)
        | "rdd" :: k :: buflen :: n :: ppi :: code :: _k :: bytes ->
            incr n_rdd;
            (* k counts the detached streams that still hold data (harness glue: position in the model's list) *)
            let rec pos i k = function
              | [] -> -1
              | q :: t -> if with_data q then (if k = 0 then i else pos (i + 1) (k - 1) t) else pos (i + 1) k t in
            let p = pos 0 (int_of_string k) (!st).M.e2e_detached in
            let (st', r) = M.e2e_read_detached !st (nat_of_int (max p 0)) (cz buflen) in
            st := st';
            let im = String.concat " " (n :: ppi :: code :: bytes) in
            let m = match r with
              | M.RdOk (mn, mppi, del) ->
                  let data = List.concat (List.map (fun c -> c.M.rqc_data) del) in
                  String.concat " " (sz mn :: sz mppi :: "0" :: List.map sz data)
              | M.RdShort mn -> String.concat " " [sz mn; "0"; "2"]
              | M.RdTryAgain -> "0 0 1" in
            if p < 0 || m <> im then bad ("rdd " ^ k ^ " " ^ buflen) m im
        | "state" :: _ ->
            incr n_state;
            let im = String.concat " " toks in
            (* simulator records: the SACK emitted while the packet is processed consumes the duplicate list
               (popDuplicates, C05); the observer prints it empty and it is dropped here too *)
            if !sim_mode then st := { !st with M.e2e_pq = { (!st).M.e2e_pq with M.dups = [] } };
            let m = dump_state !st in
            if m <> im then bad "state" m im
        | _ -> bad "unparsed line" "" (String.concat " " toks)
      end) lines) cases;
  Printf.printf "SUMMARY component=e2e cases=%d records=%d mismatches=%d arrivals=%d stored=%d stored_with_error=%d full_dropped=%d not_acceptable=%d no_stream=%d wrong_kind=%d reads=%d reads_ok=%d states=%d loaded_states=%d resets=%d reads_on_detached=%d\n"
    !ncase !records !mismatches !n_arr !o_stored !o_err !o_full !o_na !o_nostream !o_wrong !n_rd !rd_ok !n_state !n_load !n_reset !n_rdd
