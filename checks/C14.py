"""C14 — stream close ordering and identifier reuse."""
import os
import vlib, simcommon

PROP = "C14"
PROPS_FILE = "props/C14.v"
COQ_FILES = ["gen/Gen.v", "proofs/SnaProofs.v", "model/Reset.v", "proofs/ResetProofs.v", "props/C14.v"]
TRUSTED_BASE = [
    "Coq 8.16.1 kernel; vm_compute only in Examples and in the FORWARD-TSN refutation witness; no native_compute",
    "hand-written model coq/model/Reset.v of the reset protocol for one stream identifier at one endpoint (stream.go Close / "
    "WriteSCTP gate / ReadSCTP loop / onInboundStreamReset / resetOutgoingStreamSequenceNumbers; association.go sendResetRequest, "
    "marker pop in popPendingDataChunksToSend, gatherOutboundDataAndReconfigPackets, handleReconfigParam, resetStreamsIfAny, "
    "handlePeerLastTSNAndAcknowledgement, handleForwardTSN, OpenStream/createStream; pending_queue.go pop order of one stream "
    "under the message policy and the stream schedulers); translator for the serial comparisons, maxReconfigRequests and the "
    "reconfigResult codes",
    "extraction (ExtrOcamlBasic) + ocaml/cmp_reset.ml; simulator go/inpkg/zz_verif_sim_test.go + zz_verif_simreset_test.go "
    "(overlay, synctest, go1.26.8); StreamState numbering 0/1/2 checked by the harness against the Go constants",
    "modelled, not verified: goroutine interleaving while resetStreamsIfAny drops the association lock around "
    "onInboundStreamReset; a Write racing with Close (the state gate and the marker push are two critical sections); "
    "receive-buffer-full and accept-channel-full branches of acceptPayloadData; reassembly of fragmented / unordered / I-DATA "
    "messages (C01/C06 own them; here the read buffer is compared only for ordered unfragmented DATA)",
]
ASSUMPTIONS = [
    "c14_reset_after_data: labels of write/close events are fresh and increasing (they stand for the order of the calls), "
    "fragments are non-empty (packetize); serial form needs fewer than 2^31 TSNs between a chunk and the request",
    "c14_no_lost_wakeup: a.reconfigRequests has unique keys (Go map); FORWARD-TSN excluded (refuted, see notes)",
    "identifier reuse: since /repo fd7385c and a186bb2 no exclusion hypothesis is needed (c14_stale_request_harmless: a request not newer "
    "than the one performed for the identifier is answered, not performed; c14_late_response_harmless: no response touches an open "
    "stream); the two histories that refuted the statement before are Examples with the harmless outcome and are replayed on the "
    "implementation (TestVerifScenResetWitness). RSN comparisons are serial: fewer than 2^31 requests between two compared numbers",
    "with C05 (c05_sack_truth): senderLastTSN <=s cumulative TSN implies every TSN up to it was pushed to a reassembly queue or "
    "skipped by FORWARD-TSN; completeness of the reassembly itself is C01",
]
LEVEL_TEXT = ("Coq theorems over all histories of one endpoint (writes, closes, reopens, cwnd-limited gathers, timer expiries, "
              "inbound requests/responses/DATA/FORWARD-TSN, both pending-queue disciplines): the request created when the marker is "
              "popped carries a senderLastTSN that is not before the TSN of any chunk written before the Close; the reader's EOF and "
              "the removal of the stream happen only in a step that performs a reset with senderLastTSN <=s cumulative TSN; deferred "
              "requests are re-examined after every pop (no lost wake-up on the DATA path); ReadSCTP serves buffered messages before "
              "EOF; counters are zero after SuccessPerformed and in a re-created object; stored requests are retransmitted until a "
              "final response; a request already performed for an identifier is never performed again and no response rewinds an open "
              "stream (D24/D25, repaired in /repo, were found here as refutations of the faithful model reproduced on the "
              "implementation: stale request / late response after the identifier was reopened); one clause of the decomposition "
              "(wake-up after FORWARD-TSN) is refuted without violating the property text. The model is tied to the code by "
              "step-commuting records of every RECONFIG delivery, marker pop, DATA/FORWARD-TSN delivery with deferred requests, "
              "timer expiry, Close, OpenStream, write and read in simulated associations.")
LEVEL_NOTE = ("Trusted: Coq kernel, hand model Reset.v, extraction, simulator. The monitor P_C14 (per Stream object: messages "
              "written before Close are exactly the messages read before io.EOF, in order on ordered streams, EOF only after the "
              "writer's Close, reopened identifier delivers normally, bounded virtual time) searches for concrete failing histories "
              "under exhaustive <= k faults on the RECONFIG exchange and random faults on DATA.")
TECHNIQUE = "Coq proof (invariants over histories, refutation witnesses) + step-commuting correspondence on simulated associations"


def both(ctx, name, test, env, summary_prefix, timeout=3000, component="reset"):
    """one harness run: the trace is replayed on the extracted model AND the monitor lines are collected"""
    trace = os.path.join(ctx.tmp, name + ".trace")
    e = dict(VERIF_SEED=ctx.seed)
    e.update(env or {})
    e["VERIF_OUT"] = trace
    r = vlib.run_harness(test, e, timeout=timeout)
    lines = r["out"].splitlines()
    fails = [l for l in lines if l.startswith("SIMFAIL prop=%s " % ctx.prop)]
    obs = [l for l in lines if l.startswith("SIMOBS prop=%s " % ctx.prop)]
    summ = [l for l in lines if l.startswith(summary_prefix) or l.startswith("SIMRESETREC")]
    if r["rc"] != 0 or not os.path.exists(trace):
        ctx.broken.append(("correspondence", name, "harness run failed (rc=%s): %s" % (r["rc"], r["out"][-1500:])))
        ctx.corr.append(dict(name=name, ok=False, records=0, detail="harness run failed"))
        return
    c = vlib.run_cmp(component, trace, timeout=timeout)
    ok = c["rc"] == 0 and not c["mismatches"] and c["summary"].get("records", 0) > 0
    cl = simcommon.classify(ctx.prop)
    for l in fails:
        ctx.concrete.append(dict(property=ctx.prop, what=l[:700], key=cl(l), monitor=name, test=test, env=e))
    ctx.corr.append(dict(name=name, ok=ok and not fails, records=c["summary"].get("records", 0), cases=c["summary"].get("cases", 0),
                         mismatches=len(c["mismatches"]), failures=len(fails), observations=len(obs),
                         kinds=c["summary"].get("kinds", ""), summary=" | ".join(summ[-2:]), wall_s=round(r["wall"] + c["wall"], 2), env=e))
    if not ok:
        ctx.broken.append(("correspondence", name, "\n".join(c["mismatches"][:5]) or c["raw"][-1500:]))
    for l in obs[:3]:
        ctx.notes.append("observation (clause of the decomposition refuted, property text holds): " + l[:400])
    try:
        with open(trace) as f:
            head = [next(f).strip() for _ in range(12)]
        ctx.samples.append({"trace": name, "first_lines": head})
    except (StopIteration, OSError):
        pass


def correspondence(ctx):
    # corpus: the two (formerly refuting, now harmless) histories of ResetProofs.v and the FORWARD-TSN history, on the real associations
    both(ctx, "reset-witness-replays", "TestVerifScenResetWitness", {}, "SCENRESETWITNESS", timeout=600)
    both(ctx, "reset-forward-tsn", "TestVerifScenResetForwardTSN", {}, "SCENRESETFWD", timeout=600)
    # precondition of the theorems (nothing of an earlier incarnation delivered after a reopen): must be clean
    both(ctx, "reset-random-quiet", "TestVerifSimResetQuiet", {"VERIF_N": ctx.scale(80, 2500)}, "SIMRESETQUIET")
    both(ctx, "reset-exhaustive-quiet", "TestVerifSimResetExhaustive",
         {"VERIF_K": ctx.scale(1, 2), "VERIF_NPK": ctx.scale(6, 8), "VERIF_QUIESCE": 1, "VERIF_REC": 1}, "SIMRESETEXQUIET")
    # the property as stated (reopen once both directions were reset)
    both(ctx, "reset-random", "TestVerifSimReset", {"VERIF_N": ctx.scale(60, 2500)}, "SIMRESET")
    both(ctx, "reset-exhaustive", "TestVerifSimResetExhaustive",
         {"VERIF_K": ctx.scale(1, 2), "VERIF_NPK": ctx.scale(6, 8), "VERIF_QUIESCE": 0, "VERIF_REC": 1}, "SIMRESETEX")
    # outside the precondition (reopen on the API signal alone): observations only
    both(ctx, "reset-api-reopen", "TestVerifSimResetAPI", {"VERIF_N": ctx.scale(30, 1000)}, "SIMRESETAPI")


def search(ctx):
    both(ctx, "reset-random-wide", "TestVerifSimReset", {"VERIF_N": 600, "VERIF_SEED": ctx.seed + 23}, "SIMRESET")
    both(ctx, "reset-exhaustive-wide", "TestVerifSimResetExhaustive",
         {"VERIF_K": 2, "VERIF_NPK": 6, "VERIF_QUIESCE": 0, "VERIF_REC": 1}, "SIMRESETEX")
