// Verification harness (overlay; not part of pion/sctp): step-commuting check of the composed receiver
// (Association.handleData -> acceptPayloadData -> pushPayloadDataToStream -> pop loop) against the Coq
// function e2e_recv_data (coq/model/E2E.v).  A bare, established Association is fed decoded DATA / I-DATA
// chunks through handleChunk; before the first and after every event the receive bitmap and every
// stream's reassembly queue are dumped.  Reads go through reassemblyQueue.read (one pass of ReadSCTP).
package sctp

import (
	"bufio"
	"errors"
	"fmt"
	"io"
	"math/rand"
	"sort"
	"strings"
	"testing"
)

func e2eStateString(a *Association) string { return e2eStateStringDups(a, true) }

func e2eStateStringDups(a *Association, withDups bool) string {
	var sb strings.Builder
	q := a.payloadQueue
	fmt.Fprintf(&sb, "state %d %d %d %d %d", q.cumulativeTSN, q.tailTSN, q.chunkSize, q.maxTSNOffset, len(q.tsnBitmask))
	idx := []int{}
	for i, v := range q.tsnBitmask {
		if v != 0 {
			idx = append(idx, i)
		}
	}
	fmt.Fprintf(&sb, " %d", len(idx))
	for _, i := range idx {
		fmt.Fprintf(&sb, " %d %d", i, q.tsnBitmask[i])
	}
	if withDups {
		fmt.Fprintf(&sb, " %d", len(q.dupTSN))
		for _, d := range q.dupTSN {
			fmt.Fprintf(&sb, " %d", d)
		}
	} else {
		fmt.Fprintf(&sb, " 0")
	}
	ids := []int{}
	for id := range a.streams {
		ids = append(ids, int(id))
	}
	sort.Ints(ids)
	fmt.Fprintf(&sb, " S %d", len(ids))
	for _, id := range ids {
		fmt.Fprintf(&sb, " sid %d %s", id, rqDumpString(a.streams[uint16(id)].reassemblyQueue))
	}
	// streams reset by the peer that still hold unread data (a.detachedStreams, 243f816); emptied entries are
	// pruned lazily by getMyReceiverWindowCredit and are left out here, so that the pruning moment is invisible
	det := e2eDetachedWithData(a)
	fmt.Fprintf(&sb, " D %d", len(det))
	for _, s := range det {
		fmt.Fprintf(&sb, " dsid %d %s", s.streamIdentifier, rqDumpString(s.reassemblyQueue))
	}
	fmt.Fprintf(&sb, " A %d W %d", b2i(a.willSendAbort), e2eWindow(a))
	return sb.String()
}

func e2eDetachedWithData(a *Association) []*Stream {
	out := []*Stream{}
	for _, s := range a.detachedStreams {
		if s.getNumBytesInReassemblyQueue() > 0 {
			out = append(out, s)
		}
	}
	return out
}

// e2eWindow recomputes getMyReceiverWindowCredit without its pruning side effect (the dump may run under a read lock).
func e2eWindow(a *Association) uint32 {
	var q uint32
	for _, s := range a.streams {
		q += uint32(s.getNumBytesInReassemblyQueue())
	}
	for _, s := range e2eDetachedWithData(a) {
		q += uint32(s.getNumBytesInReassemblyQueue())
	}
	if q >= a.maxReceiveBufferSize {
		return 0
	}
	return a.maxReceiveBufferSize - q
}

type e2eStats struct {
	arrivals, reads, acceptFull, bufferFullEvents, hostile, idataCases, limitCases, smallBufCases int
	resets, resetsWithData, detachedReads, windowMismatch                                         int
}

func e2eRunCase(w *bufio.Writer, rng *rand.Rand, name string, nOps int, st *e2eStats) {
	buf := []uint32{64, 300, 1500, 4096, 1 << 20}[rng.Intn(5)]
	if buf <= 1500 {
		st.smallBufCases++
	}
	idata := rng.Intn(2) == 0
	if idata {
		st.idataCases++
	}
	peerTSN := rqNear32(rng, 60)
	maxEntries := uint32(0)
	if rng.Intn(4) == 0 {
		maxEntries = uint32(2 + rng.Intn(8))
		st.limitCases++
	}
	cfgBuf := buf
	a := rqBareAssoc(cfgBuf, idata, peerTSN)
	a.maxReassemblyQueueEntries = maxEntries
	defer a.close()                 //nolint:errcheck
	drainAccept := rng.Intn(3) != 0 // otherwise the accept channel fills up after 16 streams
	nStreams := 1 + rng.Intn(4)
	if !drainAccept {
		nStreams = 14 + rng.Intn(8)
	}
	fmt.Fprintf(w, "case %s\nnew %d %d %d %d\n", name, peerTSN, buf, maxEntries, b2i(idata))
	fmt.Fprintln(w, e2eStateString(a))

	// sender-like universe over all streams: consecutive TSNs, fragments B..E, per-stream SSN / MID
	var chunks []*chunkPayloadData
	tsn := peerTSN
	ssn := make([]uint16, nStreams)
	mid := make([]uint32, nStreams)
	umid := make([]uint32, nStreams)
	for m := 0; m < 70; m++ {
		si := rng.Intn(nStreams)
		nf := 1 + rng.Intn(3)
		unordered := rng.Intn(6) == 0
		ppi := PayloadProtocolIdentifier(50 + rng.Intn(5))
		for f := 0; f < nf; f++ {
			n := 1 + rng.Intn(6)
			if rng.Intn(5) == 0 {
				n = int(buf)/3 + 1
			}
			if n > 40 {
				n = 40
			}
			data := make([]byte, n)
			for i := range data {
				data[i] = byte(rng.Intn(256))
			}
			c := &chunkPayloadData{tsn: tsn, streamIdentifier: uint16(si), unordered: unordered,
				beginningFragment: f == 0, endingFragment: f == nf-1, payloadType: ppi, userData: data,
				iData: idata, streamSequenceNumber: ssn[si]}
			if idata {
				c.typ = ctIData
				if unordered {
					c.messageIdentifier = umid[si]
				} else {
					c.messageIdentifier = mid[si]
				}
				c.fragmentSequenceNumber = uint32(f)
				c.streamSequenceNumber = uint16(c.messageIdentifier)
				if f != 0 {
					c.payloadType = 0
				}
			}
			tsn++
			chunks = append(chunks, c)
		}
		if idata {
			if unordered {
				umid[si]++
			} else {
				mid[si]++
			}
		} else if !unordered {
			ssn[si]++
		}
	}
	hostilePct := []int{0, 0, 10}[rng.Intn(3)]
	released := 3
	var rst rqGenStats
	resetRSN := uint32(9000)
	for i := 0; i < nOps; i++ {
		if released < len(chunks) && rng.Intn(2) == 0 {
			released++
		}
		if ev := rng.Intn(100); ev < 5 {
			// inbound RECONFIG: the peer resets its outgoing stream sid; performed at once (lastTSN = cumulative TSN)
			a.lock.RLock()
			last := a.peerLastTSN()
			ids := []int{}
			for id := range a.streams {
				ids = append(ids, int(id))
			}
			a.lock.RUnlock()
			sort.Ints(ids)
			sid := uint16(rng.Intn(nStreams))
			if len(ids) > 0 && rng.Intn(5) != 0 {
				sid = uint16(ids[rng.Intn(len(ids))])
			}
			a.lock.RLock()
			if s := a.streams[sid]; s != nil && s.getNumBytesInReassemblyQueue() > 0 {
				st.resetsWithData++
			}
			a.lock.RUnlock()
			st.resets++
			resetRSN++
			fmt.Fprintf(w, "reset %d\n", sid)
			_ = a.handleChunk(nil, &chunkReconfig{paramA: &paramOutgoingResetRequest{reconfigRequestSequenceNumber: resetRSN,
				reconfigResponseSequenceNumber: resetRSN, senderLastTSN: last, streamIdentifiers: []uint16{sid}}})
			if a.getMyReceiverWindowCredit() != e2eWindow(a) {
				st.windowMismatch++
			}
			fmt.Fprintln(w, e2eStateString(a))
			continue
		} else if ev < 9 {
			// the application reads on the Stream object of a detached stream
			det := e2eDetachedWithData(a)
			if len(det) == 0 {
				continue
			}
			k := rng.Intn(len(det))
			s := det[k]
			b := make([]byte, []int{0, 2, 8, 64, 4096}[rng.Intn(5)])
			s.lock.Lock()
			n, ppi, err := s.reassemblyQueue.read(b)
			s.lock.Unlock()
			code := 1
			switch {
			case err == nil:
				code = 0
			case errors.Is(err, io.ErrShortBuffer):
				code = 2
			}
			st.detachedReads++
			fmt.Fprintf(w, "rdd %d %d %d %d %d", k, len(b), n, uint32(ppi), code)
			if code == 0 {
				fmt.Fprintf(w, " %d", n)
				for _, x := range b[:n] {
					fmt.Fprintf(w, " %d", x)
				}
			} else {
				fmt.Fprintf(w, " 0")
			}
			fmt.Fprintln(w)
			if a.getMyReceiverWindowCredit() != e2eWindow(a) {
				st.windowMismatch++
			}
			fmt.Fprintln(w, e2eStateString(a))
			continue
		}
		if rng.Intn(100) < 72 {
			lo := max(0, released-14)
			c := rqClone(chunks[lo+rng.Intn(released-lo)])
			switch rng.Intn(40) {
			case 0:
				c.tsn += a.payloadQueue.maxTSNOffset + uint32(rng.Intn(3)) - 1 // window edge
			case 1:
				c.tsn = rng.Uint32()
			case 2:
				c.iData, c.typ = !idata, ctPayloadData // wrong kind for this association
				if c.iData {
					c.typ = ctIData
				}
			}
			if rng.Intn(100) < hostilePct {
				si := c.streamIdentifier
				rqMutate(rng, c, si, &rst)
				c.streamIdentifier = si // the association routes by stream id
				st.hostile++
			}
			a.lock.RLock()
			s := a.streams[c.streamIdentifier]
			acceptOK := len(a.acceptCh) < cap(a.acceptCh)
			credit := a.getMyReceiverWindowCredit()
			a.lock.RUnlock()
			if s != nil && !rqSortSafe(s.reassemblyQueue, c) {
				continue
			}
			if !acceptOK {
				st.acceptFull++
			}
			if credit == 0 {
				st.bufferFullEvents++
			}
			if drainAccept {
				for len(a.acceptCh) > 0 {
					<-a.acceptCh
				}
				acceptOK = true
			}
			st.arrivals++
			var sb strings.Builder
			sb.WriteString("arr")
			rqChunkTokens(&sb, c)
			fmt.Fprintf(w, "%s %d\n", sb.String(), b2i(acceptOK))
			_ = a.handleChunk(nil, c)
			fmt.Fprintln(w, e2eStateString(a))
		} else {
			a.lock.RLock()
			ids := []int{}
			for id := range a.streams {
				ids = append(ids, int(id))
			}
			a.lock.RUnlock()
			sort.Ints(ids)
			sid := uint16(rng.Intn(nStreams))
			if len(ids) > 0 && rng.Intn(4) != 0 {
				sid = uint16(ids[rng.Intn(len(ids))])
			}
			a.lock.RLock()
			s := a.streams[sid]
			a.lock.RUnlock()
			b := make([]byte, []int{0, 2, 8, 64, 4096}[rng.Intn(5)])
			n, ppi, code := 0, PayloadProtocolIdentifier(0), 1
			if s != nil {
				s.lock.Lock()
				var err error
				n, ppi, err = s.reassemblyQueue.read(b)
				s.lock.Unlock()
				switch {
				case err == nil:
					code = 0
				case errors.Is(err, io.ErrShortBuffer):
					code = 2
				}
			}
			st.reads++
			fmt.Fprintf(w, "rd %d %d %d %d %d", sid, len(b), n, uint32(ppi), code)
			if code == 0 {
				fmt.Fprintf(w, " %d", n)
				for _, x := range b[:n] {
					fmt.Fprintf(w, " %d", x)
				}
			} else {
				fmt.Fprintf(w, " 0")
			}
			fmt.Fprintln(w)
			fmt.Fprintln(w, e2eStateString(a))
		}
	}
}

func TestVerifE2ERecv(t *testing.T) {
	seed := verifEnvInt("VERIF_SEED", 1)
	nCases := int(verifEnvInt("VERIF_N", 150))
	nOps := int(verifEnvInt("VERIF_OPS", 160))
	w, done := verifOut(t, "/tmp/verif_e2e.trace")
	defer done()
	rng := rand.New(rand.NewSource(seed + 29))
	st := &e2eStats{}
	for c := 0; c < nCases; c++ {
		e2eRunCase(w, rng, fmt.Sprintf("e%d", c), nOps, st)
	}
	fmt.Printf("E2EGEN cases=%d arrivals=%d reads=%d accept_channel_full=%d arrivals_at_zero_credit=%d hostile=%d idata_cases=%d entry_limit_cases=%d small_buffer_cases=%d inbound_resets=%d resets_with_unread_data=%d reads_on_detached=%d window_recomputation_mismatch=%d\n",
		nCases, st.arrivals, st.reads, st.acceptFull, st.bufferFullEvents, st.hostile, st.idataCases, st.limitCases, st.smallBufCases,
		st.resets, st.resetsWithData, st.detachedReads, st.windowMismatch)
}

// TestVerifE2ESpan: the H_ssn hypothesis of c01_ordered_prefix made observable on the implementation.
// A well-behaved peer sends n one-byte ordered messages (ssn 0,1,2,..., consecutive TSNs) on stream 0 while the
// application does not read; all of them fit the receive buffer and are acknowledged (the cumulative TSN reaches the
// last one).  Then the application reads everything.  Every message must come out, in order.
func TestVerifE2ESpan(t *testing.T) {
	n := int(verifEnvInt("VERIF_SPAN", 32772))
	a := rqBareAssoc(1<<20, false, 1)
	defer a.close() //nolint:errcheck
	for i := 0; i < n; i++ {
		_ = a.handleChunk(nil, &chunkPayloadData{tsn: uint32(1 + i), streamIdentifier: 0, streamSequenceNumber: uint16(i),
			beginningFragment: true, endingFragment: true, payloadType: PayloadTypeWebRTCBinary,
			userData: []byte{byte(i), byte(i >> 8), byte(i >> 16)}})
	}
	a.lock.RLock()
	cum := a.peerLastTSN()
	s := a.streams[0]
	rwnd := a.getMyReceiverWindowCredit()
	a.lock.RUnlock()
	held := len(rqHeldChunks(s.reassemblyQueue))
	got := 0
	firstBad := -1
	buf := make([]byte, 16)
	for {
		s.lock.Lock()
		k, _, err := s.reassemblyQueue.read(buf)
		s.lock.Unlock()
		if err != nil {
			break
		}
		idx := int(buf[0]) | int(buf[1])<<8 | int(buf[2])<<16
		if (k != 3 || idx != got) && firstBad < 0 {
			firstBad = got
		}
		got++
	}
	if cum == uint32(n) && (held != n || got != n || firstBad >= 0) {
		fmt.Printf("E2EFAIL ordered-message-beyond-2p15-span-dropped %d one-byte ordered messages (si 0, ssn 0..%d, tsn 1..%d) arrive while "+
			"the application does not read; a_rwnd=%d>0 throughout, cumulative TSN=%d (all acknowledged), but only %d chunks are held and "+
			"only %d messages can be read (first wrong index %d): messages more than 32768 ahead of the read cursor were dropped at push "+
			"(sna16LT(ssn, nextSSN)) after their TSN was recorded, so they are never retransmitted\n",
			n, n-1, n, rwnd, cum, held, got, firstBad)
	}
	fmt.Printf("E2ESPAN messages=%d cumTSN=%d held=%d read=%d\n", n, cum, held, got)
}
