"""C01 — reliable ordered delivery (safety half: reads return a prefix, in order, of what was written;
completeness under a healed network is C02)."""
import os
import vlib
import simcommon

PROP = "C01"
PROPS_FILE = "props/C01.v"
COQ_FILES = ["gen/Gen.v", "proofs/SnaProofs.v", "model/RPQ.v", "proofs/RPQProofs.v", "props/C05.v",
             "model/RQ.v", "proofs/RQProofs.v", "props/RQSafety.v",
             "model/E2E.v", "proofs/E2EProofs.v", "props/C01.v",
             "model/StreamW.v", "proofs/StreamWProofs.v",
             "model/PQ.v", "proofs/PQProofs.v", "proofs/PQFairProofs.v", "props/C17.v",
             "model/Sender.v", "proofs/SenderProofs.v", "proofs/RPQWordProofs.v", "model/Live.v", "proofs/LiveSender.v",
             "proofs/LiveProofs.v", "proofs/LiveReach.v", "props/C01Ack.v"]
EXTRA_PROPS_FILES = ["props/C01Ack.v"]
TRUSTED_BASE = [
    "Coq 8.16.1 kernel; vm_compute only in Examples/refutation witnesses; no native_compute",
    "hand-written models: coq/model/E2E.v (handleData -> acceptPayloadData -> pushPayloadDataToStream -> pop loop of "
    "handlePeerLastTSNAndAcknowledgement, one pass of ReadSCTP) over RPQ.v (receive bitmap) and RQ.v (reassembly queue); "
    "StreamW.v (packetize), PQ.v (pending queue pop order = TSN assignment order), Sender.v (retransmission never rebuilds a chunk)",
    "extraction (ExtrOcamlBasic only) + ocaml/cmp_e2e.ml, cmp_rq.ml, cmp_rpq.ml, cmp_streamw.ml, cmp_pq.ml; Go harnesses "
    "zz_verif_e2e_test.go (bare Association driven through handleChunk), zz_verif_rq/rpq/streamw/pq_test.go, simulator zz_verif_sim_test.go",
    "the sender side enters the theorem as the well-formedness predicate of the universe (hypothesis of c01_ordered_prefix); that the "
    "real sender produces such a universe rests on sw_frags_spec (fragments), c17_msg_contiguous / c17_fifo_per_stream (TSN order) and "
    "Sender.v (immutability), and is observed end to end by the simulator monitor P_C01",
]
ASSUMPTIONS = [
    "H_tsn: arrivals within 2^31 TSNs of the cumulative point (bounded packet lifetime; same hypothesis as C05)",
    "H_ssn: a chunk belongs to a message fewer than 2^15 messages ahead of the messages already read on its stream "
    "(violated by >32768 unread small messages on one stream: finding D16, key c01-ordered-message-beyond-2p15-span-dropped)",
    "proved for DATA mode and for I-DATA mode (interleaving), ordered messages on every stream, no stream reset / FORWARD-TSN in "
    "the history; histories that also carry unordered messages, resets or forward skips are covered by the differentials and the "
    "simulator monitor only; the written-messages form (generator proved well-formed) is closed for DATA mode",
]


def _key(line):
    parts = line.split()
    return "c01-" + parts[1] if len(parts) > 1 else "c01-unknown"


def correspondence(ctx):
    vlib.differential(ctx, "e2e-receiver-step-commuting", "TestVerifE2ERecv", "e2e",
                      {"VERIF_N": ctx.scale(150, 4000), "VERIF_OPS": 160})
    vlib.differential(ctx, "e2e-receiver-sim-step-commuting", "TestVerifSimRecv", "e2e",
                      {"VERIF_N": ctx.scale(60, 1500), "VERIF_EVENTS": 250})
    vlib.differential(ctx, "rq-differential", "TestVerifRQ", "rq",
                      {"VERIF_N": ctx.scale(200, 4000), "VERIF_OPS": 100,
                       "VERIF_CORPUS": os.path.join(vlib.VERIF, "corpus/rq.ops")})
    vlib.differential(ctx, "rpq-differential", "TestVerifRPQ", "rpq",
                      {"VERIF_N": ctx.scale(150, 3000), "VERIF_OPS": 120,
                       "VERIF_CORPUS": os.path.join(vlib.VERIF, "corpus/rpq.ops")})
    # props/C01Ack.v is about Sender.v (sack_step, t3_step, send_new): its step-commuting records are part of this check
    vlib.differential(ctx, "sender-step-commuting", "TestVerifSimSender", "sender",
                      {"VERIF_N": ctx.scale(40, 1500), "VERIF_EVENTS": 250}, timeout=3000)
    vlib.differential(ctx, "streamw-differential", "TestVerifStreamW", "streamw", {"VERIF_N": ctx.scale(200, 4000)})
    vlib.differential(ctx, "pq-differential", "TestVerifPQ", "pq", {"VERIF_N": ctx.scale(150, 3000)})
    vlib.monitor(ctx, "ordered-span-on-implementation", "TestVerifE2ESpan", {},
                 fail_prefixes=("E2EFAIL ",), classify=_key, summary_prefix="E2ESPAN")
    simcommon.transfer(ctx)


def search(ctx):
    simcommon.sim_monitor(ctx, "sim-transfer-wide", "TestVerifSimTransfer",
                          {"VERIF_N": 400, "VERIF_EVENTS": 300, "VERIF_SEED": ctx.seed + 101}, "SIMTRANSFER")


LEVEL_TEXT = ("Coq theorem c01_ordered_prefix over all well-formed sender universes, all arrival lists (any order, duplication, "
              "omission), all interleavings of reads with any buffer sizes, all receive-buffer sizes / entry limits / initial TSNs: "
              "on every stream the messages read are messages 0..n-1 in order with equal bytes and PPI (DATA mode: c01_ordered_prefix, "
              "c01_ordered_prefix_written; I-DATA mode: c01_ordered_prefix_idata), "
              "under H_tsn and H_ssn; the buffer-full admission rule is the code's own. The composed receiver model is tied to the "
              "code by a step-commuting differential on a bare Association (state dump of bitmap + every stream queue after every "
              "chunk / read), its components by their own differentials, the whole by the simulator monitor P_C01.")
LEVEL_NOTE = ("Partial: the link 'real sender (StreamW + PQ + Sender models) => well-formed universe' is not closed inside one Coq "
              "theorem (the generator e2e/g_U is proved well-formed; that packetize + pending queue + TSN assignment compute that "
              "generator rests on sw_frags_spec, c17_msg_contiguous, c17_fifo_per_stream and the simulator monitor). "
              "H_ssn is necessary: D16 is reproduced on the implementation.")
TECHNIQUE = "Coq proof (per-queue invariant + composition with the C05 bitmap ghost) + step-commuting / component differentials + simulator monitor"
