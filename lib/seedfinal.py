#!/usr/bin/env python3
"""seedfinal.py [id ...]
Final pass over the confirmed seeded changes in /verif/seeded/<id>/ : each patch is applied to /repo itself
(git -C /repo apply), the checks listed for it are run from /verif against /repo (quick tier), and /repo is
restored straight afterwards (git -C /repo checkout -- .).  Results go to seeded/<id>/meta.json under "final"
and a markdown table is printed.  Nothing else may be using /repo or /verif while this runs."""
import json, os, subprocess, sys, time

VERIF = "/verif"
# which checks to run against which seed: the property the change was written against first, then the
# checks whose models cover the touched code
PLAN = {
    "C01-1": ["C01", "C11", "C18"], "C01-2": ["C01", "C10", "C15", "C02"],
    "C02-1": ["C02", "C10"], "C02-2": ["C02", "C19"],
    "C03-1": ["C03", "C12"], "C03-2": ["C03", "C14"],
    "C04-1": ["C04", "C13"], "C04-2": ["C04", "C09"],
    "C05-1": ["C05", "C16"], "C05-2": ["C05", "C16"],
    "C06-1": ["C06", "C10"], "C06-2": ["C06", "C07", "C11", "C16"],
    "C07-1": ["C07", "C11", "C01"], "C07-2": ["C07", "C06"],
    "C08-1": ["C08"], "C08-2": ["C08"],
    "C09-1": ["C09", "C18"], "C09-2": ["C09", "C19"],
    "C10-1": ["C10", "C02"], "C10-2": ["C10", "C15"],
    "C11-1": ["C11", "C05", "C03"], "C11-2": ["C11", "C07"],
    "C12-1": ["C12"], "C12-2": ["C12", "C03"],
    "C13-1": ["C13", "C03"], "C13-2": ["C13", "C04"],
    "C14-1": ["C14", "C01"], "C14-2": ["C14"],
    "C15-1": ["C15", "C06"], "C15-2": ["C15", "C18"],
    "C16-1": ["C16", "C10"], "C16-2": ["C16", "C11"],
    "C17-1": ["C17", "C04"], "C17-2": ["C17"],
    "C18-1": ["C18", "C15"], "C18-2": ["C18", "C11"],
    "C19-1": ["C19"], "C19-2": ["C19", "C10"],
    "C20-1": ["C20"], "C20-2": ["C20", "C18"],
    # third round
    "C05-3": ["C05", "C16"], "C10-3": ["C10", "C12", "C17"], "C11-3": ["C11", "C03"], "C15-3": ["C15", "C06"],
    "C19-3": ["C19", "C05"],
    # fourth round
    "C08-4": ["C08"], "C14-4": ["C14"], "C17-4": ["C17"], "C18-4": ["C18"],
}


def sh(cmd, cwd=None, timeout=4000):
    p = subprocess.run(cmd, cwd=cwd, shell=isinstance(cmd, str), stdout=subprocess.PIPE, stderr=subprocess.STDOUT, text=True, timeout=timeout)
    return p.returncode, p.stdout


def main():
    ids = sys.argv[1:] or sorted(d for d in os.listdir(os.path.join(VERIF, "seeded")) if os.path.exists(os.path.join(VERIF, "seeded", d, "patch.diff")))
    claimed = open(os.path.join(VERIF, "claimed.txt")).read().split()
    rows = []
    for sid in ids:
        d = os.path.join(VERIF, "seeded", sid)
        st = subprocess.run(["git", "-C", "/repo", "status", "--porcelain"], capture_output=True, text=True).stdout.strip()
        if st:
            print("refusing: /repo is not clean:", st)
            return 2
        rc, out = sh(["git", "-C", "/repo", "apply", os.path.join(d, "patch.diff")])
        if rc != 0:
            rc, out = sh(["git", "-C", "/repo", "apply", "--3way", os.path.join(d, "patch.diff")])
            sh(["git", "-C", "/repo", "reset", "-q"])  # --3way stages; keep the change in the working tree only
        res = {"applied_to": subprocess.run(["git", "-C", "/repo", "rev-parse", "--short", "HEAD"], capture_output=True, text=True).stdout.strip(),
               "applies": rc == 0, "checks": {}}
        try:
            if rc == 0:
                for c in PLAN.get(sid, [sid.split("-")[0]]):
                    if c not in claimed:
                        continue
                    t0 = time.time()
                    rc2, o = sh([os.path.join(VERIF, "check"), c, "--tier", "quick"], cwd=VERIF)
                    lines = [l for l in o.splitlines() if l.startswith(("VIOLATION", "OK ", "  broken"))]
                    res["checks"][c] = {"rc": rc2, "caught": rc2 != 0, "wall_s": round(time.time() - t0, 1), "lines": [l[:400] for l in lines[:4]]}
                    for l in lines:
                        if l.startswith("VIOLATION") and "replay=" in l:
                            rp = l.split("replay=")[1].split()[0]
                            try:
                                import shutil
                                shutil.copy(rp, os.path.join(d, "replay_final_%s_%s" % (c, os.path.basename(rp))))
                            except OSError:
                                pass
        finally:
            sh(["git", "-C", "/repo", "checkout", "--", "."])
            sh(["git", "-C", "/repo", "clean", "-fdq"])
        try:
            meta = json.load(open(os.path.join(d, "meta.json")))
        except Exception:
            meta = {}
        meta["final"] = res
        json.dump(meta, open(os.path.join(d, "meta.json"), "w"), indent=1)
        caught = [c for c, v in res["checks"].items() if v["caught"]]
        missed = [c for c, v in res["checks"].items() if not v["caught"]]
        rows.append((sid, meta.get("summary", "")[:160], caught, missed))
        print("%s caught_by=%s not_by=%s" % (sid, ",".join(caught) or "-", ",".join(missed) or "-"), flush=True)
    print()
    print("| seed | change | caught by | run but silent |")
    print("|----|----|----|----|")
    for sid, summ, caught, missed in rows:
        print("| %s | %s | %s | %s |" % (sid, summ.replace("|", "/"), ", ".join(caught) or "—", ", ".join(missed) or "—"))
    return 0


if __name__ == "__main__":
    sys.exit(main())
