(* C08 — graceful shutdown.
   Model: coq/model/Shutdown.v (association.go: Shutdown, handleShutdown / handleShutdownAck / handleShutdownComplete,
   retransmitShutdownAck, handleInit in SHUTDOWN-ACK-SENT, handleData in SHUTDOWN-SENT, handleSack + postprocessSack +
   advanceShutdownAfterDataDrain, onShutdownTimeout, gatherOutbound* and the close paths), with the generated
   isShutdownHandleState / entersShutdownReceived / isDataReceiveState and state constants of Gen.v.
   Only statements closed by [exact] + Print Assumptions. *)
From Coq Require Import ZArith Bool List.
From Sctp Require Import Gen Sender SenderProofs Shutdown ShutdownProofs ShutdownInvProofs ShutdownGatherProofs
  ShutdownCrossedProofs ShutdownFailingProofs ShutdownDataProofs.
Import ListNotations.
Open Scope Z_scope.

(* ---- the generic closure lemma, proved once by induction on runs: a set that contains the initial states and is
   closed under the step relation contains the end of every finite run *)
Theorem c08_closure : forall (T : Type) (succs : T -> list T) (inits : list T) (S : T -> Prop),
  (forall x, In x inits -> S x) -> (forall x y, S x -> In y (succs x) -> S y) ->
  forall run x0, S x0 -> sd_is_run T succs x0 run -> S (sd_run_end T x0 run).
Proof. exact sd_closure_runs. Qed.
Print Assumptions c08_closure.

(* ---- (a) drain before SHUTDOWN, for ALL queue sizes: along every history of one endpoint (any events in any order —
   API calls, deliveries of any chunk, T2 / ack-timer / T3 expiries, transport loss — any value of the oracles that
   satisfies the constraints the correspondence checks on every record), a packet with a SHUTDOWN or a SHUTDOWN ACK
   leaves the endpoint only when its pending queue and its in-flight queue are empty. *)
Theorem c08_drain_before_shutdown : forall l e, sd_Inv e -> sd_evs_ok e l ->
  forall e2 out, In (e2, out) (sd_ep_trace e l) ->
    sd_Inv e2 /\ ((In SdShutdown out \/ In SdShutdownAck out) -> sd_pend e2 = 0 /\ sd_infl e2 = 0).
Proof. exact sd_drain_before_shutdown_hist. Qed.
Print Assumptions c08_drain_before_shutdown.

Theorem c08_initial_endpoint_satisfies_invariant : forall pend, 0 <= pend -> sd_Inv (sd_ep0 pend).
Proof. exact sd_Inv_ep0. Qed.
Print Assumptions c08_initial_endpoint_satisfies_invariant.

(* the counters against the integer-level sender model (unbounded queues): what the acknowledgement routine shared by
   SACK and SHUTDOWN does with a gap-free cumulative ack is one of the oracle values quantified over above: a prefix of
   the in-flight queue is removed, the pending queue is untouched.  Assumed: Sender.sack_step models
   processAcknowledgement (C10's step-commuting check; the in-flight count after every SHUTDOWN is compared by `sd`). *)
Theorem c08_cumack_refines_abstraction : forall s cum arwnd s' e,
  sack_step s cum arwnd [] = SOk s' -> chunks_ok (st_infl s) -> sd_abs_sender s e ->
  exists acked, sd_ackres_ok e (SdAckOk acked) = true /\ sd_abs_sender s' (sd_set_infl e (sd_infl e - acked)).
Proof. exact sd_cumack_refines. Qed.
Print Assumptions c08_cumack_refines_abstraction.

Theorem c08_drained_means_all_cumulatively_acked : forall s cum arwnd s' e,
  sack_step s cum arwnd [] = SOk s' -> chunks_ok (st_infl s) -> sd_abs_sender s' e -> sd_has_data e = false ->
  st_pendn s' <= 0 /\ st_infl s' = [] /\ exists popped rest, st_infl s = popped ++ rest /\ rest = [].
Proof. exact sd_drained_all_cum_acked. Qed.
Print Assumptions c08_drained_means_all_cumulatively_acked.

(* ---- (b) writes after shutdown began: outside ESTABLISHED a write is rejected, queues nothing and does not change what
   the write loop sends; a second Shutdown is refused *)
Theorem c08_write_rejected_after_shutdown : forall e n, sd_state e <> c_established -> sd_write_attempt e n = (e, false).
Proof. exact sd_write_rejected. Qed.
Print Assumptions c08_write_rejected_after_shutdown.

Theorem c08_rejected_write_sends_nothing_new : forall e n moved rtx, sd_state e <> c_established ->
  sd_step e (SdEvWrite n) moved rtx = (sd_gather e moved rtx, false).
Proof. exact sd_write_rejected_step. Qed.
Print Assumptions c08_rejected_write_sends_nothing_new.

Theorem c08_shutdown_call_leaves_established : forall e, sd_state e = c_established ->
  sd_state (fst (sd_api_shutdown e)) = (if sd_has_data e then c_shutdownPending else c_shutdownSent) /\
  sd_ret (fst (sd_api_shutdown e)) = SdWaiting.
Proof. exact sd_shutdown_call_leaves_established. Qed.
Print Assumptions c08_shutdown_call_leaves_established.

Theorem c08_no_user_data_after_shutdown_sent : forall e moved rtx,
  sd_sorted_by_rank (snd (sd_gather e moved rtx)) = true /\
  (In SdData (snd (sd_gather e moved rtx)) -> sd_sends_data (sd_state e) = true).
Proof. exact sd_gather_order. Qed.
Print Assumptions c08_no_user_data_after_shutdown_sent.

(* ---- (c) both endpoints close; Shutdown returns nil only on a closed, drained association.
   Finite instance (legitimate: the control skeleton is finite once the queue counters are bounded): at most 2 messages
   queued per side at any time, writes and Shutdown calls at any moment, every packet ever sent may be delivered at any
   time and any number of times (duplication, reordering), everything in transit may be lost at any moment.
   The reachable set is computed by a worklist closure; vm_compute checks that it contains the 9 initial states and is
   closed under the step relation, and c08_closure's instance sd_closure carries the checks to every reachable state.
   sd_started: some Shutdown call was accepted (it is blocked or has returned nil).
   sd_eventually_closed: from the state there is a finite sequence of deliveries / T2, ack-timer, T3 expiries /
   "own transport closes after the peer has closed" steps — no API call, no loss — to "both closed"; the rank of
   every state is computed and checked to decrease along some step. *)
Theorem c08_both_close : forall s, sd_reach sd_cfg_one s ->
  sd_sys_safe s = true /\ sd_sys_inv s = true /\ (sd_started s = true -> sd_eventually_closed s).
Proof. exact sd_one_sided. Qed.
Print Assumptions c08_both_close.

Theorem c08_crossed_close : forall s, sd_reach sd_cfg_crossed s ->
  sd_sys_safe s = true /\ sd_sys_inv s = true /\ (sd_started s = true -> sd_eventually_closed s).
Proof. exact sd_crossed. Qed.
Print Assumptions c08_crossed_close.

Theorem c08_reachable_set_one_sided : Z.of_nat (sd_set_size sd_cfg_one) = 3222.
Proof. exact sd_size_one. Qed.
Theorem c08_reachable_set_crossed : Z.of_nat (sd_set_size sd_cfg_crossed) = 9621.
Proof. exact sd_size_crossed. Qed.
Print Assumptions c08_reachable_set_crossed.

(* ---- (d) state x inbound chunk: the successor state is one of the listed ones (sd_matrix), for every endpoint state
   as it is between two events (sd_boundary), every oracle value *)
Theorem c08_state_chunk_matrix : forall e ev k moved rtx,
  sd_ev_kind ev = Some k -> sd_boundary e -> sd_ev_ok e ev = true ->
  sd_oracle_ok (fst (sd_handle e ev)) moved rtx = true ->
  In (sd_state (fst (fst (sd_step e ev moved rtx)))) (sd_matrix (sd_state e) k).
Proof. exact sd_state_chunk_matrix. Qed.
Print Assumptions c08_state_chunk_matrix.

Theorem c08_duplicate_shutdown_is_acked_again : forall e r moved rtx,
  sd_state e = c_shutdownAckSent -> sd_scp e = false -> sd_wsc e = false -> sd_down e = false ->
  snd (fst (sd_step e (SdEvRecvShutdown r) moved rtx)) = [SdShutdownAck] /\
  sd_state (fst (fst (sd_step e (SdEvRecvShutdown r) moved rtx))) = c_shutdownAckSent /\
  sd_t2 (fst (fst (sd_step e (SdEvRecvShutdown r) moved rtx))) = true.
Proof. exact sd_dup_shutdown_reacks. Qed.
Print Assumptions c08_duplicate_shutdown_is_acked_again.

Theorem c08_shutdown_complete_only_in_ack_sent : forall e,
  sd_state e <> c_shutdownAckSent -> sd_recv_shutdown_complete e = e.
Proof. exact sd_shutdown_complete_only_in_ack_sent. Qed.
Print Assumptions c08_shutdown_complete_only_in_ack_sent.

Theorem c08_shutdown_ack_only_when_shutdown_sent : forall e,
  sd_state e <> c_shutdownSent -> sd_state e <> c_shutdownAckSent -> sd_recv_shutdown_ack e = e.
Proof. exact sd_shutdown_ack_only_when_sent. Qed.
Print Assumptions c08_shutdown_ack_only_when_shutdown_sent.

Theorem c08_data_dropped_outside_receive_states : forall e imm,
  sd_scp e = true \/ isDataReceiveState (sd_state e) = false -> sd_recv_data e imm = e.
Proof. exact sd_data_dropped. Qed.
Print Assumptions c08_data_dropped_outside_receive_states.

(* ---- (e) priority order of gatherOutbound *)
Theorem c08_gather_shutdown_complete_first : forall e moved rtx, sd_down e = false -> sd_wsc e = true ->
  snd (sd_gather e moved rtx) = [SdShutdownComplete] /\
  sd_state (fst (sd_gather e moved rtx)) = c_closed /\ sd_down (fst (sd_gather e moved rtx)) = true.
Proof. exact sd_gather_complete_first. Qed.
Print Assumptions c08_gather_shutdown_complete_first.

Theorem c08_gather_shutdown_ack_first : forall e moved rtx,
  sd_down e = false -> sd_wsc e = false -> sd_state e = c_shutdownAckSent -> sd_wsa e = true ->
  snd (sd_gather e moved rtx) = [SdShutdownAck].
Proof. exact sd_gather_ack_first. Qed.
Print Assumptions c08_gather_shutdown_ack_first.

Theorem c08_gather_sack_then_shutdown : forall e moved rtx,
  sd_down e = false -> sd_wsc e = false -> sd_wsa e = false -> sd_state e = c_shutdownSent -> sd_wsd e = true ->
  snd (sd_gather e moved rtx) = (if sd_ack e =? sd_ackImmediate then [SdSack] else []) ++ [SdShutdown].
Proof. exact sd_gather_shutdown_first. Qed.
Print Assumptions c08_gather_sack_then_shutdown.

(* ---- Shutdown's result (model of the code after fix 568b58f).
   For ALL histories of an endpoint and all queue sizes — deliveries of any chunk, timers, API calls, and the events that
   close the association under a blocked Shutdown: transport failure (SdEvTransportDown), ABORT from the peer
   (SdEvRecvAbort), a concurrent Close / Abort call (SdEvCloseCall) — the result is nil only if the shutdown sequence
   reached its end (shutdownCompleted), and then the pending and the in-flight queue of the caller are empty: with
   c08_drain_before_shutdown / c08_drained_means_all_cumulatively_acked every chunk accepted before the call was removed by
   a cumulative acknowledgement of the peer.  (Before the fix the faithful model refuted this: theorem
   c08_shutdown_nil_without_delivery_refuted of the earlier development, witness sd_d18_schedule below.) *)
Theorem c08_shutdown_nil_means_completed : forall l e, sd_Inv e -> sd_evs_ok e l ->
  forall e2 out, In (e2, out) (sd_ep_trace e l) -> sd_ret e2 = SdRetNil ->
    sd_done e2 = true /\ sd_pend e2 = 0 /\ sd_infl e2 = 0.
Proof. exact sd_nil_means_completed_hist. Qed.
Print Assumptions c08_shutdown_nil_means_completed.

(* shutdownCompleted is set by the end of the sequence only: SHUTDOWN ACK received in SHUTDOWN-SENT / SHUTDOWN-ACK-SENT
   (the peer has seen our SHUTDOWN, which left with empty queues), or SHUTDOWN COMPLETE received in SHUTDOWN-ACK-SENT *)
Theorem c08_completed_only_by_sequence : forall e ev moved rtx,
  sd_done (fst (fst (sd_step e ev moved rtx))) = true ->
  sd_done e = true \/
  (ev = SdEvRecvShutdownAck /\ sd_down e = false /\ (sd_state e = c_shutdownSent \/ sd_state e = c_shutdownAckSent)) \/
  (ev = SdEvRecvShutdownComplete /\ sd_down e = false /\ sd_state e = c_shutdownAckSent).
Proof. exact sd_done_only_by_sequence. Qed.
Print Assumptions c08_completed_only_by_sequence.

(* the same on the composed finite instance in which transport failure, ABORT and Close may happen at any time, both users
   may call Shutdown, <= 2 messages queued per side, duplication / reordering / loss (41599 reachable states): in every
   reachable state a nil result means closed, completed, nothing pending or in flight — the configuration on which the
   pre-fix model had a reachable counterexample *)
Theorem c08_shutdown_nil_safe_under_failures : forall s, sd_reach sd_cfg_failing s -> sd_sys_safe s = true.
Proof. exact sd_failing_safe. Qed.
Print Assumptions c08_shutdown_nil_safe_under_failures.

(* the pre-fix witness (one message written, Shutdown called, DATA lost, transport fails / peer ABORTs / user Closes): the
   call now returns ErrShutdownIncomplete; one chunk is still in flight, B's endpoint never handled a packet *)
Example c08_d18_witness_now_reports_error :
  sd_run_labels sd_cfg_failing (sd_init 0 0) sd_d18_schedule = Some sd_d18_state /\
  sd_ret (sd_a sd_d18_state) = SdRetIncomplete /\ sd_infl (sd_a sd_d18_state) = 1 /\ sd_b sd_d18_state = sd_ep0 0.
Proof. split; [exact sd_d18_run|repeat split; reflexivity]. Qed.

(* ---- non-vacuity: a complete one-sided shutdown with one message queued, and a boundary state for the matrix *)
Example c08_example_shutdown :
  let run := [SdL false (SdEvWrite 1) 1 false;                       (* A writes, DATA leaves *)
              SdL false SdEvShutdownCall 0 false;                    (* A: SHUTDOWN-PENDING, Shutdown blocks *)
              SdL true (SdEvRecvData true) 0 false;                  (* B gets the DATA, SACKs *)
              SdL false (SdEvRecvSack (SdAckOk 1)) 0 false;          (* A drained: SHUTDOWN-SENT, SHUTDOWN leaves *)
              SdL true (SdEvRecvShutdown SdAckStale) 0 false;        (* B: SHUTDOWN-ACK-SENT, SHUTDOWN ACK leaves *)
              SdL false SdEvRecvShutdownAck 0 false;                 (* A: SHUTDOWN COMPLETE leaves, closed, nil *)
              SdL true SdEvRecvShutdownComplete 0 false] in          (* B closed *)
  match sd_run_labels sd_cfg_one (sd_init 0 0) run with
  | Some s => sd_both_closed s = true /\ sd_ret (sd_a s) = SdRetNil /\ sd_infl (sd_a s) = 0
  | None => False
  end.
Proof. vm_compute. repeat split; reflexivity. Qed.

Example c08_example_boundary :
  sd_boundary (mkSdEp c_shutdownPending false false false false false false 1 2 sd_ackIdle SdWaiting false).
Proof.
  unfold sd_boundary, sd_Inv. cbn [sd_state sd_wsd sd_wsa sd_wsc sd_scp sd_done sd_ret sd_down sd_pend sd_infl].
  unfold c_shutdownPending, c_shutdownSent, c_shutdownAckSent, c_shutdownReceived.
  repeat split; intros; try discriminate; try reflexivity; try (destruct H; discriminate).
Qed.
