// Verification harness: targeted scenarios (corpus of minimal replays found by the machinery).
package sctp

import (
	"fmt"
	"testing"
	"testing/synctest"
	"time"
)

// simScenario runs fn on an established pair with the given options and reports monitor failures.
func simScenario(t *testing.T, label string, o simOpts, fn func(s *sim)) []string {
	var fails []string
	synctest.Test(t, func(t *testing.T) {
		s := newSim(t, o, label)
		if !s.establish() {
			s.fail("C04", fmt.Sprintf("fault-free handshake did not complete: errs=%v,%v", s.hsErr[0], s.hsErr[1]))
		} else {
			fn(s)
		}
		s.closeBoth()
		fails = s.fails
		s.report()
	})
	return fails
}

// TestVerifScenProbeWindow: receiver nearly full (small non-zero a_rwnd), sender idle; a chunk larger
// than rwnd goes out through the probe path; does a following small write respect the advertised window?
func TestVerifScenProbeWindow(t *testing.T) {
	n := 0
	for _, buf := range []uint32{4000, 6000, 20000} {
		o := simOpts{seed: int64(buf), interleaveA: 0, interleaveB: 0, setTSN: true, tsnA: 100, tsnB: 5000, recvBuf: buf}
		f := simScenario(t, fmt.Sprintf("probe-window/buf=%d", buf), o, func(s *sim) {
			a := s.assoc[0]
			mp := int(a.maxPayloadSize)
			// fill the peer's buffer (no reads on side 1) leaving a small positive window
			for int(buf)-len(s.sent[0][1])*(mp-60) > mp {
				_ = s.write(0, 1, mp-60, PayloadTypeWebRTCBinary)
				s.runFaultFreeNoRead(2*time.Second, 50*time.Millisecond)
			}
			s.runFaultFreeNoRead(3*time.Second, 50*time.Millisecond)
			// now a chunk larger than the remaining window, then a small one, without any delivery in between
			_ = s.write(0, 1, mp-60, PayloadTypeWebRTCBinary)
			_ = s.write(0, 1, 100, PayloadTypeWebRTCBinary)
			s.runFaultFreeNoRead(2*time.Second, 50*time.Millisecond)
		})
		n += len(f)
	}
	fmt.Printf("SCENPROBE fails=%d\n", n)
}

// runFaultFreeNoRead delivers everything in order for a while without reading on either side.
func (s *sim) runFaultFreeNoRead(limit, step time.Duration) {
	deadline := s.now() + limit
	for s.now() < deadline {
		for len(s.flight[0]) > 0 || len(s.flight[1]) > 0 {
			from := 0
			if len(s.flight[0]) == 0 || (len(s.flight[1]) > 0 && s.flight[1][0].id < s.flight[0][0].id) {
				from = 1
			}
			s.deliver(from, 0, false)
		}
		s.advance(step)
	}
}

// bufLowObserver counts downward crossings of the buffered-amount threshold at harness events.
type bufLowObserver struct {
	st       *Stream
	th       uint64
	pre      uint64
	expected *int
}

func (o *bufLowObserver) before(s *sim, ev *simEvent) { o.pre = o.st.BufferedAmount() }
func (o *bufLowObserver) after(s *sim, ev *simEvent) {
	post := o.st.BufferedAmount()
	if ev.kind == "deliver" && o.pre > o.th && post <= o.th {
		*o.expected++
	}
}

// TestVerifScenBufferedLow: the low-threshold callback fires once per downward crossing, and may call
// back into the stream and the association (it runs without internal locks held).
func TestVerifScenBufferedLow(t *testing.T) {
	seed := verifEnvInt("VERIF_SEED", 1)
	n := int(verifEnvInt("VERIF_N", 20))
	total, crossings := 0, 0
	for i := 0; i < n; i++ {
		o := simOpts{seed: seed*7919 + int64(i), interleaveA: i % 2, interleaveB: i % 2, setTSN: true, tsnA: uint32(i * 1000), tsnB: 77}
		f := simScenario(t, fmt.Sprintf("buffered-low/%d", i), o, func(s *sim) {
			a := s.assoc[0]
			st := s.openStream(0, 3)
			th := uint64(500 + 700*(i%5))
			st.SetBufferedAmountLowThreshold(th)
			fired, expected := 0, 0
			st.OnBufferedAmountLow(func() {
				fired++
				// re-entrancy: these take the stream / association locks
				_ = st.BufferedAmount()
				_ = a.BufferedAmount()
				_ = st.BufferedAmountLowThreshold()
			})
			s.obs = append(s.obs, &bufLowObserver{st: st, th: th, expected: &expected})
			for k := 0; k < 6; k++ {
				_ = s.write(0, 3, 300+int(o.seed+int64(k*977))%4000, PayloadTypeWebRTCBinary)
				if k%2 == 1 {
					s.runFaultFree(3*time.Second, 20*time.Millisecond, func() bool { return a.BufferedAmount() == 0 })
				}
			}
			s.runFaultFree(10*time.Second, 20*time.Millisecond, func() bool { return a.BufferedAmount() == 0 })
			if fired != expected {
				s.fail("C15", fmt.Sprintf("low-threshold callback fired %d times for %d downward crossings (threshold=%d)", fired, expected, th))
			}
			if st.BufferedAmount() != 0 {
				s.fail("C15", fmt.Sprintf("buffered amount %d after everything was acknowledged", st.BufferedAmount()))
			}
			crossings += expected
		})
		total += len(f)
	}
	fmt.Printf("SCENBUFLOW scenarios=%d crossings=%d fails=%d\n", n, crossings, total)
}
