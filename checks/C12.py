"""C12 — wire codec fidelity (and the decoder half of C03: no byte string makes the decoder panic)."""
import os
import re
import vlib

PROP = "C12"
PROPS_FILE = "props/C12.v"
COQ_FILES = ["gen/Gen.v", "model/Codec.v", "proofs/CodecProofs.v", "props/C12.v"]
TRUSTED_BASE = [
    "Coq 8.16.1 kernel; vm_compute only in Examples/refutation witnesses; no native_compute",
    "translator (chunk/param/cause type codes, header sizes, getPadding, sna32LT) + hand-written model "
    "coq/model/Codec.v of packet.go, chunkheader.go, chunk_*.go, param*.go, error_cause*.go",
    "extraction (ExtrOcamlBasic only) + /verif/ocaml/cmp_codec.ml (hex and dump text <-> model values); "
    "Go harness zz_verif_codec_test.go (overlay): struct dump = abstraction function, errors.Is table = error codes",
    "modelled, not verified: CRC32c (oracle input ck_ok / the four checksum bytes; see C13); Go slices as lists "
    "(aliasing of decoded fields with the input buffer is not modelled)",
]
ASSUMPTIONS = [
    "round-trip / stability theorems cover every bundle of all seventeen chunk kinds in any position (cd_wf_packet); the "
    "restrictions left are forced by the code: INIT flags 0, HEARTBEAT / HEARTBEAT-ACK with exactly one Heartbeat Info (or the "
    "empty HEARTBEAT), error-cause code = the code buildErrorCause dispatches on",
    "value lengths below 2^16-4 (the uint16 length field wraps above: c12_length_field_needs_bound)",
    "stability for arbitrary accepted bytes is proved under the boolean hypothesis cd_wf_packet(decoded), which the comparator "
    "evaluates on every accepted packet; refuted for the empty HEARTBEAT-ACK (c12_reenc_empty_heartbeat_ack_refuted)",
]


def _key(line):
    m = re.search(r"key=(\S+)", line)
    return m.group(1) if m else "codec-unclassified"


def correspondence(ctx):
    corpus = os.path.join(vlib.VERIF, "corpus/codec.pkts")
    vlib.differential(ctx, "codec-differential", "TestVerifCodec", "codec",
                      {"VERIF_N": ctx.scale(1500, 40000), "VERIF_MUT": ctx.scale(3500, 120000),
                       "VERIF_BIG": ctx.scale(3, 12), "VERIF_CORPUS": corpus})
    vlib.monitor(ctx, "codec-properties", "TestVerifCodecProps", {"VERIF_N": ctx.scale(2000, 40000)},
                 fail_prefixes=("CODECFAIL",), classify=_key, summary_prefix="CODECPROPS")


def search(ctx):
    vlib.monitor(ctx, "codec-properties-wide", "TestVerifCodecProps", {"VERIF_N": 20000, "VERIF_SEED": ctx.seed + 13},
                 fail_prefixes=("CODECFAIL",), classify=_key, summary_prefix="CODECPROPS")


LEVEL_TEXT = ("Coq theorems over all byte strings (decoder never panics, loops terminate), all bundles of DATA/I-DATA/SACK/INIT/"
              "INIT-ACK/RECONFIG/FORWARD-TSN/I-FORWARD-TSN/SHUTDOWN*/COOKIE-*/HEARTBEAT/HEARTBEAT-ACK/ABORT/ERROR chunks in any position, with "
              "arbitrary field values, parameter and cause lists and variable-length parts (decode(encode) = "
              "canonical form, re-encoding stable), all chunk kinds (emitted packets are 4-aligned, length field = header + "
              "value, locality of every chunk type). Model tied to the Go code by a byte-exact differential "
              "on structured packets of every chunk kind and on mutated byte strings (accept/reject, error identity, decoded "
              "value, re-marshalled bytes) and by monitors evaluating the statements on the implementation.")
LEVEL_NOTE = ("Trusted: Coq kernel, hand-written model Codec.v, extraction, harness. The former refutations D2/D3/D4/D8 are regression "
              "examples since the fixes 46c3107, c4c4893, ff34a9b, eefb4f1 (monitor keys kept). Still refuted: an accepted empty "
              "HEARTBEAT-ACK cannot be re-encoded (key codec-heartbeat-ack-empty-accepted-not-encodable).")
TECHNIQUE = "Coq proof (totality, round trip by induction over the bundle, locality) + differential correspondence"
