(* The finite instance "both users may call Shutdown" (it contains the one-sided runs: a user who may call need not),
   and the refutation of "Shutdown returned nil => everything was delivered" once the transport may fail. *)
From Coq Require Import ZArith Bool List Lia PArith FMapPositive.
From Sctp Require Import Gen Shutdown ShutdownProofs.
Import ListNotations.
Open Scope Z_scope.

Lemma sd_checks_crossed : sd_all_checks sd_cfg_crossed 9009 = true.
Proof. vm_compute. reflexivity. Qed.

Lemma sd_size_crossed : Z.of_nat (sd_set_size sd_cfg_crossed) = 9009.
Proof. exact (sd_all_checks_size _ _ sd_checks_crossed). Qed.

Lemma sd_crossed : forall s, sd_reach sd_cfg_crossed s ->
  sd_sys_safe s = true /\ sd_sys_inv s = true /\ (sd_started s = true -> sd_eventually_closed s).
Proof. exact (sd_all_checks_sound _ _ sd_checks_crossed). Qed.

(* ---------------------------------------------------------------- transport failure: the clause is refuted *)

Fixpoint sd_run_labels (c : sd_cfg) (s : sd_sys) (ls : list sd_label) : option sd_sys :=
  match ls with
  | [] => Some s
  | l :: r => match sd_sys_step c s l with Some s' => sd_run_labels c s' r | None => None end
  end.

(* A writes one message (one chunk, sent at once), calls Shutdown; the DATA is lost; A's transport fails *)
Definition sd_d18_schedule : list sd_label :=
  [SdL false (SdEvWrite 1) 1 false; SdL false SdEvShutdownCall 0 false; SdLoseAll; SdL false SdEvTransportDown 0 false].

Lemma sd_run_labels_reach c : forall ls s s',
  sd_reach c s ->
  sd_run_labels c s ls = Some s' ->
  (forall s1 l s2, sd_sys_step c s1 l = Some s2 -> In l (sd_labels c s1) -> In s2 (sd_succs c s1)) ->
  (forall pre l post, ls = pre ++ l :: post -> forall s1, sd_run_labels c s pre = Some s1 -> In l (sd_labels c s1)) ->
  sd_reach c s'.
Proof.
  induction ls as [|l r IH]; intros s s' Hs Hr Hsucc Hlab; cbn [sd_run_labels] in Hr.
  - inversion Hr; subst. exact Hs.
  - destruct (sd_sys_step c s l) as [s1|] eqn:E; [|discriminate].
    assert (In l (sd_labels c s)) as Hl by (apply (Hlab [] l r eq_refl s); reflexivity).
    apply (IH s1 s'); auto.
    + exact (sd_reach_step _ _ _ s s1 Hs (Hsucc _ _ _ E Hl)).
    + intros pre l0 post Heq s2 Hrun. apply (Hlab (l :: pre) l0 post); [rewrite Heq; reflexivity|].
      cbn [sd_run_labels]. rewrite E. exact Hrun.
Qed.

Lemma sd_step_in_succs c s1 l s2 : sd_sys_step c s1 l = Some s2 -> In l (sd_labels c s1) -> In s2 (sd_succs c s1).
Proof.
  intros E Hl. unfold sd_succs.
  assert (G : forall (ls : list sd_label), In l ls -> In s2 (sd_filter_some (map (sd_sys_step c s1) ls))).
  { induction ls as [|x r IH]; intros H; [destruct H|]. cbn [map sd_filter_some]. destruct H as [H|H].
    - subst x. rewrite E. left. reflexivity.
    - destruct (sd_sys_step c s1 x); [right|]; exact (IH H). }
  exact (G _ Hl).
Qed.

Definition sd_d18_state : sd_sys :=
  mkSdSys (mkSdEp c_closed false false false false false 0 1 sd_ackIdle SdRetNil true) (sd_ep0 0) sd_net_empty sd_net_empty.

Lemma sd_d18_run : sd_run_labels sd_cfg_failing (sd_init 0 0) sd_d18_schedule = Some sd_d18_state.
Proof. vm_compute. reflexivity. Qed.

(* with a transport that may fail, a state is reachable in which Shutdown has returned nil on A although the one message
   written before the call is still in A's in-flight queue and B's endpoint never handled a packet *)
Lemma sd_nil_without_delivery_reachable :
  sd_reach sd_cfg_failing sd_d18_state /\
  sd_ret (sd_a sd_d18_state) = SdRetNil /\ sd_infl (sd_a sd_d18_state) = 1 /\ sd_b sd_d18_state = sd_ep0 0 /\
  sd_sys_safe sd_d18_state = false.
Proof.
  split; [|vm_compute; repeat split; reflexivity].
  apply (sd_run_labels_reach sd_cfg_failing sd_d18_schedule (sd_init 0 0)).
  - apply sd_reach_init. vm_compute. left. reflexivity.
  - exact sd_d18_run.
  - exact (sd_step_in_succs sd_cfg_failing).
  - intros pre l post Heq s1 Hrun. unfold sd_d18_schedule in Heq.
    destruct pre as [|p0 pre]; [inversion Heq; subst; inversion Hrun; subst; vm_compute; tauto|].
    destruct pre as [|p1 pre]; [inversion Heq; subst; vm_compute in Hrun; inversion Hrun; subst; vm_compute; tauto|].
    destruct pre as [|p2 pre]; [inversion Heq; subst; vm_compute in Hrun; inversion Hrun; subst; vm_compute; tauto|].
    destruct pre as [|p3 pre]; [inversion Heq; subst; vm_compute in Hrun; inversion Hrun; subst; vm_compute; tauto|].
    exfalso. inversion Heq. destruct pre; discriminate.
Qed.
