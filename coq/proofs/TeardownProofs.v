(* Teardown (C09): generic lemmas.
   - injectivity of the state key td_enc
   - the closure lemma (a set closed under the step relation that contains the initial state contains every
     reachable state; induction on runs) and its instance for the certificate checker td_closed
   - soundness of the rank certificate (from every reachable state a finished state is reachable)
   - soundness of td_check_family / td_check_family_safe
   The per-family computations are in TeardownHsProofs / TeardownEstProofs / TeardownSdProofs / TeardownXProofs. *)
From Coq Require Import Bool List Arith PArith Lia FSets.FSetPositive FSets.FMapPositive.
From Sctp Require Import Gen Teardown.
Import ListNotations.

(* ---------------------------------------------------------------- runs *)

Inductive td_reach (c : td_cfg) : td_state -> Prop :=
| td_reach_init : td_reach c (td_init c)
| td_reach_step : forall s t, td_reach c s -> In t (td_step c s) -> td_reach c t.

Inductive td_star (c : td_cfg) : td_state -> td_state -> Prop :=
| td_star_refl : forall s, td_star c s s
| td_star_step : forall s t u, In t (td_step c s) -> td_star c t u -> td_star c s u.

(* a finished state can be reached *)
Definition td_can_finish (c : td_cfg) (s : td_state) : Prop := exists t, td_star c s t /\ td_done t = true.

Definition td_closed_under_step (c : td_cfg) (P : td_state -> Prop) : Prop :=
  forall s t, P s -> In t (td_step c s) -> P t.

(* the closure lemma, proved once *)
Lemma td_closure : forall c (P : td_state -> Prop),
  P (td_init c) -> td_closed_under_step c P -> forall s, td_reach c s -> P s.
Proof.
  intros c P Hinit Hcl s Hr. induction Hr as [|s t Hr IH Hin].
  - exact Hinit.
  - exact (Hcl s t IH Hin).
Qed.

Lemma td_reach_star : forall c s t, td_reach c s -> td_star c s t -> td_reach c t.
Proof.
  intros c s t Hr Hs. induction Hs as [|s t u Hin Hs IH]; [exact Hr|].
  apply IH. exact (td_reach_step c s t Hr Hin).
Qed.

(* ---------------------------------------------------------------- key injectivity *)

Ltac td_enc_inj_tac :=
  let x := fresh "x" in let y := fresh "y" in let p := fresh "p" in let q := fresh "q" in let H := fresh "H" in
  intros x y p q H; destruct x, y; cbn in H;
  first [discriminate H | (split; [reflexivity | congruence])].

Lemma td_bool_enc_inj : forall x y p q, td_bool_enc x p = td_bool_enc y q -> x = y /\ p = q.
Proof. td_enc_inj_tac. Qed.
Lemma td_ast_enc_inj : forall x y p q, td_ast_enc x p = td_ast_enc y q -> x = y /\ p = q.
Proof. td_enc_inj_tac. Qed.
Lemma td_err_enc_inj : forall x y p q, td_err_enc x p = td_err_enc y q -> x = y /\ p = q.
Proof. td_enc_inj_tac. Qed.
Lemma td_rlpc_enc_inj : forall x y p q, td_rlpc_enc x p = td_rlpc_enc y q -> x = y /\ p = q.
Proof. td_enc_inj_tac. Qed.
Lemma td_wlpc_enc_inj : forall x y p q, td_wlpc_enc x p = td_wlpc_enc y q -> x = y /\ p = q.
Proof. td_enc_inj_tac. Qed.
Lemma td_tfpc_enc_inj : forall x y p q, td_tfpc_enc x p = td_tfpc_enc y q -> x = y /\ p = q.
Proof. td_enc_inj_tac. Qed.
Lemma td_cwpc_enc_inj : forall x y p q, td_cwpc_enc x p = td_cwpc_enc y q -> x = y /\ p = q.
Proof. td_enc_inj_tac. Qed.
Lemma td_rdpc_enc_inj : forall x y p q, td_rdpc_enc x p = td_rdpc_enc y q -> x = y /\ p = q.
Proof. td_enc_inj_tac. Qed.
Lemma td_wrpc_enc_inj : forall x y p q, td_wrpc_enc x p = td_wrpc_enc y q -> x = y /\ p = q.
Proof. td_enc_inj_tac. Qed.
Lemma td_acpc_enc_inj : forall x y p q, td_acpc_enc x p = td_acpc_enc y q -> x = y /\ p = q.
Proof. td_enc_inj_tac. Qed.
Lemma td_shpc_enc_inj : forall x y p q, td_shpc_enc x p = td_shpc_enc y q -> x = y /\ p = q.
Proof. td_enc_inj_tac. Qed.
Lemma td_ccpc_enc_inj : forall x y p q, td_ccpc_enc x p = td_ccpc_enc y q -> x = y /\ p = q.
Proof. td_enc_inj_tac. Qed.
Lemma td_abpc_enc_inj : forall x y p q, td_abpc_enc x p = td_abpc_enc y q -> x = y /\ p = q.
Proof. td_enc_inj_tac. Qed.
Lemma td_cnt_enc_inj : forall x y p q, td_cnt_enc x p = td_cnt_enc y q -> x = y /\ p = q.
Proof. td_enc_inj_tac. Qed.
Lemma td_dlpc_enc_inj : forall x y p q, td_dlpc_enc x p = td_dlpc_enc y q -> x = y /\ p = q.
Proof. td_enc_inj_tac. Qed.

Lemma td_enc_inj : forall s t, td_enc s = td_enc t -> s = t.
Proof.
  intros s t H. unfold td_enc in H.
  apply td_rlpc_enc_inj in H; destruct H as [E0 H].
  apply td_wlpc_enc_inj in H; destruct H as [E1 H].
  apply td_bool_enc_inj in H; destruct H as [E2 H].
  apply td_tfpc_enc_inj in H; destruct H as [E3 H].
  apply td_cwpc_enc_inj in H; destruct H as [E4 H].
  apply td_rdpc_enc_inj in H; destruct H as [E5 H].
  apply td_wrpc_enc_inj in H; destruct H as [E6 H].
  apply td_acpc_enc_inj in H; destruct H as [E7 H].
  apply td_shpc_enc_inj in H; destruct H as [E8 H].
  apply td_ccpc_enc_inj in H; destruct H as [E9 H].
  apply td_ccpc_enc_inj in H; destruct H as [E10 H].
  apply td_abpc_enc_inj in H; destruct H as [E11 H].
  apply td_dlpc_enc_inj in H; destruct H as [E12 H].
  apply td_ast_enc_inj in H; destruct H as [E13 H].
  apply td_err_enc_inj in H; destruct H as [E14 H].
  apply td_err_enc_inj in H; destruct H as [E15 H].
  apply td_err_enc_inj in H; destruct H as [E16 H].
  apply td_cnt_enc_inj in H; destruct H as [E17 H].
  apply td_bool_enc_inj in H; destruct H as [E18 H].
  apply td_bool_enc_inj in H; destruct H as [E19 H].
  apply td_bool_enc_inj in H; destruct H as [E20 H].
  apply td_bool_enc_inj in H; destruct H as [E21 H].
  apply td_bool_enc_inj in H; destruct H as [E22 H].
  apply td_bool_enc_inj in H; destruct H as [E23 H].
  apply td_bool_enc_inj in H; destruct H as [E24 H].
  apply td_bool_enc_inj in H; destruct H as [E25 H].
  apply td_bool_enc_inj in H; destruct H as [E26 H].
  apply td_bool_enc_inj in H; destruct H as [E27 H].
  apply td_bool_enc_inj in H; destruct H as [E28 H].
  apply td_bool_enc_inj in H; destruct H as [E29 H].
  apply td_bool_enc_inj in H; destruct H as [E30 H].
  apply td_bool_enc_inj in H; destruct H as [E31 H].
  apply td_bool_enc_inj in H; destruct H as [E32 H].
  apply td_bool_enc_inj in H; destruct H as [E33 H].
  apply td_bool_enc_inj in H; destruct H as [E34 H].
  apply td_bool_enc_inj in H; destruct H as [E35 H].
  clear H. destruct s, t. simpl in *. subst. reflexivity.
Qed.

(* ---------------------------------------------------------------- the set of keys *)

Lemma td_keyset_acc : forall (ns : list td_node) (acc : PositiveSet.t) k,
  PositiveSet.mem k (fold_left (fun a (n : td_node) => PositiveSet.add (snd (fst n)) a) ns acc) = true ->
  PositiveSet.mem k acc = true \/ exists n, In n ns /\ snd (fst n) = k.
Proof.
  induction ns as [|n ns IH]; intros acc k H; cbn [fold_left] in H.
  - left. exact H.
  - destruct (IH _ _ H) as [Hm | [n' [Hin Hk]]].
    + apply PositiveSet.mem_2 in Hm. apply PositiveSet.add_spec in Hm. destruct Hm as [Heq | Hm].
      * right. exists n. split; [left; reflexivity | exact Heq].
      * left. apply PositiveSet.mem_1. exact Hm.
    + right. exists n'. split; [right; exact Hin | exact Hk].
Qed.

Lemma td_keyset_spec : forall ns k,
  PositiveSet.mem k (td_keyset ns) = true -> exists n, In n ns /\ snd (fst n) = k.
Proof.
  intros ns k H. unfold td_keyset in H. destruct (td_keyset_acc _ _ _ H) as [Hm | Hex]; [|exact Hex].
  rewrite PositiveSet.mem_Leaf in Hm. discriminate Hm.
Qed.

Lemma td_nodes_acc : forall c l acc n,
  In n (fold_left (fun a s => td_node_of c s :: a) l acc) <-> In n acc \/ exists s, In s l /\ n = td_node_of c s.
Proof.
  induction l as [|s l IH]; intros acc n; cbn [fold_left].
  - split; [intro H; left; exact H | intros [H | [s [[] _]]]; exact H].
  - rewrite IH. split.
    + intros [[Heq | Hin] | [s' [Hin Heq]]].
      * right. exists s. split; [left; reflexivity | symmetry; exact Heq].
      * left. exact Hin.
      * right. exists s'. split; [right; exact Hin | exact Heq].
    + intros [Hin | [s' [[Heq | Hin] Hn]]].
      * left. right. exact Hin.
      * subst s'. left. left. symmetry. exact Hn.
      * right. exists s'. split; assumption.
Qed.

Lemma td_nodes_spec : forall c l n, In n (td_nodes c l) <-> exists s, In s l /\ n = td_node_of c s.
Proof.
  intros c l n. unfold td_nodes. rewrite td_nodes_acc. split.
  - intros [[] | H]; exact H.
  - intro H. right. exact H.
Qed.

(* ---------------------------------------------------------------- closure certificate *)

Lemma td_closed_sound : forall c l, td_closed c (td_nodes c l) = true -> forall s, td_reach c s -> In s l.
Proof.
  intros c l H. unfold td_closed in H. apply andb_true_iff in H. destruct H as [Hinit Hall].
  assert (Hmem : forall t, PositiveSet.mem (td_enc t) (td_keyset (td_nodes c l)) = true -> In t l).
  { intros t Hm. destruct (td_keyset_spec _ _ Hm) as [n [Hin Hk]].
    apply td_nodes_spec in Hin. destruct Hin as [s [Hs Hn]]. subst n. cbn in Hk.
    apply td_enc_inj in Hk. subst t. exact Hs. }
  apply td_closure.
  - apply Hmem. exact Hinit.
  - intros s t Hs Hin. apply Hmem.
    rewrite forallb_forall in Hall.
    assert (Hn : In (td_node_of c s) (td_nodes c l)) by (apply td_nodes_spec; exists s; split; [exact Hs | reflexivity]).
    specialize (Hall _ Hn). cbn in Hall. rewrite forallb_forall in Hall.
    apply Hall. apply in_map. exact Hin.
Qed.

(* ---------------------------------------------------------------- rank certificate *)

Lemma td_rank_sound : forall c l rk,
  (forall s, td_reach c s -> In s l) ->
  forallb (td_rank_ok rk) (td_nodes c l) = true ->
  forall n s, td_reach c s -> (exists m, PositiveMap.find (td_enc s) rk = Some m /\ m <= n) -> td_can_finish c s.
Proof.
  intros c l rk Hcl Hall. rewrite forallb_forall in Hall.
  induction n as [|n IH]; intros s Hr [m [Hf Hle]].
  - assert (m = 0) by lia. subst m.
    assert (Hn : In (td_node_of c s) (td_nodes c l)) by (apply td_nodes_spec; exists s; split; [apply Hcl; exact Hr | reflexivity]).
    specialize (Hall _ Hn). unfold td_rank_ok in Hall. cbn [td_node_of fst snd] in Hall. rewrite Hf in Hall.
    exists s. split; [apply td_star_refl | exact Hall].
  - destruct m as [|m].
    + apply IH; [exact Hr | exists 0; split; [exact Hf | lia]].
    + assert (Hn : In (td_node_of c s) (td_nodes c l)) by (apply td_nodes_spec; exists s; split; [apply Hcl; exact Hr | reflexivity]).
      specialize (Hall _ Hn). unfold td_rank_ok in Hall. cbn [td_node_of fst snd] in Hall. rewrite Hf in Hall.
      apply existsb_exists in Hall. destruct Hall as [k [Hk Hj]].
      apply in_map_iff in Hk. destruct Hk as [t [Hkt Hin]]. subst k.
      destruct (PositiveMap.find (td_enc t) rk) as [j|] eqn:Hft; [|discriminate Hj].
      apply Nat.leb_le in Hj.
      assert (Hrt : td_reach c t) by exact (td_reach_step c s t Hr Hin).
      destruct (IH t Hrt) as [u [Hstar Hdone]]; [exists j; split; [exact Hft | lia]|].
      exists u. split; [exact (td_star_step c s t u Hin Hstar) | exact Hdone].
Qed.

(* ---------------------------------------------------------------- family checks *)

Lemma td_check_family_sound : forall c, td_check_family c = true ->
  (forall s, td_reach c s -> td_chk_state c s = true) /\
  (forall s, td_reach c s -> td_can_finish c s).
Proof.
  intros c H. unfold td_check_family in H. destruct (td_reach_list c) as [l|]; [|discriminate H].
  cbv zeta in H. apply andb_true_iff in H. destruct H as [H Hrk]. apply andb_true_iff in H. destruct H as [Hcl Hst].
  pose proof (td_closed_sound c l Hcl) as Hin. split.
  - intros s Hr. rewrite forallb_forall in Hst. apply Hst. apply Hin. exact Hr.
  - intros s Hr.
    assert (Hn : In (td_node_of c s) (td_nodes c l)) by (apply td_nodes_spec; exists s; split; [apply Hin; exact Hr | reflexivity]).
    pose proof Hrk as Hrk'. rewrite forallb_forall in Hrk'. specialize (Hrk' _ Hn).
    unfold td_rank_ok in Hrk'. cbn [td_node_of fst snd] in Hrk'.
    destruct (PositiveMap.find (td_enc s) (td_ranks (td_nodes c l))) as [m|] eqn:Hf; [|discriminate Hrk'].
    apply (td_rank_sound c l _ Hin Hrk m s Hr). exists m. split; [exact Hf | lia].
Qed.

Lemma td_check_family_safe_sound : forall c chk, td_check_family_safe c chk = true ->
  forall s, td_reach c s -> chk s = true.
Proof.
  intros c chk H. unfold td_check_family_safe in H. destruct (td_reach_list c) as [l|]; [|discriminate H].
  apply andb_true_iff in H. destruct H as [Hcl Hst].
  intros s Hr. rewrite forallb_forall in Hst. apply Hst. apply (td_closed_sound c l Hcl). exact Hr.
Qed.

Lemma td_forallb_family : forall (fams : list td_cfg) (f : td_cfg -> bool) c,
  forallb f fams = true -> In c fams -> f c = true.
Proof. intros fams f c H Hin. rewrite forallb_forall in H. apply H. exact Hin. Qed.

(* the per-state check, clause by clause *)
Lemma td_chk_state_split : forall c s, td_chk_state c s = true ->
  td_chk_dead c s = true /\ td_chk_wac s = true /\ td_chk_chan s = true /\ td_chk_abort s = true /\
  td_chk_close2 s = true /\ td_chk_shut s = true.
Proof.
  intros c s H. unfold td_chk_state in H. do 5 (apply andb_true_iff in H; destruct H as [H ?]).
  repeat split; assumption.
Qed.

(* ---------------------------------------------------------------- witnesses: following a path of step indices *)

Fixpoint td_follow (c : td_cfg) (s : td_state) (path : list nat) : option td_state :=
  match path with
  | [] => Some s
  | i :: p => match nth_error (td_step c s) i with Some t => td_follow c t p | None => None end
  end.

Lemma td_follow_star : forall c path s t, td_follow c s path = Some t -> td_star c s t.
Proof.
  induction path as [|i p IH]; intros s t H; cbn [td_follow] in H.
  - injection H as <-. apply td_star_refl.
  - destruct (nth_error (td_step c s) i) as [u|] eqn:Hn; [|discriminate H].
    apply (td_star_step c s u t); [exact (nth_error_In _ _ Hn) | exact (IH _ _ H)].
Qed.

Lemma td_follow_reach : forall c path t, td_follow c (td_init c) path = Some t -> td_reach c t.
Proof.
  intros c path t H. apply (td_reach_star c (td_init c) t); [apply td_reach_init | exact (td_follow_star _ _ _ _ H)].
Qed.

(* the final outcomes the comparator uses cover every reachable final state *)
Lemma td_final_outcomes_acc : forall c l acc o,
  In o acc \/ (exists s, In s l /\ td_final c s = true /\ o = td_outcome_of s) ->
  In o (fold_left (fun a s => if td_final c s then td_outcome_of s :: a else a) l acc).
Proof.
  induction l as [|s l IH]; intros acc o H; cbn [fold_left].
  - destruct H as [H | [s [[] _]]]. exact H.
  - apply IH. destruct H as [H | [s' [[Heq | Hin] [Hf Ho]]]].
    + left. destruct (td_final c s); [right|]; exact H.
    + subst s'. left. rewrite Hf. left. symmetry. exact Ho.
    + right. exists s'. auto.
Qed.

Lemma td_final_outcomes_complete : forall c, td_check_family_safe c (fun _ => true) = true ->
  forall s, td_reach c s -> td_final c s = true -> In (td_outcome_of s) (td_final_outcomes c).
Proof.
  intros c H s Hr Hf. unfold td_check_family_safe in H. unfold td_final_outcomes.
  destruct (td_reach_list c) as [l|]; [|discriminate H].
  apply andb_true_iff in H. destruct H as [Hcl _].
  apply td_final_outcomes_acc. right. exists s. split; [exact (td_closed_sound c l Hcl s Hr) | auto].
Qed.
