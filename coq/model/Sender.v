(* Executable model of the sender's acknowledgement / window / byte-accounting path of
   association.go: handleSack -> processAcknowledgement -> processSelectiveAck,
   onCumulativeTSNAckPointAdvanced, processFastRetransmission, the admission test of
   popPendingDataChunksToSend (cwnd / rwnd / zero-window probe), the T3 expiry branch of
   onRetransmissionTimeout, and Stream.onBufferReleased / packetize byte accounting.
   No proofs in this file.

   Not modelled (they do not write the fields below): RTT/RTO update, RACK/PTO marking, the TLR burst
   gate (it can only stop a gather earlier), FORWARD-TSN bookkeeping, timers.  The model is a
   projection: every field here is compared with the implementation after every step. *)
From Coq Require Import ZArith Bool List.
From Sctp Require Import Gen.
Import ListNotations.
Open Scope Z_scope.

Record schunk := mkSC {
  sc_sid : Z;        (* stream identifier *)
  sc_len : Z;        (* len(userData): becomes 0 when gap-acked *)
  sc_acked : bool;
  sc_aband : bool;   (* abandoned() *)
  sc_miss : Z;       (* missIndicator *)
  sc_rtx : bool      (* retransmit flag *)
}.

Record sst := mkS {
  st_state : Z;            (* association state *)
  st_cum : Z;              (* cumulativeTSNAckPoint *)
  st_front : Z;            (* TSN of the first chunk of the in-flight queue (meaningful if non-empty) *)
  st_infl : list schunk;   (* in-flight queue, oldest first; chunk i has TSN front+i *)
  st_nbytes : Z;           (* inflightQueue.nBytes *)
  st_cwnd : Z;
  st_rwnd : Z;
  st_ssthresh : Z;
  st_pba : Z;              (* partialBytesAcked *)
  st_infr : bool;          (* inFastRecovery *)
  st_frexit : Z;           (* fastRecoverExitPoint *)
  st_rtxfast : bool;       (* willRetransmitFast *)
  st_mtu : Z;
  st_mincwnd : Z;
  st_castep : Z;           (* cwndCAStep *)
  st_pendn : Z;            (* pendingQueue.size() *)
  st_pendbytes : Z;        (* pendingQueue.getNumBytes() *)
  st_buffered : list (Z * Z) (* (stream id, Stream.bufferedAmount) for streams present in a.streams, sorted by id *)
}.

Definition set_cwnd (s : sst) (c : Z) : Z := if c <? st_mincwnd s then st_mincwnd s else c.

(* payloadQueue.get : offset from the front TSN as uint32, bounds-checked against the length *)
Definition infl_get (s : sst) (tsn : Z) : option schunk :=
  match st_infl s with
  | [] => None
  | _ =>
    let off := wrap32 (tsn - st_front s) in
    if off >=? Z.of_nat (length (st_infl s)) then None
    else nth_error (st_infl s) (Z.to_nat off)
  end.

Fixpoint add_bytes (l : list (Z * Z)) (sid n : Z) : list (Z * Z) :=
  match l with
  | [] => [(sid, n)]
  | (k, v) :: r => if k =? sid then (k, v + n) :: r else (k, v) :: add_bytes r sid n
  end.

Definition sum_bytes (l : list (Z * Z)) : Z := fold_left (fun a kv => a + snd kv) l 0.

(* validation part of processSelectiveAck: performed before any mutation *)
Definition sack_valid (s : sst) (cum : Z) (gaps : list (Z * Z)) : bool :=
  (if sna32LT (st_cum s) cum then
     match infl_get s (wrap32 (st_cum s + 1)), infl_get s cum with
     | Some _, Some _ => true
     | _, _ => false
     end
   else true) &&
  forallb (fun g : Z * Z =>
    let (gs, ge) := g in
    negb (gs =? 0) && (gs <=? ge) &&
    match infl_get s (wrap32 (cum + gs)) with
    | Some _ =>
        if wrap32 (cum + ge) =? wrap32 (cum + gs) then true
        else match infl_get s (wrap32 (cum + ge)) with Some _ => true | None => false end
    | None => false
    end) gaps.

(* pop loop: idx from cum+1 while idx <=s newcum; the head must carry TSN idx *)
Fixpoint pop_acked (fuel : nat) (s : sst) (idx newcum : Z) (acc : list (Z * Z)) : option (sst * list (Z * Z)) :=
  match fuel with
  | O => None
  | S f =>
    if negb (sna32LTE idx newcum) then Some (s, acc)
    else match st_infl s with
      | [] => None
      | c :: rest =>
        if negb (st_front s =? idx) then None
        else
          let acc' := if sc_acked c then acc else add_bytes acc (sc_sid c) (sc_len c) in
          let infr' := if st_infr s && (idx =? st_frexit s) then false else st_infr s in
          let s' := mkS (st_state s) (st_cum s) (wrap32 (st_front s + 1)) rest (st_nbytes s - sc_len c)
                        (st_cwnd s) (st_rwnd s) (st_ssthresh s) (st_pba s) infr' (st_frexit s) (st_rtxfast s)
                        (st_mtu s) (st_mincwnd s) (st_castep s) (st_pendn s) (st_pendbytes s) (st_buffered s) in
          pop_acked f s' (wrap32 (idx + 1)) newcum acc'
      end
  end.

Fixpoint upd_nth {A} (l : list A) (n : nat) (x : A) : list A :=
  match l, n with
  | [], _ => []
  | _ :: r, O => x :: r
  | a :: r, S m => a :: upd_nth r m x
  end.

(* mark one gap-acked TSN *)
Definition mark_one (s : sst) (tsn : Z) (acc : list (Z * Z)) (htna : Z) : option (sst * list (Z * Z) * Z) :=
  match infl_get s tsn with
  | None => None
  | Some c =>
    let off := Z.to_nat (wrap32 (tsn - st_front s)) in
    let htna' := if sna32LT htna tsn then tsn else htna in
    if sc_acked c then Some (s, acc, htna')
    else
      let c' := mkSC (sc_sid c) 0 true (sc_aband c) (sc_miss c) false in
      let s' := mkS (st_state s) (st_cum s) (st_front s) (upd_nth (st_infl s) off c') (st_nbytes s - sc_len c)
                    (st_cwnd s) (st_rwnd s) (st_ssthresh s) (st_pba s) (st_infr s) (st_frexit s) (st_rtxfast s)
                    (st_mtu s) (st_mincwnd s) (st_castep s) (st_pendn s) (st_pendbytes s) (st_buffered s) in
      Some (s', add_bytes acc (sc_sid c) (sc_len c), htna')
  end.

Fixpoint mark_range (n : nat) (s : sst) (cum i : Z) (acc : list (Z * Z)) (htna : Z)
  : option (sst * list (Z * Z) * Z) :=
  match n with
  | O => Some (s, acc, htna)
  | S m =>
    match mark_one s (wrap32 (cum + i)) acc htna with
    | None => None
    | Some (s', acc', h') => mark_range m s' cum (i + 1) acc' h'
    end
  end.

Fixpoint mark_gaps (gaps : list (Z * Z)) (s : sst) (cum : Z) (acc : list (Z * Z)) (htna : Z)
  : option (sst * list (Z * Z) * Z) :=
  match gaps with
  | [] => Some (s, acc, htna)
  | (gs, ge) :: r =>
    match mark_range (Z.to_nat (ge - gs + 1)) s cum gs acc htna with
    | None => None
    | Some (s', acc', h') => mark_gaps r s' cum acc' h'
    end
  end.

(* onCumulativeTSNAckPointAdvanced: congestion window growth *)
Definition cwnd_grow (s : sst) (total : Z) : sst :=
  if st_cwnd s <=? st_ssthresh s then
    if negb (st_infr s) && (0 <? st_pendn s) then
      mkS (st_state s) (st_cum s) (st_front s) (st_infl s) (st_nbytes s)
          (set_cwnd s (wrap32 (st_cwnd s + Z.min (wrap32 total) (st_cwnd s)))) (st_rwnd s) (st_ssthresh s) (st_pba s)
          (st_infr s) (st_frexit s) (st_rtxfast s) (st_mtu s) (st_mincwnd s) (st_castep s) (st_pendn s) (st_pendbytes s) (st_buffered s)
    else s
  else
    let pba := wrap32 (st_pba s + wrap32 total) in
    if (pba >=? st_cwnd s) && (0 <? st_pendn s) then
      mkS (st_state s) (st_cum s) (st_front s) (st_infl s) (st_nbytes s)
          (set_cwnd s (wrap32 (st_cwnd s + Z.max (st_mtu s) (st_castep s)))) (st_rwnd s) (st_ssthresh s)
          (wrap32 (pba - st_cwnd s))
          (st_infr s) (st_frexit s) (st_rtxfast s) (st_mtu s) (st_mincwnd s) (st_castep s) (st_pendn s) (st_pendbytes s) (st_buffered s)
    else
      mkS (st_state s) (st_cum s) (st_front s) (st_infl s) (st_nbytes s) (st_cwnd s) (st_rwnd s) (st_ssthresh s) pba
          (st_infr s) (st_frexit s) (st_rtxfast s) (st_mtu s) (st_mincwnd s) (st_castep s) (st_pendn s) (st_pendbytes s) (st_buffered s).

(* Stream.onBufferReleased for every stream still registered *)
Fixpoint release_one (l : list (Z * Z)) (sid n : Z) : list (Z * Z) :=
  match l with
  | [] => []
  | (k, v) :: r =>
    if k =? sid then (k, if (n <=? 0) then v else if v <? n then 0 else v - n) :: r
    else (k, v) :: release_one r sid n
  end.

Definition release_all (buf : list (Z * Z)) (acked : list (Z * Z)) : list (Z * Z) :=
  fold_left (fun b kv => release_one b (fst kv) (snd kv)) acked buf.

(* processFastRetransmission: miss indications and entry into fast recovery *)
Fixpoint fr_loop (fuel : nat) (s : sst) (tsn maxTSN htna : Z) : option sst :=
  match fuel with
  | O => None
  | S f =>
    if negb (sna32LT tsn maxTSN) then Some s
    else match infl_get s tsn with
      | None => None
      | Some c =>
        let s' :=
          if negb (sc_acked c) && negb (sc_aband c) && (sc_miss c <? 3) then
            let c' := mkSC (sc_sid c) (sc_len c) (sc_acked c) (sc_aband c) (sc_miss c + 1) (sc_rtx c) in
            let infl' := upd_nth (st_infl s) (Z.to_nat (wrap32 (tsn - st_front s))) c' in
            if (sc_miss c + 1 =? 3) && negb (st_infr s) then
              let ssth := Z.max (st_cwnd s / 2) (wrap32 (4 * st_mtu s)) in
              mkS (st_state s) (st_cum s) (st_front s) infl' (st_nbytes s) (set_cwnd s ssth) (st_rwnd s) ssth 0
                  true htna true (st_mtu s) (st_mincwnd s) (st_castep s) (st_pendn s) (st_pendbytes s) (st_buffered s)
            else
              mkS (st_state s) (st_cum s) (st_front s) infl' (st_nbytes s) (st_cwnd s) (st_rwnd s) (st_ssthresh s) (st_pba s)
                  (st_infr s) (st_frexit s) (st_rtxfast s) (st_mtu s) (st_mincwnd s) (st_castep s) (st_pendn s) (st_pendbytes s) (st_buffered s)
          else s in
        fr_loop f s' (wrap32 (tsn + 1)) maxTSN htna
      end
  end.

Definition last_gap_end (gaps : list (Z * Z)) : Z :=
  match rev gaps with [] => 0 | (_, e) :: _ => e end.

Definition fast_rtx (s : sst) (cum : Z) (gaps : list (Z * Z)) (htna : Z) (advanced : bool) : option sst :=
  let r :=
    if negb (st_infr s) || (st_infr s && advanced) then
      let maxTSN := if negb (st_infr s) then htna else wrap32 (cum + (if (0 <? Z.of_nat (length gaps)) then last_gap_end gaps else 0)) in
      fr_loop (S (length (st_infl s))) s (wrap32 (cum + 1)) maxTSN htna
    else Some s in
  match r with
  | None => None
  | Some s1 =>
    if st_infr s1 && advanced then
      Some (mkS (st_state s1) (st_cum s1) (st_front s1) (st_infl s1) (st_nbytes s1) (st_cwnd s1) (st_rwnd s1) (st_ssthresh s1) (st_pba s1)
                (st_infr s1) (st_frexit s1) true (st_mtu s1) (st_mincwnd s1) (st_castep s1) (st_pendn s1) (st_pendbytes s1) (st_buffered s1))
    else Some s1
  end.

Inductive sres := SOk (s : sst) | SErr.

Definition state_accepts_sack (st : Z) : bool :=
  (st =? c_established) || (st =? c_shutdownPending) || (st =? c_shutdownReceived).

(* handleSack *)
Definition sack_step (s : sst) (cum arwnd : Z) (gaps : list (Z * Z)) : sres :=
  if negb (state_accepts_sack (st_state s)) then SOk s
  else if sna32GT (st_cum s) cum then SOk s
  else if negb (sack_valid s cum gaps) then SErr
  else
    match pop_acked (S (length (st_infl s))) s (wrap32 (st_cum s + 1)) cum [] with
    | None => SErr
    | Some (s1, acc1) =>
      match mark_gaps gaps s1 cum acc1 cum with
      | None => SErr
      | Some (s2, acc2, htna) =>
        let total := sum_bytes acc2 in
        let advanced := sna32LT (st_cum s) cum in
        let s3 :=
          if advanced then
            cwnd_grow (mkS (st_state s2) cum (st_front s2) (st_infl s2) (st_nbytes s2) (st_cwnd s2) (st_rwnd s2) (st_ssthresh s2)
                           (st_pba s2) (st_infr s2) (st_frexit s2) (st_rtxfast s2) (st_mtu s2) (st_mincwnd s2) (st_castep s2)
                           (st_pendn s2) (st_pendbytes s2) (st_buffered s2)) total
          else s2 in
        let buf := release_all (st_buffered s3) acc2 in
        let out := wrap32 (st_nbytes s3) in
        let rw := if out >=? arwnd then 0 else wrap32 (arwnd - out) in
        let s4 := mkS (st_state s3) (st_cum s3) (st_front s3) (st_infl s3) (st_nbytes s3) (st_cwnd s3) rw (st_ssthresh s3)
                      (st_pba s3) (st_infr s3) (st_frexit s3) (st_rtxfast s3) (st_mtu s3) (st_mincwnd s3) (st_castep s3)
                      (st_pendn s3) (st_pendbytes s3) buf in
        match fast_rtx s4 cum gaps htna advanced with
        | None => SErr
        | Some s5 => SOk s5
        end
      end
    end.

(* admission test of popPendingDataChunksToSend for one pending chunk of payload length n (> 0)
   and stream sid; [first] = no chunk was moved yet in this gather *)
Inductive admission := AdmitWindow | AdmitProbe | AdmitNo.

Definition admit_new (s : sst) (n : Z) (moved : bool) : admission :=
  if (wrap32 (wrap32 (st_nbytes s) + n) <=? st_cwnd s) && (n <=? st_rwnd s) then AdmitWindow
  else if negb moved && (Z.of_nat (length (st_infl s)) =? 0) then AdmitProbe
  else AdmitNo.

(* movePendingDataChunkToInflightQueue + the rwnd decrement: exact on the window path, saturating on the
   probe path (fix b8dfdc0: the probe consumes what is left of the peer's window) *)
Definition send_new (s : sst) (sid n : Z) (tsn : Z) (window : bool) : sst :=
  mkS (st_state s) (st_cum s) (match st_infl s with [] => tsn | _ => st_front s end)
      (st_infl s ++ [mkSC sid n false false 0 false]) (st_nbytes s + n)
      (st_cwnd s) (if window then wrap32 (st_rwnd s - n) else wrap32 (st_rwnd s - min32 (st_rwnd s) n)) (st_ssthresh s) (st_pba s) (st_infr s) (st_frexit s)
      (st_rtxfast s) (st_mtu s) (st_mincwnd s) (st_castep s) (st_pendn s - 1) (st_pendbytes s - n) (st_buffered s).

(* a gather that moves the listed (sid, len) chunks in order; every move must be admitted.
   Returns None if the implementation moved a chunk the admission rule forbids. *)
Fixpoint gather_new (s : sst) (chunks : list (Z * Z)) (tsn : Z) (moved : bool) : option sst :=
  match chunks with
  | [] => Some s
  | (sid, n) :: r =>
    match admit_new s n moved with
    | AdmitWindow => gather_new (send_new s sid n tsn true) r (wrap32 (tsn + 1)) true
    | AdmitProbe => match r with [] => Some (send_new s sid n tsn false) | _ => None end
    | AdmitNo => None
    end
  end.

(* T3 branch of onRetransmissionTimeout + markAllToRetrasmit *)
Definition t3_step (s : sst) : sst :=
  let ssth := Z.max (st_cwnd s / 2) (wrap32 (4 * st_mtu s)) in
  mkS (st_state s) (st_cum s) (st_front s)
      (map (fun c => if sc_acked c || sc_aband c then c
                     else mkSC (sc_sid c) (sc_len c) (sc_acked c) (sc_aband c) (sc_miss c) true) (st_infl s))
      (st_nbytes s) (set_cwnd s (st_mtu s)) (st_rwnd s) ssth
      (if st_infr s then 0 else st_pba s) false (if st_infr s then 0 else st_frexit s)
      (if st_infr s then false else st_rtxfast s)
      (st_mtu s) (st_mincwnd s) (st_castep s) (st_pendn s) (st_pendbytes s) (st_buffered s).

(* onRackLossLocked (fix for finding D26): the congestion response to a loss detected by RACK (during SACK
   processing or by the RACK timer) is the one of the third miss indication - enter fast recovery, once per
   window of data.  The recovery exit point is the highest TSN sent (myNextTSN - 1 = front + length - 1). *)
Definition rack_cut (s : sst) : sst :=
  if st_infr s then s
  else
    let ssth := Z.max (st_cwnd s / 2) (wrap32 (4 * st_mtu s)) in
    mkS (st_state s) (st_cum s) (st_front s) (st_infl s) (st_nbytes s) (set_cwnd s ssth) (st_rwnd s) ssth 0
        true (wrap32 (st_front s + Z.of_nat (length (st_infl s)) - 1)) (st_rtxfast s)
        (st_mtu s) (st_mincwnd s) (st_castep s) (st_pendn s) (st_pendbytes s) (st_buffered s).

(* accepted write: the fragments of one message are pushed to the pending queue and the stream's
   buffered amount grows by the message length (Stream.packetize + sendPayloadData) *)
Definition write_step (s : sst) (sid : Z) (frags : list Z) : sst :=
  let n := fold_left Z.add frags 0 in
  mkS (st_state s) (st_cum s) (st_front s) (st_infl s) (st_nbytes s) (st_cwnd s) (st_rwnd s) (st_ssthresh s) (st_pba s)
      (st_infr s) (st_frexit s) (st_rtxfast s) (st_mtu s) (st_mincwnd s) (st_castep s)
      (st_pendn s + Z.of_nat (length frags)) (st_pendbytes s + n) (add_bytes (st_buffered s) sid n).

(* initial congestion window (createAssociationFromConfigWithTsn) *)
Definition init_cwnd (mtu mincwnd : Z) : Z :=
  let c := min32 (wrap32 (4 * mtu)) (max32 (wrap32 (2 * mtu)) 4380) in
  if c <? mincwnd then mincwnd else c.

(* ---------- retransmission selection after T3 (getDataPacketsToRetransmit) ----------
   Walks the in-flight queue from cumulativeTSNAckPoint+1; picks chunks whose retransmit flag is set while
   they fit min(cwnd, rwnd); the very first chunk of the queue may always go as a zero-window probe.
   [mtu_ok n] and the burst-budget gate are parameters: they can only end the walk. *)
Fixpoint rtx_walk (chunks : list schunk) (i : Z) (bytes awnd rwnd : Z) (gate : Z -> bool) : list Z :=
  match chunks with
  | [] => []
  | c :: r =>
    if negb (sc_rtx c) then rtx_walk r (i + 1) bytes awnd rwnd gate
    else if sc_aband c then rtx_walk r (i + 1) bytes awnd rwnd gate   (* fix 3b069d1: abandoned chunks are skipped *)
    else if (if (i =? 0) && (rwnd <? sc_len c) then false else (bytes + sc_len c >? awnd)) then []
    else if negb (gate (sc_len c)) then []
    else i :: rtx_walk r (i + 1) (bytes + sc_len c) awnd rwnd gate
  end.

Definition rtx_select (s : sst) (gate : Z -> bool) : list Z :=
  rtx_walk (st_infl s) 0 0 (min32 (st_cwnd s) (st_rwnd s)) (st_rwnd s) gate.
