(* replay of pendingQueue traces (go/inpkg/zz_verif_pq_test.go) on the extracted model coq/model/PQ.v.
   WFQ time values: the implementation prints float64 bit patterns; they are converted to exact
   rationals (Zarith Q) and compared with  model_scaled_value / wf_scale.
   mode "exact"  (dyadic weights): equality required, pop order must match exactly.
   mode "approx" (arbitrary weights): values must agree within 2^-40 relative; a different
   selection is tolerated (counted as rounding tie, the model then follows the implementation)
   only when the model's exact tags of the two candidates differ by at most 2^-40 relative. *)
module M = Model
open Zio

let q_of_bits (s : string) : Q.t option =
  let b = Z.of_string s in
  let sign = Z.testbit b 63 in
  let e = Z.to_int (Z.logand (Z.shift_right b 52) (Z.of_int 0x7ff)) in
  let m = Z.logand b (Z.pred (Z.shift_left Z.one 52)) in
  if e = 0x7ff then None
  else
    let v =
      if e = 0 then Q.make m (Z.shift_left Z.one 1074)
      else
        let m = Z.add m (Z.shift_left Z.one 52) in
        if e >= 1075 then Q.of_bigint (Z.shift_left m (e - 1075))
        else Q.make m (Z.shift_left Z.one (1075 - e)) in
    Some (if sign then Q.neg v else v)

let tol = Q.make Z.one (Z.shift_left Z.one 40)

let q_close (a : Q.t) (b : Q.t) : bool =
  let d = Q.abs (Q.sub a b) in
  let mx = Q.max (Q.abs a) (Q.abs b) in
  Q.leq d (Q.mul tol mx)

let ties = ref 0
let nops = Hashtbl.create 16
let count k = Hashtbl.replace nops k (1 + try Hashtbl.find nops k with Not_found -> 0)

let mk_chunk id sid u b e len : M.pchunk =
  { M.pc_id = cz id; M.pc_sid = cz sid; M.pc_unord = (u <> "0"); M.pc_b = (b <> "0");
    M.pc_e = (e <> "0"); M.pc_len = cz len }

let ids (l : M.pchunk list) = Printf.sprintf "%d%s" (List.length l) (String.concat "" (List.map (fun c -> " " ^ sz c.M.pc_id) l))

let res_str (r : M.pq_res) = match r with
  | M.PR_nil -> "-1" | M.PR_chunk c -> sz c.M.pc_id | M.PR_panic -> "panic"

(* model time value (scaled) -> rational *)
let qv (w : M.wfq) (v : M.z) : Q.t = Q.make (z_of_cz v) (z_of_cz w.M.wf_scale)

(* compare the dump of the implementation (token list after "dump") with the model state *)
let cmp_dump (exact : bool) (q : M.pq) (toks : string list) : (string * string) option =
  let head = Printf.sprintf "%s %s %s %s %s" (sz q.M.pq_nbytes) (sz q.M.pq_nchunks) (sz q.M.pq_nbytes) (sz q.M.pq_nchunks) (sbool q.M.pq_il) in
  match toks with
  | a :: b :: c :: d :: e :: kind :: rest ->
      let ihead = String.concat " " [a; b; c; d; e] in
      if ihead <> head then Some (head, ihead) else begin
        match q.M.pq_pol, kind with
        | M.PP_msg m, "M" ->
            let ms = Printf.sprintf "%s %s %s %s" (sbool m.M.mp_sel) (sbool m.M.mp_usel) (ids m.M.mp_uq) (ids m.M.mp_oq) in
            let is = String.concat " " rest in
            if ms <> is then Some ("M " ^ ms, "M " ^ is) else None
        | M.PP_rr r, "R" ->
            let ms = Printf.sprintf "%s %s %d%s %d%s" (sbool r.M.rr_sel) (sz r.M.rr_selsid)
                (List.length r.M.rr_order) (String.concat "" (List.map (fun s -> " " ^ sz s) r.M.rr_order))
                (List.length r.M.rr_qs)
                (String.concat "" (List.map (fun (s, l) -> " " ^ sz s ^ " " ^ ids l) r.M.rr_qs)) in
            let is = String.concat " " rest in
            if ms <> is then Some ("R " ^ ms, "R " ^ is) else None
        | M.PP_wfq w, "W" ->
            (* structural part as string with time values replaced by '#', values compared separately *)
            let mvals = ref [] and ivals = ref [] in
            let mstr =
              let b = Buffer.create 64 in
              Buffer.add_string b (Printf.sprintf "%s %s #" (sbool w.M.wf_sel) (sz w.M.wf_selsid));
              mvals := qv w w.M.wf_vt :: !mvals;
              Buffer.add_string b (Printf.sprintf " %d" (List.length w.M.wf_qs));
              List.iter (fun (s, l) ->
                Buffer.add_string b (Printf.sprintf " %s %d" (sz s) (List.length l));
                List.iter (fun (c, f) -> Buffer.add_string b (" " ^ sz c.M.pc_id ^ " #"); mvals := qv w f :: !mvals) l) w.M.wf_qs;
              Buffer.add_string b (Printf.sprintf " %d" (List.length w.M.wf_fin));
              List.iter (fun (s, f) -> Buffer.add_string b (" " ^ sz s ^ " #"); mvals := qv w f :: !mvals) w.M.wf_fin;
              let total = List.fold_left (fun a (_, l) -> a + List.length l) 0 w.M.wf_qs in
              Buffer.add_string b (Printf.sprintf " %d" total);
              Buffer.contents b in
            (* implementation: sel selsid vt n [sid cnt [id fin]..].. nfin [sid fin].. ncf *)
            let istr =
              let b = Buffer.create 64 in
              let r = ref rest in
              let next () = match !r with x :: t -> r := t; x | [] -> "<eof>" in
              let tv () = let x = next () in ivals := x :: !ivals; "#" in
              let sel = next () in let ss = next () in
              Buffer.add_string b (sel ^ " " ^ ss ^ " " ^ tv ());
              let n = next () in Buffer.add_string b (" " ^ n);
              for _ = 1 to (try int_of_string n with _ -> 0) do
                let s = next () in let cnt = next () in
                Buffer.add_string b (" " ^ s ^ " " ^ cnt);
                for _ = 1 to (try int_of_string cnt with _ -> 0) do
                  let id = next () in Buffer.add_string b (" " ^ id ^ " " ^ tv ())
                done
              done;
              let nf = next () in Buffer.add_string b (" " ^ nf);
              for _ = 1 to (try int_of_string nf with _ -> 0) do
                let s = next () in Buffer.add_string b (" " ^ s ^ " " ^ tv ())
              done;
              Buffer.add_string b (" " ^ next ());
              Buffer.contents b in
            if mstr <> istr then Some ("W " ^ mstr, "W " ^ istr)
            else begin
              let bad = ref None in
              List.iter2 (fun mv ib ->
                if !bad = None then
                  match q_of_bits ib with
                  | None -> bad := Some (Q.to_string mv, "non-finite bits " ^ ib)
                  | Some iv ->
                      let ok = if exact then Q.equal mv iv else q_close mv iv in
                      if not ok then bad := Some (Q.to_string mv, Q.to_string iv ^ " (bits " ^ ib ^ ")"))
                (List.rev !mvals) (List.rev !ivals);
              match !bad with
              | Some (m, i) -> Some ("W time value " ^ m, i)
              | None -> None
            end
        | _, _ ->
            let mk = (match q.M.pq_pol with M.PP_msg _ -> "M" | M.PP_rr _ -> "R" | M.PP_wfq _ -> "W") in
            Some ("policy " ^ mk, "policy " ^ kind)
      end
  | _ -> Some ("", "short dump line")

let run path =
  let cases = read_cases path in
  let ncase = ref 0 in
  List.iter (fun (name, lines) ->
    incr ncase;
    let q = ref (M.pq_new M.PS_none) in
    let exact = ref true in
    let stop = ref false in
    List.iteri (fun i toks ->
      if not !stop then begin
        incr records;
        let bad what m im = report name (i+1) what m im; stop := true in
        (match toks with x :: _ -> count x | [] -> ());
        match toks with
        | "new" :: kind :: mode :: _ :: ws ->
            exact := (mode = "exact");
            (* the Go weight map: last assignment to a key wins *)
            let tbl = Hashtbl.create 8 in
            let rec pairs = function a :: b :: t -> Hashtbl.replace tbl (int_of_string a) b; pairs t | _ -> () in
            pairs ws;
            let wl = List.sort compare (Hashtbl.fold (fun k v acc -> (k, v) :: acc) tbl []) in
            let wl = List.map (fun (k, v) -> (czi k, cz v)) wl in
            let sched = (match kind with
              | "none" -> M.PS_none | "rr" -> M.PS_rr
              | "wfq" -> M.PS_wfq wl | "default" -> M.PS_wfq []
              | _ -> M.PS_none) in
            q := M.pq_new sched
        | ["push"; id; sid; u; b; e; len] ->
            q := M.pq_push !q (mk_chunk id sid u b e len)
        | ["peek"; id] ->
            let before = !q in
            let (q', r) = M.pq_peek !q in
            q := q';
            let m = res_str r in
            if m <> id then begin
              (* tolerated only as a floating-point rounding tie of the WFQ selection *)
              let tolerated =
                (not !exact) &&
                (match before.M.pq_pol, r with
                 | M.PP_wfq w, M.PR_chunk mc when not w.M.wf_sel ->
                     let tag_of_id idz =
                       List.fold_left (fun acc (s, l) ->
                         match l with (c, f) :: _ when sz c.M.pc_id = idz -> Some (s, f) | _ -> acc) None w.M.wf_qs in
                     (match tag_of_id id, tag_of_id (sz mc.M.pc_id) with
                      | Some (si, fi), Some (_, fm) when q_close (qv w fi) (qv w fm) ->
                          q := { before with M.pq_pol = M.PP_wfq (M.wf_force_select w si fi) };
                          incr ties; true
                      | _ -> false)
                 | _ -> false) in
              if not tolerated then bad "peek" m id
            end
        | ["pop"; id; sid; u; b; e; len; err] ->
            let (q', ec) = M.pq_pop !q (mk_chunk id sid u b e len) in
            q := q';
            if sz ec <> err then bad ("pop " ^ id) (sz ec) err
        | ["setil"; b; err] ->
            let (q', ec) = M.pq_set_interleaving !q (b <> "0") in
            q := q';
            if sz ec <> err then bad ("setil " ^ b) (sz ec) err
        | ["drain"] ->
            (* same loop as the harness: peek; stop on nil; pop; stop on error *)
            let continue = ref true and fuel = ref 100000 in
            while !continue && !fuel > 0 do
              decr fuel;
              let (q1, r) = M.pq_peek !q in
              q := q1;
              (match r with
               | M.PR_chunk c ->
                   let (q2, ec) = M.pq_pop !q c in
                   q := q2;
                   if sz ec <> "0" then continue := false
               | _ -> continue := false)
            done
        | "dump" :: rest ->
            (match cmp_dump !exact !q rest with
             | Some (m, im) -> bad "state" m im
             | None -> ())
        | _ -> bad "unparsed line" "" (String.concat " " toks)
      end) lines) cases;
  let ops = String.concat " " (List.sort compare (Hashtbl.fold (fun k v acc -> Printf.sprintf "op_%s=%d" k v :: acc) nops [])) in
  Printf.printf "SUMMARY component=pq cases=%d records=%d mismatches=%d rounding_ties=%d %s\n" !ncase !records !mismatches !ties ops
