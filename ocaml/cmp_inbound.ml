module M = Model
open Zio
let run path =
  let cases = read_cases path in
  List.iter (fun (name, lines) ->
    List.iteri (fun i toks ->
      incr records;
      match toks with
      | ["ib"; st; cp; il; fwd; ifwd; kind; action] ->
        let c = { M.ib_state = cz st; M.ib_complete_pending = (cp = "1"); M.ib_use_il = (il = "1"); M.ib_use_fwd = (fwd = "1"); M.ib_use_ifwd = (ifwd = "1") } in
        let k = (match kind with "0" -> M.IbData | "1" -> M.IbIData | "2" -> M.IbFwd | "3" -> M.IbIFwd | _ -> M.IbSack) in
        let m = (match M.ib_dispatch c k with M.IbIgnore -> "ignore" | M.IbAbort -> "abort" | M.IbErrorReply -> "errorreply" | M.IbProcess -> "process") in
        if m <> action then report name (i+1) (String.concat " " toks) m action
      | _ -> report name (i+1) "unparsed" "" (String.concat " " toks)) lines) cases;
  Printf.printf "SUMMARY component=inbound cases=%d records=%d mismatches=%d\n" (List.length cases) !records !mismatches
