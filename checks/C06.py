"""C06 — unordered / partial reliability: whole written messages at most once, ordered subsequence, DCEP reliable and
ordered, retransmission stops when the policy (retransmission limit / lifetime) is exhausted."""
import vlib, simcommon

PROP = "C06"
PROPS_FILE = "props/C06.v"
COQ_FILES = ["gen/Gen.v", "proofs/SnaProofs.v", "model/RPQ.v", "model/RQ.v", "proofs/RQProofs.v", "props/RQSafety.v",
             "model/StreamW.v", "proofs/StreamWProofs.v", "model/PR.v", "proofs/PRProofs.v", "props/C06.v"]
TRUSTED_BASE = [
    "Coq 8.16.1 kernel; vm_compute only in Examples / refutation witnesses; no native_compute",
    "hand-written model coq/model/PR.v of association.go (checkPartialReliabilityStatus, movePendingDataChunkToInflightQueue, "
    "getDataPacketsToRetransmit, gatherOutboundFastRetransmissionPackets, RACK / PTO marking, markAllToRetrasmit, "
    "processSelectiveAck, C1-C3) and chunk_payload_data.go (abandoned / setAbandoned / setAllInflight); StreamW.v for the "
    "DCEP rule of Stream.packetize; RQ.v for the receiver-side clauses; translator for constants and serial arithmetic",
    "extraction (ExtrOcamlBasic) + ocaml/cmp_pr.ml; simulator harness go/inpkg/zz_verif_sim*_test.go (overlay, synctest, "
    "go1.26.8); the primitive steps of a harness event are read from the association's own trace-log calls through a "
    "recording logging.LeveledLogger installed on the association object (the log call sites are part of the tie)",
    "modelled as oracles with checked constraints: which chunks RACK / PTO mark, how many marked chunks the window and the "
    "burst budget let a gather retransmit, which chunks collected three miss indications; "
    "int64(time.Since(firstSent).Seconds()*1000) is modelled as integer division of the age in ns by 10^6 - the float64 "
    "expression is 1 smaller for some ages that are exact multiples of 1 ms (checked relation, counted in the SUMMARY)",
]
ASSUMPTIONS = [
    "c06_nsent_bound, c06_lifetime: loss recovery selects chunks only while no message of the stream is partly in flight "
    "(pr_run_whole); without it the statements are refuted in the model (c06_nsent_bound_refuted, c06_lifetime_refuted) and "
    "on the implementation: known finding D21",
    "since fix 3b069d1 (finding D30) a marked chunk whose message has been abandoned is not retransmitted: the gather clears "
    "its mark without a log line; which of these chunks a gather visited is read from the state after the event and "
    "constrained by the model step PrUnmark (marked chunk of an abandoned message only)",
    "retransmission limit 0 <= N < 2^32 - 1; the reliability policy of a stream does not change while its chunks are in flight",
    "receiver-side ordered-subsequence clause under the span hypothesis of RQSafety (SSNs held together within 2^15)",
]
LEVEL_TEXT = ("Coq theorems over all histories of sends, RACK/PTO/T3 markings, retransmissions, fast retransmissions and SACKs "
              "(arbitrary oracle choices within the constraints the code enforces): nSent <= max(N,1) <= N+1 under a "
              "retransmission limit (tight), at most one transmission at an age >= the lifetime, a late transmission abandons the "
              "message, DCEP chunks are never abandoned and DCEP is forced ordered by packetize, abandoned chunks are never "
              "selected by loss recovery nor retransmitted (fix 3b069d1); receiver side (cited from RQSafety): at most once, one B..E run of one message, ordered subsequence. "
              "The model is tied to the code by step-commuting records from simulated associations with partial-reliability "
              "streams: in-flight table (nSent, acked, retransmit, firstSent), message flags, both ack points and emitted "
              "FORWARD-TSN chunks are compared after every harness event, replayed from the exact primitive step list.")
LEVEL_NOTE = ("Trusted: Coq kernel, hand model PR.v, extraction, simulator + log-derived step lists. Wire monitors (transmissions "
              "per TSN against the stream's policy, delivered messages against the written ones) search for concrete failing "
              "histories; D21 (fragmented message partly in the pending queue) is a recorded known finding; D30 (abandoned chunk "
              "retransmitted) was found by a model refutation, replayed by a targeted scenario and is fixed.")
TECHNIQUE = "Coq proof (invariants over histories) + step-commuting correspondence on simulated associations + wire monitors"


def correspondence(ctx):
    vlib.differential(ctx, "pr-step-commuting", "TestVerifSimPRObs", "pr",
                      {"VERIF_N": ctx.scale(40, 600), "VERIF_EVENTS": 250}, timeout=3000)
    simcommon.sim_monitor(ctx, "sim-partial-reliability", "TestVerifSimPR",
                          {"VERIF_N": ctx.scale(60, 2000), "VERIF_EVENTS": 250}, "SIMPR")
    simcommon.sim_monitor(ctx, "pr-targeted-scenarios", "TestVerifScenPR", {}, "SCENPR")


def search(ctx):
    simcommon.sim_monitor(ctx, "sim-partial-reliability-wide", "TestVerifSimPR",
                          {"VERIF_N": 600, "VERIF_EVENTS": 300, "VERIF_SEED": ctx.seed + 17}, "SIMPR")
