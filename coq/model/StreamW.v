(* Executable model of the write side of stream.go: WriteSCTP (size check, state check, packetize,
   hand-over to the association, roll-back on failure) and packetize (fragmentation, SSN / MID
   assignment, flags, buffered amount).  No proofs in this file.  Prefix sw_. *)
From Coq Require Import ZArith Bool List.
From Sctp Require Import Gen.
Import ListNotations.
Open Scope Z_scope.

Definition sw_ppi_dcep : Z := 50.          (* PayloadTypeWebRTCDCEP *)
Definition sw_open : Z := 0.               (* StreamStateOpen *)

Record sw_stream := mkSW {
  sw_ssn : Z;        (* sequenceNumber, uint16 *)
  sw_omid : Z;       (* nextOrderedMID, uint32 *)
  sw_umid : Z;       (* nextUnorderedMID, uint32 *)
  sw_unordered : bool;
  sw_buffered : Z;   (* bufferedAmount *)
  sw_state : Z       (* StreamState *)
}.

(* one fragment as packetize builds it *)
Record sw_chunk := mkSWC {
  swc_unordered : bool;
  swc_b : bool; swc_e : bool;
  swc_ppi : Z;
  swc_ssn : Z;      (* streamSequenceNumber (uint16(mid) with interleaving) *)
  swc_mid : Z;
  swc_fsn : Z;
  swc_idata : bool;
  swc_off : Z; swc_len : Z    (* the fragment is payload[off, off+len) *)
}.

(* the fragmentation loop: remaining > 0, fragments of at most maxPayload bytes.
   fuel = number of iterations allowed (the loop runs ceil(n / maxPayload) times when maxPayload > 0;
   with maxPayload = 0 and n > 0 the Go loop would not terminate: the model returns None) *)
Fixpoint sw_frags (fuel : nat) (maxp : Z) (off remaining fsn : Z) (mk : Z -> Z -> Z -> bool -> bool -> sw_chunk)
  : option (list sw_chunk) :=
  if remaining =? 0 then Some [] else
  match fuel with
  | O => None
  | S f =>
    let fr := min32 maxp remaining in
    match sw_frags f maxp (wrap32 (off + fr)) (wrap32 (remaining - fr)) (wrap32 (fsn + 1)) mk with
    | None => None
    | Some r => Some (mk off fr fsn (off =? 0) (wrap32 (remaining - fr) =? 0) :: r)
    end
  end.

(* Stream.packetize *)
Definition sw_packetize (st : sw_stream) (n ppi : Z) (use_il : bool) (maxp : Z) : option (sw_stream * list sw_chunk * bool) :=
  let unordered := negb (ppi =? sw_ppi_dcep) && sw_unordered st in
  let mid := if use_il then (if unordered then sw_umid st else sw_omid st) else 0 in
  let st1 := if use_il then
               (if unordered then mkSW (sw_ssn st) (sw_omid st) (wrap32 (sw_umid st + 1)) (sw_unordered st) (sw_buffered st) (sw_state st)
                else mkSW (sw_ssn st) (wrap32 (sw_omid st + 1)) (sw_umid st) (sw_unordered st) (sw_buffered st) (sw_state st))
             else st in
  let ssn := if use_il then wrap16 mid else sw_ssn st in
  let mk := fun off len fsn b e => mkSWC unordered b e ppi ssn mid fsn use_il off len in
  match sw_frags (Z.to_nat (n + 1)) maxp 0 n 0 mk with
  | None => None
  | Some chunks =>
    let st2 := if negb use_il && negb unordered
               then mkSW (wrap16 (sw_ssn st1 + 1)) (sw_omid st1) (sw_umid st1) (sw_unordered st1) (sw_buffered st1) (sw_state st1)
               else st1 in
    Some (mkSW (sw_ssn st2) (sw_omid st2) (sw_umid st2) (sw_unordered st2) (sw_buffered st2 + n) (sw_state st2), chunks, unordered)
  end.

Inductive sw_result := SwOk (n : Z) | SwTooLarge | SwClosed | SwSendErr.

(* Stream.WriteSCTP; [send_ok] = whether association.sendPayloadData accepts the chunks
   (it refuses when the association is not established or the blocking-write wait was cancelled) *)
Definition sw_write (st : sw_stream) (n ppi : Z) (use_il : bool) (maxp maxmsg : Z) (send_ok : bool)
  : option (sw_stream * sw_result * list sw_chunk) :=
  if n >? maxmsg then Some (st, SwTooLarge, [])
  else if negb (sw_state st =? sw_open) then Some (st, SwClosed, [])
  else if n =? 0 then Some (st, SwOk 0, [])     (* fix e67ffff: an empty write returns early *)
  else
    match sw_packetize st n ppi use_il maxp with
    | None => None
    | Some (st1, chunks, unordered) =>
      if send_ok then Some (st1, SwOk n, chunks)
      else
        (* roll-back *)
        let st2 :=
          if use_il then
            (if unordered then mkSW (sw_ssn st1) (sw_omid st1) (wrap32 (sw_umid st1 - 1)) (sw_unordered st1) (sw_buffered st1 - n) (sw_state st1)
             else mkSW (sw_ssn st1) (wrap32 (sw_omid st1 - 1)) (sw_umid st1) (sw_unordered st1) (sw_buffered st1 - n) (sw_state st1))
          else if negb unordered then mkSW (wrap16 (sw_ssn st1 - 1)) (sw_omid st1) (sw_umid st1) (sw_unordered st1) (sw_buffered st1 - n) (sw_state st1)
          else mkSW (sw_ssn st1) (sw_omid st1) (sw_umid st1) (sw_unordered st1) (sw_buffered st1 - n) (sw_state st1) in
        Some (st2, SwSendErr, [])
    end.

(* ---------- blocking-write gate (association.sendPayloadData / popPendingDataChunksToSend /
   unblockPendingWrites) as a small state machine ---------- *)
Record sw_gate := mkGate {
  swg_established : bool;
  swg_write_pending : bool;   (* a.writePending *)
  swg_user_chunks : Z         (* user-data chunks sitting in the pending queue *)
}.

Inductive sw_gate_ev :=
| GWrite (k : Z)        (* a blocking write of k >= 1 chunks reaches sendPayloadData *)
| GGather (j : Z)       (* the writer moves j chunks out of the pending queue *)
| GUnblock.             (* shutdown / close: unblockPendingWrites and leave established *)

Inductive sw_gate_out := GAdmitted | GBlocked | GRejected | GNone.

Definition sw_gate_step (g : sw_gate) (e : sw_gate_ev) : sw_gate * sw_gate_out :=
  match e with
  | GWrite k =>
      if negb (swg_established g) then (g, GRejected)
      else if swg_write_pending g then (g, GBlocked)    (* waits on writeNotify; retried later *)
      else (mkGate true true (swg_user_chunks g + k), GAdmitted)
  | GGather j =>
      let j' := Z.min j (swg_user_chunks g) in
      let left := swg_user_chunks g - j' in
      (mkGate (swg_established g) (if (0 <? j') && (left =? 0) then false else swg_write_pending g) left, GNone)
  | GUnblock => (mkGate false false (swg_user_chunks g), GNone)
  end.

(* ---------- read side: Stream.ReadSCTP's loop over an abstract queue ---------- *)
Inductive sw_read_out := RMsg (n : Z) | RShort | RErr | RWait.

(* q_result: what reassemblyQueue.read returned: Some (Some n) a message, Some None short buffer, None nothing readable *)
Definition sw_read_once (q_result : option (option Z)) (read_err : bool) : sw_read_out :=
  match q_result with
  | Some (Some n) => RMsg n
  | Some None => RShort
  | None => if read_err then RErr else RWait
  end.
