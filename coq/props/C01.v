(* C01 — reliable ordered delivery, safety half: what reads return on an ordered stream is a prefix, in
   order, of what was written, bytes and payload protocol identifier equal.
   Receiver: coq/model/E2E.v ([e2e_recv_data] = handleData -> acceptPayloadData -> pushPayloadDataToStream ->
   pop loop, over RPQ.v and one RQ.v queue per stream; [e2e_read] = one pass of ReadSCTP).
   Sender universe: a function from unbounded TSN indices to chunks, well-formed w.r.t. message families
   (T s k = index of the first fragment of the k-th ordered message of stream s, nfr s k = its number of
   fragments, frag s k j = payload of fragment j, mppi s k = its PPI); StreamW.v/sw_frags_spec and
   C17/c17_msg_contiguous are what makes the real sender produce such a universe. *)
From Coq Require Import ZArith Bool List.
From Sctp Require Import Gen SnaProofs RPQ RQ E2E RQProofs RPQProofs E2EProofs.
Import ListNotations.
Open Scope Z_scope.

(* DATA mode (no interleaving).  For every well-formed universe U, every event list - arrivals of any
   indices of U in any order, with any duplication and omission, with or without room in the accept channel,
   interleaved with reads on any stream with any buffer length -, any receive buffer size, entry limit and
   initial TSN: the messages handed to the application on stream s are messages 0,1,..,n-1 of s, in order,
   each with the concatenation of its fragments' payloads and its PPI.
   Hypotheses, per arrival ([crun_ok]):
     H_tsn  the index lies within 2^31 of the cumulative point (bounded packet lifetime, as in C05);
     H_ssn  the chunk belongs to a message fewer than 2^15 messages ahead of the number already read on
            its stream.
   The admission rule when the buffer is full is the code's ([rq_admit]); nothing is assumed about it. *)
Theorem c01_ordered_prefix : forall U own T nfr frag mppi,
  (forall s k, 1 <= nfr s k < 2147483648) ->
  (forall i c, U i = Some c ->
     exists s k j, own i = Some (s, k, j) /\ 0 <= k /\ 0 <= j < nfr s k /\ i = T s k + j /\
                   c = uchunk T nfr frag mppi s k j) ->
  forall peer_tsn buf maxent evs s, in32 buf ->
  crun_ok 32768 U own (e2e_cinit false peer_tsn buf maxent) evs ->
  let outs := outs_of s (couts U (e2e_cinit false peer_tsn buf maxent) evs) in
  map e2e_bytes outs =
  map (fun i => (s, concat (map (frag s (Z.of_nat i)) (js (nfr s (Z.of_nat i)))), mppi s (Z.of_nat i)))
      (seq 0 (length outs)).
Proof. exact e2e_ordered_prefix_data. Qed.
Print Assumptions c01_ordered_prefix.

(* I-DATA mode (message interleaving): messages are identified by MID = k mod 2^32, fragments by FSN;
   the TSN index of a fragment ([tix s k j]) is arbitrary - any interleaving of the fragments of
   different streams, any scheduler.  Non-first fragments carry no PPI on the wire (0); the PPI delivered
   is the first fragment's.  H_mid replaces H_ssn: fewer than 2^31 messages ahead of the read cursor. *)
Theorem c01_ordered_prefix_idata : forall U own tix nfr frag mppi,
  (forall s k, 1 <= nfr s k < 2147483648) ->
  (forall i c, U i = Some c ->
     exists s k j, own i = Some (s, k, j) /\ 0 <= k /\ 0 <= j < nfr s k /\ i = tix s k j /\
                   c = uichunk tix nfr frag mppi s k j) ->
  forall peer_tsn buf maxent evs s, in32 buf ->
  crun_ok 2147483648 U own (e2e_cinit true peer_tsn buf maxent) evs ->
  let outs := outs_of s (couts U (e2e_cinit true peer_tsn buf maxent) evs) in
  map e2e_bytes outs =
  map (fun i => (s, concat (map (frag s (Z.of_nat i)) (js (nfr s (Z.of_nat i)))), mppi s (Z.of_nat i)))
      (seq 0 (length outs)).
Proof. exact e2e_ordered_prefix_idata. Qed.
Print Assumptions c01_ordered_prefix_idata.

(* The same in terms of the messages written.  [ws] = the messages accepted by writes, in the order the
   pending queue hands them to TSN assignment (message mode: c17_msg_contiguous), each non-empty and
   shorter than 2^31 bytes, cut into fragments of at most maxp >= 1 bytes as packetize does (sw_frags_spec);
   the universe generated from them ([g_U]: message k of stream s occupies consecutive TSN indices from i0
   on, SSN = k mod 2^16, B/E flags, the message's PPI on every fragment) is well-formed
   ([c01_generated_universe_wf]) and what stream s hands to the application is a prefix of what was
   written on s, bytes and PPI equal. *)
Theorem c01_ordered_prefix_written : forall maxp, (1 <= maxp)%nat -> forall ws i0,
  Forall (fun w => em_data w <> [] /\ Z.of_nat (length (em_data w)) < 2147483648) ws ->
  forall peer_tsn buf maxent evs s, in32 buf ->
  crun_ok 32768 (g_U maxp ws i0) (g_own maxp ws i0) (e2e_cinit false peer_tsn buf maxent) evs ->
  let outs := outs_of s (couts (g_U maxp ws i0) (e2e_cinit false peer_tsn buf maxent) evs) in
  map e2e_bytes outs = map (fun w => (s, em_data w, em_ppi w)) (firstn (length outs) (e2e_written s ws)).
Proof. exact e2e_ordered_prefix_written. Qed.
Print Assumptions c01_ordered_prefix_written.

Theorem c01_generated_universe_wf : forall maxp, (1 <= maxp)%nat -> forall ws i0 i c,
  g_U maxp ws i0 i = Some c ->
  exists s k j, g_own maxp ws i0 i = Some (s, k, j) /\ 0 <= k /\ 0 <= j < g_nfr maxp ws s k /\
                i = g_T maxp ws i0 s k + j /\
                c = uchunk (g_T maxp ws i0) (g_nfr maxp ws) (g_frag maxp ws) (g_ppi ws) s k j.
Proof. exact g_wf. Qed.
Print Assumptions c01_generated_universe_wf.

Theorem c01_generated_fragments_are_the_message : forall maxp ws s k w,
  g_msg ws s k = Some w ->
  concat (map (g_frag maxp ws s k) (js (g_nfr maxp ws s k))) = em_data w /\ g_ppi ws s k = em_ppi w.
Proof. exact g_message. Qed.
Print Assumptions c01_generated_fragments_are_the_message.

(* the queue-level core: one reassembly queue fed with fragments of a message family, none twice, in any
   order, reads in between: the deliveries are consecutive whole messages starting at the read cursor *)
Theorem c01_one_queue_prefix : forall s T nfr frag mppi,
  (forall k, 1 <= nfr k < 2147483648) ->
  forall ops q m P, QInv s T nfr frag mppi q m P -> qvalid s T nfr frag mppi m P q ops ->
  qouts s T nfr frag mppi q ops = msgs_from s T nfr frag mppi m (length (qouts s T nfr frag mppi q ops)).
Proof. exact one_queue_prefix. Qed.
Print Assumptions c01_one_queue_prefix.

(* a complete set made of fragments of one message is that message, whole and in order (no truncation,
   no merge): used for "intact" *)
Theorem c01_complete_set_is_message : forall s T nfr frag mppi,
  (forall k, 1 <= nfr k < 2147483648) -> forall k cs,
  Forall (fun c => exists j, 0 <= j < nfr k /\ c = qchunk s T nfr frag mppi k j) cs ->
  rqs_complete cs = true -> cs = qmsg s T nfr frag mppi k.
Proof. exact complete_is_message. Qed.
Print Assumptions c01_complete_set_is_message.

(* no duplication: an index the receive bitmap accepts was not accepted before (C05) - the reason every
   fragment reaches its queue at most once *)
Theorem c01_accepted_once : forall k0 q g i,
  J k0 (q, g) -> - H31 < i - gK g < H31 -> snd (push q (wrap32 i)) = true -> ~ In i (gacc g).
Proof. exact J_accept_new. Qed.
Print Assumptions c01_accepted_once.

(* non-vacuity: two streams, fragmented messages, reordering, a duplicate, a short read *)
Example c01_example :
  let T s k := if s =? 0 then (if k =? 0 then 10 else 13) else 12 in
  let nfr s k := if (s =? 0) && (k =? 0) then 2 else 1 in
  let frag s k j := [s; k; j] in
  let mppi s k := 51 + s in
  let own i := if i =? 10 then Some (0, 0, 0) else if i =? 11 then Some (0, 0, 1)
               else if i =? 12 then Some (1, 0, 0) else if i =? 13 then Some (0, 1, 0) else None in
  let U i := match own i with Some (s, k, j) => Some (uchunk T nfr frag mppi s k j) | None => None end in
  let evs := [EvArr 13 true; EvArr 11 true; EvRead 0 99; EvArr 12 true; EvArr 11 true; EvArr 10 true;
              EvRead 0 1; EvRead 0 99; EvRead 1 99; EvRead 0 99] in
  map e2e_bytes (couts U (e2e_cinit false 10 4096 0) evs) =
  [(0, [0;0;0;0;0;1], 51); (1, [1;0;0], 52); (0, [0;1;0], 51)].
Proof. vm_compute. reflexivity. Qed.

(* non-vacuity, I-DATA: fragments of two streams interleaved on the wire, reordered, one duplicated *)
Example c01_example_idata :
  let tix s k j := if s =? 0 then (if k =? 0 then 20 + 2 * j else 24) else 21 + 2 * j in
  let nfr s k := if (s =? 0) && (k =? 1) then 1 else 2 in
  let frag s k j := [s; k; j] in
  let mppi s k := 51 + s in
  let own i := if i =? 20 then Some (0, 0, 0) else if i =? 21 then Some (1, 0, 0)
               else if i =? 22 then Some (0, 0, 1) else if i =? 23 then Some (1, 0, 1)
               else if i =? 24 then Some (0, 1, 0) else None in
  let U i := match own i with Some (s, k, j) => Some (uichunk tix nfr frag mppi s k j) | None => None end in
  let evs := [EvArr 24 true; EvArr 23 true; EvArr 22 true; EvRead 0 99; EvArr 20 true; EvArr 22 true;
              EvRead 0 99; EvArr 21 true; EvRead 0 99; EvRead 1 3; EvRead 1 99] in
  map e2e_bytes (couts U (e2e_cinit true 20 4096 0) evs) =
  [(0, [0;0;0;0;0;1], 51); (0, [0;1;0], 51); (1, [1;0;0;1;0;1], 52)].
Proof. vm_compute. reflexivity. Qed.

(* D16: without H_ssn the statement "an acknowledged chunk is held until it is read" fails: with the read
   cursor at 0 an ordered chunk with SSN 32769 is recorded in the receive bitmap (the cumulative point
   moves over it, it will never be retransmitted) and dropped by the stream's queue.  Observed on the
   implementation by TestVerifE2ESpan (32772 unread one-byte messages: 3 of them are lost). *)
Example c01_span_refuted :
  let c := mkRqChunk 1 0 32769 0 0 51 false true true false [7] in
  let r := e2e_recv_data (e2e_new 1 1048576 0 false) c true in
  snd r = EoStored (RqOk false) /\ cum (e2e_pq (fst r)) = 1 /\
  map (fun p => rq_all_chunks (snd p)) (e2e_streams (fst r)) = [[]].
Proof. vm_compute. repeat split. Qed.
