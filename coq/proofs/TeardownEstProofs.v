(* Teardown (C09): the reachable sets of the families of phase Est are computed by the worklist, checked to be
   closed under the step relation, and every member passes the per-state checks and has a rank certificate. *)
From Coq Require Import Bool List PArith NArith.
From Sctp Require Import Gen Teardown TeardownProofs.
Import ListNotations.

Lemma td_families_ok_Est : forallb td_check_family (td_families_of TdPhEst) = true.
Proof. vm_cast_no_check (eq_refl true). Qed.

(* sizes of the reachable sets, one per family in the order of td_families_of *)
Definition td_sizes_Est : list N :=
  Eval vm_compute in map td_family_size (td_families_of TdPhEst).
