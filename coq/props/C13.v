(* C13 -- checksum rules.
   Model: coq/model/Crc.v (packet.go: generatePacketChecksum, head of packet.unmarshal, tail of
   packet.marshal; association.go: chunkMandatoryChecksum, marshalPacket, unmarshalPacket, handleInbound's
   drop branch, setSendZeroChecksum and the parameter loops of handleInit/handleInitAck; hash/crc32
   Castagnoli as a bit-at-a-time reflected shift register).
   Only statements closed by [exact] + Print Assumptions here; proofs in coq/proofs/CrcProofs.v. *)
From Coq Require Import ZArith Bool List.
From Sctp Require Import Gen Crc CrcProofs.
Import ListNotations.
Open Scope Z_scope.

(* ---------------------------------------------------------------- receiving side *)

(* Every byte string the receiver lets through (recv_zero = the local option EnableZeroChecksum) either
   carries the CRC32c of its bytes, or carries zero AND this endpoint enabled (= advertised, see
   c13_send_zero_direction / c13_interop) zero-checksum acceptance AND the packet does not start with an
   INIT or COOKIE-ECHO chunk.  For all byte strings of all lengths. *)
Theorem c13_accept_rule : forall recv_zero raw,
  crc_accept recv_zero raw = true ->
  crc_field raw = crc_packet_checksum raw \/
  (crc_field raw = 0 /\ recv_zero = true /\
   ~ (c_packetHeaderSize + c_chunkHeaderSize <= crc_len raw /\
      (crc_at raw (Z.to_nat c_packetHeaderSize) = c_ctInit \/
       crc_at raw (Z.to_nat c_packetHeaderSize) = c_ctCookieEcho))).
Proof. exact crc_accept_rule. Qed.
Print Assumptions c13_accept_rule.

(* the decision, exactly *)
Theorem c13_accept_iff : forall recv_zero raw,
  crc_accept recv_zero raw = true <->
  (crc_len raw = c_packetHeaderSize \/ c_packetHeaderSize + c_chunkHeaderSize <= crc_len raw) /\
  (crc_field raw = crc_packet_checksum raw \/
   (crc_field raw = 0 /\ recv_zero = true /\ crc_starts_mandatory raw = false)).
Proof. exact crc_accept_iff. Qed.
Print Assumptions c13_accept_iff.

(* "non-zero and wrong => discarded", whatever the option *)
Theorem c13_wrong_nonzero_rejected : forall recv_zero raw,
  crc_field raw <> 0 -> crc_field raw <> crc_packet_checksum raw -> crc_accept recv_zero raw = false.
Proof. exact crc_wrong_nonzero_rejected. Qed.
Print Assumptions c13_wrong_nonzero_rejected.

(* without the option every wrong field (zero included) is discarded; with the option still for INIT / COOKIE-ECHO *)
Theorem c13_wrong_rejected_without_option : forall raw,
  crc_field raw <> crc_packet_checksum raw -> crc_accept false raw = false.
Proof. exact crc_wrong_rejected_without_option. Qed.
Print Assumptions c13_wrong_rejected_without_option.

Theorem c13_wrong_mandatory_rejected : forall recv_zero raw,
  crc_starts_mandatory raw = true -> crc_field raw <> crc_packet_checksum raw -> crc_accept recv_zero raw = false.
Proof. exact crc_wrong_mandatory_rejected. Qed.
Print Assumptions c13_wrong_mandatory_rejected.

(* discarded without any effect: handleInbound returns the state unchanged and emits nothing, whatever the
   rest of the packet processing [rest] is.  (Structural; the tie to the implementation is the no-effect
   monitor of the correspondence check.) *)
Theorem c13_reject_no_effect : forall (S O : Type) (rest : S -> list Z -> S * list O) recv_zero s raw,
  crc_accept recv_zero raw = false -> crc_handle_inbound rest recv_zero s raw = (s, []).
Proof. exact crc_reject_no_effect. Qed.
Print Assumptions c13_reject_no_effect.

(* generatePacketChecksum (three chained crc32.Update calls) is the CRC32c of the bytes with the field zeroed *)
Theorem c13_packet_checksum_is_crc : forall raw,
  crc_packet_checksum raw = crc32c (crc_zero_field raw).
Proof. exact crc_packet_checksum_eq. Qed.
Print Assumptions c13_packet_checksum_is_crc.

(* ---------------------------------------------------------------- sending side *)

(* raw0 = bytes built by packet.marshal before the checksum store: bytes, at least a header, field zero *)
Theorem c13_emit_rule : forall send_zero types raw0, crc_premarshal_ok raw0 ->
  crc_emit_checksum send_zero types raw0 <> crc_packet_checksum (crc_emit send_zero types raw0) ->
  send_zero = true /\ crc_chunk_mandatory types = false /\ crc_emit_checksum send_zero types raw0 = 0.
Proof. exact crc_emit_rule. Qed.
Print Assumptions c13_emit_rule.

(* otherwise, and always when ANY chunk of the packet is INIT or COOKIE-ECHO, the field is the correct CRC32c *)
Theorem c13_emit_mandatory_correct : forall send_zero types raw0, crc_premarshal_ok raw0 ->
  send_zero = false \/ crc_chunk_mandatory types = true ->
  crc_emit_checksum send_zero types raw0 = crc_packet_checksum (crc_emit send_zero types raw0).
Proof. exact crc_emit_mandatory_correct. Qed.
Print Assumptions c13_emit_mandatory_correct.

(* everything a sender emits passes the checksum rules of a receiver that accepts zero whenever the sender
   may send it; in particular (send_zero = false) of every receiver *)
Theorem c13_emit_accepted : forall send_zero recv_zero types raw0, crc_premarshal_ok raw0 ->
  crc_types_consistent types raw0 = true ->
  (send_zero = true -> recv_zero = true) ->
  crc_accept recv_zero (crc_emit send_zero types raw0) = true.
Proof. exact crc_emit_accepted. Qed.
Print Assumptions c13_emit_accepted.

(* and the wrong direction loses every packet (what the retracted v1.8.12 did) *)
Theorem c13_zero_rejected_by_non_acceptor : forall types raw0, crc_premarshal_ok raw0 ->
  crc_chunk_mandatory types = false -> crc_packet_checksum raw0 <> 0 ->
  crc_accept false (crc_emit true types raw0) = false.
Proof. exact crc_zero_rejected_by_non_acceptor. Qed.
Print Assumptions c13_zero_rejected_by_non_acceptor.

(* ---------------------------------------------------------------- negotiation *)

(* For every local option and every history of received INIT / INIT-ACK parameter lists:
   recv_zero is the local option; send_zero is a function of the peer's parameters only; it is true only
   if some received list contained ZeroChecksumAcceptable with EDMID = DTLS. *)
Theorem c13_send_zero_direction : forall enable h,
  ep_recv_zero (crc_ep_run (crc_ep_new enable) h) = enable /\
  ep_send_zero (crc_ep_run (crc_ep_new enable) h) = crc_send_zero_after false (concat h) /\
  (ep_send_zero (crc_ep_run (crc_ep_new enable) h) = true ->
   exists ps, In ps h /\ In (CrcZCA c_dtlsErrorDetectionMethod) ps).
Proof. exact crc_send_zero_direction. Qed.
Print Assumptions c13_send_zero_direction.

Theorem c13_send_zero_independent_of_local_option : forall e1 e2 h,
  ep_send_zero (crc_ep_run (crc_ep_new e1) h) = ep_send_zero (crc_ep_run (crc_ep_new e2) h).
Proof. exact crc_send_zero_independent_of_local_option. Qed.
Print Assumptions c13_send_zero_independent_of_local_option.

Theorem c13_send_zero_honest_peer : forall enable peer ps,
  crc_zca_of ps = crc_ep_advert peer ->
  ep_send_zero (crc_ep_on_peer_params (crc_ep_new enable) ps) = ep_recv_zero peer.
Proof. exact crc_send_zero_honest_peer. Qed.
Print Assumptions c13_send_zero_honest_peer.

(* Two endpoints, all four combinations of the options, parameters exchanged as the code builds them (the
   advertisement among arbitrary other parameters): every packet A emits passes B's rules, and a field that is
   not the CRC of the packet goes only towards a side that enabled the option, never with INIT/COOKIE-ECHO. *)
Theorem c13_interop : forall optA optB psA psB types raw0,
  crc_zca_of psA = crc_ep_advert (crc_ep_new optA) ->
  crc_zca_of psB = crc_ep_advert (crc_ep_new optB) ->
  crc_premarshal_ok raw0 -> crc_types_consistent types raw0 = true ->
  let A := crc_ep_on_peer_params (crc_ep_new optA) psB in
  let B := crc_ep_on_peer_params (crc_ep_new optB) psA in
  crc_accept (ep_recv_zero B) (crc_emit (ep_send_zero A) types raw0) = true /\
  (crc_emit_checksum (ep_send_zero A) types raw0 <> crc_packet_checksum (crc_emit (ep_send_zero A) types raw0) ->
   optB = true /\ crc_chunk_mandatory types = false).
Proof. exact crc_interop. Qed.
Print Assumptions c13_interop.

(* ---------------------------------------------------------------- corruption detection *)

(* CRC32c is affine over GF(2): for equal lengths the change of the CRC depends on the error pattern only *)
Theorem c13_crc_linear : forall a e, length a = length e ->
  crc32c (crc_xor a e) = Z.lxor (crc32c a) (crc_update 0 e).
Proof. exact crc32c_lxor. Qed.
Print Assumptions c13_crc_linear.

(* Burst theorem, all lengths: an error pattern which, read in the bit order of the register (byte 0 bit 0
   first), is a non-zero window of at most 32 bits at any bit position j has a non-zero syndrome. *)
Theorem c13_syndrome_burst : forall e w j, crc_bytes_ok e = true ->
  0 < w < 4294967296 -> 0 <= j -> crc_le e = w * 2 ^ j ->
  0 < crc_update 0 e < 4294967296.
Proof. exact crc_syndrome_burst. Qed.
Print Assumptions c13_syndrome_burst.

(* every single flipped bit, in a message of any length, changes the CRC *)
Theorem c13_single_bit_detected : forall a p k, 0 <= k < 8 -> (p < length a)%nat ->
  crc32c (crc_xor a (crc_err_window (length a) p [2 ^ k])) <> crc32c a.
Proof. exact crc32c_single_bit_detected. Qed.
Print Assumptions c13_single_bit_detected.

(* every corruption confined to (at most) four consecutive bytes changes the CRC *)
Theorem c13_window_detected : forall a p win, crc_bytes_ok win = true ->
  (length win <= 4)%nat -> (p + length win <= length a)%nat -> crc_le win <> 0 ->
  crc32c (crc_xor a (crc_err_window (length a) p win)) <> crc32c a.
Proof. exact crc32c_window_detected. Qed.
Print Assumptions c13_window_detected.

(* Packets: a valid packet (any length) hit by such a corruption outside the checksum field keeps its field,
   no longer matches, and is discarded whenever the field is non-zero, or the endpoint did not enable the
   option, or the (corrupted) packet starts with INIT / COOKIE-ECHO. *)
Theorem c13_packet_window_rejected : forall recv_zero raw p win,
  c_packetHeaderSize <= crc_len raw ->
  crc_field raw = crc_packet_checksum raw ->
  crc_bytes_ok win = true -> (length win <= 4)%nat -> crc_le win <> 0 ->
  (p + length win <= 8)%nat \/ (12 <= p)%nat -> (p + length win <= length raw)%nat ->
  let raw' := crc_xor raw (crc_err_window (length raw) p win) in
  crc_field raw' = crc_field raw /\
  crc_field raw' <> crc_packet_checksum raw' /\
  (crc_field raw <> 0 \/ recv_zero = false \/ crc_starts_mandatory raw' = true -> crc_accept recv_zero raw' = false).
Proof. exact crc_packet_window_rejected. Qed.
Print Assumptions c13_packet_window_rejected.

(* the same for bursts of up to 32 bits at any bit position outside the field *)
Theorem c13_burst_outside_field_invalidates : forall raw e w j,
  length raw = length e -> c_packetHeaderSize <= crc_len raw ->
  crc_bytes_ok e = true -> crc_outside_field e ->
  0 < w < 4294967296 -> 0 <= j -> crc_le e = w * 2 ^ j ->
  crc_field raw = crc_packet_checksum raw ->
  crc_field (crc_xor raw e) <> crc_packet_checksum (crc_xor raw e).
Proof. exact crc_burst_outside_field_invalidates. Qed.
Print Assumptions c13_burst_outside_field_invalidates.

(* any corruption of the checksum field alone invalidates a valid packet *)
Theorem c13_field_corruption_invalidates : forall raw e,
  length raw = length e -> c_packetHeaderSize <= crc_len raw ->
  crc_bytes_ok raw = true -> crc_bytes_ok e = true ->
  crc_inside_field e -> e <> repeat 0 (length e) ->
  crc_field raw = crc_packet_checksum raw ->
  crc_field (crc_xor raw e) <> crc_packet_checksum (crc_xor raw e).
Proof. exact crc_corruption_inside_field_invalidates. Qed.
Print Assumptions c13_field_corruption_invalidates.

(* an invalidated packet can get through only by showing a zero field to an endpoint that enabled the option *)
Theorem c13_invalid_accepted_only_as_zero : forall recv_zero raw',
  crc_field raw' <> crc_packet_checksum raw' ->
  crc_accept recv_zero raw' = true ->
  crc_field raw' = 0 /\ recv_zero = true /\ crc_starts_mandatory raw' = false.
Proof. exact crc_invalid_accepted_only_as_zero. Qed.
Print Assumptions c13_invalid_accepted_only_as_zero.

(* ---------------------------------------------------------------- examples (non-vacuity) *)

(* the standard check value of CRC-32C *)
Example c13_example_check_value : crc32c [49; 50; 51; 52; 53; 54; 55; 56; 57] = 3808858755.
Proof. vm_compute. reflexivity. Qed.

(* c13_pkt_cookie_ack: ports 5000/5000, tag 1, one COOKIE-ACK chunk;
   c13_pkt_cookie_echo: the same with one COOKIE-ECHO chunk carrying a 4-byte cookie *)
Example c13_example_premarshal :
  let c13_pkt_cookie_ack := [19; 136; 19; 136; 0; 0; 0; 1; 0; 0; 0; 0; 11; 0; 0; 4] in
  let c13_pkt_cookie_echo := [19; 136; 19; 136; 0; 0; 0; 1; 0; 0; 0; 0; 10; 0; 0; 8; 1; 2; 3; 4] in
  crc_premarshal_ok c13_pkt_cookie_ack /\ crc_types_consistent [11] c13_pkt_cookie_ack = true /\
  crc_premarshal_ok c13_pkt_cookie_echo /\ crc_types_consistent [10] c13_pkt_cookie_echo = true.
Proof. cbv zeta. unfold crc_premarshal_ok. vm_compute. intuition discriminate. Qed.

Example c13_example_matrix :
  let c13_pkt_cookie_ack := [19; 136; 19; 136; 0; 0; 0; 1; 0; 0; 0; 0; 11; 0; 0; 4] in
  let c13_pkt_cookie_echo := [19; 136; 19; 136; 0; 0; 0; 1; 0; 0; 0; 0; 10; 0; 0; 8; 1; 2; 3; 4] in
  (* CRC emitted: accepted by both kinds of receiver *)
  crc_emit_checksum false [11] c13_pkt_cookie_ack = 3452500424 /\
  crc_accept false (crc_emit false [11] c13_pkt_cookie_ack) = true /\
  crc_accept true (crc_emit false [11] c13_pkt_cookie_ack) = true /\
  (* zero emitted: accepted only with the option *)
  crc_emit_checksum true [11] c13_pkt_cookie_ack = 0 /\
  crc_accept true (crc_emit true [11] c13_pkt_cookie_ack) = true /\
  crc_accept false (crc_emit true [11] c13_pkt_cookie_ack) = false /\
  (* COOKIE-ECHO: CRC emitted even with send_zero; a zero field is refused even with the option *)
  crc_emit_checksum true [10] c13_pkt_cookie_echo <> 0 /\
  crc_accept true c13_pkt_cookie_echo = false /\
  crc_accept true (crc_emit true [10] c13_pkt_cookie_echo) = true /\
  (* 13..15 bytes never get past the chunk loop, 12 bytes with a zero field do with the option *)
  crc_accept true (firstn 14 c13_pkt_cookie_ack) = false /\
  crc_accept true (firstn 12 c13_pkt_cookie_ack) = true /\
  crc_accept false (firstn 12 c13_pkt_cookie_ack) = false.
Proof. vm_compute. intuition discriminate. Qed.

(* the flag is not reset by a later parameter list without the parameter, and the last parameter wins
   (model of the loops in handleInit / setSendZeroChecksum; observations recorded in notes/C13.md) *)
Example c13_example_negotiation :
  crc_send_zero_after false [CrcOtherParam 32776; CrcZCA 1] = true /\
  crc_send_zero_after false [CrcZCA 2] = false /\
  crc_send_zero_after false [CrcZCA 1; CrcZCA 2] = false /\
  crc_send_zero_after false [CrcZCA 2; CrcZCA 1] = true /\
  ep_send_zero (crc_ep_run (crc_ep_new false) [[CrcZCA 1]; [CrcOtherParam 32776]]) = true.
Proof. vm_compute. intuition. Qed.

(* limit of the detection theorems: a corruption that touches the checksum field AND the rest can cancel.
   Flipping the top bit of the last byte (syndrome = the polynomial 0x82F63B78) together with the matching 16 bits of
   the field turns a valid packet into another valid packet.  Hence the side conditions "outside the field" /
   "inside the field only" above; such patterns are outside what CRC32c in the header can promise. *)
Example c13_example_straddling_undetected :
  let good := crc_emit false [11] [19; 136; 19; 136; 0; 0; 0; 1; 0; 0; 0; 0; 11; 0; 0; 4] in
  let e := [0; 0; 0; 0; 0; 0; 0; 0; 120; 59; 246; 130; 0; 0; 0; 128] in
  crc_update 0 (repeat 0 15 ++ [128]) = crc_poly /\
  crc_accept false good = true /\ crc_xor good e <> good /\ crc_accept false (crc_xor good e) = true.
Proof. vm_compute. intuition discriminate. Qed.
