(* Receiver-side safety of the reassembly queue (cited by C01, C06, C07, C18).
   Model: coq/model/RQ.v.  Same history space as C11.v: arbitrary chunks, reads, forward operations. *)
From Coq Require Import ZArith Bool List.
From Sctp Require Import Gen SnaProofs RQ RQProofs.
Import ListNotations.
Open Scope Z_scope.

(* the slice reads of pushWithError never go out of range *)
Theorem rqs_no_panic : forall q0 ops c, rq_empty q0 -> snd (rq_push (rq_run q0 ops) c) <> RqPanic.
Proof. exact rq_no_panic_thm. Qed.
Print Assumptions rqs_no_panic.

(* well-formedness (chunks sit in the container of their kind, under their own SSN/MID and stream;
   sets waiting in the unordered containers are complete) holds in every reachable state *)
Theorem rqs_wf_reachable : forall q0 ops, rq_empty q0 -> rq_wf (rq_run q0 ops).
Proof. exact rq_wf_reachable_thm. Qed.
Print Assumptions rqs_wf_reachable.

(* C06/C01 intact + no-splice: what read returns is the in-order concatenation of one fragment run:
   DATA: first chunk B, last chunk E, TSNs consecutive, all chunks of one SSN (ordered) resp. all
   unordered; I-DATA: first B, last E, FSN 0,1,2,.., all chunks of one MID and one ordered/unordered
   space; ordered messages are not ahead of the cursor; n is the message length and fits the buffer *)
Theorem rqs_read_returns_one_message : forall q b q' n ppi del,
  rq_wf q -> rq_read q b = (q', RdOk n ppi del) ->
  n = gsum rqc_len del /\ n <= b /\ rq_message (rq_si q) q del.
Proof. exact rq_read_message. Qed.
Print Assumptions rqs_read_returns_one_message.

Theorem rqs_complete_is_run : forall cs, rqs_complete cs = true <-> rq_msg_tsn cs.
Proof. exact rqs_complete_iff. Qed.
Theorem rqs_complete_mid_is_run : forall cs, rqm_complete cs = true <-> rq_msg_fsn cs.
Proof. exact rqm_complete_iff. Qed.
Theorem rqs_fsn_is_index : forall cs, rq_msg_fsn cs ->
  forall i c, nth_error cs i = Some c -> rqc_fsn c = wrap32 (Z.of_nat i).
Proof. exact rq_msg_fsn_index. Qed.
Print Assumptions rqs_fsn_is_index.

(* which container a delivered message came from, and how the SSN/MID cursor moves: an ordered message
   is delivered only if it is complete, at the head, and not after the cursor; the cursor advances by
   one exactly when the message sits at the cursor *)
Theorem rqs_read_source_and_cursor : forall q b q' n ppi del,
  rq_read q b = (q', RdOk n ppi del) ->
  n = gsum rqc_len del /\ rq_short b del = false /\ rq_read_from q q' ppi del.
Proof. exact rq_read_ok_cases. Qed.
Print Assumptions rqs_read_source_and_cursor.

(* C06 at-most-once, as multisets over a whole history: every accepted chunk is, at any time, exactly
   one of delivered / removed by a forward operation / still held; accepted chunks were pushed *)
Theorem rqs_at_most_once : forall q0 ops x,
  rq_empty q0 ->
  let cnt l := count_occ rqchunk_eq_dec l x in
  (cnt (rq_hist rq_step_del q0 ops) + cnt (rq_hist rq_removed q0 ops) + cnt (rq_all_chunks (rq_run q0 ops))
   = cnt (rq_hist rq_step_acc q0 ops))%nat /\
  (cnt (rq_hist rq_step_acc q0 ops) <= cnt (rq_pushed ops))%nat.
Proof. exact rq_conservation_thm. Qed.
Print Assumptions rqs_at_most_once.

(* C18: a read that does not deliver (buffer too short, nothing readable) is the identity on the queue;
   ErrShortBuffer is returned exactly with the length of the message that did not fit *)
Theorem rqs_failed_read_identity : forall q b,
  match snd (rq_read q b) with RdOk _ _ _ => True | _ => fst (rq_read q b) = q end.
Proof. exact rq_read_not_ok_identity. Qed.
Print Assumptions rqs_failed_read_identity.

Theorem rqs_short_read : forall q b q' n, rq_read q b = (q', RdShort n) -> q' = q /\ b < n.
Proof. exact rq_read_short_spec. Qed.
Print Assumptions rqs_short_read.

(* C07: what the forward operations remove, keep, and how they move the cursor *)
Theorem rqs_forward_ordered : forall q v,
  let q' := rq_fwd_ordered q v in
  rq_ordered q' = filter (fun s => negb (rq_fwdo_drop v s)) (rq_ordered q) /\
  (forall s, In s (rq_ordered q) -> ~ In s (rq_ordered q') ->
             sna16LTE (rqs_key s) v = true /\ rqs_complete (rqs_chunks s) = false) /\
  (forall s, In s (rq_ordered q) -> (rqs_complete (rqs_chunks s) = true \/ sna16LTE (rqs_key s) v = false) ->
             In s (rq_ordered q')) /\
  rq_nextSSN q' = (if sna16LTE (rq_nextSSN q) v then wrap16 (v + 1) else rq_nextSSN q) /\
  rq_unordered q' = rq_unordered q /\ rq_uchunks q' = rq_uchunks q /\ rq_orderedMID q' = rq_orderedMID q /\
  rq_unorderedMID q' = rq_unorderedMID q /\ rq_umidmap q' = rq_umidmap q /\ rq_nextMID q' = rq_nextMID q /\
  rq_inter q' = rq_inter q.
Proof. exact rq_fwd_ordered_spec. Qed.
Print Assumptions rqs_forward_ordered.

Theorem rqs_forward_unordered : forall q v,
  let q' := rq_fwd_unordered q v in
  rq_uchunks q = rq_fwdu_removed q v ++ rq_uchunks q' /\
  Forall (fun c => sna32GT (rqc_tsn c) v = false) (rq_fwdu_removed q v) /\
  match rq_uchunks q' with [] => True | c :: _ => sna32GT (rqc_tsn c) v = true end /\
  rq_ordered q' = rq_ordered q /\ rq_unordered q' = rq_unordered q /\ rq_orderedMID q' = rq_orderedMID q /\
  rq_unorderedMID q' = rq_unorderedMID q /\ rq_umidmap q' = rq_umidmap q /\
  rq_nextSSN q' = rq_nextSSN q /\ rq_nextMID q' = rq_nextMID q /\ rq_inter q' = rq_inter q.
Proof. exact rq_fwd_unordered_spec. Qed.
Print Assumptions rqs_forward_unordered.

Theorem rqs_forward_ordered_mid : forall q v,
  let q' := rq_fwd_ordered_mid q v in
  rq_orderedMID q' = filter (fun s => negb (rq_fwdom_drop v s)) (rq_orderedMID q) /\
  (forall s, In s (rq_orderedMID q) -> ~ In s (rq_orderedMID q') ->
             sna32LTE (rqs_key s) v = true /\ rqm_complete (rqs_chunks s) = false) /\
  (forall s, In s (rq_orderedMID q) -> (rqm_complete (rqs_chunks s) = true \/ sna32LTE (rqs_key s) v = false) ->
             In s (rq_orderedMID q')) /\
  rq_nextMID q' = (if sna32LTE (rq_nextMID q) v then wrap32 (v + 1) else rq_nextMID q) /\
  rq_ordered q' = rq_ordered q /\ rq_unordered q' = rq_unordered q /\ rq_uchunks q' = rq_uchunks q /\
  rq_unorderedMID q' = rq_unorderedMID q /\ rq_umidmap q' = rq_umidmap q /\ rq_nextSSN q' = rq_nextSSN q /\
  rq_inter q' = rq_inter q.
Proof. exact rq_fwd_ordered_mid_spec. Qed.
Print Assumptions rqs_forward_ordered_mid.

Theorem rqs_forward_unordered_mid : forall q v,
  let q' := rq_fwd_unordered_mid q v in
  rq_umidmap q' = filter (fun s => negb (sna32LTE (rqs_key s) v)) (rq_umidmap q) /\
  (forall s, In s (rq_umidmap q) -> ~ In s (rq_umidmap q') -> sna32LTE (rqs_key s) v = true) /\
  rq_ordered q' = rq_ordered q /\ rq_unordered q' = rq_unordered q /\ rq_uchunks q' = rq_uchunks q /\
  rq_orderedMID q' = rq_orderedMID q /\ rq_unorderedMID q' = rq_unorderedMID q /\
  rq_nextSSN q' = rq_nextSSN q /\ rq_nextMID q' = rq_nextMID q /\ rq_inter q' = rq_inter q.
Proof. exact rq_fwd_unordered_mid_spec. Qed.
Print Assumptions rqs_forward_unordered_mid.

(* the forward operations remove exactly the chunks [rq_removed] names, for every weight function
   (hence as multisets), and account for them in the counter *)
Theorem rqs_forward_conserves : forall w q o,
  wq w q + gsum w (rq_step_acc q o) = wq w (rq_step q o) + gsum w (rq_step_del q o) + gsum w (rq_removed q o).
Proof. exact rq_step_conserve. Qed.
Print Assumptions rqs_forward_conserves.

(* C01, hypothesis H_ssn made explicit: an ordered DATA chunk d messages ahead of the read cursor
   survives the stale test iff d <= 2^15; beyond that it is dropped without trace (D16 mechanism) *)
Theorem rqs_stale_test : forall next d, in16 next -> 0 <= d < 65536 ->
  (sna16LT (wrap16 (next + d)) next = true <-> 32768 < d).
Proof. exact rq_stale_iff. Qed.
Print Assumptions rqs_stale_test.

Theorem rqs_far_ahead_dropped : forall q c d,
  in16 (rq_nextSSN q) -> 32768 < d < 65536 ->
  rqc_idata c = false -> rqc_unord c = false -> rqc_si c = rq_si q ->
  rqc_ssn c = wrap16 (rq_nextSSN q + d) ->
  rq_push q c = (q, RqOk false).
Proof. exact rq_push_ordered_far_ahead_dropped. Qed.
Print Assumptions rqs_far_ahead_dropped.

(* D16 witness at the queue level: with the cursor at 0, the complete unfragmented message with SSN
   32769 is dropped, the one with SSN 32768 is kept *)
Example rqs_span_refuted :
  let c ssn := mkRqChunk (1000 + ssn) 0 ssn 0 0 51 false true true false [1] in
  rq_all_chunks (fst (rq_push (rq_new 0 0) (c 32769))) = [] /\
  length (rq_all_chunks (fst (rq_push (rq_new 0 0) (c 32768)))) = 1%nat.
Proof. vm_compute. split; reflexivity. Qed.

(* C01/C06 ordered release: along any history whose steps satisfy the span hypothesis (read cursor,
   SSNs of all held ordered sets, the last SSN delivered and the SSN named by the operation lie in one
   window of 2^15 consecutive SSNs - the window may slide from step to step), each ordered DATA message
   delivered does not precede, in serial-number order, the one delivered before it.  Together with
   rqs_read_source_and_cursor (delivered only at or behind the cursor; cursor +1 exactly at the cursor)
   and rqs_stale_test (pushes behind the cursor are refused). *)
Theorem rqs_ordered_release : forall q0 ops,
  rq_empty q0 -> rq_span_run q0 None ops -> rq_chain None (rq_ord_deliveries q0 ops).
Proof. exact rq_ordered_release_thm. Qed.
Print Assumptions rqs_ordered_release.

(* the hypothesis is satisfiable on a history across the SSN wrap with reordering and a forward skip *)
Example rqs_ordered_release_example :
  let c ssn t b e := mkRqChunk t 0 ssn 0 0 51 false b e false [ssn] in
  let q0 := mkRq 0 65534 0 [] [] [] [] [] [] false 0 0 in
  let ops := [RqPush (c 0 13 true true); RqPush (c 65535 12 false true); RqPush (c 65534 10 true true);
              RqRead 9; RqPush (c 65535 11 true false); RqRead 9; RqRead 9; RqPush (c 2 15 true true);
              RqFwdO 1; RqRead 9] in
  rq_span_run q0 None ops /\ rq_ord_deliveries q0 ops = [65534; 65535; 0; 2].
Proof.
  split; [|vm_compute; reflexivity].
  apply (rq_span_runb_sound _ [65000; 65000; 65000; 65000; 65000; 65000; 65000; 65000; 65000; 65000]).
  vm_compute. reflexivity.
Qed.

(* without it the serial comparison no longer reflects the true order: a complete message left behind
   the cursor (SSN 0) is sorted behind one that is 61440 messages later and read reports "try again"
   although a deliverable message is held (same mechanism as D16) *)
Example rqs_release_needs_span :
  let c ssn t := mkRqChunk t 0 ssn 0 0 51 false true true false [1] in
  let q := rq_run (rq_new 0 0) [RqPush (c 0 1); RqFwdO 28672; RqPush (c 61440 2)] in
  map rqs_key (rq_ordered q) = [61440; 0] /\ rq_nextSSN q = 28673 /\ snd (rq_read q 9) = RdTryAgain.
Proof. vm_compute. repeat split. Qed.
