// Verification harness (overlay; not part of pion/sctp): pendingQueue differential.
// Random operation sequences on the real pendingQueue, built through the same option functions
// and entry points the association uses (newPendingQueue / push / peek / pop / size / getNumBytes /
// setInterleaving with each scheduler configuration).  After every operation the return value and
// a canonical dump of the internal state are written; /verif/ocaml/cmp_pq.ml replays the trace on
// the extracted Coq model (coq/model/PQ.v).
package sctp

import (
	"bufio"
	"errors"
	"fmt"
	"math"
	"math/rand"
	"os"
	"sort"
	"strconv"
	"strings"
	"testing"
)

type pqHarness struct {
	w     *bufio.Writer
	q     *pendingQueue
	ids   map[*chunkPayloadData]int
	next  int
	dead  bool // the queue object panicked in this case: stop using it
	stats map[string]int
}

func pqErrCode(err error) int {
	switch {
	case err == nil:
		return 0
	case errors.Is(err, ErrUnexpectedChunkPoppedUnordered):
		return 1
	case errors.Is(err, ErrUnexpectedChunkPoppedOrdered):
		return 2
	case errors.Is(err, ErrUnexpectedChunkPoppedStream):
		return 3
	case errors.Is(err, ErrUnexpectedQState):
		return 4
	case errors.Is(err, ErrPendingQueueModeChangeNonEmpty):
		return 5
	case errors.Is(err, errNilStreamScheduler):
		return 6
	}
	return 99
}

// pqFactory builds the scheduler factory exactly as the association options do.
func pqFactory(kind string, weights [][2]int) InterleavingStreamSchedulerFactory {
	s := &interleavingSettings{}
	switch kind {
	case "none":
		return nil
	case "rr":
		_ = WithInterleavingRoundRobinScheduler()(s)
	case "wfq":
		if len(weights) == 0 {
			_ = WithInterleavingWeightedFairQueueingScheduler()(s)
		}
		for _, sw := range weights {
			if sw[1] == 0 {
				// the option refuses weight 0; the constructor itself filters zero weights
				if s.wfqWeights == nil {
					s.wfqWeights = map[uint16]uint16{}
				}
				s.wfqWeights[uint16(sw[0])] = 0
				setWeightedFairQueueingStreamScheduler(s)
				continue
			}
			_ = WithInterleavingWeightedFairQueueingWeight(uint16(sw[0]), uint16(sw[1]))(s)
		}
	case "default": // what buildConfig installs when nothing is configured
		setWeightedFairQueueingStreamScheduler(s)
	}
	return cloneInterleavingSettings(s).newStreamScheduler
}

func (h *pqHarness) id(c *chunkPayloadData) int {
	if c == nil {
		return -1
	}
	if v, ok := h.ids[c]; ok {
		return v
	}
	return -2
}

func (h *pqHarness) idList(b *pendingBaseQueue) string {
	var sb strings.Builder
	n := 0
	if b != nil {
		n = b.size()
	}
	fmt.Fprintf(&sb, "%d", n)
	for i := 0; i < n; i++ {
		fmt.Fprintf(&sb, " %d", h.id(b.get(i)))
	}
	return sb.String()
}

func (h *pqHarness) dump() {
	q := h.q
	fmt.Fprintf(h.w, "dump %d %d %d %d %d ", q.getNumBytes(), q.size(), q.nBytes, q.nChunks, b2i(q.interleaving))
	switch p := q.policy.(type) {
	case *messagePendingQueuePolicy:
		fmt.Fprintf(h.w, "M %d %d %s %s\n", b2i(p.selected), b2i(p.unorderedIsSelected), h.idList(p.unorderedQueue), h.idList(p.orderedQueue))
	case *interleavingStreamSchedulerPolicy:
		switch s := p.scheduler.(type) {
		case *roundRobinPendingQueuePolicy:
			fmt.Fprintf(h.w, "R %d %d %d", b2i(s.streamSelected), s.selectedStream, len(s.streamOrder))
			for _, x := range s.streamOrder {
				fmt.Fprintf(h.w, " %d", x)
			}
			keys := []int{}
			for k := range s.streamQueues {
				keys = append(keys, int(k))
			}
			sort.Ints(keys)
			fmt.Fprintf(h.w, " %d", len(keys))
			for _, k := range keys {
				fmt.Fprintf(h.w, " %d %s", k, h.idList(s.streamQueues[uint16(k)]))
			}
			fmt.Fprintln(h.w)
		case *weightedFairQueueingPendingQueuePolicy:
			fmt.Fprintf(h.w, "W %d %d %d", b2i(s.streamSelected), s.selectedStream, math.Float64bits(s.virtualTime))
			keys := []int{}
			for k := range s.streamQueues {
				keys = append(keys, int(k))
			}
			sort.Ints(keys)
			fmt.Fprintf(h.w, " %d", len(keys))
			for _, k := range keys {
				b := s.streamQueues[uint16(k)]
				n := 0
				if b != nil {
					n = b.size()
				}
				fmt.Fprintf(h.w, " %d %d", k, n)
				for i := 0; i < n; i++ {
					c := b.get(i)
					f, ok := s.chunkFinish[c]
					if !ok {
						f = math.NaN()
					}
					fmt.Fprintf(h.w, " %d %d", h.id(c), math.Float64bits(f))
				}
			}
			fkeys := []int{}
			for k := range s.streamFinish {
				fkeys = append(fkeys, int(k))
			}
			sort.Ints(fkeys)
			fmt.Fprintf(h.w, " %d", len(fkeys))
			for _, k := range fkeys {
				fmt.Fprintf(h.w, " %d %d", k, math.Float64bits(s.streamFinish[uint16(k)]))
			}
			fmt.Fprintf(h.w, " %d\n", len(s.chunkFinish))
		default:
			fmt.Fprintln(h.w, "? unknown-scheduler")
		}
	default:
		fmt.Fprintln(h.w, "? unknown-policy")
	}
}

func (h *pqHarness) newChunk(sid int, unord, b, e bool, n int, reset bool) *chunkPayloadData {
	c := &chunkPayloadData{
		streamIdentifier:  uint16(sid),
		unordered:         unord,
		beginningFragment: b,
		endingFragment:    e,
	}
	if !reset {
		c.userData = make([]byte, n)
	}
	h.next++
	h.ids[c] = h.next
	return c
}

func (h *pqHarness) push(c *chunkPayloadData) {
	h.q.push(c)
	fmt.Fprintf(h.w, "push %d %d %d %d %d %d\n", h.id(c), c.streamIdentifier, b2i(c.unordered), b2i(c.beginningFragment), b2i(c.endingFragment), len(c.userData))
	h.stats["push"]++
	h.dump()
}

// pushMsg pushes a whole message the way sendPayloadData does (all fragments, one after the other).
func (h *pqHarness) pushMsg(sid int, unord bool, sizes []int) {
	for i, n := range sizes {
		h.push(h.newChunk(sid, unord, i == 0, i == len(sizes)-1, n, false))
	}
	h.stats["msg"]++
}

func (h *pqHarness) peek() (c *chunkPayloadData) {
	defer func() {
		// a nil-pointer dereference inside the queue is an outcome the model must predict (PR_panic)
		if r := recover(); r != nil {
			fmt.Fprintf(h.w, "peek panic\n")
			h.stats["panic"]++
			h.dead = true
			c = nil
		}
	}()
	c = h.q.peek()
	fmt.Fprintf(h.w, "peek %d\n", h.id(c))
	h.stats["peek"]++
	h.dump()
	return c
}

func (h *pqHarness) pop(c *chunkPayloadData) int {
	err := h.q.pop(c)
	e := pqErrCode(err)
	fmt.Fprintf(h.w, "pop %d %d %d %d %d %d %d\n", h.id(c), c.streamIdentifier, b2i(c.unordered), b2i(c.beginningFragment), b2i(c.endingFragment), len(c.userData), e)
	if e == 0 {
		h.stats["pop"]++
	} else {
		h.stats["poperr"]++
	}
	h.dump()
	return e
}

func (h *pqHarness) setil(b bool) int {
	e := pqErrCode(h.q.setInterleaving(b))
	fmt.Fprintf(h.w, "setil %d %d\n", b2i(b), e)
	h.stats["setil"]++
	if e != 0 {
		h.stats["setilerr"]++
	}
	h.dump()
	return e
}

func (h *pqHarness) newCase(name, kind, mode string, weights [][2]int) {
	fmt.Fprintf(h.w, "case %s\nnew %s %s %d", name, kind, mode, len(weights))
	for _, sw := range weights {
		fmt.Fprintf(h.w, " %d %d", sw[0], sw[1])
	}
	fmt.Fprintln(h.w)
	h.q = newPendingQueue(pqFactory(kind, weights))
	h.ids = map[*chunkPayloadData]int{}
	h.next = 0
	h.dead = false
	h.dump()
	h.stats["case_"+kind+"_"+mode]++
}

// corpus format: lines "new <kind> <mode> <n> (sid w)*", "msg sid unord len len ...", "reset sid",
// "peek", "pop", "setil b"; '#' comments.
func (h *pqHarness) corpus(path string) {
	data, err := os.ReadFile(path)
	if err != nil {
		return
	}
	cid := 0
	for _, line := range strings.Split(string(data), "\n") {
		f := strings.Fields(line)
		if len(f) == 0 || strings.HasPrefix(f[0], "#") {
			continue
		}
		atoi := func(i int) int { v, _ := strconv.Atoi(f[i]); return v }
		switch f[0] {
		case "new":
			cid++
			ws := [][2]int{}
			for i := 4; i+1 < len(f); i += 2 {
				ws = append(ws, [2]int{atoi(i), atoi(i + 1)})
			}
			h.newCase(fmt.Sprintf("corpus%d", cid), f[1], f[2], ws)
		case "msg":
			sizes := []int{}
			for i := 3; i < len(f); i++ {
				sizes = append(sizes, atoi(i))
			}
			h.pushMsg(atoi(1), atoi(2) != 0, sizes)
		case "reset":
			h.push(h.newChunk(atoi(1), false, true, true, 0, true))
		case "peek":
			h.peek()
		case "pop":
			if c := h.peek(); c != nil {
				h.pop(c)
			}
		case "setil":
			h.setil(atoi(1) != 0)
		}
	}
}

func TestVerifPQ(t *testing.T) {
	seed := verifEnvInt("VERIF_SEED", 1)
	nCases := int(verifEnvInt("VERIF_N", 200))
	nOps := int(verifEnvInt("VERIF_OPS", 150))
	w, done := verifOut(t, "/tmp/verif_pq.trace")
	defer done()
	h := &pqHarness{w: w, stats: map[string]int{}}
	if corpus := os.Getenv("VERIF_CORPUS"); corpus != "" {
		h.corpus(corpus)
	}
	rng := rand.New(rand.NewSource(seed))
	dyadic := []int{1, 2, 4, 8, 16, 64, 256, 32768}
	for c := 0; c < nCases; c++ {
		// scheduler configuration
		kind, mode := "none", "exact"
		var weights [][2]int
		nStreams := 1 + rng.Intn(6)
		sids := make([]int, nStreams)
		for i := range sids {
			if rng.Intn(5) == 0 {
				sids[i] = rng.Intn(65536)
			} else {
				sids[i] = rng.Intn(8)
			}
		}
		switch r := rng.Intn(10); {
		case r < 1:
			kind = "none"
		case r < 4:
			kind = "rr"
		case r < 5:
			kind = "default"
		default:
			kind = "wfq"
			if rng.Intn(2) == 0 {
				mode = "approx"
			}
			for _, s := range sids {
				if rng.Intn(4) == 0 {
					continue // unconfigured stream: weight 1
				}
				wt := dyadic[rng.Intn(len(dyadic))]
				if mode == "approx" {
					switch rng.Intn(3) {
					case 0:
						wt = 1 + rng.Intn(12)
					case 1:
						wt = 1 + rng.Intn(65535)
					default:
						wt = []int{3, 5, 6, 7, 9, 10, 100, 1000, 65535}[rng.Intn(9)]
					}
				}
				if rng.Intn(25) == 0 {
					wt = 0
				}
				weights = append(weights, [2]int{s, wt})
			}
		}
		h.newCase(fmt.Sprintf("r%d", c), kind, mode, weights)
		abuse := rng.Intn(6) == 0 // partial messages, pops of a chunk that was not peeked, pops without peek
		if rng.Intn(10) != 0 {
			h.setil(true)
		}
		maxLen := []int{1, 16, 1200, 1200, 65536}[rng.Intn(5)]
		pushBias := 30 + rng.Intn(40)
		var queued []*chunkPayloadData
		for i := 0; i < nOps && !h.dead; i++ {
			r := rng.Intn(100)
			switch {
			case r < pushBias:
				sid := sids[rng.Intn(len(sids))]
				unord := rng.Intn(3) == 0
				if rng.Intn(20) == 0 {
					c := h.newChunk(sid, false, true, true, 0, true) // stream reset marker
					h.push(c)
					queued = append(queued, c)
					break
				}
				nf := 1
				if rng.Intn(2) == 0 {
					nf = 1 + rng.Intn(5)
				}
				sizes := make([]int, nf)
				for k := range sizes {
					sizes[k] = 1 + rng.Intn(maxLen)
					if rng.Intn(4) != 0 && k < nf-1 {
						sizes[k] = maxLen
					}
				}
				if abuse && rng.Intn(3) == 0 {
					// a lone fragment with arbitrary flags
					c := h.newChunk(sid, unord, rng.Intn(2) == 0, rng.Intn(2) == 0, sizes[0], false)
					h.push(c)
					queued = append(queued, c)
					break
				}
				before := h.next
				h.pushMsg(sid, unord, sizes)
				for c, id := range h.ids {
					if id > before {
						queued = append(queued, c)
					}
				}
			case r < pushBias+12:
				h.peek()
			case r < 96:
				if abuse && rng.Intn(4) == 0 {
					// pop something that was not (necessarily) peeked
					var c *chunkPayloadData
					if len(queued) > 0 && rng.Intn(3) != 0 {
						c = queued[rng.Intn(len(queued))]
					} else {
						c = h.newChunk(sids[rng.Intn(len(sids))], rng.Intn(2) == 0, rng.Intn(2) == 0, rng.Intn(2) == 0, 5, false)
					}
					if rng.Intn(2) == 0 {
						h.peek()
						if h.dead {
							break
						}
					}
					// the WFQ error path "popped != chunk" leaves a stale chunkFinish entry that the
					// model does not represent: only exercised for the other policies
					if p, ok := h.q.policy.(*interleavingStreamSchedulerPolicy); ok {
						if s, ok := p.scheduler.(*weightedFairQueueingPendingQueuePolicy); ok && s.streamSelected {
							break
						}
					}
					h.pop(c)
					break
				}
				// what the association does: pop exactly the peeked chunk
				burst := 1
				if rng.Intn(5) == 0 {
					burst = 1 + rng.Intn(8)
				}
				for k := 0; k < burst; k++ {
					c := h.peek()
					if c == nil {
						break
					}
					h.pop(c)
				}
			default:
				if rng.Intn(3) == 0 && !abuse {
					// drain, then switch (the only way a switch succeeds)
					for k := 0; k < 4*nOps; k++ {
						c := h.q.peek()
						if c == nil || h.q.pop(c) != nil {
							break
						}
					}
					fmt.Fprintf(h.w, "drain\n")
					h.stats["drain"]++
					h.dump()
					if h.q.size() != 0 {
						break
					}
				}
				h.setil(rng.Intn(2) == 0)
			}
		}
	}
	keys := []string{}
	for k := range h.stats {
		keys = append(keys, k)
	}
	sort.Strings(keys)
	fmt.Printf("PQDIFF")
	for _, k := range keys {
		fmt.Printf(" %s=%d", k, h.stats[k])
	}
	fmt.Println()
}
