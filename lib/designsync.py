#!/usr/bin/env python3
"""Rewrites the "As built" bullet at the end of every per-property subsection of DESIGN.md section 5 from the
current evidence files (theorem names as Print Assumptions listed them, correspondence / monitor names)."""
import json, os, re
p = '/verif/DESIGN.md'
s = open(p).read()
s = re.sub(r'\n\* \*\*As built \(auto-listed from the last evidence\)\.\*\*.*?(?=\n\n### |\n\n## )', '', s, flags=re.S)


def block(pid):
    try:
        e = json.load(open('/verif/evidence/%s.json' % pid))
    except Exception:
        return None
    th = e['coverage'].get('theorems', [])
    corr = [c['name'] for c in e['coverage'].get('correspondence', [])]
    notes = 'notes/%s.md' % pid if os.path.exists('/verif/notes/%s.md' % pid) else None
    return ("\n* **As built (auto-listed from the last evidence).** Theorems in `coq/props/%s*.v`: %s. Correspondence / monitors run by "
            "`./check %s`: %s.%s" % (pid, ', '.join('`%s`' % x for x in th), pid, ', '.join(corr),
                                     (' Owner notes: `%s`.' % notes) if notes else ''))


for m in list(re.finditer(r'^### (C\d\d) ', s, re.M))[::-1]:
    pid = m.group(1)
    nxt = re.search(r'\n(?=### |## )', s[m.end():])
    end = m.end() + nxt.start() if nxt else len(s)
    b = block(pid)
    if b:
        sec = s[m.start():end].rstrip('\n')
        s = s[:m.start()] + sec + b + '\n' + s[end:]
open(p, 'w').write(s)
print("DESIGN.md section 5 synced")
