// Verification harness (overlay; not part of pion/sctp): C14 — stream close ordering and identifier reuse.
//
//  1. rsRecorder: step-commuting records for the reset model coq/model/Reset.v.  For every harness
//     event that touches the reset protocol of a tracked stream identifier (delivery of a packet with
//     RECONFIG / DATA / FORWARD-TSN chunks, write, Close, OpenStream, ReadSCTP, clock advance with a
//     re-configuration timer expiry, and the gather that follows any of them) the projection of the
//     association before and after is written with the event; /verif/ocaml/cmp_reset.ml replays each
//     record independently on the extracted model.
//  2. rsWorld: application-level bookkeeping and the monitor P_C14 (what each Stream object wrote, what
//     each object read, when it saw io.EOF), plus white-box root-cause monitors.
//  3. scenarios: close with 0 / some / more-than-cwnd queued data, several streams at once, ordered and
//     unordered, DATA and I-DATA (round-robin and WFQ schedulers), faults on DATA and RECONFIG packets
//     (exhaustive <= k faults on the RECONFIG exchange), close -> peer closes -> reopen -> transfer cycles.
package sctp

import (
	"bufio"
	"errors"
	"fmt"
	"io"
	"math/rand"
	"os"
	"sort"
	"strings"
	"sync"
	"testing"
	"testing/synctest"
	"time"
)

// ---------------------------------------------------------------- snapshots (abstraction function)

type rsReqT struct {
	rsn, last uint32
	ids       []uint16
}

type rsTracker struct {
	last  [2]map[uint16]*Stream
	gen   [2]map[uint16]int
	world *rsWorld
}

// syncFromWorld: an object that was created by inbound DATA and unregistered again by a deferred reset within
// the same harness event is never seen in a.streams at a quiescent point; it is seen in the accept channel.
// The accept channel is drained (as the application does at every quiescent point anyway) and every object
// the application knows that is newer than the tracked one is counted as a generation.
func (t *rsTracker) syncFromWorld(side int, sid uint16) {
	w := t.world
	if w == nil || w.s.assoc[side] == nil {
		return
	}
	w.accept(side)
	l := w.objs[side][sid]
	idx := -1
	if last := t.last[side][sid]; last != nil {
		found := false
		for i, o := range l {
			if o.st == last {
				idx, found = i, true
			}
		}
		if !found {
			return // the tracked object is not adopted by the application yet (OpenStream in progress)
		}
	}
	for _, o := range l[idx+1:] {
		t.last[side][sid] = o.st
		t.gen[side][sid]++
	}
}

func newRsTrackerFor(w *rsWorld) *rsTracker {
	t := newRsTracker()
	t.world = w
	return t
}

func newRsTracker() *rsTracker {
	t := &rsTracker{}
	for i := 0; i < 2; i++ {
		t.last[i] = map[uint16]*Stream{}
		t.gen[i] = map[uint16]int{}
	}
	return t
}

type rsSnap struct {
	line      string
	nextTSN   uint32
	nextRSN   uint32
	reconfigs []rsReqT
	reqs      []rsReqT
	nRtos     uint
	trun      bool
	obj       *Stream
	present   bool
	state     StreamState
	eof       bool
	ssn       uint16
	omid      uint32
	umid      uint32
	nPendMine int
	rbufValid bool
}

func rsPendChunks(q *pendingQueue, sid uint16) (fifo bool, u, o []*chunkPayloadData, selO bool) {
	filter := func(b *pendingBaseQueue) []*chunkPayloadData {
		var out []*chunkPayloadData
		if b == nil {
			return out
		}
		for _, c := range b.queue {
			if c != nil && c.streamIdentifier == sid {
				out = append(out, c)
			}
		}
		return out
	}
	switch p := q.policy.(type) {
	case *messagePendingQueuePolicy:
		u = filter(p.unorderedQueue)
		o = filter(p.orderedQueue)
		if p.selected && !p.unorderedIsSelected {
			if h := p.orderedQueue.get(0); h != nil && h.streamIdentifier == sid {
				selO = true
			}
		}
	case *interleavingStreamSchedulerPolicy:
		fifo = true
		switch sch := p.scheduler.(type) {
		case *roundRobinPendingQueuePolicy:
			o = filter(sch.streamQueues[sid])
		case *weightedFairQueueingPendingQueuePolicy:
			o = filter(sch.streamQueues[sid])
		}
	}
	return
}

func rsReqList(sb *strings.Builder, l []rsReqT) {
	fmt.Fprintf(sb, " %d", len(l))
	for _, q := range l {
		fmt.Fprintf(sb, " %d %d %d", q.rsn, q.last, len(q.ids))
		for _, id := range q.ids {
			fmt.Fprintf(sb, " %d", id)
		}
	}
}

// rsSnapshot: the projection of one association onto the model record rs_ep for stream id sid.
func rsSnapshot(a *Association, side int, sid uint16, tr *rsTracker) rsSnap {
	tr.syncFromWorld(side, sid)
	a.lock.RLock()
	defer a.lock.RUnlock()
	var sn rsSnap
	st, present := a.streams[sid]
	if present && st != tr.last[side][sid] {
		tr.last[side][sid] = st
		tr.gen[side][sid]++
	}
	obj := tr.last[side][sid]
	sn.obj, sn.present = obj, present
	var sb strings.Builder
	fmt.Fprintf(&sb, "%d %d %d", b2i(a.getState() == established), b2i(present), tr.gen[side][sid])
	if obj != nil {
		obj.lock.RLock()
		rq := obj.reassemblyQueue
		valid := !rq.useInterleaving && len(rq.unordered) == 0 && len(rq.unorderedChunks) == 0 && len(rq.orderedMID) == 0 && len(rq.unorderedMID) == 0
		var ssns []uint16
		for _, cs := range rq.ordered {
			if len(cs.chunks) != 1 || !cs.chunks[0].beginningFragment || !cs.chunks[0].endingFragment {
				valid = false
			}
			ssns = append(ssns, cs.ssn)
		}
		sn.state, sn.eof = obj.state, errors.Is(obj.readErr, io.EOF)
		sn.ssn, sn.omid, sn.umid = obj.sequenceNumber, obj.nextOrderedMID, obj.nextUnorderedMID
		sn.rbufValid = valid
		fmt.Fprintf(&sb, " %d %d %d %d %d %d %d %d", int(obj.state), b2i(sn.eof), obj.sequenceNumber, obj.nextOrderedMID, obj.nextUnorderedMID, rq.nextSSN, b2i(valid), len(ssns))
		for _, x := range ssns {
			fmt.Fprintf(&sb, " %d", x)
		}
		obj.lock.RUnlock()
	} else {
		sn.rbufValid = true
		fmt.Fprintf(&sb, " 0 0 0 0 0 0 1 0")
	}
	fifo, u, o, selO := rsPendChunks(a.pendingQueue, sid)
	sn.nPendMine = len(u) + len(o)
	fmt.Fprintf(&sb, " %d %d", b2i(fifo), b2i(selO))
	for _, l := range [][]*chunkPayloadData{u, o} {
		fmt.Fprintf(&sb, " %d", len(l))
		for _, c := range l {
			fmt.Fprintf(&sb, " %d %d %d %d", len(c.userData), b2i(c.unordered), b2i(c.beginningFragment), b2i(c.endingFragment))
		}
	}
	sn.nextTSN, sn.nextRSN = a.myNextTSN, a.myNextRSN
	fmt.Fprintf(&sb, " %d %d", a.myNextTSN, a.myNextRSN)
	for rsn, c := range a.reconfigs {
		if p, ok := c.paramA.(*paramOutgoingResetRequest); ok {
			sn.reconfigs = append(sn.reconfigs, rsReqT{rsn, p.senderLastTSN, append([]uint16{}, p.streamIdentifiers...)})
		}
	}
	sort.Slice(sn.reconfigs, func(i, j int) bool { return sn.reconfigs[i].rsn < sn.reconfigs[j].rsn })
	rsReqList(&sb, sn.reconfigs)
	fmt.Fprintf(&sb, " %d", b2i(a.willRetransmitReconfig))
	pq := a.payloadQueue
	var rcvd []uint32
	if pq.chunkSize > 0 {
		for t := pq.cumulativeTSN + 1; sna32LTE(t, pq.tailTSN); t++ {
			if pq.hasChunk(t) {
				rcvd = append(rcvd, t)
			}
		}
	}
	fmt.Fprintf(&sb, " %d %d %d", pq.cumulativeTSN, pq.maxTSNOffset, len(rcvd))
	for _, t := range rcvd {
		fmt.Fprintf(&sb, " %d", t)
	}
	for rsn, p := range a.reconfigRequests {
		sn.reqs = append(sn.reqs, rsReqT{rsn, p.senderLastTSN, append([]uint16{}, p.streamIdentifiers...)})
	}
	sort.Slice(sn.reqs, func(i, j int) bool { return sn.reqs[i].rsn < sn.reqs[j].rsn })
	rsReqList(&sb, sn.reqs)
	if p, ok := a.performedResetRSN[sid]; ok {
		fmt.Fprintf(&sb, " 1 %d", p)
	} else {
		fmt.Fprintf(&sb, " 0 0")
	}
	a.tReconfig.mutex.Lock()
	sn.nRtos, sn.trun = a.tReconfig.nRtos, a.tReconfig.state == rtxTimerStarted
	a.tReconfig.mutex.Unlock()
	fmt.Fprintf(&sb, " %d", b2i(sn.trun))
	sn.line = sb.String()
	return sn
}

// ---------------------------------------------------------------- recorder

type rsRecorder struct {
	mu       *sync.Mutex
	w        *bufio.Writer
	n        *int
	kinds    map[string]int
	skipped  *int
	sids     []uint16
	tr       *rsTracker
	pre      [2]map[uint16]rsSnap
	wireMark int
	world    *rsWorld
	evSids   map[uint16]bool // Close / OpenStream events that concern several identifiers at once
}

func (r *rsRecorder) before(s *sim, ev *simEvent) {
	r.wireMark = len(s.wire)
	for side := 0; side < 2; side++ {
		if r.pre[side] == nil {
			r.pre[side] = map[uint16]rsSnap{}
		}
		if s.assoc[side] == nil {
			continue
		}
		for _, sid := range r.sids {
			r.pre[side][sid] = rsSnapshot(s.assoc[side], side, sid, r.tr)
		}
	}
}

func rsHasSid(ids []uint16, sid uint16) bool {
	for _, x := range ids {
		if x == sid {
			return true
		}
	}
	return false
}

// gatherLines derives the gather events (chunks that received a TSN, requests created) from the
// in-flight queue and a.reconfigs after the event.
func (r *rsRecorder) gatherLines(a *Association, sid uint16, pre, post rsSnap) (lines []string, mine int, newReq int, ok bool) {
	nNew := int(post.nextTSN - pre.nextTSN)
	if nNew < 0 || nNew > 1<<20 {
		return nil, 0, 0, false
	}
	type item struct {
		tsn   uint32
		mine  bool
		n     int
		unord bool
	}
	items := make([]item, 0, nNew)
	a.lock.RLock()
	found := map[uint32]bool{}
	for i := 0; i < a.inflightQueue.chunks.Len(); i++ {
		c := a.inflightQueue.chunks.At(i)
		if off := c.tsn - pre.nextTSN; off < uint32(nNew) && !found[c.tsn] {
			found[c.tsn] = true
			items = append(items, item{c.tsn, c.streamIdentifier == sid, len(c.userData), c.unordered})
		}
	}
	a.lock.RUnlock()
	if len(items) != nNew {
		return nil, 0, 0, false // a new chunk already left the in-flight queue within the same event
	}
	sort.Slice(items, func(i, j int) bool { return items[i].tsn-pre.nextTSN < items[j].tsn-pre.nextTSN })
	var news []rsReqT
	old := map[uint32]bool{}
	for _, q := range pre.reconfigs {
		old[q.rsn] = true
	}
	for _, q := range post.reconfigs {
		if !old[q.rsn] && q.rsn-pre.nextRSN < post.nextRSN-pre.nextRSN {
			news = append(news, q)
		}
	}
	if int(post.nextRSN-pre.nextRSN) != len(news) {
		return nil, 0, 0, false // a request was created and answered within the same event
	}
	sort.Slice(news, func(i, j int) bool { return news[i].rsn-pre.nextRSN < news[j].rsn-pre.nextRSN })
	emit := func(its []item, ids []uint16) {
		var sb strings.Builder
		fmt.Fprintf(&sb, "ev gather %d", len(its))
		for _, it := range its {
			if it.mine {
				fmt.Fprintf(&sb, " 1 %d %d", it.n, b2i(it.unord))
				mine++
			} else {
				sb.WriteString(" 0")
			}
		}
		fmt.Fprintf(&sb, " %d", len(ids))
		for _, id := range ids {
			fmt.Fprintf(&sb, " %d", id)
		}
		lines = append(lines, sb.String())
	}
	k := 0
	for _, q := range news {
		j := k
		for j < len(items) && sna32LTE(items[j].tsn, q.last) {
			j++
		}
		emit(items[k:j], q.ids)
		k = j
	}
	// the write loop always passes through gatherOutboundReconfigPackets / the data gather
	emit(items[k:], nil)
	return lines, mine, len(news), true
}

// outLine: RECONFIG parameters emitted by `side` during the event (responses sorted; retransmitted requests).
func (r *rsRecorder) outLine(s *sim, side int, pre rsSnap) (string, int, int) {
	type resp struct{ rsn, res uint32 }
	var resps []resp
	var rtx []uint32
	old := map[uint32]bool{}
	for _, q := range pre.reconfigs {
		old[q.rsn] = true
	}
	for _, p := range s.wire[r.wireMark:] {
		if p.from != side || p.pkt == nil {
			continue
		}
		for _, c := range p.pkt.chunks {
			rc, ok := c.(*chunkReconfig)
			if !ok {
				continue
			}
			for _, pa := range []param{rc.paramA, rc.paramB} {
				switch v := pa.(type) {
				case *paramReconfigResponse:
					resps = append(resps, resp{v.reconfigResponseSequenceNumber, uint32(v.result)})
				case *paramOutgoingResetRequest:
					if old[v.reconfigRequestSequenceNumber] {
						rtx = append(rtx, v.reconfigRequestSequenceNumber)
					}
				}
			}
		}
	}
	sort.Slice(resps, func(i, j int) bool {
		if resps[i].rsn != resps[j].rsn {
			return resps[i].rsn < resps[j].rsn
		}
		return resps[i].res < resps[j].res
	})
	sort.Slice(rtx, func(i, j int) bool { return rtx[i] < rtx[j] })
	var sb strings.Builder
	fmt.Fprintf(&sb, "out %d", len(resps))
	for _, x := range resps {
		fmt.Fprintf(&sb, " %d %d", x.rsn, x.res)
	}
	fmt.Fprintf(&sb, " %d", len(rtx))
	for _, x := range rtx {
		fmt.Fprintf(&sb, " %d", x)
	}
	return sb.String(), len(resps), len(rtx)
}

func (r *rsRecorder) emit(s *sim, side int, sid uint16, evs []string, force bool, kind string) {
	a := s.assoc[side]
	if a == nil {
		return
	}
	pre := r.pre[side][sid]
	post := rsSnapshot(a, side, sid, r.tr)
	glines, mine, newReq, ok := r.gatherLines(a, sid, pre, post)
	if !ok {
		*r.skipped++
		return
	}
	out, nresp, nrtx := r.outLine(s, side, pre)
	if !force && mine == 0 && newReq == 0 && nresp == 0 && nrtx == 0 && pre.line == post.line {
		return
	}
	if !force && mine == 0 && newReq == 0 && nresp == 0 && nrtx == 0 && len(pre.reqs) == 0 && len(post.reqs) == 0 &&
		len(pre.reconfigs) == 0 && pre.nPendMine == 0 && pre.present == post.present && pre.obj == post.obj {
		return // only other streams' traffic moved the TSN counters
	}
	r.mu.Lock()
	defer r.mu.Unlock()
	*r.n++
	r.kinds[kind]++
	if newReq > 0 {
		r.kinds["marker-pop"]++
	}
	if nrtx > 0 {
		r.kinds["request-rtx"]++
	}
	fmt.Fprintf(r.w, "case r%d\nsid %d\npre %s\n", *r.n, sid, pre.line)
	for _, e := range evs {
		fmt.Fprintf(r.w, "%s\n", e)
	}
	for _, g := range glines {
		fmt.Fprintf(r.w, "%s\n", g)
	}
	fmt.Fprintf(r.w, "%s\npost %s\n", out, post.line)
}

func (r *rsRecorder) after(s *sim, ev *simEvent) {
	switch ev.kind {
	case "deliver":
		if ev.pkt.pkt == nil {
			return
		}
		a := s.assoc[ev.side]
		if a == nil {
			return
		}
		for _, sid := range r.sids {
			var evs []string
			kind := "deliver-other"
			force := false
			pre := r.pre[ev.side][sid]
			for _, c := range ev.pkt.pkt.chunks {
				switch v := c.(type) {
				case *chunkReconfig:
					for _, pa := range []param{v.paramA, v.paramB} {
						switch p := pa.(type) {
						case *paramOutgoingResetRequest:
							var sb strings.Builder
							fmt.Fprintf(&sb, "ev req %d %d %d", p.reconfigRequestSequenceNumber, p.senderLastTSN, len(p.streamIdentifiers))
							for _, id := range p.streamIdentifiers {
								fmt.Fprintf(&sb, " %d", id)
							}
							evs = append(evs, sb.String())
							kind, force = "deliver-request", true
						case *paramReconfigResponse:
							evs = append(evs, fmt.Sprintf("ev resp %d %d", p.reconfigResponseSequenceNumber, uint32(p.result)))
							kind, force = "deliver-response", true
						}
					}
				case *chunkPayloadData:
					mine := v.streamIdentifier == sid
					simple := !v.isIData() && !v.unordered && v.beginningFragment && v.endingFragment
					evs = append(evs, fmt.Sprintf("ev data %d %d %d %d", v.tsn, b2i(mine), b2i(simple), v.streamSequenceNumber))
					if mine && kind == "deliver-other" {
						kind = "deliver-data"
					}
					if len(pre.reqs) > 0 && kind == "deliver-other" {
						kind = "deliver-data-deferred"
					}
				case *chunkForwardTSN:
					has, ssn := 0, uint16(0)
					for _, fs := range v.streams {
						if fs.identifier == sid && pre.present && pre.obj != nil {
							pre.obj.lock.RLock()
							un := pre.obj.unordered
							pre.obj.lock.RUnlock()
							if !un {
								has, ssn = 1, fs.sequence // the last entry for the identifier wins (applied in order)
							}
						}
					}
					evs = append(evs, fmt.Sprintf("ev fwd %d %d %d", v.newCumulativeTSN, has, ssn))
					kind = "deliver-fwd"
				case *chunkIForwardTSN:
					evs = append(evs, fmt.Sprintf("ev fwd %d 0 0", v.newCumulativeTSN))
					kind = "deliver-fwd"
				}
			}
			r.emit(s, ev.side, sid, evs, force, kind)
		}
	case "write":
		if ev.n == 0 {
			return
		}
		a := s.assoc[ev.side]
		st := s.streams[ev.side][ev.sid]
		if a == nil || st == nil {
			return
		}
		for _, sid := range r.sids {
			var evs []string
			if sid == ev.sid {
				if r.tr.last[ev.side][sid] != st && r.pre[ev.side][sid].obj != st {
					*r.skipped++ // the application wrote on an object that is not the latest one
					continue
				}
				st.lock.RLock()
				un := st.unordered
				st.lock.RUnlock()
				mp := int(a.maxPayloadSize)
				var sb strings.Builder
				fmt.Fprintf(&sb, "ev write %d %d %d %d", b2i(a.useInterleaving), b2i(un), b2i(ev.err == nil), (ev.n+mp-1)/mp)
				for rem := ev.n; rem > 0; rem -= mp {
					f := rem
					if f > mp {
						f = mp
					}
					fmt.Fprintf(&sb, " %d", f)
				}
				evs = append(evs, sb.String())
			}
			r.emit(s, ev.side, sid, evs, sid == ev.sid, "write")
		}
	case "rsclose", "rsopen", "rsread":
		for _, sid := range r.sids {
			var evs []string
			hit := sid == ev.sid
			if r.evSids != nil {
				hit = r.evSids[sid]
			}
			if hit {
				switch ev.kind {
				case "rsclose":
					evs = append(evs, "ev close")
				case "rsopen":
					evs = append(evs, "ev open")
				case "rsread":
					evs = append(evs, fmt.Sprintf("ev read %d", ev.n)) // n: 1 = message, 2 = EOF
				}
			}
			r.emit(s, ev.side, sid, evs, hit, ev.kind[2:])
		}
	case "advance":
		for side := 0; side < 2; side++ {
			a := s.assoc[side]
			if a == nil {
				continue
			}
			for _, sid := range r.sids {
				pre := r.pre[side][sid]
				a.tReconfig.mutex.Lock()
				nr := a.tReconfig.nRtos
				a.tReconfig.mutex.Unlock()
				k := int(nr) - int(pre.nRtos)
				if k < 0 || !pre.trun {
					k = 0
				}
				var evs []string
				for i := 0; i < k; i++ {
					evs = append(evs, "ev expire")
					if i+1 < k {
						evs = append(evs, "ev gather 0 0")
					}
				}
				kind := "advance"
				if k > 0 {
					kind = "treconfig-expiry"
				}
				r.emit(s, side, sid, evs, k > 0, kind)
			}
		}
	}
}

// ---------------------------------------------------------------- application bookkeeping + monitor P_C14

type rsObj struct {
	st     *Stream
	side   int
	sid    uint16
	ord    int   // ordinal among the objects created under (side, sid)
	wrote  []int // indices (into sim.sent[side][sid]) of the messages accepted on this object
	closed bool  // the application called Close on this object
	read   []int // indices of the peer's messages read from this object, in order
	eof    bool
	unord  bool
	pr     bool // partial reliability: messages may legitimately be abandoned
}

type rsAct int

const (
	rsDeliver rsAct = iota
	rsDrop
	rsDupShort  // deliver now, deliver a copy a few events later
	rsDupLong   // deliver now, deliver a copy when the scenario releases the long holds
	rsHoldShort // deliver a few events later
	rsHoldLong  // deliver when the scenario releases the long holds
)

func (a rsAct) String() string {
	return [...]string{"deliver", "drop", "dup-short", "dup-long", "hold-short", "hold-long"}[a]
}

type rsHold struct {
	events int  // > 0: released after that many pump iterations
	long   bool // released by releaseLong()
}

type rsWorld struct {
	s          *sim
	rng        *rand.Rand
	objs       [2]map[uint16][]*rsObj
	msgObj     [2]map[uint16]map[int]int     // writer side, sid, message index -> ordinal of the object it was written on
	readBy     [2]map[uint16]map[int]bool    // reader side, sid, message index (of the peer) -> delivered
	reqIDs     [2]map[uint32][]uint16        // requests emitted by side: rsn -> ids
	perf       [2]map[uint16]map[uint32]bool // perf[x][sid][rsn]: side x answered SuccessPerformed to the peer's request rsn that names sid
	wireSeen   int
	held       map[int]*rsHold
	sched      map[int]rsAct // ordinal of RECONFIG packet (emission order, both directions) -> action
	ordinal    map[int]int   // packet id -> RECONFIG ordinal
	nReconf    int
	dataLoss   int // percent of non-RECONFIG packets dropped
	dataDup    int
	dataReo    int
	step       time.Duration
	stats      *rsStats
	preEOF     [2]map[uint16]bool
	preCnt     [2]map[uint16][3]uint32
	preObj     [2]map[uint16]*Stream
	strict     bool
	rec        *rsRecorder
	decidedAll map[int]bool
	stop       bool
	tainted    map[uint16]rsTaint
	noLong     bool            // quiesce mode: nothing is held across a reopen
	blamed     map[string]bool // (side,sid,ord) for which a root-cause monitor already fired
	apiMode    bool            // reopen on the API signal only: outside the property's precondition, failures become observations
}

type rsStats struct {
	scenarios, records, events, packets, reconfPkts, closes, opens, reads, eofs, msgs, fails, obs int
	faults                                                                                        map[string]int
	keys                                                                                          map[string]int
}

func newRsWorld(s *sim, seed int64, st *rsStats) *rsWorld {
	w := &rsWorld{s: s, rng: rand.New(rand.NewSource(seed)), held: map[int]*rsHold{}, sched: map[int]rsAct{}, ordinal: map[int]int{},
		step: 100 * time.Millisecond, stats: st, strict: true, blamed: map[string]bool{}, decidedAll: map[int]bool{}, tainted: map[uint16]rsTaint{}}
	for i := 0; i < 2; i++ {
		w.objs[i] = map[uint16][]*rsObj{}
		w.msgObj[i] = map[uint16]map[int]int{}
		w.readBy[i] = map[uint16]map[int]bool{}
		w.reqIDs[i] = map[uint32][]uint16{}
		w.perf[i] = map[uint16]map[uint32]bool{}
		w.preEOF[i] = map[uint16]bool{}
		w.preCnt[i] = map[uint16][3]uint32{}
		w.preObj[i] = map[uint16]*Stream{}
	}
	return w
}

func (w *rsWorld) fail(key, what string) {
	if w.apiMode {
		w.note("api-reopen-"+key, what)
		w.stop = true
		return
	}
	w.stats.keys[key]++
	w.s.fail("C14", fmt.Sprintf("%s (%s)", what, key))
}

func rsObjKey(o *rsObj) string { return fmt.Sprintf("%d/%d/%d", o.side, o.sid, o.ord) }

// rsTaint: a white-box root-cause monitor (stale request applied to a newer incarnation / late response
// rewinding the counters of a newer incarnation) fired on identifier sid at incarnation ord.  From that
// point the one-to-one pairing of the writer's and the reader's Stream objects of that identifier is void:
// the reader's object was unregistered while its writer was still open, so the rest of that incarnation's
// data creates an extra object at the reader, the application closes on the spurious EOF, sequence numbers
// are reused.  What P_C14 then sees on the same identifier for incarnations >= ord is a consequence of the
// finding already reported, not a finding of its own.
type rsTaint struct {
	ord int
	key string
}

func (w *rsWorld) taint(sid uint16, ord int, key string) {
	if t, ok := w.tainted[sid]; ok {
		if !strings.Contains(t.key, key) {
			t.key += "+" + key // both root causes were reported on this identifier
		}
		if ord < t.ord {
			t.ord = ord
		}
		w.tainted[sid] = t
		return
	}
	w.tainted[sid] = rsTaint{ord, key}
}

// symptom reports a P_C14 violation seen on incarnation ord (ord2: the other incarnation involved, or -1) of sid,
// unless a root cause was already reported for that identifier at or before that incarnation.
func (w *rsWorld) symptom(sid uint16, ord, ord2 int, key, what string) {
	if t, ok := w.tainted[sid]; ok && (ord >= t.ord || ord2 >= t.ord) {
		w.stats.keys["after-"+t.key+":"+key]++
		w.s.logEvent("consequence of %s on sid=%d from incarnation %d, not reported separately: %s (%s)", t.key, sid, t.ord, what, key)
		return
	}
	w.fail(key, what)
}

// note: an observation that refutes a clause of the decomposition but not the property text itself
func (w *rsWorld) note(key, what string) {
	w.stats.keys["obs:"+key]++
	w.stats.obs++
	fmt.Printf("SIMOBS prop=C14 %s (%s) | scenario=%s seed=%d t=%v\n", what, key, w.s.label, w.s.opts.seed, w.s.now())
}

func (w *rsWorld) latest(side int, sid uint16) *rsObj {
	l := w.objs[side][sid]
	if len(l) == 0 {
		return nil
	}
	return l[len(l)-1]
}

func (w *rsWorld) adopt(side int, st *Stream) *rsObj {
	sid := st.streamIdentifier
	for _, o := range w.objs[side][sid] {
		if o.st == st {
			return o
		}
	}
	o := &rsObj{st: st, side: side, sid: sid, ord: len(w.objs[side][sid])}
	w.objs[side][sid] = append(w.objs[side][sid], o)
	w.s.streams[side][sid] = st
	return o
}

func (w *rsWorld) event(kind string, side int, sid uint16, n int, fn func()) {
	w.eventSids(kind, side, sid, nil, n, fn)
}

func (w *rsWorld) eventSids(kind string, side int, sid uint16, sids map[uint16]bool, n int, fn func()) {
	ev := &simEvent{kind: kind, side: side, sid: sid, n: n}
	if w.rec != nil {
		w.rec.evSids = sids
		defer func() { w.rec.evSids = nil }()
	}
	for _, o := range w.s.obs {
		o.before(w.s, ev)
	}
	fn()
	w.s.settle()
	for _, o := range w.s.obs {
		o.after(w.s, ev)
	}
}

func (w *rsWorld) open(side int, sid uint16, unordered bool) *rsObj {
	var st *Stream
	var err error
	w.event("rsopen", side, sid, 0, func() {
		st, err = w.s.assoc[side].OpenStream(sid, PayloadTypeWebRTCBinary)
		w.s.logEvent("open side=%d sid=%d -> %v", side, sid, err)
	})
	w.stats.opens++
	if err != nil || st == nil {
		return nil
	}
	o := w.adopt(side, st)
	if unordered {
		st.SetReliabilityParams(true, ReliabilityTypeReliable, 0)
		o.unord = true
	}
	return o
}

func (w *rsWorld) accept(side int) {
	a := w.s.assoc[side]
	for {
		select {
		case st, ok := <-a.acceptCh:
			if !ok || st == nil {
				return
			}
			w.adopt(side, st)
			continue
		default:
		}
		return
	}
}

func (w *rsWorld) write(side int, sid uint16, n int) error {
	o := w.latest(side, sid)
	if o == nil {
		return errors.New("no object")
	}
	w.s.streams[side][sid] = o.st
	idx := len(w.s.sent[side][sid])
	err := w.s.write(side, sid, n, PayloadTypeWebRTCBinary)
	if err == nil {
		o.wrote = append(o.wrote, idx)
		if w.msgObj[side][sid] == nil {
			w.msgObj[side][sid] = map[int]int{}
		}
		w.msgObj[side][sid][idx] = o.ord
		w.stats.msgs++
	}
	return err
}

func (w *rsWorld) close(o *rsObj) error {
	var err error
	w.event("rsclose", o.side, o.sid, 0, func() {
		err = o.st.Close()
		w.s.logEvent("close side=%d sid=%d obj#%d -> %v", o.side, o.sid, o.ord, err)
	})
	o.closed = true
	w.stats.closes++
	return err
}

// closeMany: several streams are closed before the write loop runs (one outgoing reset request names them all).
func (w *rsWorld) closeMany(objs []*rsObj) {
	if len(objs) == 0 {
		return
	}
	sids := map[uint16]bool{}
	for _, o := range objs {
		sids[o.sid] = true
	}
	w.eventSids("rsclose", objs[0].side, objs[0].sid, sids, 0, func() {
		for _, o := range objs {
			err := o.st.Close()
			w.s.logEvent("close side=%d sid=%d obj#%d -> %v", o.side, o.sid, o.ord, err)
			o.closed = true
			w.stats.closes++
		}
	})
}

// readObj drains what is readable on one object without ever blocking.
func (w *rsWorld) readObj(o *rsObj) {
	buf := make([]byte, 1<<17)
	for !o.eof {
		o.st.lock.RLock()
		readable := o.st.reassemblyQueue.isReadable()
		hasErr := o.st.readErr != nil
		o.st.lock.RUnlock()
		if !readable && !hasErr {
			return
		}
		var k int
		var err error
		kind := 1
		if !readable {
			kind = 2
		}
		doRead := func() { k, _, err = o.st.ReadSCTP(buf) }
		if w.latest(o.side, o.sid) == o {
			w.event("rsread", o.side, o.sid, kind, doRead)
		} else {
			doRead()
		}
		w.stats.reads++
		if err != nil {
			if errors.Is(err, io.EOF) {
				o.eof = true
				w.stats.eofs++
				w.s.logEvent("read side=%d sid=%d obj#%d -> EOF", o.side, o.sid, o.ord)
				w.onEOF(o)
			} else {
				w.fail("read-error", fmt.Sprintf("read failed: side=%d sid=%d obj#%d err=%v", o.side, o.sid, o.ord, err))
			}
			return
		}
		if readable && kind == 2 {
			return
		}
		w.onMsg(o, buf[:k])
	}
}

func (w *rsWorld) readAll(side int) {
	w.accept(side)
	sids := make([]int, 0)
	for sid := range w.objs[side] {
		sids = append(sids, int(sid))
	}
	sort.Ints(sids)
	for _, sid := range sids {
		for _, o := range w.objs[side][uint16(sid)] {
			w.readObj(o)
		}
	}
}

func (w *rsWorld) onMsg(o *rsObj, data []byte) {
	peer := 1 - o.side
	found := -1
	for _, m := range w.s.sent[peer][o.sid] {
		if m.n == len(data) && string(simPayload(peer, o.sid, m.idx, m.n)) == string(data) {
			if found < 0 || !w.readBy[o.side][o.sid][m.idx] {
				found = m.idx
				if !w.readBy[o.side][o.sid][m.idx] {
					break
				}
			}
		}
	}
	w.s.logEvent("read side=%d sid=%d obj#%d len=%d -> msg#%d", o.side, o.sid, o.ord, len(data), found)
	if found < 0 {
		w.fail("altered-message", fmt.Sprintf("delivered message is not one of the written messages: side=%d sid=%d len=%d", o.side, o.sid, len(data)))
		return
	}
	if w.readBy[o.side][o.sid] == nil {
		w.readBy[o.side][o.sid] = map[int]bool{}
	}
	if w.readBy[o.side][o.sid][found] {
		w.symptom(o.sid, o.ord, -1, "msg-delivered-twice", fmt.Sprintf("message delivered twice: side=%d sid=%d msg#%d", o.side, o.sid, found))
	}
	w.readBy[o.side][o.sid][found] = true
	wo := w.msgObj[peer][o.sid][found]
	if wo != o.ord {
		w.symptom(o.sid, o.ord, wo, "msg-in-wrong-incarnation", fmt.Sprintf("message #%d written on incarnation %d of the stream was delivered to the reader's incarnation %d: reader side=%d sid=%d", found, wo, o.ord, o.side, o.sid))
	}
	if !w.s.sent[peer][o.sid][found].unordered {
		for _, prev := range o.read {
			if prev > found && !w.s.sent[peer][o.sid][prev].unordered {
				w.symptom(o.sid, o.ord, -1, "ordered-out-of-order", fmt.Sprintf("ordered message #%d delivered after #%d: reader side=%d sid=%d", found, prev, o.side, o.sid))
				break
			}
		}
	}
	o.read = append(o.read, found)
}

func (w *rsWorld) writerOf(o *rsObj) *rsObj {
	l := w.objs[1-o.side][o.sid]
	if o.ord < len(l) {
		return l[o.ord]
	}
	return nil
}

func (w *rsWorld) onEOF(o *rsObj) {
	wr := w.writerOf(o)
	if w.blamed[rsObjKey(o)] {
		return
	}
	if wr == nil || !wr.closed {
		w.symptom(o.sid, o.ord, -1, "eof-without-close", fmt.Sprintf("reader got io.EOF on incarnation %d although the writer never closed that incarnation: reader side=%d sid=%d", o.ord, o.side, o.sid))
		return
	}
	got := map[int]bool{}
	for _, i := range o.read {
		got[i] = true
	}
	missing := 0
	for _, i := range wr.wrote {
		if !got[i] {
			missing++
		}
	}
	if missing > 0 && !wr.pr {
		w.symptom(o.sid, o.ord, -1, "eof-before-all-data", fmt.Sprintf("reader got io.EOF after %d of the %d messages written before Close: reader side=%d sid=%d incarnation %d", len(wr.wrote)-missing, len(wr.wrote), o.side, o.sid, o.ord))
	}
}

// finalCheck: after the network healed (bounded virtual time).
func (w *rsWorld) finalCheck() {
	for side := 0; side < 2; side++ {
		for sid, l := range w.objs[side] {
			for _, wr := range l {
				rd := (*rsObj)(nil)
				if rl := w.objs[1-side][sid]; wr.ord < len(rl) {
					rd = rl[wr.ord]
				}
				lost := 0
				for _, i := range wr.wrote {
					if !w.readBy[1-side][sid][i] {
						lost++
					}
				}
				if lost > 0 && !wr.pr && !w.blamed[rsObjKey(wr)] {
					w.fail("message-lost", fmt.Sprintf("%d of %d messages written on incarnation %d were never delivered: writer side=%d sid=%d closed=%v", lost, len(wr.wrote), wr.ord, side, sid, wr.closed))
				}
				if wr.closed && rd != nil && !rd.eof {
					w.fail("no-eof-in-bounded-time", fmt.Sprintf("writer closed incarnation %d but the reader never got io.EOF: writer side=%d sid=%d", wr.ord, side, sid))
				}
			}
		}
	}
}

// wire bookkeeping: which requests exist, which were answered SuccessPerformed (first emission counts)
func (w *rsWorld) scanWire() {
	for ; w.wireSeen < len(w.s.wire); w.wireSeen++ {
		p := w.s.wire[w.wireSeen]
		if p.pkt == nil {
			continue
		}
		for _, c := range p.pkt.chunks {
			rc, ok := c.(*chunkReconfig)
			if !ok {
				continue
			}
			if _, seen := w.ordinal[p.id]; !seen {
				w.ordinal[p.id] = w.nReconf
				w.nReconf++
				w.stats.reconfPkts++
			}
			for _, pa := range []param{rc.paramA, rc.paramB} {
				switch v := pa.(type) {
				case *paramOutgoingResetRequest:
					w.reqIDs[p.from][v.reconfigRequestSequenceNumber] = append([]uint16{}, v.streamIdentifiers...)
				case *paramReconfigResponse:
					if v.result == reconfigResultSuccessPerformed {
						for _, sid := range w.reqIDs[1-p.from][v.reconfigResponseSequenceNumber] {
							if w.perf[p.from][sid] == nil {
								w.perf[p.from][sid] = map[uint32]bool{}
							}
							w.perf[p.from][sid][v.reconfigResponseSequenceNumber] = true
						}
					}
				}
			}
		}
	}
}

// quiet: no reset state naming sid is left anywhere: no stored request on either side (sender's a.reconfigs,
// receiver's a.reconfigRequests) and no RECONFIG packet naming it parked or held in the network.
func (w *rsWorld) quiet(sid uint16) bool {
	for side := 0; side < 2; side++ {
		a := w.s.assoc[side]
		a.lock.RLock()
		busy := false
		for _, c := range a.reconfigs {
			if p, ok := c.paramA.(*paramOutgoingResetRequest); ok && rsHasSid(p.streamIdentifiers, sid) {
				busy = true
			}
		}
		for _, p := range a.reconfigRequests {
			if rsHasSid(p.streamIdentifiers, sid) {
				busy = true
			}
		}
		a.lock.RUnlock()
		if busy {
			return false
		}
		for _, p := range w.s.flight[side] {
			if p.pkt == nil {
				continue
			}
			for _, c := range p.pkt.chunks {
				rc, ok := c.(*chunkReconfig)
				if !ok {
					continue
				}
				for _, pa := range []param{rc.paramA, rc.paramB} {
					switch v := pa.(type) {
					case *paramOutgoingResetRequest:
						if rsHasSid(v.streamIdentifiers, sid) {
							return false
						}
					case *paramReconfigResponse:
						if rsHasSid(w.reqIDs[1-side][v.reconfigResponseSequenceNumber], sid) {
							return false
						}
					}
				}
			}
		}
	}
	return true
}

// resetsDone: number of distinct requests of `from` naming sid that the peer answered SuccessPerformed.
func (w *rsWorld) resetsDone(from int, sid uint16) int {
	return len(w.perf[1-from][sid])
}

// simObserver: white-box root-cause monitors around deliveries
func (w *rsWorld) before(s *sim, ev *simEvent) {
	if ev.kind != "deliver" {
		return
	}
	if ev.pkt.pkt != nil {
		for _, c := range ev.pkt.pkt.chunks {
			if rc, ok := c.(*chunkReconfig); ok {
				for _, pa := range []param{rc.paramA, rc.paramB} {
					switch v := pa.(type) {
					case *paramOutgoingResetRequest:
						s.logEvent("  RECONFIG to side=%d: request rsn=%d senderLastTSN=%d ids=%v", ev.side, v.reconfigRequestSequenceNumber, v.senderLastTSN, v.streamIdentifiers)
					case *paramReconfigResponse:
						s.logEvent("  RECONFIG to side=%d: response rsn=%d result=%d", ev.side, v.reconfigResponseSequenceNumber, uint32(v.result))
					}
				}
			}
		}
	}
	for sid, l := range w.objs[ev.side] {
		o := l[len(l)-1]
		o.st.lock.RLock()
		w.preEOF[ev.side][sid] = o.st.readErr != nil
		w.preCnt[ev.side][sid] = [3]uint32{uint32(o.st.sequenceNumber), o.st.nextOrderedMID, o.st.nextUnorderedMID}
		w.preObj[ev.side][sid] = o.st
		o.st.lock.RUnlock()
	}
}

func (w *rsWorld) after(s *sim, ev *simEvent) {
	w.scanWire()
	if ev.kind != "deliver" || ev.pkt.pkt == nil {
		return
	}
	hasReq, hasResp, hasFwd := false, false, false
	for _, c := range ev.pkt.pkt.chunks {
		switch v := c.(type) {
		case *chunkReconfig:
			for _, pa := range []param{v.paramA, v.paramB} {
				switch pa.(type) {
				case *paramOutgoingResetRequest:
					hasReq = true
				case *paramReconfigResponse:
					hasResp = true
				}
			}
		case *chunkForwardTSN, *chunkIForwardTSN:
			hasFwd = true
		}
	}
	a := s.assoc[ev.side]
	if hasReq {
		for sid, l := range w.objs[ev.side] {
			o := l[len(l)-1]
			o.st.lock.RLock()
			eof := errors.Is(o.st.readErr, io.EOF)
			o.st.lock.RUnlock()
			if eof && !w.preEOF[ev.side][sid] {
				if wr := w.writerOf(o); wr == nil || !wr.closed {
					w.blamed[rsObjKey(o)] = true
					w.taint(sid, o.ord, "stale-request-resets-new-incarnation")
					w.fail("stale-request-resets-new-incarnation", fmt.Sprintf("an outgoing-reset request of an earlier incarnation was applied to incarnation %d of the stream - reader gets EOF, stream unregistered - although its writer has not closed it: reader side=%d sid=%d", o.ord, ev.side, sid))
				}
			}
		}
	}
	if hasResp {
		for sid, l := range w.objs[ev.side] {
			o := l[len(l)-1]
			if w.preObj[ev.side][sid] != o.st {
				continue
			}
			pc := w.preCnt[ev.side][sid]
			pre := struct{ ssn, omid, umid uint32 }{pc[0], pc[1], pc[2]}
			o.st.lock.RLock()
			ssn, om, um, state := o.st.sequenceNumber, o.st.nextOrderedMID, o.st.nextUnorderedMID, o.st.state
			o.st.lock.RUnlock()
			if state == StreamStateOpen && !o.closed && (pre.ssn != 0 || pre.omid != 0 || pre.umid != 0) && ssn == 0 && om == 0 && um == 0 {
				w.blamed[rsObjKey(o)] = true
				w.taint(sid, o.ord, "late-response-rewinds-open-stream")
				w.fail("late-response-rewinds-open-stream", fmt.Sprintf("a reset response for an earlier incarnation set the sequence counters of the open incarnation %d back to 0 - ssn %d, mid %d/%d before -: side=%d sid=%d", o.ord, pre.ssn, pre.omid, pre.umid, ev.side, sid))
			}
		}
	}
	if hasFwd && a != nil {
		a.lock.RLock()
		cum := a.payloadQueue.getcumulativeTSN()
		for rsn, q := range a.reconfigRequests {
			if sna32LTE(q.senderLastTSN, cum) {
				w.note("deferred-reset-not-retried-after-forward-tsn", fmt.Sprintf("after a FORWARD-TSN moved the cumulative TSN to %d the stored reset request rsn=%d (senderLastTSN=%d) stays deferred until the peer retransmits it: side=%d", cum, rsn, q.senderLastTSN, ev.side))
			}
		}
		a.lock.RUnlock()
	}
}

// ---------------------------------------------------------------- network pump with fault schedule

func rsIsReconfig(p *simPkt) bool {
	if p.pkt == nil {
		return false
	}
	for _, c := range p.pkt.chunks {
		if _, ok := c.(*chunkReconfig); ok {
			return true
		}
	}
	return false
}

func (w *rsWorld) releaseLong() {
	for id, h := range w.held {
		if h.long {
			delete(w.held, id)
		}
	}
}

func (w *rsWorld) tick() {
	for id, h := range w.held {
		if !h.long {
			h.events--
			if h.events <= 0 {
				delete(w.held, id)
			}
		}
	}
}

// next: oldest parked packet that is not held
func (w *rsWorld) next() (from, idx int, p *simPkt) {
	best := -1
	for f := 0; f < 2; f++ {
		for i, q := range w.s.flight[f] {
			if w.held[q.id] != nil {
				continue
			}
			if best < 0 || q.id < best {
				best, from, idx, p = q.id, f, i, q
			}
			break
		}
	}
	return
}

// pump runs the network until done() or the limit; app() runs at every quiescent point.
func (w *rsWorld) pump(limit time.Duration, clean bool, app func(), done func() bool) bool {
	s := w.s
	deadline := s.now() + limit
	for s.now() < deadline {
		w.scanWire()
		app()
		if done() {
			return true
		}
		w.tick()
		from, idx, p := w.next()
		if p == nil {
			s.advance(w.step)
			w.stats.events++
			continue
		}
		w.stats.events++
		if rsIsReconfig(p) {
			act := rsDeliver
			if !w.decidedAll[p.id] {
				if o, ok := w.ordinal[p.id]; ok {
					act = w.sched[o]
				}
				w.decidedAll[p.id] = true
			}
			if act != rsDeliver {
				w.stats.faults["reconfig-"+act.String()]++
				s.logEvent("fault %s on RECONFIG packet id=%d ordinal=%d", act, p.id, w.ordinal[p.id])
			}
			switch act {
			case rsDeliver:
				s.deliver(from, idx, false)
			case rsDrop:
				s.drop(from, idx)
			case rsDupShort:
				w.held[p.id] = &rsHold{events: 4}
				s.deliver(from, idx, true)
			case rsDupLong:
				w.held[p.id] = &rsHold{long: !w.noLong, events: 40}
				s.deliver(from, idx, true)
			case rsHoldShort:
				w.held[p.id] = &rsHold{events: 6}
			case rsHoldLong:
				w.held[p.id] = &rsHold{long: !w.noLong, events: 40}
			}
			continue
		}
		if clean {
			s.deliver(from, idx, false)
			continue
		}
		f := w.rng.Intn(100)
		switch {
		case f < w.dataLoss:
			s.drop(from, idx)
			w.stats.faults["data-drop"]++
		case f < w.dataLoss+w.dataDup:
			s.deliver(from, idx, true)
			w.stats.faults["data-dup"]++
		case f < w.dataLoss+w.dataDup+w.dataReo && len(s.flight[from]) > 1:
			j := w.rng.Intn(len(s.flight[from]))
			if q := s.flight[from][j]; w.held[q.id] == nil && !rsIsReconfig(q) {
				idx = j
				w.stats.faults["data-reorder"]++
			}
			s.deliver(from, idx, false)
		default:
			s.deliver(from, idx, false)
		}
	}
	w.scanWire()
	app()
	return done()
}

// ---------------------------------------------------------------- scenarios

type rsCfg struct {
	seed       int64
	il         int // 0 DATA, 1 I-DATA
	rr         bool
	unordered  bool
	mixed      bool // unordered stream that also carries ordered (DCEP-like) messages is not possible through the API; mixed = alternate streams
	nStreams   int
	nData      int
	big        bool
	cycles     int
	simul      bool
	slowReader bool
	peerWrites bool
	nDataBig   bool
	together   bool // all streams are closed before the write loop runs: one request names them all
	quiesce    bool // reopen only when no RECONFIG state naming the identifier is left (stored requests, parked packets)
	apiReopen  bool // reopen as soon as the API shows the stream closed (State()==Closed and EOF read) instead of waiting for both resets
	loss       int
	sched      map[int]rsAct
	wrap       bool
	label      string
}

func (c rsCfg) String() string {
	var sc []string
	for k, v := range c.sched {
		sc = append(sc, fmt.Sprintf("%d:%s", k, v))
	}
	sort.Strings(sc)
	return fmt.Sprintf("reset/%s/il=%d/rr=%v/unord=%v/streams=%d/data=%d/big=%v/cycles=%d/simul=%v/slow=%v/peerw=%v/together=%v/quiesce=%v/api=%v/loss=%d/faults=[%s]",
		c.label, c.il, c.rr, c.unordered, c.nStreams, c.nData, c.big, c.cycles, c.simul, c.slowReader, c.peerWrites, c.together, c.quiesce, c.apiReopen, c.loss, strings.Join(sc, ","))
}

var rsRecorderOut struct {
	mu      sync.Mutex
	w       *bufio.Writer
	n       int
	skipped int
	kinds   map[string]int
}

func runResetScenario(t *testing.T, c rsCfg, st *rsStats) []string {
	var fails []string
	synctest.Test(t, func(t *testing.T) {
		rng := rand.New(rand.NewSource(c.seed))
		o := simOpts{seed: c.seed, interleaveA: c.il, interleaveB: c.il, setTSN: true, schedRR: c.rr}
		o.tsnA, o.tsnB = rng.Uint32(), rng.Uint32()
		if c.wrap {
			o.tsnA = uint32(0) - uint32(rng.Intn(40)) - 1
			o.tsnB = uint32(0) - uint32(rng.Intn(40)) - 1
		}
		s := newSim(t, o, c.String())
		w := newRsWorld(s, c.seed, st)
		w.sched = c.sched
		w.apiMode = c.apiReopen
		w.noLong = c.quiesce
		w.dataLoss, w.dataDup, w.dataReo = c.loss, c.loss/2, c.loss
		sids := make([]uint16, c.nStreams)
		for i := range sids {
			sids[i] = uint16(1 + 2*i)
		}
		if rsRecorderOut.w != nil {
			w.rec = &rsRecorder{mu: &rsRecorderOut.mu, w: rsRecorderOut.w, n: &rsRecorderOut.n, kinds: rsRecorderOut.kinds,
				skipped: &rsRecorderOut.skipped, sids: sids, tr: newRsTrackerFor(w), world: w}
			s.obs = append(s.obs, w.rec)
		}
		s.obs = append(s.obs, w)
		if !s.establish() {
			s.fail("C04", fmt.Sprintf("fault-free handshake did not complete: errs=%v,%v", s.hsErr[0], s.hsErr[1]))
			s.closeBoth()
			fails = s.fails
			s.report()
			return
		}
		if int(StreamStateOpen) != 0 || int(StreamStateClosing) != 1 || int(StreamStateClosed) != 2 {
			w.fail("stream-state-constants", "StreamState constants differ from the model's rs_st_open/closing/closed")
		}
		a := s.assoc[0]
		mp := int(a.maxPayloadSize)
		size := func() int {
			if c.big {
				return mp + 1 + rng.Intn(3*mp)
			}
			switch rng.Intn(4) {
			case 0:
				return 1 + rng.Intn(20)
			case 1:
				return mp + 1 + rng.Intn(mp)
			default:
				return 1 + rng.Intn(mp)
			}
		}
		isUnord := func(i int) bool { return c.unordered && (!c.mixed || i%2 == 0) }
		// both ends open the channels (as the DCEP layer does)
		for i, sid := range sids {
			w.open(0, sid, isUnord(i))
			w.open(1, sid, isUnord(i))
		}
		reader := func() {
			for side := 0; side < 2; side++ {
				if c.slowReader && side == 1 {
					// the slow reader touches an object only once the reset has arrived
					w.accept(side)
					for _, l := range w.objs[side] {
						for _, ob := range l {
							ob.st.lock.RLock()
							hasErr := ob.st.readErr != nil
							ob.st.lock.RUnlock()
							if hasErr {
								w.readObj(ob)
							}
						}
					}
					continue
				}
				w.readAll(side)
			}
		}
		// the peer closes its direction when it sees EOF (RFC 8831 6.7)
		closeOnEOF := func() {
			for side := 0; side < 2; side++ {
				for _, sid := range sids {
					for _, ob := range w.objs[side][sid] {
						if ob.eof && !ob.closed {
							_ = w.close(ob)
						}
					}
				}
			}
		}
		app := func() { reader(); closeOnEOF() }
		limit := 90 * time.Second
		for cyc := 1; cyc <= c.cycles && len(s.fails) == 0 && !w.stop; cyc++ {
			// transfer
			for k := 0; k < c.nData; k++ {
				for _, sid := range sids {
					if err := w.write(0, sid, size()); err != nil {
						w.fail("write-on-open-incarnation-refused", fmt.Sprintf("write refused on a freshly opened incarnation: side=0 sid=%d err=%v cycle=%d", sid, err, cyc))
					}
					if c.peerWrites && k%2 == 0 {
						_ = w.write(1, sid, size())
					}
				}
				if !c.big && rng.Intn(3) == 0 {
					w.pump(time.Duration(20+rng.Intn(200))*time.Millisecond, false, app, func() bool { return false })
				}
			}
			// close (all streams at the same instant, data still queued)
			var cl [2][]*rsObj
			for _, sid := range sids {
				cl[0] = append(cl[0], w.latest(0, sid))
				if ob := w.latest(1, sid); c.simul && ob != nil && !ob.closed {
					cl[1] = append(cl[1], ob)
				}
			}
			if c.together {
				w.closeMany(cl[0])
				w.closeMany(cl[1])
			} else {
				for side := 0; side < 2; side++ {
					for _, ob := range cl[side] {
						_ = w.close(ob)
					}
				}
			}
			bothReset := func() bool {
				for _, sid := range sids {
					if c.apiReopen {
						ob := w.latest(0, sid)
						if !(ob.eof && ob.st.State() == StreamStateClosed) {
							return false
						}
						continue
					}
					if w.resetsDone(0, sid) < cyc || w.resetsDone(1, sid) < cyc {
						return false
					}
					if c.quiesce && !w.quiet(sid) {
						return false
					}
				}
				return true
			}
			if !w.pump(limit, false, app, bothReset) && !w.pump(limit, true, app, bothReset) {
				w.fail("reset-not-completed-in-bounded-time", fmt.Sprintf("both directions were not reset within %v of virtual time: cycle=%d", limit, cyc))
				break
			}
			if cyc == c.cycles {
				break
			}
			// reopen the same identifiers and transfer on the new incarnation
			for i, sid := range sids {
				ob := w.open(0, sid, isUnord(i))
				if ob == nil || ob.st.State() != StreamStateOpen {
					key := "reopen-returns-closed-stream"
					if c.apiReopen {
						key = "reopen-returns-closed-stream-api"
					}
					w.fail(key, fmt.Sprintf("OpenStream after both directions were reset returned a stream that is not open: sid=%d cycle=%d", sid, cyc))
					continue
				}
				ob.st.lock.RLock()
				ssn, om, um := ob.st.sequenceNumber, ob.st.nextOrderedMID, ob.st.nextUnorderedMID
				ob.st.lock.RUnlock()
				if ssn != 0 || om != 0 || um != 0 {
					w.fail("counters-not-fresh", fmt.Sprintf("new incarnation starts with ssn=%d mid=%d/%d: sid=%d", ssn, om, um, sid))
				}
			}
			if len(s.fails) > 0 || w.stop {
				break
			}
			delivered := func() bool {
				for side := 0; side < 2; side++ {
					for _, sid := range sids {
						for _, wr := range w.objs[side][sid] {
							for _, i := range wr.wrote {
								if !w.readBy[1-side][sid][i] {
									return false
								}
							}
						}
					}
				}
				return true
			}
			for _, sid := range sids {
				_ = w.write(0, sid, size())
				_ = w.write(0, sid, size())
			}
			w.pump(limit, false, app, delivered)
			// whatever was held back from the previous incarnation arrives now
			w.releaseLong()
			w.pump(4*time.Second, false, app, func() bool { return false })
			if c.peerWrites {
				for _, sid := range sids {
					if ob := w.latest(1, sid); ob != nil && ob.st.State() == StreamStateOpen && ob.ord == w.latest(0, sid).ord {
						_ = w.write(1, sid, size())
					}
				}
			}
			for _, sid := range sids {
				if ob := w.latest(0, sid); ob.st.State() == StreamStateOpen {
					_ = w.write(0, sid, size())
				}
			}
			w.pump(limit, false, app, delivered)
		}
		// heal: no faults, everything held is released
		w.sched = map[int]rsAct{}
		w.releaseLong()
		allDone := func() bool {
			for side := 0; side < 2; side++ {
				for sid, l := range w.objs[side] {
					for _, wr := range l {
						for _, i := range wr.wrote {
							if !w.readBy[1-side][sid][i] {
								return false
							}
						}
						if rl := w.objs[1-side][sid]; wr.closed && wr.ord < len(rl) && !rl[wr.ord].eof {
							return false
						}
					}
				}
			}
			return len(s.flight[0]) == 0 && len(s.flight[1]) == 0
		}
		if len(s.fails) == 0 && !w.stop {
			w.pump(150*time.Second, true, app, allDone)
			w.pump(3*time.Second, true, app, func() bool { return false })
			w.finalCheck()
		}
		st.packets += len(s.wire)
		s.closeBoth()
		fails = s.fails
		s.report()
		if os.Getenv("VERIF_SIMEVENTS") == "all" { // observations (SIMOBS) do not make sim.report print the history
			for _, e := range s.events {
				fmt.Println("  EVENT " + e)
			}
		}
	})
	return fails
}

func rsRandomCfg(rng *rand.Rand, seed int64) rsCfg {
	c := rsCfg{seed: seed, label: "random"}
	c.il = rng.Intn(2)
	c.rr = c.il == 1 && rng.Intn(2) == 0
	c.unordered = rng.Intn(3) == 0
	c.mixed = rng.Intn(2) == 0
	c.nStreams = 1 + rng.Intn(3)
	c.nData = []int{0, 1, 3, 8}[rng.Intn(4)]
	c.big = rng.Intn(5) == 0
	if c.big {
		c.nData = 4 + rng.Intn(4)
	}
	c.cycles = 1 + rng.Intn(3)
	c.simul = rng.Intn(4) == 0
	c.slowReader = rng.Intn(4) == 0
	c.peerWrites = rng.Intn(3) == 0
	c.loss = []int{0, 0, 5, 15}[rng.Intn(4)]
	c.wrap = rng.Intn(3) == 0
	c.together = rng.Intn(2) == 0
	c.sched = map[int]rsAct{}
	nf := rng.Intn(3)
	for i := 0; i < nf; i++ {
		c.sched[rng.Intn(4*c.cycles+2)] = rsAct(1 + rng.Intn(5))
	}
	return c
}

func newRsStats() *rsStats { return &rsStats{faults: map[string]int{}, keys: map[string]int{}} }

func (st *rsStats) summary(prefix string) {
	var ks []string
	for k, v := range st.keys {
		ks = append(ks, fmt.Sprintf("%s:%d", k, v))
	}
	sort.Strings(ks)
	var fs []string
	for k, v := range st.faults {
		fs = append(fs, fmt.Sprintf("%s:%d", k, v))
	}
	sort.Strings(fs)
	fmt.Printf("%s scenarios=%d events=%d packets=%d reconfig_packets=%d closes=%d opens=%d reads=%d eofs=%d messages=%d faults=%s fails=%d observations=%d keys=%s\n",
		prefix, st.scenarios, st.events, st.packets, st.reconfPkts, st.closes, st.opens, st.reads, st.eofs, st.msgs, strings.Join(fs, ","), st.fails, st.obs, strings.Join(ks, ","))
}

func rsWithRecorder(t *testing.T, def string, fn func()) {
	w, done := verifOut(t, def)
	rsRecorderOut.w = w
	rsRecorderOut.n, rsRecorderOut.skipped = 0, 0
	rsRecorderOut.kinds = map[string]int{}
	defer func() {
		rsRecorderOut.w = nil
		done()
	}()
	fn()
	var ks []string
	for k, v := range rsRecorderOut.kinds {
		ks = append(ks, fmt.Sprintf("%s:%d", k, v))
	}
	sort.Strings(ks)
	fmt.Printf("SIMRESETREC records=%d skipped=%d kinds=%s\n", rsRecorderOut.n, rsRecorderOut.skipped, strings.Join(ks, ","))
}

func rsRunRandom(t *testing.T, prefix, def string, mode string) {
	seed := verifEnvInt("VERIF_SEED", 1)
	n := int(verifEnvInt("VERIF_N", 60))
	st := newRsStats()
	rsWithRecorder(t, def, func() {
		only := verifEnvInt("VERIF_ONLY", -1) // replay of a single scenario of the series
		for i := 0; i < n; i++ {
			if only >= 0 && int64(i) != only {
				continue
			}
			sd := seed*1000003 + int64(i)
			c := rsRandomCfg(rand.New(rand.NewSource(sd)), sd)
			c.label = mode
			switch mode {
			case "quiet":
				c.quiesce = true
			case "api":
				c.apiReopen = true
				if c.cycles < 2 {
					c.cycles = 2
				}
			}
			f := runResetScenario(t, c, st)
			st.scenarios++
			st.fails += len(f)
		}
	})
	st.summary(prefix)
}

// TestVerifSimResetQuiet: random scenarios; the identifier is reopened only when no reset state naming it is
// left (precondition of the theorems c14_*): P_C14 must hold.  Writes the step-commuting records.
func TestVerifSimResetQuiet(t *testing.T) {
	rsRunRandom(t, "SIMRESETQUIET", "/tmp/verif_reset_quiet.trace", "quiet")
}

// TestVerifSimReset: random scenarios; the identifier is reopened as soon as both directions have been reset
// (both peers answered SuccessPerformed): the property as stated.
func TestVerifSimReset(t *testing.T) { rsRunRandom(t, "SIMRESET", "/tmp/verif_reset.trace", "strict") }

// TestVerifSimResetAPI: reopen on the API signal alone (State()==Closed and io.EOF read) - outside the
// property's precondition; what goes wrong is printed as SIMOBS observations.
func TestVerifSimResetAPI(t *testing.T) {
	rsRunRandom(t, "SIMRESETAPI", "/tmp/verif_reset_api.trace", "api")
}

// TestVerifSimResetExhaustive: every schedule of at most k faults (drop / duplicate / delay, short and
// long) on the first RECONFIG packets of a two-cycle close -> peer closes -> reopen -> transfer script.
func TestVerifSimResetExhaustive(t *testing.T) {
	seed := verifEnvInt("VERIF_SEED", 1)
	k := int(verifEnvInt("VERIF_K", 1))
	nPk := int(verifEnvInt("VERIF_NPK", 6))
	quiet := verifEnvInt("VERIF_QUIESCE", 0) != 0
	st := newRsStats()
	acts := []rsAct{rsDrop, rsDupShort, rsDupLong, rsHoldShort, rsHoldLong}
	var scheds []map[int]rsAct
	scheds = append(scheds, map[int]rsAct{})
	for i := 0; i < nPk; i++ {
		for _, x := range acts {
			scheds = append(scheds, map[int]rsAct{i: x})
		}
	}
	if k >= 2 {
		for i := 0; i < nPk; i++ {
			for j := i + 1; j < nPk; j++ {
				for _, x := range acts {
					for _, y := range acts {
						scheds = append(scheds, map[int]rsAct{i: x, j: y})
					}
				}
			}
		}
	}
	run := func() {
		for v := 0; v < 6; v++ {
			for i, sc := range scheds {
				c := rsCfg{seed: seed*7919 + int64(v*100000+i), label: fmt.Sprintf("exhaustive-k%d", k), il: v % 2, rr: v == 3, nStreams: 1, nData: 2,
					cycles: 2, sched: sc, unordered: v == 2, quiesce: quiet, simul: v == 4, nDataBig: v == 5}
				if v == 5 {
					c.big, c.nData, c.nStreams, c.together = true, 4, 2, true
				}
				f := runResetScenario(t, c, st)
				st.scenarios++
				st.fails += len(f)
			}
		}
	}
	if verifEnvInt("VERIF_REC", 0) != 0 {
		rsWithRecorder(t, "/tmp/verif_reset_ex.trace", run)
	} else {
		run()
	}
	pfx := "SIMRESETEX"
	if quiet {
		pfx = "SIMRESETEXQUIET"
	}
	st.summary(pfx)
}

// TestVerifScenResetForwardTSN: an abandoned chunk of the closing stream is skipped by FORWARD-TSN; the
// deferred reset request becomes satisfiable by the FORWARD-TSN itself.  Is it performed at that moment?
func TestVerifScenResetForwardTSN(t *testing.T) {
	rsMaybeRecord(t, "/tmp/verif_reset_fwd.trace", func() { rsScenForwardTSN(t) })
}

func rsMaybeRecord(t *testing.T, def string, fn func()) {
	if os.Getenv("VERIF_OUT") != "" {
		rsWithRecorder(t, def, fn)
	} else {
		fn()
	}
}

func rsScenForwardTSN(t *testing.T) {
	st := newRsStats()
	for _, il := range []int{0, 1} {
		c := rsCfg{seed: int64(7000 + il), il: il, label: "forward-tsn"}
		synctest.Test(t, func(t *testing.T) {
			o := simOpts{seed: c.seed, interleaveA: il, interleaveB: il, setTSN: true, tsnA: 4294967290, tsnB: 500}
			s := newSim(t, o, c.String())
			w := newRsWorld(s, c.seed, st)
			if rsRecorderOut.w != nil {
				w.rec = &rsRecorder{mu: &rsRecorderOut.mu, w: rsRecorderOut.w, n: &rsRecorderOut.n, kinds: rsRecorderOut.kinds,
					skipped: &rsRecorderOut.skipped, sids: []uint16{1}, tr: newRsTrackerFor(w), world: w}
				s.obs = append(s.obs, w.rec)
			}
			s.obs = append(s.obs, w)
			if !s.establish() {
				s.fail("C04", "handshake")
				s.closeBoth()
				s.report()
				return
			}
			a := w.open(0, 1, false)
			w.open(1, 1, false)
			a.st.SetReliabilityParams(false, ReliabilityTypeRexmit, 0)
			a.pr = true
			_ = w.write(0, 1, 100)
			// the DATA packet is lost
			for len(s.flight[0]) > 0 {
				s.drop(0, 0)
			}
			_ = w.close(a)
			// the request reaches the peer before anything else: deferred
			for len(s.flight[0]) > 0 {
				s.deliver(0, 0, false)
			}
			for len(s.flight[1]) > 0 {
				s.deliver(1, 0, false)
			}
			// T3 expires: the chunk is abandoned, FORWARD-TSN goes out; deliver it (and only it)
			for i := 0; i < 30; i++ {
				s.advance(100 * time.Millisecond)
				for len(s.flight[0]) > 0 {
					p := s.flight[0][0]
					isFwd := false
					if p.pkt != nil {
						for _, ch := range p.pkt.chunks {
							switch ch.(type) {
							case *chunkForwardTSN, *chunkIForwardTSN:
								isFwd = true
							}
						}
					}
					if isFwd {
						s.deliver(0, 0, false)
						i = 1000
					} else {
						s.drop(0, 0)
					}
				}
			}
			w.readAll(1)
			b := w.latest(1, 1)
			if b != nil && !b.eof {
				s.logEvent("reader has no EOF after the FORWARD-TSN")
			}
			// heal
			app := func() { w.readAll(0); w.readAll(1) }
			w.pump(60*time.Second, true, app, func() bool { return b != nil && b.eof })
			if b == nil || !b.eof {
				w.fail("no-eof-in-bounded-time", "reader never got io.EOF after the abandoned data was skipped by FORWARD-TSN")
			}
			st.packets += len(s.wire)
			st.scenarios++
			s.closeBoth()
			st.fails += len(s.fails)
			s.report()
		})
	}
	st.summary("SCENRESETFWD")
}

// ---------------------------------------------------------------- minimal replays of the two findings (corpus)

// flush delivers every parked packet (oldest first, both directions) except those `skip` selects.
func (w *rsWorld) flush(skip func(p *simPkt) bool) {
	for {
		best, from, idx := -1, 0, 0
		for f := 0; f < 2; f++ {
			for i, q := range w.s.flight[f] {
				if skip != nil && skip(q) {
					continue
				}
				if best < 0 || q.id < best {
					best, from, idx = q.id, f, i
				}
				break
			}
		}
		if best < 0 {
			return
		}
		w.s.deliver(from, idx, false)
		w.scanWire()
		w.readAll(0)
		w.readAll(1)
	}
}

func rsRespPkt(p *simPkt, from int) bool {
	if p.from != from || p.pkt == nil {
		return false
	}
	for _, c := range p.pkt.chunks {
		if rc, ok := c.(*chunkReconfig); ok {
			if _, ok := rc.paramA.(*paramReconfigResponse); ok {
				return true
			}
		}
	}
	return false
}

func rsWitness(t *testing.T, label string, il int, st *rsStats, script func(s *sim, w *rsWorld)) {
	synctest.Test(t, func(t *testing.T) {
		o := simOpts{seed: 1, interleaveA: il, interleaveB: il, setTSN: true, tsnA: 1000, tsnB: 5000}
		s := newSim(t, o, label)
		w := newRsWorld(s, 1, st)
		if rsRecorderOut.w != nil {
			w.rec = &rsRecorder{mu: &rsRecorderOut.mu, w: rsRecorderOut.w, n: &rsRecorderOut.n, kinds: rsRecorderOut.kinds,
				skipped: &rsRecorderOut.skipped, sids: []uint16{1}, tr: newRsTrackerFor(w), world: w}
			s.obs = append(s.obs, w.rec)
		}
		s.obs = append(s.obs, w)
		if !s.establish() {
			s.fail("C04", "handshake")
		} else {
			script(s, w)
		}
		st.scenarios++
		st.packets += len(s.wire)
		s.closeBoth()
		st.fails += len(s.fails)
		s.report()
	})
}

// TestVerifScenResetWitness replays, on the real associations, the two histories of
// coq/proofs/ResetProofs.v (rs_stale_request_history, rs_late_response_history).
// Before /repo fd7385c and a186bb2 they ended with the keys stale-request-resets-new-incarnation (D24) and
// late-response-rewinds-open-stream (D25); now the reader of the new incarnation must keep reading.
func TestVerifScenResetWitness(t *testing.T) {
	rsMaybeRecord(t, "/tmp/verif_reset_witness.trace", func() { rsScenWitness(t) })
}

func rsScenWitness(t *testing.T) {
	st := newRsStats()
	for _, il := range []int{0, 1} {
		// K1: response to the first reset request lost; after both directions were reset and the identifier
		// reopened, the re-configuration timer retransmits the old request
		rsWitness(t, fmt.Sprintf("reset/witness-stale-request/il=%d", il), il, st, func(s *sim, w *rsWorld) {
			a := w.open(0, 1, false)
			w.open(1, 1, false)
			_ = w.write(0, 1, 10)
			w.flush(nil)
			_ = w.close(a)
			dropped := 0
			w.flush(func(p *simPkt) bool { return rsRespPkt(p, 1) }) // B performs the reset; its response stays parked
			for i := 0; i < len(s.flight[1]); i++ {
				if rsRespPkt(s.flight[1][i], 1) {
					s.drop(1, i)
					dropped++
					i--
				}
			}
			b := w.latest(1, 1)
			if !b.eof || dropped != 1 {
				w.fail("witness-script", fmt.Sprintf("script out of step: eof=%v dropped=%d", b.eof, dropped))
				return
			}
			_ = w.close(b)
			w.flush(nil)
			if w.resetsDone(0, 1) != 1 || w.resetsDone(1, 1) != 1 {
				w.fail("witness-script", "script out of step: both directions should be reset")
				return
			}
			a2 := w.open(0, 1, false)
			if a2 == nil || a2 == a || a2.st.State() != StreamStateOpen {
				w.fail("reopen-returns-closed-stream", "OpenStream after both directions were reset did not return a fresh open stream")
				return
			}
			_ = w.write(0, 1, 20)
			w.flush(nil)
			b2 := w.latest(1, 1)
			if b2 == b || len(b2.read) != 1 {
				w.fail("witness-script", "script out of step: first message of the new incarnation not delivered")
				return
			}
			// the re-configuration timer of A expires (RTO 1 s): the stored request is retransmitted
			for i := 0; i < 15 && !b2.eof && len(s.fails) == 0; i++ {
				s.advance(100 * time.Millisecond)
				w.flush(nil)
			}
			if len(s.fails) > 0 {
				return
			}
			_ = w.write(0, 1, 30)
			w.flush(nil)
		})
		// K2: the response is delayed; it arrives after the identifier was reopened and two messages were sent
		rsWitness(t, fmt.Sprintf("reset/witness-late-response/il=%d", il), il, st, func(s *sim, w *rsWorld) {
			a := w.open(0, 1, false)
			w.open(1, 1, false)
			_ = w.close(a)
			hold := func(p *simPkt) bool { return rsRespPkt(p, 1) && w.ordinal[p.id] == 1 }
			w.flush(hold)
			b := w.latest(1, 1)
			if !b.eof {
				w.fail("witness-script", "script out of step: no EOF at the peer")
				return
			}
			_ = w.close(b)
			w.flush(hold)
			a2 := w.open(0, 1, false)
			if a2 == nil || a2 == a || a2.st.State() != StreamStateOpen {
				w.fail("reopen-returns-closed-stream", "OpenStream after both directions were reset did not return a fresh open stream")
				return
			}
			_ = w.write(0, 1, 20)
			_ = w.write(0, 1, 21)
			w.flush(hold)
			w.flush(nil) // the delayed response arrives
			_ = w.write(0, 1, 22)
			w.flush(nil)
			b2 := w.latest(1, 1)
			if len(s.fails) == 0 && len(b2.read) != 3 {
				w.fail("message-lost", fmt.Sprintf("third message of the new incarnation not delivered, read %d", len(b2.read)))
			}
			s.logEvent("new incarnation at the reader: %d of 3 messages read", len(b2.read))
		})
	}
	st.summary("SCENRESETWITNESS")
}
