(* Lemmas about coq/model/Codec.v.
   Part 1: the decoder is total (never CPanic, never CFuel) on every byte list     -> C03 decoder half
   Part 2: per-chunk and packet round trips, output well-formedness, chunk locality -> C12 *)
From Coq Require Import ZArith Bool List Lia.
From Coq Require Import ZifyBool.
From Sctp Require Import Gen Codec.
Import ListNotations.
Open Scope Z_scope.
Ltac Zify.zify_post_hook ::= Z.div_mod_to_equations.

(* unfold the generated constants the codec uses, so that lia sees numbers *)
Ltac cst :=
  cbv [c_chunkHeaderSize c_paramHeaderLength c_errorCauseHeaderLength c_packetHeaderSize
       c_payloadDataHeaderSize c_iDataHeaderSize c_selectiveAckHeaderSize c_initChunkMinLength
       c_initOptionalVarHeaderLength c_cumulativeTSNAckLength c_newCumulativeTSNLength
       c_forwardTSNStreamLength c_iForwardTSNEntryLength c_maxIForwardTSNStreams
       c_paramOutgoingResetRequestStreamIdentifiersOffset c_paddingMultiple] in *.

Ltac zl := cst; unfold cd_len, wrap16, getPadding in *; cst; lia.

(* ------------------------------------------------------------------ safety predicate *)

Definition cd_safe {A : Type} (r : cres A) : Prop :=
  match r with
  | CPanic => False
  | CFuel => False
  | _ => True
  end.

Lemma safe_bind {A B} (r : cres A) (f : A -> cres B) :
  cd_safe r -> (forall a, r = COk a -> cd_safe (f a)) -> cd_safe (cd_bind r f).
Proof. destruct r; simpl; intros H K; auto. Qed.

Lemma safe_wrap {A} c (r : cres A) : cd_safe r -> cd_safe (cd_wrap c r).
Proof. destruct r; simpl; auto. Qed.

Lemma wrap_ok {A} c (r : cres A) a : cd_wrap c r = COk a -> r = COk a.
Proof. destruct r; simpl; congruence. Qed.

(* ------------------------------------------------------------------ slices *)

Lemma len_nonneg {A} (l : list A) : 0 <= cd_len l.
Proof. unfold cd_len. lia. Qed.

Lemma len_drop (n : Z) (l : list Z) : 0 <= n <= cd_len l -> cd_len (cd_drop n l) = cd_len l - n.
Proof. unfold cd_len, cd_drop. intros H. rewrite skipn_length. lia. Qed.

Lemma len_take (n : Z) (l : list Z) : 0 <= n <= cd_len l -> cd_len (cd_take n l) = n.
Proof. unfold cd_len, cd_take. intros H. rewrite firstn_length. lia. Qed.

Lemma drop_cases (n : Z) (l : list Z) k :
  0 <= n -> n + Z.of_nat k <= cd_len l -> exists pre post, cd_drop n l = pre ++ post /\ length pre = k.
Proof.
  intros Hn Hk. exists (firstn k (cd_drop n l)), (skipn k (cd_drop n l)). split.
  - symmetry. apply firstn_skipn.
  - rewrite firstn_length. pose proof (len_drop n l). unfold cd_len in *. lia.
Qed.

Lemma rd8_safe l off : 0 <= off < cd_len l -> cd_safe (cd_rd8 l off).
Proof.
  intros H. unfold cd_rd8. destruct (off <? 0) eqn:E; [lia|].
  destruct (drop_cases off l 1) as (pre & post & -> & Hp); [lia|unfold cd_len in *; lia|].
  destruct pre as [|a [|]]; simpl in Hp; try discriminate. exact I.
Qed.

Lemma rd16_safe l off : 0 <= off -> off + 2 <= cd_len l -> cd_safe (cd_rd16 l off).
Proof.
  intros H H2. unfold cd_rd16. destruct (off <? 0) eqn:E; [lia|].
  destruct (drop_cases off l 2) as (pre & post & -> & Hp); [lia|unfold cd_len in *; lia|].
  destruct pre as [|a [|b [|]]]; simpl in Hp; try discriminate. exact I.
Qed.

Lemma rd32_safe l off : 0 <= off -> off + 4 <= cd_len l -> cd_safe (cd_rd32 l off).
Proof.
  intros H H2. unfold cd_rd32. destruct (off <? 0) eqn:E; [lia|].
  destruct (drop_cases off l 4) as (pre & post & -> & Hp); [lia|unfold cd_len in *; lia|].
  destruct pre as [|a [|b [|c [|d [|]]]]]; simpl in Hp; try discriminate. exact I.
Qed.

Lemma slice_ok l lo hi : 0 <= lo -> lo <= hi -> hi <= cd_len l ->
  cd_slice l lo hi = COk (cd_take (hi - lo) (cd_drop lo l)).
Proof.
  intros. unfold cd_slice.
  destruct (lo <? 0) eqn:E1; [lia|]. destruct (hi <? lo) eqn:E2; [lia|].
  destruct (cd_len l <? hi) eqn:E3; [lia|]. reflexivity.
Qed.

Lemma slice_len l lo hi v : cd_slice l lo hi = COk v -> cd_len v = hi - lo.
Proof.
  unfold cd_slice.
  destruct (lo <? 0) eqn:E1; [discriminate|]. destruct (hi <? lo) eqn:E2; [discriminate|].
  destruct (cd_len l <? hi) eqn:E3; [discriminate|]. simpl. intros H. inversion H; subst.
  rewrite len_take; [lia|]. rewrite len_drop; lia.
Qed.

Lemma slice_safe l lo hi : 0 <= lo -> lo <= hi -> hi <= cd_len l -> cd_safe (cd_slice l lo hi).
Proof. intros. rewrite slice_ok by assumption. exact I. Qed.

Lemma from_ok l lo : 0 <= lo <= cd_len l -> cd_from l lo = COk (cd_drop lo l).
Proof.
  intros. unfold cd_from. destruct (lo <? 0) eqn:E1; [lia|]. destruct (cd_len l <? lo) eqn:E2; [lia|]. reflexivity.
Qed.

Lemma from_len l lo v : cd_from l lo = COk v -> cd_len v = cd_len l - lo /\ 0 <= lo <= cd_len l.
Proof.
  unfold cd_from. destruct (lo <? 0) eqn:E1; [discriminate|]. destruct (cd_len l <? lo) eqn:E2; [discriminate|].
  simpl. intros H. inversion H; subst. rewrite len_drop; lia.
Qed.

Lemma from_safe l lo : 0 <= lo <= cd_len l -> cd_safe (cd_from l lo).
Proof. intros. rewrite from_ok by assumption. exact I. Qed.

(* ------------------------------------------------------------------ byte strings *)

Definition bytesP (l : list Z) : Prop := Forall (fun b => 0 <= b < 256) l.

Lemma bytesP_of_bool l : cd_bytes l = true -> bytesP l.
Proof.
  unfold cd_bytes, bytesP. intros H. apply Forall_forall. intros x Hx.
  rewrite forallb_forall in H. specialize (H x Hx). unfold cd_is_byte in H. lia.
Qed.

Lemma bytesP_to_bool l : bytesP l -> cd_bytes l = true.
Proof.
  unfold cd_bytes, bytesP. intros H. apply forallb_forall. intros x Hx.
  rewrite Forall_forall in H. specialize (H x Hx). unfold cd_is_byte. lia.
Qed.

Lemma Forall_skipn_ {A} (P : A -> Prop) n l : Forall P l -> Forall P (skipn n l).
Proof. revert l. induction n; intros l H; [exact H|]. destruct l; [constructor|]. inversion H; subst. simpl. auto. Qed.

Lemma Forall_firstn_ {A} (P : A -> Prop) n l : Forall P l -> Forall P (firstn n l).
Proof. revert l. induction n; intros l H; [constructor|]. destruct l; [constructor|]. inversion H; subst. simpl. auto. Qed.

Lemma bytesP_drop n l : bytesP l -> bytesP (cd_drop n l).
Proof. apply Forall_skipn_. Qed.

Lemma bytesP_take n l : bytesP l -> bytesP (cd_take n l).
Proof. apply Forall_firstn_. Qed.

Lemma slice_bytes l lo hi v : bytesP l -> cd_slice l lo hi = COk v -> bytesP v.
Proof.
  unfold cd_slice. intros Hb. destruct (_ || _); [discriminate|]. intros H. inversion H; subst.
  apply bytesP_take, bytesP_drop, Hb.
Qed.

Lemma from_bytes l lo v : bytesP l -> cd_from l lo = COk v -> bytesP v.
Proof.
  unfold cd_from. intros Hb. destruct (_ || _); [discriminate|]. intros H. inversion H; subst.
  apply bytesP_drop, Hb.
Qed.

Lemma rd8_range l off v : bytesP l -> cd_rd8 l off = COk v -> 0 <= v < 256.
Proof.
  unfold cd_rd8. intros Hb. destruct (off <? 0); [discriminate|].
  pose proof (bytesP_drop off l Hb) as Hd. destruct (cd_drop off l) as [|a t]; [discriminate|].
  intros H. inversion H; subst. inversion Hd; subst. assumption.
Qed.

Lemma rd16_range l off v : bytesP l -> cd_rd16 l off = COk v -> 0 <= v < 65536.
Proof.
  unfold cd_rd16. intros Hb. destruct (off <? 0); [discriminate|].
  pose proof (bytesP_drop off l Hb) as Hd. destruct (cd_drop off l) as [|a [|b t]]; try discriminate.
  intros H. inversion H; subst. inversion Hd as [|? ? Ha Hd1]; subst. inversion Hd1 as [|? ? Hb1 _]; subst. lia.
Qed.

Lemma rd32_range l off v : bytesP l -> cd_rd32 l off = COk v -> 0 <= v < 4294967296.
Proof.
  unfold cd_rd32. intros Hb. destruct (off <? 0); [discriminate|].
  pose proof (bytesP_drop off l Hb) as Hd. destruct (cd_drop off l) as [|a [|b [|c [|d t]]]]; try discriminate.
  intros H. inversion H; subst.
  inversion Hd as [|? ? Ha Hd1]; subst. inversion Hd1 as [|? ? Hb1 Hd2]; subst.
  inversion Hd2 as [|? ? Hc1 Hd3]; subst. inversion Hd3 as [|? ? Hd4 _]; subst. lia.
Qed.

(* one step of a safety proof *)
Ltac sstep :=
  match goal with
  | |- cd_safe (COk _) => exact I
  | |- cd_safe (CErr _) => exact I
  | |- cd_safe (cd_bind _ _) => apply safe_bind; [| intros ? ?]
  | |- cd_safe (cd_wrap _ _) => apply safe_wrap
  | |- cd_safe (cd_rd8 _ _) => apply rd8_safe; zl
  | |- cd_safe (cd_rd16 _ _) => apply rd16_safe; zl
  | |- cd_safe (cd_rd32 _ _) => apply rd32_safe; zl
  | |- cd_safe (cd_slice _ _ _) => apply slice_safe; zl
  | |- cd_safe (cd_from _ _) => apply from_safe; zl
  | |- cd_safe (if ?b then _ else _) => let E := fresh "E" in destruct b eqn:E
  | |- cd_safe (match ?x with (_, _) => _ end) => destruct x
  end.

(* ------------------------------------------------------------------ chunkHeader.unmarshal *)

Lemma pad_check_safe raw base i :
  0 <= base -> base + Z.of_nat i <= cd_len raw -> cd_safe (cd_pad_check raw base i).
Proof.
  induction i as [|j IH]; intros Hb Hl; simpl; [exact I|].
  repeat sstep. apply IH; lia.
Qed.

Lemma dec_hdr_safe raw : cd_safe (cd_dec_hdr raw).
Proof.
  unfold cd_dec_hdr. repeat sstep.
  apply pad_check_safe; zl.
Qed.

Lemma dec_hdr_len raw h : cd_dec_hdr raw = COk h -> 0 <= cd_len (h_raw h) /\ 4 + cd_len (h_raw h) <= cd_len raw.
Proof.
  unfold cd_dec_hdr. destruct (cd_len raw <? c_chunkHeaderSize) eqn:E0; [discriminate|].
  destruct (cd_rd8 raw 0) as [t| | |]; cbn [cd_bind cd_wrap]; try discriminate.
  destruct (cd_rd8 raw 1) as [f| | |]; cbn [cd_bind cd_wrap]; try discriminate.
  destruct (cd_rd16 raw 2) as [len| | |]; cbn [cd_bind cd_wrap]; try discriminate.
  destruct (_ <? 0) eqn:E1; [discriminate|].
  match goal with |- context [cd_bind ?x _] => destruct x as [u| | |]; cbn [cd_bind cd_wrap]; try discriminate end.
  destruct (cd_slice _ _ _) as [v| | |] eqn:ES; cbn [cd_bind cd_wrap]; try discriminate.
  intros H. inversion H; subst; cbn [h_raw h_typ h_flags ph_len ph_raw ph_typ]. apply slice_len in ES. split; [apply len_nonneg|]. zl.
Qed.

(* ------------------------------------------------------------------ parameters *)

Lemma dec_phdr_safe raw : cd_safe (cd_dec_phdr raw).
Proof. unfold cd_dec_phdr. repeat sstep. Qed.

Lemma dec_phdr_len raw h : cd_dec_phdr raw = COk h ->
  4 <= ph_len h <= cd_len raw /\ cd_len (ph_raw h) = ph_len h - 4.
Proof.
  unfold cd_dec_phdr. destruct (cd_len raw <? c_paramHeaderLength) eqn:E0; [discriminate|].
  destruct (cd_rd16 raw 2) as [plen| | |]; cbn [cd_bind cd_wrap]; try discriminate.
  destruct (plen <? c_paramHeaderLength) eqn:E1; [discriminate|].
  destruct (cd_len raw <? plen) eqn:E2; [discriminate|].
  match goal with |- context [cd_bind ?x _] => destruct x as [u| | |]; cbn [cd_bind cd_wrap]; try discriminate end.
  destruct (cd_slice _ _ _) as [v| | |] eqn:ES; cbn [cd_bind cd_wrap]; try discriminate.
  intros H. inversion H; subst; cbn [h_raw h_typ h_flags ph_len ph_raw ph_typ]. apply slice_len in ES. zl.
Qed.

Lemma rd16s_safe n raw off : 0 <= off -> off + 2 * Z.of_nat n <= cd_len raw -> cd_safe (cd_rd16s n raw off).
Proof.
  revert off. induction n as [|k IH]; intros off H0 H1; simpl; [exact I|].
  repeat sstep. apply IH; lia.
Qed.

Lemma rd32s_safe n raw off : 0 <= off -> off + 4 * Z.of_nat n <= cd_len raw -> cd_safe (cd_rd32s n raw off).
Proof.
  revert off. induction n as [|k IH]; intros off H0 H1; simpl; [exact I|].
  repeat sstep. apply IH; lia.
Qed.

Lemma dec_hmacs_safe n raw off : 0 <= off -> off + 2 * Z.of_nat n <= cd_len raw -> cd_safe (cd_dec_hmacs n raw off).
Proof.
  revert off. induction n as [|k IH]; intros off H0 H1; simpl; [exact I|].
  repeat sstep. apply IH; lia.
Qed.

Lemma build_param_safe typ raw : cd_safe (cd_build_param typ raw).
Proof.
  unfold cd_build_param.
  repeat match goal with
  | |- cd_safe (if typ =? ?c then _ else _) => destruct (typ =? c)
  end;
  try (apply safe_bind; [apply dec_phdr_safe|]; intros h Hh; apply dec_phdr_len in Hh; repeat sstep).
  - apply dec_hmacs_safe; zl.
  - apply rd16s_safe; zl.
  - exact I.
Qed.

Lemma build_param_len typ raw p l : cd_build_param typ raw = COk (p, l) -> 4 <= l <= cd_len raw.
Proof.
  unfold cd_build_param.
  repeat match goal with
  | |- context [if typ =? ?c then _ else _] => destruct (typ =? c)
  end; try discriminate;
  (destruct (cd_dec_phdr raw) as [h| | |] eqn:Hh; cbn [cd_bind cd_wrap]; try discriminate; apply dec_phdr_len in Hh);
  repeat match goal with
  | |- context [if ?b then _ else _] => destruct b; try discriminate
  | |- context [cd_bind ?x _] => destruct x; cbn [cd_bind cd_wrap]; try discriminate
  end; intros H; inversion H; subst; lia.
Qed.

(* ------------------------------------------------------------------ error causes *)

Lemma dec_chdr_safe raw : 4 <= cd_len raw -> cd_safe (cd_dec_chdr raw).
Proof. intros H. unfold cd_dec_chdr. repeat sstep. Qed.

Lemma dec_chdr_len raw code len v : cd_dec_chdr raw = COk (code, len, v) -> 4 <= len <= cd_len raw.
Proof.
  unfold cd_dec_chdr.
  destruct (cd_rd16 raw 0) as [c| | |]; cbn [cd_bind cd_wrap]; try discriminate.
  destruct (cd_rd16 raw 2) as [l| | |]; cbn [cd_bind cd_wrap]; try discriminate.
  destruct ((l <? c_errorCauseHeaderLength) || (cd_len raw <? l)) eqn:E; [discriminate|].
  destruct (cd_slice _ _ _); cbn [cd_bind cd_wrap]; try discriminate.
  intros H. inversion H; subst. zl.
Qed.

Lemma build_cause_safe raw : 4 <= cd_len raw -> cd_safe (cd_build_cause raw).
Proof.
  intros H. unfold cd_build_cause.
  apply safe_bind; [apply rd16_safe; lia|]. intros c _.
  repeat match goal with
  | |- cd_safe (if ?b then _ else _) => destruct b
  end;
  (apply safe_bind; [try apply safe_wrap; apply dec_chdr_safe; assumption|]; intros [[? ?] ?] _; exact I).
Qed.

Lemma build_cause_len raw c l : cd_build_cause raw = COk (c, l) -> 4 <= l <= cd_len raw.
Proof.
  unfold cd_build_cause.
  destruct (cd_rd16 raw 0) as [k| | |]; cbn [cd_bind cd_wrap]; try discriminate.
  repeat match goal with
  | |- context [if ?b then _ else _] => destruct b
  end;
  match goal with
  | |- context [cd_wrap ?e (cd_dec_chdr raw)] =>
      destruct (cd_dec_chdr raw) as [[[code len] v]| | |] eqn:Hc; cbn [cd_bind cd_wrap]; try discriminate
  | |- context [cd_dec_chdr raw] =>
      destruct (cd_dec_chdr raw) as [[[code len] v]| | |] eqn:Hc; cbn [cd_bind cd_wrap]; try discriminate
  end; apply dec_chdr_len in Hc; intros H; inversion H; subst; lia.
Qed.

Lemma dec_causes_safe fuel raw n offset :
  n = cd_len raw -> 0 <= offset <= n -> n - offset < Z.of_nat fuel ->
  cd_safe (cd_dec_causes fuel raw n offset).
Proof.
  revert offset. induction fuel as [|f IH]; intros offset Hn Ho Hf; [lia|].
  simpl. destruct (n - offset >=? 4) eqn:E; [|exact I].
  apply safe_bind; [apply from_safe; lia|]. intros sub Hs. apply from_len in Hs.
  apply safe_bind; [apply build_cause_safe; lia|]. intros [c clen] Hc. apply build_cause_len in Hc.
  apply safe_bind; [|intros; exact I]. apply IH; lia.
Qed.

(* ------------------------------------------------------------------ chunk decoders *)

Ltac with_hdr h Hh :=
  apply safe_bind; [apply dec_hdr_safe|]; intros h Hh; apply dec_hdr_len in Hh.

Lemma dec_data_safe raw : cd_safe (cd_dec_data raw).
Proof. unfold cd_dec_data. with_hdr h Hh. repeat sstep. Qed.

Lemma dec_gaps_safe n raw off : 0 <= off -> off + 4 * Z.of_nat n <= cd_len raw -> cd_safe (cd_dec_gaps n raw off).
Proof.
  revert off. induction n as [|k IH]; intros off H0 H1; simpl; [exact I|].
  repeat sstep. apply IH; lia.
Qed.

Lemma dec_hdr_bytes raw h : bytesP raw -> cd_dec_hdr raw = COk h -> bytesP (h_raw h).
Proof.
  intros Hb. unfold cd_dec_hdr. destruct (cd_len raw <? c_chunkHeaderSize) eqn:E0; [discriminate|].
  destruct (cd_rd8 raw 0) as [t| | |]; cbn [cd_bind cd_wrap]; try discriminate.
  destruct (cd_rd8 raw 1) as [f| | |]; cbn [cd_bind cd_wrap]; try discriminate.
  destruct (cd_rd16 raw 2) as [len| | |]; cbn [cd_bind cd_wrap]; try discriminate.
  destruct (_ <? 0) eqn:E1; [discriminate|].
  match goal with |- context [cd_bind ?x _] => destruct x as [u| | |]; cbn [cd_bind cd_wrap]; try discriminate end.
  destruct (cd_slice _ _ _) as [v| | |] eqn:ES; cbn [cd_bind cd_wrap]; try discriminate.
  intros H. inversion H; subst; cbn [h_raw]. eapply slice_bytes; eassumption.
Qed.

Lemma dec_sack_safe raw : bytesP raw -> cd_safe (cd_dec_sack raw).
Proof.
  intros Hb. unfold cd_dec_sack.
  apply safe_bind; [apply dec_hdr_safe|]; intros h Hh.
  pose proof (dec_hdr_bytes _ _ Hb Hh) as Hv. apply dec_hdr_len in Hh.
  destruct (negb _); [exact I|].
  destruct (_ <? _) eqn:E0; [exact I|].
  apply safe_bind; [apply rd32_safe; zl|]; intros cum _.
  apply safe_bind; [apply rd32_safe; zl|]; intros arwnd _.
  apply safe_bind; [apply rd16_safe; zl|]; intros ng Hng. apply (rd16_range _ _ _ Hv) in Hng.
  apply safe_bind; [apply rd16_safe; zl|]; intros nd Hnd. apply (rd16_range _ _ _ Hv) in Hnd.
  destruct (negb _) eqn:E1; [exact I|].
  apply safe_bind; [apply dec_gaps_safe; zl|]. intros gaps _.
  apply safe_bind; [apply rd32s_safe; zl|]. intros; exact I.
Qed.

Lemma init_params_safe fuel raw offset remaining :
  offset + remaining = cd_len raw -> 0 <= offset -> Z.max 0 remaining < Z.of_nat fuel ->
  cd_safe (cd_init_params fuel raw offset remaining).
Proof.
  revert offset remaining. induction fuel as [|f IH]; intros offset remaining Hs Ho Hf; [lia|].
  simpl. destruct (remaining >? 0) eqn:E0; [|exact I].
  destruct (remaining >=? c_initOptionalVarHeaderLength) eqn:E1; [|exact I].
  apply safe_bind; [apply from_safe; zl|]. intros sub Hsub. apply from_len in Hsub.
  apply safe_bind; [apply safe_wrap, dec_phdr_safe|]. intros h Hh. apply wrap_ok, dec_phdr_len in Hh.
  pose proof (build_param_safe (ph_typ h) sub) as Hbp.
  assert (Hrec : cd_safe (cd_init_params f raw (offset + (ph_len h + getPadding (ph_len h)))
                                        (remaining - (ph_len h + getPadding (ph_len h))))).
  { apply IH; zl. }
  destruct (cd_build_param (ph_typ h) sub) as [[p l]| | |]; try contradiction.
  - apply safe_bind; [exact Hrec|]. intros [ps us] _. exact I.
  - apply safe_bind; [exact Hrec|]. intros [ps us] _. exact I.
Qed.

Lemma dec_init_safe ack raw : cd_safe (cd_dec_init ack raw).
Proof.
  unfold cd_dec_init. with_hdr h Hh.
  destruct (negb _); [exact I|].
  destruct (_ <? _) eqn:E0; [exact I|].
  destruct (negb _); [exact I|].
  apply safe_wrap. repeat sstep.
  apply init_params_safe; zl.
Qed.

Lemma dec_hb_params_safe v e1 e2 e3 e4 e5 : cd_safe (cd_dec_hb_params v e1 e2 e3 e4 e5).
Proof.
  unfold cd_dec_hb_params.
  destruct (cd_len v =? 0) eqn:E0; [exact I|].
  destruct (cd_len v <? c_initOptionalVarHeaderLength) eqn:E1; [exact I|].
  apply safe_bind; [destruct (cd_len v <? 2); [exact I|apply rd16_safe; zl]|]. intros pt _.
  destruct (negb _); [exact I|].
  apply safe_bind; [apply safe_wrap, dec_phdr_safe|]. intros ph Hph. apply wrap_ok, dec_phdr_len in Hph.
  destruct (_ || _) eqn:E2; [exact I|].
  apply safe_bind; [apply slice_safe; zl|]. intros sub _.
  apply safe_bind; [apply safe_wrap, build_param_safe|]. intros [p l] _.
  apply safe_bind; [apply from_safe; zl|]. intros rem _.
  destruct (_ && _); exact I.
Qed.

Lemma dec_heartbeat_safe raw : cd_safe (cd_dec_heartbeat raw).
Proof.
  unfold cd_dec_heartbeat. with_hdr h Hh. destruct (negb _); [exact I|].
  apply safe_bind; [apply dec_hb_params_safe|]. intros; exact I.
Qed.

Lemma dec_heartbeat_ack_safe raw : cd_safe (cd_dec_heartbeat_ack raw).
Proof.
  unfold cd_dec_heartbeat_ack. with_hdr h Hh. destruct (negb _); [exact I|].
  apply safe_bind; [apply dec_hb_params_safe|]. intros; exact I.
Qed.

Lemma dec_abort_safe is_error raw : cd_safe (cd_dec_abort is_error raw).
Proof.
  unfold cd_dec_abort. with_hdr h Hh. destruct (negb _); [exact I|].
  apply safe_bind; [apply safe_wrap, dec_causes_safe; [reflexivity|zl|zl]|]. intros; exact I.
Qed.

Lemma dec_shutdown_safe raw : cd_safe (cd_dec_shutdown raw).
Proof. unfold cd_dec_shutdown. with_hdr h Hh. repeat sstep. Qed.

Lemma dec_plain_safe typ err mk raw : cd_safe (cd_dec_plain typ err mk raw).
Proof. unfold cd_dec_plain. with_hdr h Hh. repeat sstep. Qed.

Lemma dec_reconfig_safe raw : cd_safe (cd_dec_reconfig raw).
Proof.
  unfold cd_dec_reconfig. with_hdr h Hh.
  apply safe_bind; [destruct (_ <? 2) eqn:E; [exact I|apply rd16_safe; zl]|]. intros pt _.
  apply safe_bind; [apply build_param_safe|]. intros [a alen] Ha. apply build_param_len in Ha.
  destruct (_ >? _) eqn:E1; [|exact I].
  apply safe_bind; [apply from_safe; zl|]. intros sub Hsub. apply from_len in Hsub.
  apply safe_bind; [destruct (_ <? 2) eqn:E; [exact I|apply rd16_safe; zl]|]. intros pt2 _.
  apply safe_bind; [apply build_param_safe|]. intros [b blen] _. exact I.
Qed.

Lemma dec_fwd_streams_safe fuel raw offset remaining :
  offset + remaining = cd_len raw -> 0 <= offset -> Z.max 0 remaining < Z.of_nat fuel ->
  cd_safe (cd_dec_fwd_streams fuel raw offset remaining).
Proof.
  revert offset remaining. induction fuel as [|f IH]; intros offset remaining Hs Ho Hf; [lia|].
  simpl. destruct (remaining >? 0) eqn:E0; [|exact I].
  apply safe_bind; [apply from_safe; zl|]. intros sub Hsub. apply from_len in Hsub.
  destruct (cd_len sub <? c_forwardTSNStreamLength) eqn:E1; [exact I|].
  apply safe_bind; [apply rd16_safe; zl|]. intros sid _.
  apply safe_bind; [apply rd16_safe; zl|]. intros ssn _.
  apply safe_bind; [apply IH; zl|]. intros; exact I.
Qed.

Lemma dec_fwd_safe raw : cd_safe (cd_dec_fwd raw).
Proof.
  unfold cd_dec_fwd. with_hdr h Hh.
  destruct (_ <? _) eqn:E0; [exact I|].
  apply safe_bind; [apply rd32_safe; zl|]. intros ntsn _.
  apply safe_bind; [apply dec_fwd_streams_safe; zl|]. intros; exact I.
Qed.

Lemma dec_ifwd_streams_safe n raw off :
  0 <= off -> off + 8 * Z.of_nat n <= cd_len raw -> cd_safe (cd_dec_ifwd_streams n raw off).
Proof.
  revert off. induction n as [|k IH]; intros off H0 H1; simpl; [exact I|].
  apply safe_bind; [apply slice_safe; zl|]. intros sub Hsub. apply slice_len in Hsub.
  destruct (_ <? _) eqn:E; [exact I|].
  apply safe_bind; [apply rd16_safe; zl|]. intros sid _.
  apply safe_bind; [apply rd16_safe; zl|]. intros fl _.
  apply safe_bind; [apply rd32_safe; zl|]. intros mid _.
  apply safe_bind; [apply IH; zl|]. intros; exact I.
Qed.

Lemma dec_ifwd_safe raw : cd_safe (cd_dec_ifwd raw).
Proof.
  unfold cd_dec_ifwd. with_hdr h Hh.
  destruct (_ <? _) eqn:E0; [exact I|].
  apply safe_bind; [apply rd32_safe; zl|]. intros ntsn _.
  destruct (negb _) eqn:E1; [exact I|].
  destruct (_ >? _) eqn:E2; [exact I|].
  apply safe_bind; [apply dec_ifwd_streams_safe; zl|]. intros; exact I.
Qed.

Lemma dec_chunk_safe raw : bytesP raw -> 1 <= cd_len raw -> cd_safe (cd_dec_chunk raw).
Proof.
  intros Hb Hl. unfold cd_dec_chunk.
  apply safe_bind; [apply rd8_safe; lia|]. intros t _.
  repeat match goal with
  | |- cd_safe (if ?b then _ else _) => destruct b
  end;
  first [ apply dec_init_safe | apply dec_abort_safe | apply dec_plain_safe | apply dec_heartbeat_safe
        | apply dec_heartbeat_ack_safe
        | apply dec_data_safe | apply dec_sack_safe; assumption | apply dec_reconfig_safe | apply dec_fwd_safe
        | apply dec_ifwd_safe | apply dec_shutdown_safe | exact I ].
Qed.

(* the value length reported by every chunk decoder is the header's, hence bounded by the input *)
Lemma dec_chunk_vl raw c vl : cd_dec_chunk raw = COk (c, vl) -> 0 <= vl /\ 4 + vl <= cd_len raw.
Proof.
  unfold cd_dec_chunk.
  destruct (cd_rd8 raw 0) as [t| | |]; cbn [cd_bind]; try discriminate.
  repeat match goal with
  | |- context [if t =? ?k then _ else _] => destruct (t =? k)
  end; try discriminate;
  unfold cd_dec_init, cd_dec_abort, cd_dec_plain, cd_dec_heartbeat, cd_dec_heartbeat_ack, cd_dec_data, cd_dec_sack,
         cd_dec_reconfig, cd_dec_fwd, cd_dec_ifwd, cd_dec_shutdown;
  (destruct (cd_dec_hdr raw) as [h| | |] eqn:Hh; cbn [cd_bind]; try discriminate; apply dec_hdr_len in Hh);
  repeat match goal with
  | |- cd_wrap _ (cd_bind ?x _) = _ -> _ => destruct x; cbn [cd_bind cd_wrap]; try discriminate
  | |- cd_wrap _ (match ?x with (_, _) => _ end) = _ -> _ => destruct x; cbn [cd_bind cd_wrap]
  | |- (if ?b then _ else _) = _ -> _ => destruct b; try discriminate
  | |- cd_bind ?x _ = _ -> _ => destruct x; cbn [cd_bind]; try discriminate
  | |- (let '(_, _) := ?x in _) = _ -> _ => destruct x
  | |- (match ?x with (_, _) => _ end) = _ -> _ => destruct x
  end;
  intros H; inversion H; subst; lia.
Qed.

Lemma dec_chunks_safe fuel rem : bytesP rem -> cd_len rem < Z.of_nat fuel -> cd_safe (cd_dec_chunks fuel rem).
Proof.
  revert rem. induction fuel as [|f IH]; intros rem Hb Hf; [pose proof (len_nonneg rem); lia|].
  cbn [cd_dec_chunks]. destruct (0 <? cd_len rem) eqn:E0; [|exact I].
  destruct (cd_len rem <? c_chunkHeaderSize) eqn:E1; [exact I|].
  apply safe_bind; [apply dec_chunk_safe; [assumption|lia]|]. intros [c vl] Hc. apply dec_chunk_vl in Hc.
  match goal with |- cd_safe (if ?b then _ else _) => destruct b eqn:E2; [exact I|] end.
  apply safe_bind; [|intros; exact I].
  apply IH; [apply bytesP_drop; assumption|]. rewrite len_drop; zl.
Qed.

Lemma dec_packet_safe dc ck raw : bytesP raw -> cd_safe (cd_dec_packet dc ck raw).
Proof.
  intros Hb. unfold cd_dec_packet.
  destruct (_ <? _) eqn:E0; [exact I|].
  apply safe_bind.
  { destruct (_ <=? _) eqn:E1; [|exact I]. apply safe_bind; [apply rd8_safe; zl|]. intros; exact I. }
  intros dc' _.
  apply safe_bind; [apply rd32_safe; zl|]. intros their _.
  destruct (_ && _); [exact I|].
  apply safe_bind; [apply rd16_safe; zl|]. intros sp _.
  apply safe_bind; [apply rd16_safe; zl|]. intros dp _.
  apply safe_bind; [apply rd32_safe; zl|]. intros vt _.
  apply safe_bind; [apply from_safe; zl|]. intros rem Hrem.
  pose proof (from_bytes _ _ _ Hb Hrem) as Hrb. apply from_len in Hrem.
  apply safe_bind; [|intros; exact I].
  apply dec_chunks_safe; [assumption|]. pose proof (len_nonneg raw). zl.
Qed.

(* C03, decoder half: packet.unmarshal never panics and its loops terminate, on every byte string *)
Theorem dec_total : forall doChecksum ck_ok raw,
  cd_bytes raw = true ->
  cd_dec_packet doChecksum ck_ok raw <> CPanic /\ cd_dec_packet doChecksum ck_ok raw <> CFuel.
Proof.
  intros dc ck raw Hb. pose proof (dec_packet_safe dc ck raw (bytesP_of_bool _ Hb)) as H.
  destruct (cd_dec_packet dc ck raw); simpl in H; try contradiction; split; discriminate.
Qed.

(* the same for the HEARTBEAT-ACK decoder, which packet.unmarshal does not reach *)
Theorem dec_heartbeat_ack_total : forall raw,
  cd_dec_heartbeat_ack raw <> CPanic /\ cd_dec_heartbeat_ack raw <> CFuel.
Proof.
  intros raw. pose proof (dec_heartbeat_ack_safe raw) as H.
  destruct (cd_dec_heartbeat_ack raw); simpl in H; try contradiction; split; discriminate.
Qed.

(* ================================================================== Part 2: C12 *)

(* ------------------------------------------------------------------ reading back what was written *)

Lemma e16_val v : 0 <= v < 65536 -> (v / 256) mod 256 * 256 + v mod 256 = v.
Proof. intros. lia. Qed.

Lemma e32_val v : 0 <= v < 4294967296 ->
  (((v / 16777216) mod 256 * 256 + (v / 65536) mod 256) * 256 + (v / 256) mod 256) * 256 + v mod 256 = v.
Proof. intros. lia. Qed.

Lemma len_app {A} (a b : list A) : cd_len (a ++ b) = cd_len a + cd_len b.
Proof. unfold cd_len. rewrite app_length. lia. Qed.

Lemma len_cons {A} (a : A) (l : list A) : cd_len (a :: l) = 1 + cd_len l.
Proof. unfold cd_len. simpl length. lia. Qed.

Lemma len_nil {A} : cd_len (@nil A) = 0.
Proof. reflexivity. Qed.

Lemma len_e16 v : cd_len (cd_e16 v) = 2. Proof. reflexivity. Qed.
Lemma len_e32 v : cd_len (cd_e32 v) = 4. Proof. reflexivity. Qed.

Lemma len_zeros n : 0 <= n -> cd_len (cd_zeros n) = n.
Proof. intros. unfold cd_len, cd_zeros. rewrite repeat_length. lia. Qed.

Lemma len_enc_hdr t f v : cd_len (cd_enc_hdr t f v) = 4 + cd_len v.
Proof. unfold cd_enc_hdr. rewrite !len_app, len_e16. unfold cd_len at 1. simpl length. lia. Qed.

Lemma drop_app_len (a b : list Z) n : n = cd_len a -> cd_drop n (a ++ b) = b.
Proof.
  intros ->. unfold cd_drop, cd_len. rewrite Nat2Z.id.
  rewrite skipn_app, skipn_all, Nat.sub_diag. reflexivity.
Qed.

Lemma drop_app_ge (a b : list Z) n m : cd_len a = n - m -> 0 <= m -> cd_drop n (a ++ b) = cd_drop m b.
Proof.
  intros Hl Hm. unfold cd_drop, cd_len in *. rewrite skipn_app.
  rewrite skipn_all2 by lia. simpl. f_equal. lia.
Qed.

Lemma drop_0 (l : list Z) : cd_drop 0 l = l.
Proof. reflexivity. Qed.

Lemma take_app_len (a b : list Z) n : n = cd_len a -> cd_take n (a ++ b) = a.
Proof.
  intros ->. unfold cd_take, cd_len. rewrite Nat2Z.id.
  rewrite firstn_app, firstn_all, Nat.sub_diag. simpl. apply app_nil_r.
Qed.

Lemma take_all (a : list Z) n : n = cd_len a -> cd_take n a = a.
Proof. intros ->. unfold cd_take, cd_len. rewrite Nat2Z.id. apply firstn_all. Qed.

(* reads at an offset that is the length of an explicit prefix *)
Lemma rd8_at pre b post off : off = cd_len pre -> cd_rd8 (pre ++ b :: post) off = COk b.
Proof.
  intros ->. unfold cd_rd8. pose proof (len_nonneg pre). destruct (_ <? 0) eqn:E; [lia|].
  rewrite drop_app_len by reflexivity. reflexivity.
Qed.

Lemma rd16_at pre v post off : off = cd_len pre -> 0 <= v < 65536 ->
  cd_rd16 (pre ++ cd_e16 v ++ post) off = COk v.
Proof.
  intros -> Hv. unfold cd_rd16. pose proof (len_nonneg pre). destruct (_ <? 0) eqn:E; [lia|].
  rewrite drop_app_len by reflexivity. unfold cd_e16. cbn [app]. rewrite e16_val by assumption. reflexivity.
Qed.

Lemma rd32_at pre v post off : off = cd_len pre -> 0 <= v < 4294967296 ->
  cd_rd32 (pre ++ cd_e32 v ++ post) off = COk v.
Proof.
  intros -> Hv. unfold cd_rd32. pose proof (len_nonneg pre). destruct (_ <? 0) eqn:E; [lia|].
  rewrite drop_app_len by reflexivity. unfold cd_e32. cbn [app]. rewrite e32_val by assumption. reflexivity.
Qed.

Lemma rd16_0 v post : 0 <= v < 65536 -> cd_rd16 (cd_e16 v ++ post) 0 = COk v.
Proof. intros. apply (rd16_at [] v post 0); [reflexivity|assumption]. Qed.

Lemma rd32_0 v post : 0 <= v < 4294967296 -> cd_rd32 (cd_e32 v ++ post) 0 = COk v.
Proof. intros. apply (rd32_at [] v post 0); [reflexivity|assumption]. Qed.

(* boolean range predicates *)
Lemma u16_range v : cd_u16 v = true -> 0 <= v < 65536.
Proof. unfold cd_u16. lia. Qed.
Lemma u32_range v : cd_u32 v = true -> 0 <= v < 4294967296.
Proof. unfold cd_u32. lia. Qed.

(* ------------------------------------------------------------------ chunk header round trip and locality *)

Lemma all_zero_zeros n : cd_all_zero (cd_zeros n) = true.
Proof. unfold cd_all_zero, cd_zeros. induction (Z.to_nat n); simpl; auto. Qed.

Lemma all_zero_app a b : cd_all_zero (a ++ b) = cd_all_zero a && cd_all_zero b.
Proof. unfold cd_all_zero. apply forallb_app. Qed.

(* the padding scan over [rest] placed right behind [own] *)
Lemma pad_check_app own rest i :
  (i <= length rest)%nat ->
  cd_pad_check (own ++ rest) (cd_len own) i =
  if cd_all_zero (firstn i rest) then COk tt else CErr e_ChunkHeaderPaddingNonZero.
Proof.
  induction i as [|j IH]; intros Hi; [reflexivity|].
  cbn [cd_pad_check].
  assert (Hsplit : exists a b c, rest = a ++ b :: c /\ length a = j).
  { destruct (skipn j rest) as [|x xs] eqn:Es.
    - pose proof (skipn_length j rest) as Hl. rewrite Es in Hl. simpl in Hl. lia.
    - exists (firstn j rest), x, xs. split.
      + rewrite <- Es. symmetry. apply firstn_skipn.
      + rewrite firstn_length. lia. }
  destruct Hsplit as (a & b & c & -> & Ha).
  replace (own ++ a ++ b :: c) with ((own ++ a) ++ b :: c) by (rewrite app_assoc; reflexivity).
  rewrite rd8_at by (rewrite len_app; unfold cd_len; lia).
  cbn [cd_bind].
  replace ((own ++ a) ++ b :: c) with (own ++ a ++ b :: c) by (rewrite app_assoc; reflexivity).
  rewrite IH by (rewrite app_length; simpl; lia).
  replace (firstn (S j) (a ++ b :: c)) with (a ++ [b]).
  2:{ rewrite firstn_app. rewrite firstn_all2 by lia. replace (S j - length a)%nat with 1%nat by lia. reflexivity. }
  replace (firstn j (a ++ b :: c)) with a.
  2:{ rewrite firstn_app. rewrite firstn_all2 by lia. replace (j - length a)%nat with 0%nat by lia. simpl. symmetry; apply app_nil_r. }
  rewrite all_zero_app. unfold cd_all_zero at 3. cbn [forallb].
  destruct (b =? 0); destruct (cd_all_zero a); reflexivity.
Qed.

(* chunkHeader.unmarshal on a chunk followed by further bytes: the header and value are those of the
   chunk alone; only the padding rule looks at what follows *)
Lemma dec_hdr_app own rest h :
  cd_dec_hdr own = COk h -> cd_len own = 4 + cd_len (h_raw h) ->
  cd_dec_hdr (own ++ rest) =
  if (cd_len rest <? 4) && negb (cd_all_zero rest) then CErr e_ChunkHeaderPaddingNonZero else COk h.
Proof.
  intros Hd Hl. unfold cd_dec_hdr in *.
  pose proof (len_nonneg rest) as Hr. pose proof (len_nonneg (h_raw h)) as Hv.
  rewrite len_app.
  destruct (cd_len own <? c_chunkHeaderSize) eqn:E0; [discriminate|].
  destruct (cd_len own + cd_len rest <? c_chunkHeaderSize) eqn:E0'; [zl|].
  (* the three header reads do not see [rest] *)
  assert (H4 : exists t f a b tl, own = t :: f :: a :: b :: tl).
  { destruct own as [|t [|f [|a [|b tl]]]]; try (exfalso; unfold cd_len in E0; cbn [length] in E0; zl). eauto 6. }
  destruct H4 as (t & f & a & b & tl & ->).
  change (cd_rd8 ((t :: f :: a :: b :: tl) ++ rest) 0) with (COk (A:=Z) t).
  change (cd_rd8 ((t :: f :: a :: b :: tl) ++ rest) 1) with (COk (A:=Z) f).
  change (cd_rd16 ((t :: f :: a :: b :: tl) ++ rest) 2) with (COk (A:=Z) (a * 256 + b)).
  change (cd_rd8 (t :: f :: a :: b :: tl) 0) with (COk (A:=Z) t) in Hd.
  change (cd_rd8 (t :: f :: a :: b :: tl) 1) with (COk (A:=Z) f) in Hd.
  change (cd_rd16 (t :: f :: a :: b :: tl) 2) with (COk (A:=Z) (a * 256 + b)) in Hd.
  cbn [cd_bind] in *.
  set (vl := wrap16 (a * 256 + b - c_chunkHeaderSize)) in *.
  destruct (cd_len (t :: f :: a :: b :: tl) - (c_chunkHeaderSize + vl) <? 0) eqn:E1; [discriminate|].
  match type of Hd with cd_bind ?x _ = _ => destruct x as [u| | |] eqn:Hp; cbn [cd_bind] in Hd; try discriminate end.
  destruct (cd_slice (t :: f :: a :: b :: tl) c_chunkHeaderSize (c_chunkHeaderSize + vl)) as [v| | |] eqn:Hs;
    cbn [cd_bind] in Hd; try discriminate.
  inversion Hd; subst h; cbn [h_raw] in *. clear Hd.
  pose proof (slice_len _ _ _ _ Hs) as Hvl.
  assert (Hown : cd_len (t :: f :: a :: b :: tl) = 4 + vl) by zl.
  destruct (cd_len (t :: f :: a :: b :: tl) + cd_len rest - (c_chunkHeaderSize + vl) <? 0) eqn:E2; [zl|].
  (* the value slice *)
  assert (Hs' : cd_slice ((t :: f :: a :: b :: tl) ++ rest) c_chunkHeaderSize (c_chunkHeaderSize + vl) = COk v).
  { unfold cd_slice in *. rewrite len_app.
    destruct ((c_chunkHeaderSize <? 0) || (c_chunkHeaderSize + vl <? c_chunkHeaderSize)
              || (cd_len (t :: f :: a :: b :: tl) <? c_chunkHeaderSize + vl)) eqn:E3; [discriminate|].
    destruct ((c_chunkHeaderSize <? 0) || (c_chunkHeaderSize + vl <? c_chunkHeaderSize)
              || (cd_len (t :: f :: a :: b :: tl) + cd_len rest <? c_chunkHeaderSize + vl)) eqn:E4; [zl|].
    inversion Hs. f_equal.
    unfold cd_take, cd_drop. change (Z.to_nat c_chunkHeaderSize) with 4%nat. cbn [skipn app].
    rewrite firstn_app. replace (Z.to_nat (c_chunkHeaderSize + vl - c_chunkHeaderSize) - length tl)%nat with 0%nat.
    - simpl. apply app_nil_r.
    - rewrite len_cons, len_cons, len_cons, len_cons in Hown. unfold cd_len in Hown. zl. }
  rewrite Hs'. cbn [cd_bind].
  (* the padding rule *)
  replace (cd_len (t :: f :: a :: b :: tl) + cd_len rest - (c_chunkHeaderSize + vl)) with (cd_len rest) by zl.
  destruct (cd_len rest <? 4) eqn:E5; cbn [andb].
  - replace (c_chunkHeaderSize + vl) with (cd_len (t :: f :: a :: b :: tl)) by zl.
    rewrite pad_check_app by (unfold cd_len; lia).
    replace (firstn (Z.to_nat (cd_len rest)) rest) with rest.
    2:{ unfold cd_len. rewrite Nat2Z.id. symmetry; apply firstn_all. }
    destruct (cd_all_zero rest); reflexivity.
  - reflexivity.
Qed.

(* chunkHeader.unmarshal(chunkHeader.marshal(h)) for values whose length fits the 16-bit field *)
Lemma dec_hdr_enc_gen t f v : cd_len v < 65536 ->
  cd_dec_hdr (cd_enc_hdr t f v) = COk (mkHdr t f v).
Proof.
  intros Hl. pose proof (len_nonneg v) as Hv. unfold cd_dec_hdr. rewrite len_enc_hdr.
  destruct (4 + cd_len v <? c_chunkHeaderSize) eqn:E0; [zl|].
  unfold cd_enc_hdr.
  change (cd_rd8 ([t; f] ++ cd_e16 (wrap16 (cd_len v + c_chunkHeaderSize)) ++ v) 0) with (COk (A:=Z) t).
  change (cd_rd8 ([t; f] ++ cd_e16 (wrap16 (cd_len v + c_chunkHeaderSize)) ++ v) 1) with (COk (A:=Z) f).
  rewrite (rd16_at [t; f]) by (try reflexivity; zl).
  cbn [cd_bind].
  replace (wrap16 (wrap16 (cd_len v + c_chunkHeaderSize) - c_chunkHeaderSize)) with (cd_len v) by zl.
  destruct (4 + cd_len v - (c_chunkHeaderSize + cd_len v) <? 0) eqn:E1; [zl|].
  replace (4 + cd_len v - (c_chunkHeaderSize + cd_len v)) with 0 by zl.
  change (0 <? 4) with true. cbn [cd_pad_check Z.to_nat cd_bind].
  rewrite slice_ok; [|zl|zl|fold (cd_enc_hdr t f v); rewrite len_enc_hdr; zl].
  cbn [cd_bind]. f_equal. f_equal.
  replace (c_chunkHeaderSize + cd_len v - c_chunkHeaderSize) with (cd_len v) by zl.
  replace ([t; f] ++ cd_e16 (wrap16 (cd_len v + c_chunkHeaderSize)) ++ v)
    with (([t; f] ++ cd_e16 (wrap16 (cd_len v + c_chunkHeaderSize))) ++ v) by (rewrite <- app_assoc; reflexivity).
  rewrite drop_app_len by reflexivity. apply take_all. reflexivity.
Qed.

Lemma dec_hdr_enc t f v : cd_len v + 4 < 65536 ->
  cd_dec_hdr (cd_enc_hdr t f v) = COk (mkHdr t f v).
Proof. intros H. apply dec_hdr_enc_gen. lia. Qed.

(* ------------------------------------------------------------------ per-kind round trips
   (the chunk alone: exactly header + value; bundling is handled by [dec_hdr_app]) *)

Ltac lens := rewrite ?len_app, ?len_e16, ?len_e32, ?len_cons, ?len_nil; try reflexivity; try lia.

Lemma COk_inj {A} (a b : A) : COk a = COk b -> a = b.
Proof. intros H. congruence. Qed.

Ltac dispatch_tac := intros H; unfold cd_dec_chunk; rewrite H; reflexivity.
Lemma dispatch_data raw : cd_rd8 raw 0 = COk c_ctPayloadData -> cd_dec_chunk raw = cd_dec_data raw.
Proof. dispatch_tac. Qed.
Lemma dispatch_idata raw : cd_rd8 raw 0 = COk c_ctIData -> cd_dec_chunk raw = cd_dec_data raw.
Proof. dispatch_tac. Qed.
Lemma dispatch_sack raw : cd_rd8 raw 0 = COk c_ctSack -> cd_dec_chunk raw = cd_dec_sack raw.
Proof. dispatch_tac. Qed.
Lemma dispatch_shutdown raw : cd_rd8 raw 0 = COk c_ctShutdown -> cd_dec_chunk raw = cd_dec_shutdown raw.
Proof. dispatch_tac. Qed.
Lemma dispatch_shutdown_ack raw : cd_rd8 raw 0 = COk c_ctShutdownAck ->
  cd_dec_chunk raw = cd_dec_plain c_ctShutdownAck e_ChunkTypeNotShutdownAck CkShutdownAck raw.
Proof. dispatch_tac. Qed.
Lemma dispatch_shutdown_complete raw : cd_rd8 raw 0 = COk c_ctShutdownComplete ->
  cd_dec_chunk raw = cd_dec_plain c_ctShutdownComplete e_ChunkTypeNotShutdownComplete CkShutdownComplete raw.
Proof. dispatch_tac. Qed.
Lemma dispatch_cookie_echo raw : cd_rd8 raw 0 = COk c_ctCookieEcho ->
  cd_dec_chunk raw = cd_dec_plain c_ctCookieEcho e_ChunkTypeNotCookieEcho CkCookieEcho raw.
Proof. dispatch_tac. Qed.
Lemma dispatch_cookie_ack raw : cd_rd8 raw 0 = COk c_ctCookieAck ->
  cd_dec_chunk raw = cd_dec_plain c_ctCookieAck e_ChunkTypeNotCookieAck CkCookieAck raw.
Proof. dispatch_tac. Qed.
Lemma dispatch_fwd raw : cd_rd8 raw 0 = COk c_ctForwardTSN -> cd_dec_chunk raw = cd_dec_fwd raw.
Proof. dispatch_tac. Qed.

Lemma rd8_enc_hdr t f v : cd_rd8 (cd_enc_hdr t f v) 0 = COk t.
Proof. reflexivity. Qed.

Lemma data_flags_dec un bg en imm :
  cd_flag (cd_data_flags un bg en imm) c_payloadDataImmediateSACK = imm /\
  cd_flag (cd_data_flags un bg en imm) c_payloadDataUnorderedBitmask = un /\
  cd_flag (cd_data_flags un bg en imm) c_payloadDataBeginingFragmentBitmask = bg /\
  cd_flag (cd_data_flags un bg en imm) c_payloadDataEndingFragmentBitmask = en.
Proof. destruct un, bg, en, imm; vm_compute; auto. Qed.

Lemma rt_data idata un bg en imm tsn sid ssn mid fsn ppi ud bs :
  cd_wf_chunk (CkData idata un bg en imm tsn sid ssn mid fsn ppi ud) = true ->
  cd_enc_chunk (CkData idata un bg en imm tsn sid ssn mid fsn ppi ud) = COk bs ->
  cd_dec_chunk bs = COk (cd_canon_chunk (CkData idata un bg en imm tsn sid ssn mid fsn ppi ud), cd_len bs - 4).
Proof.
  intros Hwf Henc. cbn [cd_wf_chunk] in Hwf.
  repeat (apply andb_prop in Hwf; destruct Hwf as [Hwf ?]).
  repeat match goal with
  | H : cd_u32 _ = true |- _ => apply u32_range in H
  | H : cd_u16 _ = true |- _ => apply u16_range in H
  end.
  pose proof (len_nonneg ud) as Hud.
  destruct (data_flags_dec un bg en imm) as (Fi & Fu & Fb & Fe).
  cbn [cd_enc_chunk] in Henc. destruct idata; apply COk_inj in Henc; subst bs.
  - (* I-DATA *)
    rewrite dispatch_idata by apply rd8_enc_hdr.
    rewrite len_enc_hdr.
    unfold cd_dec_data. rewrite dec_hdr_enc by (lens; zl).
    cbn [cd_bind h_flags h_raw h_typ]. rewrite Fi, Fu, Fb, Fe.
    change (c_ctIData =? c_ctPayloadData) with false. change (c_ctIData =? c_ctIData) with true. cbv iota.
    match goal with |- context [cd_len ?v <? c_iDataHeaderSize] =>
      replace (cd_len v <? c_iDataHeaderSize) with false by (symmetry; lens; zl) end.
    rewrite rd32_0 by lia. cbn [cd_bind].
    rewrite (rd16_at (cd_e32 tsn)) by (lens; lia). cbn [cd_bind].
    do 2 rewrite app_assoc. rewrite (rd32_at _ mid) by (lens; lia). cbn [cd_bind].
    rewrite app_assoc.
    rewrite (rd32_at _ (if bg then ppi else fsn)) by (lens; destruct bg; lia). cbn [cd_bind].
    rewrite app_assoc. rewrite from_ok by (lens; zl). rewrite drop_app_len by lens. cbn [cd_bind].
    cbn [cd_canon_chunk]. f_equal. f_equal; [|lens].
    destruct bg; reflexivity.
  - (* DATA *)
    rewrite dispatch_data by apply rd8_enc_hdr.
    rewrite len_enc_hdr.
    unfold cd_dec_data. rewrite dec_hdr_enc by (lens; zl).
    cbn [cd_bind h_flags h_raw h_typ]. rewrite Fi, Fu, Fb, Fe.
    change (c_ctPayloadData =? c_ctPayloadData) with true. cbv iota.
    match goal with |- context [cd_len ?v <? c_payloadDataHeaderSize] =>
      replace (cd_len v <? c_payloadDataHeaderSize) with false by (symmetry; lens; zl) end.
    rewrite rd32_0 by lia. cbn [cd_bind].
    rewrite (rd16_at (cd_e32 tsn)) by (lens; lia). cbn [cd_bind].
    rewrite app_assoc. rewrite (rd16_at _ ssn) by (lens; lia). cbn [cd_bind].
    rewrite app_assoc. rewrite (rd32_at _ ppi) by (lens; lia). cbn [cd_bind].
    rewrite app_assoc. rewrite from_ok by (lens; zl). rewrite drop_app_len by lens. cbn [cd_bind].
    cbn [cd_canon_chunk]. f_equal; f_equal; try lens.
Qed.

Lemma rt_shutdown fl cum bs :
  cd_wf_chunk (CkShutdown fl cum) = true -> cd_enc_chunk (CkShutdown fl cum) = COk bs ->
  cd_dec_chunk bs = COk (cd_canon_chunk (CkShutdown fl cum), cd_len bs - 4).
Proof.
  intros Hwf Henc. cbn [cd_wf_chunk] in Hwf. apply andb_prop in Hwf. destruct Hwf as [_ Hc]. apply u32_range in Hc.
  cbn [cd_enc_chunk] in Henc. apply COk_inj in Henc; subst bs.
  rewrite dispatch_shutdown by apply rd8_enc_hdr. rewrite len_enc_hdr.
  unfold cd_dec_shutdown. rewrite dec_hdr_enc by (lens; zl). cbn [cd_bind h_flags h_raw h_typ].
  change (negb (c_ctShutdown =? c_ctShutdown)) with false. cbv iota.
  change (negb (cd_len (cd_e32 cum) =? c_cumulativeTSNAckLength)) with false. cbv iota.
  rewrite <- (app_nil_r (cd_e32 cum)) at 1. rewrite rd32_0 by lia. cbn [cd_bind cd_canon_chunk].
  f_equal; f_equal; try lens.
Qed.

Lemma rt_plain typ err (mk : Z -> list Z -> cd_chunk) fl raw :
  cd_len raw + 4 < 65536 ->
  cd_dec_plain typ err mk (cd_enc_hdr typ fl raw) = COk (mk fl raw, cd_len (cd_enc_hdr typ fl raw) - 4).
Proof.
  intros Hl. unfold cd_dec_plain. rewrite dec_hdr_enc by lia. cbn [cd_bind h_flags h_raw h_typ].
  rewrite Z.eqb_refl. cbn [negb]. rewrite len_enc_hdr. f_equal; f_equal; try lia.
Qed.

Lemma rt_shutdown_ack fl raw bs :
  cd_wf_chunk (CkShutdownAck fl raw) = true -> cd_enc_chunk (CkShutdownAck fl raw) = COk bs ->
  cd_dec_chunk bs = COk (cd_canon_chunk (CkShutdownAck fl raw), cd_len bs - 4).
Proof.
  intros Hwf Henc. cbn [cd_wf_chunk] in Hwf. apply andb_prop in Hwf. destruct Hwf as [_ Hc].
  cbn [cd_enc_chunk] in Henc. apply COk_inj in Henc; subst bs.
  rewrite dispatch_shutdown_ack by apply rd8_enc_hdr. apply rt_plain. lia.
Qed.

Lemma rt_shutdown_complete fl raw bs :
  cd_wf_chunk (CkShutdownComplete fl raw) = true -> cd_enc_chunk (CkShutdownComplete fl raw) = COk bs ->
  cd_dec_chunk bs = COk (cd_canon_chunk (CkShutdownComplete fl raw), cd_len bs - 4).
Proof.
  intros Hwf Henc. cbn [cd_wf_chunk] in Hwf. apply andb_prop in Hwf. destruct Hwf as [_ Hc].
  cbn [cd_enc_chunk] in Henc. apply COk_inj in Henc; subst bs.
  rewrite dispatch_shutdown_complete by apply rd8_enc_hdr. apply rt_plain. lia.
Qed.

Lemma rt_cookie_ack fl raw bs :
  cd_wf_chunk (CkCookieAck fl raw) = true -> cd_enc_chunk (CkCookieAck fl raw) = COk bs ->
  cd_dec_chunk bs = COk (cd_canon_chunk (CkCookieAck fl raw), cd_len bs - 4).
Proof.
  intros Hwf Henc. cbn [cd_wf_chunk] in Hwf. apply andb_prop in Hwf. destruct Hwf as [_ Hc].
  cbn [cd_enc_chunk] in Henc. apply COk_inj in Henc; subst bs.
  rewrite dispatch_cookie_ack by apply rd8_enc_hdr. apply rt_plain. lia.
Qed.

Lemma rt_cookie_echo fl ck bs :
  cd_wf_chunk (CkCookieEcho fl ck) = true -> cd_enc_chunk (CkCookieEcho fl ck) = COk bs ->
  cd_dec_chunk bs = COk (cd_canon_chunk (CkCookieEcho fl ck), cd_len bs - 4).
Proof.
  intros Hwf Henc. cbn [cd_wf_chunk] in Hwf. apply andb_prop in Hwf. destruct Hwf as [_ Hc].
  cbn [cd_enc_chunk] in Henc. apply COk_inj in Henc; subst bs.
  rewrite dispatch_cookie_echo by apply rd8_enc_hdr. apply rt_plain. lia.
Qed.

(* lists of fixed-size entries *)
Definition cd_enc_gap (g : Z * Z) : list Z := cd_e16 (fst g) ++ cd_e16 (snd g).

Lemma len_flat_gap (gs : list (Z * Z)) : cd_len (flat_map cd_enc_gap gs) = 4 * cd_len gs.
Proof.
  induction gs as [|g tl IH]; [reflexivity|]. cbn [flat_map]. rewrite len_app, IH, len_cons.
  unfold cd_enc_gap. lens.
Qed.

Lemma len_flat_e32 (l : list Z) : cd_len (flat_map cd_e32 l) = 4 * cd_len l.
Proof.
  induction l as [|g tl IH]; [reflexivity|]. cbn [flat_map]. rewrite len_app, IH, len_cons. lens.
Qed.

Lemma dec_gaps_enc gs : forall pre post,
  forallb (fun g => cd_u16 (fst g) && cd_u16 (snd g)) gs = true ->
  cd_dec_gaps (length gs) (pre ++ flat_map cd_enc_gap gs ++ post) (cd_len pre) = COk gs.
Proof.
  induction gs as [|[s e] tl IH]; intros pre post Hwf; [reflexivity|].
  cbn [forallb fst snd] in Hwf. apply andb_prop in Hwf. destruct Hwf as [Hg Htl].
  apply andb_prop in Hg. destruct Hg as [Hs He]. apply u16_range in Hs. apply u16_range in He.
  cbn [length cd_dec_gaps flat_map]. change (cd_enc_gap (s, e)) with (cd_e16 s ++ cd_e16 e).
  rewrite <- !app_assoc.
  rewrite (rd16_at pre s) by (try reflexivity; lia). cbn [cd_bind].
  rewrite (app_assoc pre). rewrite (rd16_at _ e) by (lens; lia). cbn [cd_bind].
  rewrite (app_assoc (pre ++ cd_e16 s)).
  replace (cd_len pre + 4) with (cd_len ((pre ++ cd_e16 s) ++ cd_e16 e)) by lens.
  rewrite IH by assumption. reflexivity.
Qed.

Lemma rd32s_enc l : forall pre post,
  forallb cd_u32 l = true ->
  cd_rd32s (length l) (pre ++ flat_map cd_e32 l ++ post) (cd_len pre) = COk l.
Proof.
  induction l as [|v tl IH]; intros pre post Hwf; [reflexivity|].
  cbn [forallb] in Hwf. apply andb_prop in Hwf. destruct Hwf as [Hv Htl]. apply u32_range in Hv.
  cbn [length cd_rd32s flat_map]. rewrite <- !app_assoc.
  rewrite (rd32_at pre v) by (try reflexivity; lia). cbn [cd_bind].
  rewrite (app_assoc pre).
  replace (cd_len pre + 4) with (cd_len (pre ++ cd_e32 v)) by lens.
  rewrite IH by assumption. reflexivity.
Qed.

Lemma flat_map_gap_eq (gs : list (Z * Z)) :
  flat_map (fun g => cd_e16 (fst g) ++ cd_e16 (snd g)) gs = flat_map cd_enc_gap gs.
Proof. reflexivity. Qed.

Lemma rt_sack fl cum arwnd gaps dups bs :
  cd_wf_chunk (CkSack fl cum arwnd gaps dups) = true -> cd_enc_chunk (CkSack fl cum arwnd gaps dups) = COk bs ->
  cd_dec_chunk bs = COk (cd_canon_chunk (CkSack fl cum arwnd gaps dups), cd_len bs - 4).
Proof.
  intros Hwf Henc. cbn [cd_wf_chunk] in Hwf.
  apply andb_prop in Hwf. destruct Hwf as [Hwf Hlen].
  apply andb_prop in Hwf. destruct Hwf as [Hwf Hdups].
  apply andb_prop in Hwf. destruct Hwf as [Hwf Hgaps].
  apply andb_prop in Hwf. destruct Hwf as [Hwf Har]. apply u32_range in Har.
  apply andb_prop in Hwf. destruct Hwf as [_ Hcum]. apply u32_range in Hcum.
  pose proof (len_nonneg gaps) as Hg0. pose proof (len_nonneg dups) as Hd0.
  cbn [cd_enc_chunk] in Henc. apply COk_inj in Henc; subst bs.
  rewrite dispatch_sack by apply rd8_enc_hdr. rewrite len_enc_hdr.
  rewrite flat_map_gap_eq.
  unfold cd_dec_sack. rewrite dec_hdr_enc by (lens; rewrite len_flat_gap, len_flat_e32; zl).
  cbn [cd_bind h_flags h_raw h_typ].
  change (negb (c_ctSack =? c_ctSack)) with false. cbv iota.
  replace (wrap16 (cd_len gaps)) with (cd_len gaps) by zl.
  replace (wrap16 (cd_len dups)) with (cd_len dups) by zl.
  match goal with |- context [cd_len ?v <? c_selectiveAckHeaderSize] =>
    replace (cd_len v <? c_selectiveAckHeaderSize) with false
      by (symmetry; lens; rewrite len_flat_gap, len_flat_e32; zl) end.
  rewrite rd32_0 by lia. cbn [cd_bind].
  rewrite (rd32_at (cd_e32 cum)) by (lens; lia). cbn [cd_bind].
  rewrite app_assoc. rewrite (rd16_at _ (cd_len gaps)) by (lens; zl). cbn [cd_bind].
  rewrite app_assoc. rewrite (rd16_at _ (cd_len dups)) by (lens; zl). cbn [cd_bind].
  rewrite app_assoc.
  match goal with |- context [negb (cd_len ?v =? ?r)] =>
    replace (negb (cd_len v =? r)) with false
      by (symmetry; lens; rewrite len_flat_gap, len_flat_e32; zl) end.
  replace (Z.to_nat (cd_len gaps)) with (length gaps) by (unfold cd_len; lia).
  replace (Z.to_nat (cd_len dups)) with (length dups) by (unfold cd_len; lia).
  match goal with |- context [cd_dec_gaps _ (?pre ++ _ ++ _) ?off] =>
    replace off with (cd_len pre) by lens end.
  rewrite dec_gaps_enc by assumption. cbn [cd_bind].
  rewrite app_assoc.
  match goal with |- context [cd_rd32s _ (?pre ++ ?x) ?off] =>
    replace off with (cd_len pre) by (lens; rewrite len_flat_gap; zl);
    rewrite <- (app_nil_r x)
  end.
  rewrite rd32s_enc by assumption. cbn [cd_bind cd_canon_chunk]. f_equal; f_equal; try lens.
Qed.

Lemma fwd_streams_enc ss : forall fuel pre,
  forallb (fun s => cd_u16 (fst s) && cd_u16 (snd s)) ss = true ->
  (length ss < fuel)%nat ->
  cd_dec_fwd_streams fuel (pre ++ flat_map cd_enc_gap ss) (cd_len pre) (4 * cd_len ss) = COk ss.
Proof.
  induction ss as [|[sid ssn] tl IH]; intros fuel pre Hwf Hf.
  - destruct fuel; [simpl in Hf; lia|]. reflexivity.
  - destruct fuel as [|f]; [simpl in Hf; lia|]. simpl in Hf.
    cbn [forallb fst snd] in Hwf. apply andb_prop in Hwf. destruct Hwf as [Hg Htl].
    apply andb_prop in Hg. destruct Hg as [Hs He]. apply u16_range in Hs. apply u16_range in He.
    pose proof (len_nonneg tl) as Htl0.
    cbn [cd_dec_fwd_streams]. rewrite len_cons.
    destruct (4 * (1 + cd_len tl) >? 0) eqn:E0; [|lia].
    rewrite from_ok by (rewrite len_app; pose proof (len_nonneg (flat_map cd_enc_gap ((sid, ssn) :: tl))); pose proof (len_nonneg pre); lia).
    rewrite drop_app_len by reflexivity. cbn [cd_bind].
    rewrite len_flat_gap, len_cons.
    destruct (4 * (1 + cd_len tl) <? c_forwardTSNStreamLength) eqn:E1; [zl|].
    cbn [flat_map]. change (cd_enc_gap (sid, ssn)) with (cd_e16 sid ++ cd_e16 ssn). rewrite <- !app_assoc.
    rewrite rd16_0 by lia. cbn [cd_bind].
    rewrite (rd16_at (cd_e16 sid) ssn) by (lens; lia). cbn [cd_bind].
    rewrite (app_assoc (cd_e16 sid)). rewrite (app_assoc pre).
    replace (cd_len pre + c_forwardTSNStreamLength) with (cd_len (pre ++ cd_e16 sid ++ cd_e16 ssn)) by (lens; zl).
    replace (4 * (1 + cd_len tl) - c_forwardTSNStreamLength) with (4 * cd_len tl) by zl.
    rewrite IH by (try assumption; lia). reflexivity.
Qed.

Lemma rt_fwd fl ntsn ss bs :
  cd_wf_chunk (CkForwardTSN fl ntsn ss) = true -> cd_enc_chunk (CkForwardTSN fl ntsn ss) = COk bs ->
  cd_dec_chunk bs = COk (cd_canon_chunk (CkForwardTSN fl ntsn ss), cd_len bs - 4).
Proof.
  intros Hwf Henc. cbn [cd_wf_chunk] in Hwf.
  apply andb_prop in Hwf. destruct Hwf as [Hwf Hlen].
  apply andb_prop in Hwf. destruct Hwf as [Hwf Hss].
  apply andb_prop in Hwf. destruct Hwf as [_ Hn]. apply u32_range in Hn.
  pose proof (len_nonneg ss) as Hs0.
  cbn [cd_enc_chunk] in Henc. apply COk_inj in Henc; subst bs.
  rewrite dispatch_fwd by apply rd8_enc_hdr. rewrite len_enc_hdr.
  rewrite flat_map_gap_eq.
  unfold cd_dec_fwd. rewrite dec_hdr_enc by (lens; rewrite len_flat_gap; zl).
  cbn [cd_bind h_flags h_raw h_typ].
  match goal with |- context [cd_len ?v <? c_newCumulativeTSNLength] =>
    replace (cd_len v <? c_newCumulativeTSNLength) with false
      by (symmetry; lens; rewrite len_flat_gap; zl) end.
  rewrite rd32_0 by lia. cbn [cd_bind].
  rewrite len_app, len_e32, len_flat_gap.
  replace (4 + 4 * cd_len ss - c_newCumulativeTSNLength) with (4 * cd_len ss) by zl.
  change c_newCumulativeTSNLength with (cd_len (cd_e32 ntsn)).
  rewrite fwd_streams_enc by (try assumption; unfold cd_len; lia).
  cbn [cd_bind cd_canon_chunk]. f_equal; f_equal; try (lens; rewrite len_flat_gap; lia).
Qed.

(* ================================================================== parameters, INIT, RECONFIG, HEARTBEAT *)

Lemma len_enc_phdr typ v : cd_len (cd_enc_phdr typ v) = 4 + cd_len v.
Proof. unfold cd_enc_phdr. lens. Qed.

(* paramHeader.unmarshal(paramHeader.marshal) with anything behind it *)
Lemma phdr_rt typ v rest : 0 <= typ < 65536 -> 4 + cd_len v < 65536 ->
  cd_dec_phdr (cd_enc_phdr typ v ++ rest) = COk (mkPhdr typ (4 + cd_len v) v).
Proof.
  intros Ht Hl. pose proof (len_nonneg v) as Hv. pose proof (len_nonneg rest) as Hr.
  unfold cd_dec_phdr. rewrite len_app, len_enc_phdr.
  destruct (4 + cd_len v + cd_len rest <? c_paramHeaderLength) eqn:E0; [zl|].
  unfold cd_enc_phdr. rewrite <- !app_assoc.
  rewrite (rd16_at (cd_e16 typ)) by (lens; zl). cbn [cd_bind].
  replace (wrap16 (c_paramHeaderLength + cd_len v)) with (4 + cd_len v) by zl.
  destruct (4 + cd_len v <? c_paramHeaderLength) eqn:E1; [zl|].
  destruct (4 + cd_len v + cd_len rest <? 4 + cd_len v) eqn:E2; [lia|].
  destruct (4 + cd_len v + cd_len rest <? 2) eqn:E3; [lia|].
  rewrite rd16_0 by lia. cbn [cd_bind].
  rewrite slice_ok; [|zl|zl|lens; zl].
  cbn [cd_bind]. f_equal. f_equal.
  rewrite (app_assoc (cd_e16 typ)). rewrite drop_app_len by (lens; zl).
  apply take_app_len. zl.
Qed.

Lemma rd16s_enc l : forall pre post,
  forallb cd_u16 l = true ->
  cd_rd16s (length l) (pre ++ flat_map cd_e16 l ++ post) (cd_len pre) = COk l.
Proof.
  induction l as [|v tl IH]; intros pre post Hwf; [reflexivity|].
  cbn [forallb] in Hwf. apply andb_prop in Hwf. destruct Hwf as [Hv Htl]. apply u16_range in Hv.
  cbn [length cd_rd16s flat_map]. rewrite <- !app_assoc.
  rewrite (rd16_at pre v) by (try reflexivity; lia). cbn [cd_bind].
  rewrite (app_assoc pre).
  replace (cd_len pre + 2) with (cd_len (pre ++ cd_e16 v)) by lens.
  rewrite IH by assumption. reflexivity.
Qed.

Lemma len_flat_e16 (l : list Z) : cd_len (flat_map cd_e16 l) = 2 * cd_len l.
Proof.
  induction l as [|g tl IH]; [reflexivity|]. cbn [flat_map]. rewrite len_app, IH, len_cons. lens.
Qed.

Lemma dec_hmacs_enc l : forall pre post,
  forallb cd_is_hmac l = true ->
  cd_dec_hmacs (length l) (pre ++ flat_map cd_e16 l ++ post) (cd_len pre) = COk l.
Proof.
  induction l as [|v tl IH]; intros pre post Hwf; [reflexivity|].
  cbn [forallb] in Hwf. apply andb_prop in Hwf. destruct Hwf as [Hv Htl].
  assert (Hr : 0 <= v < 65536) by (unfold cd_is_hmac, cd_hmacSHA128, cd_hmacSHA256 in Hv; lia).
  cbn [length cd_dec_hmacs flat_map]. rewrite <- !app_assoc.
  rewrite (rd16_at pre v) by (try reflexivity; lia). cbn [cd_bind].
  unfold cd_is_hmac in Hv. rewrite Hv.
  rewrite (app_assoc pre).
  replace (cd_len pre + 2) with (cd_len (pre ++ cd_e16 v)) by lens.
  rewrite IH by assumption. reflexivity.
Qed.

Definition cd_param_type (p : cd_param) : Z :=
  match p with
  | PmHeartbeatInfo _ => c_heartbeatInfo | PmStateCookie _ => c_stateCookie
  | PmOutReset _ _ _ _ => c_outSSNResetReq | PmReconfigResp _ _ => c_reconfigResp
  | PmEcn => c_ecnCapable | PmZeroChecksum _ => c_zeroChecksumAcceptable
  | PmRandom _ => c_random | PmChunkList _ => c_chunkList | PmReqHmac _ => c_reqHMACAlgo
  | PmSupportedExt _ => c_supportedExt | PmFwdTsnSupp => c_forwardTSNSupp
  end.

Lemma enc_param_head p : exists v, cd_enc_param p = cd_enc_phdr (cd_param_type p) v.
Proof. destruct p; eexists; reflexivity. Qed.

Lemma param_type_range p : 0 <= cd_param_type p < 65536.
Proof. destruct p; (split; [apply Z.leb_le | apply Z.ltb_lt]; reflexivity). Qed.

Lemma rd16_enc_param p rest : cd_rd16 (cd_enc_param p ++ rest) 0 = COk (cd_param_type p).
Proof.
  destruct (enc_param_head p) as [v ->]. unfold cd_enc_phdr. rewrite <- !app_assoc.
  apply rd16_0. apply param_type_range.
Qed.

Lemma len_enc_param_ge p : 4 <= cd_len (cd_enc_param p).
Proof. destruct (enc_param_head p) as [v ->]. rewrite len_enc_phdr. pose proof (len_nonneg v). lia. Qed.

(* buildParam(param.marshal()) with anything behind it *)
Lemma build_param_rt p rest : cd_wf_param p = true ->
  cd_build_param (cd_param_type p) (cd_enc_param p ++ rest) = COk (p, cd_len (cd_enc_param p)).
Proof.
  intros Hwf. destruct p; cbn [cd_wf_param] in Hwf; cbn [cd_param_type cd_enc_param]; unfold cd_build_param.
  - (* heartbeat info *)
    change (c_heartbeatInfo =? c_forwardTSNSupp) with false. change (c_heartbeatInfo =? c_supportedExt) with false.
    change (c_heartbeatInfo =? c_ecnCapable) with false. change (c_heartbeatInfo =? c_random) with false.
    change (c_heartbeatInfo =? c_reqHMACAlgo) with false. change (c_heartbeatInfo =? c_chunkList) with false.
    change (c_heartbeatInfo =? c_stateCookie) with false. change (c_heartbeatInfo =? c_heartbeatInfo) with true.
    cbv iota. rewrite phdr_rt by (try (split; [apply Z.leb_le | apply Z.ltb_lt]; reflexivity); lia).
    cbn [cd_bind ph_raw ph_len]. rewrite len_enc_phdr. reflexivity.
  - (* state cookie *)
    change (c_stateCookie =? c_forwardTSNSupp) with false. change (c_stateCookie =? c_supportedExt) with false.
    change (c_stateCookie =? c_ecnCapable) with false. change (c_stateCookie =? c_random) with false.
    change (c_stateCookie =? c_reqHMACAlgo) with false. change (c_stateCookie =? c_chunkList) with false.
    change (c_stateCookie =? c_stateCookie) with true.
    cbv iota. rewrite phdr_rt by (try (split; [apply Z.leb_le | apply Z.ltb_lt]; reflexivity); lia).
    cbn [cd_bind ph_raw ph_len]. rewrite len_enc_phdr. reflexivity.
  - (* outgoing reset request *)
    repeat (apply andb_prop in Hwf; destruct Hwf as [Hwf ?]).
    repeat match goal with H : cd_u32 _ = true |- _ => apply u32_range in H end.
    pose proof (len_nonneg sids) as Hs0.
    change (c_outSSNResetReq =? c_forwardTSNSupp) with false. change (c_outSSNResetReq =? c_supportedExt) with false.
    change (c_outSSNResetReq =? c_ecnCapable) with false. change (c_outSSNResetReq =? c_random) with false.
    change (c_outSSNResetReq =? c_reqHMACAlgo) with false. change (c_outSSNResetReq =? c_chunkList) with false.
    change (c_outSSNResetReq =? c_stateCookie) with false. change (c_outSSNResetReq =? c_heartbeatInfo) with false.
    change (c_outSSNResetReq =? c_outSSNResetReq) with true.
    cbv iota. rewrite phdr_rt by (try (split; [apply Z.leb_le | apply Z.ltb_lt]; reflexivity); lens; rewrite len_flat_e16; lia).
    cbn [cd_bind ph_raw ph_len].
    match goal with |- context [cd_len ?v <? c_paramOutgoingResetRequestStreamIdentifiersOffset] =>
      replace (cd_len v <? c_paramOutgoingResetRequestStreamIdentifiersOffset) with false
        by (symmetry; lens; rewrite len_flat_e16; zl) end.
    rewrite rd32_0 by lia. cbn [cd_bind].
    rewrite (rd32_at (cd_e32 reqSeq)) by (lens; lia). cbn [cd_bind].
    rewrite app_assoc. rewrite (rd32_at _ lastTSN) by (lens; lia). cbn [cd_bind].
    rewrite app_assoc.
    match goal with |- context [Z.to_nat ?x] =>
      replace (Z.to_nat x) with (length sids) by (lens; rewrite len_flat_e16; unfold cd_len; zl) end.
    match goal with |- context [cd_rd16s _ (?pre ++ ?x) ?off] =>
      replace off with (cd_len pre) by (lens; zl); rewrite <- (app_nil_r x) end.
    rewrite rd16s_enc by assumption. cbn [cd_bind]. rewrite len_enc_phdr. reflexivity.
  - (* reconfig response *)
    apply andb_prop in Hwf. destruct Hwf as [Ha Hb]. apply u32_range in Ha. apply u32_range in Hb.
    change (c_reconfigResp =? c_forwardTSNSupp) with false. change (c_reconfigResp =? c_supportedExt) with false.
    change (c_reconfigResp =? c_ecnCapable) with false. change (c_reconfigResp =? c_random) with false.
    change (c_reconfigResp =? c_reqHMACAlgo) with false. change (c_reconfigResp =? c_chunkList) with false.
    change (c_reconfigResp =? c_stateCookie) with false. change (c_reconfigResp =? c_heartbeatInfo) with false.
    change (c_reconfigResp =? c_outSSNResetReq) with false. change (c_reconfigResp =? c_reconfigResp) with true.
    cbv iota. rewrite phdr_rt by (try (split; [apply Z.leb_le | apply Z.ltb_lt]; reflexivity); lens).
    cbn [cd_bind ph_raw ph_len].
    change (cd_len (cd_e32 respSeq ++ cd_e32 result) <? 8) with false. cbv iota.
    rewrite rd32_0 by lia. cbn [cd_bind].
    rewrite <- (app_nil_r (cd_e32 result)). rewrite (rd32_at (cd_e32 respSeq)) by (lens; lia). cbn [cd_bind].
    rewrite len_enc_phdr. rewrite app_nil_r. reflexivity.
  - (* ECN capable *)
    change (c_ecnCapable =? c_forwardTSNSupp) with false. change (c_ecnCapable =? c_supportedExt) with false.
    change (c_ecnCapable =? c_ecnCapable) with true.
    cbv iota. rewrite phdr_rt by (try (split; [apply Z.leb_le | apply Z.ltb_lt]; reflexivity); lens).
    cbn [cd_bind ph_raw ph_len]. reflexivity.
  - (* zero checksum acceptable *)
    apply u32_range in Hwf.
    change (c_zeroChecksumAcceptable =? c_forwardTSNSupp) with false. change (c_zeroChecksumAcceptable =? c_supportedExt) with false.
    change (c_zeroChecksumAcceptable =? c_ecnCapable) with false. change (c_zeroChecksumAcceptable =? c_random) with false.
    change (c_zeroChecksumAcceptable =? c_reqHMACAlgo) with false. change (c_zeroChecksumAcceptable =? c_chunkList) with false.
    change (c_zeroChecksumAcceptable =? c_stateCookie) with false. change (c_zeroChecksumAcceptable =? c_heartbeatInfo) with false.
    change (c_zeroChecksumAcceptable =? c_outSSNResetReq) with false. change (c_zeroChecksumAcceptable =? c_reconfigResp) with false.
    change (c_zeroChecksumAcceptable =? c_zeroChecksumAcceptable) with true.
    cbv iota. rewrite phdr_rt by (try (split; [apply Z.leb_le | apply Z.ltb_lt]; reflexivity); lens).
    cbn [cd_bind ph_raw ph_len].
    change (cd_len (cd_e32 edmid) <? 4) with false. cbv iota.
    rewrite <- (app_nil_r (cd_e32 edmid)) at 1. rewrite rd32_0 by lia. cbn [cd_bind].
    rewrite len_enc_phdr. reflexivity.
  - (* random *)
    change (c_random =? c_forwardTSNSupp) with false. change (c_random =? c_supportedExt) with false.
    change (c_random =? c_ecnCapable) with false. change (c_random =? c_random) with true.
    cbv iota. rewrite phdr_rt by (try (split; [apply Z.leb_le | apply Z.ltb_lt]; reflexivity); lia).
    cbn [cd_bind ph_raw ph_len]. rewrite len_enc_phdr. reflexivity.
  - (* chunk list *)
    change (c_chunkList =? c_forwardTSNSupp) with false. change (c_chunkList =? c_supportedExt) with false.
    change (c_chunkList =? c_ecnCapable) with false. change (c_chunkList =? c_random) with false.
    change (c_chunkList =? c_reqHMACAlgo) with false. change (c_chunkList =? c_chunkList) with true.
    cbv iota. rewrite phdr_rt by (try (split; [apply Z.leb_le | apply Z.ltb_lt]; reflexivity); lia).
    cbn [cd_bind ph_raw ph_len]. rewrite len_enc_phdr. reflexivity.
  - (* requested HMAC algorithms *)
    apply andb_prop in Hwf. destruct Hwf as [Hal Hlen]. pose proof (len_nonneg algos) as Ha0.
    change (c_reqHMACAlgo =? c_forwardTSNSupp) with false. change (c_reqHMACAlgo =? c_supportedExt) with false.
    change (c_reqHMACAlgo =? c_ecnCapable) with false. change (c_reqHMACAlgo =? c_random) with false.
    change (c_reqHMACAlgo =? c_reqHMACAlgo) with true.
    cbv iota. rewrite phdr_rt by (try (split; [apply Z.leb_le | apply Z.ltb_lt]; reflexivity); rewrite len_flat_e16; lia).
    cbn [cd_bind ph_raw ph_len]. rewrite len_flat_e16.
    replace (2 * cd_len algos mod 2 =? 1) with false by (symmetry; lia).
    replace (Z.to_nat (2 * cd_len algos / 2)) with (length algos) by (unfold cd_len; lia).
    rewrite <- (app_nil_r (flat_map cd_e16 algos)).
    pose proof (dec_hmacs_enc algos [] [] Hal) as Hd. cbn [app] in Hd. change (cd_len (@nil Z)) with 0 in Hd.
    rewrite Hd. cbn [cd_bind].
    rewrite len_enc_phdr, app_nil_r, len_flat_e16. reflexivity.
  - (* supported extensions *)
    change (c_supportedExt =? c_forwardTSNSupp) with false. change (c_supportedExt =? c_supportedExt) with true.
    cbv iota. rewrite phdr_rt by (try (split; [apply Z.leb_le | apply Z.ltb_lt]; reflexivity); lia).
    cbn [cd_bind ph_raw ph_len]. rewrite len_enc_phdr. reflexivity.
  - (* forward TSN supported *)
    change (c_forwardTSNSupp =? c_forwardTSNSupp) with true.
    cbv iota. rewrite phdr_rt by (try (split; [apply Z.leb_le | apply Z.ltb_lt]; reflexivity); lens).
    cbn [cd_bind ph_raw ph_len]. reflexivity.
Qed.

Lemma wf_param_len p : cd_wf_param p = true -> cd_len (cd_enc_param p) < 65536.
Proof.
  intros Hwf. destruct p; cbn [cd_wf_param] in Hwf; cbn [cd_enc_param]; rewrite len_enc_phdr;
  repeat (apply andb_prop in Hwf; destruct Hwf as [Hwf ?]); lens; rewrite ?len_flat_e16; try lia.
Qed.

Lemma dec_phdr_enc_param p rest : cd_wf_param p = true ->
  exists v, cd_dec_phdr (cd_enc_param p ++ rest) = COk (mkPhdr (cd_param_type p) (cd_len (cd_enc_param p)) v).
Proof.
  intros Hwf. pose proof (wf_param_len p Hwf) as Hl.
  destruct (enc_param_head p) as [v Hv]. rewrite Hv in *. rewrite len_enc_phdr in *.
  exists v. apply phdr_rt; [apply param_type_range|lia].
Qed.

Lemma enc_params_cons2 p q tl :
  cd_enc_params_padded (p :: q :: tl) =
  cd_enc_param p ++ cd_zeros (getPadding (cd_len (cd_enc_param p))) ++ cd_enc_params_padded (q :: tl).
Proof. reflexivity. Qed.

Lemma enc_params_len_ge ps : 4 * cd_len ps <= cd_len (cd_enc_params_padded ps).
Proof.
  induction ps as [|p [|q tl] IH].
  - reflexivity.
  - change (cd_enc_params_padded [p]) with (cd_enc_param p). pose proof (len_enc_param_ge p). rewrite len_cons, len_nil. lia.
  - rewrite enc_params_cons2, !len_app, (len_cons p). pose proof (len_enc_param_ge p).
    pose proof (len_nonneg (cd_zeros (getPadding (cd_len (cd_enc_param p))))). lia.
Qed.

Lemma init_params_done f raw off remaining : remaining <= 0 ->
  cd_init_params (S f) raw off remaining = COk ([], []).
Proof. intros H. cbn [cd_init_params]. destruct (remaining >? 0) eqn:E; [lia|reflexivity]. Qed.

Lemma init_params_unfold f raw offset remaining :
  cd_init_params (S f) raw offset remaining =
  if remaining >? 0 then
    if remaining >=? c_initOptionalVarHeaderLength then
      sub <- cd_from raw offset ;;
      h <- cd_wrap e_InitChunkParseParamTypeFailed (cd_dec_phdr sub) ;;
      let adv := ph_len h + getPadding (ph_len h) in
      match cd_build_param (ph_typ h) sub with
      | COk (p, _) =>
          '(ps, us) <- cd_init_params f raw (offset + adv) (remaining - adv) ;;
          COk (p :: ps, us)
      | CErr _ =>
          '(ps, us) <- cd_init_params f raw (offset + adv) (remaining - adv) ;;
          COk (ps, (ph_typ h, ph_raw h) :: us)
      | CPanic => CPanic
      | CFuel => CFuel
      end
    else COk ([], [])
  else COk ([], []).
Proof. reflexivity. Qed.

Lemma init_params_rt ps : forall fuel pre,
  forallb cd_wf_param ps = true -> (length ps < fuel)%nat ->
  cd_init_params fuel (pre ++ cd_enc_params_padded ps) (cd_len pre) (cd_len (cd_enc_params_padded ps))
  = COk (ps, []).
Proof.
  induction ps as [|p [|q tl] IH]; intros fuel pre Hwf Hf.
  - destruct fuel; [simpl in Hf; lia|]. apply init_params_done. reflexivity.
  - (* the last parameter: not padded *)
    destruct fuel as [|[|f]]; [simpl in Hf; lia|simpl in Hf; lia|].
    cbn [forallb] in Hwf. apply andb_prop in Hwf. destruct Hwf as [Hp _].
    change (cd_enc_params_padded [p]) with (cd_enc_param p).
    pose proof (len_enc_param_ge p) as Hlast.
    pose proof (len_nonneg pre) as Hpre.
    rewrite init_params_unfold.
    destruct (cd_len (cd_enc_param p) >? 0) eqn:E0; [|lia].
    destruct (cd_len (cd_enc_param p) >=? c_initOptionalVarHeaderLength) eqn:E1; [|zl].
    rewrite from_ok by (rewrite len_app; lia). rewrite drop_app_len by reflexivity. cbn [cd_bind].
    destruct (dec_phdr_enc_param p [] Hp) as [v Hv]. rewrite app_nil_r in Hv. rewrite Hv.
    cbn [cd_wrap cd_bind ph_typ ph_len ph_raw].
    pose proof (build_param_rt p [] Hp) as Hb. rewrite app_nil_r in Hb. rewrite Hb.
    cbv zeta. rewrite init_params_done by zl. reflexivity.
  - (* a parameter followed by others: padded *)
    destruct fuel as [|f]; [simpl in Hf; lia|]. simpl in Hf.
    cbn [forallb] in Hwf. apply andb_prop in Hwf. destruct Hwf as [Hp Htl].
    rewrite enc_params_cons2.
    set (pp := cd_enc_param p) in *. set (rest := cd_enc_params_padded (q :: tl)) in *.
    pose proof (len_nonneg pre) as Hpre. pose proof (len_enc_param_ge p) as Hpp. fold pp in Hpp.
    assert (Hpad : 0 <= getPadding (cd_len pp) < 4) by zl.
    pose proof (enc_params_len_ge (q :: tl)) as Hrest. fold rest in Hrest. rewrite len_cons in Hrest.
    pose proof (len_nonneg tl) as Htl0.
    rewrite init_params_unfold. rewrite !len_app, len_zeros by lia.
    destruct (cd_len pp + (getPadding (cd_len pp) + cd_len rest) >? 0) eqn:E0; [|lia].
    destruct (cd_len pp + (getPadding (cd_len pp) + cd_len rest) >=? c_initOptionalVarHeaderLength) eqn:E1; [|zl].
    rewrite from_ok by (rewrite !len_app, len_zeros by lia; lia). rewrite drop_app_len by reflexivity. cbn [cd_bind].
    destruct (dec_phdr_enc_param p (cd_zeros (getPadding (cd_len pp)) ++ rest) Hp) as [v Hv]. fold pp in Hv. rewrite Hv.
    cbn [cd_wrap cd_bind ph_typ ph_len ph_raw].
    pose proof (build_param_rt p (cd_zeros (getPadding (cd_len pp)) ++ rest) Hp) as Hb. fold pp in Hb. rewrite Hb.
    cbv zeta.
    replace (cd_len pre + (cd_len pp + getPadding (cd_len pp))) with (cd_len (pre ++ pp ++ cd_zeros (getPadding (cd_len pp))))
      by (rewrite !len_app, len_zeros by lia; lia).
    replace (cd_len pp + (getPadding (cd_len pp) + cd_len rest) - (cd_len pp + getPadding (cd_len pp))) with (cd_len rest) by lia.
    replace (pre ++ pp ++ cd_zeros (getPadding (cd_len pp)) ++ rest)
      with ((pre ++ pp ++ cd_zeros (getPadding (cd_len pp))) ++ rest) by (rewrite <- !app_assoc; reflexivity).
    unfold rest. rewrite IH; [reflexivity|assumption|cbn [length]; lia].
Qed.

Lemma dispatch_init raw : cd_rd8 raw 0 = COk c_ctInit -> cd_dec_chunk raw = cd_dec_init false raw.
Proof. dispatch_tac. Qed.
Lemma dispatch_init_ack raw : cd_rd8 raw 0 = COk c_ctInitAck -> cd_dec_chunk raw = cd_dec_init true raw.
Proof. dispatch_tac. Qed.

(* INIT / INIT-ACK alone: exact round trip provided the last parameter has a non-empty value *)
Lemma rt_init ack flags tag arwnd nout nin itsn params unrec bs :
  cd_wf_chunk (CkInit ack flags tag arwnd nout nin itsn params unrec) = true ->
  cd_enc_chunk (CkInit ack flags tag arwnd nout nin itsn params unrec) = COk bs ->
  cd_dec_chunk bs = COk (cd_canon_chunk (CkInit ack flags tag arwnd nout nin itsn params unrec), cd_len bs - 4).
Proof.
  intros Hwf Henc. cbn [cd_wf_chunk] in Hwf.
  apply andb_prop in Hwf. destruct Hwf as [Hwf Hlen].
  apply andb_prop in Hwf. destruct Hwf as [Hwf Hps].
  apply andb_prop in Hwf. destruct Hwf as [Hwf Hitsn]. apply u32_range in Hitsn.
  apply andb_prop in Hwf. destruct Hwf as [Hwf Hnin]. apply u16_range in Hnin.
  apply andb_prop in Hwf. destruct Hwf as [Hwf Hnout]. apply u16_range in Hnout.
  apply andb_prop in Hwf. destruct Hwf as [Hwf Har]. apply u32_range in Har.
  apply andb_prop in Hwf. destruct Hwf as [Hfl Htag]. apply u32_range in Htag.
  assert (flags = 0) by lia. subst flags.
  pose proof (len_nonneg (cd_enc_params_padded params)) as Hp0.
  pose proof (enc_params_len_ge params) as Hpl.
  cbn [cd_enc_chunk] in Henc. apply COk_inj in Henc; subst bs.
  assert (Hd : cd_dec_chunk (cd_enc_hdr (if ack then c_ctInitAck else c_ctInit) 0
                 (cd_e32 tag ++ cd_e32 arwnd ++ cd_e16 nout ++ cd_e16 nin ++ cd_e32 itsn ++ cd_enc_params_padded params))
               = cd_dec_init ack (cd_enc_hdr (if ack then c_ctInitAck else c_ctInit) 0
                 (cd_e32 tag ++ cd_e32 arwnd ++ cd_e16 nout ++ cd_e16 nin ++ cd_e32 itsn ++ cd_enc_params_padded params))).
  { destruct ack; [apply dispatch_init_ack|apply dispatch_init]; apply rd8_enc_hdr. }
  rewrite Hd. clear Hd. rewrite len_enc_hdr.
  unfold cd_dec_init. rewrite dec_hdr_enc by (lens; zl). cbn [cd_bind h_flags h_raw h_typ].
  rewrite Z.eqb_refl. cbn [negb].
  match goal with |- context [cd_len ?v <? c_initChunkMinLength] =>
    replace (cd_len v <? c_initChunkMinLength) with false by (symmetry; lens; zl) end.
  change (negb (0 =? 0)) with false. cbv iota.
  rewrite rd32_0 by lia. cbn [cd_bind].
  rewrite (rd32_at (cd_e32 tag)) by (lens; lia). cbn [cd_bind].
  rewrite app_assoc. rewrite (rd16_at _ nout) by (lens; lia). cbn [cd_bind].
  rewrite app_assoc. rewrite (rd16_at _ nin) by (lens; lia). cbn [cd_bind].
  rewrite app_assoc. rewrite (rd32_at _ itsn) by (lens; lia). cbn [cd_bind].
  rewrite app_assoc.
  match goal with |- context [cd_init_params ?fu (?pre ++ ?x) ?off ?rem] =>
    replace rem with (cd_len x) by (lens; zl);
    replace off with (cd_len pre) by (lens; zl)
  end.
  rewrite init_params_rt; [|assumption|].
  - cbn [cd_bind cd_wrap cd_canon_chunk]. f_equal; f_equal; try lens.
  - rewrite !len_app, !len_e32, !len_e16. unfold cd_len in *. lia.
Qed.

Lemma dispatch_reconfig raw : cd_rd8 raw 0 = COk c_ctReconfig -> cd_dec_chunk raw = cd_dec_reconfig raw.
Proof. dispatch_tac. Qed.
Lemma dispatch_heartbeat raw : cd_rd8 raw 0 = COk c_ctHeartbeat -> cd_dec_chunk raw = cd_dec_heartbeat raw.
Proof. dispatch_tac. Qed.

(* RECONFIG alone, with any of the eleven parameter kinds in either slot *)
Lemma rt_reconfig fl pa pb :
  cd_wf_param pa = true -> match pb with Some b => cd_wf_param b | None => true end = true ->
  cd_len (cd_reconfig_value pa pb) <? 65532 = true ->
  cd_dec_chunk (cd_enc_hdr c_ctReconfig fl (cd_reconfig_value pa pb))
  = COk (CkReconfig fl pa pb, cd_len (cd_enc_hdr c_ctReconfig fl (cd_reconfig_value pa pb)) - 4).
Proof.
  intros Ha Hb Hl.
  rewrite dispatch_reconfig by apply rd8_enc_hdr. rewrite len_enc_hdr.
  unfold cd_dec_reconfig. rewrite dec_hdr_enc by lia. cbn [cd_bind h_flags h_raw h_typ].
  pose proof (len_enc_param_ge pa) as Hla.
  assert (Hpad : 0 <= getPadding (cd_len (cd_enc_param pa)) < 4) by zl.
  destruct pb as [b|]; cbn [cd_reconfig_value] in *.
  - pose proof (len_enc_param_ge b) as Hlb.
    rewrite !len_app, len_zeros by lia.
    destruct (cd_len (cd_enc_param pa) + (getPadding (cd_len (cd_enc_param pa)) + cd_len (cd_enc_param b)) <? 2) eqn:E0; [lia|].
    rewrite rd16_enc_param. cbn [cd_bind].
    rewrite build_param_rt by assumption. cbn [cd_bind].
    destruct (cd_len (cd_enc_param pa) + (getPadding (cd_len (cd_enc_param pa)) + cd_len (cd_enc_param b)) >?
              cd_len (cd_enc_param pa) + getPadding (cd_len (cd_enc_param pa))) eqn:E1; [|lia].
    rewrite app_assoc. rewrite from_ok by (rewrite !len_app, len_zeros by lia; lia).
    rewrite drop_app_len by (rewrite len_app, len_zeros by lia; reflexivity). cbn [cd_bind].
    destruct (cd_len (cd_enc_param b) <? 2) eqn:E2; [lia|].
    pose proof (rd16_enc_param b []) as Hr. rewrite app_nil_r in Hr. rewrite Hr. cbn [cd_bind].
    pose proof (build_param_rt b [] Hb) as Hbb. rewrite app_nil_r in Hbb. rewrite Hbb. cbn [cd_bind].
    f_equal; f_equal; try lia.
  - destruct (cd_len (cd_enc_param pa) <? 2) eqn:E0; [lia|].
    pose proof (rd16_enc_param pa []) as Hr. rewrite app_nil_r in Hr. rewrite Hr. cbn [cd_bind].
    pose proof (build_param_rt pa [] Ha) as Hbb. rewrite app_nil_r in Hbb. rewrite Hbb. cbn [cd_bind].
    destruct (cd_len (cd_enc_param pa) >? cd_len (cd_enc_param pa) + getPadding (cd_len (cd_enc_param pa))) eqn:E1; [lia|].
    f_equal; f_equal; try lia.
Qed.

Lemma dispatch_heartbeat_ack raw : cd_rd8 raw 0 = COk c_ctHeartbeatAck -> cd_dec_chunk raw = cd_dec_heartbeat_ack raw.
Proof. dispatch_tac. Qed.

(* the parameter part shared by chunkHeartbeat.unmarshal and chunkHeartbeatAck.unmarshal, applied to
   a marshalled Heartbeat Info *)
Lemma hb_params_rt info e1 e2 e3 e4 e5 :
  cd_len info <? 65528 = true ->
  cd_dec_hb_params (cd_enc_param (PmHeartbeatInfo info)) e1 e2 e3 e4 e5 = COk [PmHeartbeatInfo info].
Proof.
  intros Hl. pose proof (len_nonneg info) as Hi.
  set (p := PmHeartbeatInfo info). assert (Hp : cd_wf_param p = true) by (cbn [cd_wf_param p]; lia).
  pose proof (len_enc_param_ge p) as Hlp.
  assert (Hlen : cd_len (cd_enc_param p) = 4 + cd_len info) by (unfold p; cbn [cd_enc_param]; apply len_enc_phdr).
  unfold cd_dec_hb_params.
  destruct (cd_len (cd_enc_param p) =? 0) eqn:E0; [lia|].
  destruct (cd_len (cd_enc_param p) <? c_initOptionalVarHeaderLength) eqn:E1; [zl|].
  destruct (cd_len (cd_enc_param p) <? 2) eqn:E2; [lia|].
  pose proof (rd16_enc_param p []) as Hr. rewrite app_nil_r in Hr. rewrite Hr. cbn [cd_bind].
  change (cd_param_type p) with c_heartbeatInfo. rewrite Z.eqb_refl. cbn [negb].
  destruct (dec_phdr_enc_param p [] Hp) as [v Hv]. rewrite app_nil_r in Hv. rewrite Hv.
  cbn [cd_wrap cd_bind ph_len].
  destruct ((cd_len (cd_enc_param p) <? c_initOptionalVarHeaderLength) || (cd_len (cd_enc_param p) <? cd_len (cd_enc_param p))) eqn:E3; [zl|].
  rewrite slice_ok by lia. rewrite drop_0, Z.sub_0_r, take_all by reflexivity. cbn [cd_bind].
  pose proof (build_param_rt p [] Hp) as Hbb. rewrite app_nil_r in Hbb.
  change (cd_param_type p) with c_heartbeatInfo in Hbb. rewrite Hbb. cbn [cd_wrap cd_bind].
  rewrite from_ok by lia.
  assert (Hda : cd_drop (cd_len (cd_enc_param p)) (cd_enc_param p) = []).
  { unfold cd_drop, cd_len. rewrite Nat2Z.id. apply skipn_all. }
  rewrite Hda. cbn [cd_bind]. change (0 <? cd_len (@nil Z)) with false. reflexivity.
Qed.

(* HEARTBEAT with its Heartbeat Info, whatever the header fields of the struct are *)
Lemma rt_heartbeat info :
  cd_len info <? 65528 = true ->
  cd_dec_chunk (cd_enc_hdr c_ctHeartbeat 0 (cd_enc_param (PmHeartbeatInfo info)))
  = COk (CkHeartbeat c_ctHeartbeat 0 (cd_enc_param (PmHeartbeatInfo info)) [PmHeartbeatInfo info],
         cd_len (cd_enc_hdr c_ctHeartbeat 0 (cd_enc_param (PmHeartbeatInfo info))) - 4).
Proof.
  intros Hl. pose proof (len_nonneg info) as Hi.
  assert (Hlen : cd_len (cd_enc_param (PmHeartbeatInfo info)) = 4 + cd_len info) by (cbn [cd_enc_param]; apply len_enc_phdr).
  rewrite dispatch_heartbeat by apply rd8_enc_hdr. rewrite len_enc_hdr.
  unfold cd_dec_heartbeat. rewrite dec_hdr_enc by lia. cbn [cd_bind h_flags h_raw h_typ].
  rewrite Z.eqb_refl. cbn [negb]. rewrite hb_params_rt by assumption. cbn [cd_bind].
  f_equal; f_equal; try lia.
Qed.

(* the empty HEARTBEAT (no parameter, no value) that the decoder accepts *)
Lemma rt_heartbeat_empty fl :
  cd_dec_chunk (cd_enc_hdr c_ctHeartbeat fl []) = COk (CkHeartbeat c_ctHeartbeat fl [] [], cd_len (cd_enc_hdr c_ctHeartbeat fl []) - 4).
Proof. reflexivity. Qed.

Lemma rt_heartbeat_ack fl info :
  cd_len info <? 65528 = true ->
  cd_dec_chunk (cd_enc_hdr c_ctHeartbeatAck fl (cd_enc_param (PmHeartbeatInfo info)))
  = COk (CkHeartbeatAck fl [PmHeartbeatInfo info],
         cd_len (cd_enc_hdr c_ctHeartbeatAck fl (cd_enc_param (PmHeartbeatInfo info))) - 4).
Proof.
  intros Hl. pose proof (len_nonneg info) as Hi.
  assert (Hlen : cd_len (cd_enc_param (PmHeartbeatInfo info)) = 4 + cd_len info) by (cbn [cd_enc_param]; apply len_enc_phdr).
  rewrite dispatch_heartbeat_ack by apply rd8_enc_hdr. rewrite len_enc_hdr.
  unfold cd_dec_heartbeat_ack. rewrite dec_hdr_enc by lia. cbn [cd_bind h_flags h_raw h_typ].
  rewrite Z.eqb_refl. cbn [negb]. rewrite hb_params_rt by assumption. cbn [cd_bind].
  f_equal; f_equal; try lia.
Qed.

(* ------------------------------------------------------------------ I-FORWARD-TSN *)

Definition cd_ifwd_key (s : Z * bool * Z) : Z * bool := fst s.

Definition cd_key_eqb (k1 k2 : Z * bool) : bool := (fst k1 =? fst k2) && Bool.eqb (snd k1) (snd k2).

Lemma key_eqb_true k1 k2 : cd_key_eqb k1 k2 = true <-> k1 = k2.
Proof.
  destruct k1 as [a u], k2 as [b v]. unfold cd_key_eqb. cbn [fst snd]. split.
  - intros H. apply andb_prop in H. destruct H as [H1 H2]. apply Z.eqb_eq in H1. apply Bool.eqb_prop in H2. congruence.
  - intros H. inversion H; subst. rewrite Z.eqb_refl, Bool.eqb_reflx. reflexivity.
Qed.

Lemma ifwd_insert_unfold id u m tl sid su sm :
  cd_ifwd_insert ((id, u, m) :: tl) (sid, su, sm) =
  if (id =? sid) && Bool.eqb u su then (id, u, if sna32LT m sm then sm else m) :: tl
  else (id, u, m) :: cd_ifwd_insert tl (sid, su, sm).
Proof. reflexivity. Qed.

(* inserting an entry whose key is not present appends it *)
Lemma ifwd_insert_fresh acc s :
  ~ In (cd_ifwd_key s) (map cd_ifwd_key acc) -> cd_ifwd_insert acc s = acc ++ [s].
Proof.
  induction acc as [|[[id u] m] tl IH]; intros Hn; [reflexivity|].
  destruct s as [[sid su] sm]. rewrite ifwd_insert_unfold.
  destruct ((id =? sid) && Bool.eqb u su) eqn:E.
  - exfalso. apply Hn. left. unfold cd_ifwd_key. cbn [fst].
    apply andb_prop in E. destruct E as [E1 E2]. apply Z.eqb_eq in E1. apply Bool.eqb_prop in E2. congruence.
  - cbn [app]. f_equal. apply IH. intros Hin. apply Hn. right. exact Hin.
Qed.

(* inserting never changes the list of keys except by appending a fresh one *)
Lemma ifwd_insert_keys acc s :
  map cd_ifwd_key (cd_ifwd_insert acc s) =
  if existsb (cd_key_eqb (cd_ifwd_key s)) (map cd_ifwd_key acc) then map cd_ifwd_key acc
  else map cd_ifwd_key acc ++ [cd_ifwd_key s].
Proof.
  induction acc as [|[[id u] m] tl IH]; [reflexivity|].
  destruct s as [[sid su] sm]. rewrite ifwd_insert_unfold.
  cbn [map existsb].
  change (cd_ifwd_key (id, u, m)) with (id, u) in *. change (cd_ifwd_key (sid, su, sm)) with (sid, su) in *.
  unfold cd_key_eqb at 1. cbn [fst snd].
  rewrite (Z.eqb_sym sid id).
  replace (Bool.eqb su u) with (Bool.eqb u su) by (destruct u, su; reflexivity).
  destruct ((id =? sid) && Bool.eqb u su) eqn:E; cbn [orb map].
  - reflexivity.
  - change (cd_ifwd_key (id, u, m)) with (id, u). rewrite IH.
    destruct (existsb (cd_key_eqb (sid, su)) (map cd_ifwd_key tl)); reflexivity.
Qed.

Lemma existsb_key_in k l : existsb (cd_key_eqb k) l = true <-> In k l.
Proof.
  rewrite existsb_exists. split.
  - intros [x [Hx He]]. apply key_eqb_true in He. subst. exact Hx.
  - intros H. exists k. split; [exact H|apply key_eqb_true; reflexivity].
Qed.

Lemma ifwd_insert_nodup acc s : NoDup (map cd_ifwd_key acc) -> NoDup (map cd_ifwd_key (cd_ifwd_insert acc s)).
Proof.
  intros Hn. rewrite ifwd_insert_keys.
  destruct (existsb (cd_key_eqb (cd_ifwd_key s)) (map cd_ifwd_key acc)) eqn:E; [exact Hn|].
  assert (Hnot : ~ In (cd_ifwd_key s) (map cd_ifwd_key acc)).
  { intros Hin. apply existsb_key_in in Hin. congruence. }
  clear E. induction (map cd_ifwd_key acc) as [|k ks IH]; cbn [app].
  - constructor; [intros []|constructor].
  - inversion Hn as [|? ? Hk Hks]; subst. constructor.
    + intros Hin. apply in_app_or in Hin. destruct Hin as [Hin|[Hin|[]]]; [apply Hk; exact Hin|].
      apply Hnot. left. symmetry. exact Hin.
    + apply IH; [exact Hks|]. intros Hin. apply Hnot. right. exact Hin.
Qed.

Lemma ifwd_fold_nodup l : forall acc, NoDup (map cd_ifwd_key acc) ->
  NoDup (map cd_ifwd_key (fold_left cd_ifwd_insert l acc)).
Proof.
  induction l as [|s tl IH]; intros acc Hn; [exact Hn|]. cbn [fold_left]. apply IH, ifwd_insert_nodup, Hn.
Qed.

Lemma ifwd_fold_distinct l : forall acc, NoDup (map cd_ifwd_key (acc ++ l)) ->
  fold_left cd_ifwd_insert l acc = acc ++ l.
Proof.
  induction l as [|s tl IH]; intros acc Hn; [symmetry; apply app_nil_r|].
  cbn [fold_left]. rewrite ifwd_insert_fresh.
  - rewrite IH; [rewrite <- app_assoc; reflexivity|]. rewrite <- app_assoc. exact Hn.
  - rewrite map_app in Hn. cbn [map] in Hn. apply NoDup_remove_2 in Hn.
    intros Hin. apply Hn. apply in_or_app. left. exact Hin.
Qed.

Lemma ifwd_normalize_nodup l : (2 <= length l)%nat -> NoDup (map cd_ifwd_key (cd_ifwd_normalize l)).
Proof.
  intros Hl. unfold cd_ifwd_normalize. destruct (cd_len l <? 2) eqn:E; [unfold cd_len in E; lia|].
  apply ifwd_fold_nodup. constructor.
Qed.

Lemma ifwd_normalize_idem l : cd_ifwd_normalize (cd_ifwd_normalize l) = cd_ifwd_normalize l.
Proof.
  destruct (cd_len l <? 2) eqn:E.
  - unfold cd_ifwd_normalize at 2. rewrite E. unfold cd_ifwd_normalize. rewrite E. reflexivity.
  - assert (Hl : (2 <= length l)%nat) by (unfold cd_len in E; lia).
    pose proof (ifwd_normalize_nodup l Hl) as Hn.
    set (n := cd_ifwd_normalize l) in *. unfold cd_ifwd_normalize.
    destruct (cd_len n <? 2); [reflexivity|]. apply (ifwd_fold_distinct n []). exact Hn.
Qed.

Lemma ifwd_insert_len acc s : (length (cd_ifwd_insert acc s) <= S (length acc))%nat.
Proof.
  induction acc as [|[[id u] m] tl IH]; [simpl; lia|].
  destruct s as [[sid su] sm]. rewrite ifwd_insert_unfold.
  destruct ((id =? sid) && Bool.eqb u su); cbn [length]; [lia|].
  specialize (IH). cbn [length] in *. lia.
Qed.

Lemma ifwd_fold_len l : forall acc, (length (fold_left cd_ifwd_insert l acc) <= length acc + length l)%nat.
Proof.
  induction l as [|s tl IH]; intros acc; cbn [fold_left length]; [lia|].
  specialize (IH (cd_ifwd_insert acc s)). pose proof (ifwd_insert_len acc s). lia.
Qed.

Lemma ifwd_normalize_len l : cd_len (cd_ifwd_normalize l) <= cd_len l.
Proof.
  unfold cd_ifwd_normalize. destruct (cd_len l <? 2); [lia|].
  pose proof (ifwd_fold_len l []). unfold cd_len. cbn [length] in *. lia.
Qed.

Definition cd_enc_ifwd_entry (s : Z * bool * Z) : list Z :=
  match s with (sid, u, mid) => cd_e16 sid ++ cd_e16 (cd_b2z u) ++ cd_e32 mid end.

Lemma len_flat_ifwd (l : list (Z * bool * Z)) : cd_len (flat_map cd_enc_ifwd_entry l) = 8 * cd_len l.
Proof.
  induction l as [|[[sid u] mid] tl IH]; [reflexivity|]. cbn [flat_map]. rewrite len_app, IH, len_cons.
  unfold cd_enc_ifwd_entry. lens.
Qed.

Lemma ifwd_insert_wf acc s : forallb cd_wf_ifwd_entry acc = true -> cd_wf_ifwd_entry s = true ->
  forallb cd_wf_ifwd_entry (cd_ifwd_insert acc s) = true.
Proof.
  induction acc as [|[[id u] m] tl IH]; intros Ha Hs.
  - cbn [cd_ifwd_insert forallb]. rewrite Hs. reflexivity.
  - destruct s as [[sid su] sm]. rewrite ifwd_insert_unfold.
    cbn [forallb] in Ha. apply andb_prop in Ha. destruct Ha as [Hh Ht].
    destruct ((id =? sid) && Bool.eqb u su); cbn [forallb].
    + rewrite Ht, andb_true_r. unfold cd_wf_ifwd_entry in *. apply andb_prop in Hh. destruct Hh as [H1 H2].
      apply andb_prop in Hs. destruct Hs as [H3 H4]. rewrite H1. destruct (sna32LT m sm); assumption.
    + rewrite Hh. cbn [andb]. apply IH; assumption.
Qed.

Lemma ifwd_normalize_wf l : forallb cd_wf_ifwd_entry l = true -> forallb cd_wf_ifwd_entry (cd_ifwd_normalize l) = true.
Proof.
  intros H. unfold cd_ifwd_normalize. destruct (cd_len l <? 2); [exact H|].
  assert (Hg : forall acc, forallb cd_wf_ifwd_entry acc = true ->
               forallb cd_wf_ifwd_entry (fold_left cd_ifwd_insert l acc) = true).
  { induction l as [|s tl IH]; intros acc Ha; [exact Ha|]. cbn [fold_left].
    cbn [forallb] in H. apply andb_prop in H. destruct H as [Hs Ht].
    apply IH; [exact Ht|]. apply ifwd_insert_wf; assumption. }
  apply Hg. reflexivity.
Qed.

Lemma dec_ifwd_streams_enc l : forall pre,
  forallb cd_wf_ifwd_entry l = true ->
  cd_dec_ifwd_streams (length l) (pre ++ flat_map cd_enc_ifwd_entry l) (cd_len pre) = COk l.
Proof.
  induction l as [|[[sid u] mid] tl IH]; intros pre Hwf; [reflexivity|].
  cbn [forallb] in Hwf. apply andb_prop in Hwf. destruct Hwf as [Hs Htl].
  unfold cd_wf_ifwd_entry in Hs. apply andb_prop in Hs. destruct Hs as [Hsid Hmid].
  apply u16_range in Hsid. apply u32_range in Hmid.
  pose proof (len_nonneg pre) as Hp0. pose proof (len_nonneg (flat_map cd_enc_ifwd_entry tl)) as Ht0.
  cbn [length cd_dec_ifwd_streams flat_map].
  set (e := cd_enc_ifwd_entry (sid, u, mid)).
  assert (He : cd_len e = 8) by reflexivity.
  rewrite slice_ok; [|lia|zl|rewrite !len_app, He; zl].
  replace (cd_len pre + c_iForwardTSNEntryLength - cd_len pre) with (cd_len e) by (rewrite He; zl).
  rewrite drop_app_len by reflexivity. rewrite take_app_len by reflexivity. cbn [cd_bind].
  change (cd_len e <? c_iForwardTSNEntryLength) with false. cbv iota.
  unfold e, cd_enc_ifwd_entry.
  rewrite <- (app_nil_r (cd_e32 mid)).
  rewrite rd16_0 by lia. cbn [cd_bind].
  rewrite (rd16_at (cd_e16 sid) (cd_b2z u)) by (lens; destruct u; cbn [cd_b2z]; lia). cbn [cd_bind].
  rewrite (app_assoc (cd_e16 sid)). rewrite (rd32_at _ mid) by (lens; lia). cbn [cd_bind].
  replace (cd_b2z u mod 2 =? 1) with u by (destruct u; reflexivity).
  fold (cd_enc_ifwd_entry (sid, u, mid)). fold e. rewrite app_assoc.
  replace (cd_len pre + c_iForwardTSNEntryLength) with (cd_len (pre ++ e)) by (rewrite len_app, He; zl).
  rewrite app_nil_r. rewrite IH by assumption. reflexivity.
Qed.

Lemma dispatch_ifwd raw : cd_rd8 raw 0 = COk c_ctIForwardTSN -> cd_dec_chunk raw = cd_dec_ifwd raw.
Proof. dispatch_tac. Qed.

Lemma flat_map_ifwd_eq (ns : list (Z * bool * Z)) :
  flat_map (fun s => match s with (sid, u, mid) => cd_e16 sid ++ cd_e16 (cd_b2z u) ++ cd_e32 mid end) ns
  = flat_map cd_enc_ifwd_entry ns.
Proof. reflexivity. Qed.

(* I-FORWARD-TSN alone: decodes to the normalised stream list (one entry per (stream, unordered)) *)
Lemma rt_ifwd fl ntsn ss bs :
  cd_u32 ntsn = true -> forallb cd_wf_ifwd_entry ss = true -> cd_len ss <= c_maxIForwardTSNStreams ->
  cd_enc_chunk (CkIForwardTSN fl ntsn ss) = COk bs ->
  cd_dec_chunk bs = COk (CkIForwardTSN fl ntsn (cd_ifwd_normalize ss), cd_len bs - 4).
Proof.
  intros Hn Hss Hlen Henc. apply u32_range in Hn.
  pose proof (ifwd_normalize_len ss) as Hnl. pose proof (ifwd_normalize_wf ss Hss) as Hnw.
  pose proof (len_nonneg (cd_ifwd_normalize ss)) as Hn0.
  cbn [cd_enc_chunk] in Henc. set (ns := cd_ifwd_normalize ss) in *.
  destruct (cd_len ns >? c_maxIForwardTSNStreams) eqn:E0; [lia|].
  apply COk_inj in Henc. subst bs. rewrite flat_map_ifwd_eq.
  assert (Hmax : c_maxIForwardTSNStreams = 8190) by reflexivity.
  rewrite dispatch_ifwd by apply rd8_enc_hdr. rewrite len_enc_hdr.
  unfold cd_dec_ifwd. rewrite dec_hdr_enc by (lens; rewrite len_flat_ifwd; lia).
  cbn [cd_bind h_flags h_raw h_typ].
  rewrite len_app, len_e32, len_flat_ifwd.
  destruct (4 + 8 * cd_len ns <? c_newCumulativeTSNLength) eqn:E1; [zl|].
  rewrite rd32_0 by lia. cbn [cd_bind].
  replace (4 + 8 * cd_len ns - c_newCumulativeTSNLength) with (8 * cd_len ns) by zl.
  replace (negb ((8 * cd_len ns) mod c_iForwardTSNEntryLength =? 0)) with false by (symmetry; zl).
  replace (8 * cd_len ns / c_iForwardTSNEntryLength) with (cd_len ns) by zl.
  rewrite E0.
  replace (Z.to_nat (cd_len ns)) with (length ns) by (unfold cd_len; lia).
  change c_newCumulativeTSNLength with (cd_len (cd_e32 ntsn)).
  rewrite dec_ifwd_streams_enc by assumption. cbn [cd_bind].
  unfold ns. rewrite ifwd_normalize_idem. f_equal; f_equal; lia.
Qed.

(* ------------------------------------------------------------------ shape of what the encoder emits *)

(* every chunk encoder output is chunkHeader.marshal of some (type, flags, value) *)
Lemma enc_chunk_shape c bs : cd_enc_chunk c = COk bs -> exists t f v, bs = cd_enc_hdr t f v.
Proof.
  destruct c; cbn [cd_enc_chunk]; intros H;
  repeat match type of H with
  | (if ?b then _ else _) = _ => destruct b
  | cd_bind ?x _ = _ => destruct x; cbn [cd_bind] in H
  | match ?l with [] => _ | _ :: _ => _ end = _ => destruct l
  end; try discriminate; apply COk_inj in H; subst bs; eauto.
Qed.

Lemma rd16_enc_hdr t f v : cd_rd16 (cd_enc_hdr t f v) 2 = COk (wrap16 (cd_len (cd_enc_hdr t f v))).
Proof.
  rewrite len_enc_hdr. unfold cd_enc_hdr. rewrite (rd16_at [t; f]) by (try reflexivity; zl).
  f_equal. zl.
Qed.

(* C12 (iii): the chunk length field is header + value (modulo 2^16: the Go code casts to uint16) *)
Lemma enc_chunk_length_field c bs : cd_enc_chunk c = COk bs ->
  4 <= cd_len bs /\ cd_rd16 bs 2 = COk (wrap16 (cd_len bs)).
Proof.
  intros H. destruct (enc_chunk_shape _ _ H) as (t & f & v & ->). split.
  - rewrite len_enc_hdr. pose proof (len_nonneg v). lia.
  - apply rd16_enc_hdr.
Qed.

Lemma padding_aligns n : (n + getPadding n) mod 4 = 0.
Proof. zl. Qed.

Lemma enc_chunks_aligned cs : forall acc out,
  cd_len acc mod 4 = 0 -> cd_enc_chunks acc cs = COk out -> cd_len out mod 4 = 0.
Proof.
  induction cs as [|c tl IH]; intros acc out Ha H.
  - cbn [cd_enc_chunks] in H. apply COk_inj in H. subst. assumption.
  - cbn [cd_enc_chunks] in H. destruct (cd_enc_chunk c) as [b| | |]; cbn [cd_bind] in H; try discriminate.
    eapply IH; [|exact H]. rewrite len_app.
    rewrite len_zeros by zl. apply padding_aligns.
Qed.

(* C12 (iii): every packet the encoder emits has a length that is a multiple of 4 *)
Lemma enc_packet_aligned ck p bs : length ck = 4%nat -> cd_enc_packet ck p = COk bs -> cd_len bs mod 4 = 0.
Proof.
  intros Hck H. unfold cd_enc_packet in H. eapply enc_chunks_aligned; [|exact H].
  rewrite !len_app, !len_e16, len_e32. unfold cd_len. rewrite Hck. reflexivity.
Qed.

(* ------------------------------------------------------------------ chunk locality *)

Lemma rd8_app_0 own rest t : cd_rd8 own 0 = COk t -> cd_rd8 (own ++ rest) 0 = COk t.
Proof. destruct own as [|a tl]; [discriminate|]. intros H. exact H. Qed.

Lemma dec_hdr_typ own h : cd_dec_hdr own = COk h -> cd_rd8 own 0 = COk (h_typ h).
Proof.
  unfold cd_dec_hdr. destruct (_ <? _); [discriminate|].
  destruct (cd_rd8 own 0) as [t| | |]; cbn [cd_bind]; try discriminate.
  destruct (cd_rd8 own 1) as [f| | |]; cbn [cd_bind]; try discriminate.
  destruct (cd_rd16 own 2) as [l| | |]; cbn [cd_bind]; try discriminate.
  destruct (_ <? 0); [discriminate|].
  match goal with |- context [cd_bind ?x _] => destruct x as [u| | |]; cbn [cd_bind]; try discriminate end.
  destruct (cd_slice _ _ _); cbn [cd_bind]; try discriminate.
  intros H. apply COk_inj in H. subst h. reflexivity.
Qed.

(* C12 (iv): for every chunk type, decoding a chunk that is followed by other bytes gives exactly
   what decoding the chunk alone gives; what follows only matters for the padding rule of
   chunkHeader.unmarshal (fewer than 4 trailing bytes must be zero), which can only turn the result
   into an error. *)
Lemma chunk_local_gen own rest h :
  cd_dec_hdr own = COk h -> cd_len own = 4 + cd_len (h_raw h) ->
  if (cd_len rest <? 4) && negb (cd_all_zero rest)
  then exists e, cd_dec_chunk (own ++ rest) = CErr e
  else cd_dec_chunk (own ++ rest) = cd_dec_chunk own.
Proof.
  intros Hd Hl. pose proof (dec_hdr_typ _ _ Hd) as H0.
  unfold cd_dec_chunk. rewrite (rd8_app_0 _ rest _ H0), H0. cbn [cd_bind].
  unfold cd_dec_init, cd_dec_abort, cd_dec_plain, cd_dec_heartbeat, cd_dec_heartbeat_ack, cd_dec_data, cd_dec_sack,
         cd_dec_reconfig, cd_dec_fwd, cd_dec_ifwd, cd_dec_shutdown.
  rewrite (dec_hdr_app own rest h Hd Hl), Hd.
  destruct ((cd_len rest <? 4) && negb (cd_all_zero rest)); cbn [cd_bind]; [|reflexivity].
  repeat match goal with |- exists e, (if ?b then _ else _) = _ => destruct b; [eexists; reflexivity|] end.
  eexists; reflexivity.
Qed.

Lemma chunk_local own rest h :
  cd_dec_hdr own = COk h -> cd_len own = 4 + cd_len (h_raw h) ->
  (cd_len rest <? 4) && negb (cd_all_zero rest) = false ->
  cd_dec_chunk (own ++ rest) = cd_dec_chunk own.
Proof.
  intros Hd Hl Hc. pose proof (chunk_local_gen own rest h Hd Hl) as H. rewrite Hc in H. exact H.
Qed.

(* accepted inside a bundle => the same value as alone, whatever follows *)
Lemma chunk_local_accept own rest h c vl :
  cd_dec_hdr own = COk h -> cd_len own = 4 + cd_len (h_raw h) ->
  cd_dec_chunk (own ++ rest) = COk (c, vl) -> cd_dec_chunk own = COk (c, vl).
Proof.
  intros Hd Hl Hacc. pose proof (chunk_local_gen own rest h Hd Hl) as H.
  destruct ((cd_len rest <? 4) && negb (cd_all_zero rest)).
  - destruct H as [e He]. congruence.
  - congruence.
Qed.

(* ------------------------------------------------------------------ error causes, ABORT / ERROR *)

Definition cd_cause_code (c : cd_cause) : Z :=
  match c with
  | EcInvalidMandatory code _ => code
  | EcUnrecognizedChunk _ => c_unrecognizedChunkType
  | EcProtocolViolation code _ => code
  | EcUserAbort _ => c_userInitiatedAbort
  | EcOther code _ => code
  end.

Definition cd_cause_raw (c : cd_cause) : list Z :=
  match c with
  | EcInvalidMandatory _ r | EcUnrecognizedChunk r | EcProtocolViolation _ r | EcUserAbort r | EcOther _ r => r
  end.

Definition cd_cause_bytes (c : cd_cause) : list Z :=
  cd_e16 (cd_cause_code c) ++ cd_e16 (4 + cd_len (cd_cause_raw c)) ++ cd_cause_raw c.

Lemma len_cause_bytes c : cd_len (cd_cause_bytes c) = 4 + cd_len (cd_cause_raw c).
Proof. unfold cd_cause_bytes. lens. Qed.

Lemma wf_cause_facts c : cd_wf_cause c = true ->
  0 <= cd_cause_code c < 65536 /\ cd_len (cd_cause_raw c) < 65532.
Proof.
  destruct c; cbn [cd_wf_cause cd_cause_code cd_cause_raw]; intros H;
  repeat (apply andb_prop in H; destruct H as [H ?]);
  repeat match goal with Hc : (_ =? _) = true |- _ => apply Z.eqb_eq in Hc; subst end;
  repeat match goal with Hc : cd_u16 _ = true |- _ => apply u16_range in Hc end;
  (split; [try lia; split; try (apply Z.leb_le; reflexivity); try (apply Z.ltb_lt; reflexivity) | lia]).
Qed.

Lemma enc_cause_wf c : cd_wf_cause c = true -> cd_enc_cause c = COk (cd_cause_bytes c).
Proof.
  intros Hwf. destruct (wf_cause_facts c Hwf) as [_ Hl]. pose proof (len_nonneg (cd_cause_raw c)) as H0.
  assert (He : forall code raw, 0 <= cd_len raw < 65532 ->
            cd_enc_chdr code raw = COk (cd_e16 code ++ cd_e16 (4 + cd_len raw) ++ raw)).
  { intros code raw Hr. unfold cd_enc_chdr.
    replace (wrap16 (wrap16 (cd_len raw) + c_errorCauseHeaderLength)) with (4 + cd_len raw) by zl.
    destruct (4 + cd_len raw <? c_errorCauseHeaderLength) eqn:E; [zl|].
    replace (4 + cd_len raw - c_errorCauseHeaderLength) with (cd_len raw) by zl.
    rewrite take_all by reflexivity. reflexivity. }
  destruct c; cbn [cd_enc_cause cd_cause_raw] in *; unfold cd_cause_bytes; cbn [cd_cause_code cd_cause_raw];
  apply He; lia.
Qed.

Lemma chdr_rt code raw rest : 0 <= code < 65536 -> cd_len raw < 65532 ->
  cd_dec_chdr (cd_e16 code ++ cd_e16 (4 + cd_len raw) ++ raw ++ rest) = COk (code, 4 + cd_len raw, raw).
Proof.
  intros Hc Hl. pose proof (len_nonneg raw) as H0. pose proof (len_nonneg rest) as H1.
  unfold cd_dec_chdr. rewrite rd16_0 by lia. cbn [cd_bind].
  rewrite (rd16_at (cd_e16 code)) by (lens; lia). cbn [cd_bind].
  match goal with |- context [(?a <? ?b) || (cd_len ?l <? ?c)] =>
    replace ((a <? b) || (cd_len l <? c)) with false by (symmetry; lens; zl) end.
  replace (wrap16 (4 + cd_len raw - c_errorCauseHeaderLength)) with (cd_len raw) by zl.
  rewrite slice_ok; [|zl|zl|lens; zl].
  cbn [cd_bind]. f_equal. f_equal.
  rewrite (app_assoc (cd_e16 code)). rewrite drop_app_len by (lens; zl).
  apply take_app_len. zl.
Qed.

Lemma build_cause_rt c rest : cd_wf_cause c = true ->
  cd_build_cause (cd_cause_bytes c ++ rest) = COk (c, cd_len (cd_cause_bytes c)).
Proof.
  intros Hwf. destruct (wf_cause_facts c Hwf) as [Hc Hl]. rewrite len_cause_bytes.
  unfold cd_build_cause, cd_cause_bytes. rewrite <- !app_assoc.
  rewrite rd16_0 by assumption. cbn [cd_bind].
  rewrite chdr_rt by assumption.
  destruct c; cbn [cd_wf_cause cd_cause_code cd_cause_raw] in *.
  - apply andb_prop in Hwf. destruct Hwf as [He _]. apply Z.eqb_eq in He. subst code. reflexivity.
  - reflexivity.
  - apply andb_prop in Hwf. destruct Hwf as [He _]. apply Z.eqb_eq in He. subst code. reflexivity.
  - reflexivity.
  - apply andb_prop in Hwf. destruct Hwf as [Hwf _]. apply andb_prop in Hwf. destruct Hwf as [_ Hn].
    apply negb_true_iff in Hn. repeat (apply orb_false_elim in Hn; destruct Hn as [Hn ?]).
    repeat match goal with Hx : (code =? _) = false |- _ => rewrite Hx; clear Hx end.
    reflexivity.
Qed.

Fixpoint cd_causes_bytes (cs : list cd_cause) : list Z :=
  match cs with
  | [] => []
  | c :: tl => cd_cause_bytes c ++ cd_causes_bytes tl
  end.

Lemma enc_causes_wf cs : forallb cd_wf_cause cs = true -> cd_enc_causes cs = COk (cd_causes_bytes cs).
Proof.
  induction cs as [|c tl IH]; intros H; [reflexivity|].
  cbn [forallb] in H. apply andb_prop in H. destruct H as [Hc Htl].
  cbn [cd_enc_causes cd_causes_bytes]. rewrite enc_cause_wf, IH by assumption. reflexivity.
Qed.

Lemma len_causes_bytes cs : cd_len (cd_causes_bytes cs) = cd_causes_len cs.
Proof.
  induction cs as [|c tl IH]; [reflexivity|].
  cbn [cd_causes_bytes cd_causes_len fold_right]. rewrite len_app, len_cause_bytes, IH.
  unfold cd_causes_len. destruct c; cbn [cd_cause_raw]; lia.
Qed.

Lemma dec_causes_unfold f raw n offset :
  cd_dec_causes (S f) raw n offset =
  if n - offset >=? 4 then
    sub <- cd_from raw offset ;;
    '(c, clen) <- cd_build_cause sub ;;
    tl <- cd_dec_causes f raw n (offset + clen) ;;
    COk (c :: tl)
  else COk [].
Proof. reflexivity. Qed.

Lemma dec_causes_rt cs : forall fuel pre tail,
  forallb cd_wf_cause cs = true -> cd_len tail < 4 -> (length cs < fuel)%nat ->
  cd_dec_causes fuel (pre ++ cd_causes_bytes cs ++ tail) (cd_len (pre ++ cd_causes_bytes cs ++ tail)) (cd_len pre)
  = COk cs.
Proof.
  induction cs as [|c tl IH]; intros fuel pre tail Hwf Ht Hf.
  - destruct fuel as [|f]; [simpl in Hf; lia|]. rewrite dec_causes_unfold.
    cbn [cd_causes_bytes app]. rewrite len_app.
    destruct (cd_len pre + cd_len tail - cd_len pre >=? 4) eqn:E; [lia|reflexivity].
  - destruct fuel as [|f]; [simpl in Hf; lia|]. simpl in Hf.
    cbn [forallb] in Hwf. apply andb_prop in Hwf. destruct Hwf as [Hc Htl].
    pose proof (len_nonneg pre) as Hp0. pose proof (len_nonneg tail) as Ht0.
    pose proof (len_nonneg (cd_causes_bytes tl)) as Hc0.
    pose proof (len_cause_bytes c) as Hlc. pose proof (len_nonneg (cd_cause_raw c)) as Hr0.
    rewrite dec_causes_unfold. cbn [cd_causes_bytes]. rewrite <- !app_assoc.
    rewrite !len_app.
    destruct (cd_len pre + (cd_len (cd_cause_bytes c) + (cd_len (cd_causes_bytes tl) + cd_len tail)) - cd_len pre >=? 4) eqn:E; [|lia].
    rewrite from_ok by (rewrite !len_app; lia). rewrite drop_app_len by reflexivity. cbn [cd_bind].
    rewrite build_cause_rt by assumption. cbn [cd_bind].
    replace (cd_len pre + cd_len (cd_cause_bytes c)) with (cd_len (pre ++ cd_cause_bytes c)) by lens.
    replace (cd_len pre + (cd_len (cd_cause_bytes c) + (cd_len (cd_causes_bytes tl) + cd_len tail)))
      with (cd_len ((pre ++ cd_cause_bytes c) ++ cd_causes_bytes tl ++ tail)) by (rewrite !len_app; lia).
    replace (pre ++ cd_cause_bytes c ++ cd_causes_bytes tl ++ tail)
      with ((pre ++ cd_cause_bytes c) ++ cd_causes_bytes tl ++ tail) by (rewrite <- !app_assoc; reflexivity).
    rewrite IH by (try assumption; lia). reflexivity.
Qed.

Lemma dispatch_abort raw : cd_rd8 raw 0 = COk c_ctAbort -> cd_dec_chunk raw = cd_dec_abort false raw.
Proof. dispatch_tac. Qed.
Lemma dispatch_error raw : cd_rd8 raw 0 = COk c_ctError -> cd_dec_chunk raw = cd_dec_abort true raw.
Proof. dispatch_tac. Qed.

(* ABORT / ERROR alone (bundling is handled by [chunk_local]) *)
Lemma rt_abort (is_error : bool) (cs : list cd_cause) :
  forallb cd_wf_cause cs = true -> cd_causes_len cs < 65532 ->
  cd_dec_chunk (cd_enc_hdr (if is_error then c_ctError else c_ctAbort) 0 (cd_causes_bytes cs))
  = COk (if is_error then CkError cs else CkAbort cs,
         cd_len (cd_enc_hdr (if is_error then c_ctError else c_ctAbort) 0 (cd_causes_bytes cs)) - 4).
Proof.
  intros Hcs Hlen.
  pose proof (len_causes_bytes cs) as Hlb. pose proof (len_nonneg (cd_causes_bytes cs)) as H0.
  assert (Hd : cd_dec_chunk (cd_enc_hdr (if is_error then c_ctError else c_ctAbort) 0 (cd_causes_bytes cs))
               = cd_dec_abort is_error (cd_enc_hdr (if is_error then c_ctError else c_ctAbort) 0 (cd_causes_bytes cs))).
  { destruct is_error; [apply dispatch_error|apply dispatch_abort]; apply rd8_enc_hdr. }
  rewrite Hd. clear Hd. rewrite len_enc_hdr.
  unfold cd_dec_abort. rewrite dec_hdr_enc by lia. cbn [cd_bind h_typ h_raw].
  rewrite Z.eqb_refl. cbn [negb].
  assert (Hcnt : (length cs <= length (cd_causes_bytes cs))%nat).
  { clear. induction cs as [|c tl IH]; [simpl; lia|]. cbn [cd_causes_bytes length]. rewrite app_length.
    pose proof (len_cause_bytes c) as Hc. pose proof (len_nonneg (cd_cause_raw c)). unfold cd_len in *. lia. }
  pose proof (dec_causes_rt cs (S (Z.to_nat (cd_len (cd_causes_bytes cs)))) [] [] Hcs) as Hr.
  cbn [app] in Hr. rewrite app_nil_r in Hr. change (cd_len (@nil Z)) with 0 in Hr.
  rewrite Hr; [|lia|unfold cd_len in *; lia].
  cbn [cd_wrap cd_bind]. f_equal; f_equal; lia.
Qed.

(* every well-formed chunk, alone: decodes to its canonical form; the bytes are header + value *)
Lemma rt_chunk c bs : cd_wf_chunk c = true -> cd_enc_chunk c = COk bs ->
  cd_dec_chunk bs = COk (cd_canon_chunk c, cd_len bs - 4).
Proof.
  intros Hwf Henc. destruct c.
  - eapply rt_data; eassumption.
  - eapply rt_sack; eassumption.
  - eapply rt_init; eassumption.
  - (* HEARTBEAT *)
    cbn [cd_wf_chunk] in Hwf. destruct params as [|p [|q tl]]; try (destruct p; discriminate Hwf).
    + apply andb_prop in Hwf. destruct Hwf as [Ht Hr]. apply Z.eqb_eq in Ht. subst htyp.
      assert (hraw = []) by (destruct hraw; [reflexivity|unfold cd_len in Hr; cbn [length] in Hr; lia]). subst hraw.
      cbn [cd_enc_chunk] in Henc. apply COk_inj in Henc. subst bs. apply rt_heartbeat_empty.
    + destruct p; try discriminate Hwf.
      cbn [cd_enc_chunk cd_is_hbinfo] in Henc. apply COk_inj in Henc. subst bs. cbn [cd_canon_chunk].
      apply rt_heartbeat; assumption.
  - (* HEARTBEAT-ACK *)
    cbn [cd_wf_chunk] in Hwf. destruct params as [|p [|q tl]]; try discriminate Hwf; try (destruct p; discriminate Hwf).
    destruct p; try discriminate Hwf.
    cbn [cd_enc_chunk cd_is_hbinfo] in Henc. apply COk_inj in Henc. subst bs. cbn [cd_canon_chunk].
    apply rt_heartbeat_ack; assumption.
  - (* ABORT *)
    cbn [cd_wf_chunk] in Hwf. apply andb_prop in Hwf. destruct Hwf as [Hcs Hl].
    cbn [cd_enc_chunk] in Henc. rewrite enc_causes_wf in Henc by assumption. cbn [cd_bind] in Henc.
    apply COk_inj in Henc. subst bs. cbn [cd_canon_chunk]. apply (rt_abort false); [assumption|lia].
  - (* ERROR *)
    cbn [cd_wf_chunk] in Hwf. apply andb_prop in Hwf. destruct Hwf as [Hcs Hl].
    cbn [cd_enc_chunk] in Henc. rewrite enc_causes_wf in Henc by assumption. cbn [cd_bind] in Henc.
    apply COk_inj in Henc. subst bs. cbn [cd_canon_chunk]. apply (rt_abort true); [assumption|lia].
  - eapply rt_shutdown; eassumption.
  - eapply rt_shutdown_ack; eassumption.
  - eapply rt_shutdown_complete; eassumption.
  - eapply rt_cookie_echo; eassumption.
  - eapply rt_cookie_ack; eassumption.
  - (* RECONFIG *)
    cbn [cd_wf_chunk] in Hwf. apply andb_prop in Hwf. destruct Hwf as [Hwf Hl].
    apply andb_prop in Hwf. destruct Hwf as [Ha Hb].
    cbn [cd_enc_chunk] in Henc. apply COk_inj in Henc. subst bs. cbn [cd_canon_chunk].
    apply rt_reconfig; assumption.
  - eapply rt_fwd; eassumption.
  - (* I-FORWARD-TSN *)
    cbn [cd_wf_chunk] in Hwf. apply andb_prop in Hwf. destruct Hwf as [Hwf Hl].
    apply andb_prop in Hwf. destruct Hwf as [Hn Hss]. cbn [cd_canon_chunk].
    eapply rt_ifwd; try eassumption. lia.
Qed.

(* ------------------------------------------------------------------ bundles *)

(* what packet.marshal appends behind an aligned buffer *)
Fixpoint cd_enc_body (cs : list cd_chunk) : cres (list Z) :=
  match cs with
  | [] => COk []
  | c :: tl =>
      b <- cd_enc_chunk c ;;
      r <- cd_enc_body tl ;;
      COk (b ++ cd_zeros (getPadding (cd_len b)) ++ r)
  end.

Lemma enc_chunks_body cs : forall acc, cd_len acc mod 4 = 0 ->
  cd_enc_chunks acc cs = (r <- cd_enc_body cs ;; COk (acc ++ r)).
Proof.
  induction cs as [|c tl IH]; intros acc Ha.
  - cbn [cd_enc_chunks cd_enc_body cd_bind]. rewrite app_nil_r. reflexivity.
  - cbn [cd_enc_chunks cd_enc_body]. destruct (cd_enc_chunk c) as [b| | |]; cbn [cd_bind]; try reflexivity.
    rewrite IH by (rewrite len_app, len_zeros by zl; apply padding_aligns).
    destruct (cd_enc_body tl) as [r| | |]; cbn [cd_bind]; try reflexivity.
    f_equal. rewrite len_app.
    replace (getPadding (cd_len acc + cd_len b)) with (getPadding (cd_len b)) by zl.
    rewrite <- !app_assoc. reflexivity.
Qed.

Lemma enc_body_head cs r : cd_enc_body cs = COk r -> r = [] \/ 4 <= cd_len r.
Proof.
  destruct cs as [|c tl]; cbn [cd_enc_body]; intros H.
  - apply COk_inj in H. left. congruence.
  - destruct (cd_enc_chunk c) as [b| | |] eqn:Hc; cbn [cd_bind] in H; try discriminate.
    destruct (cd_enc_body tl) as [r'| | |]; cbn [cd_bind] in H; try discriminate.
    apply COk_inj in H. subst r. right. apply enc_chunk_length_field in Hc. destruct Hc as [Hc _].
    rewrite len_app. pose proof (len_nonneg (cd_zeros (getPadding (cd_len b)) ++ r')). lia.
Qed.

Lemma dec_hdr_vl_lt raw h : cd_dec_hdr raw = COk h -> cd_len (h_raw h) < 65536.
Proof.
  unfold cd_dec_hdr. destruct (_ <? c_chunkHeaderSize); [discriminate|].
  destruct (cd_rd8 raw 0); cbn [cd_bind]; try discriminate.
  destruct (cd_rd8 raw 1); cbn [cd_bind]; try discriminate.
  destruct (cd_rd16 raw 2) as [l| | |]; cbn [cd_bind]; try discriminate.
  destruct (_ <? 0); [discriminate|].
  match goal with |- cd_bind ?x _ = _ -> _ => destruct x; cbn [cd_bind]; try discriminate end.
  destruct (cd_slice _ _ _) as [v0| | |] eqn:Hs; cbn [cd_bind]; try discriminate.
  intros H. apply COk_inj in H. subst h. cbn [h_raw]. apply slice_len in Hs. zl.
Qed.

(* every chunk decoder reports the header's value length, which is a uint16 *)
Lemma dec_chunk_vl_lt raw c vl : cd_dec_chunk raw = COk (c, vl) -> vl < 65536.
Proof.
  unfold cd_dec_chunk.
  destruct (cd_rd8 raw 0) as [t| | |]; cbn [cd_bind]; try discriminate.
  repeat match goal with
  | |- context [if t =? ?k then _ else _] => destruct (t =? k)
  end; try discriminate;
  unfold cd_dec_init, cd_dec_abort, cd_dec_plain, cd_dec_heartbeat, cd_dec_heartbeat_ack, cd_dec_data, cd_dec_sack,
         cd_dec_reconfig, cd_dec_fwd, cd_dec_ifwd, cd_dec_shutdown;
  (destruct (cd_dec_hdr raw) as [h| | |] eqn:Hh; cbn [cd_bind]; try discriminate; apply dec_hdr_vl_lt in Hh);
  repeat match goal with
  | |- cd_wrap _ (cd_bind ?x _) = _ -> _ => destruct x; cbn [cd_bind cd_wrap]; try discriminate
  | |- cd_wrap _ (match ?x with (_, _) => _ end) = _ -> _ => destruct x; cbn [cd_bind cd_wrap]
  | |- (if ?b then _ else _) = _ -> _ => destruct b; try discriminate
  | |- cd_bind ?x _ = _ -> _ => destruct x; cbn [cd_bind]; try discriminate
  | |- (let '(_, _) := ?x in _) = _ -> _ => destruct x
  | |- (match ?x with (_, _) => _ end) = _ -> _ => destruct x
  end;
  intros H; inversion H; subst; lia.
Qed.

(* the value of a well-formed chunk fits a uint16: [rt_chunk] says that the encoding decodes with
   value length |bs| - 4 *)
Lemma wf_chunk_shape c bs : cd_wf_chunk c = true -> cd_enc_chunk c = COk bs ->
  exists t f v, bs = cd_enc_hdr t f v /\ cd_len v < 65536.
Proof.
  intros Hwf Henc. destruct (enc_chunk_shape _ _ Henc) as (t & f & v & ->).
  exists t, f, v. split; [reflexivity|].
  pose proof (rt_chunk _ _ Hwf Henc) as Hd. apply dec_chunk_vl_lt in Hd. rewrite len_enc_hdr in Hd. lia.
Qed.

(* a well-formed chunk inside a bundle: same result as alone *)
Lemma rt_chunk_bundled c bs r : cd_wf_chunk c = true -> cd_enc_chunk c = COk bs ->
  r = [] \/ 4 <= cd_len r ->
  cd_dec_chunk (bs ++ cd_zeros (getPadding (cd_len bs)) ++ r) = COk (cd_canon_chunk c, cd_len bs - 4).
Proof.
  intros Hwf Henc Hr.
  destruct (wf_chunk_shape _ _ Hwf Henc) as (t & f & v & -> & Hv).
  rewrite (chunk_local _ _ (mkHdr t f v)); [apply rt_chunk; assumption | apply dec_hdr_enc_gen; assumption | apply len_enc_hdr |].
  destruct Hr as [-> | Hr].
  + rewrite app_nil_r, all_zero_zeros. apply andb_false_r.
  + rewrite len_app. pose proof (len_nonneg (cd_zeros (getPadding (cd_len (cd_enc_hdr t f v))))).
    apply andb_false_intro1. lia.
Qed.

Lemma dec_chunks_step f b r c' rest' :
  4 <= cd_len b ->
  cd_dec_chunk (b ++ cd_zeros (getPadding (cd_len b)) ++ r) = COk (c', cd_len b - 4) ->
  cd_dec_chunks f r = COk rest' ->
  cd_dec_chunks (S f) (b ++ cd_zeros (getPadding (cd_len b)) ++ r) = COk (c' :: rest').
Proof.
  intros Hb4 Hdec Hrest. pose proof (len_nonneg r) as Hr0.
  assert (Hp : 0 <= getPadding (cd_len b) < 4) by zl.
  cbn [cd_dec_chunks]. rewrite !len_app, len_zeros by lia.
  destruct (0 <? cd_len b + (getPadding (cd_len b) + cd_len r)) eqn:E0; [|lia].
  destruct (cd_len b + (getPadding (cd_len b) + cd_len r) <? c_chunkHeaderSize) eqn:E1; [zl|].
  rewrite Hdec. cbn [cd_bind].
  replace (c_chunkHeaderSize + (cd_len b - 4) + getPadding (cd_len b - 4)) with (cd_len b + getPadding (cd_len b)) by zl.
  destruct (cd_len b + (getPadding (cd_len b) + cd_len r) <? cd_len b + getPadding (cd_len b)) eqn:E2; [lia|].
  rewrite app_assoc. rewrite drop_app_len by (rewrite len_app, len_zeros by lia; reflexivity).
  rewrite Hrest. reflexivity.
Qed.

Lemma dec_chunks_body cs : forall fuel body,
  forallb cd_wf_chunk cs = true -> cd_enc_body cs = COk body -> cd_len body < Z.of_nat fuel ->
  cd_dec_chunks fuel body = COk (map cd_canon_chunk cs).
Proof.
  induction cs as [|c tl IH]; intros fuel body Hwf Hb Hf.
  - cbn [cd_enc_body] in Hb. apply COk_inj in Hb. subst body.
    destruct fuel; [rewrite len_nil in Hf; lia|]. reflexivity.
  - cbn [forallb] in Hwf. apply andb_prop in Hwf. destruct Hwf as [Hc Htl].
    cbn [cd_enc_body] in Hb.
    destruct (cd_enc_chunk c) as [b| | |] eqn:Hec; cbn [cd_bind] in Hb; try discriminate.
    destruct (cd_enc_body tl) as [r| | |] eqn:Her; cbn [cd_bind] in Hb; try discriminate.
    apply COk_inj in Hb. subst body.
    pose proof (enc_chunk_length_field _ _ Hec) as [Hb4 _].
    pose proof (len_nonneg r) as Hr0.
    assert (Hp : 0 <= getPadding (cd_len b) < 4) by zl.
    destruct fuel as [|f]; [pose proof (len_nonneg (b ++ cd_zeros (getPadding (cd_len b)) ++ r)); lia|].
    rewrite !len_app, len_zeros in Hf by lia.
    cbn [map]. apply dec_chunks_step; [assumption| |].
    + apply rt_chunk_bundled; [assumption|assumption|apply (enc_body_head _ _ Her)].
    + apply (IH f r Htl eq_refl). lia.
Qed.

Lemma enc_chunk_wf_ok c : cd_wf_chunk c = true -> exists b, cd_enc_chunk c = COk b.
Proof.
  intros Hc. destruct c; cbn [cd_enc_chunk cd_bind]; try (eexists; reflexivity).
  - destruct idata; eexists; reflexivity.
  - cbn [cd_wf_chunk] in Hc. destruct params as [|p [|q tl]]; try (destruct p; discriminate Hc); [eexists; reflexivity|].
    destruct p; try discriminate Hc. eexists; reflexivity.
  - cbn [cd_wf_chunk] in Hc. destruct params as [|p [|q tl]]; try discriminate Hc; try (destruct p; discriminate Hc).
    destruct p; try discriminate Hc. eexists; reflexivity.
  - cbn [cd_wf_chunk] in Hc. apply andb_prop in Hc. destruct Hc as [Hcs _].
    rewrite enc_causes_wf by assumption. cbn [cd_bind]. eexists; reflexivity.
  - cbn [cd_wf_chunk] in Hc. apply andb_prop in Hc. destruct Hc as [Hcs _].
    rewrite enc_causes_wf by assumption. cbn [cd_bind]. eexists; reflexivity.
  - cbn [cd_wf_chunk] in Hc. apply andb_prop in Hc. destruct Hc as [_ Hl].
    pose proof (ifwd_normalize_len streams) as Hnl.
    destruct (cd_len (cd_ifwd_normalize streams) >? c_maxIForwardTSNStreams) eqn:E0; [lia|]. eexists; reflexivity.
Qed.

Lemma enc_body_wf_ok cs : forallb cd_wf_chunk cs = true -> exists body, cd_enc_body cs = COk body.
Proof.
  induction cs as [|c tl IH]; intros Hwf; [eexists; reflexivity|].
  cbn [forallb] in Hwf. apply andb_prop in Hwf. destruct Hwf as [Hc Htl].
  destruct (IH Htl) as [r Hr]. destruct (enc_chunk_wf_ok c Hc) as [b Hb].
  cbn [cd_enc_body]. rewrite Hb, Hr. cbn [cd_bind]. eexists; reflexivity.
Qed.

(* ------------------------------------------------------------------ packets *)

Lemma rd8_ok l off : 0 <= off < cd_len l -> exists v, cd_rd8 l off = COk v.
Proof.
  intros H. unfold cd_rd8. destruct (off <? 0) eqn:E; [lia|].
  destruct (drop_cases off l 1) as (pre & post & -> & Hp); [lia|unfold cd_len in *; lia|].
  destruct pre as [|a [|]]; simpl in Hp; try discriminate. eexists; reflexivity.
Qed.

Lemma rd32_ok l off : 0 <= off -> off + 4 <= cd_len l -> exists v, cd_rd32 l off = COk v.
Proof.
  intros H H2. unfold cd_rd32. destruct (off <? 0) eqn:E; [lia|].
  destruct (drop_cases off l 4) as (pre & post & -> & Hp); [lia|unfold cd_len in *; lia|].
  destruct pre as [|a [|b [|c [|d [|]]]]]; simpl in Hp; try discriminate. eexists; reflexivity.
Qed.

(* C12 (ii), packet level: every bundle of well-formed chunks decodes to its canonical form *)
Lemma dec_enc_packet p ck dc bs :
  cd_wf_packet p = true -> length ck = 4%nat -> cd_enc_packet ck p = COk bs ->
  cd_dec_packet dc true bs = COk (cd_canon_packet p).
Proof.
  intros Hwf Hck Henc. destruct p as [sp dp vt cs]. unfold cd_wf_packet in Hwf. cbn [pk_sport pk_dport pk_vtag pk_chunks] in *.
  apply andb_prop in Hwf. destruct Hwf as [Hwf Hcs].
  apply andb_prop in Hwf. destruct Hwf as [Hwf Hvt]. apply u32_range in Hvt.
  apply andb_prop in Hwf. destruct Hwf as [Hsp Hdp]. apply u16_range in Hsp. apply u16_range in Hdp.
  unfold cd_enc_packet in Henc. cbn [pk_sport pk_dport pk_vtag pk_chunks] in Henc.
  assert (Hlck : cd_len ck = 4) by (unfold cd_len; lia).
  rewrite enc_chunks_body in Henc by (lens; rewrite Hlck; reflexivity).
  destruct (cd_enc_body cs) as [body| | |] eqn:Hbody; cbn [cd_bind] in Henc; try discriminate.
  apply COk_inj in Henc. subst bs.
  pose proof (len_nonneg body) as Hb0.
  set (hdr := cd_e16 sp ++ cd_e16 dp ++ cd_e32 vt ++ ck).
  assert (Hh : cd_len hdr = 12) by (unfold hdr; lens; rewrite Hlck; reflexivity).
  unfold cd_dec_packet. rewrite len_app, Hh.
  destruct (12 + cd_len body <? c_packetHeaderSize) eqn:E0; [zl|].
  (* the checksum decision: whatever the first chunk type, the oracle says the checksum is right *)
  match goal with |- cd_bind ?x _ = _ => assert (Hdc : exists d, x = COk d) end.
  { destruct (c_packetHeaderSize + c_chunkHeaderSize <=? 12 + cd_len body) eqn:E1; [|eexists; reflexivity].
    destruct (rd8_ok (hdr ++ body) c_packetHeaderSize) as [t Ht]; [rewrite len_app, Hh; zl|].
    rewrite Ht. cbn [cd_bind]. eexists; reflexivity. }
  destruct Hdc as [d ->]. cbn [cd_bind].
  destruct (rd32_ok (hdr ++ body) 8) as [their Hth]; [lia|rewrite len_app, Hh; lia|].
  rewrite Hth. cbn [cd_bind negb]. rewrite andb_false_r.
  unfold hdr. rewrite <- !app_assoc.
  rewrite rd16_0 by lia. cbn [cd_bind].
  rewrite (rd16_at (cd_e16 sp)) by (lens; lia). cbn [cd_bind].
  rewrite (app_assoc (cd_e16 sp)). rewrite (rd32_at _ vt) by (lens; lia). cbn [cd_bind].
  rewrite !app_assoc. rewrite from_ok by (rewrite !len_app, !len_e16, len_e32, Hlck; zl).
  rewrite drop_app_len by (rewrite !len_app, !len_e16, len_e32, Hlck; reflexivity).
  cbn [cd_bind].
  rewrite (dec_chunks_body cs _ body Hcs Hbody) by lia.
  reflexivity.
Qed.

Lemma enc_packet_wf_ok p ck : cd_wf_packet p = true -> length ck = 4%nat -> exists bs, cd_enc_packet ck p = COk bs.
Proof.
  intros Hwf Hck. unfold cd_wf_packet in Hwf. apply andb_prop in Hwf. destruct Hwf as [_ Hcs].
  unfold cd_enc_packet. rewrite enc_chunks_body.
  - destruct (enc_body_wf_ok _ Hcs) as [body ->]. cbn [cd_bind]. eexists; reflexivity.
  - rewrite !len_app, !len_e16, len_e32. unfold cd_len. rewrite Hck. reflexivity.
Qed.

(* the canonical form encodes to the same bytes: re-encoding what was decoded is stable *)
Lemma enc_canon_chunk c : cd_wf_chunk c = true -> cd_enc_chunk (cd_canon_chunk c) = cd_enc_chunk c.
Proof.
  destruct c; intros Hwf; try reflexivity.
  - destruct idata; cbn [cd_canon_chunk cd_enc_chunk]; [destruct beginning|]; reflexivity.
  - destruct params as [|p [|q tl]]; reflexivity.
  - cbn [cd_canon_chunk cd_enc_chunk]. rewrite ifwd_normalize_idem. reflexivity.
Qed.

Lemma enc_body_canon cs : forallb cd_wf_chunk cs = true ->
  cd_enc_body (map cd_canon_chunk cs) = cd_enc_body cs.
Proof.
  induction cs as [|c tl IH]; intros Hwf; [reflexivity|].
  cbn [forallb] in Hwf. apply andb_prop in Hwf. destruct Hwf as [Hc Htl].
  cbn [map cd_enc_body]. rewrite enc_canon_chunk by assumption. rewrite IH by assumption. reflexivity.
Qed.

Lemma reenc_stable_wf p ck dc bs :
  cd_wf_packet p = true -> length ck = 4%nat -> cd_enc_packet ck p = COk bs ->
  exists q, cd_dec_packet dc true bs = COk q /\ cd_enc_packet ck q = COk bs.
Proof.
  intros Hwf Hck Henc. exists (cd_canon_packet p). split; [eapply dec_enc_packet; eassumption|].
  unfold cd_wf_packet in Hwf. apply andb_prop in Hwf. destruct Hwf as [_ Hcs].
  unfold cd_enc_packet in *. destruct p as [sp dp vt cs]. cbn [cd_canon_packet pk_sport pk_dport pk_vtag pk_chunks] in *.
  assert (Ha : cd_len (cd_e16 sp ++ cd_e16 dp ++ cd_e32 vt ++ ck) mod 4 = 0).
  { rewrite !len_app, !len_e16, len_e32. unfold cd_len. rewrite Hck. reflexivity. }
  rewrite enc_chunks_body in * by assumption. rewrite enc_body_canon by assumption. exact Henc.
Qed.


(* stability for whatever the decoder accepted, as soon as the decoded value passes the boolean
   well-formedness check (the comparator evaluates that check on every accepted packet) *)
Lemma reenc_stable_decoded b dc ck_ok p ck b' dc' :
  cd_dec_packet dc ck_ok b = COk p -> cd_wf_packet p = true -> length ck = 4%nat ->
  cd_enc_packet ck p = COk b' ->
  exists q, cd_dec_packet dc' true b' = COk q /\ cd_enc_packet ck q = COk b'.
Proof. intros _ Hwf Hck Henc. eapply reenc_stable_wf; eassumption. Qed.
