(* C14 — stream close ordering and identifier reuse.
   Model: coq/model/Reset.v (stream.go Close / ReadSCTP / onInboundStreamReset / resetOutgoingStreamSequenceNumbers,
   association.go sendResetRequest, popPendingDataChunksToSend (marker), gatherOutboundDataAndReconfigPackets,
   handleReconfigParam, resetStreamsIfAny, handlePeerLastTSNAndAcknowledgement, handleForwardTSN, OpenStream /
   createStream, pending_queue.go pop order of one stream).  Only statements closed by [exact] + Print Assumptions;
   refutations are vm_compute witnesses replayed on the implementation (TestVerifScenResetWitness). *)
From Coq Require Import ZArith Bool List.
From Sctp Require Import Gen SnaProofs Reset ResetProofs.
Import ListNotations.
Open Scope Z_scope.

(* ---------------------------------------------------------------- (a) the request covers the stream's data *)

(* For every history of application calls and protocol events at one endpoint (any interleaving of writes,
   closes, reopens, gathers with any cwnd-limited prefix, timer expiries, inbound requests / responses / DATA /
   FORWARD-TSN), with the pending queue under either policy: when the marker queued by a Close (label m) has
   been popped, every data chunk written on the stream before that Close (label id < m) already has a TSN, and
   that TSN is not after the senderLastTSN of the request created for the marker (index k <= L; as serial
   numbers whenever fewer than 2^31 TSNs lie between them).
   The per-stream FIFO is not assumed: the model carries both sub-queues of the message policy and the
   selection flag (rs_pop_head); the correspondence check compares every pop of the implementation with it. *)
Theorem c14_reset_after_data : forall fifo t0 p sid e gh, in32 t0 ->
  rs_reach sid (rs_ep_init fifo t0 p) rs_gh0 e gh ->
  forall m L, In (m, L) (rs_g_marks gh) -> forall id, In id (rs_g_written gh) -> id < m ->
  exists k, In (id, k) (rs_g_sent gh) /\ k <= L /\ L < rs_g_n gh /\
            (L - k < 2147483648 -> sna32LTE (wrap32 (t0 + k)) (wrap32 (t0 + L)) = true).
Proof. exact rs_reset_after_data. Qed.
Print Assumptions c14_reset_after_data.

(* the indices are the wire values: inside one gather senderLastTSN = myNextTSN + (chunks moved) - 1 and each
   chunk of the stream moved by that gather has a TSN that is <=s senderLastTSN *)
Theorem c14_request_covers_gather : forall sid e items ids e' g q,
  rs_wf e -> in32 (rs_next_tsn e) -> Z.of_nat (length items) < 2147483648 ->
  rs_gather sid e items ids = Some (e', g) -> rs_go_new g = Some q ->
  rs_q_last q = wrap32 (rs_next_tsn e + Z.of_nat (length items) - 1) /\
  forall id tsn pos, In (id, tsn, pos) (rs_go_sent g) -> tsn = wrap32 (rs_next_tsn e + pos) /\ sna32LTE tsn (rs_q_last q) = true.
Proof. exact rs_gather_request_covers. Qed.
Print Assumptions c14_request_covers_gather.

(* a marker leaves the queue only together with a request that names the stream *)
Theorem c14_marker_needs_request : forall sid e items ids e' g,
  rs_wf e -> in32 (rs_next_tsn e) -> rs_gather sid e items ids = Some (e', g) -> rs_go_marks g <> [] ->
  exists q, rs_go_new g = Some q /\ In sid (rs_q_ids q).
Proof. exact rs_marker_needs_request. Qed.
Print Assumptions c14_marker_needs_request.

(* message policy: the marker (ordered sub-queue) cannot overtake unordered data of the same stream: it is
   popped only when the stream has nothing left in the unordered sub-queue and no ordered message is half-sent *)
Theorem c14_marker_not_before_unordered : forall e c e',
  rs_wf e -> rs_fifo e = false -> rs_pop_head e = Some (c, e') -> rs_is_marker c = true ->
  rs_pend_u e = [] /\ rs_sel_o e = false /\ exists r, rs_pend_o e = c :: r.
Proof. exact rs_marker_pop_message_policy. Qed.
Print Assumptions c14_marker_not_before_unordered.

(* ---------------------------------------------------------------- (b) the reset is performed only when due *)

(* every response any handler produces: SuccessPerformed iff senderLastTSN <=s the cumulative TSN at that
   moment, InProgress otherwise (and then nothing was reset) *)
Theorem c14_reset_deferred : forall sid e ev e' out,
  rs_ep_step sid e ev = Some (e', out) -> Forall rs_resp_ok (rs_o_resps out).
Proof. exact rs_step_resps_ok. Qed.
Print Assumptions c14_reset_deferred.

(* the reader's EOF and the removal of the stream from a.streams happen in no other way: whichever handler
   runs, if the stream was registered and is not any more, or its read error became EOF, then this step
   performed a reset whose senderLastTSN <=s the cumulative TSN (so, by C05 c05_sack_truth, every TSN up to
   it was handed to a reassembly queue or skipped by FORWARD-TSN) *)
Theorem c14_eof_only_by_due_reset : forall sid e ev e' out, rs_ep_step sid e ev = Some (e', out) ->
  (rs_present e = true /\ rs_present e' = false) \/ (rs_eof (rs_obj e) = false /\ rs_eof (rs_obj e') = true) ->
  exists r, In r (rs_o_resps out) /\ rs_r_hit r = true /\ rs_r_res r = c_reconfigResultSuccessPerformed /\
            sna32LTE (rs_r_last r) (rs_r_cum r) = true.
Proof. exact rs_step_reset_only_when_due. Qed.
Print Assumptions c14_eof_only_by_due_reset.

(* no lost wake-up on the DATA path: after every handler except FORWARD-TSN no stored request is satisfiable
   (whenever the condition becomes true the reset is performed in the same step) *)
Theorem c14_no_lost_wakeup : forall sid e ev e' out,
  rs_ep_step sid e ev = Some (e', out) -> (forall c sk, ev <> RsVFwd c sk) ->
  rs_sorted (rs_reqs e) -> rs_no_ready e -> rs_no_ready e' /\ rs_sorted (rs_reqs e').
Proof. exact rs_step_no_lost_wakeup. Qed.
Print Assumptions c14_no_lost_wakeup.

(* ... refuted for FORWARD-TSN (handleForwardTSN advances the cumulative point without a pop; the retry loop of
   handlePeerLastTSNAndAcknowledgement sits inside the pop loop): the request stays deferred although
   senderLastTSN <=s peerLastTSN, until the peer's re-configuration timer retransmits it.
   Observed on the implementation by TestVerifScenResetForwardTSN (deferred-reset-not-retried-after-forward-tsn). *)
Theorem c14_no_lost_wakeup_forward_tsn_refuted : exists e' q,
  rs_recv_fwd 1 rs_fwd_witness 10 None = (e', []) /\ rs_cum e' = 10 /\ rs_present e' = true /\ rs_eof (rs_obj e') = false /\
  In q (rs_reqs e') /\ sna32LTE (rs_q_last q) (rs_cum e') = true.
Proof. exact rs_lost_wakeup_after_fwd. Qed.
Print Assumptions c14_no_lost_wakeup_forward_tsn_refuted.

(* ---------------------------------------------------------------- (c) buffered messages before EOF *)

(* ReadSCTP: a held message in sequence is returned whatever the read error is; the reset leaves the buffer alone *)
Theorem c14_read_message_first : forall o s r, rs_rbuf o = s :: r -> sna16GT s (rs_rnext o) = false ->
  exists o', rs_read_strm o = (o', RsMsg s) /\ rs_rbuf o' = r /\ rs_eof o' = rs_eof o /\
             rs_rnext o' = (if s =? rs_rnext o then wrap16 (rs_rnext o + 1) else rs_rnext o).
Proof. exact rs_read_msg_first. Qed.
Print Assumptions c14_read_message_first.

Theorem c14_reset_keeps_buffer : forall o,
  rs_rbuf (rs_inbound_reset o) = rs_rbuf o /\ rs_rnext (rs_inbound_reset o) = rs_rnext o /\ rs_eof (rs_inbound_reset o) = true.
Proof. exact rs_inbound_reset_keeps_buffer. Qed.
Print Assumptions c14_reset_keeps_buffer.

(* k in-sequence messages buffered (any k, SSN wrap included): k+1 reads return them in order and only then EOF *)
Theorem c14_eof_after_reads : forall k o, in16 (rs_rnext o) -> rs_rbuf o = rs_contig (rs_rnext o) k ->
  exists o', rs_reads (S k) o = (o', map RsMsg (rs_contig (rs_rnext o) k) ++ [if rs_eof o then RsEOF else RsWait]) /\
             rs_rbuf o' = [] /\ rs_eof o' = rs_eof o.
Proof. exact rs_reads_contig. Qed.
Print Assumptions c14_eof_after_reads.

Theorem c14_eof_only_when_nothing_readable : forall o o', rs_read_strm o = (o', RsEOF) ->
  rs_eof o = true /\ o' = o /\ (rs_rbuf o = [] \/ exists s r, rs_rbuf o = s :: r /\ sna16GT s (rs_rnext o) = true).
Proof. exact rs_read_eof_only_when_nothing_readable. Qed.
Print Assumptions c14_eof_only_when_nothing_readable.

(* ---------------------------------------------------------------- (d) fresh counters, fresh incarnation *)

(* (the stream that sent the request has left the open state: Close precedes the request) *)
Theorem c14_counters_fresh : forall sid e rsn q,
  rs_req_get (rs_reconfigs e) rsn = Some q -> rs_mem sid (rs_q_ids q) = true -> rs_present e = true ->
  rs_state (rs_obj e) <> rs_st_open ->
  let e' := fst (rs_recv_response sid e rsn c_reconfigResultSuccessPerformed) in
  rs_ssn (rs_obj e') = 0 /\ rs_omid (rs_obj e') = 0 /\ rs_umid (rs_obj e') = 0 /\
  rs_state (rs_obj e') = rs_state (rs_obj e) /\ rs_eof (rs_obj e') = rs_eof (rs_obj e) /\ rs_present e' = true.
Proof. exact rs_response_performed_resets. Qed.
Print Assumptions c14_counters_fresh.

(* OpenStream on an identifier that is not registered creates an object with all counters 0, open, no read error *)
Theorem c14_new_incarnation_fresh : forall e, rs_present e = false ->
  rs_present (rs_open e) = true /\ rs_obj (rs_open e) = rs_fresh_strm (rs_gen (rs_obj e) + 1).
Proof. exact rs_open_fresh. Qed.
Print Assumptions c14_new_incarnation_fresh.

Theorem c14_fresh_is_zero : forall g,
  rs_state (rs_fresh_strm g) = rs_st_open /\ rs_eof (rs_fresh_strm g) = false /\ rs_ssn (rs_fresh_strm g) = 0 /\
  rs_omid (rs_fresh_strm g) = 0 /\ rs_umid (rs_fresh_strm g) = 0 /\ rs_rnext (rs_fresh_strm g) = 0 /\ rs_rbuf (rs_fresh_strm g) = [].
Proof. exact rs_fresh_is_zero. Qed.
Print Assumptions c14_fresh_is_zero.

(* ... while it is still registered (the peer has not reset its direction yet) OpenStream hands back the old,
   closed object *)
Theorem c14_open_while_registered_returns_old : forall e, rs_present e = true -> rs_open e = e.
Proof. exact rs_open_existing. Qed.
Print Assumptions c14_open_while_registered_returns_old.

(* receiver: with no object under the identifier and no reset request stored, the first message of the new
   incarnation (SSN 0) creates a fresh object and is readable at once *)
Theorem c14_first_message_deliverable : forall sid e tsn,
  rs_present e = false -> rs_reqs e = [] -> rs_can_push e tsn = true ->
  let e' := fst (rs_recv_data sid e tsn true true 0) in
  rs_present e' = true /\ rs_gen (rs_obj e') = rs_gen (rs_obj e) + 1 /\ rs_eof (rs_obj e') = false /\
  snd (rs_read e') = RsMsg 0.
Proof. exact rs_first_message_deliverable. Qed.
Print Assumptions c14_first_message_deliverable.

(* the response was lost and the request is retransmitted after the peer deleted the stream:
   "stream not found" -> still SuccessPerformed, nothing else changes *)
Theorem c14_retransmitted_request_stream_gone : forall sid e q e' r,
  rs_present e = false -> rs_recv_request sid e q = Some (e', r) ->
  rs_obj e' = rs_obj e /\ rs_present e' = false /\ rs_r_hit r = false.
Proof. exact rs_request_absent_harmless. Qed.
Print Assumptions c14_retransmitted_request_stream_gone.

(* RECONFIG parameters that do not name the identifier never touch its object.  (Before fd7385c / a186bb2 the
   statements about a reopened identifier needed the exclusion hypothesis "no request / response of an earlier
   incarnation is delivered after the reopen"; the theorems c14_stale_request_harmless and c14_late_response_harmless
   below remove it.  TestVerifSimResetQuiet still runs under that precondition, TestVerifSimReset without it.) *)
Theorem c14_request_frame : forall sid e q e' r,
  rs_mem sid (rs_q_ids q) = false -> rs_recv_request sid e q = Some (e', r) ->
  rs_obj e' = rs_obj e /\ rs_present e' = rs_present e /\ rs_r_hit r = false.
Proof. exact rs_request_frame. Qed.
Print Assumptions c14_request_frame.

Theorem c14_response_frame : forall sid e rsn result,
  (forall q, rs_req_get (rs_reconfigs e) rsn = Some q -> rs_mem sid (rs_q_ids q) = false) ->
  rs_obj (fst (rs_recv_response sid e rsn result)) = rs_obj e /\
  rs_present (fst (rs_recv_response sid e rsn result)) = rs_present e.
Proof. exact rs_response_frame. Qed.
Print Assumptions c14_response_frame.

(* D24 (repaired by /repo fd7385c; the model follows: rs_done = a.performedResetRSN[sid]).  A request whose sequence
   number is not newer than the one already performed for the identifier - a retransmission after a lost response, a
   network duplicate - is answered (SuccessPerformed when due) but touches neither the stream that lives under the
   identifier now, nor its registration, nor the record. *)
Theorem c14_stale_request_harmless : forall sid e q e' r p,
  rs_done e = Some p -> sna32LTE (rs_q_rsn q) p = true -> rs_recv_request sid e q = Some (e', r) ->
  rs_obj e' = rs_obj e /\ rs_present e' = rs_present e /\ rs_done e' = rs_done e /\ rs_r_hit r = false /\
  (sna32LTE (rs_q_last q) (rs_cum e) = true -> rs_r_res r = c_reconfigResultSuccessPerformed).
Proof. exact rs_request_already_performed. Qed.
Print Assumptions c14_stale_request_harmless.

(* ... the request of the next incarnation (newer sequence number) is performed and recorded, also when no stream
   is registered (the vacuous reset must not hit a stream opened later) *)
Theorem c14_newer_request_performed : forall sid e q e' r,
  rs_already e q = false -> rs_mem sid (rs_q_ids q) = true -> sna32LTE (rs_q_last q) (rs_cum e) = true ->
  rs_recv_request sid e q = Some (e', r) ->
  rs_done e' = Some (rs_q_rsn q) /\ rs_present e' = false /\ rs_r_hit r = rs_present e /\
  rs_r_res r = c_reconfigResultSuccessPerformed.
Proof. exact rs_request_newer_performed. Qed.
Print Assumptions c14_newer_request_performed.

(* ... and whichever handler runs, the record changes only by performing a request, to that request's number *)
Theorem c14_performed_record_changes_only_by_performing : forall sid e ev e' out,
  rs_ep_step sid e ev = Some (e', out) -> rs_done_ok e e' (rs_o_resps out).
Proof. exact rs_step_done. Qed.
Print Assumptions c14_performed_record_changes_only_by_performing.

Theorem c14_request_frame_record : forall sid e q e' r,
  rs_mem sid (rs_q_ids q) = false -> rs_recv_request sid e q = Some (e', r) -> rs_done e' = rs_done e.
Proof. exact rs_request_frame_done. Qed.
Print Assumptions c14_request_frame_record.

(* D25 (repaired by /repo a186bb2).  Whatever response arrives - late, duplicated, for any request - an open stream
   keeps its SSN / MID counters and its registration: the stream that sent a reset request has left the open state, an
   open stream under the identifier is a later incarnation. *)
Theorem c14_late_response_harmless : forall sid e rsn result, rs_state (rs_obj e) = rs_st_open ->
  rs_obj (fst (rs_recv_response sid e rsn result)) = rs_obj e /\
  rs_present (fst (rs_recv_response sid e rsn result)) = rs_present e.
Proof. exact rs_response_open_untouched. Qed.
Print Assumptions c14_late_response_harmless.

(* the two histories that refuted the property before the repairs (and were replayed on the implementation:
   TestVerifScenResetWitness) are harmless now: the reader of the new incarnation keeps reading, no EOF, no reused SSN *)
Example c14_stale_request_history_now_harmless : exists s log,
  rs_sys_run 1 rs_sys0 (rs_stale_request_history ++
     [RsEDeliver 7; RsEWrite true 5; RsEGather true [RsMine 1 false] []; RsEDeliver 8; RsERead false]) [] = Some (s, log) /\
  log = [RsMsg 0; RsEOF; RsMsg 0; RsWait; RsMsg 1] /\
  rs_gen (rs_obj (rs_a s)) = 2 /\ rs_state (rs_obj (rs_a s)) = rs_st_open /\ rs_ssn (rs_obj (rs_a s)) = 2 /\
  rs_gen (rs_obj (rs_b s)) = 2 /\ rs_eof (rs_obj (rs_b s)) = false /\ rs_present (rs_b s) = true /\
  rs_done (rs_b s) = Some 1000.
Proof. exact rs_stale_request_now_harmless. Qed.

Example c14_late_response_history_now_harmless : exists s log,
  rs_sys_run 1 rs_sys0 rs_late_response_history [] = Some (s, log) /\
  log = [RsEOF; RsMsg 0; RsMsg 1; RsMsg 2] /\
  rs_gen (rs_obj (rs_a s)) = 2 /\ rs_ssn (rs_obj (rs_a s)) = 3 /\ rs_reconfigs (rs_a s) = [] /\
  rs_rnext (rs_obj (rs_b s)) = 3 /\ rs_rbuf (rs_obj (rs_b s)) = [].
Proof. exact rs_late_response_now_harmless. Qed.

(* ---------------------------------------------------------------- (e) retransmission and duplicates *)

(* after the re-configuration timer expired the next gather retransmits every stored request *)
Theorem c14_timer_retransmits_all : forall sid e items ids e' g,
  rs_gather sid (rs_treconfig_expire e) items ids = Some (e', g) -> rs_go_rtx g = rs_reconfigs e.
Proof. exact rs_expire_then_gather_retransmits_all. Qed.
Print Assumptions c14_timer_retransmits_all.

(* a stored request leaves a.reconfigs only through a final (not InProgress) response carrying its number
   (rsn <> myNextRSN: the sequence-number space has not wrapped onto it) *)
Theorem c14_request_kept_until_final : forall sid e ev e' out rsn q,
  rs_ep_step sid e ev = Some (e', out) -> rs_req_get (rs_reconfigs e) rsn = Some q ->
  (forall result, ev = RsVResp rsn result -> result = c_reconfigResultInProgress) ->
  rsn <> rs_next_rsn e ->
  rs_req_get (rs_reconfigs e') rsn = Some q.
Proof. exact rs_request_kept_until_final. Qed.
Print Assumptions c14_request_kept_until_final.

(* duplicates: a second final response, any InProgress, a duplicate of a still-deferred request change nothing *)
Theorem c14_duplicate_response_harmless : forall sid e rsn result,
  rs_req_get (rs_reconfigs e) rsn = None -> fst (rs_recv_response sid e rsn result) = e.
Proof. exact rs_dup_final_response_noop. Qed.
Print Assumptions c14_duplicate_response_harmless.

Theorem c14_in_progress_harmless : forall sid e rsn, fst (rs_recv_response sid e rsn c_reconfigResultInProgress) = e.
Proof. exact rs_in_progress_noop. Qed.
Print Assumptions c14_in_progress_harmless.

Theorem c14_duplicate_deferred_request_harmless : forall sid e q,
  rs_sorted (rs_reqs e) -> In q (rs_reqs e) -> sna32LTE (rs_q_last q) (rs_cum e) = false ->
  Z.of_nat (length (rs_reqs e)) < c_maxReconfigRequests ->
  exists r, rs_recv_request sid e q = Some (e, r) /\ rs_r_res r = c_reconfigResultInProgress.
Proof. exact rs_dup_request_deferred. Qed.
Print Assumptions c14_duplicate_deferred_request_harmless.

(* ---------------------------------------------------------------- non-vacuity *)

(* a history under the message policy across the TSN wrap: ordered fragmented message, unordered message,
   Close, cwnd-limited gather, refused write, second gather that pops the marker *)
Example c14_example_history : exists e gh,
  rs_grun 1 (rs_ep_init false 4294967295 7) rs_gh0 rs_example_events = Some (e, gh) /\
  rs_g_marks gh = [(3, 4)] /\ rs_g_sent gh = [(2, 1); (0, 2); (1, 3)] /\ rs_g_written gh = [0; 1; 2] /\
  rs_reconfigs e = [mkRsReq 4294967295 3 [1]] /\ rs_pend_u e = [] /\ rs_pend_o e = [].
Proof. exact rs_example_history_ok. Qed.

(* ... and it is a history in the sense of c14_reset_after_data *)
Example c14_example_history_reach : exists e gh,
  rs_reach 1 (rs_ep_init false 4294967295 7) rs_gh0 e gh /\ rs_g_marks gh = [(3, 4)] /\ rs_g_written gh = [0; 1; 2].
Proof. exact rs_example_history_reach. Qed.
