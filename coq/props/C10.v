(* C10 — the sender honours congestion window, peer receive window and MTU.
   Model: coq/model/Sender.v (association.go: handleSack/processSelectiveAck/processFastRetransmission,
   popPendingDataChunksToSend admission, T3 expiry) + generated maxPayloadSizeForMTU.
   Only statements closed by [exact] + Print Assumptions. *)
From Coq Require Import ZArith Bool List.
From Sctp Require Import Gen SnaProofs Sender SenderProofs SenderGrowth.
Import ListNotations.
Open Scope Z_scope.

(* For every history of accepted/rejected/stale SACKs with arbitrary contents, T3 expiries, writes and
   gathers (starting in any state satisfying the invariant), every chunk any gather moves to the wire for
   the first time is either admitted by the windows — and then the outstanding user bytes after it are
   within cwnd and within the receive window the peer advertised most recently (g_A) — or it is the
   window probe, sent when nothing at all is in flight. *)
Theorem c10_new_data_within_windows : forall evs sg chunks tsn,
  SInv sg -> srun_ok sg (evs ++ [EvGather chunks tsn]) ->
  exists s g, srun sg evs = Some (s, g) /\
  forall out rw ninfl k, In (out, rw, ninfl, k) (gather_obs s chunks tsn false) ->
    (k = AdmitWindow /\ out <= st_cwnd s /\ out <= g_A g) \/ (k = AdmitProbe /\ ninfl = 0).
Proof. exact window_respected. Qed.
Print Assumptions c10_new_data_within_windows.

(* the probe is only ever the first and only chunk of a gather *)
Theorem c10_probe_is_alone : forall s n moved,
  admit_new s n moved = AdmitProbe -> moved = false /\ st_infl s = [].
Proof. exact admit_probe_only_when_empty. Qed.
Print Assumptions c10_probe_is_alone.

(* gather_new (what the correspondence check replays) accepts exactly the chunks gather_obs describes *)
Theorem c10_gather_accepts_only_admitted : forall chunks s tsn moved s',
  gather_new s chunks tsn moved = Some s' -> length (gather_obs s chunks tsn moved) = length chunks.
Proof. exact gather_new_some_all_admitted. Qed.
Print Assumptions c10_gather_accepts_only_admitted.

(* T3 expiry: cwnd <- max(MTU, MinCwnd), ssthresh <- max(cwnd/2, 4 MTU); never an increase, never below one MTU *)
Theorem c10_t3_cut : forall s, 0 < st_mtu s < 1073741824 -> st_mtu s <= st_cwnd s -> st_mincwnd s <= st_cwnd s ->
  st_cwnd (t3_step s) <= st_cwnd s /\ st_mtu s <= st_cwnd (t3_step s).
Proof. exact t3_is_a_cut. Qed.
Print Assumptions c10_t3_cut.

Theorem c10_t3_values : forall s, 0 < st_mtu s < 1073741824 ->
  st_cwnd (t3_step s) = Z.max (st_mtu s) (st_mincwnd s) /\
  st_ssthresh (t3_step s) = Z.max (st_cwnd s / 2) (4 * st_mtu s).
Proof. exact t3_cwnd. Qed.
Print Assumptions c10_t3_values.

(* through any SACK (growth, fast-recovery entry included) cwnd stays >= MTU and >= MinCwnd *)
Theorem c10_cwnd_floor_sack : forall s cum arwnd gaps s',
  sack_step s cum arwnd gaps = SOk s' ->
  0 <= st_cwnd s < 2147483648 -> 0 <= st_castep s < 2147483648 -> 0 < st_mtu s < 1073741824 ->
  floor_ok s -> floor_ok s'.
Proof. exact sack_step_floor. Qed.
Print Assumptions c10_cwnd_floor_sack.

Theorem c10_cwnd_floor_init : forall mtu mincwnd, 0 < mtu < 1073741824 ->
  mtu <= init_cwnd mtu mincwnd /\ mincwnd <= init_cwnd mtu mincwnd.
Proof. exact init_cwnd_floor. Qed.
Print Assumptions c10_cwnd_floor_init.

(* ... and on a loss detected by RACK (on a SACK or by the RACK timer), after fix (D26): outside fast recovery
   cwnd and ssthresh drop to max(cwnd/2, 4*MTU) (cwnd never below the configured minimum), partial_bytes_acked is
   cleared and fast recovery is entered, once per window of data *)
Theorem c10_rack_loss_is_a_cut : forall s, 0 < st_mtu s < 1073741824 ->
  (st_infr s = true -> rack_cut s = s) /\
  (st_infr s = false ->
     st_infr (rack_cut s) = true /\ st_pba (rack_cut s) = 0 /\
     st_ssthresh (rack_cut s) = Z.max (st_cwnd s / 2) (4 * st_mtu s) /\
     st_cwnd (rack_cut s) = Z.max (Z.max (st_cwnd s / 2) (4 * st_mtu s)) (st_mincwnd s) /\
     st_mtu s <= st_cwnd (rack_cut s) /\ st_mincwnd s <= st_cwnd (rack_cut s) /\
     (4 * st_mtu s <= st_cwnd s -> st_mincwnd s <= st_cwnd s -> st_cwnd (rack_cut s) <= st_cwnd s)).
Proof. exact rack_cut_spec. Qed.
Print Assumptions c10_rack_loss_is_a_cut.

(* growth law (what makes "within its congestion window" meaningful): a SACK raises cwnd only when the cumulative
   ack point advances and data is waiting, by at most cwnd itself in slow start and by at most max(MTU, cwndCAStep)
   in congestion avoidance; the only other upward move is the RFC 4960 7.2.3 value 4*MTU on entry into fast recovery *)
Theorem c10_cwnd_growth_law : forall s cum arwnd gaps s',
  sack_step s cum arwnd gaps = SOk s' ->
  0 <= st_cwnd s < 2147483648 -> 0 <= st_castep s < 2147483648 -> 0 < st_mtu s < 1073741824 -> floor_ok s ->
  (sna32LT (st_cum s) cum = false -> st_cwnd s' <= Z.max (st_cwnd s) (4 * st_mtu s)) /\
  (st_pendn s <= 0 -> st_cwnd s' <= Z.max (st_cwnd s) (4 * st_mtu s)) /\
  (st_cwnd s <= st_ssthresh s -> st_cwnd s' <= Z.max (2 * st_cwnd s) (4 * st_mtu s)) /\
  (st_ssthresh s < st_cwnd s -> st_cwnd s' <= Z.max (st_cwnd s + Z.max (st_mtu s) (st_castep s)) (4 * st_mtu s)).
Proof. exact sack_step_growth. Qed.
Print Assumptions c10_cwnd_growth_law.

(* non-vacuity: slow start grows by the 1000 bytes newly acknowledged; congestion avoidance by one MTU once
   partial_bytes_acked reaches cwnd; a SACK that does not advance the ack point leaves cwnd alone *)
Example c10_growth_example :
  let ss := mkS c_established 99 100 [mkSC 1 1000 false false 0 false] 1000 4380 100000 100000 0 false 0 false 1200 0 0 1 500 [(1, 1500)] in
  let ca := mkS c_established 99 100 [mkSC 1 1000 false false 0 false] 1000 4380 2000 2000 3500 false 0 false 1200 0 0 1 500 [(1, 1500)] in
  match sack_step ss 100 90000 [], sack_step ca 100 90000 [], sack_step ss 99 90000 [] with
  | SOk a, SOk b, SOk c => st_cwnd a = 5380 /\ st_cwnd b = 5580 /\ st_pba b = 120 /\ st_cwnd c = 4380
  | _, _, _ => False
  end.
Proof. vm_compute. repeat split; reflexivity. Qed.

(* fragments are at most maxPayloadSizeForMTU, and a packet with one such DATA chunk fits the MTU
   (generated definitions: association.go maxPayloadSizeForMTU) *)
Theorem c10_fragment_fits_mtu : forall mtu il, in32 mtu ->
  let p := maxPayloadSizeForMTU mtu il in
  0 <= p /\ p mod 4 = 0 /\ (p > 0 -> c_commonHeaderSize + payloadDataChunkHeaderSize il + p <= mtu).
Proof. exact maxPayloadSizeForMTU_fits. Qed.
Print Assumptions c10_fragment_fits_mtu.

(* the stale-window history found by the machinery (D19) is refused after fix b8dfdc0 *)
Theorem c10_stale_probe_now_refused :
  exists s1, gather_new stale_probe_witness [(1, 1100)] 100 false = Some s1 /\
             st_rwnd s1 = 0 /\ admit_new s1 100 false = AdmitNo.
Proof. exact stale_probe_now_refused. Qed.
Print Assumptions c10_stale_probe_now_refused.

(* non-vacuity: a concrete history (write, gather, SACK with a gap, T3) satisfies the hypotheses *)
Example c10_example_history :
  let s0 := mkS c_established 99 0 [] 0 4380 100000 100000 0 false 0 false 1200 0 0 0 0 [(1, 0); (2, 0)] in
  let g0 := mkSG [] 100000 in
  let evs := [EvWrite 1 [1000; 1000; 500]; EvGather [(1, 1000); (1, 1000); (1, 500)] 100;
              EvSack 100 90000 [(2, 2)]; EvT3; EvWrite 2 [200]] in
  srun_ok (s0, g0) (evs ++ [EvGather [(2, 200)] 103]) /\
  match srun (s0, g0) evs with
  | Some (s, g) => st_nbytes s = 1000 /\ st_rwnd s = 89000 /\ st_cwnd s = 1200 /\ g_A g = 90000 /\
                   lookup (st_buffered s) 1 = 1000 /\ lookup (st_buffered s) 2 = 200
  | None => False
  end.
Proof. vm_compute. intuition (try discriminate; try reflexivity; repeat constructor). Qed.
