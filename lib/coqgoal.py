#!/usr/bin/env python3
"""coqgoal.py <file.v (relative to /verif/coq)> <line> [chars]  -- show the proof state just before <line>."""
import sys, subprocess, os, tempfile
f, line = sys.argv[1], int(sys.argv[2])
n = int(sys.argv[3]) if len(sys.argv) > 3 else 3000
lines = open(os.path.join('/verif/coq', f) if not os.path.isabs(f) else f).read().split('\n')
d = tempfile.mkdtemp(prefix='coqgoal-')
tmp = os.path.join(d, 'Goal_tmp.v')
open(tmp, 'w').write('\n'.join(lines[:line - 1]) + '\nShow.\n')
p = subprocess.run(['timeout', '600', 'coqc', '-Q', 'gen', 'Sctp', '-Q', 'model', 'Sctp', '-Q', 'proofs', 'Sctp', '-Q', 'props', 'Sctp', tmp],
                   capture_output=True, text=True, cwd='/verif/coq')
print((p.stdout + p.stderr)[-n:])
import shutil; shutil.rmtree(d, ignore_errors=True)
