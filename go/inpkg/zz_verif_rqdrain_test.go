package sctp

// C11, association level: "returns to the full buffer size once the application has read everything,
// whatever mixture of duplicates, reordering, abandoned fragments ... occurred" and "never stores data
// whose sequence number lies beyond a fixed window above its cumulative point".
//
// A bare established association is fed, through handleChunk, the traffic of a well-behaved partially
// reliable sender (messages with consecutive TSNs, fragments, ordered and unordered, DATA or I-DATA) in
// any order with losses and duplicates, FORWARD-TSN / I-FORWARD-TSN chunks built as that sender would
// build them (new cumulative point at a message boundary, one entry per stream with an abandoned
// message), plus DATA from a hostile peer anywhere in the TSN space.  The local side of every stream
// keeps its default (ordered) send setting or sets unordered: the receive path must not depend on it.
// At the end the sender abandons whatever is still missing, the application reads everything readable,
// and the advertised window must be the whole buffer again with nothing held.

import (
	"fmt"
	"math/rand"
	"sort"
	"strings"
	"testing"
)

type drMsg struct {
	si        uint16
	ssn       uint16
	mid       uint32
	unordered bool
	frags     []*chunkPayloadData
	got       []bool
}

func (m *drMsg) complete() bool {
	for _, g := range m.got {
		if !g {
			return false
		}
	}
	return true
}

func (m *drMsg) last() uint32 { return m.frags[len(m.frags)-1].tsn }

func TestVerifRQDrain(t *testing.T) {
	seed := verifEnvInt("VERIF_SEED", 1)
	nCases := int(verifEnvInt("VERIF_N", 300))
	nOps := int(verifEnvInt("VERIF_OPS", 200))
	rng := rand.New(rand.NewSource(seed + 29))
	fails := 0
	seen := map[string]int{}
	fail := func(key, format string, a ...any) {
		fails++
		seen[key]++
		if seen[key] <= 3 {
			fmt.Printf("RQDRAIN %s seed=%d %s\n", key, seed, fmt.Sprintf(format, a...))
		}
	}
	var nFwd, nHostile, nStoredHostile, nReads, nAbandoned, nPartialAbandoned, nUnorderedAbandoned, nWrapCases, nUpperHalf, nTainted int
	for cse := 0; cse < nCases; cse++ {
		buf := []uint32{200, 1500, 4096, 1 << 20}[rng.Intn(4)]
		idata := rng.Intn(2) == 0
		var peerTSN uint32
		switch rng.Intn(4) {
		case 0:
			peerTSN = rqNear32(rng, 60)
		case 1:
			peerTSN = 0x80000000 + uint32(rng.Intn(1<<31-100000)) // upper half: cum + window does not wrap, far TSNs do
			nUpperHalf++
		case 2:
			peerTSN = uint32(0) - uint32(rng.Intn(3000)+1)
		default:
			peerTSN = rng.Uint32()
		}
		if peerTSN > 0xffffff00 || peerTSN < 100 {
			nWrapCases++
		}
		a := rqBareAssoc(buf, idata, peerTSN)
		a.lock.Lock()
		a.useIForwardTSN = idata
		a.useForwardTSN = !idata
		a.lock.Unlock()
		setUnorderedLocally := rng.Intn(3) == 0
		all := []*Stream{}
		drain := func() {
			for {
				select {
				case s := <-a.acceptCh:
					if setUnorderedLocally {
						s.SetReliabilityParams(true, ReliabilityTypeReliable, 0)
					}
					all = append(all, s)
				default:
					return
				}
			}
		}
		heldNow := func() (bytes, chunks int) {
			for _, s := range all {
				b, c := rqStreamHeld(s)
				bytes += b
				chunks += c
			}
			return
		}
		// the sender's messages
		nStreams := []int{1, 2, 3, 6, 12}[rng.Intn(5)]
		ssn := make([]uint16, nStreams)
		mid := make([]uint32, nStreams)
		umid := make([]uint32, nStreams)
		var msgs []*drMsg
		tsn := peerTSN
		pUnordered := []int{0, 20, 50, 100}[rng.Intn(4)]
		for m := 0; m < 50; m++ {
			si := rng.Intn(nStreams)
			nf := 1 + rng.Intn(4)
			unordered := rng.Intn(100) < pUnordered
			dm := &drMsg{si: uint16(si), unordered: unordered}
			if idata {
				if unordered {
					dm.mid = umid[si]
					umid[si]++
				} else {
					dm.mid = mid[si]
					mid[si]++
				}
			} else if !unordered {
				dm.ssn = ssn[si]
				ssn[si]++
			}
			for f := 0; f < nf; f++ {
				n := 1 + rng.Intn(40)
				if rng.Intn(6) == 0 {
					n = int(buf)/5 + 1
				}
				c := &chunkPayloadData{tsn: tsn, streamIdentifier: uint16(si), unordered: unordered,
					beginningFragment: f == 0, endingFragment: f == nf-1, payloadType: PayloadTypeWebRTCBinary,
					userData: make([]byte, n), iData: idata, streamSequenceNumber: dm.ssn,
					messageIdentifier: dm.mid, fragmentSequenceNumber: uint32(f)}
				if idata {
					c.typ = ctIData
					c.streamSequenceNumber = uint16(dm.mid)
				}
				tsn++
				dm.frags = append(dm.frags, c)
				dm.got = append(dm.got, false)
			}
			msgs = append(msgs, dm)
		}
		script := []string{fmt.Sprintf("buf=%d idata=%v peerTSN=%d localUnordered=%v", buf, idata, peerTSN, setUnorderedLocally)}
		log := func(format string, x ...any) { script = append(script, fmt.Sprintf(format, x...)) }
		done := 0 // messages [0, done) are below the sender's forward point or fully acknowledged in order
		released := 2
		tainted := false // a skip named a stream the receiver had not created yet (finding fwd-skip-for-unknown-stream)
		forwardTo := func(j int) {
			// the sender abandons every incomplete message up to and including j
			T := msgs[j].last()
			a.lock.RLock()
			cum := a.peerLastTSN()
			a.lock.RUnlock()
			if !sna32GT(T, cum) {
				return
			}
			type key struct {
				si uint16
				u  bool
			}
			ord := map[uint16]uint16{}
			hasOrd := map[uint16]bool{}
			mids := map[key]uint32{}
			hasMid := map[key]bool{}
			for i := 0; i <= j; i++ {
				m := msgs[i]
				if m.complete() || !sna32GT(m.last(), cum) {
					continue
				}
				nAbandoned++
				partial := false
				for _, g := range m.got {
					partial = partial || g
				}
				if partial {
					nPartialAbandoned++
				}
				if m.unordered {
					nUnorderedAbandoned++
				}
				if idata {
					k := key{m.si, m.unordered}
					if !hasMid[k] || sna32GT(m.mid, mids[k]) {
						mids[k], hasMid[k] = m.mid, true
					}
				} else if !m.unordered {
					if !hasOrd[m.si] || sna16GT(m.ssn, ord[m.si]) {
						ord[m.si], hasOrd[m.si] = m.ssn, true
					}
				}
				for f := range m.got {
					m.got[f] = true // never (re)sent again: later copies are below the cumulative point
				}
			}
			nFwd++
			a.lock.RLock()
			for si := range ord {
				if _, ok := a.streams[si]; !ok {
					tainted = true
				}
			}
			for k := range mids {
				if _, ok := a.streams[k.si]; !ok {
					tainted = true
				}
			}
			a.lock.RUnlock()
			if idata {
				fw := &chunkIForwardTSN{newCumulativeTSN: T}
				keys := []key{}
				for k := range mids {
					keys = append(keys, k)
				}
				sort.Slice(keys, func(x, y int) bool {
					if keys[x].si != keys[y].si {
						return keys[x].si < keys[y].si
					}
					return !keys[x].u && keys[y].u
				})
				for _, k := range keys {
					fw.streams = append(fw.streams, chunkIForwardTSNStream{identifier: k.si, unordered: k.u, messageIdentifier: mids[k]})
				}
				log("i-forward T=%d %v", T, fw.streams)
				_ = a.handleChunk(nil, fw)
			} else {
				fw := &chunkForwardTSN{newCumulativeTSN: T}
				sis := []int{}
				for si := range ord {
					sis = append(sis, int(si))
				}
				sort.Ints(sis)
				for _, si := range sis {
					fw.streams = append(fw.streams, chunkForwardTSNStream{identifier: uint16(si), sequence: ord[uint16(si)]})
				}
				log("forward T=%d %v", T, fw.streams)
				_ = a.handleChunk(nil, fw)
			}
			if j+1 > done {
				done = j + 1
			}
			drain()
		}
		readAll := func() {
			drain()
			for _, s := range all {
				for i := 0; i < 200; i++ {
					s.lock.RLock()
					readable := s.reassemblyQueue.isReadable()
					s.lock.RUnlock()
					if !readable {
						break
					}
					b := make([]byte, 1<<21)
					_, _, _ = s.ReadSCTP(b)
					nReads++
				}
			}
		}
		for i := 0; i < nOps; i++ {
			if released < len(msgs) && rng.Intn(3) == 0 {
				released++
			}
			r := rng.Intn(100)
			switch {
			case r < 62:
				lo := max(0, released-8)
				m := msgs[lo+rng.Intn(released-lo)]
				f := rng.Intn(len(m.frags))
				c := rqClone(m.frags[f])
				log("data tsn=%d si=%d u=%v f=%d/%d len=%d", c.tsn, c.streamIdentifier, c.unordered, f, len(m.frags), len(c.userData))
				a.lock.RLock()
				cum, maxOff := a.payloadQueue.getcumulativeTSN(), a.payloadQueue.maxTSNOffset
				a.lock.RUnlock()
				drain()
				_, before := heldNow()
				_ = a.handleChunk(nil, c)
				drain()
				_, after := heldNow()
				if after > before {
					m.got[f] = true
					if !(sna32GT(c.tsn, cum) && sna32LTE(c.tsn, cum+maxOff)) {
						fail("stored-outside-tsn-window", "tsn=%d cum=%d maxoff=%d", c.tsn, cum, maxOff)
					}
				}
			case r < 72:
				// hostile DATA anywhere in the number space, on an existing stream, B+E, plausible SSN
				a.lock.RLock()
				cum, maxOff := a.payloadQueue.getcumulativeTSN(), a.payloadQueue.maxTSNOffset
				a.lock.RUnlock()
				var ht uint32
				switch rng.Intn(6) {
				case 0:
					ht = cum + maxOff + 1 + uint32(rng.Intn(8))
				case 1:
					ht = cum + 0x80000000 - 4 + uint32(rng.Intn(8))
				case 2:
					ht = rng.Uint32()
				case 3:
					ht = uint32(rng.Intn(1 << 20)) // numerically small
				case 4:
					ht = uint32(0) - uint32(rng.Intn(1<<20)+1) // numerically large
				default:
					ht = cum - uint32(rng.Intn(5000))
				}
				if sna32GT(ht, cum) && sna32LTE(ht, cum+maxOff) {
					continue // inside the window: would be the sender's own TSN space
				}
				nHostile++
				c := &chunkPayloadData{tsn: ht, streamIdentifier: uint16(rng.Intn(nStreams)), unordered: rng.Intn(2) == 0,
					beginningFragment: true, endingFragment: rng.Intn(2) == 0, payloadType: PayloadTypeWebRTCBinary,
					userData: make([]byte, 1+rng.Intn(30)), iData: idata, streamSequenceNumber: uint16(rng.Intn(3)),
					messageIdentifier: uint32(1000 + rng.Intn(3))}
				if idata {
					c.typ = ctIData
				}
				drain()
				_, before := heldNow()
				_ = a.handleChunk(nil, c)
				drain()
				_, after := heldNow()
				log("hostile tsn=%d (cum=%d)", ht, cum)
				if after > before {
					nStoredHostile++
					fail("stored-outside-tsn-window", "hostile DATA tsn=%d stored although cum=%d maxoff=%d (window is cum+1..cum+maxoff) script=[%s]",
						ht, cum, maxOff, strings.Join(script[max(0, len(script)-4):], " | "))
				}
			case r < 87:
				drain()
				if len(all) == 0 {
					continue
				}
				s := all[rng.Intn(len(all))]
				s.lock.RLock()
				readable := s.reassemblyQueue.isReadable()
				s.lock.RUnlock()
				if readable {
					b := make([]byte, []int{1, 16, 1 << 21}[rng.Intn(3)])
					n, _, err := s.ReadSCTP(b)
					nReads++
					log("read si=%d buf=%d -> n=%d err=%v", s.streamIdentifier, len(b), n, err)
				}
			default:
				if released > done {
					forwardTo(done + rng.Intn(released-done))
				}
			}
			if seen["stored-outside-tsn-window"] > 0 && fails > 20 {
				break
			}
		}
		// end: whatever is still missing is abandoned, the application reads everything
		forwardTo(len(msgs) - 1)
		readAll()
		heldB, heldC := heldNow()
		a.lock.RLock()
		rwnd := a.getMyReceiverWindowCredit()
		a.lock.RUnlock()
		if heldB != 0 || heldC != 0 || rwnd != buf {
			detail := []string{}
			for _, s := range all {
				for _, h := range rqHeldChunks(s.reassemblyQueue) {
					detail = append(detail, fmt.Sprintf("si=%d tsn=%d u=%v ssn=%d mid=%d B=%v E=%v len=%d", s.streamIdentifier, h.c.tsn,
						h.c.unordered, h.c.streamSequenceNumber, h.c.messageIdentifier, h.c.beginningFragment, h.c.endingFragment, len(h.c.userData)))
					if len(detail) >= 4 {
						break
					}
				}
			}
			if tainted {
				nTainted++
				fail("fwd-skip-for-unknown-stream", "after the sender abandoned everything outstanding and the application read everything: a_rwnd=%d buffer=%d held=%d bytes in %d chunks [%s]; a skip had named a stream the receiver had not created yet script-head=[%s]",
					rwnd, buf, heldB, heldC, strings.Join(detail, "; "), strings.Join(script[:min(len(script), 6)], " | "))
			} else {
				fail("window-does-not-return-to-full", "after the sender abandoned everything outstanding and the application read everything: a_rwnd=%d buffer=%d held=%d bytes in %d chunks [%s] script-tail=[%s]",
					rwnd, buf, heldB, heldC, strings.Join(detail, "; "), strings.Join(script[max(0, len(script)-10):], " | "))
			}
		}
		_ = a.close()
	}
	fmt.Printf("RQDRAINSUM cases=%d forwards=%d abandoned=%d abandoned_partly_received=%d abandoned_unordered=%d hostile=%d hostile_stored=%d reads=%d near_wrap_cases=%d upper_half_cases=%d tainted_by_unknown_stream_skip=%d failures=%d\n",
		nCases, nFwd, nAbandoned, nPartialAbandoned, nUnorderedAbandoned, nHostile, nStoredHostile, nReads, nWrapCases, nUpperHalf, nTainted, fails)
}
