(* The word-by-word gap scan of getGapAckBlocks (RPQ.gap_blocks_w, a transcription of the Go loop
   with its TSN arithmetic, 16-bit truncations and per-word first-(non)zero-bit searches) computes
   exactly the bit-level specification RPQ.gap_blocks about which C05 is proved, and never runs
   out of the model's fuel.  Two stages: (1) the TSN-level loop is rewritten over offsets from the
   cumulative point (all wrap32 / wrap16 / serial comparisons discharged), (2) the offset-level
   loop is shown equal to the bit-by-bit scan. *)
From Coq Require Import ZArith Znumtheory Bool List Lia.
From Coq Require Import ZifyBool.
From Sctp Require Import Gen SnaProofs RPQ RPQProofs.
Import ListNotations.
Open Scope Z_scope.
Ltac Zify.zify_post_hook ::= Z.div_mod_to_equations.

(* first offset in o, o+1, ... (n of them) whose held-bit equals v *)
Fixpoint first_k (h : Z -> bool) (v : bool) (o : Z) (n : nat) : option Z :=
  match n with
  | O => None
  | S n' => if Bool.eqb (h o) v then Some o else first_k h v (o + 1) n'
  end.

Lemma first_k_spec h v : forall n o,
  match first_k h v o n with
  | Some o' => o <= o' < o + Z.of_nat n /\ h o' = v /\ forall x, o <= x < o' -> h x = negb v
  | None => forall x, o <= x < o + Z.of_nat n -> h x = negb v
  end.
Proof.
  induction n as [|n IH]; intros o; cbn [first_k].
  - intros x Hx. lia.
  - destruct (Bool.eqb (h o) v) eqn:E.
    + apply eqb_prop in E. split; [lia|]. split; [assumption|]. intros x Hx. lia.
    + apply eqb_false_iff in E. specialize (IH (o + 1)).
      destruct (first_k h v (o + 1) n) as [o'|].
      * destruct IH as (A & B & C). split; [lia|]. split; [assumption|].
        intros x Hx. destruct (Z.eq_dec x o) as [->|]; [|apply C; lia].
        destruct (h o), v; cbn; congruence.
      * intros x Hx. destruct (Z.eq_dec x o) as [->|]; [|apply IH; lia].
        destruct (h o), v; cbn; congruence.
Qed.

(* the Go loop over offsets: o = distance of tsn from the cumulative point, D = distance of the tail *)
Fixpoint gap_loop_o (q : rpq) (D : Z) (fuel : nat) (o : Z) (fe : bool) (st : Z) (acc : list (Z * Z))
  : option (list (Z * Z)) :=
  match fuel with
  | O => None
  | S f =>
      if negb (o <=? D) then Some acc
      else
        let w := 64 - (cum q + o) mod 64 in
        if negb fe then
          match first_k (held_off q) true o (Z.to_nat w) with
          | Some o' => gap_loop_o q D f o' true o' acc
          | None => gap_loop_o q D f (o + w) false st acc
          end
        else
          let '(o1, acc1, fe1) :=
            match first_k (held_off q) false o (Z.to_nat w) with
            | Some o' => (o', (if o' <=? D then acc ++ [(st, o' - 1)] else acc), false)
            | None => (o + w, acc, true)
            end in
          if o1 >? D then Some (acc1 ++ [(st, D)])
          else gap_loop_o q D f o1 fe1 st acc1
  end.

(* ---------- stage 1: TSN arithmetic ---------- *)

Lemma first_bit_offsets q T v : T mod 64 = 0 -> forall n off o,
  0 <= off -> off + Z.of_nat n <= 64 -> wrap32 (cum q + o) = T + off ->
  first_bit (bits q) ((T / 64) mod nwords q) v off n =
  match first_k (held_off q) v o n with Some o' => Some (off + (o' - o)) | None => None end.
Proof.
  intros HT. induction n as [|n IH]; intros off o H0 H1 Hw; cbn [first_bit first_k]; [reflexivity|].
  assert (Hm : memz ((T / 64) mod nwords q * 64 + off) (bits q) = held_off q o).
  { unfold held_off. f_equal. unfold pos. rewrite Hw.
    replace ((T + off) / 64) with (T / 64) by lia. replace ((T + off) mod 64) with off by lia. reflexivity. }
  rewrite Hm. destruct (Bool.eqb (held_off q o) v).
  - f_equal. lia.
  - destruct n as [|m]; [reflexivity|].
    rewrite (IH (off + 1) (o + 1)); [| lia | lia |].
    + destruct (first_k (held_off q) v (o + 1) (S m)); [f_equal; lia|reflexivity].
    + unfold wrap32 in *. lia.
Qed.

Lemma word_find_offsets q o v :
  let t := wrap32 (cum q + o) in
  word_find q t v =
  match first_k (held_off q) v o (Z.to_nat (64 - t mod 64)) with
  | Some o' => Some (t mod 64 + (o' - o)) | None => None end.
Proof.
  intros t. unfold word_find.
  replace (t / 64) with ((t - t mod 64) / 64) by lia.
  apply first_bit_offsets; unfold t, wrap32; lia.
Qed.

Section Stage1.
  Variable q : rpq.
  Hypothesis I : Inv q.
  Hypothesis Hsmall : max_off q <= 65000.
  Let D := dist (cum q) (tail q).

  Lemma D_small : 0 <= D <= 65000.
  Proof. pose proof (inv_dist q I). pose proof (dist_range (cum q) (tail q)). unfold D. lia. Qed.

  Lemma tail_is : tail q = wrap32 (cum q + D).
  Proof. unfold D. symmetry. apply wrap_dist; apply I. Qed.

  Lemma lte_tail_o x : 0 <= x <= D + 1000 -> sna32LTE (wrap32 (cum q + x)) (tail q) = (x <=? D).
  Proof.
    intros Hx. pose proof D_small. pose proof (inv_cum q I) as Hc.
    apply eq_true_iff_eq. rewrite sna32LTE_spec; [| unfold in32, wrap32; lia | apply I].
    rewrite tail_is. unfold in32, wrap32 in *. lia.
  Qed.

  Lemma gt_tail_o x : 0 <= x <= D + 1000 -> sna32GT (wrap32 (cum q + x)) (tail q) = (x >? D).
  Proof.
    intros Hx. pose proof D_small. pose proof (inv_cum q I) as Hc.
    apply eq_true_iff_eq. rewrite sna32GT_spec; [| unfold in32, wrap32; lia | apply I].
    rewrite tail_is. unfold in32, wrap32 in *. lia.
  Qed.

  Lemma step_tsn o k : 0 <= k < 4294967296 ->
    wrap32 (wrap32 (cum q + o) + wrap32 k) = wrap32 (cum q + (o + k)).
  Proof. intros. unfold wrap32. lia. Qed.

  Lemma off16 x : 0 <= x <= 65535 -> wrap16 (wrap32 (wrap32 (cum q + x) - cum q)) = x.
  Proof. intros. pose proof (inv_cum q I) as Hc. unfold in32, wrap16, wrap32 in *. lia. Qed.

  Lemma off16m x : 1 <= x <= 65535 -> wrap16 (wrap32 (wrap32 (wrap32 (cum q + x) - 1) - cum q)) = x - 1.
  Proof. intros. pose proof (inv_cum q I) as Hc. unfold in32, wrap16, wrap32 in *. lia. Qed.

  Lemma tail16 : wrap16 (wrap32 (tail q - cum q)) = D.
  Proof. pose proof D_small. unfold D, dist, M32, wrap16, wrap32 in *. lia. Qed.

  Lemma gap_loop_refines : forall fuel o fe st acc,
    1 <= o <= D + 64 ->
    gap_loop q fuel (wrap32 (cum q + o)) fe st acc = gap_loop_o q D fuel o fe st acc.
  Proof.
    pose proof D_small as HD.
    induction fuel as [|f IH]; intros o fe st acc Ho; cbn [gap_loop gap_loop_o]; [reflexivity|].
    rewrite lte_tail_o by lia.
    destruct (o <=? D) eqn:EoD; cbn [negb]; [|reflexivity].
    apply Z.leb_le in EoD.
    set (t := wrap32 (cum q + o)).
    assert (Hoff : t mod 64 = (cum q + o) mod 64) by (unfold t, wrap32; lia).
    assert (Hoffr : 0 <= t mod 64 < 64) by lia.
    destruct fe; cbn [negb].
    - (* looking for the end of a block *)
      unfold t at 1. rewrite word_find_offsets. fold t. rewrite Hoff.
      pose proof (first_k_spec (held_off q) false (Z.to_nat (64 - (cum q + o) mod 64)) o) as FS.
      destruct (first_k (held_off q) false o (Z.to_nat (64 - (cum q + o) mod 64))) as [o'|].
      + destruct FS as (F1 & _ & _).
        replace ((cum q + o) mod 64 + (o' - o) - (cum q + o) mod 64) with (o' - o) by lia.
        unfold t. rewrite step_tsn by lia. replace (o + (o' - o)) with o' by lia.
        rewrite off16m by lia. rewrite lte_tail_o by lia. rewrite gt_tail_o by lia.
        destruct (o' >? D) eqn:E2.
        * rewrite tail16. reflexivity.
        * apply IH. lia.
      + unfold t. rewrite step_tsn by lia. rewrite gt_tail_o by lia.
        destruct (o + (64 - (cum q + o) mod 64) >? D) eqn:E2.
        * rewrite tail16. reflexivity.
        * apply IH. lia.
    - (* looking for the start of a block *)
      unfold t at 1. rewrite word_find_offsets. fold t. rewrite Hoff.
      pose proof (first_k_spec (held_off q) true (Z.to_nat (64 - (cum q + o) mod 64)) o) as FS.
      destruct (first_k (held_off q) true o (Z.to_nat (64 - (cum q + o) mod 64))) as [o'|].
      + destruct FS as (F1 & _ & _).
        replace ((cum q + o) mod 64 + (o' - o) - (cum q + o) mod 64) with (o' - o) by lia.
        unfold t. rewrite step_tsn by lia. replace (o + (o' - o)) with o' by lia.
        rewrite off16 by lia. apply IH. lia.
      + unfold t. rewrite step_tsn by lia. apply IH. lia.
  Qed.
End Stage1.

(* ---------- stage 2: the offset loop is the bit-by-bit scan ---------- *)

Lemma scan_skip_false q : forall k n o,
  (forall x, o <= x < o + Z.of_nat k -> held_off q x = false) ->
  gap_scan q o (k + n) None = gap_scan q (o + Z.of_nat k) n None.
Proof.
  induction k as [|k IH]; intros n o H.
  - cbn [plus]. f_equal. lia.
  - cbn [plus gap_scan]. rewrite (H o) by lia. rewrite IH.
    + f_equal. lia.
    + intros x Hx. apply H. lia.
Qed.

Lemma scan_skip_true q s : forall k n o,
  (forall x, o <= x < o + Z.of_nat k -> held_off q x = true) ->
  gap_scan q o (k + n) (Some s) = gap_scan q (o + Z.of_nat k) n (Some s).
Proof.
  induction k as [|k IH]; intros n o H.
  - cbn [plus]. f_equal. lia.
  - cbn [plus gap_scan]. rewrite (H o) by lia. rewrite IH.
    + f_equal. lia.
    + intros x Hx. apply H. lia.
Qed.

Lemma scan_start_here q o n : held_off q o = true ->
  gap_scan q o (S n) None = gap_scan q o (S n) (Some o).
Proof. intros H. cbn [gap_scan]. rewrite H. reflexivity. Qed.

Definition bonus (q : rpq) (o : Z) (fe : bool) : Z := if xorb fe (held_off q o) then 1 else 0.

Lemma gap_loop_o_scan q D : held_off q D = true ->
  forall fuel o fe st acc,
  1 <= o <= D ->
  2 * (D + 1 - o) + bonus q o fe < Z.of_nat fuel ->
  gap_loop_o q D fuel o fe st acc =
  Some (acc ++ gap_scan q o (Z.to_nat (D + 1 - o)) (if fe then Some st else None)).
Proof.
  intros HD. induction fuel as [|f IH]; intros o fe st acc Ho Hf.
  { unfold bonus in Hf. destruct (xorb fe (held_off q o)); lia. }
  cbn [gap_loop_o].
  replace (o <=? D) with true by lia. cbn [negb].
  set (w := 64 - (cum q + o) mod 64). assert (Hw : 1 <= w <= 64) by (unfold w; lia).
  destruct fe; cbn [negb].
  - pose proof (first_k_spec (held_off q) false (Z.to_nat w) o) as FS.
    destruct (first_k (held_off q) false o (Z.to_nat w)) as [o'|].
    + destruct FS as (F1 & F2 & F3). cbn [negb] in F3.
      destruct (o' <=? D) eqn:E1.
      * apply Z.leb_le in E1. replace (o' >? D) with false by lia.
        rewrite IH; [| lia |].
        -- f_equal. rewrite <- app_assoc. f_equal.
           replace (Z.to_nat (D + 1 - o)) with (Z.to_nat (o' - o) + Z.to_nat (D + 1 - o'))%nat by lia.
           rewrite scan_skip_true by (intros x Hx; apply F3; lia).
           replace (o + Z.of_nat (Z.to_nat (o' - o))) with o' by lia.
           replace (Z.to_nat (D + 1 - o')) with (S (Z.to_nat (D - o'))) by lia.
           cbn [gap_scan app]. rewrite F2. reflexivity.
        -- unfold bonus in *. rewrite F2. cbn [xorb].
           destruct (held_off q o) eqn:EH; cbn [xorb] in Hf.
           ++ assert (o' <> o) by (intros ->; congruence). lia.
           ++ lia.
      * apply Z.leb_gt in E1. replace (o' >? D) with true by lia.
        f_equal. f_equal.
        replace (Z.to_nat (D + 1 - o)) with (Z.to_nat (D + 1 - o) + 0)%nat by lia.
        rewrite scan_skip_true by (intros x Hx; apply F3; lia).
        cbn [gap_scan]. f_equal. f_equal. lia.
    + cbn [negb] in FS.
      destruct (o + w >? D) eqn:E1.
      * f_equal. f_equal.
        replace (Z.to_nat (D + 1 - o)) with (Z.to_nat (D + 1 - o) + 0)%nat by lia.
        rewrite scan_skip_true by (intros x Hx; apply FS; lia).
        cbn [gap_scan]. f_equal. f_equal. lia.
      * rewrite IH; [| lia |].
        -- f_equal. f_equal.
           replace (Z.to_nat (D + 1 - o)) with (Z.to_nat w + Z.to_nat (D + 1 - (o + w)))%nat by lia.
           rewrite scan_skip_true by (intros x Hx; apply FS; lia).
           f_equal. lia.
        -- unfold bonus in *. destruct (xorb true (held_off q (o + w))), (xorb true (held_off q o)); lia.
  - pose proof (first_k_spec (held_off q) true (Z.to_nat w) o) as FS.
    destruct (first_k (held_off q) true o (Z.to_nat w)) as [o'|].
    + destruct FS as (F1 & F2 & F3). cbn [negb] in F3.
      assert (Ho' : o' <= D).
      { destruct (Z_le_gt_dec o' D) as [|G]; [assumption|].
        rewrite (F3 D) in HD by lia. discriminate. }
      rewrite IH; [| lia |].
      * f_equal. f_equal.
        replace (Z.to_nat (D + 1 - o)) with (Z.to_nat (o' - o) + Z.to_nat (D + 1 - o'))%nat by lia.
        rewrite scan_skip_false by (intros x Hx; apply F3; lia).
        replace (o + Z.of_nat (Z.to_nat (o' - o))) with o' by lia.
        replace (Z.to_nat (D + 1 - o')) with (S (Z.to_nat (D - o'))) by lia.
        symmetry. apply scan_start_here. assumption.
      * unfold bonus in *. rewrite F2. cbn [xorb].
        destruct (Z.eq_dec o' o) as [->|].
        -- rewrite F2 in Hf. cbn [xorb] in Hf. lia.
        -- destruct (xorb false (held_off q o)); lia.
    + cbn [negb] in FS.
      assert (Hnext : o + w <= D).
      { destruct (Z_le_gt_dec (o + w) D) as [|G]; [assumption|].
        rewrite (FS D) in HD by lia. discriminate. }
      rewrite IH; [| lia |].
      * f_equal. f_equal.
        replace (Z.to_nat (D + 1 - o)) with (Z.to_nat w + Z.to_nat (D + 1 - (o + w)))%nat by lia.
        rewrite scan_skip_false by (intros x Hx; apply FS; lia).
        f_equal. lia.
      * unfold bonus in *. destruct (xorb false (held_off q (o + w))), (xorb false (held_off q o)); lia.
Qed.

(* ---------- the word-level scan equals the specification ---------- *)

Theorem gap_blocks_w_correct q : Inv q -> max_off q <= 65000 ->
  gap_blocks_w q = Some (gap_blocks q).
Proof.
  intros I Hs. unfold gap_blocks_w, gap_blocks.
  destruct (size q =? 0) eqn:Es; [reflexivity|].
  apply Z.eqb_neq in Es. pose proof (size_nonneg q I) as Hsz.
  assert (Hh : held q (dist (cum q) (tail q))) by (apply (inv_tail_held q I); lia).
  pose proof (D_small q I Hs) as HD.
  assert (HD1 : 1 <= dist (cum q) (tail q)) by (destruct Hh; lia).
  assert (EW : wrap32 (tail q - cum q) = dist (cum q) (tail q)) by (unfold wrap32, dist, M32; reflexivity).
  rewrite EW.
  rewrite (gap_loop_refines q I Hs) by lia.
  rewrite gap_loop_o_scan.
  - cbn [app]. f_equal. f_equal. lia.
  - apply held_off_held; [assumption|lia|assumption].
  - lia.
  - unfold bonus. destruct (xorb false (held_off q 1)); lia.
Qed.

(* ---------- lifted to every reachable state ---------- *)

Lemma max_off_gstep s e : max_off (fst (gstep s e)) = max_off (fst s).
Proof.
  destruct s as [q g]. destruct e as [k|f|k]; cbn [gstep fst].
  - unfold push. destruct (sna32GT _ _); [reflexivity|]. destruct (_ || _); reflexivity.
  - unfold pop. destruct (has_chunk _ _); [reflexivity|]. destruct f; reflexivity.
  - unfold advance. destruct (negb _); [reflexivity|]. destruct (_ || _); [reflexivity|].
    destruct (clear_range _ _ _ _ _). reflexivity.
Qed.

Lemma max_off_grun : forall evs s, max_off (fst (grun s evs)) = max_off (fst s).
Proof.
  induction evs as [|e es IH]; intros s; cbn [grun fold_left]; [reflexivity|].
  fold (grun (gstep s e) es). rewrite IH. apply max_off_gstep.
Qed.

Lemma word_scan_is_spec m k0 evs :
  0 <= m <= 64936 ->
  run_ok (ginit (rpq_new m) k0) evs ->
  gap_blocks_w (fst (grun (ginit (rpq_new m) k0) evs)) =
  Some (gap_blocks (fst (grun (ginit (rpq_new m) k0) evs))).
Proof.
  intros Hm Hok. destruct (rpq_new_ok m) as (HR & Hoff & Hmo); [lia|].
  destruct (grun_J k0 evs _ (ginit_J _ k0 HR Hoff) Hok) as [Jf _].
  apply gap_blocks_w_correct; [apply Jf|].
  rewrite max_off_grun. cbn [ginit fst rpq_init max_off]. lia.
Qed.
