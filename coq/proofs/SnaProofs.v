(* Serial-number arithmetic laws for the translator-generated definitions. *)
From Coq Require Import ZArith Bool Lia.
From Coq Require Import ZifyBool.
From Sctp Require Import Gen.
Open Scope Z_scope.
Ltac Zify.zify_post_hook ::= Z.div_mod_to_equations.

Definition in32 (x : Z) := 0 <= x < 4294967296.
Definition in16 (x : Z) := 0 <= x < 65536.

(* characterisation: a <s b  iff the forward distance (b-a) mod 2^n is in (0, 2^(n-1)) *)
Lemma sna32LT_spec a b : in32 a -> in32 b ->
  sna32LT a b = true <-> 0 < (b - a) mod 4294967296 < 2147483648.
Proof. unfold in32, sna32LT, wrap32. intros. lia. Qed.

Lemma sna32GT_spec a b : in32 a -> in32 b ->
  sna32GT a b = true <-> 0 < (a - b) mod 4294967296 <= 2147483648.
Proof. unfold in32, sna32GT, wrap32. intros. lia. Qed.

Lemma sna32LTE_spec a b : in32 a -> in32 b ->
  sna32LTE a b = true <-> (b - a) mod 4294967296 < 2147483648.
Proof. unfold in32, sna32LTE, sna32LT, wrap32. intros. lia. Qed.

Lemma sna32GTE_spec a b : in32 a -> in32 b ->
  sna32GTE a b = true <-> (a - b) mod 4294967296 <= 2147483648.
Proof. unfold in32, sna32GTE, sna32GT, wrap32. intros. lia. Qed.

Lemma sna16LT_spec a b : in16 a -> in16 b ->
  sna16LT a b = true <-> 0 < (b - a) mod 65536 < 32768.
Proof. unfold in16, sna16LT, wrap16. intros. lia. Qed.

Lemma sna16GT_spec a b : in16 a -> in16 b ->
  sna16GT a b = true <-> 0 < (a - b) mod 65536 <= 32768.
Proof. unfold in16, sna16GT, wrap16. intros. lia. Qed.

Lemma sna16LTE_spec a b : in16 a -> in16 b ->
  sna16LTE a b = true <-> (b - a) mod 65536 < 32768.
Proof. unfold in16, sna16LTE, sna16LT, wrap16. intros. lia. Qed.

Lemma sna16GTE_spec a b : in16 a -> in16 b ->
  sna16GTE a b = true <-> (a - b) mod 65536 <= 32768.
Proof. unfold in16, sna16GTE, sna16GT, wrap16. intros. lia. Qed.

(* trichotomy: off the antipode exactly one of before / equal / after *)
Definition exactly_one (p q r : bool) : Prop :=
  (p = true /\ q = false /\ r = false) \/ (p = false /\ q = true /\ r = false) \/
  (p = false /\ q = false /\ r = true).

Lemma sna32_trichotomy a b : in32 a -> in32 b ->
  (b - a) mod 4294967296 <> 2147483648 ->
  exactly_one (sna32LT a b) (sna32EQ a b) (sna32GT a b).
Proof. unfold exactly_one, in32, sna32LT, sna32EQ, sna32GT, wrap32. intros. lia. Qed.

Lemma sna16_trichotomy a b : in16 a -> in16 b ->
  (b - a) mod 65536 <> 32768 ->
  exactly_one (sna16LT a b) (sna16EQ a b) (sna16GT a b).
Proof. unfold exactly_one, in16, sna16LT, sna16EQ, sna16GT, wrap16. intros. lia. Qed.

(* at the antipode the code's choice: GT holds both ways, LT neither (documented asymmetry) *)
Lemma sna32_antipode a b : in32 a -> in32 b -> (b - a) mod 4294967296 = 2147483648 ->
  sna32LT a b = false /\ sna32GT a b = true /\ sna32LT b a = false /\ sna32GT b a = true.
Proof. unfold in32, sna32LT, sna32GT, wrap32. intros. lia. Qed.

(* antisymmetry off the antipode: GT is LT flipped *)
Lemma sna32_gt_lt_flip a b : in32 a -> in32 b -> (b - a) mod 4294967296 <> 2147483648 ->
  sna32GT a b = sna32LT b a.
Proof. unfold in32, sna32LT, sna32GT, wrap32. intros. lia. Qed.

Lemma sna16_gt_lt_flip a b : in16 a -> in16 b -> (b - a) mod 65536 <> 32768 ->
  sna16GT a b = sna16LT b a.
Proof. unfold in16, sna16LT, sna16GT, wrap16. intros. lia. Qed.

(* shift invariance: the answer is unchanged when both are shifted by the same amount (with wrap) *)
Lemma mod_shift32 a b k : ((b + k) mod 4294967296 - (a + k) mod 4294967296) mod 4294967296 = (b - a) mod 4294967296.
Proof. lia. Qed.
Lemma mod_shift16 a b k : ((b + k) mod 65536 - (a + k) mod 65536) mod 65536 = (b - a) mod 65536.
Proof. lia. Qed.

Lemma sna32LT_shift a b k : in32 a -> in32 b ->
  sna32LT (wrap32 (a + k)) (wrap32 (b + k)) = sna32LT a b.
Proof.
  intros Ha Hb. apply eq_true_iff_eq.
  rewrite !sna32LT_spec; unfold wrap32, in32 in *; lia.
Qed.

Lemma sna32GT_shift a b k : in32 a -> in32 b ->
  sna32GT (wrap32 (a + k)) (wrap32 (b + k)) = sna32GT a b.
Proof.
  intros Ha Hb. apply eq_true_iff_eq.
  rewrite !sna32GT_spec; unfold wrap32, in32 in *; lia.
Qed.

Lemma sna32LTE_shift a b k : in32 a -> in32 b ->
  sna32LTE (wrap32 (a + k)) (wrap32 (b + k)) = sna32LTE a b.
Proof.
  intros Ha Hb. apply eq_true_iff_eq.
  rewrite !sna32LTE_spec; unfold wrap32, in32 in *; lia.
Qed.

Lemma sna32GTE_shift a b k : in32 a -> in32 b ->
  sna32GTE (wrap32 (a + k)) (wrap32 (b + k)) = sna32GTE a b.
Proof.
  intros Ha Hb. apply eq_true_iff_eq.
  rewrite !sna32GTE_spec; unfold wrap32, in32 in *; lia.
Qed.

Lemma sna32EQ_shift a b k : in32 a -> in32 b ->
  sna32EQ (wrap32 (a + k)) (wrap32 (b + k)) = sna32EQ a b.
Proof. unfold sna32EQ, wrap32, in32. intros. lia. Qed.

Lemma sna16LT_shift a b k : in16 a -> in16 b ->
  sna16LT (wrap16 (a + k)) (wrap16 (b + k)) = sna16LT a b.
Proof.
  intros Ha Hb. apply eq_true_iff_eq.
  rewrite !sna16LT_spec; unfold wrap16, in16 in *; lia.
Qed.

Lemma sna16GT_shift a b k : in16 a -> in16 b ->
  sna16GT (wrap16 (a + k)) (wrap16 (b + k)) = sna16GT a b.
Proof.
  intros Ha Hb. apply eq_true_iff_eq.
  rewrite !sna16GT_spec; unfold wrap16, in16 in *; lia.
Qed.

Lemma sna16LTE_shift a b k : in16 a -> in16 b ->
  sna16LTE (wrap16 (a + k)) (wrap16 (b + k)) = sna16LTE a b.
Proof.
  intros Ha Hb. apply eq_true_iff_eq.
  rewrite !sna16LTE_spec; unfold wrap16, in16 in *; lia.
Qed.

Lemma sna16GTE_shift a b k : in16 a -> in16 b ->
  sna16GTE (wrap16 (a + k)) (wrap16 (b + k)) = sna16GTE a b.
Proof.
  intros Ha Hb. apply eq_true_iff_eq.
  rewrite !sna16GTE_spec; unfold wrap16, in16 in *; lia.
Qed.

Lemma sna16EQ_shift a b k : in16 a -> in16 b ->
  sna16EQ (wrap16 (a + k)) (wrap16 (b + k)) = sna16EQ a b.
Proof. unfold sna16EQ, wrap16, in16. intros. lia. Qed.

(* transitivity within half the space: a <s b, b <s c, total span < 2^31 -> a <s c *)
Lemma sna32LT_trans a b c : in32 a -> in32 b -> in32 c ->
  sna32LT a b = true -> sna32LT b c = true ->
  (b - a) mod 4294967296 + (c - b) mod 4294967296 < 2147483648 ->
  sna32LT a c = true.
Proof.
  intros Ha Hb Hc H1 H2 H3.
  rewrite sna32LT_spec in * by assumption. unfold in32 in *. lia.
Qed.

Lemma sna16LT_trans a b c : in16 a -> in16 b -> in16 c ->
  sna16LT a b = true -> sna16LT b c = true ->
  (b - a) mod 65536 + (c - b) mod 65536 < 32768 ->
  sna16LT a c = true.
Proof.
  intros Ha Hb Hc H1 H2 H3.
  rewrite sna16LT_spec in * by assumption. unfold in16 in *. lia.
Qed.

(* padding and payload-size laws used by C10/C12 *)
Lemma getPadding_spec l : 0 <= l -> 0 <= getPadding l < 4 /\ (l + getPadding l) mod 4 = 0.
Proof. unfold getPadding, c_paddingMultiple. intros. split; lia. Qed.

Lemma maxPayloadSizeForMTU_fits mtu il : in32 mtu ->
  let p := maxPayloadSizeForMTU mtu il in
  0 <= p /\ p mod 4 = 0 /\
  (p > 0 -> c_commonHeaderSize + payloadDataChunkHeaderSize il + p <= mtu).
Proof.
  unfold in32, maxPayloadSizeForMTU, payloadDataChunkHeaderSize, wrap32,
    c_commonHeaderSize, c_iDataChunkHeaderSize, c_dataChunkHeaderSize, c_paddingMultiple.
  intros H. destruct il; cbv zeta;
  match goal with |- context[if ?c then _ else _] => destruct c eqn:? end; repeat split; lia.
Qed.

Lemma getMaxTSNOffset_range b : in32 b -> 2000 <= getMaxTSNOffset b <= 40000.
Proof. unfold getMaxTSNOffset, c_minTSNOffset, c_maxTSNOffset, c_avgChunkSize, wrap32, in32. intros. cbv zeta. lia. Qed.
