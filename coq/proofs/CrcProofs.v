(* Lemmas about coq/model/Crc.v (property C13). *)
From Coq Require Import ZArith Bool List Lia ZifyBool.
From Sctp Require Import Gen Crc.
Import ListNotations.
Open Scope Z_scope.
Ltac Zify.zify_post_hook ::= Z.div_mod_to_equations.

(* ------------------------------------------------------------------ xor algebra *)

Ltac crc_xor_bits :=
  apply Z.bits_inj'; intros ?n ?Hn; rewrite ?Z.lxor_spec;
  repeat match goal with |- context [Z.testbit ?x ?n] => destruct (Z.testbit x n) end;
  reflexivity.

Lemma crc_lxor_swap4 : forall a b c d,
  Z.lxor (Z.lxor a b) (Z.lxor c d) = Z.lxor (Z.lxor a c) (Z.lxor b d).
Proof. intros. crc_xor_bits. Qed.

Lemma crc_lxor_cancel_r : forall a m, Z.lxor (Z.lxor a m) m = a.
Proof. intros. rewrite Z.lxor_assoc, Z.lxor_nilpotent, Z.lxor_0_r. reflexivity. Qed.

Lemma crc_odd_lxor : forall a b, Z.odd (Z.lxor a b) = xorb (Z.odd a) (Z.odd b).
Proof. intros. rewrite <- !Z.bit0_odd. apply Z.lxor_spec. Qed.

Lemma crc_div2_lxor : forall a b, Z.div2 (Z.lxor a b) = Z.lxor (Z.div2 a) (Z.div2 b).
Proof. intros. rewrite !Z.div2_spec. apply Z.shiftr_lxor. Qed.

(* the shift register is additive over xor (linear over GF(2)) *)
Lemma crc_step_lxor : forall a b, crc_step (Z.lxor a b) = Z.lxor (crc_step a) (crc_step b).
Proof.
  intros a b. unfold crc_step. rewrite crc_odd_lxor, crc_div2_lxor.
  destruct (Z.odd a), (Z.odd b); cbn [xorb]; crc_xor_bits.
Qed.

Lemma crc_steps_lxor : forall n a b,
  crc_steps n (Z.lxor a b) = Z.lxor (crc_steps n a) (crc_steps n b).
Proof.
  induction n as [|n IH]; intros a b; cbn [crc_steps]; [reflexivity|].
  rewrite crc_step_lxor. apply IH.
Qed.

Lemma crc_steps_add : forall n m r, crc_steps (n + m) r = crc_steps m (crc_steps n r).
Proof.
  induction n as [|n IH]; intros m r; cbn [crc_steps Nat.add]; [reflexivity|]. apply IH.
Qed.

Lemma crc_byte_lxor : forall r1 r2 x y,
  crc_byte (Z.lxor r1 r2) (Z.lxor x y) = Z.lxor (crc_byte r1 x) (crc_byte r2 y).
Proof.
  intros. unfold crc_byte. rewrite crc_lxor_swap4. apply crc_steps_lxor.
Qed.

Lemma crc_update_lxor : forall a e r1 r2, length a = length e ->
  crc_update (Z.lxor r1 r2) (crc_xor a e) = Z.lxor (crc_update r1 a) (crc_update r2 e).
Proof.
  induction a as [|x a IH]; intros [|y e] r1 r2 Hlen; cbn [length] in Hlen; try discriminate.
  - reflexivity.
  - cbn [crc_xor crc_update]. rewrite crc_byte_lxor. apply IH. congruence.
Qed.

Lemma crc_update_app : forall a b r, crc_update r (a ++ b) = crc_update (crc_update r a) b.
Proof.
  induction a as [|x a IH]; intros b r; cbn [app crc_update]; [reflexivity|]. apply IH.
Qed.

(* crc(a xor e) xor crc(a) depends on e only (equal lengths): the syndrome of e *)
Lemma crc32c_lxor : forall a e, length a = length e ->
  crc32c (crc_xor a e) = Z.lxor (crc32c a) (crc_update 0 e).
Proof.
  intros a e Hlen. unfold crc32c, crc_go_update.
  replace (Z.lxor 0 crc_mask) with (Z.lxor (Z.lxor 0 crc_mask) 0) at 1 by apply Z.lxor_0_r.
  rewrite crc_update_lxor by exact Hlen.
  crc_xor_bits.
Qed.

Lemma crc_go_update_app : forall c a b,
  crc_go_update (crc_go_update c a) b = crc_go_update c (a ++ b).
Proof.
  intros. unfold crc_go_update. rewrite crc_lxor_cancel_r, crc_update_app. reflexivity.
Qed.

(* the three chained Update calls of generatePacketChecksum are one CRC over the zero-field bytes *)
Lemma crc_packet_checksum_eq : forall raw,
  crc_packet_checksum raw = crc32c (crc_zero_field raw).
Proof.
  intros. unfold crc_packet_checksum, crc32c, crc_zero_field.
  rewrite !crc_go_update_app. reflexivity.
Qed.

(* ------------------------------------------------------------------ ranges *)

Definition crc_p32 : Z := 4294967296.

Lemma crc_lxor_range32 : forall a b, 0 <= a < crc_p32 -> 0 <= b < crc_p32 -> 0 <= Z.lxor a b < crc_p32.
Proof.
  intros a b Ha Hb. unfold crc_p32 in *.
  assert (Hnn : 0 <= Z.lxor a b) by (apply Z.lxor_nonneg; lia).
  split; [exact Hnn|].
  destruct (Z.eq_dec (Z.lxor a b) 0) as [E|NE]; [lia|].
  change 4294967296 with (2 ^ 32). apply Z.log2_lt_pow2; [lia|].
  pose proof (Z.log2_lxor a b ltac:(lia) ltac:(lia)) as Hl.
  assert (La : Z.log2 a < 32).
  { destruct (Z.eq_dec a 0) as [->|]; [cbn; lia|]. apply Z.log2_lt_pow2; [lia|]. change (2 ^ 32) with 4294967296. lia. }
  assert (Lb : Z.log2 b < 32).
  { destruct (Z.eq_dec b 0) as [->|]; [cbn; lia|]. apply Z.log2_lt_pow2; [lia|]. change (2 ^ 32) with 4294967296. lia. }
  lia.
Qed.

Lemma crc_step_range : forall r, 0 <= r < crc_p32 -> 0 <= crc_step r < crc_p32.
Proof.
  intros r Hr. unfold crc_step. rewrite Z.div2_div.
  assert (Hd : 0 <= r / 2 < crc_p32) by (unfold crc_p32 in *; lia).
  destruct (Z.odd r); [|exact Hd].
  apply crc_lxor_range32; [exact Hd|]. unfold crc_poly, crc_p32. lia.
Qed.

(* the polynomial has its top coefficient set, so a non-zero register never becomes zero *)
Lemma crc_step_pos : forall r, 0 < r < crc_p32 -> 0 < crc_step r < crc_p32.
Proof.
  intros r Hr.
  pose proof (crc_step_range r ltac:(lia)) as Hrg.
  enough (crc_step r <> 0) by lia.
  unfold crc_step. rewrite Z.div2_div. destruct (Z.odd r) eqn:Ho.
  - intro E. apply Z.lxor_eq in E. unfold crc_poly, crc_p32 in *. lia.
  - assert (Z.even r = true) as He by (rewrite <- Z.negb_odd, Ho; reflexivity).
    apply Z.even_spec in He. destruct He as [k Hk]. unfold crc_p32 in *. lia.
Qed.

Lemma crc_steps_range : forall n r, 0 <= r < crc_p32 -> 0 <= crc_steps n r < crc_p32.
Proof.
  induction n as [|n IH]; intros r Hr; cbn [crc_steps]; [exact Hr|].
  apply IH. apply crc_step_range. exact Hr.
Qed.

Lemma crc_steps_pos : forall n r, 0 < r < crc_p32 -> 0 < crc_steps n r < crc_p32.
Proof.
  induction n as [|n IH]; intros r Hr; cbn [crc_steps]; [exact Hr|].
  apply IH. apply crc_step_pos. exact Hr.
Qed.

Lemma crc_is_byte_spec : forall b, crc_is_byte b = true <-> 0 <= b < 256.
Proof. intros. unfold crc_is_byte. lia. Qed.

Lemma crc_bytes_ok_cons : forall b t, crc_bytes_ok (b :: t) = true <-> 0 <= b < 256 /\ crc_bytes_ok t = true.
Proof.
  intros. unfold crc_bytes_ok. cbn [forallb]. rewrite andb_true_iff, crc_is_byte_spec. reflexivity.
Qed.

Lemma crc_bytes_ok_app : forall a b, crc_bytes_ok (a ++ b) = crc_bytes_ok a && crc_bytes_ok b.
Proof. intros. unfold crc_bytes_ok. apply forallb_app. Qed.

Lemma crc_bytes_ok_firstn : forall n l, crc_bytes_ok l = true -> crc_bytes_ok (firstn n l) = true.
Proof.
  induction n as [|n IH]; intros [|x l] H; cbn [firstn]; try reflexivity.
  apply crc_bytes_ok_cons in H. apply crc_bytes_ok_cons. split; [tauto|]. apply IH. tauto.
Qed.

Lemma crc_bytes_ok_skipn : forall n l, crc_bytes_ok l = true -> crc_bytes_ok (skipn n l) = true.
Proof.
  induction n as [|n IH]; intros [|x l] H; cbn [skipn]; try exact H.
  apply IH. apply crc_bytes_ok_cons in H. tauto.
Qed.

Lemma crc_byte_range : forall r b, 0 <= r < crc_p32 -> 0 <= b < 256 -> 0 <= crc_byte r b < crc_p32.
Proof.
  intros r b Hr Hb. unfold crc_byte. apply crc_steps_range. apply crc_lxor_range32; [exact Hr|].
  unfold crc_p32. lia.
Qed.

Lemma crc_update_range : forall bs r, 0 <= r < crc_p32 -> crc_bytes_ok bs = true ->
  0 <= crc_update r bs < crc_p32.
Proof.
  induction bs as [|b t IH]; intros r Hr Hb; cbn [crc_update]; [exact Hr|].
  apply crc_bytes_ok_cons in Hb. apply IH; [|tauto]. apply crc_byte_range; tauto.
Qed.

Lemma crc32c_range : forall bs, crc_bytes_ok bs = true -> 0 <= crc32c bs < crc_p32.
Proof.
  intros bs Hb. unfold crc32c, crc_go_update.
  apply crc_lxor_range32; [|unfold crc_mask, crc_p32; lia].
  apply crc_update_range; [|exact Hb]. rewrite Z.lxor_0_l. unfold crc_mask, crc_p32. lia.
Qed.

Lemma crc_zero_field_bytes_ok : forall raw, crc_bytes_ok raw = true -> crc_bytes_ok (crc_zero_field raw) = true.
Proof.
  intros raw H. unfold crc_zero_field. rewrite !crc_bytes_ok_app.
  rewrite crc_bytes_ok_firstn, crc_bytes_ok_skipn by exact H. reflexivity.
Qed.

Lemma crc_packet_checksum_range : forall raw, crc_bytes_ok raw = true ->
  0 <= crc_packet_checksum raw < crc_p32.
Proof.
  intros raw H. rewrite crc_packet_checksum_eq. apply crc32c_range. apply crc_zero_field_bytes_ok. exact H.
Qed.

(* ------------------------------------------------------------------ the register as polynomial division *)

Lemma crc_step_double : forall m, crc_step (2 * m) = m.
Proof.
  intros m. unfold crc_step. rewrite Z.odd_mul. cbn [Z.odd andb]. rewrite Z.div2_div. lia.
Qed.

Lemma crc_steps_shift : forall n m, crc_steps n (m * 2 ^ Z.of_nat n) = m.
Proof.
  induction n as [|n IH]; intros m.
  - cbn [crc_steps]. change (2 ^ Z.of_nat 0) with 1. lia.
  - cbn [crc_steps]. rewrite Nat2Z.inj_succ, Z.pow_succ_r by lia.
    replace (m * (2 * 2 ^ Z.of_nat n)) with (2 * (m * 2 ^ Z.of_nat n)) by lia.
    rewrite crc_step_double. apply IH.
Qed.

Lemma crc_byte_lxor_shifted : forall b m, 0 <= b < 256 -> Z.lxor b (256 * m) = b + 256 * m.
Proof.
  intros b m Hb. symmetry. apply Z.add_nocarry_lxor.
  apply Z.bits_inj'. intros n Hn. rewrite Z.land_spec, Z.bits_0.
  destruct (Z.ltb_spec n 8) as [Hlt|Hge].
  - replace (256 * m) with (m * 2 ^ 8) by (change (2 ^ 8) with 256; lia).
    rewrite (Z.mul_pow2_bits_low m 8 n) by lia. apply andb_false_r.
  - assert (Z.testbit b n = false) as ->; [|reflexivity].
    destruct (Z.eq_dec b 0) as [->|Hnz]; [apply Z.bits_0|].
    apply Z.bits_above_log2; [lia|].
    assert (Z.log2 b < 8); [|lia]. apply Z.log2_lt_pow2; [lia|]. change (2 ^ 8) with 256. lia.
Qed.

(* feeding bytes = xoring the whole little-endian number into the register and shifting 8 bits per byte *)
Lemma crc_update_as_steps : forall bs r, crc_bytes_ok bs = true ->
  crc_update r bs = crc_steps (8 * length bs) (Z.lxor r (crc_le bs)).
Proof.
  induction bs as [|b t IH]; intros r Hb.
  - cbn [crc_update crc_le length Nat.mul crc_steps]. rewrite Z.lxor_0_r. reflexivity.
  - apply crc_bytes_ok_cons in Hb. destruct Hb as [Hb Ht].
    cbn [crc_update crc_le length]. rewrite IH by exact Ht.
    replace (8 * S (length t))%nat with (8 + 8 * length t)%nat by lia.
    rewrite crc_steps_add. f_equal.
    unfold crc_byte.
    rewrite <- (crc_steps_shift 8 (crc_le t)) at 1.
    rewrite <- crc_steps_lxor. f_equal.
    change (2 ^ Z.of_nat 8) with 256.
    rewrite <- crc_byte_lxor_shifted by exact Hb.
    rewrite Z.lxor_assoc. f_equal. f_equal. lia.
Qed.

Lemma crc_le_range : forall bs, crc_bytes_ok bs = true -> 0 <= crc_le bs < 2 ^ Z.of_nat (8 * length bs).
Proof.
  induction bs as [|b t IH]; intros Hb.
  - cbn. lia.
  - apply crc_bytes_ok_cons in Hb. destruct Hb as [Hb Ht]. specialize (IH Ht).
    cbn [crc_le length].
    replace (8 * S (length t))%nat with (8 + 8 * length t)%nat by lia.
    rewrite Nat2Z.inj_add, Z.pow_add_r by lia. change (2 ^ Z.of_nat 8) with 256. lia.
Qed.

(* Burst theorem: an error pattern that, read as one little-endian number (= in the bit order of the
   register), is a non-zero 32-bit window w shifted to any position j has a non-zero syndrome,
   whatever the length of the packet. *)
Lemma crc_syndrome_burst : forall e w j, crc_bytes_ok e = true ->
  0 < w < crc_p32 -> 0 <= j -> crc_le e = w * 2 ^ j ->
  0 < crc_update 0 e < crc_p32.
Proof.
  intros e w j He Hw Hj Hle.
  rewrite crc_update_as_steps by exact He. rewrite Z.lxor_0_l, Hle.
  pose proof (crc_le_range e He) as Hr. rewrite Hle in Hr.
  assert (Hjn : j < Z.of_nat (8 * length e)).
  { apply (Z.pow_lt_mono_r_iff 2); [lia|lia|].
    assert (0 < 2 ^ j) by (apply Z.pow_pos_nonneg; lia). nia. }
  replace (8 * length e)%nat with (Z.to_nat j + (8 * length e - Z.to_nat j))%nat by lia.
  rewrite crc_steps_add.
  replace (2 ^ j) with (2 ^ Z.of_nat (Z.to_nat j)) by (rewrite Z2Nat.id by lia; reflexivity).
  rewrite crc_steps_shift. apply crc_steps_pos. exact Hw.
Qed.

(* ------------------------------------------------------------------ packets: destructuring helper *)

Lemma crc_len_ge12 : forall raw, c_packetHeaderSize <= crc_len raw ->
  exists b0 b1 b2 b3 b4 b5 b6 b7 f0 f1 f2 f3 t,
    raw = b0 :: b1 :: b2 :: b3 :: b4 :: b5 :: b6 :: b7 :: f0 :: f1 :: f2 :: f3 :: t.
Proof.
  intros raw H. unfold crc_len, c_packetHeaderSize in H.
  do 12 (destruct raw as [|? raw]; [cbn [length] in H; lia|]).
  repeat eexists.
Qed.

Lemma crc_le_bytes_field : forall v, 0 <= v < crc_p32 ->
  v mod 256 + 256 * ((v / 256) mod 256) + 65536 * ((v / 65536) mod 256) + 16777216 * ((v / 16777216) mod 256) = v.
Proof. intros v Hv. unfold crc_p32 in Hv. lia. Qed.

Lemma crc_field_put : forall raw v, c_packetHeaderSize <= crc_len raw -> 0 <= v < crc_p32 ->
  crc_field (crc_put_field raw v) = v.
Proof.
  intros raw v Hlen Hv. destruct (crc_len_ge12 raw Hlen) as (b0&b1&b2&b3&b4&b5&b6&b7&f0&f1&f2&f3&t&->).
  unfold crc_field, crc_put_field, crc_at, crc_le_bytes. cbn [firstn skipn app nth].
  apply crc_le_bytes_field. exact Hv.
Qed.

Lemma crc_zero_field_put : forall raw v, c_packetHeaderSize <= crc_len raw ->
  crc_zero_field (crc_put_field raw v) = crc_zero_field raw.
Proof.
  intros raw v Hlen. destruct (crc_len_ge12 raw Hlen) as (b0&b1&b2&b3&b4&b5&b6&b7&f0&f1&f2&f3&t&->).
  reflexivity.
Qed.

Lemma crc_len_put : forall raw v, c_packetHeaderSize <= crc_len raw -> crc_len (crc_put_field raw v) = crc_len raw.
Proof.
  intros raw v Hlen. destruct (crc_len_ge12 raw Hlen) as (b0&b1&b2&b3&b4&b5&b6&b7&f0&f1&f2&f3&t&->).
  reflexivity.
Qed.

Lemma crc_at12_put : forall raw v, c_packetHeaderSize <= crc_len raw ->
  crc_at (crc_put_field raw v) (Z.to_nat c_packetHeaderSize) = crc_at raw (Z.to_nat c_packetHeaderSize).
Proof.
  intros raw v Hlen. destruct (crc_len_ge12 raw Hlen) as (b0&b1&b2&b3&b4&b5&b6&b7&f0&f1&f2&f3&t&->).
  reflexivity.
Qed.

Lemma crc_packet_checksum_put : forall raw v, c_packetHeaderSize <= crc_len raw ->
  crc_packet_checksum (crc_put_field raw v) = crc_packet_checksum raw.
Proof. intros. rewrite !crc_packet_checksum_eq, crc_zero_field_put by assumption. reflexivity. Qed.

Lemma crc_starts_mandatory_put : forall raw v, c_packetHeaderSize <= crc_len raw ->
  crc_starts_mandatory (crc_put_field raw v) = crc_starts_mandatory raw.
Proof. intros. unfold crc_starts_mandatory. rewrite crc_len_put, crc_at12_put by assumption. reflexivity. Qed.

(* ------------------------------------------------------------------ 1. acceptance rule *)

Lemma crc_starts_mandatory_spec : forall raw,
  crc_starts_mandatory raw = true <->
  c_packetHeaderSize + c_chunkHeaderSize <= crc_len raw /\
  (crc_at raw (Z.to_nat c_packetHeaderSize) = c_ctInit \/ crc_at raw (Z.to_nat c_packetHeaderSize) = c_ctCookieEcho).
Proof. intros. unfold crc_starts_mandatory, crc_mandatory_type. lia. Qed.

Lemma crc_gate_pass_iff : forall dc raw,
  crc_gate dc raw = CrcPass <->
  c_packetHeaderSize <= crc_len raw /\
  (crc_field raw = crc_packet_checksum raw \/
   (crc_field raw = 0 /\ dc = false /\ crc_starts_mandatory raw = false)).
Proof.
  intros dc raw. unfold crc_gate.
  destruct (crc_len raw <? c_packetHeaderSize) eqn:Hl.
  - split; [discriminate|]. lia.
  - destruct (negb (crc_field raw =? 0) || (dc || crc_starts_mandatory raw)) eqn:Hc.
    + destruct (crc_field raw =? crc_packet_checksum raw) eqn:He.
      * split; [|reflexivity]. intros _. split; [lia|]. left. lia.
      * split; [discriminate|]. intros [_ [H|(H0&Hd&Hm)]]; [lia|]. subst dc. rewrite Hm in Hc. lia.
    + split; [|reflexivity]. intros _. split; [lia|]. right.
      destruct dc; [cbn in Hc; lia|]. destruct (crc_starts_mandatory raw); [cbn in Hc; lia|]. lia.
Qed.

Lemma crc_gate_short_iff : forall dc raw, crc_gate dc raw = CrcShort <-> crc_len raw < c_packetHeaderSize.
Proof.
  intros dc raw. unfold crc_gate. destruct (crc_len raw <? c_packetHeaderSize) eqn:Hl.
  - split; [lia|reflexivity].
  - split; [|lia]. destruct (negb (crc_field raw =? 0) || (dc || crc_starts_mandatory raw));
      [destruct (crc_field raw =? crc_packet_checksum raw)|]; discriminate.
Qed.

(* exact characterisation of the decision *)
Lemma crc_accept_iff : forall recv_zero raw,
  crc_accept recv_zero raw = true <->
  (crc_len raw = c_packetHeaderSize \/ c_packetHeaderSize + c_chunkHeaderSize <= crc_len raw) /\
  (crc_field raw = crc_packet_checksum raw \/
   (crc_field raw = 0 /\ recv_zero = true /\ crc_starts_mandatory raw = false)).
Proof.
  intros rz raw. unfold crc_accept.
  destruct (crc_gate (negb rz) raw) eqn:Hg.
  - split; [discriminate|]. intros [Hl _]. apply crc_gate_short_iff in Hg.
    unfold c_packetHeaderSize, c_chunkHeaderSize in *. lia.
  - split; [discriminate|]. intros [Hl Hr].
    assert (crc_gate (negb rz) raw = CrcPass) as Hp; [|congruence].
    apply crc_gate_pass_iff. split; [unfold c_packetHeaderSize, c_chunkHeaderSize in *; lia|].
    destruct Hr as [H|(H0&Hz&Hm)]; [left; exact H|right]. subst rz. auto.
  - apply crc_gate_pass_iff in Hg. destruct Hg as [Hl Hr]. unfold crc_chunk_hdr_ok.
    split.
    + intros H. split; [lia|]. destruct Hr as [Hr|(H0&Hz&Hm)]; [left; exact Hr|right].
      destruct rz; [auto|discriminate].
    + intros [H _]. lia.
Qed.

Lemma crc_accept_rule : forall recv_zero raw,
  crc_accept recv_zero raw = true ->
  crc_field raw = crc_packet_checksum raw \/
  (crc_field raw = 0 /\ recv_zero = true /\
   ~ (c_packetHeaderSize + c_chunkHeaderSize <= crc_len raw /\
      (crc_at raw (Z.to_nat c_packetHeaderSize) = c_ctInit \/
       crc_at raw (Z.to_nat c_packetHeaderSize) = c_ctCookieEcho))).
Proof.
  intros rz raw H. apply crc_accept_iff in H. destruct H as [_ [H|(H0&Hz&Hm)]]; [left; exact H|right].
  split; [exact H0|]. split; [exact Hz|]. intro Hc. apply crc_starts_mandatory_spec in Hc. congruence.
Qed.

(* first clause of C13: non-zero and wrong => discarded *)
Lemma crc_wrong_nonzero_rejected : forall recv_zero raw,
  crc_field raw <> 0 -> crc_field raw <> crc_packet_checksum raw -> crc_accept recv_zero raw = false.
Proof.
  intros rz raw Hnz Hw. destruct (crc_accept rz raw) eqn:Ha; [|reflexivity].
  apply crc_accept_rule in Ha. destruct Ha as [H|(H&_)]; congruence.
Qed.

Lemma crc_wrong_rejected_without_option : forall raw,
  crc_field raw <> crc_packet_checksum raw -> crc_accept false raw = false.
Proof.
  intros raw Hw. destruct (crc_accept false raw) eqn:Ha; [|reflexivity].
  apply crc_accept_rule in Ha. destruct Ha as [H|(_&H&_)]; congruence.
Qed.

Lemma crc_wrong_mandatory_rejected : forall recv_zero raw,
  crc_starts_mandatory raw = true -> crc_field raw <> crc_packet_checksum raw -> crc_accept recv_zero raw = false.
Proof.
  intros rz raw Hm Hw. destruct (crc_accept rz raw) eqn:Ha; [|reflexivity].
  apply crc_accept_iff in Ha. destruct Ha as [_ [H|(_&_&H)]]; congruence.
Qed.

(* a rejected packet has no effect (handleInbound returns before anything else is touched) *)
Lemma crc_reject_no_effect : forall (S O : Type) (rest : S -> list Z -> S * list O) recv_zero s raw,
  crc_accept recv_zero raw = false -> crc_handle_inbound rest recv_zero s raw = (s, []).
Proof. intros S O rest rz s raw H. unfold crc_handle_inbound. rewrite H. reflexivity. Qed.

(* ------------------------------------------------------------------ 2. emission rule *)

Definition crc_premarshal_ok (raw0 : list Z) : Prop :=
  crc_bytes_ok raw0 = true /\ c_packetHeaderSize <= crc_len raw0 /\ crc_field raw0 = 0.

Lemma crc_emit_cases : forall send_zero types raw0, crc_premarshal_ok raw0 ->
  (crc_do_checksum send_zero types = true /\
   crc_emit_checksum send_zero types raw0 = crc_packet_checksum (crc_emit send_zero types raw0)) \/
  (send_zero = true /\ crc_chunk_mandatory types = false /\ crc_emit_checksum send_zero types raw0 = 0).
Proof.
  intros sz types raw0 (Hb&Hl&Hf). unfold crc_emit_checksum, crc_emit.
  destruct (crc_do_checksum sz types) eqn:Hd.
  - left. split; [reflexivity|].
    rewrite crc_packet_checksum_put by exact Hl.
    apply crc_field_put; [exact Hl|]. apply crc_packet_checksum_range. exact Hb.
  - right. unfold crc_do_checksum in Hd. destruct sz; [|discriminate]. cbn in Hd. auto.
Qed.

(* a field that is not the CRC of the emitted bytes is emitted only with send_zero and without INIT/COOKIE-ECHO *)
Lemma crc_emit_rule : forall send_zero types raw0, crc_premarshal_ok raw0 ->
  crc_emit_checksum send_zero types raw0 <> crc_packet_checksum (crc_emit send_zero types raw0) ->
  send_zero = true /\ crc_chunk_mandatory types = false /\ crc_emit_checksum send_zero types raw0 = 0.
Proof.
  intros sz types raw0 Hok Hne. destruct (crc_emit_cases sz types raw0 Hok) as [(_&H)|H]; [congruence|exact H].
Qed.

Lemma crc_emit_mandatory_correct : forall send_zero types raw0, crc_premarshal_ok raw0 ->
  send_zero = false \/ crc_chunk_mandatory types = true ->
  crc_emit_checksum send_zero types raw0 = crc_packet_checksum (crc_emit send_zero types raw0).
Proof.
  intros sz types raw0 Hok Hc. destruct (crc_emit_cases sz types raw0 Hok) as [(_&H)|(H1&H2&_)]; [exact H|].
  destruct Hc; congruence.
Qed.

Lemma crc_types_first_mandatory : forall types raw0, crc_types_consistent types raw0 = true ->
  crc_starts_mandatory raw0 = true -> crc_chunk_mandatory types = true.
Proof.
  intros types raw0 Hc Hm. apply crc_starts_mandatory_spec in Hm. destruct Hm as [Hl Ht].
  unfold crc_types_consistent in Hc. destruct types as [|t ts].
  - unfold c_packetHeaderSize, c_chunkHeaderSize in *. lia.
  - unfold crc_chunk_mandatory. cbn [existsb]. unfold crc_mandatory_type.
    assert (crc_at raw0 (Z.to_nat c_packetHeaderSize) = t) as <- by lia. lia.
Qed.

Lemma crc_types_hdr_ok : forall types raw0, crc_types_consistent types raw0 = true -> crc_chunk_hdr_ok raw0 = true.
Proof. intros types raw0 Hc. unfold crc_types_consistent in Hc. unfold crc_chunk_hdr_ok. destruct types; lia. Qed.

(* what a correct sender emits passes the gate of a receiver that accepts zero whenever the sender sends it *)
Lemma crc_emit_accepted : forall send_zero recv_zero types raw0, crc_premarshal_ok raw0 ->
  crc_types_consistent types raw0 = true ->
  (send_zero = true -> recv_zero = true) ->
  crc_accept recv_zero (crc_emit send_zero types raw0) = true.
Proof.
  intros sz rz types raw0 Hok Hc Himp. pose proof Hok as (Hb&Hl&Hf).
  pose proof (crc_types_hdr_ok types raw0 Hc) as Hh.
  apply crc_accept_iff. unfold crc_emit.
  destruct (crc_do_checksum sz types) eqn:Hd.
  - rewrite crc_len_put by exact Hl. split; [unfold crc_chunk_hdr_ok in Hh; lia|]. left.
    rewrite crc_packet_checksum_put by exact Hl.
    apply crc_field_put; [exact Hl|]. apply crc_packet_checksum_range. exact Hb.
  - split; [unfold crc_chunk_hdr_ok in Hh; lia|]. right.
    unfold crc_do_checksum in Hd. destruct sz; [|discriminate]. cbn in Hd.
    split; [exact Hf|]. split; [auto|].
    destruct (crc_starts_mandatory raw0) eqn:Hm; [|reflexivity].
    rewrite (crc_types_first_mandatory types raw0 Hc Hm) in Hd. discriminate.
Qed.

(* the opposite direction (what the retracted v1.8.12 produced): zero sent to an endpoint that did not advertise *)
Lemma crc_zero_rejected_by_non_acceptor : forall types raw0, crc_premarshal_ok raw0 ->
  crc_chunk_mandatory types = false -> crc_packet_checksum raw0 <> 0 ->
  crc_accept false (crc_emit true types raw0) = false.
Proof.
  intros types raw0 (Hb&Hl&Hf) Hm Hnz. unfold crc_emit, crc_do_checksum. rewrite Hm. cbn [negb orb].
  apply crc_wrong_rejected_without_option. congruence.
Qed.

(* ------------------------------------------------------------------ 3. direction of the negotiation *)

Lemma crc_send_zero_after_app : forall a b prev,
  crc_send_zero_after prev (a ++ b) = crc_send_zero_after (crc_send_zero_after prev a) b.
Proof. intros. unfold crc_send_zero_after. apply fold_left_app. Qed.

Lemma crc_send_zero_after_filter : forall ps prev,
  crc_send_zero_after prev ps = crc_send_zero_after prev (crc_zca_of ps).
Proof.
  induction ps as [|p ps IH]; intros prev; [reflexivity|].
  destruct p as [e|t]; cbn [crc_zca_of filter crc_is_zca].
  - change (crc_send_zero_after prev (CrcZCA e :: ps)) with (crc_send_zero_after (e =? c_dtlsErrorDetectionMethod) ps).
    change (crc_send_zero_after prev (CrcZCA e :: filter crc_is_zca ps))
      with (crc_send_zero_after (e =? c_dtlsErrorDetectionMethod) (crc_zca_of ps)).
    apply IH.
  - change (crc_send_zero_after prev (CrcOtherParam t :: ps)) with (crc_send_zero_after prev ps). apply IH.
Qed.

Lemma crc_send_zero_after_true : forall ps prev, crc_send_zero_after prev ps = true ->
  In (CrcZCA c_dtlsErrorDetectionMethod) ps \/ (prev = true /\ crc_zca_of ps = []).
Proof.
  induction ps as [|p ps IH]; intros prev H.
  - right. split; [exact H|reflexivity].
  - destruct p as [e|t].
    + change (crc_send_zero_after prev (CrcZCA e :: ps)) with (crc_send_zero_after (e =? c_dtlsErrorDetectionMethod) ps) in H.
      destruct (IH _ H) as [Hin|(He&Hz)]; [left; right; exact Hin|].
      left. left. f_equal. lia.
    + change (crc_send_zero_after prev (CrcOtherParam t :: ps)) with (crc_send_zero_after prev ps) in H.
      destruct (IH _ H) as [Hin|(He&Hz)]; [left; right; exact Hin|right].
      split; [exact He|]. cbn [crc_zca_of filter crc_is_zca]. exact Hz.
Qed.

Lemma crc_ep_run_recv : forall h ep, ep_recv_zero (crc_ep_run ep h) = ep_recv_zero ep.
Proof.
  induction h as [|ps h IH]; intros ep; [reflexivity|].
  unfold crc_ep_run in *. cbn [fold_left]. rewrite IH. reflexivity.
Qed.

Lemma crc_ep_run_send : forall h ep,
  ep_send_zero (crc_ep_run ep h) = crc_send_zero_after (ep_send_zero ep) (concat h).
Proof.
  induction h as [|ps h IH]; intros ep; [reflexivity|].
  unfold crc_ep_run in *. cbn [fold_left concat]. rewrite IH, crc_send_zero_after_app. reflexivity.
Qed.

(* recv_zero is the local option and nothing else; send_zero is a function of the peer's parameters and
   nothing else (in particular not of the local option) *)
Lemma crc_send_zero_direction : forall enable h,
  ep_recv_zero (crc_ep_run (crc_ep_new enable) h) = enable /\
  ep_send_zero (crc_ep_run (crc_ep_new enable) h) = crc_send_zero_after false (concat h) /\
  (ep_send_zero (crc_ep_run (crc_ep_new enable) h) = true ->
   exists ps, In ps h /\ In (CrcZCA c_dtlsErrorDetectionMethod) ps).
Proof.
  intros enable h. rewrite crc_ep_run_recv, crc_ep_run_send. cbn [crc_ep_new ep_recv_zero ep_send_zero].
  split; [reflexivity|]. split; [reflexivity|]. intros H.
  apply crc_send_zero_after_true in H. destruct H as [Hin|(Hf&_)]; [|discriminate].
  apply in_concat in Hin. destruct Hin as (ps&H1&H2). exists ps. auto.
Qed.

Lemma crc_send_zero_independent_of_local_option : forall e1 e2 h,
  ep_send_zero (crc_ep_run (crc_ep_new e1) h) = ep_send_zero (crc_ep_run (crc_ep_new e2) h).
Proof. intros. rewrite !crc_ep_run_send. reflexivity. Qed.

(* an honest peer: its INIT / INIT-ACK carries exactly its advertisement among whatever other parameters *)
Lemma crc_send_zero_honest_peer : forall enable peer ps,
  crc_zca_of ps = crc_ep_advert peer ->
  ep_send_zero (crc_ep_on_peer_params (crc_ep_new enable) ps) = ep_recv_zero peer.
Proof.
  intros enable peer ps H. cbn [crc_ep_on_peer_params crc_ep_new ep_send_zero].
  rewrite crc_send_zero_after_filter, H. unfold crc_ep_advert. destruct (ep_recv_zero peer); reflexivity.
Qed.

(* two endpoints after a handshake, any combination of the two options: everything one side emits passes
   the other side's gate, and a field that is not the CRC appears only towards a side that enabled the option *)
Lemma crc_interop : forall optA optB psA psB types raw0,
  crc_zca_of psA = crc_ep_advert (crc_ep_new optA) ->
  crc_zca_of psB = crc_ep_advert (crc_ep_new optB) ->
  crc_premarshal_ok raw0 -> crc_types_consistent types raw0 = true ->
  let A := crc_ep_on_peer_params (crc_ep_new optA) psB in
  let B := crc_ep_on_peer_params (crc_ep_new optB) psA in
  crc_accept (ep_recv_zero B) (crc_emit (ep_send_zero A) types raw0) = true /\
  (crc_emit_checksum (ep_send_zero A) types raw0 <> crc_packet_checksum (crc_emit (ep_send_zero A) types raw0) ->
   optB = true /\ crc_chunk_mandatory types = false).
Proof.
  intros optA optB psA psB types raw0 HA HB Hok Hc A B.
  assert (HsA : ep_send_zero A = optB).
  { unfold A. rewrite (crc_send_zero_honest_peer optA (crc_ep_new optB) psB HB). reflexivity. }
  assert (HrB : ep_recv_zero B = optB) by reflexivity.
  rewrite HsA, HrB. split.
  - apply crc_emit_accepted; auto.
  - intros Hne. apply crc_emit_rule in Hne; [|exact Hok]. tauto.
Qed.

(* ------------------------------------------------------------------ 4. corruption detection *)

Lemma crc_xor_length : forall a e, length a = length e -> length (crc_xor a e) = length a.
Proof.
  induction a as [|x a IH]; intros [|y e] H; cbn [length] in H; try discriminate; [reflexivity|].
  cbn [crc_xor length]. f_equal. apply IH. congruence.
Qed.

Lemma crc_len_xor : forall a e, length a = length e -> crc_len (crc_xor a e) = crc_len a.
Proof. intros. unfold crc_len. rewrite crc_xor_length by assumption. reflexivity. Qed.

(* the error pattern leaves the checksum field alone *)
Definition crc_outside_field (e : list Z) : Prop := crc_zero_field e = e.
(* the error pattern touches only the checksum field *)
Definition crc_inside_field (e : list Z) : Prop := crc_zero_field e = repeat 0 (length e).

Lemma crc_xor_outside : forall raw e, length raw = length e -> c_packetHeaderSize <= crc_len raw ->
  crc_outside_field e ->
  crc_zero_field (crc_xor raw e) = crc_xor (crc_zero_field raw) e /\
  crc_field (crc_xor raw e) = crc_field raw /\
  length (crc_zero_field raw) = length e.
Proof.
  intros raw e Hlen Hl Ho.
  assert (Hle : c_packetHeaderSize <= crc_len e) by (unfold crc_len in *; rewrite <- Hlen; exact Hl).
  destruct (crc_len_ge12 raw Hl) as (b0&b1&b2&b3&b4&b5&b6&b7&f0&f1&f2&f3&t&->).
  destruct (crc_len_ge12 e Hle) as (c0&c1&c2&c3&c4&c5&c6&c7&g0&g1&g2&g3&u&->).
  unfold crc_outside_field, crc_zero_field in Ho. cbn [firstn skipn app] in Ho.
  injection Ho as <- <- <- <-.
  unfold crc_zero_field, crc_field, crc_at. cbn [crc_xor firstn skipn app nth length].
  rewrite !Z.lxor_0_r. cbn [length] in Hlen. repeat split. lia.
Qed.

Lemma crc_packet_checksum_xor_outside : forall raw e, length raw = length e ->
  c_packetHeaderSize <= crc_len raw -> crc_outside_field e ->
  crc_packet_checksum (crc_xor raw e) = Z.lxor (crc_packet_checksum raw) (crc_update 0 e) /\
  crc_field (crc_xor raw e) = crc_field raw.
Proof.
  intros raw e Hlen Hl Ho. destruct (crc_xor_outside raw e Hlen Hl Ho) as (Hz&Hf&Hlz).
  split; [|exact Hf]. rewrite !crc_packet_checksum_eq, Hz. apply crc32c_lxor. exact Hlz.
Qed.

(* a valid packet hit by a burst (<= 32 bits in register order, any position, any packet length)
   outside the checksum field no longer carries the CRC of its bytes *)
Lemma crc_burst_outside_field_invalidates : forall raw e w j,
  length raw = length e -> c_packetHeaderSize <= crc_len raw ->
  crc_bytes_ok e = true -> crc_outside_field e ->
  0 < w < crc_p32 -> 0 <= j -> crc_le e = w * 2 ^ j ->
  crc_field raw = crc_packet_checksum raw ->
  crc_field (crc_xor raw e) <> crc_packet_checksum (crc_xor raw e).
Proof.
  intros raw e w j Hlen Hl He Ho Hw Hj Hle Hv.
  destruct (crc_packet_checksum_xor_outside raw e Hlen Hl Ho) as (Hc&Hf).
  rewrite Hc, Hf, Hv. intro E.
  pose proof (crc_syndrome_burst e w j He Hw Hj Hle) as Hs.
  assert (Z.lxor (crc_packet_checksum raw) (Z.lxor (crc_packet_checksum raw) (crc_update 0 e)) = 0) as E2
    by (rewrite <- E; apply Z.lxor_nilpotent).
  rewrite <- Z.lxor_assoc, Z.lxor_nilpotent, Z.lxor_0_l in E2. lia.
Qed.

Lemma crc_byte_lxor_range : forall a b, 0 <= a < 256 -> 0 <= b < 256 -> 0 <= Z.lxor a b < 256.
Proof.
  intros a b Ha Hb.
  assert (Hnn : 0 <= Z.lxor a b) by (apply Z.lxor_nonneg; lia).
  split; [exact Hnn|].
  destruct (Z.eq_dec (Z.lxor a b) 0) as [E|NE]; [lia|].
  change 256 with (2 ^ 8). apply Z.log2_lt_pow2; [lia|].
  pose proof (Z.log2_lxor a b ltac:(lia) ltac:(lia)) as Hlx.
  assert (La : Z.log2 a < 8).
  { destruct (Z.eq_dec a 0) as [->|]; [cbn; lia|]. apply Z.log2_lt_pow2; [lia|]. change (2 ^ 8) with 256. lia. }
  assert (Lb : Z.log2 b < 8).
  { destruct (Z.eq_dec b 0) as [->|]; [cbn; lia|]. apply Z.log2_lt_pow2; [lia|]. change (2 ^ 8) with 256. lia. }
  lia.
Qed.

Lemma crc_lxor_neq : forall a b, b <> 0 -> Z.lxor a b <> a.
Proof.
  intros a b Hb E. apply Hb.
  assert (Z.lxor a (Z.lxor a b) = 0) as E2 by (rewrite E; apply Z.lxor_nilpotent).
  rewrite <- Z.lxor_assoc, Z.lxor_nilpotent, Z.lxor_0_l in E2. exact E2.
Qed.

(* a valid packet whose checksum field alone is hit (any non-zero pattern in bytes 8..11) is no longer valid *)
Lemma crc_corruption_inside_field_invalidates : forall raw e,
  length raw = length e -> c_packetHeaderSize <= crc_len raw ->
  crc_bytes_ok raw = true -> crc_bytes_ok e = true ->
  crc_inside_field e -> e <> repeat 0 (length e) ->
  crc_field raw = crc_packet_checksum raw ->
  crc_field (crc_xor raw e) <> crc_packet_checksum (crc_xor raw e).
Proof.
  intros raw e Hlen Hl Hbr Hbe Hi Hnz Hv.
  assert (Hle : c_packetHeaderSize <= crc_len e) by (unfold crc_len in *; rewrite <- Hlen; exact Hl).
  destruct (crc_len_ge12 raw Hl) as (b0&b1&b2&b3&b4&b5&b6&b7&f0&f1&f2&f3&t&->).
  destruct (crc_len_ge12 e Hle) as (c0&c1&c2&c3&c4&c5&c6&c7&g0&g1&g2&g3&u&->).
  unfold crc_inside_field, crc_zero_field in Hi. cbn [firstn skipn app length repeat] in Hi.
  injection Hi as -> -> -> -> -> -> -> -> Hu.
  cbn [length] in Hlen. injection Hlen as Hlen.
  assert (Hx : crc_xor t u = t).
  { rewrite Hu. clear - Hlen. revert u Hlen. induction t as [|x t IH]; intros [|y u] H; cbn [length] in H; try discriminate; [reflexivity|].
    cbn [length repeat crc_xor]. rewrite Z.lxor_0_r. f_equal. apply IH. congruence. }
  assert (Hcs : crc_packet_checksum (crc_xor (b0 :: b1 :: b2 :: b3 :: b4 :: b5 :: b6 :: b7 :: f0 :: f1 :: f2 :: f3 :: t)
                                            (0 :: 0 :: 0 :: 0 :: 0 :: 0 :: 0 :: 0 :: g0 :: g1 :: g2 :: g3 :: u))
               = crc_packet_checksum (b0 :: b1 :: b2 :: b3 :: b4 :: b5 :: b6 :: b7 :: f0 :: f1 :: f2 :: f3 :: t)).
  { rewrite !crc_packet_checksum_eq. unfold crc_zero_field. cbn [crc_xor firstn skipn app].
    rewrite !Z.lxor_0_r, Hx. reflexivity. }
  rewrite Hcs, <- Hv. unfold crc_field, crc_at. cbn [crc_xor nth].
  (* byte ranges *)
  repeat (apply crc_bytes_ok_cons in Hbr; destruct Hbr as [? Hbr]).
  repeat (apply crc_bytes_ok_cons in Hbe; destruct Hbe as [? Hbe]).
  pose proof (crc_byte_lxor_range f0 g0 ltac:(lia) ltac:(lia)).
  pose proof (crc_byte_lxor_range f1 g1 ltac:(lia) ltac:(lia)).
  pose proof (crc_byte_lxor_range f2 g2 ltac:(lia) ltac:(lia)).
  pose proof (crc_byte_lxor_range f3 g3 ltac:(lia) ltac:(lia)).
  intro E.
  assert (Z.lxor f0 g0 = f0 /\ Z.lxor f1 g1 = f1 /\ Z.lxor f2 g2 = f2 /\ Z.lxor f3 g3 = f3) as (E0&E1&E2&E3) by lia.
  apply Hnz. cbn [length repeat].
  destruct (Z.eq_dec g0 0) as [->|N0]; [|exfalso; exact (crc_lxor_neq f0 g0 N0 E0)].
  destruct (Z.eq_dec g1 0) as [->|N1]; [|exfalso; exact (crc_lxor_neq f1 g1 N1 E1)].
  destruct (Z.eq_dec g2 0) as [->|N2]; [|exfalso; exact (crc_lxor_neq f2 g2 N2 E2)].
  destruct (Z.eq_dec g3 0) as [->|N3]; [|exfalso; exact (crc_lxor_neq f3 g3 N3 E3)].
  do 12 f_equal. exact Hu.
Qed.

(* consequence for the receiver: such a corrupted packet is discarded unless it now shows a zero field to an
   endpoint that accepts zero and it does not start with INIT / COOKIE-ECHO *)
Lemma crc_invalid_accepted_only_as_zero : forall recv_zero raw',
  crc_field raw' <> crc_packet_checksum raw' ->
  crc_accept recv_zero raw' = true ->
  crc_field raw' = 0 /\ recv_zero = true /\ crc_starts_mandatory raw' = false.
Proof.
  intros rz raw' Hne Ha. apply crc_accept_iff in Ha. destruct Ha as [_ [H|H]]; [congruence|exact H].
Qed.

(* error patterns: one flipped bit; any pattern confined to (up to) four consecutive bytes *)
Definition crc_err_window (n p : nat) (win : list Z) : list Z :=
  repeat 0 p ++ win ++ repeat 0 (n - p - length win).

Lemma crc_le_app : forall a b, crc_le (a ++ b) = crc_le a + 2 ^ Z.of_nat (8 * length a) * crc_le b.
Proof.
  induction a as [|x a IH]; intros b.
  - cbn [app crc_le length Nat.mul]. change (2 ^ Z.of_nat 0) with 1. lia.
  - cbn [app crc_le length]. rewrite IH.
    replace (8 * S (length a))%nat with (8 + 8 * length a)%nat by lia.
    rewrite Nat2Z.inj_add, Z.pow_add_r by lia. change (2 ^ Z.of_nat 8) with 256. lia.
Qed.

Lemma crc_le_zeros : forall n, crc_le (repeat 0 n) = 0.
Proof. induction n as [|n IH]; cbn [repeat crc_le]; lia. Qed.

Lemma crc_bytes_ok_zeros : forall n, crc_bytes_ok (repeat 0 n) = true.
Proof. induction n as [|n IH]; [reflexivity|]. cbn [repeat]. apply crc_bytes_ok_cons. split; [lia|exact IH]. Qed.

Lemma crc_window_syndrome : forall n p win,
  crc_bytes_ok win = true -> (length win <= 4)%nat -> crc_le win <> 0 ->
  0 < crc_update 0 (crc_err_window n p win) < crc_p32.
Proof.
  intros n p win Hb Hlw Hnz.
  pose proof (crc_le_range win Hb) as Hr.
  apply (crc_syndrome_burst _ (crc_le win) (Z.of_nat (8 * p))).
  - unfold crc_err_window. rewrite !crc_bytes_ok_app, !crc_bytes_ok_zeros, Hb. reflexivity.
  - split; [lia|]. unfold crc_p32. change 4294967296 with (2 ^ 32).
    apply Z.lt_le_trans with (2 ^ Z.of_nat (8 * length win)); [lia|].
    apply Z.pow_le_mono_r; lia.
  - lia.
  - unfold crc_err_window. rewrite !crc_le_app, !crc_le_zeros, repeat_length. ring.
Qed.

(* every single flipped bit (byte position p, bit k) in a message of any length n changes the CRC *)
Lemma crc_single_bit_syndrome : forall n p k, 0 <= k < 8 ->
  0 < crc_update 0 (crc_err_window n p [2 ^ k]) < crc_p32.
Proof.
  intros n p k Hk.
  assert (0 < 2 ^ k < 256).
  { split; [apply Z.pow_pos_nonneg; lia|]. change 256 with (2 ^ 8). apply Z.pow_lt_mono_r; lia. }
  apply crc_window_syndrome.
  - apply crc_bytes_ok_cons. split; [lia|reflexivity].
  - cbn [length]. lia.
  - cbn [crc_le]. lia.
Qed.

Lemma crc32c_single_bit_detected : forall a p k, 0 <= k < 8 -> (p < length a)%nat ->
  crc32c (crc_xor a (crc_err_window (length a) p [2 ^ k])) <> crc32c a.
Proof.
  intros a p k Hk Hp.
  assert (Hlen : length a = length (crc_err_window (length a) p [2 ^ k])).
  { unfold crc_err_window. rewrite !app_length, !repeat_length. cbn [length]. lia. }
  rewrite crc32c_lxor by exact Hlen.
  pose proof (crc_single_bit_syndrome (length a) p k Hk) as Hs.
  apply crc_lxor_neq. lia.
Qed.

Lemma crc32c_window_detected : forall a p win, crc_bytes_ok win = true ->
  (length win <= 4)%nat -> (p + length win <= length a)%nat -> crc_le win <> 0 ->
  crc32c (crc_xor a (crc_err_window (length a) p win)) <> crc32c a.
Proof.
  intros a p win Hb Hlw Hp Hnz.
  assert (Hlen : length a = length (crc_err_window (length a) p win)).
  { unfold crc_err_window. rewrite !app_length, !repeat_length. lia. }
  rewrite crc32c_lxor by exact Hlen.
  pose proof (crc_window_syndrome (length a) p win Hb Hlw Hnz) as Hs.
  apply crc_lxor_neq. lia.
Qed.

(* packet level, single flipped bit anywhere outside the checksum field *)
Lemma crc_window_outside_field : forall n p win, (12 <= n)%nat ->
  (p + length win <= 8)%nat \/ (12 <= p)%nat -> (p + length win <= n)%nat ->
  crc_outside_field (crc_err_window n p win).
Proof.
  intros n p win Hn Hpos Hfit. unfold crc_outside_field, crc_zero_field, crc_err_window.
  destruct Hpos as [Hlo|Hhi].
  - (* window within bytes 0..7 *)
    set (rest := repeat 0 (n - p - length win)).
    assert (Hr : rest = repeat 0 (8 - p - length win) ++ [0; 0; 0; 0] ++ repeat 0 (n - 12)).
    { unfold rest. change [0; 0; 0; 0] with (repeat 0 4). rewrite <- !repeat_app. f_equal. lia. }
    rewrite Hr.
    replace (repeat 0 p ++ win ++ repeat 0 (8 - p - length win) ++ [0; 0; 0; 0] ++ repeat 0 (n - 12))
      with ((repeat 0 p ++ win ++ repeat 0 (8 - p - length win)) ++ [0; 0; 0; 0] ++ repeat 0 (n - 12))
      by (rewrite <- !app_assoc; reflexivity).
    set (pre := repeat 0 p ++ win ++ repeat 0 (8 - p - length win)).
    assert (Hpl : length pre = 8%nat) by (unfold pre; rewrite !app_length, !repeat_length; lia).
    rewrite firstn_app, Hpl, Nat.sub_diag, firstn_all2 by lia. cbn [firstn]. rewrite app_nil_r.
    rewrite skipn_app, Hpl, skipn_all2 by lia. cbn [app Nat.sub skipn]. reflexivity.
  - (* window at or after byte 12 *)
    replace (repeat 0 p) with (repeat 0 8 ++ repeat 0 4 ++ repeat 0 (p - 12))
      by (rewrite <- !repeat_app; f_equal; lia).
    rewrite <- !app_assoc.
    rewrite firstn_app, repeat_length, firstn_all2 by (rewrite repeat_length; lia).
    cbn [Nat.sub firstn]. rewrite app_nil_r.
    rewrite skipn_app, repeat_length, skipn_all2 by (rewrite repeat_length; lia).
    cbn [Nat.sub app].
    change (skipn 4 (repeat 0 4 ++ repeat 0 (p - 12) ++ win ++ repeat 0 (n - p - length win)))
      with (repeat 0 (p - 12) ++ win ++ repeat 0 (n - p - length win)).
    reflexivity.
Qed.

Lemma crc_packet_window_rejected : forall recv_zero raw p win,
  c_packetHeaderSize <= crc_len raw ->
  crc_field raw = crc_packet_checksum raw ->
  crc_bytes_ok win = true -> (length win <= 4)%nat -> crc_le win <> 0 ->
  (p + length win <= 8)%nat \/ (12 <= p)%nat -> (p + length win <= length raw)%nat ->
  let raw' := crc_xor raw (crc_err_window (length raw) p win) in
  crc_field raw' = crc_field raw /\
  crc_field raw' <> crc_packet_checksum raw' /\
  (crc_field raw <> 0 \/ recv_zero = false \/ crc_starts_mandatory raw' = true -> crc_accept recv_zero raw' = false).
Proof.
  intros rz raw p win Hl Hv Hb Hlw Hnz Hpos Hfit raw'.
  assert (Hn : (12 <= length raw)%nat) by (unfold crc_len, c_packetHeaderSize in Hl; lia).
  assert (Hlen : length raw = length (crc_err_window (length raw) p win)).
  { unfold crc_err_window. rewrite !app_length, !repeat_length. lia. }
  pose proof (crc_window_outside_field (length raw) p win Hn Hpos Hfit) as Ho.
  destruct (crc_packet_checksum_xor_outside raw _ Hlen Hl Ho) as (Hc&Hf).
  fold raw' in Hc, Hf.
  pose proof (crc_window_syndrome (length raw) p win Hb Hlw Hnz) as Hs.
  assert (Hne : crc_field raw' <> crc_packet_checksum raw').
  { rewrite Hc, Hf, Hv. intro E. symmetry in E. apply crc_lxor_neq in E; [exact E|lia]. }
  split; [exact Hf|]. split; [exact Hne|].
  intros Hcase. destruct (crc_accept rz raw') eqn:Ha; [|reflexivity].
  destruct (crc_invalid_accepted_only_as_zero rz raw' Hne Ha) as (H0&Hz&Hm).
  destruct Hcase as [H|[H|H]]; congruence.
Qed.
