(* Executable model of the pion/sctp wire codec.  No proofs in this file.

   Modelled Go functions (see notes/C12.md for the full list):
     packet.unmarshal / packet.marshal(false)            (packet.go; CRC is an oracle input)
     chunkHeader.unmarshal / marshal / valueLength       (chunkheader.go)
     every chunk_*.go unmarshal/marshal reachable from packet.unmarshal / packet.marshal,
     (chunkHeartbeatAck.unmarshal is also called directly by the harness),
     paramHeader.unmarshal/marshal, buildParam and the eleven param_*.go,
     buildErrorCause, errorCauseHeader and the four error_cause_*.go.

   Conventions
   - a byte is a Z (0..255 for real inputs) in a [list Z]; big-endian fields by *256 / mod 256.
   - every Go slice expression / index / binary.BigEndian read is a *checked* read here
     ([cd_rd8], [cd_rd16], [cd_rd32], [cd_slice], [cd_from]) that yields [CPanic] exactly when the Go
     expression would panic.  No check is added that the Go code lacks.
   - Go `error` returns are [CErr code]; the code identifies the sentinel error that errors.Is
     finds first in the harness table (zz_verif_codec_test.go: codecErrTable).
   - loops that are not structurally bounded take fuel; exhaustion is [CFuel].
   - loops keep the absolute offsets of the Go code.
   - the quirks of the Go code are kept: what slice each chunk decoder is given, which chunk types
     packet.unmarshal knows, header fields that marshal does not overwrite (flags, raw),
     chunkHeartbeat.marshal falling back to the bare header when there is no parameter, missing
     padding after the last parameter, uint16 wrap of length fields.
   History: the model followed /repo through the fixes ff34a9b (ABORT/ERROR parse their own value),
   c4c4893 (HEARTBEAT-ACK case in packet.unmarshal), 46c3107 (chunkHeartbeat.marshal),
   eefb4f1 (INIT parameter loop guard `remaining >= 4`). *)
From Coq Require Import ZArith Bool List.
From Sctp Require Import Gen.
Import ListNotations.
Open Scope Z_scope.

(* ------------------------------------------------------------------ results *)

Inductive cres (A : Type) : Type :=
| COk (a : A)
| CErr (code : Z)
| CPanic
| CFuel.
Arguments COk {A} a.
Arguments CErr {A} code.
Arguments CPanic {A}.
Arguments CFuel {A}.

Definition cd_bind {A B : Type} (r : cres A) (f : A -> cres B) : cres B :=
  match r with
  | COk a => f a
  | CErr c => CErr c
  | CPanic => CPanic
  | CFuel => CFuel
  end.

Notation "x <- e ;; f" := (cd_bind e (fun x => f)) (at level 61, e at next level, right associativity).
Notation "' p <- e ;; f" := (cd_bind e (fun x => match x with p => f end))
  (at level 61, p pattern, e at next level, right associativity).

(* fmt.Errorf("%w: %v", outer, inner): errors.Is only sees the outer sentinel *)
Definition cd_wrap {A : Type} (code : Z) (r : cres A) : cres A :=
  match r with
  | CErr _ => CErr code
  | x => x
  end.

(* ------------------------------------------------------------------ error codes
   (index in codecErrTable of the harness) *)
Definition e_PacketRawTooSmall : Z := 1.
Definition e_ParseSCTPChunkNotEnoughData : Z := 2.
Definition e_UnmarshalUnknownChunkType : Z := 3.
Definition e_ChecksumMismatch : Z := 4.
Definition e_ChunkHeaderTooSmall : Z := 5.
Definition e_ChunkHeaderNotEnoughSpace : Z := 6.
Definition e_ChunkHeaderPaddingNonZero : Z := 7.
Definition e_ChunkPayloadSmall : Z := 8.
Definition e_ChunkTypeUnhandled : Z := 9.
Definition e_ChunkTypeNotSack : Z := 10.
Definition e_SackSizeNotLargeEnoughInfo : Z := 11.
Definition e_SackSizeNotMatchPredicted : Z := 12.
Definition e_ChunkTypeNotTypeInit : Z := 13.
Definition e_ChunkValueNotLongEnough : Z := 14.
Definition e_ChunkTypeInitFlagZero : Z := 15.
Definition e_ChunkTypeInitUnmarshalFailed : Z := 16.
Definition e_ChunkTypeNotInitAck : Z := 17.
Definition e_ChunkNotLongEnoughForParams : Z := 18.
Definition e_ChunkTypeInitAckFlagZero : Z := 19.
Definition e_InitAckUnmarshalFailed : Z := 20.
Definition e_ChunkTypeNotHeartbeat : Z := 21.
Definition e_HeartbeatNotLongEnoughInfo : Z := 22.
Definition e_ParseParamTypeFailed : Z := 23.
Definition e_HeartbeatParam : Z := 24.
Definition e_HeartbeatChunkUnmarshal : Z := 25.
Definition e_HeartbeatExtraNonZero : Z := 26.
Definition e_ChunkTypeNotHeartbeatAck : Z := 27.
Definition e_HeartbeatAckParams : Z := 28.
Definition e_HeartbeatAckNotHeartbeatInfo : Z := 29.
Definition e_HeartbeatAckMarshalParam : Z := 30.
Definition e_ChunkTypeNotAbort : Z := 31.
Definition e_BuildAbortChunkFailed : Z := 32.
Definition e_ChunkTypeNotCtError : Z := 33.
Definition e_BuildErrorChunkFailed : Z := 34.
Definition e_ChunkTypeNotShutdown : Z := 35.
Definition e_InvalidChunkSize : Z := 36.
Definition e_ChunkTypeNotShutdownAck : Z := 37.
Definition e_ChunkTypeNotShutdownComplete : Z := 38.
Definition e_ChunkTypeNotCookieEcho : Z := 39.
Definition e_ChunkTypeNotCookieAck : Z := 40.
Definition e_ChunkParseParamTypeFailed : Z := 41.
Definition e_MarshalStreamFailed : Z := 42.
Definition e_ChunkTooShort : Z := 43.
Definition e_IForwardTSNChunkTooShort : Z := 44.
Definition e_IForwardTSNChunkInvalidLength : Z := 45.
Definition e_IForwardTSNTooManyStreams : Z := 46.
Definition e_ParamHeaderTooShort : Z := 47.
Definition e_ParamHeaderSelfReportedLengthShorter : Z := 48.
Definition e_ParamHeaderSelfReportedLengthLonger : Z := 49.
Definition e_ParamHeaderParseFailed : Z := 50.
Definition e_ParamTypeUnhandled : Z := 51.
Definition e_SSNResetRequestParamTooShort : Z := 52.
Definition e_ReconfigRespParamTooShort : Z := 53.
Definition e_InvalidChunkLength : Z := 54.
Definition e_InvalidAlgorithmType : Z := 55.
Definition e_ZeroChecksumParamTooShort : Z := 56.
Definition e_InvalidSCTPChunk : Z := 57.
Definition e_ProtocolViolationUnmarshal : Z := 58.
Definition e_InitChunkParseParamTypeFailed : Z := 59.
Definition e_ParamPacketTooShort : Z := 60.
Definition e_HeartbeatMarshalNoInfo : Z := 61.

(* hmacAlgorithm constants of param_requested_hmac_algorithm.go (not exported by the translator) *)
Definition cd_hmacSHA128 : Z := 1.
Definition cd_hmacSHA256 : Z := 3.

(* ------------------------------------------------------------------ byte-slice primitives *)

Definition cd_len {A : Type} (l : list A) : Z := Z.of_nat (length l).
Definition cd_drop (n : Z) (l : list Z) : list Z := skipn (Z.to_nat n) l.
Definition cd_take (n : Z) (l : list Z) : list Z := firstn (Z.to_nat n) l.

(* raw[lo:hi] *)
Definition cd_slice (l : list Z) (lo hi : Z) : cres (list Z) :=
  if (lo <? 0) || (hi <? lo) || (cd_len l <? hi) then CPanic
  else COk (cd_take (hi - lo) (cd_drop lo l)).

(* raw[lo:] *)
Definition cd_from (l : list Z) (lo : Z) : cres (list Z) :=
  if (lo <? 0) || (cd_len l <? lo) then CPanic else COk (cd_drop lo l).

(* raw[off] *)
Definition cd_rd8 (l : list Z) (off : Z) : cres Z :=
  if off <? 0 then CPanic
  else match cd_drop off l with
       | a :: _ => COk a
       | _ => CPanic
       end.

(* binary.BigEndian.Uint16(raw[off:]) *)
Definition cd_rd16 (l : list Z) (off : Z) : cres Z :=
  if off <? 0 then CPanic
  else match cd_drop off l with
       | a :: b :: _ => COk (a * 256 + b)
       | _ => CPanic
       end.

(* binary.BigEndian.Uint32(raw[off:]) *)
Definition cd_rd32 (l : list Z) (off : Z) : cres Z :=
  if off <? 0 then CPanic
  else match cd_drop off l with
       | a :: b :: c :: d :: _ => COk (((a * 256 + b) * 256 + c) * 256 + d)
       | _ => CPanic
       end.

(* binary.BigEndian.PutUint16 / PutUint32 into a fresh buffer, value already reduced to its width *)
Definition cd_e16 (v : Z) : list Z := [(v / 256) mod 256; v mod 256].
Definition cd_e32 (v : Z) : list Z :=
  [(v / 16777216) mod 256; (v / 65536) mod 256; (v / 256) mod 256; v mod 256].

Definition cd_zeros (n : Z) : list Z := repeat 0 (Z.to_nat n).

(* allZero *)
Definition cd_all_zero (l : list Z) : bool := forallb (fun b => b =? 0) l.

Definition cd_b2z (b : bool) : Z := if b then 1 else 0.

(* ------------------------------------------------------------------ data types *)

Inductive cd_param : Type :=
| PmHeartbeatInfo (info : list Z)
| PmStateCookie (cookie : list Z)
| PmOutReset (reqSeq respSeq lastTSN : Z) (sids : list Z)
| PmReconfigResp (respSeq result : Z)
| PmEcn
| PmZeroChecksum (edmid : Z)
| PmRandom (data : list Z)
| PmChunkList (types : list Z)
| PmReqHmac (algos : list Z)
| PmSupportedExt (types : list Z)
| PmFwdTsnSupp.

(* errorCause implementations; the header's code is kept where marshal does not overwrite it *)
Inductive cd_cause : Type :=
| EcInvalidMandatory (code : Z) (raw : list Z)   (* errorCauseInvalidMandatoryParameter *)
| EcUnrecognizedChunk (chunk : list Z)           (* errorCauseUnrecognizedChunkType *)
| EcProtocolViolation (code : Z) (info : list Z) (* errorCauseProtocolViolation *)
| EcUserAbort (reason : list Z)                  (* errorCauseUserInitiatedAbort *)
| EcOther (code : Z) (raw : list Z).             (* errorCauseHeader *)

Inductive cd_chunk : Type :=
(* chunkPayloadData; idata = isIData() *)
| CkData (idata unordered beginning ending immediate : bool)
         (tsn sid ssn mid fsn ppi : Z) (data : list Z)
(* chunkSelectiveAck; flags = chunkHeader.flags (never written by marshal) *)
| CkSack (flags cum arwnd : Z) (gaps : list (Z * Z)) (dups : list Z)
(* chunkInit (ack=false) / chunkInitAck (ack=true); unrec = unrecognizedParams as (typ, raw) *)
| CkInit (ack : bool) (flags tag arwnd nout nin itsn : Z) (params : list cd_param)
         (unrec : list (Z * list Z))
(* chunkHeartbeat: marshal encodes the bare header (typ, flags, raw as they are) when there is no
   parameter, so the header fields are part of the value *)
| CkHeartbeat (htyp hflags : Z) (hraw : list Z) (params : list cd_param)
| CkHeartbeatAck (flags : Z) (params : list cd_param)
| CkAbort (causes : list cd_cause)
| CkError (causes : list cd_cause)
| CkShutdown (flags cum : Z)
| CkShutdownAck (flags : Z) (raw : list Z)
| CkShutdownComplete (flags : Z) (raw : list Z)
| CkCookieEcho (flags : Z) (cookie : list Z)
| CkCookieAck (flags : Z) (raw : list Z)
| CkReconfig (flags : Z) (pa : cd_param) (pb : option cd_param)
| CkForwardTSN (flags ntsn : Z) (streams : list (Z * Z))
| CkIForwardTSN (flags ntsn : Z) (streams : list (Z * bool * Z)).

Record cd_packet : Type := mkPacket {
  pk_sport : Z;
  pk_dport : Z;
  pk_vtag : Z;
  pk_chunks : list cd_chunk
}.

(* ------------------------------------------------------------------ chunkHeader *)

Record cd_hdr : Type := mkHdr { h_typ : Z; h_flags : Z; h_raw : list Z }.

(* for i := lengthAfterValue; i > 0; i-- { if raw[base + (i-1)] != 0 { error } } *)
Fixpoint cd_pad_check (raw : list Z) (base : Z) (i : nat) : cres unit :=
  match i with
  | O => COk tt
  | S j =>
      b <- cd_rd8 raw (base + Z.of_nat j) ;;
      if b =? 0 then cd_pad_check raw base j else CErr e_ChunkHeaderPaddingNonZero
  end.

(* chunkHeader.unmarshal *)
Definition cd_dec_hdr (raw : list Z) : cres cd_hdr :=
  let n := cd_len raw in
  if n <? c_chunkHeaderSize then CErr e_ChunkHeaderTooSmall
  else
    typ <- cd_rd8 raw 0 ;;
    flags <- cd_rd8 raw 1 ;;
    len <- cd_rd16 raw 2 ;;
    let vl := wrap16 (len - c_chunkHeaderSize) in          (* uint16 subtraction *)
    let after := n - (c_chunkHeaderSize + vl) in
    if after <? 0 then CErr e_ChunkHeaderNotEnoughSpace
    else
      _ <- (if after <? 4 then cd_pad_check raw (c_chunkHeaderSize + vl) (Z.to_nat after)
            else COk tt) ;;
      v <- cd_slice raw c_chunkHeaderSize (c_chunkHeaderSize + vl) ;;
      COk (mkHdr typ flags v).

(* chunkHeader.marshal *)
Definition cd_enc_hdr (typ flags : Z) (raw : list Z) : list Z :=
  [typ; flags] ++ cd_e16 (wrap16 (cd_len raw + c_chunkHeaderSize)) ++ raw.

(* ------------------------------------------------------------------ paramHeader and params *)

Record cd_phdr : Type := mkPhdr { ph_typ : Z; ph_len : Z; ph_raw : list Z }.

(* paramHeader.unmarshal (parseParamType inlined) *)
Definition cd_dec_phdr (raw : list Z) : cres cd_phdr :=
  let n := cd_len raw in
  if n <? c_paramHeaderLength then CErr e_ParamHeaderTooShort
  else
    plen <- cd_rd16 raw 2 ;;
    if plen <? c_paramHeaderLength then CErr e_ParamHeaderSelfReportedLengthShorter
    else if n <? plen then CErr e_ParamHeaderSelfReportedLengthLonger
    else
      typ <- (if n <? 2 then CErr e_ParamHeaderParseFailed else cd_rd16 raw 0) ;;
      v <- cd_slice raw c_paramHeaderLength plen ;;
      COk (mkPhdr typ plen v).

(* paramHeader.marshal *)
Definition cd_enc_phdr (typ : Z) (raw : list Z) : list Z :=
  cd_e16 typ ++ cd_e16 (wrap16 (c_paramHeaderLength + cd_len raw)) ++ raw.

(* n consecutive big-endian uint16 starting at raw[off] (step 2) *)
Fixpoint cd_rd16s (n : nat) (raw : list Z) (off : Z) : cres (list Z) :=
  match n with
  | O => COk []
  | S k => v <- cd_rd16 raw off ;; tl <- cd_rd16s k raw (off + 2) ;; COk (v :: tl)
  end.

(* n consecutive big-endian uint32 starting at raw[off] (step 4) *)
Fixpoint cd_rd32s (n : nat) (raw : list Z) (off : Z) : cres (list Z) :=
  match n with
  | O => COk []
  | S k => v <- cd_rd32 raw off ;; tl <- cd_rd32s k raw (off + 4) ;; COk (v :: tl)
  end.

(* paramRequestedHMACAlgorithm.unmarshal loop: for i < len(raw) { a := Uint16(raw[i:]); ... i += 2 } *)
Fixpoint cd_dec_hmacs (n : nat) (raw : list Z) (off : Z) : cres (list Z) :=
  match n with
  | O => COk []
  | S k =>
      a <- cd_rd16 raw off ;;
      if (a =? cd_hmacSHA128) || (a =? cd_hmacSHA256) then
        tl <- cd_dec_hmacs k raw (off + 2) ;; COk (a :: tl)
      else CErr e_InvalidAlgorithmType
  end.

(* buildParam: result = (param, param.length()) ; length() is the header's self-reported length *)
Definition cd_build_param (typ : Z) (raw : list Z) : cres (cd_param * Z) :=
  if typ =? c_forwardTSNSupp then
    h <- cd_dec_phdr raw ;; COk (PmFwdTsnSupp, ph_len h)
  else if typ =? c_supportedExt then
    h <- cd_dec_phdr raw ;; COk (PmSupportedExt (ph_raw h), ph_len h)
  else if typ =? c_ecnCapable then
    h <- cd_dec_phdr raw ;; COk (PmEcn, ph_len h)
  else if typ =? c_random then
    h <- cd_dec_phdr raw ;; COk (PmRandom (ph_raw h), ph_len h)
  else if typ =? c_reqHMACAlgo then
    h <- cd_dec_phdr raw ;;
    let v := ph_raw h in
    if (cd_len v) mod 2 =? 1 then CErr e_InvalidChunkLength
    else
      al <- cd_dec_hmacs (Z.to_nat (cd_len v / 2)) v 0 ;;
      COk (PmReqHmac al, ph_len h)
  else if typ =? c_chunkList then
    h <- cd_dec_phdr raw ;; COk (PmChunkList (ph_raw h), ph_len h)
  else if typ =? c_stateCookie then
    h <- cd_dec_phdr raw ;; COk (PmStateCookie (ph_raw h), ph_len h)
  else if typ =? c_heartbeatInfo then
    h <- cd_dec_phdr raw ;; COk (PmHeartbeatInfo (ph_raw h), ph_len h)
  else if typ =? c_outSSNResetReq then
    h <- cd_dec_phdr raw ;;
    let v := ph_raw h in
    if cd_len v <? c_paramOutgoingResetRequestStreamIdentifiersOffset then
      CErr e_SSNResetRequestParamTooShort
    else
      a <- cd_rd32 v 0 ;;
      b <- cd_rd32 v 4 ;;
      c <- cd_rd32 v 8 ;;
      let lim := (cd_len v - c_paramOutgoingResetRequestStreamIdentifiersOffset) / 2 in
      sids <- cd_rd16s (Z.to_nat lim) v c_paramOutgoingResetRequestStreamIdentifiersOffset ;;
      COk (PmOutReset a b c sids, ph_len h)
  else if typ =? c_reconfigResp then
    h <- cd_dec_phdr raw ;;
    let v := ph_raw h in
    if cd_len v <? 8 then CErr e_ReconfigRespParamTooShort
    else
      a <- cd_rd32 v 0 ;;
      b <- cd_rd32 v 4 ;;
      COk (PmReconfigResp a b, ph_len h)
  else if typ =? c_zeroChecksumAcceptable then
    h <- cd_dec_phdr raw ;;
    let v := ph_raw h in
    if cd_len v <? 4 then CErr e_ZeroChecksumParamTooShort
    else
      a <- cd_rd32 v 0 ;;
      COk (PmZeroChecksum a, ph_len h)
  else CErr e_ParamTypeUnhandled.

(* param.marshal (never fails) *)
Definition cd_enc_param (p : cd_param) : list Z :=
  match p with
  | PmHeartbeatInfo info => cd_enc_phdr c_heartbeatInfo info
  | PmStateCookie c => cd_enc_phdr c_stateCookie c
  | PmOutReset a b c sids =>
      cd_enc_phdr c_outSSNResetReq (cd_e32 a ++ cd_e32 b ++ cd_e32 c ++ flat_map cd_e16 sids)
  | PmReconfigResp a b => cd_enc_phdr c_reconfigResp (cd_e32 a ++ cd_e32 b)
  | PmEcn => cd_enc_phdr c_ecnCapable []
  | PmZeroChecksum e => cd_enc_phdr c_zeroChecksumAcceptable (cd_e32 e)
  | PmRandom d => cd_enc_phdr c_random d
  | PmChunkList ts => cd_enc_phdr c_chunkList ts
  | PmReqHmac al => cd_enc_phdr c_reqHMACAlgo (flat_map cd_e16 al)
  | PmSupportedExt ts => cd_enc_phdr c_supportedExt ts
  | PmFwdTsnSupp => cd_enc_phdr c_forwardTSNSupp []
  end.

Definition cd_is_hbinfo (p : cd_param) : bool :=
  match p with PmHeartbeatInfo _ => true | _ => false end.

(* ------------------------------------------------------------------ error causes *)

(* errorCauseHeader.unmarshal: (code, len, raw) *)
Definition cd_dec_chdr (raw : list Z) : cres (Z * Z * list Z) :=
  code <- cd_rd16 raw 0 ;;
  len <- cd_rd16 raw 2 ;;
  if (len <? c_errorCauseHeaderLength) || (cd_len raw <? len) then CErr e_InvalidSCTPChunk
  else
    v <- cd_slice raw c_errorCauseHeaderLength (c_errorCauseHeaderLength + wrap16 (len - c_errorCauseHeaderLength)) ;;
    COk (code, len, v).

(* buildErrorCause: result = (cause, cause.length()) *)
Definition cd_build_cause (raw : list Z) : cres (cd_cause * Z) :=
  c <- cd_rd16 raw 0 ;;
  if c =? c_invalidMandatoryParameter then
    '(code, len, v) <- cd_dec_chdr raw ;; COk (EcInvalidMandatory code v, len)
  else if c =? c_unrecognizedChunkType then
    '(code, len, v) <- cd_dec_chdr raw ;; COk (EcUnrecognizedChunk v, len)
  else if c =? c_protocolViolation then
    '(code, len, v) <- cd_wrap e_ProtocolViolationUnmarshal (cd_dec_chdr raw) ;;
    COk (EcProtocolViolation code v, len)
  else if c =? c_userInitiatedAbort then
    '(code, len, v) <- cd_dec_chdr raw ;; COk (EcUserAbort v, len)
  else
    '(code, len, v) <- cd_dec_chdr raw ;; COk (EcOther code v, len).

(* errorCauseHeader.marshal:
     e.len = uint16(len(raw)) + 4 ; buf := make([]byte, e.len) ; PutUint16(buf[0:]) ; PutUint16(buf[2:]) ;
     copy(buf[4:], raw)
   buf[2:] / buf[4:] panic when e.len wrapped below 4; copy truncates otherwise *)
Definition cd_enc_chdr (code : Z) (raw : list Z) : cres (list Z) :=
  let len := wrap16 (wrap16 (cd_len raw) + c_errorCauseHeaderLength) in
  if len <? c_errorCauseHeaderLength then CPanic
  else COk (cd_e16 code ++ cd_e16 len ++ cd_take (len - c_errorCauseHeaderLength) raw).

Definition cd_enc_cause (c : cd_cause) : cres (list Z) :=
  match c with
  | EcInvalidMandatory code raw => cd_enc_chdr code raw
  | EcUnrecognizedChunk ch => cd_enc_chdr c_unrecognizedChunkType ch
  | EcProtocolViolation code info => cd_enc_chdr code info
  | EcUserAbort r => cd_enc_chdr c_userInitiatedAbort r
  | EcOther code raw => cd_enc_chdr code raw
  end.

Fixpoint cd_enc_causes (cs : list cd_cause) : cres (list Z) :=
  match cs with
  | [] => COk []
  | c :: tl => b <- cd_enc_cause c ;; r <- cd_enc_causes tl ;; COk (b ++ r)
  end.

(* chunkAbort.unmarshal / chunkError.unmarshal loop:
     value := a.raw ; offset := 0
     for len(value)-offset >= 4 { e := buildErrorCause(value[offset:]) ; offset += e.length() }
   [raw] here is the chunk's own value. *)
Fixpoint cd_dec_causes (fuel : nat) (raw : list Z) (n offset : Z) : cres (list cd_cause) :=
  match fuel with
  | O => CFuel
  | S f =>
      if n - offset >=? 4 then
        sub <- cd_from raw offset ;;
        '(c, clen) <- cd_build_cause sub ;;
        tl <- cd_dec_causes f raw n (offset + clen) ;;
        COk (c :: tl)
      else COk []
  end.

(* ------------------------------------------------------------------ chunk decoders
   each takes the slice packet.unmarshal hands over (the rest of the packet) and returns
   (chunk, valueLength()) *)

Definition cd_flag (flags bit : Z) : bool := (flags / bit) mod 2 =? 1.

(* chunkPayloadData.unmarshal *)
Definition cd_dec_data (raw : list Z) : cres (cd_chunk * Z) :=
  h <- cd_dec_hdr raw ;;
  let fl := h_flags h in
  let v := h_raw h in
  let imm := cd_flag fl c_payloadDataImmediateSACK in
  let un := cd_flag fl c_payloadDataUnorderedBitmask in
  let bg := cd_flag fl c_payloadDataBeginingFragmentBitmask in
  let en := cd_flag fl c_payloadDataEndingFragmentBitmask in
  if h_typ h =? c_ctPayloadData then
    if cd_len v <? c_payloadDataHeaderSize then CErr e_ChunkPayloadSmall
    else
      tsn <- cd_rd32 v 0 ;;
      sid <- cd_rd16 v 4 ;;
      ssn <- cd_rd16 v 6 ;;
      ppi <- cd_rd32 v 8 ;;
      ud <- cd_from v c_payloadDataHeaderSize ;;
      COk (CkData false un bg en imm tsn sid ssn 0 0 ppi ud, cd_len v)
  else if h_typ h =? c_ctIData then
    if cd_len v <? c_iDataHeaderSize then CErr e_ChunkPayloadSmall
    else
      tsn <- cd_rd32 v 0 ;;
      sid <- cd_rd16 v 4 ;;
      mid <- cd_rd32 v 8 ;;
      w <- cd_rd32 v 12 ;;
      ud <- cd_from v c_iDataHeaderSize ;;
      COk (CkData true un bg en imm tsn sid (wrap16 mid) mid
                  (if bg then 0 else w) (if bg then w else 0) ud, cd_len v)
  else CErr e_ChunkTypeUnhandled.

(* gap ack blocks: n entries of (start,end) from raw[off] *)
Fixpoint cd_dec_gaps (n : nat) (raw : list Z) (off : Z) : cres (list (Z * Z)) :=
  match n with
  | O => COk []
  | S k =>
      s <- cd_rd16 raw off ;;
      e <- cd_rd16 raw (off + 2) ;;
      tl <- cd_dec_gaps k raw (off + 4) ;;
      COk ((s, e) :: tl)
  end.

(* chunkSelectiveAck.unmarshal *)
Definition cd_dec_sack (raw : list Z) : cres (cd_chunk * Z) :=
  h <- cd_dec_hdr raw ;;
  if negb (h_typ h =? c_ctSack) then CErr e_ChunkTypeNotSack
  else
    let v := h_raw h in
    let n := cd_len v in
    if n <? c_selectiveAckHeaderSize then CErr e_SackSizeNotLargeEnoughInfo
    else
      cum <- cd_rd32 v 0 ;;
      arwnd <- cd_rd32 v 4 ;;
      ng <- cd_rd16 v 8 ;;
      nd <- cd_rd16 v 10 ;;
      if negb (n =? c_selectiveAckHeaderSize + (4 * ng + 4 * nd)) then CErr e_SackSizeNotMatchPredicted
      else
        gaps <- cd_dec_gaps (Z.to_nat ng) v c_selectiveAckHeaderSize ;;
        dups <- cd_rd32s (Z.to_nat nd) v (c_selectiveAckHeaderSize + 4 * ng) ;;
        COk (CkSack (h_flags h) cum arwnd gaps dups, n).

(* chunkInitCommon.unmarshal parameter loop:
     offset := 16; remaining := len(raw) - offset
     for remaining > 0 { if remaining >= 4 { ... } else { break } } *)
Fixpoint cd_init_params (fuel : nat) (raw : list Z) (offset remaining : Z)
  : cres (list cd_param * list (Z * list Z)) :=
  match fuel with
  | O => CFuel
  | S f =>
      if remaining >? 0 then
        if remaining >=? c_initOptionalVarHeaderLength then
          sub <- cd_from raw offset ;;
          h <- cd_wrap e_InitChunkParseParamTypeFailed (cd_dec_phdr sub) ;;
          let adv := ph_len h + getPadding (ph_len h) in
          match cd_build_param (ph_typ h) sub with
          | COk (p, _) =>
              '(ps, us) <- cd_init_params f raw (offset + adv) (remaining - adv) ;;
              COk (p :: ps, us)
          | CErr _ =>
              '(ps, us) <- cd_init_params f raw (offset + adv) (remaining - adv) ;;
              COk (ps, (ph_typ h, ph_raw h) :: us)
          | CPanic => CPanic
          | CFuel => CFuel
          end
        else COk ([], [])
      else COk ([], [])
  end.

(* chunkInit.unmarshal / chunkInitAck.unmarshal (+ chunkInitCommon.unmarshal) *)
Definition cd_dec_init (ack : bool) (raw : list Z) : cres (cd_chunk * Z) :=
  h <- cd_dec_hdr raw ;;
  let v := h_raw h in
  let n := cd_len v in
  if negb (h_typ h =? (if ack then c_ctInitAck else c_ctInit)) then
    CErr (if ack then e_ChunkTypeNotInitAck else e_ChunkTypeNotTypeInit)
  else if n <? c_initChunkMinLength then
    CErr (if ack then e_ChunkNotLongEnoughForParams else e_ChunkValueNotLongEnough)
  else if negb (h_flags h =? 0) then
    CErr (if ack then e_ChunkTypeInitAckFlagZero else e_ChunkTypeInitFlagZero)
  else
    cd_wrap (if ack then e_InitAckUnmarshalFailed else e_ChunkTypeInitUnmarshalFailed)
      (tag <- cd_rd32 v 0 ;;
       arwnd <- cd_rd32 v 4 ;;
       nout <- cd_rd16 v 8 ;;
       nin <- cd_rd16 v 10 ;;
       itsn <- cd_rd32 v 12 ;;
       '(ps, us) <- cd_init_params (S (Z.to_nat n)) v c_initChunkMinLength (n - c_initChunkMinLength) ;;
       COk (CkInit ack (h_flags h) tag arwnd nout nin itsn ps us, n)).

(* the common part of chunkHeartbeat.unmarshal and chunkHeartbeatAck.unmarshal after the type check;
   e1..e5: the sentinel each step is wrapped in *)
Definition cd_dec_hb_params (v : list Z) (eShort eType eParam eHdr eBuild : Z) : cres (list cd_param) :=
  let n := cd_len v in
  if n =? 0 then COk []
  else if n <? c_initOptionalVarHeaderLength then CErr eShort
  else
    pt <- (if n <? 2 then CErr eType else cd_rd16 v 0) ;;
    if negb (pt =? c_heartbeatInfo) then CErr eParam
    else
      ph <- cd_wrap eHdr (cd_dec_phdr v) ;;
      let plen := ph_len ph in
      if (plen <? c_initOptionalVarHeaderLength) || (n <? plen) then CErr eShort
      else
        sub <- cd_slice v 0 plen ;;
        '(p, _) <- cd_wrap eBuild (cd_build_param pt sub) ;;
        rem <- cd_from v plen ;;
        if (0 <? cd_len rem) && negb (cd_all_zero rem) then CErr e_HeartbeatExtraNonZero
        else COk [p].

(* chunkHeartbeat.unmarshal *)
Definition cd_dec_heartbeat (raw : list Z) : cres (cd_chunk * Z) :=
  h <- cd_dec_hdr raw ;;
  if negb (h_typ h =? c_ctHeartbeat) then CErr e_ChunkTypeNotHeartbeat
  else
    ps <- cd_dec_hb_params (h_raw h) e_HeartbeatNotLongEnoughInfo e_ParseParamTypeFailed e_HeartbeatParam
                           e_ParseParamTypeFailed e_HeartbeatChunkUnmarshal ;;
    COk (CkHeartbeat (h_typ h) (h_flags h) (h_raw h) ps, cd_len (h_raw h)).

(* chunkHeartbeatAck.unmarshal *)
Definition cd_dec_heartbeat_ack (raw : list Z) : cres (cd_chunk * Z) :=
  h <- cd_dec_hdr raw ;;
  if negb (h_typ h =? c_ctHeartbeatAck) then CErr e_ChunkTypeNotHeartbeatAck
  else
    ps <- cd_dec_hb_params (h_raw h) e_HeartbeatAckParams e_HeartbeatAckParams e_HeartbeatAckNotHeartbeatInfo
                           e_HeartbeatAckParams e_HeartbeatAckMarshalParam ;;
    COk (CkHeartbeatAck (h_flags h) ps, cd_len (h_raw h)).

(* chunkAbort.unmarshal / chunkError.unmarshal: causes are scanned in the chunk's own value *)
Definition cd_dec_abort (is_error : bool) (raw : list Z) : cres (cd_chunk * Z) :=
  h <- cd_dec_hdr raw ;;
  if negb (h_typ h =? (if is_error then c_ctError else c_ctAbort)) then
    CErr (if is_error then e_ChunkTypeNotCtError else e_ChunkTypeNotAbort)
  else
    let v := h_raw h in
    let n := cd_len v in
    cs <- cd_wrap (if is_error then e_BuildErrorChunkFailed else e_BuildAbortChunkFailed)
                  (cd_dec_causes (S (Z.to_nat n)) v n 0) ;;
    COk (if is_error then CkError cs else CkAbort cs, cd_len (h_raw h)).

(* chunkShutdown.unmarshal *)
Definition cd_dec_shutdown (raw : list Z) : cres (cd_chunk * Z) :=
  h <- cd_dec_hdr raw ;;
  if negb (h_typ h =? c_ctShutdown) then CErr e_ChunkTypeNotShutdown
  else if negb (cd_len (h_raw h) =? c_cumulativeTSNAckLength) then CErr e_InvalidChunkSize
  else
    cum <- cd_rd32 (h_raw h) 0 ;;
    COk (CkShutdown (h_flags h) cum, cd_len (h_raw h)).

(* chunkShutdownAck / chunkShutdownComplete / chunkCookieAck / chunkCookieEcho .unmarshal *)
Definition cd_dec_plain (typ err : Z) (mk : Z -> list Z -> cd_chunk) (raw : list Z) : cres (cd_chunk * Z) :=
  h <- cd_dec_hdr raw ;;
  if negb (h_typ h =? typ) then CErr err
  else COk (mk (h_flags h) (h_raw h), cd_len (h_raw h)).

(* chunkReconfig.unmarshal (no type check in the Go code) *)
Definition cd_dec_reconfig (raw : list Z) : cres (cd_chunk * Z) :=
  h <- cd_dec_hdr raw ;;
  let v := h_raw h in
  let n := cd_len v in
  pt <- (if n <? 2 then CErr e_ChunkParseParamTypeFailed else cd_rd16 v 0) ;;
  '(a, alen) <- cd_build_param pt v ;;
  let offset := alen + getPadding alen in
  if n >? offset then
    sub <- cd_from v offset ;;
    pt2 <- (if cd_len sub <? 2 then CErr e_ChunkParseParamTypeFailed else cd_rd16 sub 0) ;;
    '(b, _) <- cd_build_param pt2 sub ;;
    COk (CkReconfig (h_flags h) a (Some b), n)
  else COk (CkReconfig (h_flags h) a None, n).

(* chunkForwardTSN.unmarshal stream loop:
     offset := 4; remaining := len(raw) - offset
     for remaining > 0 { s.unmarshal(raw[offset:]) ; offset += 4 ; remaining -= 4 } *)
Fixpoint cd_dec_fwd_streams (fuel : nat) (raw : list Z) (offset remaining : Z) : cres (list (Z * Z)) :=
  match fuel with
  | O => CFuel
  | S f =>
      if remaining >? 0 then
        sub <- cd_from raw offset ;;
        if cd_len sub <? c_forwardTSNStreamLength then CErr e_MarshalStreamFailed
        else
          sid <- cd_rd16 sub 0 ;;
          ssn <- cd_rd16 sub 2 ;;
          tl <- cd_dec_fwd_streams f raw (offset + c_forwardTSNStreamLength) (remaining - c_forwardTSNStreamLength) ;;
          COk ((sid, ssn) :: tl)
      else COk []
  end.

(* chunkForwardTSN.unmarshal (no type check in the Go code) *)
Definition cd_dec_fwd (raw : list Z) : cres (cd_chunk * Z) :=
  h <- cd_dec_hdr raw ;;
  let v := h_raw h in
  let n := cd_len v in
  if n <? c_newCumulativeTSNLength then CErr e_ChunkTooShort
  else
    ntsn <- cd_rd32 v 0 ;;
    ss <- cd_dec_fwd_streams (S (Z.to_nat n)) v c_newCumulativeTSNLength (n - c_newCumulativeTSNLength) ;;
    COk (CkForwardTSN (h_flags h) ntsn ss, n).

(* normalizeIForwardTSNStreams: one entry per (identifier, unordered), first position kept,
   largest message identifier (sna32LT) kept *)
Fixpoint cd_ifwd_insert (norm : list (Z * bool * Z)) (s : Z * bool * Z) : list (Z * bool * Z) :=
  match norm with
  | [] => [s]
  | (id, u, m) :: tl =>
      let '(sid, su, sm) := s in
      if (id =? sid) && Bool.eqb u su then
        (id, u, if sna32LT m sm then sm else m) :: tl
      else (id, u, m) :: cd_ifwd_insert tl s
  end.

Definition cd_ifwd_normalize (l : list (Z * bool * Z)) : list (Z * bool * Z) :=
  if cd_len l <? 2 then l else fold_left cd_ifwd_insert l [].

(* count entries of 8 bytes from raw[off]: s.unmarshal(raw[offset : offset+8]) *)
Fixpoint cd_dec_ifwd_streams (n : nat) (raw : list Z) (off : Z) : cres (list (Z * bool * Z)) :=
  match n with
  | O => COk []
  | S k =>
      sub <- cd_slice raw off (off + c_iForwardTSNEntryLength) ;;
      if cd_len sub <? c_iForwardTSNEntryLength then CErr e_MarshalStreamFailed
      else
        sid <- cd_rd16 sub 0 ;;
        fl <- cd_rd16 sub 2 ;;
        mid <- cd_rd32 sub 4 ;;
        tl <- cd_dec_ifwd_streams k raw (off + c_iForwardTSNEntryLength) ;;
        COk ((sid, fl mod 2 =? 1, mid) :: tl)
  end.

(* chunkIForwardTSN.unmarshal (no type check in the Go code) *)
Definition cd_dec_ifwd (raw : list Z) : cres (cd_chunk * Z) :=
  h <- cd_dec_hdr raw ;;
  let v := h_raw h in
  let n := cd_len v in
  if n <? c_newCumulativeTSNLength then CErr e_IForwardTSNChunkTooShort
  else
    ntsn <- cd_rd32 v 0 ;;
    let sb := n - c_newCumulativeTSNLength in
    if negb (sb mod c_iForwardTSNEntryLength =? 0) then CErr e_MarshalStreamFailed
    else
      let cnt := sb / c_iForwardTSNEntryLength in
      if cnt >? c_maxIForwardTSNStreams then CErr e_IForwardTSNTooManyStreams
      else
        ss <- cd_dec_ifwd_streams (Z.to_nat cnt) v c_newCumulativeTSNLength ;;
        COk (CkIForwardTSN (h_flags h) ntsn (cd_ifwd_normalize ss), n).

(* the type switch of packet.unmarshal + dataChunk.unmarshal(remaining) *)
Definition cd_dec_chunk (raw : list Z) : cres (cd_chunk * Z) :=
  t <- cd_rd8 raw 0 ;;
  if t =? c_ctInit then cd_dec_init false raw
  else if t =? c_ctInitAck then cd_dec_init true raw
  else if t =? c_ctAbort then cd_dec_abort false raw
  else if t =? c_ctCookieEcho then cd_dec_plain c_ctCookieEcho e_ChunkTypeNotCookieEcho CkCookieEcho raw
  else if t =? c_ctCookieAck then cd_dec_plain c_ctCookieAck e_ChunkTypeNotCookieAck CkCookieAck raw
  else if t =? c_ctHeartbeat then cd_dec_heartbeat raw
  else if t =? c_ctHeartbeatAck then cd_dec_heartbeat_ack raw
  else if t =? c_ctPayloadData then cd_dec_data raw
  else if t =? c_ctIData then cd_dec_data raw
  else if t =? c_ctSack then cd_dec_sack raw
  else if t =? c_ctReconfig then cd_dec_reconfig raw
  else if t =? c_ctForwardTSN then cd_dec_fwd raw
  else if t =? c_ctIForwardTSN then cd_dec_ifwd raw
  else if t =? c_ctError then cd_dec_abort true raw
  else if t =? c_ctShutdown then cd_dec_shutdown raw
  else if t =? c_ctShutdownAck then cd_dec_plain c_ctShutdownAck e_ChunkTypeNotShutdownAck CkShutdownAck raw
  else if t =? c_ctShutdownComplete then
    cd_dec_plain c_ctShutdownComplete e_ChunkTypeNotShutdownComplete CkShutdownComplete raw
  else CErr e_UnmarshalUnknownChunkType.

(* ------------------------------------------------------------------ packet.unmarshal *)

(* the chunk loop, written on the remaining slice raw[offset:] ([n] = len(raw) - offset, may go
   negative after the last chunk exactly as offset may pass len(raw)):
     for offset < len(raw) { remaining := raw[offset:] ; if len(remaining) < 4 {error} ; ... ;
                             offset += 4 + valueLength + padding }
     if offset != len(raw) {error} *)
Fixpoint cd_dec_chunks (fuel : nat) (rem : list Z) : cres (list cd_chunk) :=
  match fuel with
  | O => CFuel
  | S f =>
      let n := cd_len rem in
      if 0 <? n then
        if n <? c_chunkHeaderSize then CErr e_ParseSCTPChunkNotEnoughData
        else
          '(c, vl) <- cd_dec_chunk rem ;;
          let adv := c_chunkHeaderSize + vl + getPadding vl in
          if n <? adv then CErr e_ParseSCTPChunkNotEnoughData   (* offset > len(raw): loop ends, overshoot *)
          else
            tl <- cd_dec_chunks f (cd_drop adv rem) ;;
            COk (c :: tl)
      else COk []
  end.

(* packet.unmarshal(doChecksum, raw).  [ck_ok] is the oracle
   "generatePacketChecksum(raw) == binary.LittleEndian.Uint32(raw[8:])" (CRC32c is not modelled here). *)
Definition cd_dec_packet (doChecksum ck_ok : bool) (raw : list Z) : cres cd_packet :=
  let n := cd_len raw in
  if n <? c_packetHeaderSize then CErr e_PacketRawTooSmall
  else
    dc <- (if c_packetHeaderSize + c_chunkHeaderSize <=? n then
             t <- cd_rd8 raw c_packetHeaderSize ;;
             COk (doChecksum || (t =? c_ctInit) || (t =? c_ctCookieEcho))
           else COk doChecksum) ;;
    their <- cd_rd32 raw 8 ;;      (* only compared with 0: byte order is irrelevant *)
    if (negb (their =? 0) || dc) && negb ck_ok then CErr e_ChecksumMismatch
    else
      sp <- cd_rd16 raw 0 ;;
      dp <- cd_rd16 raw 2 ;;
      vt <- cd_rd32 raw 4 ;;
      rem <- cd_from raw c_packetHeaderSize ;;
      cs <- cd_dec_chunks (S (Z.to_nat n)) rem ;;
      COk (mkPacket sp dp vt cs).

(* ------------------------------------------------------------------ chunk encoders
   = what the `chunk` interface's marshal() produces for each concrete type *)

Definition cd_data_flags (un bg en imm : bool) : Z :=
  cd_b2z en + 2 * cd_b2z bg + 4 * cd_b2z un + 8 * cd_b2z imm.

Definition cd_enc_params_padded (ps : list cd_param) : list Z :=
  (* all but the last parameter are padded *)
  (fix go (l : list cd_param) : list Z :=
     match l with
     | [] => []
     | [p] => cd_enc_param p
     | p :: tl => let pp := cd_enc_param p in pp ++ cd_zeros (getPadding (cd_len pp)) ++ go tl
     end) ps.

(* chunkReconfig.marshal: parameter A, padding and parameter B only when B is present *)
Definition cd_reconfig_value (pa : cd_param) (pb : option cd_param) : list Z :=
  match pb with
  | Some b => cd_enc_param pa ++ cd_zeros (getPadding (cd_len (cd_enc_param pa))) ++ cd_enc_param b
  | None => cd_enc_param pa
  end.

Definition cd_enc_chunk (c : cd_chunk) : cres (list Z) :=
  match c with
  | CkData idata un bg en imm tsn sid ssn mid fsn ppi ud =>
      if idata then
        COk (cd_enc_hdr c_ctIData (cd_data_flags un bg en imm)
               (cd_e32 tsn ++ cd_e16 sid ++ cd_e16 0 ++ cd_e32 mid ++ cd_e32 (if bg then ppi else fsn) ++ ud))
      else
        COk (cd_enc_hdr c_ctPayloadData (cd_data_flags un bg en imm)
               (cd_e32 tsn ++ cd_e16 sid ++ cd_e16 ssn ++ cd_e32 ppi ++ ud))
  | CkSack fl cum arwnd gaps dups =>
      COk (cd_enc_hdr c_ctSack fl
             (cd_e32 cum ++ cd_e32 arwnd ++ cd_e16 (wrap16 (cd_len gaps)) ++ cd_e16 (wrap16 (cd_len dups))
              ++ flat_map (fun g => cd_e16 (fst g) ++ cd_e16 (snd g)) gaps ++ flat_map cd_e32 dups))
  | CkInit ack fl tag arwnd nout nin itsn ps _ =>
      COk (cd_enc_hdr (if ack then c_ctInitAck else c_ctInit) fl
             (cd_e32 tag ++ cd_e32 arwnd ++ cd_e16 nout ++ cd_e16 nin ++ cd_e32 itsn ++ cd_enc_params_padded ps))
  | CkHeartbeat htyp hfl hraw ps =>
      (* chunkHeartbeat.marshal: no parameter -> chunkHeader.marshal of the header as it is;
         otherwise Marshal(): exactly one Heartbeat Info, typ = HEARTBEAT, flags = 0 *)
      match ps with
      | [] => COk (cd_enc_hdr htyp hfl hraw)
      | [p] => if cd_is_hbinfo p then COk (cd_enc_hdr c_ctHeartbeat 0 (cd_enc_param p))
               else CErr e_HeartbeatParam
      | _ => CErr e_HeartbeatMarshalNoInfo
      end
  | CkHeartbeatAck fl ps =>
      match ps with
      | [p] => if cd_is_hbinfo p then COk (cd_enc_hdr c_ctHeartbeatAck fl (cd_enc_param p))
               else CErr e_HeartbeatAckNotHeartbeatInfo
      | _ => CErr e_HeartbeatAckParams
      end
  | CkAbort cs => raw <- cd_enc_causes cs ;; COk (cd_enc_hdr c_ctAbort 0 raw)
  | CkError cs => raw <- cd_enc_causes cs ;; COk (cd_enc_hdr c_ctError 0 raw)
  | CkShutdown fl cum => COk (cd_enc_hdr c_ctShutdown fl (cd_e32 cum))
  | CkShutdownAck fl raw => COk (cd_enc_hdr c_ctShutdownAck fl raw)
  | CkShutdownComplete fl raw => COk (cd_enc_hdr c_ctShutdownComplete fl raw)
  | CkCookieEcho fl ck => COk (cd_enc_hdr c_ctCookieEcho fl ck)
  | CkCookieAck fl raw => COk (cd_enc_hdr c_ctCookieAck fl raw)
  | CkReconfig fl pa pb => COk (cd_enc_hdr c_ctReconfig fl (cd_reconfig_value pa pb))
  | CkForwardTSN fl ntsn ss =>
      COk (cd_enc_hdr c_ctForwardTSN fl
             (cd_e32 ntsn ++ flat_map (fun s => cd_e16 (fst s) ++ cd_e16 (snd s)) ss))
  | CkIForwardTSN fl ntsn ss =>
      let ns := cd_ifwd_normalize ss in
      if cd_len ns >? c_maxIForwardTSNStreams then CErr e_IForwardTSNTooManyStreams
      else
        COk (cd_enc_hdr c_ctIForwardTSN fl
               (cd_e32 ntsn ++
                flat_map (fun s => match s with (sid, u, mid) => cd_e16 sid ++ cd_e16 (cd_b2z u) ++ cd_e32 mid end) ns))
  end.

(* packet.marshal loop: append the chunk, then pad the whole buffer to a multiple of 4 *)
Fixpoint cd_enc_chunks (acc : list Z) (cs : list cd_chunk) : cres (list Z) :=
  match cs with
  | [] => COk acc
  | c :: tl =>
      b <- cd_enc_chunk c ;;
      let acc1 := acc ++ b in
      cd_enc_chunks (acc1 ++ cd_zeros (getPadding (cd_len acc1))) tl
  end.

(* packet.marshal; [ck] = the four bytes at 8..11 ([0;0;0;0] for marshal(false)) *)
Definition cd_enc_packet (ck : list Z) (p : cd_packet) : cres (list Z) :=
  cd_enc_chunks (cd_e16 (pk_sport p) ++ cd_e16 (pk_dport p) ++ cd_e32 (pk_vtag p) ++ ck) (pk_chunks p).

(* ------------------------------------------------------------------ well-formedness and the
   documented normalisations (used by the theorems; extracted so that the comparator can report how
   many generated packets satisfy them) *)

Definition cd_is_byte (b : Z) : bool := (0 <=? b) && (b <? 256).
Definition cd_bytes (l : list Z) : bool := forallb cd_is_byte l.
Definition cd_u16 (v : Z) : bool := (0 <=? v) && (v <? 65536).
Definition cd_u32 (v : Z) : bool := (0 <=? v) && (v <? 4294967296).

Definition cd_is_hmac (a : Z) : bool := (a =? cd_hmacSHA128) || (a =? cd_hmacSHA256).

(* parameters whose round trip is exact *)
Definition cd_wf_param (p : cd_param) : bool :=
  match p with
  | PmHeartbeatInfo v | PmStateCookie v | PmRandom v | PmChunkList v | PmSupportedExt v => cd_len v <? 65532
  | PmOutReset a b c sids =>
      cd_u32 a && cd_u32 b && cd_u32 c && forallb cd_u16 sids && (2 * cd_len sids <? 65520)
  | PmReconfigResp a b => cd_u32 a && cd_u32 b
  | PmEcn | PmFwdTsnSupp => true
  | PmZeroChecksum e => cd_u32 e
  | PmReqHmac al => forallb cd_is_hmac al && (2 * cd_len al <? 65532)
  end.

Definition cd_wf_ifwd_entry (s : Z * bool * Z) : bool :=
  match s with (sid, u, mid) => cd_u16 sid && cd_u32 mid end.

(* what a chunk decodes to after having been encoded *)
Definition cd_canon_chunk (c : cd_chunk) : cd_chunk :=
  match c with
  | CkData true un bg en imm tsn sid ssn mid fsn ppi ud =>
      CkData true un bg en imm tsn sid (wrap16 mid) mid (if bg then 0 else fsn) (if bg then ppi else 0) ud
  | CkData false un bg en imm tsn sid ssn mid fsn ppi ud =>
      CkData false un bg en imm tsn sid ssn 0 0 ppi ud
  | CkInit ack fl tag arwnd nout nin itsn ps _ => CkInit ack fl tag arwnd nout nin itsn ps []
  | CkHeartbeat _ _ _ [p] => CkHeartbeat c_ctHeartbeat 0 (cd_enc_param p) [p]
  | CkIForwardTSN fl ntsn ss => CkIForwardTSN fl ntsn (cd_ifwd_normalize ss)
  | c => c
  end.

Definition cd_canon_packet (p : cd_packet) : cd_packet :=
  mkPacket (pk_sport p) (pk_dport p) (pk_vtag p) (map cd_canon_chunk (pk_chunks p)).

(* error causes whose round trip is exact: the code must be the one buildErrorCause dispatches on *)
Definition cd_wf_cause (c : cd_cause) : bool :=
  match c with
  | EcInvalidMandatory code raw => (code =? c_invalidMandatoryParameter) && (cd_len raw <? 65532)
  | EcUnrecognizedChunk raw => cd_len raw <? 65532
  | EcProtocolViolation code info => (code =? c_protocolViolation) && (cd_len info <? 65532)
  | EcUserAbort r => cd_len r <? 65532
  | EcOther code raw =>
      cd_u16 code && negb ((code =? c_invalidMandatoryParameter) || (code =? c_unrecognizedChunkType)
                           || (code =? c_protocolViolation) || (code =? c_userInitiatedAbort))
      && (cd_len raw <? 65532)
  end.

Definition cd_causes_len (cs : list cd_cause) : Z :=
  fold_right (fun c acc =>
    4 + acc + match c with
              | EcInvalidMandatory _ r | EcUnrecognizedChunk r | EcProtocolViolation _ r | EcUserAbort r
              | EcOther _ r => cd_len r
              end) 0 cs.

(* the field ranges under which the round trip is a theorem (CodecProofs.v); every chunk kind is covered *)
Definition cd_wf_chunk (c : cd_chunk) : bool :=
  match c with
  | CkData idata un bg en imm tsn sid ssn mid fsn ppi ud =>
      cd_u32 tsn && cd_u16 sid && cd_u16 ssn && cd_u32 mid && cd_u32 fsn && cd_u32 ppi && cd_bytes ud
      && (cd_len ud <? 65536 - 4 - 16)
  | CkSack fl cum arwnd gaps dups =>
      cd_is_byte fl && cd_u32 cum && cd_u32 arwnd
      && forallb (fun g => cd_u16 (fst g) && cd_u16 (snd g)) gaps && forallb cd_u32 dups
      && (4 * cd_len gaps + 4 * cd_len dups <? 65536 - 4 - 12)
  | CkInit ack fl tag arwnd nout nin itsn ps us =>
      (* flags must be 0 (the decoder rejects anything else) *)
      (fl =? 0) && cd_u32 tag && cd_u32 arwnd && cd_u16 nout && cd_u16 nin && cd_u32 itsn
      && forallb cd_wf_param ps && (cd_len (cd_enc_params_padded ps) <? 65536 - 4 - 16)
  | CkHeartbeat t fl raw ps =>
      (* one Heartbeat Info (any header state), or the empty HEARTBEAT the decoder accepts *)
      match ps with
      | [PmHeartbeatInfo info] => cd_len info <? 65528
      | [] => (t =? c_ctHeartbeat) && (cd_len raw =? 0)
      | _ => false
      end
  | CkHeartbeatAck fl ps =>
      match ps with
      | [PmHeartbeatInfo info] => cd_len info <? 65528
      | _ => false
      end
  | CkAbort cs | CkError cs => forallb cd_wf_cause cs && (cd_causes_len cs <? 65532)
  | CkShutdown fl cum => cd_is_byte fl && cd_u32 cum
  | CkShutdownAck fl raw => cd_is_byte fl && cd_bytes raw && (cd_len raw <? 65532)
  | CkShutdownComplete fl raw => cd_is_byte fl && cd_bytes raw && (cd_len raw <? 65532)
  | CkCookieAck fl raw => cd_is_byte fl && cd_bytes raw && (cd_len raw <? 65532)
  | CkCookieEcho fl ck => cd_is_byte fl && cd_bytes ck && (cd_len ck <? 65532)
  | CkReconfig fl pa pb =>
      cd_wf_param pa && match pb with Some b => cd_wf_param b | None => true end
      && (cd_len (cd_reconfig_value pa pb) <? 65532)
  | CkForwardTSN fl ntsn ss =>
      cd_is_byte fl && cd_u32 ntsn && forallb (fun s => cd_u16 (fst s) && cd_u16 (snd s)) ss
      && (4 * cd_len ss <? 65536 - 4 - 4)
  | CkIForwardTSN fl ntsn ss =>
      cd_u32 ntsn && forallb cd_wf_ifwd_entry ss && (cd_len ss <=? c_maxIForwardTSNStreams)
  end.

Definition cd_wf_packet (p : cd_packet) : bool :=
  cd_u16 (pk_sport p) && cd_u16 (pk_dport p) && cd_u32 (pk_vtag p) && forallb cd_wf_chunk (pk_chunks p).
