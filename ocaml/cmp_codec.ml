(* replay of wire-codec traces (go/inpkg/zz_verif_codec_test.go) on the extracted model coq/model/Codec.v.
   Harness glue only: hex <-> byte lists, dump text <-> model values.  All encoding / decoding is the
   extracted code (Model.cd_enc_packet, Model.cd_dec_packet, Model.cd_dec_heartbeat_ack). *)
module M = Model
open Zio

(* ---------- numbers and bytes ---------- *)
let rec int_of_pos = function M.XH -> 1 | M.XO p -> 2 * int_of_pos p | M.XI p -> 2 * int_of_pos p + 1
let int_of_mz = function M.Z0 -> 0 | M.Zpos p -> int_of_pos p | M.Zneg p -> - (int_of_pos p)
let byte_tbl = Array.init 256 (fun i -> czi i)
let hexval c = match c with
  | '0'..'9' -> Char.code c - 48 | 'a'..'f' -> Char.code c - 87 | 'A'..'F' -> Char.code c - 55
  | _ -> failwith "bad hex"
let bytes_of_hex (s : string) : M.z list =
  if s = "-" then [] else begin
    let n = String.length s / 2 in
    let acc = ref [] in
    for i = n - 1 downto 0 do
      acc := byte_tbl.(16 * hexval s.[2*i] + hexval s.[2*i+1]) :: !acc
    done; !acc
  end
let hex_of_bytes (l : M.z list) : string =
  if l = [] then "-" else begin
    let b = Buffer.create 256 in
    List.iter (fun z -> let v = int_of_mz z in
                if v < 0 || v > 255 then Buffer.add_string b (Printf.sprintf "<%d>" v)
                else Buffer.add_string b (Printf.sprintf "%02x" v)) l;
    Buffer.contents b
  end
let si z = string_of_int (int_of_mz z)

(* ---------- dump text -> model value ---------- *)
exception Parse of string
let toks : string list ref = ref []
let next () = match !toks with [] -> raise (Parse "unexpected end of dump") | t :: r -> toks := r; t
let nz () = cz (next ())
let nint () = int_of_string (next ())
let nhex () = bytes_of_hex (next ())
let nbool () = next () <> "0"
let rec rep n f = if n <= 0 then [] else let x = f () in x :: rep (n - 1) f

let parse_param () : M.cd_param =
  match next () with
  | "hbinfo" -> M.PmHeartbeatInfo (nhex ())
  | "cookie" -> M.PmStateCookie (nhex ())
  | "outreset" -> let a = nz () in let b = nz () in let c = nz () in let n = nint () in M.PmOutReset (a, b, c, rep n nz)
  | "reconfresp" -> let a = nz () in let b = nz () in M.PmReconfigResp (a, b)
  | "ecn" -> M.PmEcn
  | "zerock" -> M.PmZeroChecksum (nz ())
  | "random" -> M.PmRandom (nhex ())
  | "chunklist" -> M.PmChunkList (nhex ())
  | "hmac" -> let n = nint () in M.PmReqHmac (rep n nz)
  | "suppext" -> M.PmSupportedExt (nhex ())
  | "fwdsupp" -> M.PmFwdTsnSupp
  | t -> raise (Parse ("param " ^ t))

let parse_cause () : M.cd_cause =
  match next () with
  | "invmand" -> let c = nz () in M.EcInvalidMandatory (c, nhex ())
  | "unrec" -> M.EcUnrecognizedChunk (nhex ())
  | "protoviol" -> let c = nz () in M.EcProtocolViolation (c, nhex ())
  | "userabort" -> M.EcUserAbort (nhex ())
  | "other" -> let c = nz () in M.EcOther (c, nhex ())
  | t -> raise (Parse ("cause " ^ t))

let parse_chunk () : M.cd_chunk =
  match next () with
  | "DATA" ->
      let idata = nbool () in let u = nbool () in let b = nbool () in let e = nbool () in let i = nbool () in
      let tsn = nz () in let sid = nz () in let ssn = nz () in let mid = nz () in let fsn = nz () in let ppi = nz () in
      M.CkData (idata, u, b, e, i, tsn, sid, ssn, mid, fsn, ppi, nhex ())
  | "SACK" ->
      let fl = nz () in let cum = nz () in let ar = nz () in
      let ng = nint () in let gaps = rep ng (fun () -> let s = nz () in let e = nz () in (s, e)) in
      let nd = nint () in M.CkSack (fl, cum, ar, gaps, rep nd nz)
  | "INIT" ->
      let ack = nbool () in let fl = nz () in let tag = nz () in let ar = nz () in let no = nz () in let ni = nz () in
      let itsn = nz () in let np = nint () in let ps = rep np parse_param in
      let nu = nint () in let us = rep nu (fun () -> let t = nz () in (t, nhex ())) in
      M.CkInit (ack, fl, tag, ar, no, ni, itsn, ps, us)
  | "HB" -> let t = nz () in let fl = nz () in let raw = nhex () in let n = nint () in M.CkHeartbeat (t, fl, raw, rep n parse_param)
  | "HBACK" -> let fl = nz () in let n = nint () in M.CkHeartbeatAck (fl, rep n parse_param)
  | "ABORT" -> let n = nint () in M.CkAbort (rep n parse_cause)
  | "ERROR" -> let n = nint () in M.CkError (rep n parse_cause)
  | "SHUTDOWN" -> let fl = nz () in M.CkShutdown (fl, nz ())
  | "SHUTACK" -> let fl = nz () in M.CkShutdownAck (fl, nhex ())
  | "SHUTCOMP" -> let fl = nz () in M.CkShutdownComplete (fl, nhex ())
  | "COOKIEECHO" -> let fl = nz () in M.CkCookieEcho (fl, nhex ())
  | "COOKIEACK" -> let fl = nz () in M.CkCookieAck (fl, nhex ())
  | "RECONFIG" ->
      let fl = nz () in let a = parse_param () in
      if nbool () then M.CkReconfig (fl, a, Some (parse_param ())) else M.CkReconfig (fl, a, None)
  | "FWD" ->
      let fl = nz () in let t = nz () in let n = nint () in
      M.CkForwardTSN (fl, t, rep n (fun () -> let s = nz () in let q = nz () in (s, q)))
  | "IFWD" ->
      let fl = nz () in let t = nz () in let n = nint () in
      M.CkIForwardTSN (fl, t, rep n (fun () -> let s = nz () in let u = nbool () in let m = nz () in ((s, u), m)))
  | t -> raise (Parse ("chunk " ^ t))

let parse_packet (l : string list) : M.cd_packet =
  toks := l;
  (match next () with "P" -> () | t -> raise (Parse ("packet " ^ t)));
  let sp = nz () in let dp = nz () in let vt = nz () in let n = nint () in
  let cs = rep n parse_chunk in
  if !toks <> [] then raise (Parse "trailing tokens");
  { M.pk_sport = sp; M.pk_dport = dp; M.pk_vtag = vt; M.pk_chunks = cs }

(* ---------- model value -> dump text ---------- *)
let pr_param b (p : M.cd_param) =
  let add = Buffer.add_string b in
  match p with
  | M.PmHeartbeatInfo i -> add " hbinfo "; add (hex_of_bytes i)
  | M.PmStateCookie c -> add " cookie "; add (hex_of_bytes c)
  | M.PmOutReset (a, x, c, s) ->
      add (Printf.sprintf " outreset %s %s %s %d" (si a) (si x) (si c) (List.length s));
      List.iter (fun v -> add " "; add (si v)) s
  | M.PmReconfigResp (a, r) -> add (Printf.sprintf " reconfresp %s %s" (si a) (si r))
  | M.PmEcn -> add " ecn"
  | M.PmZeroChecksum e -> add " zerock "; add (si e)
  | M.PmRandom d -> add " random "; add (hex_of_bytes d)
  | M.PmChunkList t -> add " chunklist "; add (hex_of_bytes t)
  | M.PmReqHmac al -> add (Printf.sprintf " hmac %d" (List.length al)); List.iter (fun v -> add " "; add (si v)) al
  | M.PmSupportedExt t -> add " suppext "; add (hex_of_bytes t)
  | M.PmFwdTsnSupp -> add " fwdsupp"

let pr_cause b (c : M.cd_cause) =
  let add = Buffer.add_string b in
  match c with
  | M.EcInvalidMandatory (c, r) -> add (Printf.sprintf " invmand %s %s" (si c) (hex_of_bytes r))
  | M.EcUnrecognizedChunk r -> add " unrec "; add (hex_of_bytes r)
  | M.EcProtocolViolation (c, r) -> add (Printf.sprintf " protoviol %s %s" (si c) (hex_of_bytes r))
  | M.EcUserAbort r -> add " userabort "; add (hex_of_bytes r)
  | M.EcOther (c, r) -> add (Printf.sprintf " other %s %s" (si c) (hex_of_bytes r))

let pr_chunk b (c : M.cd_chunk) =
  let add = Buffer.add_string b in
  match c with
  | M.CkData (idata, u, bg, e, i, tsn, sid, ssn, mid, fsn, ppi, ud) ->
      add (Printf.sprintf " DATA %s %s %s %s %s %s %s %s %s %s %s %s" (sbool idata) (sbool u) (sbool bg) (sbool e) (sbool i)
             (si tsn) (si sid) (si ssn) (si mid) (si fsn) (si ppi) (hex_of_bytes ud))
  | M.CkSack (fl, cum, ar, gaps, dups) ->
      add (Printf.sprintf " SACK %s %s %s %d" (si fl) (si cum) (si ar) (List.length gaps));
      List.iter (fun (s, e) -> add (Printf.sprintf " %s %s" (si s) (si e))) gaps;
      add (Printf.sprintf " %d" (List.length dups));
      List.iter (fun d -> add " "; add (si d)) dups
  | M.CkInit (ack, fl, tag, ar, no, ni, itsn, ps, us) ->
      add (Printf.sprintf " INIT %s %s %s %s %s %s %s %d" (sbool ack) (si fl) (si tag) (si ar) (si no) (si ni) (si itsn) (List.length ps));
      List.iter (pr_param b) ps;
      add (Printf.sprintf " %d" (List.length us));
      List.iter (fun (t, r) -> add (Printf.sprintf " %s %s" (si t) (hex_of_bytes r))) us
  | M.CkHeartbeat (t, fl, raw, ps) ->
      add (Printf.sprintf " HB %s %s %s %d" (si t) (si fl) (hex_of_bytes raw) (List.length ps)); List.iter (pr_param b) ps
  | M.CkHeartbeatAck (fl, ps) -> add (Printf.sprintf " HBACK %s %d" (si fl) (List.length ps)); List.iter (pr_param b) ps
  | M.CkAbort cs -> add (Printf.sprintf " ABORT %d" (List.length cs)); List.iter (pr_cause b) cs
  | M.CkError cs -> add (Printf.sprintf " ERROR %d" (List.length cs)); List.iter (pr_cause b) cs
  | M.CkShutdown (fl, cum) -> add (Printf.sprintf " SHUTDOWN %s %s" (si fl) (si cum))
  | M.CkShutdownAck (fl, r) -> add (Printf.sprintf " SHUTACK %s %s" (si fl) (hex_of_bytes r))
  | M.CkShutdownComplete (fl, r) -> add (Printf.sprintf " SHUTCOMP %s %s" (si fl) (hex_of_bytes r))
  | M.CkCookieEcho (fl, r) -> add (Printf.sprintf " COOKIEECHO %s %s" (si fl) (hex_of_bytes r))
  | M.CkCookieAck (fl, r) -> add (Printf.sprintf " COOKIEACK %s %s" (si fl) (hex_of_bytes r))
  | M.CkReconfig (fl, a, pb) ->
      add (Printf.sprintf " RECONFIG %s" (si fl)); pr_param b a;
      (match pb with Some p -> add " 1"; pr_param b p | None -> add " 0")
  | M.CkForwardTSN (fl, t, ss) ->
      add (Printf.sprintf " FWD %s %s %d" (si fl) (si t) (List.length ss));
      List.iter (fun (s, q) -> add (Printf.sprintf " %s %s" (si s) (si q))) ss
  | M.CkIForwardTSN (fl, t, ss) ->
      add (Printf.sprintf " IFWD %s %s %d" (si fl) (si t) (List.length ss));
      List.iter (fun ((s, u), m) -> add (Printf.sprintf " %s %s %s" (si s) (sbool u) (si m))) ss

let pr_packet (p : M.cd_packet) : string =
  let b = Buffer.create 256 in
  Buffer.add_string b (Printf.sprintf "P %s %s %s %d" (si p.M.pk_sport) (si p.M.pk_dport) (si p.M.pk_vtag) (List.length p.M.pk_chunks));
  List.iter (pr_chunk b) p.M.pk_chunks;
  Buffer.contents b

let outcome_bytes (r : M.z list M.cres) : string =
  match r with
  | M.COk l -> "ok " ^ hex_of_bytes l
  | M.CErr c -> "err " ^ si c
  | M.CPanic -> "panic"
  | M.CFuel -> "fuel"

let outcome_tag (r : 'a M.cres) : string =
  match r with
  | M.COk _ -> "ok"
  | M.CErr c -> "err " ^ si c
  | M.CPanic -> "panic"
  | M.CFuel -> "fuel"

let short s = if String.length s > 400 then String.sub s 0 400 ^ "..." else s
let zero4 = [czi 0; czi 0; czi 0; czi 0]
let rec take n l = if n <= 0 then [] else match l with [] -> [] | x :: r -> x :: take (n - 1) r
let rec drop n l = if n <= 0 then l else match l with [] -> [] | _ :: r -> drop (n - 1) r

let run path =
  let cases = read_cases path in
  let ncase = ref 0 and n_enc = ref 0 and n_dec = ref 0 and n_acc = ref 0 and n_rej = ref 0 and n_panic = ref 0
  and n_wf = ref 0 and n_renc = ref 0 and n_cdec = ref 0 and n_decwf = ref 0 and n_small = ref 0 in
  List.iter (fun (name, lines) ->
    incr ncase;
    let built = ref None and enc_hex = ref "" and mres = ref None and cres = ref None in
    let stop = ref false in
    List.iteri (fun i tk ->
      if not !stop then begin
        incr records;
        let bad what m im = report name (i + 1) what (short m) (short im); stop := true in
        try
          match tk with
          | "build" :: rest ->
              let p = parse_packet rest in
              built := Some p;
              (* the dump printer must be the inverse of the parser (glue self-check) *)
              if pr_packet p <> String.concat " " rest then bad "glue: print(parse(dump))" (pr_packet p) (String.concat " " rest)
          | "enc" :: rest ->
              incr n_enc;
              (match !built with
               | None -> bad "enc without build" "" ""
               | Some p ->
                   let im = String.concat " " rest in
                   let ck = (match rest with
                             | ["ok"; h] when String.length h >= 24 -> take 4 (drop 8 (bytes_of_hex (String.sub h 0 24)))
                             | _ -> zero4) in
                   let m = outcome_bytes (M.cd_enc_packet ck p) in
                   (match rest with ["ok"; h] -> enc_hex := h | _ -> ());
                   if m <> im then bad "packet.marshal" m im
                   else if M.cd_wf_packet p then begin
                     incr n_wf;
                     (* instance of the round-trip theorem, evaluated: dec (enc p) = canon p *)
                     (match rest with
                      | ["ok"; h] ->
                          (match M.cd_dec_packet false true (bytes_of_hex h) with
                           | M.COk q -> if pr_packet q <> pr_packet (M.cd_canon_packet p) then
                                          bad "theorem instance dec(enc p)=canon p" (pr_packet q) (pr_packet (M.cd_canon_packet p))
                           | r -> bad "theorem instance dec(enc p)" (outcome_tag r) "ok")
                      | _ -> bad "wf packet does not encode" m im)
                   end)
          | ["dec"; dc; ck; h] ->
              incr n_dec;
              let h = if h = "=" then !enc_hex else h in
              let r = M.cd_dec_packet (dc <> "0") (ck <> "0") (bytes_of_hex h) in
              mres := Some r;
              (* hypothesis of c12_reenc_stable_decoded, evaluated on everything that is accepted:
                 the decoded value of a packet shorter than 64 KiB is well formed *)
              (match r with
               | M.COk p when String.length h < 131072 ->
                   incr n_small;
                   if M.cd_wf_packet p then incr n_decwf
                   else (match M.cd_enc_packet zero4 p with
                         | M.COk _ -> bad "accepted packet decodes to a value outside cd_wf_packet" (pr_packet p) h
                         | _ -> incr n_decwf (* not re-encodable: the stability statement is vacuous *))
               | _ -> ())
          | "res" :: rest ->
              let im = String.concat " " rest in
              (match !mres with
               | None -> bad "res without dec" "" im
               | Some r ->
                   let m = outcome_tag r in
                   (match r with M.COk _ -> incr n_acc | M.CPanic -> incr n_panic | _ -> incr n_rej);
                   if m <> im then bad "packet.unmarshal outcome" m im)
          | "dump" :: rest ->
              let im = String.concat " " rest in
              (match !mres with
               | Some (M.COk p) -> let m = pr_packet p in if m <> im then bad "decoded value" m im
               | _ -> bad "dump without accepted dec" "" im)
          | "renc" :: rest ->
              incr n_renc;
              let im = String.concat " " rest in
              (match !mres with
               | Some (M.COk p) -> let m = outcome_bytes (M.cd_enc_packet zero4 p) in if m <> im then bad "re-marshal of decoded" m im
               | _ -> bad "renc without accepted dec" "" im)
          | ["cdec"; "hback"; h] ->
              incr n_cdec;
              cres := Some (M.cd_dec_heartbeat_ack (bytes_of_hex h))
          | "cres" :: rest ->
              let im = String.concat " " rest in
              (match !cres with
               | None -> bad "cres without cdec" "" im
               | Some r -> let m = outcome_tag r in if m <> im then bad "chunkHeartbeatAck.unmarshal outcome" m im)
          | "cdump" :: rest ->
              let im = String.concat " " rest in
              (match !cres with
               | Some (M.COk (c, _)) ->
                   let b = Buffer.create 64 in pr_chunk b c;
                   let m = String.trim (Buffer.contents b) in
                   if m <> im then bad "chunkHeartbeatAck decoded value" m im
               | _ -> bad "cdump without accepted cdec" "" im)
          | _ -> bad "unparsed line" "" (short (String.concat " " tk))
        with
        | Parse msg -> bad ("glue: cannot parse dump: " ^ msg) "" (short (String.concat " " tk))
        | Failure msg -> bad ("glue: " ^ msg) "" (short (String.concat " " tk))
      end) lines) cases;
  Printf.printf "SUMMARY component=codec cases=%d records=%d mismatches=%d marshal=%d unmarshal=%d accepted=%d rejected=%d panics=%d remarshal=%d wf_roundtrip_instances=%d accepted_under_64k=%d decoded_wf_or_unencodable=%d hback_direct=%d\n"
    !ncase !records !mismatches !n_enc !n_dec !n_acc !n_rej !n_panic !n_renc !n_wf !n_small !n_decwf !n_cdec
