(* End-to-end pieces for C01 (prefix e2e_).  No proofs in this file.

   1. The composed RECEIVER: association.go handleData -> acceptPayloadData -> pushPayloadDataToStream
      -> the pop loop of handlePeerLastTSNAndAcknowledgement, built from RPQ.v (receive bitmap) and
      RQ.v (one reassembly queue per stream of the association's map, created on the first chunk as
      getOrCreateStream does), plus rq_a_rwnd / rq_admit for the "receive buffer is full" branch.
      Oracle of an arrival: [accept_ok] = the accept channel has room for a new stream.
   2. The SENDER UNIVERSE: what Stream.packetize + the pending queue + TSN assignment put on the wire
      for a list of written messages, as chunks with an unbounded TSN index.  DATA mode: the fragments
      of a message occupy consecutive indices (c17_msg_contiguous); I-DATA mode: an explicit
      interleaving schedule (per-stream FIFO, fragments in FSN order). *)
From Coq Require Import ZArith Bool List.
From Sctp Require Import Gen RPQ RQ.
Import ListNotations.
Open Scope Z_scope.

(* ------------------------------------------------------------------------------------------ *)
(* receiver                                                                                     *)
(* ------------------------------------------------------------------------------------------ *)
Record e2e_rcv := mkE2E {
  e2e_pq : rpq;                    (* a.payloadQueue *)
  e2e_streams : list (Z * rq);     (* a.streams: stream id -> reassembly queue, sorted by id *)
  e2e_buf : Z;                     (* maxReceiveBufferSize *)
  e2e_maxent : Z;                  (* maxReassemblyQueueEntries *)
  e2e_il : bool;                   (* useInterleaving *)
  e2e_abort : bool;                (* abortProtocolViolation was called (ABORT will be sent) *)
  e2e_detached : list rq           (* a.detachedStreams (243f816): streams reset by the peer that still held unread data *)
}.

Fixpoint e2e_get (sid : Z) (l : list (Z * rq)) : option rq :=
  match l with
  | [] => None
  | (k, q) :: t => if k =? sid then Some q else e2e_get sid t
  end.

(* insert keeping the list sorted by stream id, or replace *)
Fixpoint e2e_put (sid : Z) (q : rq) (l : list (Z * rq)) : list (Z * rq) :=
  match l with
  | [] => [(sid, q)]
  | (k, x) :: t => if k =? sid then (sid, q) :: t
                   else if sid <? k then (sid, q) :: l
                   else (k, x) :: e2e_put sid q t
  end.

Definition e2e_credit (buf : Z) (streams : list (Z * rq)) (detached : list rq) : Z :=
  rq_credit buf (map snd streams) detached.

(* for { if !payloadQueue.pop(false) { break } ... } *)
Fixpoint e2e_pop_loop (fuel : nat) (q : rpq) : rpq :=
  match fuel with
  | O => q
  | S f => let '(q', ok) := pop q false in if ok then e2e_pop_loop f q' else q'
  end.

Definition e2e_pops (q : rpq) : rpq := e2e_pop_loop (S (Z.to_nat (size q))) q.

Definition e2e_set (st : e2e_rcv) (pq : rpq) (streams : list (Z * rq)) (ab : bool) : e2e_rcv :=
  mkE2E pq streams (e2e_buf st) (e2e_maxent st) (e2e_il st) ab (e2e_detached st).

(* what happened to the chunk, for the correspondence and the ghost history *)
Inductive e2e_out :=
| EoWrongKind        (* DATA with interleaving / I-DATA without: protocol violation *)
| EoNoStream         (* the stream could not be created: discarded, nothing else happens *)
| EoStored (r : rq_res)   (* payloadQueue.push + stream.handleData *)
| EoFullDropped      (* receive buffer full and not a gap fill: dropped, TSN not recorded *)
| EoNotAcceptable.   (* duplicate or outside the TSN window: only the duplicate list may change *)

Definition e2e_recv_data (st : e2e_rcv) (c : rqchunk) (accept_ok : bool) : e2e_rcv * e2e_out :=
  if negb (Bool.eqb (rqc_idata c) (e2e_il st)) then (e2e_set st (e2e_pq st) (e2e_streams st) true, EoWrongKind)
  else
    let pq := e2e_pq st in
    if can_push pq (rqc_tsn c) then
      match (match e2e_get (rqc_si c) (e2e_streams st) with
             | Some q => Some (q, e2e_streams st)
             | None => if accept_ok
                       then let q := rq_new (rqc_si c) (e2e_maxent st) in
                            Some (q, e2e_put (rqc_si c) q (e2e_streams st))
                       else None
             end) with
      | None => (st, EoNoStream)
      | Some (q, streams1) =>
          if rq_admit (e2e_credit (e2e_buf st) streams1 (e2e_detached st)) (last_tsn_received pq) (rqc_tsn c) then
            let pq1 := fst (push pq (rqc_tsn c)) in
            let '(q', r) := rq_push q c in
            let streams2 := e2e_put (rqc_si c) q' streams1 in
            match r with
            | RqOk _ => (e2e_set st (e2e_pops pq1) streams2 (e2e_abort st), EoStored r)
            | _ => (e2e_set st pq1 streams2 true, EoStored r)      (* error: abort, no pop loop *)
            end
          else (e2e_set st (e2e_pops pq) streams1 (e2e_abort st), EoFullDropped)
      end
    else
      (e2e_set st (e2e_pops (fst (push pq (rqc_tsn c)))) (e2e_streams st) (e2e_abort st), EoNotAcceptable).

(* Stream.ReadSCTP on the stream [sid] (one pass of its loop) *)
Definition e2e_read (st : e2e_rcv) (sid buflen : Z) : e2e_rcv * rq_rd :=
  match e2e_get sid (e2e_streams st) with
  | None => (st, RdTryAgain)
  | Some q =>
      let '(q', r) := rq_read q buflen in
      (e2e_set st (e2e_pq st) (e2e_put sid q' (e2e_streams st)) (e2e_abort st), r)
  end.

(* resetStreamsIfAny for one stream identifier (the reset is performed: senderLastTSN <= cumulative TSN):
   the stream leaves the map; if its queue still holds bytes it is remembered as detached *)
Fixpoint e2e_del (sid : Z) (l : list (Z * rq)) : list (Z * rq) :=
  match l with
  | [] => []
  | (k, q) :: t => if k =? sid then t else (k, q) :: e2e_del sid t
  end.

Definition e2e_reset (st : e2e_rcv) (sid : Z) : e2e_rcv :=
  match e2e_get sid (e2e_streams st) with
  | None => st
  | Some q => mkE2E (e2e_pq st) (e2e_del sid (e2e_streams st)) (e2e_buf st) (e2e_maxent st) (e2e_il st)
                    (e2e_abort st) (rq_detach q (e2e_detached st))
  end.

(* the application reads on the Stream object of a detached stream (the n-th of the list) *)
Fixpoint e2e_upd_nth (n : nat) (q : rq) (l : list rq) : list rq :=
  match l, n with
  | [], _ => []
  | _ :: t, O => q :: t
  | x :: t, S m => x :: e2e_upd_nth m q t
  end.

Definition e2e_read_detached (st : e2e_rcv) (n : nat) (buflen : Z) : e2e_rcv * rq_rd :=
  match nth_error (e2e_detached st) n with
  | None => (st, RdTryAgain)
  | Some q =>
      let '(q', r) := rq_read q buflen in
      (mkE2E (e2e_pq st) (e2e_streams st) (e2e_buf st) (e2e_maxent st) (e2e_il st) (e2e_abort st)
             (e2e_upd_nth n q' (e2e_detached st)), r)
  end.

(* the window a SACK advertises *)
Definition e2e_a_rwnd (st : e2e_rcv) : Z := e2e_credit (e2e_buf st) (e2e_streams st) (e2e_detached st).

Definition e2e_new (peer_tsn buf maxent : Z) (il : bool) : e2e_rcv :=
  mkE2E (rpq_init (rpq_new (getMaxTSNOffset buf)) (wrap32 (peer_tsn - 1))) [] buf maxent il false [].

(* ------------------------------------------------------------------------------------------ *)
(* sender universe                                                                              *)
(* ------------------------------------------------------------------------------------------ *)
Record e2e_msg := mkE2EMsg { em_sid : Z; em_ppi : Z; em_data : list Z }.

(* payload slices of at most maxp bytes, as packetize cuts them (structural on a fuel = length) *)
Fixpoint e2e_slices (fuel : nat) (maxp : nat) (d : list Z) : list (list Z) :=
  match d, fuel with
  | [], _ => []
  | _, O => [d]
  | _, S f => firstn maxp d :: e2e_slices f maxp (skipn maxp d)
  end.
Definition e2e_frags (maxp : nat) (d : list Z) : list (list Z) := e2e_slices (length d) maxp d.

(* the chunk carrying fragment j (of n) of the k-th ordered message of its stream, at TSN index i *)
Definition e2e_chunk (il : bool) (i sid k ppi j n : Z) (payload : list Z) : rqchunk :=
  if il then
    mkRqChunk (wrap32 i) sid (wrap16 (wrap32 k)) (wrap32 k) j (if j =? 0 then ppi else 0)
              false (j =? 0) (j =? n - 1) true payload
  else
    mkRqChunk (wrap32 i) sid (wrap16 k) 0 0 ppi false (j =? 0) (j =? n - 1) false payload.

(* per-stream message counters *)
Fixpoint e2e_cnt (sid : Z) (cs : list (Z * Z)) : Z :=
  match cs with [] => 0 | (s, n) :: t => if s =? sid then n else e2e_cnt sid t end.
Fixpoint e2e_cnt_inc (sid : Z) (cs : list (Z * Z)) : list (Z * Z) :=
  match cs with
  | [] => [(sid, 1)]
  | (s, n) :: t => if s =? sid then (s, n + 1) :: t else (s, n) :: e2e_cnt_inc sid t
  end.

Fixpoint e2e_msg_chunks (il : bool) (i sid k ppi : Z) (j n : Z) (frs : list (list Z)) : list (Z * rqchunk) :=
  match frs with
  | [] => []
  | p :: t => (i, e2e_chunk il i sid k ppi j n p) :: e2e_msg_chunks il (i + 1) sid k ppi (j + 1) n t
  end.

(* DATA mode (message mode of the pending queue): whole messages, one after the other, consecutive TSNs.
   Result: (TSN index, chunk) pairs. *)
Fixpoint e2e_gen_data (maxp : nat) (i : Z) (cnt : list (Z * Z)) (ws : list e2e_msg) : list (Z * rqchunk) :=
  match ws with
  | [] => []
  | w :: t =>
      let frs := e2e_frags maxp (em_data w) in
      let k := e2e_cnt (em_sid w) cnt in
      e2e_msg_chunks false i (em_sid w) k (em_ppi w) 0 (Z.of_nat (length frs)) frs ++
      e2e_gen_data maxp (i + Z.of_nat (length frs)) (e2e_cnt_inc (em_sid w) cnt) t
  end.

(* the messages written on stream sid, in order *)
Definition e2e_written (sid : Z) (ws : list e2e_msg) : list e2e_msg := filter (fun w => em_sid w =? sid) ws.
